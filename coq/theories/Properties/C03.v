(* C03 — dense matrix and vector algebra.  Property theorems only: every theorem is closed by an
   `exact`/`apply` of a lemma of SC.C03.Proofs*.  Statements are about the executable model
   SC.C03.Model (column-major `dm T` exactly like the Rust struct; a panic is `None`), which the
   correspondence check ties to src/linalg/naive/dense_matrix.rs, src/linalg/mod.rs,
   src/linalg/stats.rs and src/linalg/high_order.rs.  `get K m r c` is the logical
   rows-by-columns view; `wf m` says the storage vector has nrows*ncols entries (true of every
   matrix the constructors and operations return).  Theorems over `T`/`K` hold for every scalar
   type (in particular for binary64 with its roundings); theorems over `ROps` are statements in
   exact real arithmetic. *)
From Coq Require Import List Arith Bool Lia Reals Sorted.
From SC Require Import Base.Num C03.Model C03.ProofsBase C03.ProofsAlg C03.ProofsRed C03.ProofsOrd C03.ProofsVec C03.ProofsNorm.
Import ListNotations.
Local Open Scope nat_scope.

(* ================= addressing ================= *)

(* Column-major tabulation and `get` are mutually inverse: a fill-every-cell loop produces the matrix
   whose logical view is f ... *)
Theorem C03_get_tab : forall (T : Type) (K : Ops T) n p (f : nat -> nat -> T) r c,
  r < n -> c < p -> get K (tab n p f) r c = f r c.
Proof. intros T K. exact (get_tab K). Qed.

(* ... and re-tabulating the view of a well-formed matrix gives back its storage. *)
Theorem C03_tab_get : forall (T : Type) (K : Ops T) (m : dm T),
  wf m -> tab (nrows m) (ncols m) (get K m) = m.
Proof. intros T K. exact (tab_get K). Qed.

(* Hence a well-formed matrix is determined by its shape and its logical view. *)
Theorem C03_view_extensionality : forall (T : Type) (K : Ops T) (a b : dm T),
  wf a -> wf b -> nrows a = nrows b -> ncols a = ncols b ->
  (forall r c, r < nrows a -> c < ncols a -> get K a r c = get K b r c) -> a = b.
Proof. intros T K. exact (dm_ext K). Qed.

(* ================= construction ================= *)

(* from_array / from_vec read ROW-major data: entry (r,c) is values[r*ncols + c]; too few values panic. *)
Theorem C03_from_array_view : forall (T : Type) (K : Ops T) n p (vals : list T),
  (length vals < n * p -> from_vec K n p vals = None) /\
  (n * p <= length vals -> exists m, from_vec K n p vals = Some m /\ nrows m = n /\ ncols m = p /\ wf m /\
     forall r c, r < n -> c < p -> get K m r c = nth (r * p + c) vals (o0 K)).
Proof. intros T K. exact (from_vec_spec K). Qed.

Theorem C03_from_2d_array_view : forall (T : Type) (K : Ops T) (first : list T) (rest : list (list T)),
  exists m, from_2d_vec K (first :: rest) = Some m /\ nrows m = S (length rest) /\ ncols m = length first /\ wf m /\
    forall r c, r < S (length rest) -> c < length first ->
      get K m r c = nth c (nth r (first :: rest) []) (o0 K).
Proof. intros T K. exact (from_2d_vec_spec K). Qed.

Theorem C03_row_column_vectors : forall (T : Type) (K : Ops T) (v : list T) i,
  get K (row_vector_from_vec v) 0 i = nth i v (o0 K) /\ get K (column_vector_from_vec v) i 0 = nth i v (o0 K) /\
  shape (row_vector_from_vec v) = (1, length v) /\ shape (column_vector_from_vec v) = (length v, 1) /\
  wf (row_vector_from_vec v) /\ wf (column_vector_from_vec v).
Proof.
  intros T K v i.
  split; [exact (row_vector_get K v i)|]. split; [exact (column_vector_get K v i)|].
  split; [reflexivity|]. split; [reflexivity|].
  split; [exact (row_vector_wf v) | exact (column_vector_wf v)].
Qed.

Theorem C03_fill_eye_view : forall (T : Type) (K : Ops T) n p (v : T) r c,
  (r < n -> c < p -> get K (fill n p v) r c = v) /\ wf (fill n p v) /\
  (r < n -> c < n -> get K (eye K n) r c = if Nat.eqb r c then o1 K else o0 K).
Proof.
  intros T K n p v r c. split; [exact (get_fill K n p v r c)|]. split; [exact (fill_wf n p v)|].
  exact (get_eye K n r c).
Qed.

(* ================= get / set, rows, columns, iteration order ================= *)

Theorem C03_get_bounds : forall (T : Type) (K : Ops T) (m : dm T) r c, wf m ->
  get_chk m r c = if (r <? nrows m) && (c <? ncols m) then Some (get K m r c) else None.
Proof. intros T K. exact (get_chk_spec K). Qed.

Theorem C03_set_get : forall (T : Type) (K : Ops T) (m : dm T) r c (v : T),
  wf m -> r < nrows m -> c < ncols m ->
  exists m', set m r c v = Some m' /\ nrows m' = nrows m /\ ncols m' = ncols m /\ wf m' /\
    forall r' c', r' < nrows m -> c' < ncols m ->
      get K m' r' c' = if Nat.eqb r' r && Nat.eqb c' c then v else get K m r' c'.
Proof. intros T K. exact (set_spec K). Qed.

(* iter() and to_row_vector() enumerate the logical view in row-major order, for every shape *)
Theorem C03_iter_row_major : forall (T : Type) (K : Ops T) (m : dm T),
  to_row_vector K m = row_major K m /\ length (row_major K m) = nrows m * ncols m /\
  (forall r c, r < nrows m -> c < ncols m -> nth (r * ncols m + c) (row_major K m) (o0 K) = get K m r c) /\
  (forall k, k < nrows m * ncols m -> nth k (row_major K m) (o0 K) = get K m (k / ncols m) (k mod ncols m)).
Proof.
  intros T K m. split; [reflexivity|]. split; [exact (row_major_length K m)|].
  split; [exact (nth_row_major K m) | exact (nth_row_major_divmod K m)].
Qed.

Theorem C03_get_row_col : forall (T : Type) (K : Ops T) (m : dm T),
  (forall r, r < nrows m -> exists row, get_row K m r = Some row /\ length row = ncols m /\
      forall c, c < ncols m -> nth c row (o0 K) = get K m r c) /\
  (forall c, c < ncols m -> exists col, get_col K m c = Some col /\ length col = nrows m /\
      forall r, r < nrows m -> nth r col (o0 K) = get K m r c) /\
  (forall r, nrows m <= r -> 0 < ncols m -> get_row K m r = None) /\
  (forall c, ncols m <= c -> 0 < nrows m -> get_col K m c = None).
Proof.
  intros T K m. repeat split.
  - intros r Hr. destruct (get_row_some K m r Hr) as [row Hrow]. exists row. split; [exact Hrow|].
    split.
    + unfold get_row in Hrow. destruct ((nrows m <=? r) && (0 <? ncols m)); [discriminate|].
      injection Hrow as <-. rewrite map_length, seq_length. reflexivity.
    + intros c Hc. exact (proj2 (get_row_nth K m r row c Hrow Hc)).
  - intros c Hc. destruct (get_col_some K m c Hc) as [col Hcol]. exists col. split; [exact Hcol|].
    split.
    + unfold get_col in Hcol. destruct ((ncols m <=? c) && (0 <? nrows m)); [discriminate|].
      injection Hcol as <-. rewrite map_length, seq_length. reflexivity.
    + intros r Hr. exact (proj2 (get_col_nth K m c col r Hcol Hr)).
  - exact (get_row_none K m).
  - exact (get_col_none K m).
Qed.

(* ================= transpose, stacking, slicing, reshape, take ================= *)

Theorem C03_transpose_view : forall (T : Type) (K : Ops T) (m : dm T),
  nrows (transpose K m) = ncols m /\ ncols (transpose K m) = nrows m /\ wf (transpose K m) /\
  (forall r c, r < ncols m -> c < nrows m -> get K (transpose K m) r c = get K m c r) /\
  (wf m -> transpose K (transpose K m) = m).
Proof.
  intros T K m. destruct (transpose_shape K m) as [H1 [H2 H3]]. repeat split; try assumption.
  - exact (get_transpose K m).
  - exact (transpose_involutive K m).
Qed.

Theorem C03_v_stack_view : forall (T : Type) (K : Ops T) (a b : dm T),
  (ncols a <> ncols b -> v_stack K a b = None) /\
  (ncols a = ncols b -> exists m, v_stack K a b = Some m /\ nrows m = nrows a + nrows b /\ ncols m = ncols a /\ wf m /\
     forall r c, r < nrows a + nrows b -> c < ncols a ->
       get K m r c = if r <? nrows a then get K a r c else get K b (r - nrows a) c).
Proof. intros T K. exact (v_stack_spec K). Qed.

Theorem C03_h_stack_view : forall (T : Type) (K : Ops T) (a b : dm T),
  (nrows a <> nrows b -> h_stack K a b = None) /\
  (nrows a = nrows b -> exists m, h_stack K a b = Some m /\ nrows m = nrows a /\ ncols m = ncols a + ncols b /\ wf m /\
     forall r c, r < nrows a -> c < ncols a + ncols b ->
       get K m r c = if c <? ncols a then get K a r c else get K b r (c - ncols a)).
Proof. intros T K. exact (h_stack_spec K). Qed.

Theorem C03_slice_view : forall (T : Type) (K : Ops T) (m : dm T) r0 r1 c0 c1,
  (r0 < r1 -> c0 < c1 -> (nrows m < r1 \/ ncols m < c1) -> slice K m r0 r1 c0 c1 = None) /\
  ((r1 <= nrows m /\ c1 <= ncols m) \/ r1 <= r0 \/ c1 <= c0 ->
     exists s, slice K m r0 r1 c0 c1 = Some s /\ nrows s = r1 - r0 /\ ncols s = c1 - c0 /\ wf s /\
       forall r c, r < r1 - r0 -> c < c1 - c0 -> get K s r c = get K m (r + r0) (c + c0)).
Proof. intros T K. exact (slice_spec K). Qed.

(* reshape keeps the logical row-major order for EVERY source and target shape (div/mod addressing),
   and rejects a target with a different number of elements *)
Theorem C03_reshape_row_major : forall (T : Type) (K : Ops T) (m : dm T) n p,
  (nrows m * ncols m <> n * p -> reshape K m n p = None) /\
  (nrows m * ncols m = n * p ->
     exists m', reshape K m n p = Some m' /\ nrows m' = n /\ ncols m' = p /\ wf m' /\
       row_major K m' = row_major K m /\
       forall r c, r < n -> c < p -> get K m' r c = nth (r * p + c) (row_major K m) (o0 K)).
Proof. intros T K m n p. split; [exact (reshape_none K m n p) | exact (reshape_spec K m n p)]. Qed.

Theorem C03_take_rows_view : forall (T : Type) (K : Ops T) (m : dm T) (index : list nat),
  ((exists i, In i index /\ nrows m <= i) -> 0 < ncols m -> take K m index true = None) /\
  ((forall i, In i index -> i < nrows m) ->
     exists t, take K m index true = Some t /\ nrows t = length index /\ ncols t = ncols m /\ wf t /\
       forall i j, i < length index -> j < ncols m -> get K t i j = get K m (nth i index 0) j).
Proof. intros T K. exact (take_rows_spec K). Qed.

Theorem C03_take_cols_view : forall (T : Type) (K : Ops T) (m : dm T) (index : list nat),
  ((exists i, In i index /\ ncols m <= i) -> 0 < nrows m -> take K m index false = None) /\
  ((forall i, In i index -> i < ncols m) ->
     exists t, take K m index false = Some t /\ nrows t = nrows m /\ ncols t = length index /\ wf t /\
       forall j i, j < nrows m -> i < length index -> get K t j i = get K m j (nth i index 0)).
Proof. intros T K. exact (take_cols_spec K). Qed.

Theorem C03_copy_from_contract : forall (T : Type) (a b : dm T), wf a -> wf b ->
  copy_from a b = if (nrows a =? nrows b) && (ncols a =? ncols b) then Some b else None.
Proof. intros T. exact (@copy_from_spec T). Qed.

(* ================= products ================= *)

Theorem C03_matmul_view : forall (T : Type) (K : Ops T) (a b : dm T),
  (ncols a <> nrows b -> matmul K a b = None) /\
  (ncols a = nrows b -> exists m, matmul K a b = Some m /\ nrows m = nrows a /\ ncols m = ncols b /\ wf m /\
     forall r c, r < nrows a -> c < ncols b ->
       get K m r c = osumn K (ncols a) (fun i => omul K (get K a r i) (get K b i c))).
Proof. intros T K a b. split; [exact (matmul_none K a b) | exact (matmul_spec K a b)]. Qed.

(* `ab` with any of the four flag combinations is exactly (same shape test, same sums, same roundings)
   the product of the correspondingly transposed operands *)
Theorem C03_ab_flags : forall (T : Type) (K : Ops T) (a b : dm T) (ta tb : bool),
  ab K a ta b tb = matmul K (if ta then transpose K a else a) (if tb then transpose K b else b).
Proof. intros T K a b ta tb. exact (ab_matmul_transpose K a ta b tb). Qed.

(* dot: accepted exactly for two vectors (each a row or a column) with the same number of elements, and
   then it is the inner product in logical order whatever the two orientations *)
Theorem C03_dot_contract : forall (T : Type) (K : Ops T) (a b : dm T),
  (dot K a b = None <-> ~ both_vectors_same_size a b) /\
  (both_vectors_same_size a b ->
     dot K a b = Some (osumn K (nrows a * ncols a) (fun i => omul K (vec_at K a i) (vec_at K b i)))).
Proof. intros T K a b. split; [exact (dot_none_iff K a b) | exact (dot_spec K a b)]. Qed.

(* ================= element-wise and scalar arithmetic ================= *)

(* add / sub / mul / div (= zip_with of the scalar operation; the in-place and the copying methods of the
   implementation are both checked against this one function) *)
Theorem C03_elementwise_view : forall (T : Type) (K : Ops T) (f : T -> T -> T) (a b : dm T),
  (zip_with K f a b = None <-> (nrows a <> nrows b \/ ncols a <> ncols b)) /\
  (nrows a = nrows b -> ncols a = ncols b ->
     exists m, zip_with K f a b = Some m /\ nrows m = nrows a /\ ncols m = ncols a /\ wf m /\
       forall r c, r < nrows a -> c < ncols a -> get K m r c = f (get K a r c) (get K b r c)).
Proof. intros T K f a b. split; [exact (zip_with_none_iff K f a b) | exact (zip_with_spec K f a b)]. Qed.

Theorem C03_add_sub_mul_div : forall (T : Type) (K : Ops T),
  add K = zip_with K (oadd K) /\ sub K = zip_with K (osub K) /\ mul K = zip_with K (omul K) /\ div K = zip_with K (odiv K).
Proof. intros T K. repeat split. Qed.

(* scalar arithmetic, negative, abs, pow are entrywise maps; binarize is the threshold indicator *)
Theorem C03_map_view : forall (T : Type) (K : Ops T) (f : T -> T) (m : dm T) r c,
  nrows (map_values f m) = nrows m /\ ncols (map_values f m) = ncols m /\ (wf m -> wf (map_values f m)) /\
  (wf m -> r < nrows m -> c < ncols m -> get K (map_values f m) r c = f (get K m r c)).
Proof.
  intros T K f m r c. destruct (map_values_shape f m) as [H1 [H2 H3]].
  repeat split; try assumption. exact (get_map_values K f m r c).
Qed.

Theorem C03_scalar_ops : forall (T : Type) (K : Ops T) (m : dm T) (x : T) r c,
  wf m -> r < nrows m -> c < ncols m ->
  get K (add_scalar K m x) r c = oadd K (get K m r c) x /\ get K (sub_scalar K m x) r c = osub K (get K m r c) x /\
  get K (mul_scalar K m x) r c = omul K (get K m r c) x /\ get K (div_scalar K m x) r c = odiv K (get K m r c) x /\
  get K (negative K m) r c = oneg K (get K m r c) /\ get K (abs K m) r c = oabs K (get K m r c) /\
  get K (pow K m x) r c = opow K (get K m r c) x.
Proof.
  intros T K m x r c Hwf Hr Hc. repeat split.
  - exact (get_add_scalar K m x r c Hwf Hr Hc).
  - exact (get_sub_scalar K m x r c Hwf Hr Hc).
  - exact (get_mul_scalar K m x r c Hwf Hr Hc).
  - exact (get_div_scalar K m x r c Hwf Hr Hc).
  - exact (get_negative K m r c Hwf Hr Hc).
  - exact (get_abs K m r c Hwf Hr Hc).
  - exact (get_pow K m x r c Hwf Hr Hc).
Qed.

Theorem C03_binarize_view : forall (T : Type) (K : Ops T) (m : dm T) (t : T),
  nrows (binarize K m t) = nrows m /\ ncols (binarize K m t) = ncols m /\ wf (binarize K m t) /\
  forall r c, r < nrows m -> c < ncols m ->
    get K (binarize K m t) r c = if oltb K t (get K m r c) then o1 K else o0 K.
Proof. intros T K. exact (binarize_spec K). Qed.

(* ================= equality tests ================= *)

Theorem C03_equality_shape_mismatch_false : forall (T : Type) (K : Ops T) (a b : dm T) (err : T),
  (nrows a <> nrows b \/ ncols a <> ncols b) ->
  approximate_eq K a b err = false /\ eq_dm K err a b = false.
Proof. intros T K a b err H. split; [exact (approximate_eq_shape K a b err H) | exact (eq_dm_shape K err a b H)]. Qed.

Theorem C03_approximate_eq_R : forall (a b : dm R) (err : R), nrows a = nrows b -> ncols a = ncols b ->
  (approximate_eq ROps a b err = true <->
   forall r c, r < nrows a -> c < ncols a -> (Rabs (get ROps a r c - get ROps b r c) <= err)%R).
Proof. exact approximate_eq_R. Qed.

(* ================= BaseVector for Vec<T> ================= *)

Theorem C03_vector_contracts : forall (T : Type) (K : Ops T) (f : T -> T -> T) (a b : list T) (err : T),
  (vdot K a b = None <-> length a <> length b) /\
  (length a = length b -> vdot K a b = Some (osumn K (length a) (fun i => omul K (nth i a (o0 K)) (nth i b (o0 K))))) /\
  (vzip f a b = None <-> length a <> length b) /\
  (length a = length b -> exists l, vzip f a b = Some l /\ length l = length a /\
       forall d i, i < length a -> nth i l d = f (nth i a d) (nth i b d)) /\
  vcopy_from a b = (if length a =? length b then Some b else None) /\
  (length a <> length b -> vapprox_eq K a b err = false).
Proof.
  intros T K f a b err.
  split; [exact (vdot_none_iff K a b)|]. split; [exact (vdot_spec K a b)|].
  split; [exact (vzip_none_iff f a b)|]. split; [exact (vzip_spec f a b)|].
  split; [exact (vcopy_from_spec a b) | exact (vapprox_eq_length K a b err)].
Qed.

Theorem C03_vector_take : forall (T : Type) (K : Ops T) (a : list T) (index : list nat),
  ((exists i, In i index /\ length a <= i) -> vtake K a index = None) /\
  ((forall i, In i index -> i < length a) -> vtake K a index = Some (map (fun i => nth i a (o0 K)) index)).
Proof. intros T K. exact (vtake_spec K). Qed.

(* ================= reductions over R: independent of the storage order ================= *)

(* sum folds the column-major storage; it equals the row-by-row double sum over the logical view
   (finite-sum swap), hence sum(A^T) = sum(A) *)
Theorem C03_sum_storage_independent : forall m : dm R, wf m ->
  sum ROps m = rsum (nrows m) (fun r => rsum (ncols m) (fun c => get ROps m r c)) /\
  sum ROps m = rsum (ncols m) (fun c => rsum (nrows m) (fun r => get ROps m r c)) /\
  sum ROps (transpose ROps m) = sum ROps m.
Proof. intros m H. split; [exact (sum_view m H)|]. split; [exact (sum_view_cols m H) | exact (sum_transpose m H)]. Qed.

Theorem C03_norm2_view : forall m : dm R, wf m ->
  norm2 ROps m = sqrt (rsum (nrows m) (fun r => rsum (ncols m) (fun c => (get ROps m r c ^ 2)%R))).
Proof. exact norm2_view. Qed.

Theorem C03_max_min_view : forall m : dm R, wf m -> 0 < nrows m * ncols m ->
  (exists v, Model.max ROps m = Some v /\
     (forall r c, r < nrows m -> c < ncols m -> (get ROps m r c <= v)%R) /\
     (exists r c, r < nrows m /\ c < ncols m /\ get ROps m r c = v)) /\
  (exists v, Model.min ROps m = Some v /\
     (forall r c, r < nrows m -> c < ncols m -> (v <= get ROps m r c)%R) /\
     (exists r c, r < nrows m /\ c < ncols m /\ get ROps m r c = v)).
Proof. intros m H1 H2. split; [exact (max_spec m H1 H2) | exact (min_spec m H1 H2)]. Qed.

Theorem C03_inf_norms_view : forall m : dm R, wf m -> 0 < nrows m * ncols m ->
  (exists v, norm_pinf ROps m = Some v /\
     (forall r c, r < nrows m -> c < ncols m -> (Rabs (get ROps m r c) <= v)%R) /\
     (exists r c, r < nrows m /\ c < ncols m /\ Rabs (get ROps m r c) = v)) /\
  (exists v, norm_ninf ROps m = Some v /\
     (forall r c, r < nrows m -> c < ncols m -> (v <= Rabs (get ROps m r c))%R) /\
     (exists r c, r < nrows m /\ c < ncols m /\ Rabs (get ROps m r c) = v)).
Proof. intros m H1 H2. split; [exact (norm_pinf_spec m H1 H2) | exact (norm_ninf_spec m H1 H2)]. Qed.

(* ================= statistics over R ================= *)

Theorem C03_column_mean_formula : forall (m : dm R) c, c < ncols m ->
  length (column_mean ROps m) = ncols m /\
  nth c (column_mean ROps m) 0%R = (rsum (nrows m) (fun r => get ROps m r c) / INR (nrows m))%R.
Proof. intros m c H. split; [exact (column_mean_length m) | exact (column_mean_nth m c H)]. Qed.

(* mean along either axis (axis0 = true: one value per column) *)
Theorem C03_mean_formula : forall (m : dm R) (axis0 : bool) i, i < n_lines m axis0 ->
  length (mean ROps m axis0) = n_lines m axis0 /\
  nth i (mean ROps m axis0) 0%R
  = (rsum (line_len m axis0) (fun j => line ROps m axis0 i j) / INR (line_len m axis0))%R.
Proof. intros m ax i H. split; [exact (mean_length m ax) | exact (mean_nth m ax i H)]. Qed.

(* over R the coded one-pass variance (sum x^2 / n - (sum x / n)^2) IS the definition: the mean of the
   squared deviations from the mean.  (An identity of exact arithmetic only; in binary64 the one-pass
   form cancels under a large common offset: known finding matrix-var-cancellation.) *)
Theorem C03_var_one_pass_is_definition : forall (m : dm R) (axis0 : bool) i,
  i < n_lines m axis0 -> 0 < line_len m axis0 ->
  length (var ROps m axis0) = n_lines m axis0 /\
  nth i (var ROps m axis0) 0%R
  = (rsum (line_len m axis0) (fun j => (line ROps m axis0 i j - line_mean m axis0 i) ^ 2) / INR (line_len m axis0))%R /\
  (0 <= nth i (var ROps m axis0) 0%R)%R /\
  nth i (std ROps m axis0) 0%R = sqrt (nth i (var ROps m axis0) 0%R).
Proof.
  intros m ax i H1 H2. split; [exact (var_length m ax)|]. split; [exact (var_nth m ax i H1 H2)|].
  split; [exact (var_nonneg m ax i H1 H2) | exact (std_nth m ax i H1)].
Qed.

Theorem C03_scale_view : forall (m : dm R) (mean_ std_ : list R) (axis0 : bool),
  (n_lines m axis0 <= length mean_ -> n_lines m axis0 <= length std_ ->
     exists m', scale ROps m mean_ std_ axis0 = Some m' /\ nrows m' = nrows m /\ ncols m' = ncols m /\ wf m' /\
       forall r c, r < nrows m -> c < ncols m ->
         get ROps m' r c
         = ((get ROps m r c - nth (if axis0 then c else r) mean_ 0) / nth (if axis0 then c else r) std_ 0)%R) /\
  ((length mean_ < n_lines m axis0 \/ length std_ < n_lines m axis0) -> 0 < line_len m axis0 ->
     scale ROps m mean_ std_ axis0 = None).
Proof. intros m mu sd ax. split; [exact (scale_spec m mu sd ax) | exact (scale_none m mu sd ax)]. Qed.

(* covariance: the unbiased formula on both triangles, symmetric; a matrix without rows is rejected *)
Theorem C03_cov_formula_symmetric : forall (m : dm R) m1, nrows m = S m1 ->
  exists C, cov ROps m = Some C /\ nrows C = ncols m /\ ncols C = ncols m /\ wf C /\
    (forall i j, i < ncols m -> j < ncols m ->
       get ROps C i j
       = (rsum (nrows m) (fun k => (get ROps m k i - col_mu m i) * (get ROps m k j - col_mu m j)) / INR m1)%R) /\
    (forall i j, i < ncols m -> j < ncols m -> get ROps C i j = get ROps C j i).
Proof. exact cov_spec. Qed.

(* BaseVector mean / var / std: the (repaired) two-pass variance is the definition, and it is invariant
   under adding a common offset to every element *)
Theorem C03_vector_var_two_pass : forall (a : list R) (c : R),
  vmean ROps a = (rsum (length a) (fun i => nth i a 0) / INR (length a))%R /\
  vvar ROps a = (rsum (length a) (fun i => (nth i a 0 - vmean ROps a) ^ 2) / INR (length a))%R /\
  (0 <= vvar ROps a)%R /\ vstd ROps a = sqrt (vvar ROps a) /\
  vvar ROps (map (fun x => (x + c)%R) a) = vvar ROps a.
Proof.
  intros a c. split; [exact (vmean_def a)|]. split; [exact (vvar_def a)|]. split; [exact (vvar_nonneg a)|].
  split; [exact (vstd_def a) | exact (vvar_shift a c)].
Qed.

(* ================= argmax, unique, softmax over R ================= *)

(* argmax returns, for every row, the FIRST column holding the row maximum *)
Theorem C03_argmax_first_maximum : forall (m : dm R) r, r < nrows m -> 0 < ncols m ->
  length (argmax ROps m) = nrows m /\
  let k := nth r (argmax ROps m) 0 in
  k < ncols m /\
  (forall c, c < ncols m -> (get ROps m r c <= get ROps m r k)%R) /\
  (forall c, c < k -> (get ROps m r c < get ROps m r k)%R).
Proof. intros m r H1 H2. split; [exact (argmax_length m) | exact (argmax_spec m r H1 H2)]. Qed.

(* unique: strictly increasing (hence duplicate-free) with exactly the entries of the matrix as support *)
Theorem C03_unique_sorted_support : forall (m : dm R),
  StronglySorted Rlt (unique ROps m) /\ NoDup (unique ROps m) /\
  (wf m -> forall x, In x (unique ROps m) <-> exists r c, r < nrows m /\ c < ncols m /\ get ROps m r c = x).
Proof.
  intros m. destruct (unique_sorted m) as [H1 H2]. split; [exact H1|]. split; [exact H2|].
  intros Hwf x. exact (In_unique_get m x Hwf).
Qed.

Theorem C03_vector_unique : forall (a : list R),
  StronglySorted Rlt (vunique ROps a) /\ NoDup (vunique ROps a) /\ (forall x, In x (vunique ROps a) <-> In x a).
Proof. exact vunique_spec. Qed.

(* softmax of any non-empty real matrix is a probability vector, and the shift is by the maximum entry:
   every exponent is <= 0, one is 0, so the normaliser is >= 1 (no 0/0, the repaired defect D5) *)
Theorem C03_softmax_probability : forall (m : dm R), wf m -> 0 < nrows m * ncols m ->
  exists mx s,
    fold1 (omax ROps) (values m) = Some mx /\ is_max_entry m mx /\
    softmax ROps m = Some s /\ nrows s = nrows m /\ ncols s = ncols m /\ wf s /\
    (1 <= softmax_z m mx)%R /\
    (forall r c, r < nrows m -> c < ncols m ->
       get ROps s r c = (exp (get ROps m r c - mx) / softmax_z m mx)%R /\
       (get ROps m r c - mx <= 0)%R /\ (0 < exp (get ROps m r c - mx) <= 1)%R /\
       (0 < get ROps s r c <= 1)%R) /\
    fold_left Rplus (row_major ROps s) 0%R = 1%R /\
    osumn ROps (nrows s) (fun r => osumn ROps (ncols s) (fun c => get ROps s r c)) = 1%R.
Proof. exact softmax_spec. Qed.

(* ================= the hypotheses are satisfiable ================= *)
(* ex23 = [[1,2,3],[4,5,6]] stored column-major *)
Example C03_ex_wf : wf ex23 /\ 0 < nrows ex23 * ncols ex23 /\ nrows ex23 = S 1 /\ 1 < n_lines ex23 true /\ 0 < line_len ex23 true.
Proof. split; [exact ex23_wf|]. cbn. lia. Qed.
Example C03_ex_stats :
  nth 0 (mean ROps ex23 true) 0%R = (5 / 2)%R /\ nth 0 (var ROps ex23 true) 0%R = (9 / 4)%R /\
  nth 1 (mean ROps ex23 false) 0%R = 5%R /\ nth 1 (var ROps ex23 false) 0%R = (2 / 3)%R.
Proof. destruct mean_var_ex23 as [H1 [H2 [H3 [H4 _]]]]. repeat split; assumption. Qed.
Example C03_ex_sum : sum ROps ex23 = 21%R /\ sum ROps (transpose ROps ex23) = sum ROps ex23.
Proof. exact sum_view_ex23. Qed.
Example C03_ex_cov : exists C, cov ROps ex23 = Some C /\ get ROps C 0 1 = (9 / 2)%R /\ get ROps C 1 0 = (9 / 2)%R /\ get ROps C 2 2 = (9 / 2)%R.
Proof. exact cov_ex23. Qed.
Example C03_ex_argmax_tie : argmax ROps (mkdm 1 3 [2; 5; 5]%R) = [1].
Proof. exact argmax_ex_tie. Qed.
Example C03_ex_unique : unique ROps (mkdm 2 2 [1; 3; 3; 2]%R) = [1; 2; 3]%R.
Proof. exact unique_ex_2x2. Qed.
Example C03_ex_softmax : softmax ROps (mkdm 1 2 [0; 0]%R) = Some (mkdm 1 2 [/ 2; / 2]%R).
Proof. exact softmax_ex_1x2. Qed.
(* generic instance over nat: non-symmetric 2x3 by 3x2 product, a transposed product, dot of a row with a
   column, and the rejected pairings (D14: a 1x4 row with a 2x2 matrix) *)
Example C03_ex_products :
  matmul NatOps exA exB = Some (mkdm 2 2 [5; 14; 11; 23]) /\ matmul NatOps exA exA = None /\
  ab NatOps exA true exA false = Some (mkdm 3 3 [17; 22; 27; 22; 29; 36; 27; 36; 45]) /\
  dot NatOps (mkdm 1 3 [1; 2; 3]) (mkdm 3 1 [4; 5; 6]) = Some 32 /\
  dot NatOps (mkdm 1 4 [1; 2; 3; 4]) (mkdm 2 2 [5; 7; 6; 8]) = None /\
  add NatOps exA exB = None /\ approximate_eq NatOps exA exB 100 = false.
Proof. repeat split; reflexivity. Qed.
Example C03_ex_structure :
  transpose NatOps exA = mkdm 3 2 [1; 2; 3; 4; 5; 6] /\
  reshape NatOps exA 3 2 = Some (mkdm 3 2 [1; 3; 5; 2; 4; 6]) /\ reshape NatOps exA 4 2 = None /\
  row_major NatOps exA = [1; 2; 3; 4; 5; 6] /\
  slice NatOps exA 0 2 1 3 = Some (mkdm 2 2 [2; 5; 3; 6]) /\ slice NatOps exA 0 3 0 1 = None /\
  take NatOps exA [2; 0; 2] false = Some (mkdm 2 3 [3; 6; 1; 4; 3; 6]) /\ take NatOps exA [2] true = None /\
  h_stack NatOps exA exA = Some (mkdm 2 6 [1; 4; 2; 5; 3; 6; 1; 4; 2; 5; 3; 6]) /\ h_stack NatOps exA exB = None /\
  from_vec NatOps 2 3 [1; 2; 3; 4; 5; 6] = Some exA /\ from_vec NatOps 2 3 [1; 2; 3] = None.
Proof. repeat split; reflexivity. Qed.

(* ================= further operations ================= *)

(* add/sub/mul/div_element_mut update exactly one cell of the view *)
Theorem C03_element_update : forall (T : Type) (K : Ops T) (f : T -> T) (m : dm T) r c,
  wf m -> r < nrows m -> c < ncols m ->
  exists m', upd_element K f m r c = Some m' /\ nrows m' = nrows m /\ ncols m' = ncols m /\ wf m' /\
    forall r' c', r' < nrows m -> c' < ncols m ->
      get K m' r' c' = if Nat.eqb r' r && Nat.eqb c' c then f (get K m r c) else get K m r' c'.
Proof. intros T K. exact (upd_element_spec K). Qed.

(* copy_row_as_vec / copy_col_as_vec into a buffer of the matching length return the row / column *)
Theorem C03_copy_row_col : forall (T : Type) (K : Ops T) (m : dm T) i (res : list T),
  (length res = ncols m -> copy_row_as_vec K m i res = get_row K m i) /\
  (length res = nrows m -> copy_col_as_vec K m i res = get_col K m i).
Proof. intros T K m i res. split; [exact (copy_row_full K m i res) | exact (copy_col_full K m i res)]. Qed.

(* `==` on equal shapes: entrywise within the machine epsilon on the logical view (over R) *)
Theorem C03_exact_eq_R : forall (a b : dm R) (eps : R), wf a -> wf b -> nrows a = nrows b -> ncols a = ncols b ->
  (eq_dm ROps eps a b = true <->
   forall r c, r < nrows a -> c < ncols a -> (Rabs (get ROps a r c - get ROps b r c) <= eps)%R).
Proof. exact eq_dm_R. Qed.

(* ================= BaseVector arithmetic, constant vectors / matrices, from_row_vector ================= *)

(* `entrywise2 g a b v` : v has the length of a and its i-th entry is g a_i b_i;
   `entrywise1 g a v`   : v has the length of a and its i-th entry is g a_i  (both for every default of nth).
   For every scalar type (so also binary64 with its roundings): add/sub/mul/div of two vectors are rejected
   exactly when the lengths differ and are otherwise the entrywise operation; the _scalar forms are the
   entrywise operation with the scalar on the right; fill is constant; zeros / ones are the constant
   matrices; from_row_vector v is the well-formed 1 x n matrix whose (0,j) entry is v_j, and to_row_vector
   undoes it. *)
Theorem C03_vector_ops_elementwise : forall (T : Type) (K : Ops T) (a b : list T) (x : T) (n k : nat),
  ((vadd K a b = None <-> length a <> length b) /\ (vsub K a b = None <-> length a <> length b) /\
   (vmul K a b = None <-> length a <> length b) /\ (vdiv K a b = None <-> length a <> length b)) /\
  (length a = length b ->
     exists s d p q,
       vadd K a b = Some s /\ vsub K a b = Some d /\ vmul K a b = Some p /\ vdiv K a b = Some q /\
       entrywise2 (oadd K) a b s /\ entrywise2 (osub K) a b d /\
       entrywise2 (omul K) a b p /\ entrywise2 (odiv K) a b q) /\
  (entrywise1 (fun v => oadd K v x) a (vadd_scalar K a x) /\ entrywise1 (fun v => osub K v x) a (vsub_scalar K a x) /\
   entrywise1 (fun v => omul K v x) a (vmul_scalar K a x) /\ entrywise1 (fun v => odiv K v x) a (vdiv_scalar K a x)) /\
  (length (vfill n x) = n /\ forall d i, i < n -> nth i (vfill n x) d = x) /\
  (shape (zeros K n k) = (n, k) /\ shape (ones K n k) = (n, k) /\ wf (zeros K n k) /\ wf (ones K n k) /\
   forall r c, r < n -> c < k -> get K (zeros K n k) r c = o0 K /\ get K (ones K n k) r c = o1 K) /\
  (shape (from_row_vector a) = (1, length a) /\ wf (from_row_vector a) /\
   from_row_vector a = row_vector_from_vec a /\
   (forall j, get K (from_row_vector a) 0 j = nth j a (o0 K)) /\
   to_row_vector K (from_row_vector a) = a).
Proof.
  intros T K a b x n k.
  split; [exact (vbinary_none_iff K a b)|]. split; [exact (vbinary_spec K a b)|].
  split; [exact (conj (vadd_scalar_spec K a x) (conj (vsub_scalar_spec K a x)
                  (conj (vmul_scalar_spec K a x) (vdiv_scalar_spec K a x))))|].
  split; [exact (vfill_spec n x)|]. split; [exact (zeros_ones_spec K n k) | exact (from_row_vector_spec K a)].
Qed.

(* the entrywise characterisation determines the result (nothing else satisfies it) *)
Theorem C03_vector_entrywise_unique : forall (T : Type) (g : T -> T) (a v : list T),
  entrywise1 g a v -> v = map g a.
Proof. intros T. exact (@entrywise1_unique T). Qed.

(* ================= norms over R ================= *)

(* `rpow x y` is x^y for x >= 0 and y <> 0: 0 at x = 0 and the standard library's Rpower x y = exp (y ln x)
   for x > 0 — what the code's powf computes there; for a natural y = n >= 1 it is the ordinary power x^n.
   Vec::norm: order +inf is the largest |v_i| (a bound that is attained), order -inf the smallest, a finite
   order p <> 0 (in particular every p >= 1) is (sum_i |v_i|^p)^(1/p), which is non-negative and zero
   exactly for the zero vector; p = 1 is the sum of absolute values and p = 2 the Euclidean norm2. *)
Theorem C03_vector_norms : forall (a : list R) (p : R),
  (a = [] -> vnorm_pinf ROps a = None /\ vnorm_ninf ROps a = None) /\
  (a <> [] ->
     (exists v, vnorm_pinf ROps a = Some v /\
        (forall i, i < length a -> (Rabs (nth i a 0) <= v)%R) /\
        (exists i, i < length a /\ Rabs (nth i a 0%R) = v)) /\
     (exists v, vnorm_ninf ROps a = Some v /\
        (forall i, i < length a -> (v <= Rabs (nth i a 0))%R) /\
        (exists i, i < length a /\ Rabs (nth i a 0%R) = v))) /\
  (p <> 0%R ->
     vnorm_p ROps a p = rpow (rsum (length a) (fun i => rpow (Rabs (nth i a 0%R)) p)) (1 / p)%R /\
     (0 <= vnorm_p ROps a p)%R /\
     (vnorm_p ROps a p = 0%R <-> forall i, i < length a -> nth i a 0%R = 0%R)) /\
  (forall n, 0 < n ->
     vnorm_p ROps a (INR n) = rpow (rsum (length a) (fun i => (Rabs (nth i a 0) ^ n)%R)) (1 / INR n)%R) /\
  vnorm_p ROps a 1%R = rsum (length a) (fun i => Rabs (nth i a 0%R)) /\
  vnorm_p ROps a 2%R = vnorm2 ROps a /\
  vnorm2 ROps a = sqrt (rsum (length a) (fun i => (nth i a 0 ^ 2)%R)).
Proof.
  intros a p.
  split; [intros ->; exact vnorm_inf_nil|].
  split; [intros H; exact (conj (vnorm_pinf_spec a H) (vnorm_ninf_spec a H))|].
  split; [intros H; exact (conj (vnorm_p_formula a p H) (conj (vnorm_p_nonneg a p H) (vnorm_p_zero_iff a p H)))|].
  split; [exact (vnorm_p_nat a)|]. split; [exact (vnorm_p_1 a)|]. split; [exact (vnorm_p_2 a) | exact (vnorm2_def a)].
Qed.

Theorem C03_rpow_is_power : forall (x y : R) (n : nat),
  (0 <= rpow x y)%R /\ (rpow x y = 0%R <-> x = 0%R) /\ ((0 < x)%R -> rpow x y = Rpower x y) /\
  ((0 <= x)%R -> 0 < n -> rpow x (INR n) = (x ^ n)%R) /\ ((0 <= x)%R -> rpow x (1 / 2)%R = sqrt x) /\
  (y <> 0%R -> opow ROps x y = rpow x y) /\ opow ROps x 0%R = 1%R.
Proof.
  intros x y n. split; [exact (rpow_nonneg x y)|]. split; [exact (rpow_zero_iff x y)|].
  split; [exact (rpow_pos_Rpower x y)|]. split; [exact (rpow_INR x n)|]. split; [exact (rpow_half x)|].
  split; [exact (opow_R x y) | exact (opow_R_0 x)].
Qed.

(* DenseMatrix::norm of a finite order on the logical view: the same formula as the vector norm with the
   double sum over rows and columns (independent of the storage order; invariant under transposition) *)
Theorem C03_matrix_norm_p_view : forall (m : dm R) (p : R), wf m -> p <> 0%R ->
  norm_p ROps m p
  = rpow (rsum (nrows m) (fun r => rsum (ncols m) (fun c => rpow (Rabs (get ROps m r c)) p))) (1 / p)%R /\
  norm_p ROps (transpose ROps m) p = norm_p ROps m p.
Proof. intros m p H1 H2. split; [exact (norm_p_view m p H1 H2) | exact (norm_p_transpose m p H1 H2)]. Qed.

(* The vector-typed and the matrix-typed norm are twins: the matrix norm of the 1 x n matrix
   from_row_vector v (and of the n x 1 column vector) is the same computation as the vector norm of v, for
   each order the code distinguishes (+inf, -inf, finite p) and for norm2 — for every scalar type, hence
   bit for bit in binary64. *)
Theorem C03_norm_twin_agree : forall (T : Type) (K : Ops T) (v : list T) (p : T),
  norm_p K (from_row_vector v) p = vnorm_p K v p /\
  norm_pinf K (from_row_vector v) = vnorm_pinf K v /\
  norm_ninf K (from_row_vector v) = vnorm_ninf K v /\
  norm2 K (from_row_vector v) = vnorm2 K v /\
  norm_p K (column_vector_from_vec v) p = vnorm_p K v p /\
  norm_pinf K (column_vector_from_vec v) = vnorm_pinf K v /\
  norm_ninf K (column_vector_from_vec v) = vnorm_ninf K v /\
  norm2 K (column_vector_from_vec v) = vnorm2 K v.
Proof. intros T K. exact (norm_twin K). Qed.

(* ... and over R both twins are the extrema of |v_j|, the vector read through nth and the matrix through
   its logical view (0, j) *)
Theorem C03_norm_twin_values : forall (v : list R), v <> [] ->
  exists hi lo,
    vnorm_pinf ROps v = Some hi /\ norm_pinf ROps (from_row_vector v) = Some hi /\
    vnorm_ninf ROps v = Some lo /\ norm_ninf ROps (from_row_vector v) = Some lo /\
    (forall j, j < length v -> (lo <= Rabs (nth j v 0) <= hi)%R) /\
    (forall j, j < length v -> (lo <= Rabs (get ROps (from_row_vector v) 0 j) <= hi)%R) /\
    (exists j, j < length v /\ Rabs (nth j v 0%R) = hi /\ Rabs (get ROps (from_row_vector v) 0 j) = hi) /\
    (exists j, j < length v /\ Rabs (nth j v 0%R) = lo /\ Rabs (get ROps (from_row_vector v) 0 j) = lo).
Proof. exact norm_twin_R. Qed.

(* ... and for EVERY well-formed matrix the matrix norm equals the vector norm of its row-major flattening
   to_row_vector (the matrix method folds the column-major storage, the vector method the flattened data:
   over R the order does not matter) *)
Theorem C03_norm_flatten_twin : forall (m : dm R) (p : R), wf m ->
  norm_pinf ROps m = vnorm_pinf ROps (to_row_vector ROps m) /\
  norm_ninf ROps m = vnorm_ninf ROps (to_row_vector ROps m) /\
  (p <> 0%R -> norm_p ROps m p = vnorm_p ROps (to_row_vector ROps m) p) /\
  norm2 ROps m = vnorm2 ROps (to_row_vector ROps m).
Proof. exact norm_flatten_twin. Qed.

(* ================= max_diff over R ================= *)

(* rejected (panic) exactly when the shapes differ; otherwise d = max_rc |a_rc - b_rc| on the logical view
   (a bound that is attained; 0 for matrices without entries); symmetric; 0 exactly for equal matrices *)
Theorem C03_max_diff_spec : forall (a b : dm R), wf a -> wf b ->
  (max_diff ROps a b = None <-> (nrows a <> nrows b \/ ncols a <> ncols b)) /\
  (nrows a = nrows b -> ncols a = ncols b ->
     exists d, max_diff ROps a b = Some d /\ (0 <= d)%R /\
       (forall r c, r < nrows a -> c < ncols a -> (Rabs (get ROps a r c - get ROps b r c) <= d)%R) /\
       (0 < nrows a * ncols a ->
          exists r c, r < nrows a /\ c < ncols a /\ Rabs (get ROps a r c - get ROps b r c) = d) /\
       (nrows a * ncols a = 0 -> d = 0%R)) /\
  max_diff ROps a b = max_diff ROps b a /\
  (forall d, max_diff ROps a b = Some d -> (d = 0%R <-> a = b)).
Proof.
  intros a b Ha Hb. split; [exact (max_diff_none_iff a b Ha Hb)|]. split; [exact (max_diff_spec a b Ha Hb)|].
  split; [exact (max_diff_sym a b Ha Hb)|]. intros d. exact (max_diff_zero_iff a b d Ha Hb).
Qed.

(* the hypotheses of the four theorems above are satisfiable and the operations behave as stated on
   concrete data (a largest-magnitude entry that is negative; a minimum that is not the entry of smallest
   magnitude) *)
Example C03_ex_vector_ops :
  vadd NatOps [1; 2; 3] [10; 20; 30] = Some [11; 22; 33] /\ vsub NatOps [5; 7] [1; 2] = Some [4; 5] /\
  vmul NatOps [1; 2; 3] [4; 5; 6] = Some [4; 10; 18] /\ vadd NatOps [1; 2; 3] [1; 2] = None /\
  vmul_scalar NatOps [1; 2; 3] 3 = [3; 6; 9] /\ vfill 3 7 = [7; 7; 7] /\
  from_row_vector [4; 5; 6] = mkdm 1 3 [4; 5; 6] /\ zeros NatOps 2 2 = mkdm 2 2 [0; 0; 0; 0] /\
  ones NatOps 1 2 = mkdm 1 2 [1; 1].
Proof. exact vec_ops_ex. Qed.
Example C03_ex_vector_norms :
  vnorm_pinf ROps [-7; 2]%R = Some 7%R /\ vnorm_ninf ROps [1; -5; 3]%R = Some 1%R /\
  vnorm_p ROps [3; -4]%R 1%R = 7%R /\ vnorm_p ROps [3; -4]%R 2%R = 5%R.
Proof. exact vnorm_ex. Qed.
Example C03_ex_max_diff :
  max_diff ROps ex23 (transpose ROps ex23) = None /\ max_diff ROps ex23 ex23 = Some 0%R /\
  exists d, max_diff ROps ex23 (mkdm 2 3 [1; 4; 2; 8; 3; 5]%R) = Some d /\ d = 3%R.
Proof. exact max_diff_ex. Qed.

(* ------------------------------------------------------------------------------------------
   Rounding error of the binary64 instance of `sum` and the vector `dot` product (the very
   definitions the correspondence executes against the Rust code), proved through Flocq's
   PrimFloat bridge (Base/FloatError.v: FR x = real value of a float, u64 = 2^-53,
   eta64 = 2^-1075).  The only no-overflow hypothesis is that the RESULT is finite.  Bounds are
   relative to the sum of magnitudes (there is cancellation); RM m is m with every entry mapped
   to its real value.
   ------------------------------------------------------------------------------------------ *)
From Coq Require Import Floats.
From SC Require Base.FloatError C03.ProofsFloat.

Theorem C03_sum_float_error : forall (m : C03.Model.dm PrimFloat.float),
  FloatError.ffin (C03.Model.sum FOps m) ->
  let v := map FloatError.FR (C03.Model.values m) in
  C03.Model.sum ROps (C03.ProofsFloat.RM m) = FloatError.Rsuml v /\ Forall FloatError.ffin (C03.Model.values m) /\
  (Rabs (FloatError.FR (C03.Model.sum FOps m) - FloatError.Rsuml v)
     <= ((1 + FloatError.u64) ^ (length (C03.Model.values m) - 1) - 1) * FloatError.Rsumabs v)%R.
Proof. exact C03.ProofsFloat.sum_float_error. Qed.

Theorem C03_dot_float_error : forall (a b : C03.Model.dm PrimFloat.float) (d : PrimFloat.float),
  C03.Model.dot FOps a b = Some d -> FloatError.ffin d ->
  let n := (C03.Model.nrows a * C03.Model.ncols a)%nat in
  let t := fun i => (FloatError.FR (nth i (C03.Model.values a) 0%float) * FloatError.FR (nth i (C03.Model.values b) 0%float))%R in
  C03.Model.dot ROps (C03.ProofsFloat.RM a) (C03.ProofsFloat.RM b) = Some (FloatError.Rsuml (map t (seq 0 n))) /\
  (Rabs (FloatError.FR d - FloatError.Rsuml (map t (seq 0 n))) <=
    ((1 + FloatError.u64) ^ n - 1) * (FloatError.Rsumabs (map t (seq 0 n)) + INR n * FloatError.eta64) + INR n * FloatError.eta64)%R.
Proof. exact C03.ProofsFloat.dot_float_error. Qed.

(* ------------------------------------------------------------------------------------------
   More rounding theorems for the binary64 instance (C03/ProofsFloat2.v), same vocabulary.
   matmul / ab / Vec dot: every FINITE entry of the result is a dot product of K terms of either
   sign: error relative to the sum of magnitudes of the exact products, (1+u)^K - 1, plus K
   underflow terms 2^-1075; all operands that entered the entry are then finite.
   ------------------------------------------------------------------------------------------ *)
From Coq Require Import Lra.
From SC Require C03.ProofsFloat2.

Theorem C03_matmul_entry_float_error : forall (a b c : C03.Model.dm PrimFloat.float) (i j : nat),
  C03.Model.matmul FOps a b = Some c -> i < C03.Model.nrows a -> j < C03.Model.ncols b ->
  FloatError.ffin (C03.Model.get FOps c i j) ->
  let K := C03.Model.ncols a in
  let t := fun k => (FloatError.FR (C03.Model.get FOps a i k) * FloatError.FR (C03.Model.get FOps b k j))%R in
  (forall k, k < K -> FloatError.ffin (C03.Model.get FOps a i k) /\ FloatError.ffin (C03.Model.get FOps b k j)) /\
  (exists cR, C03.Model.matmul ROps (C03.ProofsFloat.RM a) (C03.ProofsFloat.RM b) = Some cR /\
              C03.Model.get ROps cR i j = FloatError.Rsuml (map t (seq 0 K))) /\
  (Rabs (FloatError.FR (C03.Model.get FOps c i j) - FloatError.Rsuml (map t (seq 0 K))) <=
    ((1 + FloatError.u64) ^ K - 1) * (FloatError.Rsumabs (map t (seq 0 K)) + INR K * FloatError.eta64)
    + INR K * FloatError.eta64)%R.
Proof. exact C03.ProofsFloat2.matmul_entry_float_error. Qed.

(* DenseMatrix::ab with its four transposition flags: entry (i,j) of op(a) * op(b) *)
Theorem C03_ab_entry_float_error : forall (a b c : C03.Model.dm PrimFloat.float) (ta tb : bool) (i j : nat),
  C03.Model.ab FOps a ta b tb = Some c ->
  let n := if ta then C03.Model.ncols a else C03.Model.nrows a in
  let K := if ta then C03.Model.nrows a else C03.Model.ncols a in
  let p := if tb then C03.Model.nrows b else C03.Model.ncols b in
  let A := fun r k => if ta then C03.Model.get FOps a k r else C03.Model.get FOps a r k in
  let B := fun k c => if tb then C03.Model.get FOps b c k else C03.Model.get FOps b k c in
  i < n -> j < p -> FloatError.ffin (C03.Model.get FOps c i j) ->
  let t := fun k => (FloatError.FR (A i k) * FloatError.FR (B k j))%R in
  (forall k, k < K -> FloatError.ffin (A i k) /\ FloatError.ffin (B k j)) /\
  (exists cR, C03.Model.ab ROps (C03.ProofsFloat.RM a) ta (C03.ProofsFloat.RM b) tb = Some cR /\
              C03.Model.get ROps cR i j = FloatError.Rsuml (map t (seq 0 K))) /\
  (Rabs (FloatError.FR (C03.Model.get FOps c i j) - FloatError.Rsuml (map t (seq 0 K))) <=
    ((1 + FloatError.u64) ^ K - 1) * (FloatError.Rsumabs (map t (seq 0 K)) + INR K * FloatError.eta64)
    + INR K * FloatError.eta64)%R.
Proof. exact C03.ProofsFloat2.ab_entry_float_error. Qed.

(* BaseVector::dot of two Vec<T> *)
Theorem C03_vdot_float_error : forall (a b : list PrimFloat.float) (d : PrimFloat.float),
  C03.Model.vdot FOps a b = Some d -> FloatError.ffin d ->
  let n := length a in
  let t := fun k => (FloatError.FR (nth k a 0%float) * FloatError.FR (nth k b 0%float))%R in
  length b = n /\ Forall FloatError.ffin a /\ Forall FloatError.ffin b /\
  C03.Model.vdot ROps (map FloatError.FR a) (map FloatError.FR b) = Some (FloatError.Rsuml (map t (seq 0 n))) /\
  (Rabs (FloatError.FR d - FloatError.Rsuml (map t (seq 0 n))) <=
    ((1 + FloatError.u64) ^ n - 1) * (FloatError.Rsumabs (map t (seq 0 n)) + INR n * FloatError.eta64)
    + INR n * FloatError.eta64)%R.
Proof. exact C03.ProofsFloat2.vdot_float_error. Qed.

(* norm2 (Frobenius norm of a matrix, Euclidean norm of a Vec<T>): sqrt of a sum of squares — no
   cancellation, so the error is relative to the norm itself: n multiplications, n-1 inexact
   additions, one square root => (1+u)^(n+1) - 1.  Side condition (no underflow in a square): every
   entry is zero or at least 2^-511 in magnitude; overflow is excluded by the finite result. *)
Theorem C03_norm2_float_error : forall (m : C03.Model.dm PrimFloat.float),
  FloatError.ffin (C03.Model.norm2 FOps m) ->
  (forall x, In x (C03.Model.values m) -> FloatError.FR x = 0 \/ / 2 ^ 511 <= Rabs (FloatError.FR x))%R ->
  let n := length (C03.Model.values m) in
  let Q := FloatError.Rsuml (map (fun x => FloatError.FR x * FloatError.FR x)%R (C03.Model.values m)) in
  C03.Model.norm2 ROps (C03.ProofsFloat.RM m) = R_sqrt.sqrt Q /\ (0 <= Q)%R /\
  Forall FloatError.ffin (C03.Model.values m) /\ (0 <= FloatError.FR (C03.Model.norm2 FOps m))%R /\
  (Rabs (FloatError.FR (C03.Model.norm2 FOps m) - R_sqrt.sqrt Q) <=
     ((1 + FloatError.u64) ^ (n + 1) - 1) * R_sqrt.sqrt Q)%R.
Proof.
  intros m Hfin Hno. apply (C03.ProofsFloat2.norm2_float_error m Hfin).
  apply C03.ProofsFloat2.entry_normal_intro, Hno.
Qed.

Theorem C03_vnorm2_float_error : forall (l : list PrimFloat.float),
  FloatError.ffin (C03.Model.vnorm2 FOps l) ->
  (forall x, In x l -> FloatError.FR x = 0 \/ / 2 ^ 511 <= Rabs (FloatError.FR x))%R ->
  let n := length l in
  let Q := FloatError.Rsuml (map (fun x => FloatError.FR x * FloatError.FR x)%R l) in
  C03.Model.vnorm2 ROps (map FloatError.FR l) = R_sqrt.sqrt Q /\ (0 <= Q)%R /\
  Forall FloatError.ffin l /\ (0 <= FloatError.FR (C03.Model.vnorm2 FOps l))%R /\
  (Rabs (FloatError.FR (C03.Model.vnorm2 FOps l) - R_sqrt.sqrt Q) <=
     ((1 + FloatError.u64) ^ (n + 1) - 1) * R_sqrt.sqrt Q)%R.
Proof.
  intros l Hfin Hno. apply (C03.ProofsFloat2.vnorm2_float_error l Hfin).
  apply C03.ProofsFloat2.entry_normal_intro, Hno.
Qed.

(* the same with the no-underflow hypothesis in DECIDABLE form (evaluate with vm_compute):
   entries_normal_b l = every |x| is 0 or >= 0x1p-511 *)
Theorem C03_norm2_float_error_checked : forall (m : C03.Model.dm PrimFloat.float),
  FloatError.ffin (C03.Model.norm2 FOps m) ->
  C03.ProofsFloat2.entries_normal_b (C03.Model.values m) = true ->
  let n := length (C03.Model.values m) in
  let Q := FloatError.Rsuml (map (fun x => FloatError.FR x * FloatError.FR x)%R (C03.Model.values m)) in
  C03.Model.norm2 ROps (C03.ProofsFloat.RM m) = R_sqrt.sqrt Q /\ (0 <= Q)%R /\
  Forall FloatError.ffin (C03.Model.values m) /\ (0 <= FloatError.FR (C03.Model.norm2 FOps m))%R /\
  (Rabs (FloatError.FR (C03.Model.norm2 FOps m) - R_sqrt.sqrt Q) <=
     ((1 + FloatError.u64) ^ (n + 1) - 1) * R_sqrt.sqrt Q)%R.
Proof. exact C03.ProofsFloat2.norm2_float_error_checked. Qed.

Theorem C03_entries_normal_b_meaning : forall (l : list PrimFloat.float),
  Forall FloatError.ffin l -> C03.ProofsFloat2.entries_normal_b l = true ->
  (forall x, In x l -> FloatError.FR x = 0 \/ / 2 ^ 511 <= Rabs (FloatError.FR x))%R.
Proof. exact C03.ProofsFloat2.entries_normal_b_prop. Qed.

(* means: a recursive sum of n terms of either sign, then ONE division by n (n < 2^53 converts
   exactly): (1+u)^n - 1 relative to the mean of the magnitudes, plus 2^-1075 for a subnormal
   quotient.  MatrixStats::mean on either axis (entry i), BaseMatrix::column_mean (column c),
   BaseVector::mean.  A finite result implies n > 0 (0/0 is NaN) and finite inputs. *)
Theorem C03_mean_float_error : forall (m : C03.Model.dm PrimFloat.float) (axis0 : bool) (i : nat),
  i < C03.Model.n_lines m axis0 -> (Z.of_nat (C03.Model.line_len m axis0) < 2 ^ 53)%Z ->
  FloatError.ffin (nth i (C03.Model.mean FOps m axis0) 0%float) ->
  let n := C03.Model.line_len m axis0 in
  let v := map (fun j => FloatError.FR (C03.Model.line FOps m axis0 i j)) (seq 0 n) in
  0 < n /\ (forall j, j < n -> FloatError.ffin (C03.Model.line FOps m axis0 i j)) /\
  nth i (C03.Model.mean ROps (C03.ProofsFloat.RM m) axis0) 0%R = (FloatError.Rsuml v / INR n)%R /\
  (Rabs (FloatError.FR (nth i (C03.Model.mean FOps m axis0) 0%float) - FloatError.Rsuml v / INR n) <=
    ((1 + FloatError.u64) ^ n - 1) * (FloatError.Rsumabs v / INR n) + FloatError.eta64)%R.
Proof. exact C03.ProofsFloat2.mean_float_error. Qed.

Theorem C03_column_mean_float_error : forall (m : C03.Model.dm PrimFloat.float) (c : nat),
  c < C03.Model.ncols m -> (Z.of_nat (C03.Model.nrows m) < 2 ^ 53)%Z ->
  FloatError.ffin (nth c (C03.Model.column_mean FOps m) 0%float) ->
  let n := C03.Model.nrows m in
  let v := map (fun r => FloatError.FR (C03.Model.get FOps m r c)) (seq 0 n) in
  0 < n /\ (forall r, r < n -> FloatError.ffin (C03.Model.get FOps m r c)) /\
  nth c (C03.Model.column_mean ROps (C03.ProofsFloat.RM m)) 0%R = (FloatError.Rsuml v / INR n)%R /\
  (Rabs (FloatError.FR (nth c (C03.Model.column_mean FOps m) 0%float) - FloatError.Rsuml v / INR n) <=
    ((1 + FloatError.u64) ^ n - 1) * (FloatError.Rsumabs v / INR n) + FloatError.eta64)%R.
Proof. exact C03.ProofsFloat2.column_mean_float_error. Qed.

Theorem C03_vmean_float_error : forall (a : list PrimFloat.float),
  (Z.of_nat (length a) < 2 ^ 53)%Z -> FloatError.ffin (C03.Model.vmean FOps a) ->
  let n := length a in
  let v := map FloatError.FR a in
  0 < n /\ Forall FloatError.ffin a /\ C03.Model.vmean ROps v = (FloatError.Rsuml v / INR n)%R /\
  (Rabs (FloatError.FR (C03.Model.vmean FOps a) - FloatError.Rsuml v / INR n) <=
    ((1 + FloatError.u64) ^ n - 1) * (FloatError.Rsumabs v / INR n) + FloatError.eta64)%R.
Proof. exact C03.ProofsFloat2.vmean_float_error. Qed.

(* entrywise add / sub / mul: one rounding per entry (a sum or difference never underflows; a
   product may: 2^-1075, not if the exact product is at least 2^-1022 in magnitude) *)
Theorem C03_add_float_error : forall (a b c : C03.Model.dm PrimFloat.float) (i j : nat),
  C03.Model.add FOps a b = Some c -> i < C03.Model.nrows a -> j < C03.Model.ncols a ->
  FloatError.ffin (C03.Model.get FOps c i j) ->
  let x := FloatError.FR (C03.Model.get FOps a i j) in let y := FloatError.FR (C03.Model.get FOps b i j) in
  FloatError.ffin (C03.Model.get FOps a i j) /\ FloatError.ffin (C03.Model.get FOps b i j) /\
  (exists cR, C03.Model.add ROps (C03.ProofsFloat.RM a) (C03.ProofsFloat.RM b) = Some cR /\
              C03.Model.get ROps cR i j = (x + y)%R) /\
  (Rabs (FloatError.FR (C03.Model.get FOps c i j) - (x + y)) <= FloatError.u64 * Rabs (x + y))%R.
Proof. exact C03.ProofsFloat2.add_float_error. Qed.

Theorem C03_sub_float_error : forall (a b c : C03.Model.dm PrimFloat.float) (i j : nat),
  C03.Model.sub FOps a b = Some c -> i < C03.Model.nrows a -> j < C03.Model.ncols a ->
  FloatError.ffin (C03.Model.get FOps c i j) ->
  let x := FloatError.FR (C03.Model.get FOps a i j) in let y := FloatError.FR (C03.Model.get FOps b i j) in
  FloatError.ffin (C03.Model.get FOps a i j) /\ FloatError.ffin (C03.Model.get FOps b i j) /\
  (exists cR, C03.Model.sub ROps (C03.ProofsFloat.RM a) (C03.ProofsFloat.RM b) = Some cR /\
              C03.Model.get ROps cR i j = (x - y)%R) /\
  (Rabs (FloatError.FR (C03.Model.get FOps c i j) - (x - y)) <= FloatError.u64 * Rabs (x - y))%R.
Proof. exact C03.ProofsFloat2.sub_float_error. Qed.

Theorem C03_mul_float_error : forall (a b c : C03.Model.dm PrimFloat.float) (i j : nat),
  C03.Model.mul FOps a b = Some c -> i < C03.Model.nrows a -> j < C03.Model.ncols a ->
  FloatError.ffin (C03.Model.get FOps c i j) ->
  let x := FloatError.FR (C03.Model.get FOps a i j) in let y := FloatError.FR (C03.Model.get FOps b i j) in
  FloatError.ffin (C03.Model.get FOps a i j) /\ FloatError.ffin (C03.Model.get FOps b i j) /\
  (exists cR, C03.Model.mul ROps (C03.ProofsFloat.RM a) (C03.ProofsFloat.RM b) = Some cR /\
              C03.Model.get ROps cR i j = (x * y)%R) /\
  (Rabs (FloatError.FR (C03.Model.get FOps c i j) - x * y) <= FloatError.u64 * Rabs (x * y) + FloatError.eta64)%R /\
  (/ 2 ^ 1022 <= Rabs (x * y) ->
   Rabs (FloatError.FR (C03.Model.get FOps c i j) - x * y) <= FloatError.u64 * Rabs (x * y))%R.
Proof. exact C03.ProofsFloat2.mul_float_error. Qed.

(* Exact scale invariance in binary64.  If every entry of m' is the corresponding entry of m times
   2^e as a real number (the scaling rounded nothing) and both computed sums are finite (no
   overflow), the computed sums differ by exactly the factor 2^e — for every sign pattern and every
   amount of cancellation, also when partial sums are subnormal. *)
Theorem C03_sum_scale_exact : forall (e : Z) (m m' : C03.Model.dm PrimFloat.float),
  Forall2 (fun x x' => FloatError.FR x' = FloatError.FR x * powerRZ 2 e)%R (C03.Model.values m) (C03.Model.values m') ->
  FloatError.ffin (C03.Model.sum FOps m) -> FloatError.ffin (C03.Model.sum FOps m') ->
  (FloatError.FR (C03.Model.sum FOps m') = FloatError.FR (C03.Model.sum FOps m) * powerRZ 2 e)%R.
Proof. exact C03.ProofsFloat2.sum_scale_exact. Qed.

(* ... in terms of the model's own mul_scalar with p = 2^e *)
Theorem C03_sum_mul_scalar_pow2 : forall (e : Z) (m : C03.Model.dm PrimFloat.float) (p : PrimFloat.float),
  FloatError.FR p = powerRZ 2 e ->
  (forall x, In x (C03.Model.values m) -> FloatError.FR (PrimFloat.mul x p) = FloatError.FR x * FloatError.FR p)%R ->
  FloatError.ffin (C03.Model.sum FOps m) -> FloatError.ffin (C03.Model.sum FOps (C03.Model.mul_scalar FOps m p)) ->
  (FloatError.FR (C03.Model.sum FOps (C03.Model.mul_scalar FOps m p)) = FloatError.FR (C03.Model.sum FOps m) * FloatError.FR p)%R.
Proof. exact C03.ProofsFloat2.sum_mul_scalar_pow2. Qed.

(* ... and for the vector dot product when no product underflows before or after the scaling
   (every exact product a_i b_i is zero, or it and its scaled value are at least 2^-1022) *)
Theorem C03_dot_scale_exact : forall (e : Z) (a a' b : C03.Model.dm PrimFloat.float) (d d' : PrimFloat.float),
  C03.Model.nrows a' = C03.Model.nrows a -> C03.Model.ncols a' = C03.Model.ncols a ->
  C03.Model.dot FOps a b = Some d -> C03.Model.dot FOps a' b = Some d' ->
  FloatError.ffin d -> FloatError.ffin d' ->
  let n := C03.Model.nrows a * C03.Model.ncols a in
  (forall i, i < n ->
     (FloatError.FR (nth i (C03.Model.values a') 0%float) = FloatError.FR (nth i (C03.Model.values a) 0%float) * powerRZ 2 e)%R /\
     let t := (FloatError.FR (nth i (C03.Model.values a) 0%float) * FloatError.FR (nth i (C03.Model.values b) 0%float))%R in
     (t = 0 \/ (/ 2 ^ 1022 <= Rabs t /\ / 2 ^ 1022 <= Rabs (t * powerRZ 2 e)))%R) ->
  (FloatError.FR d' = FloatError.FR d * powerRZ 2 e)%R.
Proof. exact C03.ProofsFloat2.dot_scale_exact. Qed.

(* ---------------- the hypotheses are satisfiable (inputs 0.1, 0.2, 0.3, 0.7 ...: every operation rounds) ------- *)
Example C03_matmul_float_instance :
  let a := mkdm 2 2 [0x1.999999999999ap-4; 0x1.999999999999ap-3; 0x1.3333333333333p-2; 0x1.6666666666666p-1]%float in
  let b := mkdm 2 2 [0x1.3333333333333p-2; (-0x1.999999999999ap-4); 0x1.6666666666666p-1; 0x1.999999999999ap-3]%float in
  exists c, C03.Model.matmul FOps a b = Some c /\ 1 < nrows a /\ 0 < ncols b /\
            FloatError.ffin (C03.Model.get FOps c 1 0).
Proof. eexists. split; [vm_compute; reflexivity|]. split; [vm_compute; lia|]. split; vm_compute; [lia | reflexivity]. Qed.

Example C03_ab_float_instance :
  let a := mkdm 3 2 [0x1.999999999999ap-4; 0x1.999999999999ap-3; 0x1.3333333333333p-2; 0x1.6666666666666p-1; 1; (-2)]%float in
  let b := mkdm 2 3 [0x1.3333333333333p-2; (-0x1.999999999999ap-4); 0x1.6666666666666p-1; 0x1.999999999999ap-3; 3; 0.5]%float in
  exists c, C03.Model.ab FOps a true b true = Some c /\ 1 < ncols a /\ 0 < nrows b /\
            FloatError.ffin (C03.Model.get FOps c 1 0).
Proof. eexists. split; [vm_compute; reflexivity|]. split; [vm_compute; lia|]. split; vm_compute; [lia | reflexivity]. Qed.

Example C03_vdot_float_instance :
  exists d, C03.Model.vdot FOps [0x1.999999999999ap-4; 0x1.999999999999ap-3; 0x1.3333333333333p-2]%float
                                [0x1.3333333333333p-2; (-0x1.999999999999ap-4); 0x1.6666666666666p-1]%float = Some d /\
            FloatError.ffin d.
Proof. eexists. split; vm_compute; reflexivity. Qed.

Example C03_norm2_float_instance :
  let m := mkdm 1 3 [0x1.999999999999ap-4; (-0x1.999999999999ap-3); 0x1.3333333333333p-2]%float in
  FloatError.ffin (C03.Model.norm2 FOps m) /\
  C03.ProofsFloat2.entries_normal_b (C03.Model.values m) = true /\
  (forall x, In x (C03.Model.values m) -> FloatError.FR x = 0 \/ / 2 ^ 511 <= Rabs (FloatError.FR x))%R.
Proof.
  cbv zeta.
  assert (A : FloatError.ffin (C03.Model.norm2 FOps (mkdm 1 3 [0x1.999999999999ap-4; (-0x1.999999999999ap-3); 0x1.3333333333333p-2]%float)))
    by (vm_compute; reflexivity).
  assert (B : C03.ProofsFloat2.entries_normal_b [0x1.999999999999ap-4; (-0x1.999999999999ap-3); 0x1.3333333333333p-2]%float = true)
    by (vm_compute; reflexivity).
  split; [exact A|]. split; [exact B|].
  apply C03_entries_normal_b_meaning; [|exact B]. exact (C03.ProofsFloat2.vnorm2_entries_finite _ A).
Qed.
(* what the hypotheses exclude: overflow of a square (the result is not finite) and underflow of a
   square (a non-zero entry below 2^-511: the computed norm is 0) *)
Example C03_norm2_float_overflow_and_underflow :
  C03.Model.vnorm2 FOps [0x1p600]%float = infinity /\ PrimFloat.is_finite infinity = false /\
  C03.Model.vnorm2 FOps [0x1p-600]%float = 0%float /\ C03.ProofsFloat2.entries_normal_b [0x1p-600]%float = false.
Proof. repeat split; vm_compute; reflexivity. Qed.

Example C03_mean_float_instance :
  let m := mkdm 2 2 [0x1.999999999999ap-4; 0x1.999999999999ap-3; 0x1.3333333333333p-2; (-0x1.6666666666666p-1)]%float in
  1 < C03.Model.n_lines m true /\ (Z.of_nat (C03.Model.line_len m true) < 2 ^ 53)%Z /\
  FloatError.ffin (nth 1 (C03.Model.mean FOps m true) 0%float) /\
  1 < C03.Model.n_lines m false /\ (Z.of_nat (C03.Model.line_len m false) < 2 ^ 53)%Z /\
  FloatError.ffin (nth 1 (C03.Model.mean FOps m false) 0%float) /\
  1 < ncols m /\ (Z.of_nat (nrows m) < 2 ^ 53)%Z /\ FloatError.ffin (nth 1 (C03.Model.column_mean FOps m) 0%float) /\
  (Z.of_nat (length (C03.Model.values m)) < 2 ^ 53)%Z /\ FloatError.ffin (C03.Model.vmean FOps (C03.Model.values m)).
Proof. cbv zeta. repeat split; vm_compute; try reflexivity; lia. Qed.

Example C03_entrywise_float_instance :
  let a := mkdm 2 2 [0x1.999999999999ap-4; 0x1.999999999999ap-3; 0x1.3333333333333p-2; 0x1.6666666666666p-1]%float in
  let b := mkdm 2 2 [0x1.3333333333333p-2; (-0x1.999999999999ap-4); 0x1.6666666666666p-1; 0x1.999999999999ap-3]%float in
  (exists c, C03.Model.add FOps a b = Some c /\ FloatError.ffin (C03.Model.get FOps c 1 0)) /\
  (exists c, C03.Model.sub FOps a b = Some c /\ FloatError.ffin (C03.Model.get FOps c 1 0)) /\
  (exists c, C03.Model.mul FOps a b = Some c /\ FloatError.ffin (C03.Model.get FOps c 1 0)) /\
  1 < nrows a /\ 0 < ncols a.
Proof.
  cbv zeta. split; [|split; [|split]]; try (eexists; split; vm_compute; reflexivity).
  split; vm_compute; lia.
Qed.

(* scaling 0.1, -0.3, 0.2 by 2^-3: the sums (which round, and cancel) scale exactly *)
Example C03_sum_scale_instance :
  let m := mkdm 1 3 [0x1.999999999999ap-4; (-0x1.3333333333333p-2); 0x1.999999999999ap-3]%float in
  let m' := mkdm 1 3 [0x1.999999999999ap-7; (-0x1.3333333333333p-5); 0x1.999999999999ap-6]%float in
  let p := 0x1p-3%float in
  Forall2 (fun x x' => FloatError.FR x' = FloatError.FR x * powerRZ 2 (-3))%R (C03.Model.values m) (C03.Model.values m') /\
  FloatError.ffin (C03.Model.sum FOps m) /\ FloatError.ffin (C03.Model.sum FOps m') /\
  FloatError.FR p = powerRZ 2 (-3) /\
  (forall x, In x (C03.Model.values m) -> FloatError.FR (PrimFloat.mul x p) = FloatError.FR x * FloatError.FR p)%R /\
  FloatError.ffin (C03.Model.sum FOps (C03.Model.mul_scalar FOps m p)).
Proof.
  cbv zeta. cbn [C03.Model.values].
  split.
  { constructor; [|constructor; [|constructor; [|constructor]]];
      apply C03.ProofsFloat2.scaled_b_sound; vm_compute; reflexivity. }
  split; [vm_compute; reflexivity|]. split; [vm_compute; reflexivity|].
  split; [apply C03.ProofsFloat2.pow2_b_sound; vm_compute; reflexivity|].
  split; [|vm_compute; reflexivity].
  intros x [<-|[<-|[<-|[]]]]; apply (C03.ProofsFloat2.mul_pow2_exact_b (-3)); vm_compute; reflexivity.
Qed.

Example C03_dot_scale_instance :
  let a := mkdm 1 2 [3; 5]%float in let a' := mkdm 1 2 [6; 10]%float in let b := mkdm 1 2 [2; 7]%float in
  C03.Model.dot FOps a b = Some 41%float /\ C03.Model.dot FOps a' b = Some 82%float /\
  FloatError.ffin 41%float /\ FloatError.ffin 82%float /\
  (forall i, i < nrows a * ncols a ->
     (FloatError.FR (nth i (C03.Model.values a') 0%float) = FloatError.FR (nth i (C03.Model.values a) 0%float) * powerRZ 2 1)%R /\
     let t := (FloatError.FR (nth i (C03.Model.values a) 0%float) * FloatError.FR (nth i (C03.Model.values b) 0%float))%R in
     (t = 0 \/ (/ 2 ^ 1022 <= Rabs t /\ / 2 ^ 1022 <= Rabs (t * powerRZ 2 1)))%R).
Proof.
  cbv zeta. cbn [C03.Model.values nrows ncols].
  split; [vm_compute; reflexivity|]. split; [vm_compute; reflexivity|].
  split; [vm_compute; reflexivity|]. split; [vm_compute; reflexivity|].
  assert (Hsmall : (/ 2 ^ 1022 <= 1)%R).
  { assert (1 <= 2 ^ 1022)%R by (apply pow_R1_Rle; lra).
    apply (Rmult_le_reg_r (2 ^ 1022)); [lra|]. rewrite Rinv_l by lra. lra. }
  assert (F : forall z, (0 <= z < 2 ^ 53)%Z -> FloatError.FR (FloatUtil.float_of_Z z) = IZR z).
  { intros z Hz. apply (FloatError.float_of_Z_exact z Hz). }
  change (powerRZ 2 1) with (2 * 1)%R.
  intros [|[|i]] Hi; [| |cbn in Hi; lia]; cbn [nth].
  - change 6%float with (FloatUtil.float_of_Z 6). change 3%float with (FloatUtil.float_of_Z 3).
    change 2%float with (FloatUtil.float_of_Z 2). rewrite !F by lia.
    split; [lra|]. right. rewrite !Rabs_pos_eq by lra. lra.
  - change 10%float with (FloatUtil.float_of_Z 10). change 5%float with (FloatUtil.float_of_Z 5).
    change 7%float with (FloatUtil.float_of_Z 7). rewrite !F by lia.
    split; [lra|]. right. rewrite !Rabs_pos_eq by lra. lra.
Qed.

(* ------------------------------------------------------------------------------------------
   MatrixStats::var / std in binary64 (C03/ProofsFloat3.v): the ONE-PASS formula
   sum x^2 / n - (sum x / n)^2 exactly as the code has it (entry i on either axis; n the line
   length, n < 2^53 so that n converts exactly; x_j the real values of the entries; Qn = mean of
   squares, Mr = mean, a = mean of magnitudes).  The computed variance is accurate relative to the
   SECOND MOMENT Qn = var + mean^2, not relative to the variance; 1 + mean^2/var is the condition
   number of the formula.  This is the theorem behind the known finding matrix-var-cancellation.
   The only no-overflow hypothesis is that the result is finite; it implies n > 0 and finite inputs.
   ------------------------------------------------------------------------------------------ *)
From SC Require C03.ProofsFloat3 C03.ProofsFloat3Ex.

Theorem C03_var_float_error : forall (m : C03.Model.dm PrimFloat.float) (axis0 : bool) (i : nat),
  i < C03.Model.n_lines m axis0 -> (Z.of_nat (C03.Model.line_len m axis0) < 2 ^ 53)%Z ->
  FloatError.ffin (nth i (C03.Model.var FOps m axis0) 0%float) ->
  let n := C03.Model.line_len m axis0 in
  let x := fun j => FloatError.FR (C03.Model.line FOps m axis0 i j) in
  let Qn := (FloatError.Rsuml (map (fun j => x j * x j) (seq 0 n)) / INR n)%R in
  let Mr := (FloatError.Rsuml (map x (seq 0 n)) / INR n)%R in
  let a := (FloatError.Rsumabs (map x (seq 0 n)) / INR n)%R in
  0 < n /\ (forall j, j < n -> FloatError.ffin (C03.Model.line FOps m axis0 i j)) /\
  nth i (C03.Model.var ROps (C03.ProofsFloat.RM m) axis0) 0%R = (Qn - Mr * Mr)%R /\
  (Qn - Mr * Mr = rsum n (fun j => (x j - Mr) ^ 2) / INR n)%R /\
  (0 <= Qn - Mr * Mr)%R /\ (a * a <= Qn)%R /\
  (Rabs (FloatError.FR (nth i (C03.Model.var FOps m axis0) 0%float) - (Qn - Mr * Mr)) <=
    ((1 + FloatError.u64) ^ (n + 2) - 1) * Qn + ((1 + FloatError.u64) ^ (2 * n + 2) - 1) * (a * a)
    + (1 + FloatError.u64) ^ (n + 2) * (2 * a + 4) * FloatError.eta64)%R.
Proof. exact C03.ProofsFloat3.var_float_error. Qed.

(* first-order form for n < 2^50: c(n) = 4n+6, relative to the mean of squares Qn (and a fortiori
   to Qn + Mr^2) *)
Theorem C03_var_float_error_lin : forall (m : C03.Model.dm PrimFloat.float) (axis0 : bool) (i : nat),
  i < C03.Model.n_lines m axis0 -> (Z.of_nat (C03.Model.line_len m axis0) < 2 ^ 50)%Z ->
  FloatError.ffin (nth i (C03.Model.var FOps m axis0) 0%float) ->
  let n := C03.Model.line_len m axis0 in
  let x := fun j => FloatError.FR (C03.Model.line FOps m axis0 i j) in
  let Qn := (FloatError.Rsuml (map (fun j => x j * x j) (seq 0 n)) / INR n)%R in
  let Mr := (FloatError.Rsuml (map x (seq 0 n)) / INR n)%R in
  let a := (FloatError.Rsumabs (map x (seq 0 n)) / INR n)%R in
  let V := (Qn - Mr * Mr)%R in
  nth i (C03.Model.var ROps (C03.ProofsFloat.RM m) axis0) 0%R = V /\ (0 <= V)%R /\
  (Rabs (FloatError.FR (nth i (C03.Model.var FOps m axis0) 0%float) - V)
     <= (4 * INR n + 6) * FloatError.u64 * Qn + (3 * a + 6) * FloatError.eta64)%R /\
  (Rabs (FloatError.FR (nth i (C03.Model.var FOps m axis0) 0%float) - V)
     <= (4 * INR n + 6) * FloatError.u64 * (Qn + Mr * Mr) + (3 * a + 6) * FloatError.eta64)%R.
Proof. exact C03.ProofsFloat3.var_float_error_lin. Qed.

(* relative error of the computed variance <= (4n+6) u (1 + mean^2/var) (so also <= (4n+6) u
   (1 + 2 mean^2/var)); data with mean^2 <= var (|mean| <= spread) get 2 (4n+6) u *)
Theorem C03_var_condition_number : forall (m : C03.Model.dm PrimFloat.float) (axis0 : bool) (i : nat),
  i < C03.Model.n_lines m axis0 -> (Z.of_nat (C03.Model.line_len m axis0) < 2 ^ 50)%Z ->
  FloatError.ffin (nth i (C03.Model.var FOps m axis0) 0%float) ->
  let n := C03.Model.line_len m axis0 in
  let x := fun j => FloatError.FR (C03.Model.line FOps m axis0 i j) in
  let Mr := (FloatError.Rsuml (map x (seq 0 n)) / INR n)%R in
  let a := (FloatError.Rsumabs (map x (seq 0 n)) / INR n)%R in
  let V := nth i (C03.Model.var ROps (C03.ProofsFloat.RM m) axis0) 0%R in
  (0 < V)%R ->
  (Rabs (FloatError.FR (nth i (C03.Model.var FOps m axis0) 0%float) - V) / V <=
    (4 * INR n + 6) * FloatError.u64 * (1 + Mr * Mr / V) + (3 * a + 6) * FloatError.eta64 / V)%R /\
  (Rabs (FloatError.FR (nth i (C03.Model.var FOps m axis0) 0%float) - V) / V <=
    (4 * INR n + 6) * FloatError.u64 * (1 + 2 * (Mr * Mr) / V) + (3 * a + 6) * FloatError.eta64 / V)%R /\
  ((Mr * Mr <= V)%R ->
   (Rabs (FloatError.FR (nth i (C03.Model.var FOps m axis0) 0%float) - V) / V <=
     2 * (4 * INR n + 6) * FloatError.u64 + (3 * a + 6) * FloatError.eta64 / V)%R).
Proof. exact C03.ProofsFloat3.var_condition_number. Qed.

(* std = sqrt(var): one more rounding (the square root neither over- nor underflows).  If the
   computed variance has relative error r (from C03_var_condition_number), the computed standard
   deviation has relative error u + (1+u) r; a finite std implies a finite, non-negative variance *)
Theorem C03_std_float_error : forall (m : C03.Model.dm PrimFloat.float) (axis0 : bool) (i : nat) (r : R),
  i < C03.Model.n_lines m axis0 ->
  FloatError.ffin (nth i (C03.Model.std FOps m axis0) 0%float) ->
  let V := nth i (C03.Model.var ROps (C03.ProofsFloat.RM m) axis0) 0%R in
  (0 < V)%R ->
  (Rabs (FloatError.FR (nth i (C03.Model.var FOps m axis0) 0%float) - V) <= r * V)%R ->
  FloatError.ffin (nth i (C03.Model.var FOps m axis0) 0%float) /\
  (0 <= FloatError.FR (nth i (C03.Model.var FOps m axis0) 0%float))%R /\
  nth i (C03.Model.std ROps (C03.ProofsFloat.RM m) axis0) 0%R = R_sqrt.sqrt V /\
  (Rabs (FloatError.FR (nth i (C03.Model.std FOps m axis0) 0%float) - R_sqrt.sqrt V)
     <= (FloatError.u64 + (1 + FloatError.u64) * r) * R_sqrt.sqrt V)%R.
Proof. exact C03.ProofsFloat3.std_float_error. Qed.

(* the known finding matrix-var-cancellation in the model at FOps: the column 1e8 + {0,1,2,3}
   satisfies the hypotheses, the computed variance is 2.0, the exact one 5/4 (relative error 3/5),
   the mean 100000001.5, and the bound of C03_var_condition_number evaluates to more than 19:
   it certifies nothing here, as it must *)
Example C03_var_known_finding_instance :
  let m := mkdm 4 1 [100000000; 100000001; 100000002; 100000003]%float in
  0 < C03.Model.n_lines m true /\ (Z.of_nat (C03.Model.line_len m true) < 2 ^ 50)%Z /\
  FloatError.ffin (nth 0 (C03.Model.var FOps m true) 0%float) /\
  nth 0 (C03.Model.var FOps m true) 0%float = 2%float /\ FloatError.FR 2%float = 2%R /\
  nth 0 (C03.Model.var ROps (C03.ProofsFloat.RM m) true) 0%R = (5 / 4)%R /\
  (FloatError.Rsuml (map (fun j => FloatError.FR (C03.Model.line FOps m true 0 j)) (seq 0 4)) / INR 4 = 200000003 / 2)%R /\
  (Rabs (2 - 5 / 4) / (5 / 4) = 3 / 5)%R /\
  (19 <= (4 * INR 4 + 6) * FloatError.u64 * (1 + (200000003 / 2) * (200000003 / 2) / (5 / 4)))%R.
Proof. exact C03.ProofsFloat3Ex.var_known_finding_instance. Qed.

(* a centred column (0.1, -0.2, 0.3, -0.2 as binary64 numbers: every operation rounds): the same
   bound certifies a relative accuracy of 2.5e-15 of the computed variance *)
Example C03_var_centred_instance :
  let m := mkdm 4 1 [0x1.999999999999ap-4; (-0x1.999999999999ap-3); 0x1.3333333333333p-2; (-0x1.999999999999ap-3)]%float in
  let V := nth 0 (C03.Model.var ROps (C03.ProofsFloat.RM m) true) 0%R in
  0 < C03.Model.n_lines m true /\ (Z.of_nat (C03.Model.line_len m true) < 2 ^ 50)%Z /\
  FloatError.ffin (nth 0 (C03.Model.var FOps m true) 0%float) /\
  (9 / 200 <= V <= 91 / 2000)%R /\
  (Rabs (FloatError.FR (nth 0 (C03.Model.var FOps m true) 0%float) - V) / V <= 25 / 10 ^ 16)%R.
Proof. exact C03.ProofsFloat3Ex.var_centred_instance. Qed.

Example C03_std_float_instance :
  let m := mkdm 4 1 [0x1.999999999999ap-4; (-0x1.999999999999ap-3); 0x1.3333333333333p-2; (-0x1.999999999999ap-3)]%float in
  let V := nth 0 (C03.Model.var ROps (C03.ProofsFloat.RM m) true) 0%R in
  0 < C03.Model.n_lines m true /\ FloatError.ffin (nth 0 (C03.Model.std FOps m true) 0%float) /\ (0 < V)%R /\
  (Rabs (FloatError.FR (nth 0 (C03.Model.var FOps m true) 0%float) - V) <= 25 / 10 ^ 16 * V)%R.
Proof.
  cbv zeta. pose proof C03.ProofsFloat3Ex.var_centred_instance as H. cbv zeta in H.
  unfold C03.ProofsFloat3Ex.m_cen in H. destruct H as (H1 & _ & _ & HV & B).
  match type of B with (_ / ?v <= _)%R => set (V := v) in * end.
  split; [exact H1|]. split; [vm_compute; reflexivity|]. split; [lra|].
  apply (Rmult_le_reg_r (/ V)).
  - apply Rinv_0_lt_compat. lra.
  - rewrite (Rmult_assoc (25 / 10 ^ 16)), Rinv_r by lra. rewrite Rmult_1_r. exact B.
Qed.
