(* C03 — dense matrix and vector algebra.  Property theorems only (statements about the executable
   model SC.C03.Model, which the correspondence check ties to src/linalg/naive/dense_matrix.rs,
   src/linalg/mod.rs, src/linalg/stats.rs, src/linalg/high_order.rs). *)
From Coq Require Import List Arith Bool Lia.
From SC Require Import Base.Num C03.Model C03.ProofsBase.
Import ListNotations.

(* The addressing lemma: column-major tabulation and `get` are mutually inverse. *)
Theorem C03_get_tab : forall (T : Type) (K : Ops T) n p (f : nat -> nat -> T) r c,
  r < n -> c < p -> get K (tab n p f) r c = f r c.
Proof. intros T K. exact (get_tab K). Qed.
