(* C03 — executable model of smartcore's built-in dense matrix and vector types
   (src/linalg/naive/dense_matrix.rs, src/linalg/mod.rs default methods, src/linalg/stats.rs,
   src/linalg/high_order.rs).  Definitions only.

   Conventions
   - `dm T` is the Rust struct: nrows, ncols and the COLUMN-MAJOR value vector
     (`values[col * nrows + row]`).  Every operation is written against that storage; the
     theorems (Proofs*.v) relate it to the logical rows-by-columns view `get m r c`.
   - a loop that fills a fresh matrix cell by cell with `set` is `tab n p f` (the column-major
     tabulation of f); `get_tab` (Proofs) is the lemma that this is what such a loop produces.
   - accumulations `s += t_i` starting from zero are `osumn n t` / `fold_left`, in the code's
     order (so the binary64 instance reproduces the same roundings).
   - a panic is `None`.  Shape tests are the code's tests, in the code's order.
   - `get` itself is total with default zero; `get_chk` is the API-level `get` with its bounds
     test.  All internal uses of `get` are in range (proved where it matters). *)
From Coq Require Import List Arith Bool ZArith.
From SC Require Import Base.Num.
Import ListNotations.

Record dm (T : Type) := mkdm { nrows : nat; ncols : nat; values : list T }.
Arguments mkdm {T}. Arguments nrows {T}. Arguments ncols {T}. Arguments values {T}.

Section Dense.
  Context {T : Type} (K : Ops T).
  Local Notation zero := (K.(o0)).
  Local Notation one := (K.(o1)).
  Infix "+" := (K.(oadd)).
  Infix "-" := (K.(osub)).
  Infix "*" := (K.(omul)).
  Infix "/" := (K.(odiv)).

  Definition get (m : dm T) (r c : nat) : T := nth (Nat.add (Nat.mul c (nrows m)) r) (values m) zero.
  Definition get_chk (m : dm T) (r c : nat) : option T :=
    if (nrows m <=? r) || (ncols m <=? c) then None else nth_error (values m) (Nat.add (Nat.mul c (nrows m)) r).

  Definition tab (n p : nat) (f : nat -> nat -> T) : dm T :=
    mkdm n p (flat_map (fun c => map (fun r => f r c) (seq O n)) (seq O p)).

  Fixpoint set_nth (l : list T) (i : nat) (v : T) : list T :=
    match l, i with
    | [], _ => []
    | _ :: t, O => v :: t
    | x :: t, S j => x :: set_nth t j v
    end.
  (* `set` has no bounds test of its own: it panics only when the linear index is out of range *)
  Definition set (m : dm T) (r c : nat) (v : T) : option (dm T) :=
    let i := Nat.add (Nat.mul c (nrows m)) r in
    if i <? length (values m) then Some (mkdm (nrows m) (ncols m) (set_nth (values m) i v)) else None.
  Definition upd_element (f : T -> T) (m : dm T) (r c : nat) : option (dm T) :=
    let i := Nat.add (Nat.mul c (nrows m)) r in
    if i <? length (values m) then Some (mkdm (nrows m) (ncols m) (set_nth (values m) i (f (nth i (values m) zero)))) else None.

  (* ---------- construction ---------- *)
  Definition from_vec (n p : nat) (vals : list T) : option (dm T) :=       (* row-major input *)
    if length vals <? Nat.mul n p then None
    else Some (tab n p (fun r c => nth (Nat.add c (Nat.mul r p)) vals zero)).
  Definition from_2d_vec (rows : list (list T)) : option (dm T) :=
    match rows with
    | [] => None
    | first :: _ => Some (tab (length rows) (length first) (fun r c => nth c (nth r rows []) zero))
    end.
  Definition row_vector_from_vec (v : list T) : dm T := mkdm (S O) (length v) v.
  Definition column_vector_from_vec (v : list T) : dm T := mkdm (length v) (S O) v.
  Definition from_row_vector (v : list T) : dm T := mkdm (S O) (length v) v.
  Definition fill (n p : nat) (v : T) : dm T := mkdm n p (repeat v (Nat.mul p n)).
  Definition zeros (n p : nat) := fill n p zero.
  Definition ones (n p : nat) := fill n p one.
  Definition eye (n : nat) : dm T := tab n n (fun r c => if Nat.eqb r c then one else zero).

  (* ---------- reading ---------- *)
  Definition row_major (m : dm T) : list T :=              (* iter(), to_row_vector() *)
    flat_map (fun r => map (fun c => get m r c) (seq O (ncols m))) (seq O (nrows m)).
  Definition to_row_vector := row_major.
  Definition get_row (m : dm T) (r : nat) : option (list T) :=
    if (nrows m <=? r) && (O <? ncols m) then None else Some (map (fun c => get m r c) (seq O (ncols m))).
  Definition get_col (m : dm T) (c : nat) : option (list T) :=
    if (ncols m <=? c) && (O <? nrows m) then None else Some (map (fun r => get m r c) (seq O (nrows m))).
  Definition shape (m : dm T) : nat * nat := (nrows m, ncols m).
  (* copy_row_as_vec / copy_col_as_vec overwrite the first min(len result, ncols|nrows) entries of `result` *)
  Definition copy_row_as_vec (m : dm T) (r : nat) (res : list T) : option (list T) :=
    let k := Nat.min (length res) (ncols m) in
    if (nrows m <=? r) && (O <? k) then None
    else Some (map (fun c => get m r c) (seq O k) ++ skipn k res).
  Definition copy_col_as_vec (m : dm T) (c : nat) (res : list T) : option (list T) :=
    let k := Nat.min (length res) (nrows m) in
    if (ncols m <=? c) && (O <? k) then None
    else Some (map (fun r => get m r c) (seq O k) ++ skipn k res).

  (* ---------- structure ---------- *)
  Definition transpose (m : dm T) : dm T := tab (ncols m) (nrows m) (fun r c => get m c r).
  Definition v_stack (a b : dm T) : option (dm T) :=
    if negb (ncols a =? ncols b) then None
    else Some (tab (Nat.add (nrows a) (nrows b)) (ncols a)
                   (fun r c => if r <? nrows a then get a r c else get b (Nat.sub r (nrows a)) c)).
  Definition h_stack (a b : dm T) : option (dm T) :=
    if negb (nrows a =? nrows b) then None
    else Some (tab (nrows a) (Nat.add (ncols a) (ncols b))
                   (fun r c => if c <? ncols a then get a r c else get b r (Nat.sub c (ncols a)))).
  Definition slice (m : dm T) (r0 r1 c0 c1 : nat) : option (dm T) :=
    if (r0 <? r1) && (c0 <? c1) && ((nrows m <? r1) || (ncols m <? c1)) then None
    else Some (tab (Nat.sub r1 r0) (Nat.sub c1 c0) (fun r c => get m (Nat.add r r0) (Nat.add c c0))).
  Definition reshape (m : dm T) (n p : nat) : option (dm T) :=
    if negb (Nat.mul (nrows m) (ncols m) =? Nat.mul n p) then None
    else Some (tab n p (fun r c => let k := Nat.add (Nat.mul r p) c in
                                   get m (Nat.div k (ncols m)) (Nat.modulo k (ncols m)))).
  Definition copy_from (m other : dm T) : option (dm T) :=
    if negb (nrows m =? nrows other) || negb (ncols m =? ncols other) then None
    else if negb (length (values m) =? length (values other)) then None   (* clone_from_slice *)
    else Some (mkdm (nrows m) (ncols m) (values other)).
  (* BaseMatrix::take; axis 0 = rows *)
  Definition take (m : dm T) (index : list nat) (axis0 : bool) : option (dm T) :=
    if axis0 then
      if existsb (fun i => nrows m <=? i) index && (O <? ncols m) then None
      else Some (tab (length index) (ncols m) (fun i j => get m (nth i index O) j))
    else
      if existsb (fun i => ncols m <=? i) index && (O <? nrows m) then None
      else Some (tab (nrows m) (length index) (fun j i => get m j (nth i index O))).

  (* ---------- products ---------- *)
  Definition matmul (a b : dm T) : option (dm T) :=
    if negb (ncols a =? nrows b) then None
    else Some (tab (nrows a) (ncols b)
                   (fun r c => osumn K (ncols a) (fun i => get a r i * get b i c))).
  (* DenseMatrix's own `ab` (overrides the trait default) *)
  Definition ab (a : dm T) (ta : bool) (b : dm T) (tb : bool) : option (dm T) :=
    match ta, tb with
    | false, false => matmul a b
    | true, false =>
        if negb (nrows a =? nrows b) then None
        else Some (tab (ncols a) (ncols b) (fun r c => osumn K (nrows a) (fun i => get a i r * get b i c)))
    | false, true =>
        if negb (ncols a =? ncols b) then None
        else Some (tab (nrows a) (nrows b) (fun r c => osumn K (ncols a) (fun i => get a r i * get b c i)))
    | true, true =>
        if negb (nrows a =? ncols b) then None
        else Some (tab (ncols a) (nrows b) (fun r c => osumn K (nrows a) (fun i => get a i r * get b c i)))
    end.
  Definition is_vec (m : dm T) : bool := (nrows m =? S O) || (ncols m =? S O).
  Definition dot (a b : dm T) : option T :=
    if negb (is_vec a) || negb (is_vec b) then None
    else if negb (Nat.mul (nrows a) (ncols a) =? Nat.mul (nrows b) (ncols b)) then None
    else Some (osumn K (Nat.mul (nrows a) (ncols a)) (fun i => nth i (values a) zero * nth i (values b) zero)).

  (* ---------- element-wise ---------- *)
  Definition same_shape (a b : dm T) : bool := (ncols a =? ncols b) && (nrows a =? nrows b).
  Definition zip_with (f : T -> T -> T) (a b : dm T) : option (dm T) :=
    if negb (same_shape a b) then None
    else Some (tab (nrows a) (ncols a) (fun r c => f (get a r c) (get b r c))).
  Definition add := zip_with K.(oadd).
  Definition sub := zip_with K.(osub).
  Definition mul := zip_with K.(omul).
  Definition div := zip_with K.(odiv).
  Definition map_values (f : T -> T) (m : dm T) : dm T := mkdm (nrows m) (ncols m) (map f (values m)).
  Definition add_scalar (m : dm T) (x : T) := map_values (fun v => v + x) m.
  Definition sub_scalar (m : dm T) (x : T) := map_values (fun v => v - x) m.
  Definition mul_scalar (m : dm T) (x : T) := map_values (fun v => v * x) m.
  Definition div_scalar (m : dm T) (x : T) := map_values (fun v => v / x) m.
  Definition negative (m : dm T) := map_values K.(oneg) m.
  Definition abs (m : dm T) := map_values K.(oabs) m.
  Definition opow (a p : T) : T :=
    if K.(oeqb) p zero then one else if K.(oeqb) a zero then zero else K.(oexp) (p * K.(oln) a).   (* a >= 0, p >= 0 *)
  (* pow_mut with the scalar power function as a parameter (the float instance of the correspondence
     check passes a `powf` that also handles negative bases with integer exponents) *)
  Definition pow_with (pw : T -> T -> T) (m : dm T) (p : T) := map_values (fun v => pw v p) m.
  Definition pow (m : dm T) (p : T) := pow_with opow m p.
  Definition binarize (m : dm T) (threshold : T) : dm T :=
    tab (nrows m) (ncols m) (fun r c => if K.(oltb) threshold (get m r c) then one else zero).

  (* ---------- comparisons ---------- *)
  Definition approximate_eq (a b : dm T) (err : T) : bool :=
    if negb (ncols a =? ncols b) || negb (nrows a =? nrows b) then false
    else forallb (fun c => forallb (fun r => negb (K.(oltb) err (K.(oabs) (get a r c - get b r c))))
                                   (seq O (nrows a))) (seq O (ncols a)).
  (* PartialEq: absolute machine-epsilon test on the storage vectors *)
  Definition eq_dm (eps : T) (a b : dm T) : bool :=
    if negb (ncols a =? ncols b) || negb (nrows a =? nrows b) then false
    else if negb (length (values a) =? length (values b)) then false
    else forallb (fun i => negb (K.(oltb) eps (K.(oabs) (nth i (values a) zero - nth i (values b) zero))))
                 (seq O (length (values a))).

  (* ---------- reductions ---------- *)
  Definition sum (m : dm T) : T := fold_left K.(oadd) (values m) zero.
  Definition fold1 (f : T -> T -> T) (l : list T) : option T :=
    match l with [] => None | x :: t => Some (fold_left f t x) end.
  (* max()/min(): fold of T::max / T::min from -inf / +inf; on non-empty finite data that is the
     fold from the first element *)
  Definition max (m : dm T) : option T := fold1 (omax K) (values m).
  Definition min (m : dm T) : option T := fold1 (omin K) (values m).
  Definition norm2 (m : dm T) : T := K.(osqrt) (fold_left (fun acc x => acc + x * x) (values m) zero).
  Definition norm_pinf (m : dm T) : option T := fold1 (omax K) (map K.(oabs) (values m)).
  Definition norm_ninf (m : dm T) : option T := fold1 (omin K) (map K.(oabs) (values m)).
  Definition norm_p (m : dm T) (p : T) : T :=
    opow (fold_left (fun acc x => acc + opow (K.(oabs) x) p) (values m) zero) (one / p).
  (* DenseMatrix's own max_diff (overrides the trait default; panics on operands of different shape) *)
  Definition max_diff (a b : dm T) : option T :=
    if negb ((nrows a =? nrows b) && (ncols a =? ncols b)) then None
    else if length (values b) <? length (values a) then None
    else Some (fold_left (fun acc i => omax K acc (K.(oabs) (nth i (values a) zero - nth i (values b) zero)))
                         (seq O (length (values a))) zero).
  Definition column_mean (m : dm T) : list T :=
    map (fun c => osumn K (nrows m) (fun r => get m r c) / oofnat K (nrows m)) (seq O (ncols m)).
  Definition argmax (m : dm T) : list nat :=
    map (fun r =>
           snd (fold_left (fun (acc : option T * nat) c =>
                             let v := get m r c in
                             match fst acc with
                             | None => (Some v, c)                       (* -inf < v for finite v *)
                             | Some mx => if K.(oltb) mx v then (Some v, c) else acc
                             end) (seq O (ncols m)) (None, O)))
        (seq O (nrows m)).

  (* sort_by(partial_cmp) (stable) followed by dedup() *)
  Fixpoint insert_sorted (x : T) (l : list T) : list T :=
    match l with
    | [] => [x]
    | y :: t => if K.(oltb) x y then x :: l else y :: insert_sorted x t
    end.
  Definition sort_vals (l : list T) : list T := fold_left (fun acc x => insert_sorted x acc) l [].
  (* Vec::dedup keeps the FIRST element of every run of equal elements: each element is compared
     (`a == b`) with the last element that was kept *)
  Fixpoint dedup_from (prev : T) (l : list T) : list T :=
    match l with
    | [] => []
    | y :: t => if K.(oeqb) y prev then dedup_from prev t else y :: dedup_from y t
    end.
  Definition dedup (l : list T) : list T :=
    match l with
    | [] => []
    | x :: t => x :: dedup_from x t
    end.
  Definition unique_list (l : list T) : list T := dedup (sort_vals l).
  Definition unique (m : dm T) : list T := unique_list (values m).

  Definition softmax (m : dm T) : option (dm T) :=
    match fold1 (omax K) (values m) with
    | None => Some m
    | Some mx =>
      let ps := tab (nrows m) (ncols m) (fun r c => K.(oexp) (get m r c - mx)) in
      let z := fold_left K.(oadd) (row_major ps) zero in
      Some (tab (nrows m) (ncols m) (fun r c => get ps r c / z))
    end.

  (* ---------- statistics (MatrixStats); axis0 = true means "per column" ---------- *)
  Definition line (m : dm T) (axis0 : bool) (i j : nat) : T := if axis0 then get m j i else get m i j.
  Definition n_lines (m : dm T) (axis0 : bool) : nat := if axis0 then ncols m else nrows m.
  Definition line_len (m : dm T) (axis0 : bool) : nat := if axis0 then nrows m else ncols m.
  Definition mean (m : dm T) (axis0 : bool) : list T :=
    map (fun i => osumn K (line_len m axis0) (fun j => line m axis0 i j) / oofnat K (line_len m axis0))
        (seq O (n_lines m axis0)).
  (* the one-pass formula of the code: sum x^2 / n - (sum x / n)^2 *)
  Definition var (m : dm T) (axis0 : bool) : list T :=
    map (fun i =>
           let len := line_len m axis0 in
           let mu := osumn K len (fun j => line m axis0 i j) / oofnat K len in
           let sq := osumn K len (fun j => line m axis0 i j * line m axis0 i j) in
           sq / oofnat K len - mu * mu)
        (seq O (n_lines m axis0)).
  Definition std (m : dm T) (axis0 : bool) : list T := map K.(osqrt) (var m axis0).
  Definition scale (m : dm T) (mean_ std_ : list T) (axis0 : bool) : option (dm T) :=
    if (length mean_ <? n_lines m axis0) || (length std_ <? n_lines m axis0) then
      (if (O <? line_len m axis0) then None else Some m)
    else Some (tab (nrows m) (ncols m)
                   (fun r c => let i := if axis0 then c else r in
                               (get m r c - nth i mean_ zero) / nth i std_ zero)).
  Definition cov (m : dm T) : option (dm T) :=
    match nrows m with
    | O => None                                    (* m - 1 underflows *)
    | S m1 =>
      let mu := column_mean m in
      Some (tab (ncols m) (ncols m)
                (fun i j => let a := Nat.max i j in let b := Nat.min i j in     (* lower triangle mirrored *)
                            osumn K (nrows m) (fun k => (get m k a - nth a mu zero) * (get m k b - nth b mu zero))
                            / oofnat K m1))
    end.

  (* ---------- BaseVector for Vec<T> ---------- *)
  Definition vdot (a b : list T) : option T :=
    if negb (length a =? length b) then None
    else Some (osumn K (length a) (fun i => nth i a zero * nth i b zero)).
  Definition vnorm2 (a : list T) : T := K.(osqrt) (fold_left (fun acc x => acc + x * x) a zero).
  Definition vnorm_p (a : list T) (p : T) : T :=
    opow (fold_left (fun acc x => acc + opow (K.(oabs) x) p) a zero) (one / p).
  Definition vnorm_pinf (a : list T) : option T := fold1 (omax K) (map K.(oabs) a).
  Definition vnorm_ninf (a : list T) : option T := fold1 (omin K) (map K.(oabs) a).
  Fixpoint zipw (f : T -> T -> T) (a b : list T) : list T :=
    match a, b with x :: ta, y :: tb => f x y :: zipw f ta tb | _, _ => [] end.
  Definition vzip (f : T -> T -> T) (a b : list T) : option (list T) :=
    if negb (length a =? length b) then None else Some (zipw f a b).
  Definition vapprox_eq (a b : list T) (err : T) : bool :=
    if negb (length a =? length b) then false
    else forallb (fun i => negb (K.(oltb) err (K.(oabs) (nth i a zero - nth i b zero)))) (seq O (length b)).
  Definition vsum (a : list T) : T := fold_left K.(oadd) a zero.
  Definition vmean (a : list T) : T := vsum a / oofnat K (length a).
  (* two-pass variance (after the repair of D6) *)
  Definition vvar (a : list T) : T :=
    let n := length a in
    let mu := osumn K n (fun i => nth i a zero) / oofnat K n in
    osumn K n (fun i => (nth i a zero - mu) * (nth i a zero - mu)) / oofnat K n.
  Definition vstd (a : list T) : T := K.(osqrt) (vvar a).
  Definition vtake (a : list T) (index : list nat) : option (list T) :=
    if existsb (fun i => length a <=? i) index then None else Some (map (fun i => nth i a zero) index).
  Definition vcopy_from (a b : list T) : option (list T) :=
    if negb (length a =? length b) then None else Some b.
  Definition vunique (a : list T) : list T := unique_list a.
  (* BaseVector defaults: scalar arithmetic (get/set loops), constructors *)
  Definition vadd_scalar (a : list T) (x : T) := map (fun v => v + x) a.
  Definition vsub_scalar (a : list T) (x : T) := map (fun v => v - x) a.
  Definition vmul_scalar (a : list T) (x : T) := map (fun v => v * x) a.
  Definition vdiv_scalar (a : list T) (x : T) := map (fun v => v / x) a.
  Definition vfill (n : nat) (v : T) : list T := repeat v n.
  Definition vadd := vzip K.(oadd).
  Definition vsub := vzip K.(osub).
  Definition vmul := vzip K.(omul).
  Definition vdiv := vzip K.(odiv).
End Dense.
