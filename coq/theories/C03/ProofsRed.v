(* C03 — reductions and statistics of the dense matrix / vector model over the REAL instance ROps:
   the folds over the column-major storage are the mathematical sums / extrema over the logical
   rows-by-columns view, and the coded statistics formulas equal their textbook definitions.
   All statements hold for every shape (no bounded enumeration). *)
From Coq Require Import List Arith Lia Reals Lra.
From SC Require Import Base.Num C03.Model C03.ProofsBase.
Import ListNotations.
Local Open Scope R_scope.

Local Notation get := (Model.get ROps).

(* ================================================================================ *)
(* Finite real sums                                                                  *)
(* ================================================================================ *)

Definition rsum (n : nat) (f : nat -> R) : R := osumn ROps n f.

Lemma rsum_0 f : rsum 0 f = 0.
Proof. reflexivity. Qed.
Lemma rsum_S n f : rsum (S n) f = rsum n f + f n.
Proof. reflexivity. Qed.

Lemma rsum_ext n f g : (forall i, (i < n)%nat -> f i = g i) -> rsum n f = rsum n g.
Proof.
  induction n as [|n IH]; intros H; [reflexivity|].
  rewrite !rsum_S. rewrite IH by (intros i Hi; apply H; lia). rewrite (H n) by lia. reflexivity.
Qed.

Lemma rsum_lin n a f g : rsum n (fun i => a * f i + g i) = a * rsum n f + rsum n g.
Proof.
  induction n as [|n IH].
  - rewrite !rsum_0. ring.
  - rewrite !rsum_S, IH. ring.
Qed.

Lemma rsum_plus n f g : rsum n (fun i => f i + g i) = rsum n f + rsum n g.
Proof.
  induction n as [|n IH].
  - rewrite !rsum_0. ring.
  - rewrite !rsum_S, IH. ring.
Qed.

Lemma rsum_scal n a f : rsum n (fun i => a * f i) = a * rsum n f.
Proof.
  induction n as [|n IH].
  - rewrite !rsum_0. ring.
  - rewrite !rsum_S, IH. ring.
Qed.

Lemma rsum_const n c : rsum n (fun _ => c) = INR n * c.
Proof.
  induction n as [|n IH].
  - rewrite rsum_0. cbn [INR]. ring.
  - rewrite rsum_S, IH, S_INR. ring.
Qed.

Lemma rsum_zero n : rsum n (fun _ => 0) = 0.
Proof. rewrite rsum_const. ring. Qed.

Lemma rsum_nonneg n f : (forall i, (i < n)%nat -> 0 <= f i) -> 0 <= rsum n f.
Proof.
  induction n as [|n IH]; intros H.
  - rewrite rsum_0. apply Rle_refl.
  - rewrite rsum_S. apply Rplus_le_le_0_compat.
    + apply IH. intros i Hi. apply H. lia.
    + apply H. lia.
Qed.

(* exchange of the order of summation *)
Lemma rsum_swap n p (f : nat -> nat -> R) :
  rsum n (fun i => rsum p (fun j => f i j)) = rsum p (fun j => rsum n (fun i => f i j)).
Proof.
  induction n as [|n IH].
  - rewrite rsum_0. symmetry. apply rsum_zero.
  - rewrite rsum_S, IH. symmetry.
    etransitivity; [|exact (rsum_plus p (fun j => rsum n (fun i => f i j)) (fun j => f n j))].
    apply rsum_ext. intros j _. reflexivity.
Qed.

Lemma rsum_S_first n f : rsum (S n) f = f 0%nat + rsum n (fun i => f (S i)).
Proof.
  induction n as [|n IH].
  - rewrite (rsum_S 0), !rsum_0. ring.
  - rewrite (rsum_S (S n)), IH, (rsum_S n). ring.
Qed.

Lemma rsum_add a b f : rsum (a + b) f = rsum a f + rsum b (fun i => f (a + i)%nat).
Proof.
  induction b as [|b IH].
  - rewrite Nat.add_0_r, rsum_0. ring.
  - rewrite Nat.add_succ_r, !rsum_S, IH. ring.
Qed.

(* a sum over p * n linear indices is the double sum over (c, r) with index c * n + r *)
Lemma rsum_mul p n g :
  rsum (p * n) g = rsum p (fun c => rsum n (fun r => g (c * n + r)%nat)).
Proof.
  induction p as [|p IH].
  - reflexivity.
  - replace (S p * n)%nat with (p * n + n)%nat by lia.
    rewrite rsum_add, IH, rsum_S. reflexivity.
Qed.

(* ---------- fold_left Rplus ---------- *)
Lemma fold_left_Rplus_acc l a : fold_left Rplus l a = a + fold_left Rplus l 0.
Proof.
  revert a. induction l as [|x l IH]; intros a; cbn [fold_left].
  - ring.
  - rewrite (IH (a + x)), (IH (0 + x)). ring.
Qed.

Lemma fold_left_Rplus_app l1 l2 :
  fold_left Rplus (l1 ++ l2) 0 = fold_left Rplus l1 0 + fold_left Rplus l2 0.
Proof. rewrite fold_left_app. apply fold_left_Rplus_acc. Qed.

Lemma fold_left_Rplus_map_seq (f : nat -> R) n : fold_left Rplus (map f (seq 0 n)) 0 = rsum n f.
Proof.
  induction n as [|n IH]; [reflexivity|].
  rewrite seq_S, map_app, fold_left_Rplus_app, IH. cbn [Nat.add map fold_left]. rewrite rsum_S. ring.
Qed.

Lemma fold_left_Rplus_flat_map (g : nat -> list R) p :
  fold_left Rplus (flat_map g (seq 0 p)) 0 = rsum p (fun c => fold_left Rplus (g c) 0).
Proof.
  induction p as [|p IH]; [reflexivity|].
  rewrite seq_S, flat_map_app, fold_left_Rplus_app, IH. cbn [Nat.add flat_map].
  rewrite app_nil_r, rsum_S. reflexivity.
Qed.

(* the storage of a tabulation, folded, is the nested sum (columns outside) *)
Lemma fold_left_Rplus_tab n p (f : nat -> nat -> R) :
  fold_left Rplus (values (tab n p f)) 0 = rsum p (fun c => rsum n (fun r => f r c)).
Proof.
  unfold tab. cbn [values]. rewrite fold_left_Rplus_flat_map.
  apply rsum_ext. intros c _. apply (fold_left_Rplus_map_seq (fun r => f r c)).
Qed.

(* a left fold accumulating h x is the indexed sum of h over the list *)
Lemma fold_left_sum_nth (h : R -> R) l a :
  fold_left (fun acc x => acc + h x) l a = a + rsum (length l) (fun i => h (nth i l 0)).
Proof.
  revert a. induction l as [|x l IH]; intros a; cbn [fold_left length].
  - rewrite rsum_0. ring.
  - rewrite IH, rsum_S_first. cbn [nth]. ring.
Qed.

Lemma fold_left_Rplus_nth l : fold_left Rplus l 0 = rsum (length l) (fun i => nth i l 0).
Proof.
  etransitivity; [exact (fold_left_sum_nth (fun y => y) l 0)|]. cbv beta. ring.
Qed.

Lemma fold_left_Rplus_map (h : R -> R) l :
  fold_left Rplus (map h l) 0 = fold_left (fun acc x => acc + h x) l 0.
Proof.
  rewrite (fold_left_sum_nth h l 0), (fold_left_Rplus_nth (map h l)), map_length, Rplus_0_l.
  apply rsum_ext. intros i Hi.
  rewrite (nth_indep _ 0 (h 0)) by (rewrite map_length; exact Hi). apply map_nth.
Qed.

Lemma oofnat_INR n : oofnat ROps n = INR n.
Proof. unfold oofnat. cbn [oofZ ROps]. symmetry. apply INR_IZR_INZ. Qed.

Lemma nth_map_seq {A : Type} (f : nat -> A) n i d : (i < n)%nat -> nth i (map f (seq 0 n)) d = f i.
Proof.
  intros H. rewrite (nth_indep _ d (f 0%nat)) by (rewrite map_length, seq_length; exact H).
  rewrite (map_nth f (seq 0 n) 0%nat i). rewrite seq_nth by exact H. reflexivity.
Qed.

(* running example: the 2 x 3 matrix with rows (1 2 3) and (4 5 6), stored column-major *)
Definition ex23 : dm R := mkdm 2 3 [1; 4; 2; 5; 3; 6].
Example ex23_wf : wf ex23.
Proof. reflexivity. Qed.

(* ================================================================================ *)
(* 1. sum is independent of the storage order                                        *)
(* ================================================================================ *)

(* any additive fold over the storage is the row-by-row double sum over the logical view *)
Lemma values_sum_view (h : R -> R) m : wf m ->
  fold_left (fun acc x => acc + h x) (values m) 0
  = rsum (nrows m) (fun r => rsum (ncols m) (fun c => h (get m r c))).
Proof.
  intros Hwf. unfold wf in Hwf.
  rewrite fold_left_sum_nth, Hwf, Rplus_0_l, (Nat.mul_comm (nrows m)), rsum_mul.
  symmetry.
  exact (rsum_swap (nrows m) (ncols m) (fun r c => h (get m r c))).
Qed.

Lemma sum_view m : wf m ->
  sum ROps m = rsum (nrows m) (fun r => rsum (ncols m) (fun c => get m r c)).
Proof. intros Hwf. exact (values_sum_view (fun y => y) m Hwf). Qed.

Lemma sum_view_cols m : wf m ->
  sum ROps m = rsum (ncols m) (fun c => rsum (nrows m) (fun r => get m r c)).
Proof.
  intros Hwf. rewrite sum_view by exact Hwf.
  exact (rsum_swap (nrows m) (ncols m) (fun r c => get m r c)).
Qed.

Lemma sum_transpose m : wf m -> sum ROps (transpose ROps m) = sum ROps m.
Proof.
  intros Hwf.
  rewrite (sum_view (transpose ROps m)) by apply transpose_shape.
  rewrite (sum_view_cols m) by exact Hwf.
  change (nrows (transpose ROps m)) with (ncols m). change (ncols (transpose ROps m)) with (nrows m).
  apply rsum_ext. intros r Hr. apply rsum_ext. intros c Hc.
  apply get_transpose; assumption.
Qed.

Example sum_view_ex23 : sum ROps ex23 = 21 /\ sum ROps (transpose ROps ex23) = sum ROps ex23.
Proof.
  split; [|apply sum_transpose, ex23_wf].
  rewrite (sum_view ex23 ex23_wf). unfold rsum, Model.get. cbn. lra.
Qed.

(* ================================================================================ *)
(* 5. MatrixStats: mean / var / std on both axes                                     *)
(* ================================================================================ *)

Definition line_mean (m : dm R) (ax : bool) (i : nat) : R :=
  rsum (line_len m ax) (fun j => line ROps m ax i j) / INR (line_len m ax).

Lemma mean_length m ax : length (mean ROps m ax) = n_lines m ax.
Proof. unfold mean. rewrite map_length, seq_length. reflexivity. Qed.

Lemma mean_nth m ax i : (i < n_lines m ax)%nat -> nth i (mean ROps m ax) 0 = line_mean m ax i.
Proof.
  intros Hi. unfold mean. rewrite nth_map_seq by exact Hi. rewrite oofnat_INR. reflexivity.
Qed.

(* sum of squared deviations from an arbitrary centre *)
Lemma rsum_sq_dev n (x : nat -> R) mu :
  rsum n (fun j => (x j - mu) ^ 2) = rsum n (fun j => x j ^ 2) - 2 * mu * rsum n x + INR n * mu ^ 2.
Proof.
  induction n as [|n IH].
  - rewrite !rsum_0. cbn [INR]. ring.
  - rewrite !rsum_S, IH, S_INR. ring.
Qed.

(* the one-pass formula equals the definition of the (population) variance, in exact arithmetic *)
Lemma var_one_pass n (x : nat -> R) : (0 < n)%nat ->
  rsum n (fun j => x j * x j) / INR n - (rsum n x / INR n) * (rsum n x / INR n)
  = rsum n (fun j => (x j - rsum n x / INR n) ^ 2) / INR n.
Proof.
  intros Hn. assert (Hne : INR n <> 0) by (apply not_0_INR; lia).
  rewrite rsum_sq_dev.
  rewrite (rsum_ext n (fun j => x j ^ 2) (fun j => x j * x j)) by (intros; ring).
  field. exact Hne.
Qed.

Lemma var_length m ax : length (var ROps m ax) = n_lines m ax.
Proof. unfold var. rewrite map_length, seq_length. reflexivity. Qed.

Lemma var_nth m ax i : (i < n_lines m ax)%nat -> (0 < line_len m ax)%nat ->
  nth i (var ROps m ax) 0
  = rsum (line_len m ax) (fun j => (line ROps m ax i j - line_mean m ax i) ^ 2) / INR (line_len m ax).
Proof.
  intros Hi Hlen. unfold var. rewrite nth_map_seq by exact Hi. cbv zeta. rewrite oofnat_INR.
  unfold line_mean.
  exact (var_one_pass (line_len m ax) (fun j => line ROps m ax i j) Hlen).
Qed.

Lemma var_nonneg m ax i : (i < n_lines m ax)%nat -> (0 < line_len m ax)%nat ->
  0 <= nth i (var ROps m ax) 0.
Proof.
  intros Hi Hlen. rewrite var_nth by assumption. unfold Rdiv. apply Rmult_le_pos.
  - apply rsum_nonneg. intros j _. apply pow2_ge_0.
  - left. apply Rinv_0_lt_compat. apply lt_0_INR. exact Hlen.
Qed.

Lemma std_length m ax : length (std ROps m ax) = n_lines m ax.
Proof. unfold std. rewrite map_length. apply var_length. Qed.

Lemma std_nth m ax i : (i < n_lines m ax)%nat ->
  nth i (std ROps m ax) 0 = sqrt (nth i (var ROps m ax) 0).
Proof.
  intros Hi. unfold std. cbn [osqrt ROps].
  rewrite (nth_indep _ 0 (sqrt 0)) by (rewrite map_length, var_length; exact Hi).
  apply map_nth.
Qed.

Example mean_var_ex23 :
  nth 0 (mean ROps ex23 true) 0 = 5 / 2 /\ nth 0 (var ROps ex23 true) 0 = 9 / 4 /\
  nth 1 (mean ROps ex23 false) 0 = 5 /\ nth 1 (var ROps ex23 false) 0 = 2 / 3 /\
  nth 0 (var ROps ex23 true) 0
  = rsum 2 (fun j => (line ROps ex23 true 0 j - line_mean ex23 true 0) ^ 2) / INR 2 /\
  nth 1 (std ROps ex23 false) 0 = sqrt (nth 1 (var ROps ex23 false) 0).
Proof.
  repeat apply conj.
  - unfold mean, line_len, n_lines, line, Model.get, oofnat. cbn. lra.
  - unfold var, line_len, n_lines, line, Model.get, oofnat. cbn. lra.
  - unfold mean, line_len, n_lines, line, Model.get, oofnat. cbn. lra.
  - unfold var, line_len, n_lines, line, Model.get, oofnat. cbn. lra.
  - apply (var_nth ex23 true 0); cbn; lia.
  - apply (std_nth ex23 false 1); cbn; lia.
Qed.

(* ================================================================================ *)
(* 4. column_mean                                                                    *)
(* ================================================================================ *)

Lemma column_mean_length m : length (column_mean ROps m) = ncols m.
Proof. unfold column_mean. rewrite map_length, seq_length. reflexivity. Qed.

Lemma column_mean_nth m c : (c < ncols m)%nat ->
  nth c (column_mean ROps m) 0 = rsum (nrows m) (fun r => get m r c) / INR (nrows m).
Proof.
  intros Hc. unfold column_mean. rewrite nth_map_seq by exact Hc. rewrite oofnat_INR. reflexivity.
Qed.

(* column_mean is the axis-0 mean of MatrixStats *)
Lemma column_mean_mean m : column_mean ROps m = mean ROps m true.
Proof. reflexivity. Qed.

Example column_mean_ex23 :
  nth 2 (column_mean ROps ex23) 0 = rsum 2 (fun r => get ex23 r 2) / INR 2 /\
  nth 2 (column_mean ROps ex23) 0 = 9 / 2.
Proof.
  split.
  - apply (column_mean_nth ex23 2). cbn. lia.
  - unfold column_mean, Model.get, oofnat. cbn. lra.
Qed.

(* ================================================================================ *)
(* 7. cov                                                                            *)
(* ================================================================================ *)

Definition col_mu (m : dm R) (c : nat) : R := nth c (column_mean ROps m) 0.

Lemma cov_none m : nrows m = 0%nat -> cov ROps m = None.
Proof. intros H. unfold cov. rewrite H. reflexivity. Qed.

Lemma cov_spec m m1 : nrows m = S m1 ->
  exists C, cov ROps m = Some C /\ nrows C = ncols m /\ ncols C = ncols m /\ wf C /\
    (forall i j, (i < ncols m)%nat -> (j < ncols m)%nat ->
       get C i j
       = rsum (nrows m) (fun k => (get m k i - col_mu m i) * (get m k j - col_mu m j)) / INR m1) /\
    (forall i j, (i < ncols m)%nat -> (j < ncols m)%nat -> get C i j = get C j i).
Proof.
  intros Hn.
  set (C := tab (ncols m) (ncols m)
              (fun i j => osumn ROps (nrows m)
                            (fun k => (get m k (Nat.max i j) - nth (Nat.max i j) (column_mean ROps m) 0)
                                      * (get m k (Nat.min i j) - nth (Nat.min i j) (column_mean ROps m) 0))
                          / oofnat ROps m1)).
  assert (Hcov : cov ROps m = Some C).
  { unfold cov, C. rewrite Hn. reflexivity. }
  assert (Hget : forall i j, (i < ncols m)%nat -> (j < ncols m)%nat ->
            get C i j
            = rsum (nrows m) (fun k => (get m k i - col_mu m i) * (get m k j - col_mu m j)) / INR m1).
  { intros i j Hi Hj. unfold C. rewrite get_tab by assumption. rewrite oofnat_INR.
    unfold col_mu. f_equal.
    destruct (le_lt_dec i j) as [Hij|Hij].
    - rewrite Nat.max_r, Nat.min_l by lia. apply rsum_ext. intros k _. apply Rmult_comm.
    - rewrite Nat.max_l, Nat.min_r by lia. reflexivity. }
  exists C. split; [exact Hcov|]. split; [reflexivity|]. split; [reflexivity|].
  split; [apply tab_wf|]. split; [exact Hget|].
  intros i j Hi Hj. rewrite !Hget by assumption. f_equal.
  apply rsum_ext. intros k _. apply Rmult_comm.
Qed.

(* the diagonal of the covariance matrix is the (sample) variance of the column *)
Lemma cov_diag m m1 C i : nrows m = S m1 -> cov ROps m = Some C -> (i < ncols m)%nat ->
  get C i i = rsum (nrows m) (fun k => (get m k i - col_mu m i) ^ 2) / INR m1.
Proof.
  intros Hn HC Hi. destruct (cov_spec m m1 Hn) as [C' [HC' [_ [_ [_ [Hget _]]]]]].
  rewrite HC in HC'. injection HC' as <-. rewrite Hget by assumption. f_equal.
  apply rsum_ext. intros k _. ring.
Qed.

Example cov_ex23 :
  exists C, cov ROps ex23 = Some C /\ get C 0 1 = 9 / 2 /\ get C 1 0 = 9 / 2 /\ get C 2 2 = 9 / 2.
Proof.
  destruct (cov_spec ex23 1 eq_refl) as [C [HC [_ [_ [_ [Hget _]]]]]].
  exists C. split; [exact HC|].
  repeat apply conj; (rewrite Hget by (cbn; lia));
    unfold col_mu, column_mean, rsum, Model.get, oofnat; cbn; lra.
Qed.

(* ================================================================================ *)
(* 8. vectors (BaseVector for Vec<T>)                                                *)
(* ================================================================================ *)

Lemma vsum_rsum a : vsum ROps a = rsum (length a) (fun i => nth i a 0).
Proof. exact (fold_left_Rplus_nth a). Qed.

Lemma vmean_def a : vmean ROps a = rsum (length a) (fun i => nth i a 0) / INR (length a).
Proof. unfold vmean. rewrite vsum_rsum, oofnat_INR. reflexivity. Qed.

(* the two-pass definition, centred at vmean (vvar accumulates the mean with osumn, vmean with a
   fold over the list: over R they agree) *)
Lemma vvar_def a :
  vvar ROps a = rsum (length a) (fun i => (nth i a 0 - vmean ROps a) ^ 2) / INR (length a).
Proof.
  rewrite vmean_def. unfold vvar. cbv zeta. rewrite oofnat_INR.
  cbn [o0 osub omul odiv ROps]. change (@osumn R ROps) with rsum. f_equal.
  apply rsum_ext. intros i _. ring.
Qed.

Lemma vvar_nonneg a : 0 <= vvar ROps a.
Proof.
  rewrite vvar_def. destruct a as [|x a].
  - cbn [length]. rewrite rsum_0. unfold Rdiv. rewrite Rmult_0_l. apply Rle_refl.
  - unfold Rdiv. apply Rmult_le_pos.
    + apply rsum_nonneg. intros j _. apply pow2_ge_0.
    + left. apply Rinv_0_lt_compat. apply lt_0_INR. cbn [length]. lia.
Qed.

Lemma vstd_def a : vstd ROps a = sqrt (vvar ROps a).
Proof. reflexivity. Qed.

Lemma vmean_shift a c : a <> [] -> vmean ROps (map (fun x => x + c) a) = vmean ROps a + c.
Proof.
  intros Hne. rewrite !vmean_def, map_length.
  assert (Hn : INR (length a) <> 0).
  { apply not_0_INR. destruct a; [congruence|]. cbn [length]. lia. }
  rewrite (rsum_ext (length a) (fun i => nth i (map (fun x => x + c) a) 0) (fun i => nth i a 0 + c)).
  - rewrite rsum_plus, rsum_const. field. exact Hn.
  - intros i Hi. rewrite (nth_indep _ 0 (0 + c)) by (rewrite map_length; exact Hi).
    apply (map_nth (fun x => x + c)).
Qed.

(* translation invariance (for the empty list both sides are the same term) *)
Lemma vvar_shift a c : vvar ROps (map (fun x => x + c) a) = vvar ROps a.
Proof.
  destruct a as [|x0 a0]; [reflexivity|]. set (a := x0 :: a0).
  rewrite !vvar_def, map_length. rewrite vmean_shift by discriminate. f_equal.
  apply rsum_ext. intros i Hi.
  rewrite (nth_indep _ 0 (0 + c)) by (rewrite map_length; exact Hi).
  rewrite (map_nth (fun x => x + c)). ring.
Qed.

Example vec_ex :
  vmean ROps [1; 2; 3; 6] = 3 /\ vvar ROps [1; 2; 3; 6] = 7 / 2 /\
  vvar ROps (map (fun x => x + 10) [1; 2; 3; 6]) = vvar ROps [1; 2; 3; 6] /\
  vmean ROps (map (fun x => x + 10) [1; 2; 3; 6]) = vmean ROps [1; 2; 3; 6] + 10.
Proof.
  repeat apply conj.
  - unfold vmean, vsum, oofnat. cbn. lra.
  - unfold vvar, oofnat. cbn. lra.
  - apply vvar_shift.
  - apply vmean_shift. discriminate.
Qed.

(* ================================================================================ *)
(* 6. scale                                                                          *)
(* ================================================================================ *)

Lemma scale_spec m mean_ std_ ax :
  (n_lines m ax <= length mean_)%nat -> (n_lines m ax <= length std_)%nat ->
  exists m', scale ROps m mean_ std_ ax = Some m' /\ nrows m' = nrows m /\ ncols m' = ncols m /\ wf m' /\
    forall r c, (r < nrows m)%nat -> (c < ncols m)%nat ->
      get m' r c = (get m r c - nth (if ax then c else r) mean_ 0) / nth (if ax then c else r) std_ 0.
Proof.
  intros H1 H2. unfold scale.
  apply Nat.ltb_ge in H1. apply Nat.ltb_ge in H2. rewrite H1, H2. cbn [orb].
  eexists. split; [reflexivity|]. split; [reflexivity|]. split; [reflexivity|]. split; [apply tab_wf|].
  intros r c Hr Hc. rewrite get_tab by assumption. reflexivity.
Qed.

Lemma scale_none m mean_ std_ ax :
  (length mean_ < n_lines m ax \/ length std_ < n_lines m ax)%nat -> (0 < line_len m ax)%nat ->
  scale ROps m mean_ std_ ax = None.
Proof.
  intros H Hlen. unfold scale. apply Nat.ltb_lt in Hlen. rewrite Hlen.
  destruct H as [H|H]; apply Nat.ltb_lt in H; rewrite H; [reflexivity|].
  rewrite Bool.orb_true_r. reflexivity.
Qed.

(* degenerate case of the code: lines of length zero are never indexed, the matrix is returned as is *)
Lemma scale_short_empty m mean_ std_ ax :
  (length mean_ < n_lines m ax \/ length std_ < n_lines m ax)%nat -> line_len m ax = 0%nat ->
  scale ROps m mean_ std_ ax = Some m.
Proof.
  intros H Hlen. unfold scale. rewrite Hlen, Nat.ltb_irrefl.
  destruct H as [H|H]; apply Nat.ltb_lt in H; rewrite H; [reflexivity|].
  rewrite Bool.orb_true_r. reflexivity.
Qed.

(* standardising with the computed mean and std gives lines of mean zero *)
Lemma scale_mean_std_centered m ax m' i :
  scale ROps m (mean ROps m ax) (std ROps m ax) ax = Some m' ->
  (i < n_lines m ax)%nat -> (0 < line_len m ax)%nat ->
  nth i (std ROps m ax) 0 <> 0 ->
  rsum (line_len m ax) (fun j => line ROps m' ax i j) = 0.
Proof.
  intros Hs Hi Hlen Hsd.
  destruct (scale_spec m (mean ROps m ax) (std ROps m ax) ax) as [m2 [Hs2 [_ [_ [_ Hget]]]]];
    try (rewrite ?mean_length, ?std_length; apply le_n).
  rewrite Hs in Hs2. injection Hs2 as <-.
  assert (Hne : INR (line_len m ax) <> 0) by (apply not_0_INR; lia).
  rewrite (rsum_ext _ _ (fun j => / nth i (std ROps m ax) 0 * line ROps m ax i j
                                  + (- (line_mean m ax i / nth i (std ROps m ax) 0)))).
  - rewrite rsum_lin, rsum_const. unfold line_mean.
    change (rsum (line_len m ax) (line ROps m ax i))
      with (rsum (line_len m ax) (fun j => line ROps m ax i j)).
    field. split; assumption.
  - intros j Hj. unfold line. destruct ax; cbn [n_lines line_len] in *.
    + rewrite Hget by assumption. rewrite (mean_nth m true i) by exact Hi. unfold line. field. exact Hsd.
    + rewrite Hget by assumption. rewrite (mean_nth m false i) by exact Hi. unfold line. field. exact Hsd.
Qed.

Example scale_ex23 :
  exists m', scale ROps ex23 [5 / 2; 7 / 2; 9 / 2] [3 / 2; 3 / 2; 3 / 2] true = Some m' /\
             get m' 1 2 = 1 /\ get m' 0 0 = -1.
Proof.
  destruct (scale_spec ex23 [5 / 2; 7 / 2; 9 / 2] [3 / 2; 3 / 2; 3 / 2] true) as [m' [Hs [_ [_ [_ Hget]]]]];
    try (cbn; lia).
  exists m'. split; [exact Hs|].
  split; (rewrite Hget by (cbn; lia)); unfold Model.get; cbn; lra.
Qed.
Example scale_none_ex23 : scale ROps ex23 [1; 2] [1; 1; 1] true = None.
Proof. apply scale_none; cbn; lia. Qed.

(* ================================================================================ *)
(* 2. norm2 (Frobenius norm)                                                         *)
(* ================================================================================ *)

Lemma norm2_view m : wf m ->
  norm2 ROps m = sqrt (rsum (nrows m) (fun r => rsum (ncols m) (fun c => get m r c ^ 2))).
Proof.
  intros Hwf. unfold norm2. cbn [osqrt oadd omul o0 ROps]. f_equal.
  rewrite (values_sum_view (fun x => x * x) m Hwf).
  apply rsum_ext. intros r _. apply rsum_ext. intros c _. ring.
Qed.

Lemma norm2_nonneg m : 0 <= norm2 ROps m.
Proof. unfold norm2. cbn [osqrt ROps]. apply sqrt_pos. Qed.

Lemma norm2_transpose m : wf m -> norm2 ROps (transpose ROps m) = norm2 ROps m.
Proof.
  intros Hwf. rewrite (norm2_view (transpose ROps m)) by apply transpose_shape.
  rewrite (norm2_view m) by exact Hwf. f_equal.
  change (nrows (transpose ROps m)) with (ncols m). change (ncols (transpose ROps m)) with (nrows m).
  etransitivity; [|exact (rsum_swap (ncols m) (nrows m) (fun c r => get m r c ^ 2))].
  apply rsum_ext. intros r Hr. apply rsum_ext. intros c Hc.
  rewrite get_transpose by assumption. reflexivity.
Qed.

Lemma vnorm2_def a : vnorm2 ROps a = sqrt (rsum (length a) (fun i => nth i a 0 ^ 2)).
Proof.
  unfold vnorm2. cbn [osqrt oadd omul o0 ROps]. f_equal.
  rewrite (fold_left_sum_nth (fun x => x * x) a 0), Rplus_0_l.
  apply rsum_ext. intros i _. ring.
Qed.

Example norm2_ex23 : norm2 ROps ex23 = sqrt 91.
Proof.
  rewrite (norm2_view ex23 ex23_wf). f_equal. unfold rsum, Model.get. cbn. lra.
Qed.

(* ================================================================================ *)
(* 3. max / min / norm_pinf / norm_ninf                                              *)
(* ================================================================================ *)

Lemma omax_R a b : omax ROps a b = Rmax a b.
Proof.
  unfold omax, Rmax. cbn [oltb ROps]. destruct (Rltb a b) eqn:E.
  - apply Rltb_true in E. destruct (Rle_dec a b) as [H|H]; [reflexivity|]. exfalso. apply H. lra.
  - apply Rltb_false in E. destruct (Rle_dec a b) as [H|H]; [|reflexivity]. lra.
Qed.
Lemma omin_R a b : omin ROps a b = Rmin a b.
Proof.
  unfold omin, Rmin. cbn [oltb ROps]. destruct (Rltb b a) eqn:E.
  - apply Rltb_true in E. destruct (Rle_dec a b) as [H|H]; [|reflexivity]. lra.
  - apply Rltb_false in E. destruct (Rle_dec a b) as [H|H]; [reflexivity|]. exfalso. apply H. exact E.
Qed.

Lemma fold_left_omax_spec l a :
  (a <= fold_left (omax ROps) l a /\ forall x, In x l -> x <= fold_left (omax ROps) l a) /\
  (fold_left (omax ROps) l a = a \/ In (fold_left (omax ROps) l a) l).
Proof.
  revert a. induction l as [|y l IH]; intros a; cbn [fold_left In].
  - split; [split; [apply Rle_refl|intros x []]|left; reflexivity].
  - destruct (IH (omax ROps a y)) as [[H1 H2] H3]. rewrite omax_R in *.
    pose proof (Rmax_l a y) as Hl. pose proof (Rmax_r a y) as Hr.
    split; [split|].
    + lra.
    + intros x [<-|Hx]; [lra|apply H2; exact Hx].
    + destruct H3 as [H3|H3]; [|right; right; exact H3].
      rewrite H3. unfold Rmax. destruct (Rle_dec a y); [right; left; reflexivity|left; reflexivity].
Qed.

Lemma fold_left_omin_spec l a :
  (fold_left (omin ROps) l a <= a /\ forall x, In x l -> fold_left (omin ROps) l a <= x) /\
  (fold_left (omin ROps) l a = a \/ In (fold_left (omin ROps) l a) l).
Proof.
  revert a. induction l as [|y l IH]; intros a; cbn [fold_left In].
  - split; [split; [apply Rle_refl|intros x []]|left; reflexivity].
  - destruct (IH (omin ROps a y)) as [[H1 H2] H3]. rewrite omin_R in *.
    pose proof (Rmin_l a y) as Hl. pose proof (Rmin_r a y) as Hr.
    split; [split|].
    + lra.
    + intros x [<-|Hx]; [lra|apply H2; exact Hx].
    + destruct H3 as [H3|H3]; [|right; right; exact H3].
      rewrite H3. unfold Rmin. destruct (Rle_dec a y); [left; reflexivity|right; left; reflexivity].
Qed.

(* fold1 of max over a non-empty list: an element of the list that dominates every element *)
Lemma fold1_omax_spec l : l <> [] ->
  exists v, fold1 (omax ROps) l = Some v /\ In v l /\ forall x, In x l -> x <= v.
Proof.
  destruct l as [|a l]; [congruence|]. intros _. cbn [fold1].
  destruct (fold_left_omax_spec l a) as [[H1 H2] H3].
  eexists. split; [reflexivity|]. split.
  - destruct H3 as [H3|H3]; [left; symmetry; exact H3|right; exact H3].
  - intros x [<-|Hx]; [exact H1|apply H2; exact Hx].
Qed.
Lemma fold1_omin_spec l : l <> [] ->
  exists v, fold1 (omin ROps) l = Some v /\ In v l /\ forall x, In x l -> v <= x.
Proof.
  destruct l as [|a l]; [congruence|]. intros _. cbn [fold1].
  destruct (fold_left_omin_spec l a) as [[H1 H2] H3].
  eexists. split; [reflexivity|]. split.
  - destruct H3 as [H3|H3]; [left; symmetry; exact H3|right; exact H3].
  - intros x [<-|Hx]; [exact H1|apply H2; exact Hx].
Qed.
Lemma fold1_nil (f : R -> R -> R) : fold1 f [] = None.
Proof. reflexivity. Qed.

(* storage <-> view: every in-range entry is stored, every stored value is an in-range entry *)
Lemma get_in_values m r c : wf m -> (r < nrows m)%nat -> (c < ncols m)%nat -> In (get m r c) (values m).
Proof.
  intros Hwf Hr Hc. unfold Model.get. apply nth_In. unfold wf in Hwf. rewrite Hwf. nia.
Qed.
Lemma in_values_get m v : wf m -> In v (values m) ->
  exists r c, (r < nrows m)%nat /\ (c < ncols m)%nat /\ get m r c = v.
Proof.
  intros Hwf Hin. unfold wf in Hwf.
  destruct (In_nth _ _ 0 Hin) as [i [Hi Hv]]. rewrite Hwf in Hi.
  assert (Hn : nrows m <> 0%nat) by (intros E; rewrite E in Hi; lia).
  pose proof (Nat.div_mod i (nrows m) Hn) as Hdm.
  pose proof (Nat.mod_upper_bound i (nrows m) Hn) as Hmod.
  assert (Hdiv : (i / nrows m < ncols m)%nat) by (apply Nat.div_lt_upper_bound; lia).
  exists (i mod nrows m)%nat, (i / nrows m)%nat. split; [exact Hmod|]. split; [exact Hdiv|].
  unfold Model.get. rewrite <- Hv. f_equal. lia.
Qed.
Lemma values_nonempty (m : dm R) : wf m -> (0 < nrows m * ncols m)%nat -> values m <> [].
Proof. unfold wf. intros Hwf Hpos E. rewrite E in Hwf. cbn [length] in Hwf. lia. Qed.

Lemma max_spec m : wf m -> (0 < nrows m * ncols m)%nat ->
  exists v, Model.max ROps m = Some v /\
    (forall r c, (r < nrows m)%nat -> (c < ncols m)%nat -> get m r c <= v) /\
    (exists r c, (r < nrows m)%nat /\ (c < ncols m)%nat /\ get m r c = v).
Proof.
  intros Hwf Hpos. unfold Model.max.
  destruct (fold1_omax_spec (values m) (values_nonempty m Hwf Hpos)) as [v [Hv [Hin Hub]]].
  exists v. split; [exact Hv|]. split.
  - intros r c Hr Hc. apply Hub. apply get_in_values; assumption.
  - apply in_values_get; assumption.
Qed.

Lemma min_spec m : wf m -> (0 < nrows m * ncols m)%nat ->
  exists v, Model.min ROps m = Some v /\
    (forall r c, (r < nrows m)%nat -> (c < ncols m)%nat -> v <= get m r c) /\
    (exists r c, (r < nrows m)%nat /\ (c < ncols m)%nat /\ get m r c = v).
Proof.
  intros Hwf Hpos. unfold Model.min.
  destruct (fold1_omin_spec (values m) (values_nonempty m Hwf Hpos)) as [v [Hv [Hin Hlb]]].
  exists v. split; [exact Hv|]. split.
  - intros r c Hr Hc. apply Hlb. apply get_in_values; assumption.
  - apply in_values_get; assumption.
Qed.

Lemma max_min_empty m : wf m -> (nrows m * ncols m = 0)%nat ->
  Model.max ROps m = None /\ Model.min ROps m = None.
Proof.
  unfold wf. intros Hwf H0. rewrite H0 in Hwf. unfold Model.max, Model.min.
  destruct (values m); [split; reflexivity|discriminate].
Qed.

Lemma min_le_max m v w : wf m -> Model.min ROps m = Some v -> Model.max ROps m = Some w -> v <= w.
Proof.
  intros Hwf Hmin Hmax.
  destruct (Nat.eq_dec (nrows m * ncols m) 0) as [E|E].
  - destruct (max_min_empty m Hwf E) as [Hn _]. rewrite Hn in Hmax. discriminate.
  - destruct (max_spec m Hwf) as [w' [Hw' [Hub _]]]; [lia|].
    destruct (min_spec m Hwf) as [v' [Hv' [_ [r [c [Hr [Hc Hg]]]]]]]; [lia|].
    rewrite Hmax in Hw'. injection Hw' as <-. rewrite Hmin in Hv'. injection Hv' as <-.
    rewrite <- Hg. apply Hub; assumption.
Qed.

(* the infinity norms: extrema of the absolute values of the entries *)
Lemma norm_pinf_spec m : wf m -> (0 < nrows m * ncols m)%nat ->
  exists v, norm_pinf ROps m = Some v /\
    (forall r c, (r < nrows m)%nat -> (c < ncols m)%nat -> Rabs (get m r c) <= v) /\
    (exists r c, (r < nrows m)%nat /\ (c < ncols m)%nat /\ Rabs (get m r c) = v).
Proof.
  intros Hwf Hpos. unfold norm_pinf. cbn [oabs ROps].
  assert (Hne : map Rabs (values m) <> []).
  { intros E. apply map_eq_nil in E. exact (values_nonempty m Hwf Hpos E). }
  destruct (fold1_omax_spec _ Hne) as [v [Hv [Hin Hub]]].
  exists v. split; [exact Hv|]. split.
  - intros r c Hr Hc. apply Hub. apply in_map. apply get_in_values; assumption.
  - apply in_map_iff in Hin. destruct Hin as [x [Hx Hin]].
    destruct (in_values_get m x Hwf Hin) as [r [c [Hr [Hc Hg]]]].
    exists r, c. split; [exact Hr|]. split; [exact Hc|]. rewrite Hg. exact Hx.
Qed.

Lemma norm_ninf_spec m : wf m -> (0 < nrows m * ncols m)%nat ->
  exists v, norm_ninf ROps m = Some v /\
    (forall r c, (r < nrows m)%nat -> (c < ncols m)%nat -> v <= Rabs (get m r c)) /\
    (exists r c, (r < nrows m)%nat /\ (c < ncols m)%nat /\ Rabs (get m r c) = v).
Proof.
  intros Hwf Hpos. unfold norm_ninf. cbn [oabs ROps].
  assert (Hne : map Rabs (values m) <> []).
  { intros E. apply map_eq_nil in E. exact (values_nonempty m Hwf Hpos E). }
  destruct (fold1_omin_spec _ Hne) as [v [Hv [Hin Hlb]]].
  exists v. split; [exact Hv|]. split.
  - intros r c Hr Hc. apply Hlb. apply in_map. apply get_in_values; assumption.
  - apply in_map_iff in Hin. destruct Hin as [x [Hx Hin]].
    destruct (in_values_get m x Hwf Hin) as [r [c [Hr [Hc Hg]]]].
    exists r, c. split; [exact Hr|]. split; [exact Hc|]. rewrite Hg. exact Hx.
Qed.

Example max_min_ex23 :
  Model.max ROps ex23 = Some 6 /\ Model.min ROps ex23 = Some 1 /\ norm_pinf ROps ex23 = Some 6 /\
  (0 < nrows ex23 * ncols ex23)%nat.
Proof.
  assert (Hpos : (0 < nrows ex23 * ncols ex23)%nat) by (cbn; lia).
  repeat apply conj; [| | |exact Hpos].
  - destruct (max_spec ex23 ex23_wf Hpos) as [v [Hv [Hub [r [c [Hr [Hc Hg]]]]]]]. rewrite Hv. f_equal.
    pose proof (Hub 1%nat 2%nat ltac:(cbn; lia) ltac:(cbn; lia)) as H12. unfold Model.get in H12. cbn in H12.
    cbn in Hr, Hc.
    assert (Hr' : r = 0%nat \/ r = 1%nat) by lia. assert (Hc' : c = 0%nat \/ c = 1%nat \/ c = 2%nat) by lia.
    destruct Hr' as [-> | ->]; destruct Hc' as [-> | [-> | ->]]; unfold Model.get in Hg; cbn in Hg; lra.
  - destruct (min_spec ex23 ex23_wf Hpos) as [v [Hv [Hlb [r [c [Hr [Hc Hg]]]]]]]. rewrite Hv. f_equal.
    pose proof (Hlb 0%nat 0%nat ltac:(cbn; lia) ltac:(cbn; lia)) as H00. unfold Model.get in H00. cbn in H00.
    cbn in Hr, Hc.
    assert (Hr' : r = 0%nat \/ r = 1%nat) by lia. assert (Hc' : c = 0%nat \/ c = 1%nat \/ c = 2%nat) by lia.
    destruct Hr' as [-> | ->]; destruct Hc' as [-> | [-> | ->]]; unfold Model.get in Hg; cbn in Hg; lra.
  - destruct (norm_pinf_spec ex23 ex23_wf Hpos) as [v [Hv [Hub [r [c [Hr [Hc Hg]]]]]]]. rewrite Hv. f_equal.
    pose proof (Hub 1%nat 2%nat ltac:(cbn; lia) ltac:(cbn; lia)) as H12. unfold Model.get in H12. cbn in H12.
    cbn in Hr, Hc.
    assert (Hr' : r = 0%nat \/ r = 1%nat) by lia. assert (Hc' : c = 0%nat \/ c = 1%nat \/ c = 2%nat) by lia.
    rewrite Rabs_pos_eq in H12 by lra.
    destruct Hr' as [-> | ->]; destruct Hc' as [-> | [-> | ->]]; unfold Model.get in Hg; cbn in Hg;
      rewrite Rabs_pos_eq in Hg by lra; lra.
Qed.

(* ================================================================================ *)
(* further satisfiability examples for the hypotheses used above                     *)
(* ================================================================================ *)

Example mean_nth_ex23 : nth 2 (mean ROps ex23 true) 0 = line_mean ex23 true 2 /\ 0 <= nth 2 (var ROps ex23 true) 0.
Proof. split; [apply mean_nth|apply var_nonneg]; cbn; lia. Qed.

Example var_one_pass_ex :
  rsum 2 (fun j => INR j * INR j) / INR 2 - (rsum 2 INR / INR 2) * (rsum 2 INR / INR 2)
  = rsum 2 (fun j => (INR j - rsum 2 INR / INR 2) ^ 2) / INR 2.
Proof. apply (var_one_pass 2 INR). lia. Qed.

Example norm2_transpose_ex23 : norm2 ROps (transpose ROps ex23) = sqrt 91.
Proof. rewrite (norm2_transpose ex23 ex23_wf). apply norm2_ex23. Qed.

Example cov_none_ex : cov ROps (mkdm 0 2 []) = None.
Proof. apply cov_none. reflexivity. Qed.

Example cov_diag_ex23 : exists C, cov ROps ex23 = Some C /\
  get C 1 1 = rsum 2 (fun k => (get ex23 k 1 - col_mu ex23 1) ^ 2) / INR 1.
Proof.
  destruct (cov_spec ex23 1 eq_refl) as [C [HC _]]. exists C. split; [exact HC|].
  apply (cov_diag ex23 1 C 1 eq_refl HC). cbn. lia.
Qed.

Example max_min_empty_ex : Model.max ROps (mkdm 0 3 []) = None /\ Model.min ROps (mkdm 0 3 []) = None.
Proof. apply max_min_empty; reflexivity. Qed.

Example min_le_max_ex23 : 1 <= 6.
Proof.
  destruct max_min_ex23 as [Hmax [Hmin _]]. exact (min_le_max ex23 1 6 ex23_wf Hmin Hmax).
Qed.

Example scale_short_empty_ex : scale ROps (mkdm 0 2 []) [] [] true = Some (mkdm 0 2 []).
Proof. apply scale_short_empty; [left; cbn; lia|reflexivity]. Qed.

Example scale_centered_ex23 : exists m',
  scale ROps ex23 (mean ROps ex23 true) (std ROps ex23 true) true = Some m' /\
  rsum 2 (fun j => line ROps m' true 0 j) = 0.
Proof.
  destruct (scale_spec ex23 (mean ROps ex23 true) (std ROps ex23 true) true) as [m' [Hs _]];
    try (rewrite ?mean_length, ?std_length; apply le_n).
  exists m'. split; [exact Hs|].
  apply (scale_mean_std_centered ex23 true m' 0 Hs); try (cbn; lia).
  rewrite std_nth by (cbn; lia).
  destruct mean_var_ex23 as [_ [Hv _]]. rewrite Hv.
  apply Rgt_not_eq. apply sqrt_lt_R0. lra.
Qed.
