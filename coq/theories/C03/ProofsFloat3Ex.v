(* Instances for C03/ProofsFloat3.v: the known finding matrix-var-cancellation (column 1e8 + {0,1,2,3}:
   computed variance 2.0, exact 1.25) next to the bound of var_condition_number, and a centred column
   (0.1, -0.2, 0.3, -0.2: every operation rounds) where the same bound certifies a relative accuracy
   of 2.5e-15. *)
From Coq Require Import List Arith ZArith Bool Reals Floats Lra Lia Psatz.
From Flocq Require Import Core BinarySingleNaN.
From SC Require Import Base.FloatUtil Base.Num Base.FloatError.
From SC Require C03.Model C03.ProofsFloat C03.ProofsFloat2 C03.ProofsFloat3.
Import ListNotations.
Local Open Scope R_scope.

Import SC.C03.ProofsFloat SC.C03.ProofsFloat2 SC.C03.ProofsFloat3.
Module M := SC.C03.Model.

(* the real value of a float literal *)
Lemma FR_of_SF x s mm e : FloatOps.Prim2SF x = S754_finite s mm e ->
  FR x = IZR (cond_Zopp s (Zpos mm)) * bpow radix2 e.
Proof. intros H. rewrite FR_SF, H. reflexivity. Qed.

Ltac FR_lit x :=
  let sf := eval vm_compute in (FloatOps.Prim2SF x) in
  match sf with
  | S754_finite ?s ?mm (Zneg ?p) =>
    let zm := eval vm_compute in (cond_Zopp s (Zpos mm)) in
    let zp := eval vm_compute in (Z.pow_pos 2 p) in
    let H := fresh "HFR" in
    assert (H : FR x = IZR zm * / IZR zp)
      by (rewrite (FR_of_SF x s mm (Zneg p)) by (vm_compute; reflexivity); reflexivity)
  end.

Lemma u64_lit : u64 = / 9007199254740992.
Proof. rewrite u64_eq. f_equal. exact (pow_IZR 2 53). Qed.

Lemma eta64_small : eta64 <= / 1267650600228229401496703205376.   (* 2^-100 *)
Proof.
  unfold eta64. apply Rle_trans with (bpow radix2 (-100)); [apply bpow_le; lia|].
  change (-100)%Z with (- (100))%Z. rewrite bpow_opp. right. f_equal.
Qed.

(* ---------------- the known finding ---------------- *)
Definition m_big : M.dm PrimFloat.float := M.mkdm 4 1 [100000000; 100000001; 100000002; 100000003]%float.

Lemma m_big_line : forall j,
  FR (M.line FOps m_big true 0 j) = match j with 0%nat => 100000000 | 1%nat => 100000001 | 2%nat => 100000002 | 3%nat => 100000003 | _ => 0 end.
Proof.
  FR_lit 100000000%float. FR_lit 100000001%float. FR_lit 100000002%float. FR_lit 100000003%float.
  intros [|[|[|[|j]]]]; unfold M.line, M.get, m_big; cbn [M.values M.nrows nth Nat.mul Nat.add FOps o0].
  - rewrite HFR. lra.
  - rewrite HFR0. lra.
  - rewrite HFR1. lra.
  - rewrite HFR2. lra.
  - destruct j; apply FR_zero.
Qed.

Lemma var_known_finding_instance :
  (0 < M.n_lines m_big true)%nat /\ (Z.of_nat (M.line_len m_big true) < 2 ^ 50)%Z /\
  ffin (nth 0 (M.var FOps m_big true) 0%float) /\
  nth 0 (M.var FOps m_big true) 0%float = 2%float /\ FR 2%float = 2 /\
  nth 0 (M.var ROps (RM m_big) true) 0 = 5 / 4 /\
  Rsuml (map (fun j => FR (M.line FOps m_big true 0 j)) (seq 0 4)) / INR 4 = 200000003 / 2 /\
  Rabs (2 - 5 / 4) / (5 / 4) = 3 / 5 /\
  19 <= (4 * INR 4 + 6) * u64 * (1 + (200000003 / 2) * (200000003 / 2) / (5 / 4)).
Proof.
  split; [vm_compute; lia|]. split; [vm_compute; reflexivity|]. split; [vm_compute; reflexivity|].
  split; [vm_compute; reflexivity|].
  split; [change 2%float with (float_of_Z 2); apply (float_of_Z_exact 2); lia|].
  assert (I4 : INR 4 = 4) by (cbn; lra).
  split; [|split; [|split]].
  - rewrite (var_nth_R m_big true 0) by (vm_compute; lia).
    change (M.line_len m_big true) with 4%nat. cbn [seq map Rsuml fold_right]. rewrite !m_big_line, I4. lra.
  - cbn [seq map Rsuml fold_right]. rewrite !m_big_line, I4. lra.
  - rewrite Rabs_pos_eq by lra. lra.
  - rewrite I4, u64_lit. lra.
Qed.

(* ---------------- a centred column ---------------- *)
Definition m_cen : M.dm PrimFloat.float :=
  M.mkdm 4 1 [0x1.999999999999ap-4; (-0x1.999999999999ap-3); 0x1.3333333333333p-2; (-0x1.999999999999ap-3)]%float.

Lemma m_cen_line : forall j,
  FR (M.line FOps m_cen true 0 j) =
  match j with
  | 0%nat => 3602879701896397 / 36028797018963968
  | 1%nat => - (3602879701896397 / 18014398509481984)
  | 2%nat => 5404319552844595 / 18014398509481984
  | 3%nat => - (3602879701896397 / 18014398509481984)
  | _ => 0 end.
Proof.
  FR_lit 0x1.999999999999ap-4%float. FR_lit (-0x1.999999999999ap-3)%float. FR_lit 0x1.3333333333333p-2%float.
  intros [|[|[|[|j]]]]; unfold M.line, M.get, m_cen; cbn [M.values M.nrows nth Nat.mul Nat.add FOps o0].
  - rewrite HFR. lra.
  - rewrite HFR0. lra.
  - rewrite HFR1. lra.
  - rewrite HFR0. lra.
  - destruct j; apply FR_zero.
Qed.

Lemma var_centred_instance :
  let V := nth 0 (M.var ROps (RM m_cen) true) 0 in
  (0 < M.n_lines m_cen true)%nat /\ (Z.of_nat (M.line_len m_cen true) < 2 ^ 50)%Z /\
  ffin (nth 0 (M.var FOps m_cen true) 0%float) /\
  9 / 200 <= V <= 91 / 2000 /\
  Rabs (FR (nth 0 (M.var FOps m_cen true) 0%float) - V) / V <= 25 / 10 ^ 16.
Proof.
  intros V.
  assert (H1 : (0 < M.n_lines m_cen true)%nat) by (vm_compute; lia).
  assert (H2 : (Z.of_nat (M.line_len m_cen true) < 2 ^ 50)%Z) by (vm_compute; reflexivity).
  assert (H3 : ffin (nth 0 (M.var FOps m_cen true) 0%float)) by (vm_compute; reflexivity).
  assert (I4 : INR 4 = 4) by (cbn; lra).
  assert (EV : V = (3602879701896397 / 36028797018963968 * (3602879701896397 / 36028797018963968)
                    + 2 * (3602879701896397 / 18014398509481984 * (3602879701896397 / 18014398509481984))
                    + 5404319552844595 / 18014398509481984 * (5404319552844595 / 18014398509481984)) / 4
                   - (-1 / 144115188075855872) * (-1 / 144115188075855872)).
  { unfold V. rewrite (var_nth_R m_cen true 0) by exact H1.
    change (M.line_len m_cen true) with 4%nat. cbn [seq map Rsuml fold_right]. rewrite !m_cen_line, I4. lra. }
  assert (HVb : 9 / 200 <= V <= 91 / 2000) by (rewrite EV; lra).
  split; [exact H1|]. split; [exact H2|]. split; [exact H3|].
  split; [exact HVb|].
  assert (HV : 0 < V) by lra.
  destruct (var_condition_number m_cen true 0 H1 H2 H3 HV) as (B & _ & _).
  eapply Rle_trans; [exact B|]. fold V.
  change (M.line_len m_cen true) with 4%nat. cbn [seq map Rsuml Rsumabs fold_right]. rewrite !m_cen_line, I4.
  set (Mr := (3602879701896397 / 36028797018963968 + (- (3602879701896397 / 18014398509481984) +
              (5404319552844595 / 18014398509481984 + (- (3602879701896397 / 18014398509481984) + 0)))) / 4).
  assert (EM : Mr = -1 / 144115188075855872) by (unfold Mr; lra).
  rewrite EM.
  rewrite !Rabs_Ropp, !Rabs_pos_eq by lra.
  set (a := (3602879701896397 / 36028797018963968 + (3602879701896397 / 18014398509481984 +
              (5404319552844595 / 18014398509481984 + (3602879701896397 / 18014398509481984 + 0)))) / 4).
  assert (Ha : 0 <= a <= 1 / 4) by (unfold a; lra).
  pose proof eta64_small as He. pose proof eta64_pos as He0.
  assert (Hiv : 0 < / V <= 200 / 9).
  { split; [apply Rinv_0_lt_compat; exact HV|].
    apply (Rmult_le_reg_r V); [exact HV|]. rewrite Rinv_l by lra. lra. }
  assert (T1 : -1 / 144115188075855872 * (-1 / 144115188075855872) / V <= / 10 ^ 30).
  { unfold Rdiv at 1. assert (0 <= -1 / 144115188075855872 * (-1 / 144115188075855872) <= / 10 ^ 32) by lra. nra. }
  assert (T2 : (3 * a + 6) * eta64 / V <= / 10 ^ 20).
  { unfold Rdiv. assert (0 <= (3 * a + 6) * eta64 <= 7 * / 1267650600228229401496703205376) by nra.
    assert (7 * / 1267650600228229401496703205376 * (200 / 9) <= / 10 ^ 20) by lra. nra. }
  rewrite u64_lit.
  assert (T3 : (4 * 4 + 6) * / 9007199254740992 * (1 + / 10 ^ 30) + / 10 ^ 20 <= 25 / 10 ^ 16) by lra.
  assert (0 <= (4 * 4 + 6) * / 9007199254740992) by lra.
  nra.
Qed.
