(* More rounding-error theorems for the binary64 instance of C03's model (SC.C03.Model), on top of
   Base/FloatError.v and C03/ProofsFloat.v:
     matmul (every entry: a dot product of a row and a column, cancellation => relative to the sum of
     magnitudes, K underflow terms), the Vec<T> dot product, norm2 / vnorm2 (no cancellation: relative to
     the norm itself, under a no-underflow side condition on the entries), column_mean / mean on both axes
     / the Vec<T> mean (sum then one division), entrywise add / sub / mul (one rounding per entry), and
     exact scale invariance of sum under multiplication of every entry by a power of two.
   `FR x` is the real value of a float, `RM m` the matrix of real values, `ffin` finiteness,
   u64 = 2^-53, eta64 = 2^-1075.  The only no-overflow hypothesis is that the RESULT (the entry in
   question) is finite: non-finite values are absorbing. *)
From Coq Require Import List Arith ZArith Bool Reals Floats Lra Lia Psatz.
From Flocq Require Import Core Plus_error.
From SC Require Import Base.FloatUtil Base.Num Base.FloatError.
From SC Require C03.Model C03.ProofsBase C03.ProofsFloat.
Import ListNotations.
Local Open Scope R_scope.

Import SC.C03.ProofsFloat.
Module M := SC.C03.Model.
Module PB := SC.C03.ProofsBase.

(* ---------------- small helpers ---------------- *)
Lemma fold_left_map_r {A B C} (f : A -> C -> A) (g : B -> C) l a :
  fold_left (fun s b => f s (g b)) l a = fold_left f (map g l) a.
Proof. revert a. induction l as [|h t IH]; intros a; cbn [fold_left map]; [reflexivity | apply IH]. Qed.

Lemma Forall2_map_in {A B C} (P : B -> C -> Prop) (g : A -> B) (h : A -> C) l :
  (forall a, In a l -> P (g a) (h a)) -> Forall2 P (map g l) (map h l).
Proof.
  induction l as [|a l IH]; intros H; cbn [map]; constructor.
  - apply H. left. reflexivity.
  - apply IH. intros b Hb. apply H. right. exact Hb.
Qed.

Lemma nth_map_seq {A} (g : nat -> A) n i d : (i < n)%nat -> nth i (map g (seq 0 n)) d = g i.
Proof.
  intros H. rewrite (nth_indep _ d (g 0%nat)) by (rewrite map_length, seq_length; exact H).
  rewrite map_nth, seq_nth by exact H. reflexivity.
Qed.

Lemma FR_nth l i : FR (nth i l 0%float) = nth i (map FR l) 0.
Proof. rewrite <- FR_zero. symmetry. apply map_nth. Qed.

Lemma get_RM m r c : M.get ROps (RM m) r c = FR (M.get FOps m r c).
Proof. unfold M.get, RM. cbn [M.values M.nrows ROps FOps o0]. symmetry. apply FR_nth. Qed.

Lemma osumn_R n (f : nat -> R) : osumn ROps n f = Rsuml (map f (seq 0 n)).
Proof. rewrite osumn_fold. cbn [ROps oadd o0]. rewrite fold_left_Rplus_Rsuml. lra. Qed.

Lemma osumn_F n (f : nat -> PrimFloat.float) : osumn FOps n f = fsum (map f (seq 0 n)).
Proof. rewrite osumn_fold. reflexivity. Qed.

Lemma osumn_ext {T} (O : Ops T) n (f g : nat -> T) :
  (forall k, (k < n)%nat -> f k = g k) -> osumn O n f = osumn O n g.
Proof.
  induction n as [|n IH]; intros H; cbn [osumn]; [reflexivity|].
  rewrite IH by (intros k Hk; apply H; lia). rewrite H by lia. reflexivity.
Qed.

(* ---------------- sum of products (the inner loop of matmul / ab / dot) ---------------- *)
Lemma osumn_prod_float_error n (f g : nat -> PrimFloat.float) :
  ffin (osumn FOps n (fun k => PrimFloat.mul (f k) (g k))) ->
  let t := fun k => FR (f k) * FR (g k) in
  (forall k, (k < n)%nat -> ffin (f k) /\ ffin (g k)) /\
  osumn ROps n t = Rsuml (map t (seq 0 n)) /\
  Rabs (FR (osumn FOps n (fun k => PrimFloat.mul (f k) (g k))) - Rsuml (map t (seq 0 n))) <=
    Eu n * (Rsumabs (map t (seq 0 n)) + INR n * eta64) + INR n * eta64.
Proof.
  intros Hfin t. rewrite osumn_F in *. split; [|split].
  - intros k Hk. destruct (fold_fadd_finite_acc _ _ Hfin) as [_ Hall].
    rewrite Forall_forall in Hall.
    assert (Hp : ffin (PrimFloat.mul (f k) (g k))).
    { apply Hall. apply in_map_iff. exists k. split; [reflexivity|]. apply in_seq. lia. }
    destruct (fmul_finite _ _ Hp) as (H1 & H2 & _). split; assumption.
  - apply osumn_R.
  - pose proof (fsum_error_signed 1 eta64 (Rlt_le _ _ eta64_pos)
                  (map (fun k => PrimFloat.mul (f k) (g k)) (seq 0 n)) (map t (seq 0 n))) as G.
    rewrite !map_length, seq_length in G. replace (1 + n - 1)%nat with n in G by lia.
    apply G; [|exact Hfin].
    apply Forall2_map_in. intros k _ Hf. unfold t. rewrite Eu_1. apply fmul_error, Hf.
Qed.

(* ---------------- matmul: every finite entry ---------------- *)
Theorem matmul_entry_float_error (a b c : M.dm PrimFloat.float) (i j : nat) :
  M.matmul FOps a b = Some c -> (i < M.nrows a)%nat -> (j < M.ncols b)%nat ->
  ffin (M.get FOps c i j) ->
  let K := M.ncols a in
  let t := fun k => FR (M.get FOps a i k) * FR (M.get FOps b k j) in
  (forall k, (k < K)%nat -> ffin (M.get FOps a i k) /\ ffin (M.get FOps b k j)) /\
  (exists cR, M.matmul ROps (RM a) (RM b) = Some cR /\ M.get ROps cR i j = Rsuml (map t (seq 0 K))) /\
  Rabs (FR (M.get FOps c i j) - Rsuml (map t (seq 0 K))) <=
    ((1 + u64) ^ K - 1) * (Rsumabs (map t (seq 0 K)) + INR K * eta64) + INR K * eta64.
Proof.
  intros H Hi Hj Hfin K t. unfold M.matmul in *. cbn [RM M.nrows M.ncols] in *.
  destruct (negb (M.ncols a =? M.nrows b)%nat); [discriminate|].
  injection H as <-. rewrite PB.get_tab in Hfin |- * by assumption. fold K in Hfin |- *.
  destruct (osumn_prod_float_error K (fun k => M.get FOps a i k) (fun k => M.get FOps b k j) Hfin)
    as (F & ER & B).
  split; [exact F|]. split; [|exact B].
  eexists. split; [reflexivity|]. rewrite PB.get_tab by assumption.
  etransitivity; [|exact ER]. apply osumn_ext. intros k _. cbn [ROps omul]. rewrite !get_RM. reflexivity.
Qed.

(* the dot product of two Vec<T> of the same length *)
Theorem vdot_float_error (a b : list PrimFloat.float) d : M.vdot FOps a b = Some d -> ffin d ->
  let n := length a in
  let t := fun k => FR (nth k a 0%float) * FR (nth k b 0%float) in
  length b = n /\ Forall ffin a /\ Forall ffin b /\
  M.vdot ROps (map FR a) (map FR b) = Some (Rsuml (map t (seq 0 n))) /\
  Rabs (FR d - Rsuml (map t (seq 0 n))) <=
    ((1 + u64) ^ n - 1) * (Rsumabs (map t (seq 0 n)) + INR n * eta64) + INR n * eta64.
Proof.
  intros H Hfin n t. unfold M.vdot in *. rewrite !map_length.
  destruct (Nat.eqb_spec (length a) (length b)) as [L|]; [|discriminate]. cbn [negb] in *.
  injection H as <-. fold n in Hfin, L |- *.
  destruct (osumn_prod_float_error n (fun k => nth k a 0%float) (fun k => nth k b 0%float) Hfin)
    as (F & ER & B).
  split; [symmetry; exact L|].
  assert (HF : forall l : list PrimFloat.float, length l = n ->
                 (forall k, (k < n)%nat -> ffin (nth k l 0%float)) -> Forall ffin l).
  { intros l Hl Hk. apply Forall_forall. intros x Hx. destruct (In_nth _ _ 0%float Hx) as (k & Hk1 & <-).
    apply Hk. lia. }
  split; [apply HF; [reflexivity | intros k Hk; apply (F k Hk)]|].
  split; [apply HF; [symmetry; exact L | intros k Hk; apply (F k Hk)]|].
  split; [|exact B]. f_equal. etransitivity; [|exact ER]. apply osumn_ext. intros k _.
  cbn [ROps omul o0]. rewrite !FR_nth. reflexivity.
Qed.

(* ---------------- norm2 / vnorm2: sqrt (sum x_i^2) ---------------- *)
Definition sqf (x : PrimFloat.float) : PrimFloat.float := PrimFloat.mul x x.

Lemma sumsq_loop_F l : fold_left (fun acc x => PrimFloat.add acc (PrimFloat.mul x x)) l 0%float = fsum (map sqf l).
Proof. unfold fsum. apply (fold_left_map_r PrimFloat.add sqf). Qed.

Lemma sumsq_loop_R (l : list R) : fold_left (fun acc x => acc + x * x) l 0 = Rsuml (map (fun x => x * x) l).
Proof.
  rewrite (fold_left_map_r Rplus (fun x => x * x)), fold_left_Rplus_Rsuml. lra.
Qed.

Lemma sqf_error x : ffin (sqf x) ->
  0 <= FR x * FR x /\ Rabs (FR (sqf x) - FR x * FR x) <= Eu 1 * (FR x * FR x) + eta64.
Proof.
  unfold sqf. intros H. split; [nra|]. rewrite Eu_1.
  pose proof (fmul_error _ _ H) as E. rewrite (Rabs_pos_eq (FR x * FR x)) in E by nra. exact E.
Qed.

(* no underflow in the squares: every entry is zero or at least 2^-511 in magnitude *)
Definition entry_normal (x : PrimFloat.float) : Prop := FR x = 0 \/ bpow radix2 (-511) <= Rabs (FR x).

Lemma sqf_error_normal x : entry_normal x -> ffin (sqf x) ->
  0 <= FR x * FR x /\ Rabs (FR (sqf x) - FR x * FR x) <= Eu 1 * (FR x * FR x) + 0.
Proof.
  unfold sqf, entry_normal. intros N H. split; [nra|]. rewrite Eu_1, Rplus_0_r.
  destruct N as [Z|N].
  - destruct (fmul_finite _ _ H) as (_ & _ & E). rewrite E, Z, Rmult_0_r, rnd64_0, Rminus_0_r, Rabs_R0. lra.
  - assert (Hn : bpow radix2 (-1022) <= Rabs (FR x * FR x)).
    { change (-1022)%Z with (-511 + -511)%Z. rewrite bpow_plus, Rabs_mult.
      pose proof (bpow_gt_0 radix2 (-511)). nra. }
    pose proof (fmul_error_normal _ _ H Hn) as E. rewrite (Rabs_pos_eq (FR x * FR x)) in E by nra. exact E.
Qed.

Lemma sqf_nonneg l : Forall ffin (map sqf l) -> Forall (fun t => 0 <= FR t) (map sqf l).
Proof.
  intros H. rewrite Forall_forall in *. intros t Ht. specialize (H t Ht).
  apply in_map_iff in Ht as (x & <- & _). unfold sqf in *.
  destruct (fmul_finite _ _ H) as (_ & _ & E). rewrite E. apply rnd64_ge_0. nra.
Qed.

(* the sum of squares (the argument of the square root) *)
Lemma sumsq_float_error (l : list PrimFloat.float) : ffin (fsum (map sqf l)) ->
  let n := length l in
  let Q := Rsuml (map (fun x => FR x * FR x) l) in
  Forall ffin l /\ 0 <= Q /\ 0 <= FR (fsum (map sqf l)) /\
  Rabs (FR (fsum (map sqf l)) - Q) <= Eu n * (Q + INR n * eta64) + INR n * eta64 /\
  ((forall x, In x l -> entry_normal x) -> Rabs (FR (fsum (map sqf l)) - Q) <= Eu n * Q).
Proof.
  intros Hfin n Q.
  destruct (fold_fadd_finite_acc _ _ Hfin) as [_ Hall].
  assert (HF : Forall2 (fun t a => ffin t -> 0 <= a /\ Rabs (FR t - a) <= Eu 1 * a + eta64)
                       (map sqf l) (map (fun x => FR x * FR x) l)).
  { apply Forall2_map_in. intros x _. apply sqf_error. }
  destruct (fsum_error_gen 1 eta64 (Rlt_le _ _ eta64_pos) _ _ HF Hfin) as [G1 G2].
  rewrite map_length in G2. fold n Q in G1, G2. replace (1 + n - 1)%nat with n in G2 by lia.
  split; [|split; [exact G1|split; [|split; [exact G2|]]]].
  - rewrite Forall_forall in *. intros x Hx. specialize (Hall (sqf x) (in_map sqf l x Hx)).
    unfold sqf in Hall. apply (fmul_finite _ _ Hall).
  - apply fold_fadd_nonneg; [exact Hfin | apply sqf_nonneg, Hall | rewrite FR_zero; lra].
  - intros Hno.
    assert (HF0 : Forall2 (fun t a => ffin t -> 0 <= a /\ Rabs (FR t - a) <= Eu 1 * a + 0)
                          (map sqf l) (map (fun x => FR x * FR x) l)).
    { apply Forall2_map_in. intros x Hx. apply sqf_error_normal, Hno, Hx. }
    destruct (fsum_error_gen 1 0 (Rle_refl 0) _ _ HF0 Hfin) as [_ G3].
    rewrite map_length in G3. fold n Q in G3. replace (1 + n - 1)%nat with n in G3 by lia.
    rewrite Rmult_0_r, !Rplus_0_r in G3. exact G3.
Qed.

Lemma sqrt_rel_error (s T E : R) : 0 <= s -> 0 <= T -> 0 <= E -> Rabs (s - T) <= E * T ->
  Rabs (R_sqrt.sqrt s - R_sqrt.sqrt T) <= E * R_sqrt.sqrt T.
Proof.
  intros Hs HS HE H.
  destruct (Req_dec T 0) as [->|NZ].
  - rewrite Rmult_0_r, Rminus_0_r in H. assert (s = 0) by (pose proof (Rabs_pos s); apply Rabs_eq_R0; lra).
    subst s. rewrite Rminus_diag_eq, Rabs_R0, sqrt_0 by reflexivity. lra.
  - assert (0 < T) by lra. pose proof (sqrt_lt_R0 T H0) as HsS. pose proof (sqrt_pos s) as Hss.
    assert (Hmul : Rabs (R_sqrt.sqrt s - R_sqrt.sqrt T) * (R_sqrt.sqrt s + R_sqrt.sqrt T) = Rabs (s - T)).
    { rewrite <- (Rabs_pos_eq (R_sqrt.sqrt s + R_sqrt.sqrt T)) at 1 by lra. rewrite <- Rabs_mult. f_equal.
      replace ((R_sqrt.sqrt s - R_sqrt.sqrt T) * (R_sqrt.sqrt s + R_sqrt.sqrt T)) with (R_sqrt.sqrt s * R_sqrt.sqrt s - R_sqrt.sqrt T * R_sqrt.sqrt T) by ring.
      rewrite !sqrt_sqrt by lra. reflexivity. }
    assert (HS2 : T = R_sqrt.sqrt T * R_sqrt.sqrt T) by (rewrite sqrt_sqrt; lra).
    pose proof (Rabs_pos (R_sqrt.sqrt s - R_sqrt.sqrt T)) as Hp.
    apply (Rmult_le_reg_r (R_sqrt.sqrt s + R_sqrt.sqrt T)); [lra|]. rewrite Hmul.
    eapply Rle_trans; [exact H|]. rewrite HS2 at 1.
    assert (0 <= E * R_sqrt.sqrt T) by nra. nra.
Qed.

(* Vec<T>::norm2 *)
Theorem vnorm2_float_error (l : list PrimFloat.float) : ffin (M.vnorm2 FOps l) ->
  (forall x, In x l -> entry_normal x) ->
  let n := length l in
  let Q := Rsuml (map (fun x => FR x * FR x) l) in
  M.vnorm2 ROps (map FR l) = R_sqrt.sqrt Q /\ 0 <= Q /\ Forall ffin l /\ 0 <= FR (M.vnorm2 FOps l) /\
  Rabs (FR (M.vnorm2 FOps l) - R_sqrt.sqrt Q) <= ((1 + u64) ^ (n + 1) - 1) * R_sqrt.sqrt Q.
Proof.
  intros Hfin Hno n Q. unfold M.vnorm2 in *. cbn [FOps ROps osqrt oadd omul o0] in *.
  rewrite sumsq_loop_F in *. rewrite sumsq_loop_R, map_map. fold Q.
  destruct (fsqrt_finite _ Hfin) as (Hsf & E).
  destruct (sumsq_float_error l Hsf) as (Hall & HS & Hs0 & _ & G). specialize (G Hno). fold n Q in G.
  split; [reflexivity|]. split; [exact HS|]. split; [exact Hall|].
  split; [rewrite E; apply rnd64_ge_0, sqrt_pos|].
  destruct (fsqrt_error _ Hfin) as [_ Hq].
  pose proof (sqrt_rel_error _ Q _ Hs0 HS (Eu_nonneg n) G) as Hrel.
  fold (Eu (n + 1)). replace (n + 1)%nat with (S n) by lia. rewrite Eu_S.
  set (s := fsum (map sqf l)) in *.
  replace (FR (PrimFloat.sqrt s) - R_sqrt.sqrt Q) with ((FR (PrimFloat.sqrt s) - R_sqrt.sqrt (FR s)) + (R_sqrt.sqrt (FR s) - R_sqrt.sqrt Q)) by ring.
  eapply Rle_trans; [apply Rabs_triang|].
  assert (R_sqrt.sqrt (FR s) <= (1 + Eu n) * R_sqrt.sqrt Q).
  { pose proof (Rle_abs (R_sqrt.sqrt (FR s) - R_sqrt.sqrt Q)). lra. }
  pose proof u64_pos. pose proof (sqrt_pos Q). pose proof (Eu_nonneg n). nra.
Qed.

(* DenseMatrix::norm2 (Frobenius norm; the same loop over the storage vector) *)
Theorem norm2_float_error (m : M.dm PrimFloat.float) : ffin (M.norm2 FOps m) ->
  (forall x, In x (M.values m) -> entry_normal x) ->
  let n := length (M.values m) in
  let Q := Rsuml (map (fun x => FR x * FR x) (M.values m)) in
  M.norm2 ROps (RM m) = R_sqrt.sqrt Q /\ 0 <= Q /\ Forall ffin (M.values m) /\ 0 <= FR (M.norm2 FOps m) /\
  Rabs (FR (M.norm2 FOps m) - R_sqrt.sqrt Q) <= ((1 + u64) ^ (n + 1) - 1) * R_sqrt.sqrt Q.
Proof. exact (vnorm2_float_error (M.values m)). Qed.

(* ---------------- means: a recursive sum, then one division by the count ---------------- *)
(* q' ~ q up to Eu m relative to a magnitude bound B >= |q|; r = rounding of q' with relative error u
   and absolute error e *)
Lemma quot_step_signed (m : nat) (q' q B e r : R) : Rabs q <= B ->
  Rabs (q' - q) <= Eu m * B ->
  Rabs (r - q') <= u64 * Rabs q' + e ->
  Rabs (r - q) <= Eu (S m) * B + e.
Proof.
  intros Hq H1 H2. pose proof (Eu_nonneg m). pose proof u64_pos. pose proof (Rabs_pos q).
  assert (Rabs q' <= (1 + Eu m) * B).
  { replace q' with ((q' - q) + q) at 1 by ring. eapply Rle_trans; [apply Rabs_triang|]. nra. }
  replace (r - q) with ((r - q') + (q' - q)) by ring.
  eapply Rle_trans; [apply Rabs_triang|]. rewrite Eu_S. nra.
Qed.

Lemma Rsumabs_map_seq (f : nat -> R) n : Rsumabs (map f (seq 0 n)) = Rsuml (map (fun k => Rabs (f k)) (seq 0 n)).
Proof. induction (seq 0 n) as [|k l IH]; [reflexivity|]. cbn [map Rsumabs Rsuml fold_right]. fold (Rsumabs (map f l)) (Rsuml (map (fun k => Rabs (f k)) l)). rewrite IH. reflexivity. Qed.

(* sum_{k<n} f k / n as the models compute it *)
Lemma mean_line_float_error n (f : nat -> PrimFloat.float) : (Z.of_nat n < 2 ^ 53)%Z ->
  ffin (PrimFloat.div (osumn FOps n f) (float_of_Z (Z.of_nat n))) ->
  let v := map (fun k => FR (f k)) (seq 0 n) in
  (0 < n)%nat /\ (forall k, (k < n)%nat -> ffin (f k)) /\
  osumn ROps n (fun k => FR (f k)) / IZR (Z.of_nat n) = Rsuml v / INR n /\
  Rabs (FR (PrimFloat.div (osumn FOps n f) (float_of_Z (Z.of_nat n))) - Rsuml v / INR n) <=
    Eu n * (Rsumabs v / INR n) + eta64.
Proof.
  intros Hlt Hfin v.
  assert (Hn : (0 < n)%nat).
  { destruct n as [|n]; [|lia]. exfalso. vm_compute in Hfin. discriminate Hfin. }
  destruct (float_of_Z_exact (Z.of_nat n)) as [Fn En]; [lia|]. rewrite <- INR_IZR_INZ in En.
  assert (Hn0 : 0 < INR n) by (apply lt_0_INR; exact Hn).
  assert (Hi : 0 < / INR n) by apply Rinv_0_lt_compat, Hn0.
  destruct (fdiv_finite (osumn FOps n f) _ Fn) as [Fs Em]; [rewrite En; lra | exact Hfin |].
  pose proof (fdiv_error (osumn FOps n f) _ Fn) as Herr. rewrite En in Herr.
  rewrite osumn_F in *.
  pose proof (fsum_signed_error _ Fs) as Hb. rewrite map_map, map_length, seq_length in Hb. fold v in Hb.
  split; [exact Hn|]. split; [|split].
  - intros k Hk. destruct (fold_fadd_finite_acc _ _ Fs) as [_ Hall]. rewrite Forall_forall in Hall.
    apply Hall. apply in_map_iff. exists k. split; [reflexivity|]. apply in_seq. lia.
  - rewrite osumn_R, <- INR_IZR_INZ. reflexivity.
  - replace (Eu n) with (Eu (S (n - 1))) by (f_equal; lia).
    apply (quot_step_signed (n - 1) (FR (fsum (map f (seq 0 n))) / INR n)).
    + unfold Rdiv. rewrite Rabs_mult, (Rabs_pos_eq (/ INR n)) by lra.
      apply Rmult_le_compat_r; [lra | apply Rsuml_le_Rsumabs].
    + replace (FR (fsum (map f (seq 0 n))) / INR n - Rsuml v / INR n)
        with ((FR (fsum (map f (seq 0 n))) - Rsuml v) * / INR n) by (unfold Rdiv; ring).
      rewrite Rabs_mult, (Rabs_pos_eq (/ INR n)) by lra.
      unfold Rdiv. rewrite <- Rmult_assoc. apply Rmult_le_compat_r; [lra | exact Hb].
    + apply Herr; [lra | exact Hfin].
Qed.

(* MatrixStats::mean on either axis (axis0 = true: one mean per column), entry i *)
Theorem mean_float_error (m : M.dm PrimFloat.float) (axis0 : bool) (i : nat) :
  (i < M.n_lines m axis0)%nat -> (Z.of_nat (M.line_len m axis0) < 2 ^ 53)%Z ->
  ffin (nth i (M.mean FOps m axis0) 0%float) ->
  let n := M.line_len m axis0 in
  let v := map (fun j => FR (M.line FOps m axis0 i j)) (seq 0 n) in
  (0 < n)%nat /\ (forall j, (j < n)%nat -> ffin (M.line FOps m axis0 i j)) /\
  nth i (M.mean ROps (RM m) axis0) 0 = Rsuml v / INR n /\
  Rabs (FR (nth i (M.mean FOps m axis0) 0%float) - Rsuml v / INR n) <=
    ((1 + u64) ^ n - 1) * (Rsumabs v / INR n) + eta64.
Proof.
  intros Hi Hlt Hfin n v. unfold M.mean in *.
  change (M.n_lines (RM m) axis0) with (M.n_lines m axis0).
  change (M.line_len (RM m) axis0) with (M.line_len m axis0).
  rewrite nth_map_seq in Hfin by exact Hi. rewrite !nth_map_seq by exact Hi.
  fold n in Hfin, Hlt |- *. unfold oofnat in *. cbn [FOps ROps odiv oofZ] in *.
  destruct (mean_line_float_error n (fun j => M.line FOps m axis0 i j) Hlt Hfin) as (Hn & F & ER & B).
  split; [exact Hn|]. split; [exact F|]. split; [|exact B].
  etransitivity; [|exact ER]. f_equal. apply osumn_ext. intros j _.
  unfold M.line. destruct axis0; apply get_RM.
Qed.

(* BaseMatrix::column_mean, column c *)
Theorem column_mean_float_error (m : M.dm PrimFloat.float) (c : nat) :
  (c < M.ncols m)%nat -> (Z.of_nat (M.nrows m) < 2 ^ 53)%Z ->
  ffin (nth c (M.column_mean FOps m) 0%float) ->
  let n := M.nrows m in
  let v := map (fun r => FR (M.get FOps m r c)) (seq 0 n) in
  (0 < n)%nat /\ (forall r, (r < n)%nat -> ffin (M.get FOps m r c)) /\
  nth c (M.column_mean ROps (RM m)) 0 = Rsuml v / INR n /\
  Rabs (FR (nth c (M.column_mean FOps m) 0%float) - Rsuml v / INR n) <=
    ((1 + u64) ^ n - 1) * (Rsumabs v / INR n) + eta64.
Proof. exact (mean_float_error m true c). Qed.

(* BaseVector::mean of a Vec<T> *)
Theorem vmean_float_error (a : list PrimFloat.float) :
  (Z.of_nat (length a) < 2 ^ 53)%Z -> ffin (M.vmean FOps a) ->
  let n := length a in
  let v := map FR a in
  (0 < n)%nat /\ Forall ffin a /\ M.vmean ROps v = Rsuml v / INR n /\
  Rabs (FR (M.vmean FOps a) - Rsuml v / INR n) <= ((1 + u64) ^ n - 1) * (Rsumabs v / INR n) + eta64.
Proof.
  intros Hlt Hfin n v. unfold M.vmean, M.vsum, oofnat in *.
  replace (length v) with n by (symmetry; apply map_length). fold n in Hlt, Hfin |- *.
  cbn [FOps ROps odiv oofZ oadd o0] in *.
  assert (Hn : (0 < n)%nat).
  { destruct a as [|x a]; [|cbn; lia]. exfalso. vm_compute in Hfin. discriminate Hfin. }
  destruct (float_of_Z_exact (Z.of_nat n)) as [Fn En]; [lia|]. rewrite <- INR_IZR_INZ in En.
  assert (Hn0 : 0 < INR n) by (apply lt_0_INR; exact Hn).
  assert (Hi : 0 < / INR n) by apply Rinv_0_lt_compat, Hn0.
  fold (fsum a) in *.
  destruct (fdiv_finite (fsum a) _ Fn) as [Fs Em]; [rewrite En; lra | exact Hfin |].
  pose proof (fdiv_error (fsum a) _ Fn) as Herr. rewrite En in Herr.
  pose proof (fsum_signed_error _ Fs) as Hb. fold v n in Hb.
  split; [exact Hn|]. split; [exact (proj2 (fold_fadd_finite_acc _ _ Fs))|]. split.
  - rewrite fold_left_Rplus_Rsuml, <- INR_IZR_INZ, Rplus_0_l. reflexivity.
  - fold (Eu n). replace (Eu n) with (Eu (S (n - 1))) by (f_equal; lia).
    apply (quot_step_signed (n - 1) (FR (fsum a) / INR n)).
    + unfold Rdiv. rewrite Rabs_mult, (Rabs_pos_eq (/ INR n)) by lra.
      apply Rmult_le_compat_r; [lra | apply Rsuml_le_Rsumabs].
    + replace (FR (fsum a) / INR n - Rsuml v / INR n) with ((FR (fsum a) - Rsuml v) * / INR n) by (unfold Rdiv; ring).
      rewrite Rabs_mult, (Rabs_pos_eq (/ INR n)) by lra.
      unfold Rdiv. rewrite <- Rmult_assoc. apply Rmult_le_compat_r; [lra | exact Hb].
    + apply Herr; [lra | exact Hfin].
Qed.

(* ---------------- entrywise add / sub / mul: one rounding per entry ---------------- *)
Lemma zip_with_entry {T} (K : Ops T) (f : T -> T -> T) (a b c : M.dm T) i j :
  M.zip_with K f a b = Some c -> (i < M.nrows a)%nat -> (j < M.ncols a)%nat ->
  M.get K c i j = f (M.get K a i j) (M.get K b i j).
Proof.
  unfold M.zip_with. destruct (negb (M.same_shape a b)); [discriminate|]. intros [= <-] Hi Hj.
  rewrite PB.get_tab by assumption. reflexivity.
Qed.
Lemma zip_with_RM (f : R -> R -> R) (a b c : M.dm PrimFloat.float) (g : PrimFloat.float -> PrimFloat.float -> PrimFloat.float) :
  M.zip_with FOps g a b = Some c -> exists cR, M.zip_with ROps f (RM a) (RM b) = Some cR.
Proof.
  unfold M.zip_with. change (M.same_shape (RM a) (RM b)) with (M.same_shape a b).
  destruct (negb (M.same_shape a b)); [discriminate|]. intros _. eexists. reflexivity.
Qed.

Theorem add_float_error (a b c : M.dm PrimFloat.float) (i j : nat) :
  M.add FOps a b = Some c -> (i < M.nrows a)%nat -> (j < M.ncols a)%nat -> ffin (M.get FOps c i j) ->
  let x := FR (M.get FOps a i j) in let y := FR (M.get FOps b i j) in
  ffin (M.get FOps a i j) /\ ffin (M.get FOps b i j) /\
  (exists cR, M.add ROps (RM a) (RM b) = Some cR /\ M.get ROps cR i j = x + y) /\
  Rabs (FR (M.get FOps c i j) - (x + y)) <= u64 * Rabs (x + y).
Proof.
  intros H Hi Hj Hfin x y. unfold M.add in *.
  rewrite (zip_with_entry FOps _ a b c i j H Hi Hj) in *. cbn [FOps oadd] in *.
  destruct (fadd_finite _ _ Hfin) as (Fa & Fb & _). split; [exact Fa|]. split; [exact Fb|].
  split; [|apply fadd_error, Hfin].
  destruct (zip_with_RM Rplus a b c _ H) as [cR HR]. exists cR. split; [exact HR|].
  rewrite (zip_with_entry ROps _ _ _ cR i j HR Hi Hj), !get_RM. reflexivity.
Qed.

Theorem sub_float_error (a b c : M.dm PrimFloat.float) (i j : nat) :
  M.sub FOps a b = Some c -> (i < M.nrows a)%nat -> (j < M.ncols a)%nat -> ffin (M.get FOps c i j) ->
  let x := FR (M.get FOps a i j) in let y := FR (M.get FOps b i j) in
  ffin (M.get FOps a i j) /\ ffin (M.get FOps b i j) /\
  (exists cR, M.sub ROps (RM a) (RM b) = Some cR /\ M.get ROps cR i j = x - y) /\
  Rabs (FR (M.get FOps c i j) - (x - y)) <= u64 * Rabs (x - y).
Proof.
  intros H Hi Hj Hfin x y. unfold M.sub in *.
  rewrite (zip_with_entry FOps _ a b c i j H Hi Hj) in *. cbn [FOps osub] in *.
  destruct (fsub_finite _ _ Hfin) as (Fa & Fb & _). split; [exact Fa|]. split; [exact Fb|].
  split; [|apply fsub_error, Hfin].
  destruct (zip_with_RM Rminus a b c _ H) as [cR HR]. exists cR. split; [exact HR|].
  rewrite (zip_with_entry ROps _ _ _ cR i j HR Hi Hj), !get_RM. reflexivity.
Qed.

Lemma bpow_m1022 : bpow radix2 (-1022) = / 2 ^ 1022.
Proof.
  change (-1022)%Z with (- (1022))%Z. rewrite bpow_opp. f_equal.
  change (bpow radix2 1022) with (IZR (2 ^ Z.of_nat 1022)). rewrite <- pow_IZR. reflexivity.
Qed.

(* the entrywise (Hadamard) product: the product may underflow, hence eta64; not if it is >= 2^-1022 *)
Theorem mul_float_error (a b c : M.dm PrimFloat.float) (i j : nat) :
  M.mul FOps a b = Some c -> (i < M.nrows a)%nat -> (j < M.ncols a)%nat -> ffin (M.get FOps c i j) ->
  let x := FR (M.get FOps a i j) in let y := FR (M.get FOps b i j) in
  ffin (M.get FOps a i j) /\ ffin (M.get FOps b i j) /\
  (exists cR, M.mul ROps (RM a) (RM b) = Some cR /\ M.get ROps cR i j = x * y) /\
  Rabs (FR (M.get FOps c i j) - x * y) <= u64 * Rabs (x * y) + eta64 /\
  (/ 2 ^ 1022 <= Rabs (x * y) -> Rabs (FR (M.get FOps c i j) - x * y) <= u64 * Rabs (x * y)).
Proof.
  intros H Hi Hj Hfin x y. unfold M.mul in *.
  rewrite (zip_with_entry FOps _ a b c i j H Hi Hj) in *. cbn [FOps omul] in *.
  destruct (fmul_finite _ _ Hfin) as (Fa & Fb & _). split; [exact Fa|]. split; [exact Fb|].
  split; [|split; [apply fmul_error, Hfin | rewrite <- bpow_m1022; apply fmul_error_normal, Hfin]].
  destruct (zip_with_RM Rmult a b c _ H) as [cR HR]. exists cR. split; [exact HR|].
  rewrite (zip_with_entry ROps _ _ _ cR i j HR Hi Hj), !get_RM. reflexivity.
Qed.

(* DenseMatrix::ab (all four transposition flags): entry (i,j) of op(a) * op(b) *)
Theorem ab_entry_float_error (a b c : M.dm PrimFloat.float) (ta tb : bool) (i j : nat) :
  M.ab FOps a ta b tb = Some c ->
  let n := if ta then M.ncols a else M.nrows a in
  let K := if ta then M.nrows a else M.ncols a in
  let p := if tb then M.nrows b else M.ncols b in
  let A := fun r k => if ta then M.get FOps a k r else M.get FOps a r k in
  let B := fun k c => if tb then M.get FOps b c k else M.get FOps b k c in
  (i < n)%nat -> (j < p)%nat -> ffin (M.get FOps c i j) ->
  let t := fun k => FR (A i k) * FR (B k j) in
  (forall k, (k < K)%nat -> ffin (A i k) /\ ffin (B k j)) /\
  (exists cR, M.ab ROps (RM a) ta (RM b) tb = Some cR /\ M.get ROps cR i j = Rsuml (map t (seq 0 K))) /\
  Rabs (FR (M.get FOps c i j) - Rsuml (map t (seq 0 K))) <=
    ((1 + u64) ^ K - 1) * (Rsumabs (map t (seq 0 K)) + INR K * eta64) + INR K * eta64.
Proof.
  intros H n K p A B Hi Hj Hfin t.
  assert (G : forall (f g : nat -> PrimFloat.float) (fR gR : nat -> R),
             (forall k, fR k = FR (f k)) -> (forall k, gR k = FR (g k)) ->
             ffin (osumn FOps K (fun k => PrimFloat.mul (f k) (g k))) ->
             (forall k, (k < K)%nat -> ffin (f k) /\ ffin (g k)) /\
             osumn ROps K (fun k => fR k * gR k) = Rsuml (map (fun k => FR (f k) * FR (g k)) (seq 0 K)) /\
             Rabs (FR (osumn FOps K (fun k => PrimFloat.mul (f k) (g k))) - Rsuml (map (fun k => FR (f k) * FR (g k)) (seq 0 K))) <=
               Eu K * (Rsumabs (map (fun k => FR (f k) * FR (g k)) (seq 0 K)) + INR K * eta64) + INR K * eta64).
  { intros f g fR gR Ef Eg Hf. destruct (osumn_prod_float_error K f g Hf) as (F & ER & Bd).
    split; [exact F|]. split; [|exact Bd]. etransitivity; [|exact ER]. apply osumn_ext. intros k _.
    rewrite Ef, Eg. reflexivity. }
  unfold M.ab, M.matmul in *. cbn [RM M.nrows M.ncols] in *.
  destruct ta, tb; cbn [negb] in *;
    (match type of H with (if ?c then _ else _) = _ => destruct c; [discriminate|] end);
    injection H as <-; rewrite PB.get_tab in Hfin |- * by assumption;
    match type of Hfin with ffin (osumn _ _ (fun k => PrimFloat.mul (@?f k) (@?g k))) =>
      destruct (G f g (fun k => FR (f k)) (fun k => FR (g k)) (fun k => eq_refl) (fun k => eq_refl) Hfin) as (F & ER & Bd)
    end;
    (split; [exact F|]); (split; [|exact Bd]);
    (eexists; split; [reflexivity|]); rewrite PB.get_tab by assumption;
    (etransitivity; [|exact ER]); apply osumn_ext; intros k _; cbn [ROps omul]; rewrite !get_RM; reflexivity.
Qed.

(* ---------------- exact scale invariance under multiplication by a power of two ---------------- *)
(* rounding to 53 significant bits with unbounded exponent range commutes with scaling by 2^e; the
   binary64 rounding of a SUM of two binary64 numbers coincides with it (a subnormal sum is exact),
   and so does the binary64 rounding of any real of magnitude >= 2^-1022 *)
Local Instance prec53 : Prec_gt_0 53. Proof. unfold Prec_gt_0. lia. Qed.

Definition rndx (r : R) : R := round radix2 (FLX_exp 53) ZnearestE r.

Lemma rndx_scale x e : rndx (x * bpow radix2 e) = rndx x * bpow radix2 e.
Proof.
  destruct (Req_dec x 0) as [->|NZ].
  - unfold rndx. rewrite Rmult_0_l, round_0 by apply valid_rnd_N. lra.
  - unfold rndx, round, F2R, scaled_mantissa, cexp. cbn [Fnum Fexp].
    rewrite (mag_mult_bpow radix2 x e NZ). unfold FLX_exp.
    replace (mag radix2 x + e - 53)%Z with ((mag radix2 x - 53) + e)%Z by lia.
    rewrite Z.opp_add_distr, !bpow_plus.
    replace (x * bpow radix2 e * (bpow radix2 (- (mag radix2 x - 53)) * bpow radix2 (- e)))
      with (x * bpow radix2 (- (mag radix2 x - 53)) * (bpow radix2 e * bpow radix2 (- e))) by ring.
    rewrite <- (bpow_plus radix2 e (- e)), Z.add_opp_diag_r. cbn [bpow]. rewrite Rmult_1_r. ring.
Qed.

Lemma rnd64_add_FLX a b : fmt64 a -> fmt64 b -> rnd64 (a + b) = rndx (a + b).
Proof.
  intros Fa Fb. destruct (Rle_lt_dec (bpow radix2 (-1022)) (Rabs (a + b))) as [H|H].
  - apply (round_FLT_FLX radix2 (-1074) 53). exact H.
  - assert (F : fmt64 (a + b)).
    { apply (FLT_format_plus_small radix2 (-1074) 53); try assumption.
      apply Rle_trans with (bpow radix2 (-1022)); [lra | apply bpow_le; lia]. }
    rewrite (rnd64_id _ F). symmetry. apply round_generic; [apply valid_rnd_N|].
    apply (generic_format_FLX_FLT radix2 (-1074) 53). exact F.
Qed.

Lemma rnd64_add_scale a b e : fmt64 a -> fmt64 b -> fmt64 (a * bpow radix2 e) -> fmt64 (b * bpow radix2 e) ->
  rnd64 (a * bpow radix2 e + b * bpow radix2 e) = rnd64 (a + b) * bpow radix2 e.
Proof.
  intros Fa Fb Fa' Fb'. rewrite (rnd64_add_FLX _ _ Fa' Fb'), (rnd64_add_FLX _ _ Fa Fb).
  rewrite <- Rmult_plus_distr_r. apply rndx_scale.
Qed.

Lemma rnd64_scale_normal z e :
  z = 0 \/ (bpow radix2 (-1022) <= Rabs z /\ bpow radix2 (-1022) <= Rabs (z * bpow radix2 e)) ->
  rnd64 (z * bpow radix2 e) = rnd64 z * bpow radix2 e.
Proof.
  intros [->|[H1 H2]].
  - rewrite Rmult_0_l, rnd64_0. lra.
  - unfold rnd64. rewrite !(round_FLT_FLX radix2 (-1074) 53) by assumption. apply rndx_scale.
Qed.

(* x' is x scaled by 2^e, exactly *)
Definition scaled (e : Z) (x x' : PrimFloat.float) : Prop := FR x' = FR x * bpow radix2 e.

Lemma fold_fadd_scaled e l l' : Forall2 (scaled e) l l' ->
  forall acc acc', scaled e acc acc' ->
  ffin (fold_left PrimFloat.add l acc) -> ffin (fold_left PrimFloat.add l' acc') ->
  scaled e (fold_left PrimFloat.add l acc) (fold_left PrimFloat.add l' acc').
Proof.
  induction 1 as [|t t' l l' Ht HF IH]; intros acc acc' Hacc Hf Hf'; cbn [fold_left] in *; [exact Hacc|].
  apply IH; try assumption.
  destruct (fold_fadd_finite_acc _ _ Hf) as [H1 _]. destruct (fold_fadd_finite_acc _ _ Hf') as [H1' _].
  destruct (fadd_finite _ _ H1) as (_ & _ & E). destruct (fadd_finite _ _ H1') as (_ & _ & E').
  unfold scaled in *. rewrite E, E', Hacc, Ht.
  apply rnd64_add_scale; try apply fmt64_FR; [rewrite <- Hacc | rewrite <- Ht]; apply fmt64_FR.
Qed.

Lemma scaled_zero e : scaled e 0%float 0%float.
Proof. unfold scaled. rewrite FR_zero. lra. Qed.

(* recursive summation commutes exactly with scaling: if every entry of m' is the corresponding entry
   of m times 2^e (as real numbers: no entry was rounded by the scaling) and both sums are finite
   (no overflow), then the computed sums differ by exactly the factor 2^e — whatever the signs,
   the cancellation, and also when partial sums are subnormal *)
Theorem sum_scale_exact (e : Z) (m m' : M.dm PrimFloat.float) :
  Forall2 (fun x x' => FR x' = FR x * powerRZ 2 e) (M.values m) (M.values m') ->
  ffin (M.sum FOps m) -> ffin (M.sum FOps m') ->
  FR (M.sum FOps m') = FR (M.sum FOps m) * powerRZ 2 e.
Proof.
  intros HF Hf Hf'. change 2 with (IZR radix2) in *. rewrite <- bpow_powerRZ.
  unfold M.sum in *. cbn [FOps oadd o0] in *.
  apply (fold_fadd_scaled e (M.values m) (M.values m')); try assumption; [|apply scaled_zero].
  clear Hf Hf'. induction HF as [|x x' l l' Hx HF IH]; constructor; [|exact IH].
  unfold scaled. rewrite Hx, bpow_powerRZ. reflexivity.
Qed.

(* the same for the vector dot product, when no product underflows before or after the scaling *)
Theorem dot_scale_exact (e : Z) (a a' b : M.dm PrimFloat.float) d d' :
  M.nrows a' = M.nrows a -> M.ncols a' = M.ncols a ->
  M.dot FOps a b = Some d -> M.dot FOps a' b = Some d' -> ffin d -> ffin d' ->
  let n := (M.nrows a * M.ncols a)%nat in
  (forall i, (i < n)%nat ->
     FR (nth i (M.values a') 0%float) = FR (nth i (M.values a) 0%float) * powerRZ 2 e /\
     let t := FR (nth i (M.values a) 0%float) * FR (nth i (M.values b) 0%float) in
     (t = 0 \/ (/ 2 ^ 1022 <= Rabs t /\ / 2 ^ 1022 <= Rabs (t * powerRZ 2 e)))) ->
  FR d' = FR d * powerRZ 2 e.
Proof.
  intros Er Ec H H' Hf Hf' n Hall. unfold M.dot, M.is_vec in *. rewrite Er, Ec in H'.
  destruct (negb _ || negb _); [discriminate|].
  destruct (negb (M.nrows a * M.ncols a =? M.nrows b * M.ncols b)%nat); [discriminate|].
  injection H as <-. injection H' as <-. fold n in Hf, Hf' |- *.
  change 2 with (IZR radix2) in *. rewrite <- bpow_powerRZ.
  rewrite !osumn_fold in *. cbn [FOps oadd omul o0] in *.
  apply (fold_fadd_scaled e); try assumption; [|apply scaled_zero].
  apply Forall2_map_in. intros i Hi. apply in_seq in Hi. destruct (Hall i) as [Hs Hn]; [lia|]. cbv zeta in Hn.
  unfold scaled.
  destruct (fold_fadd_finite_acc _ _ Hf) as [_ A]. destruct (fold_fadd_finite_acc _ _ Hf') as [_ A'].
  rewrite Forall_forall in A, A'.
  assert (Hin : forall (g : nat -> PrimFloat.float), In (g i) (map g (seq 0 n))).
  { intros g. apply in_map, in_seq. lia. }
  destruct (fmul_finite _ _ (A _ (Hin (fun i => PrimFloat.mul (nth i (M.values a) 0%float) (nth i (M.values b) 0%float))))) as (_ & _ & E).
  destruct (fmul_finite _ _ (A' _ (Hin (fun i => PrimFloat.mul (nth i (M.values a') 0%float) (nth i (M.values b) 0%float))))) as (_ & _ & E').
  rewrite E, E', Hs. rewrite <- bpow_powerRZ.
  replace (FR (nth i (M.values a) 0%float) * bpow radix2 e * FR (nth i (M.values b) 0%float))
    with (FR (nth i (M.values a) 0%float) * FR (nth i (M.values b) 0%float) * bpow radix2 e) by ring.
  apply rnd64_scale_normal. rewrite <- bpow_powerRZ in Hn.
  rewrite bpow_m1022. exact Hn.
Qed.

(* in terms of the model's own scaling operation: m * p with p = 2^e, every entry scaled exactly *)
Theorem sum_mul_scalar_pow2 (e : Z) (m : M.dm PrimFloat.float) (p : PrimFloat.float) :
  FR p = powerRZ 2 e ->
  (forall x, In x (M.values m) -> FR (PrimFloat.mul x p) = FR x * FR p) ->
  ffin (M.sum FOps m) -> ffin (M.sum FOps (M.mul_scalar FOps m p)) ->
  FR (M.sum FOps (M.mul_scalar FOps m p)) = FR (M.sum FOps m) * FR p.
Proof.
  intros Hp Hx Hf Hf'. rewrite Hp. apply (sum_scale_exact e m (M.mul_scalar FOps m p)); try assumption.
  unfold M.mul_scalar, M.map_values. cbn [M.values FOps omul].
  rewrite <- (map_id (M.values m)) at 1. apply Forall2_map_in. intros x Hin.
  rewrite (Hx x Hin), Hp. reflexivity.
Qed.

(* ---------------- the no-underflow hypothesis of norm2 in elementary and in decidable form ---------------- *)
Lemma bpow_m511 : bpow radix2 (-511) = / 2 ^ 511.
Proof.
  change (-511)%Z with (- (511))%Z. rewrite bpow_opp. f_equal.
  change (bpow radix2 511) with (IZR (2 ^ Z.of_nat 511)). rewrite <- pow_IZR. reflexivity.
Qed.
Lemma entry_normal_intro (l : list PrimFloat.float) :
  (forall x, In x l -> FR x = 0 \/ / 2 ^ 511 <= Rabs (FR x)) -> forall x, In x l -> entry_normal x.
Proof. intros H x Hx. unfold entry_normal. rewrite bpow_m511. apply H, Hx. Qed.

From Flocq Require Import BinarySingleNaN PrimFloat.
Local Existing Instance Hprec.

(* every entry is 0 or at least 2^-511 in magnitude (evaluate with vm_compute) *)
Definition entries_normal_b (l : list PrimFloat.float) : bool :=
  forallb (fun x => let d := PrimFloat.abs x in PrimFloat.eqb d 0%float || PrimFloat.leb 0x1p-511%float d) l.

Lemma FR_2m511 : FR 0x1p-511%float = bpow radix2 (-511).
Proof.
  unfold FR, Prim2B. rewrite B2R_SF2B.
  change (FloatOps.Prim2SF 0x1p-511%float) with (S754_finite false 4503599627370496 (-563)).
  unfold SF2R, F2R. cbn [cond_Zopp Fnum Fexp].
  change (IZR (Z.pos 4503599627370496)) with (bpow radix2 52). rewrite <- bpow_plus. reflexivity.
Qed.

Lemma entry_normal_of_check x : ffin x ->
  (let d := PrimFloat.abs x in PrimFloat.eqb d 0%float || PrimFloat.leb 0x1p-511%float d) = true ->
  entry_normal x.
Proof.
  cbv zeta. intros H C. unfold entry_normal.
  assert (Hd : ffin (PrimFloat.abs x)) by (apply fabs_finite; exact H).
  apply orb_true_iff in C. destruct C as [C|C].
  - left. rewrite eqb_equiv, (Beqb_correct prec emax) in C.
    + destruct (Req_bool_spec (B2R (Prim2B (PrimFloat.abs x))) (B2R (Prim2B 0%float))) as [C'|C']; [|discriminate C].
      fold (FR (PrimFloat.abs x)) (FR 0%float) in C'. rewrite fabs_exact, FR_zero in C'.
      destruct (Req_dec (FR x) 0) as [Z|NZ]; [exact Z|]. apply Rabs_no_R0 in NZ. contradiction.
    + apply ffin_B, Hd.
    + reflexivity.
  - right. rewrite leb_equiv, (Bleb_correct prec emax) in C.
    + destruct (Rle_bool_spec (B2R (Prim2B 0x1p-511%float)) (B2R (Prim2B (PrimFloat.abs x)))) as [C'|C']; [|discriminate C].
      fold (FR (PrimFloat.abs x)) (FR 0x1p-511%float) in C'. rewrite fabs_exact, FR_2m511 in C'. exact C'.
    + reflexivity.
    + apply ffin_B, Hd.
Qed.

Lemma entries_normal_b_sound l : Forall ffin l -> entries_normal_b l = true ->
  forall x, In x l -> entry_normal x.
Proof.
  unfold entries_normal_b. intros Hf H x Hx. rewrite forallb_forall in H. rewrite Forall_forall in Hf.
  apply entry_normal_of_check; [apply Hf, Hx | apply H, Hx].
Qed.
Lemma entries_normal_b_prop l : Forall ffin l -> entries_normal_b l = true ->
  forall x, In x l -> FR x = 0 \/ / 2 ^ 511 <= Rabs (FR x).
Proof. intros Hf H x Hx. rewrite <- bpow_m511. apply (entries_normal_b_sound l Hf H x Hx). Qed.

Lemma vnorm2_entries_finite l : ffin (M.vnorm2 FOps l) -> Forall ffin l.
Proof.
  unfold M.vnorm2. cbn [FOps osqrt oadd omul o0]. rewrite sumsq_loop_F. intros H.
  destruct (fsqrt_finite _ H) as (Hs & _). apply (sumsq_float_error l Hs).
Qed.

Theorem vnorm2_float_error_checked (l : list PrimFloat.float) : ffin (M.vnorm2 FOps l) ->
  entries_normal_b l = true ->
  let n := length l in
  let Q := Rsuml (map (fun x => FR x * FR x) l) in
  M.vnorm2 ROps (map FR l) = R_sqrt.sqrt Q /\ 0 <= Q /\ Forall ffin l /\ 0 <= FR (M.vnorm2 FOps l) /\
  Rabs (FR (M.vnorm2 FOps l) - R_sqrt.sqrt Q) <= ((1 + u64) ^ (n + 1) - 1) * R_sqrt.sqrt Q.
Proof.
  intros Hfin Hb. apply (vnorm2_float_error l Hfin).
  apply entries_normal_b_sound; [apply vnorm2_entries_finite, Hfin | exact Hb].
Qed.

Theorem norm2_float_error_checked (m : M.dm PrimFloat.float) : ffin (M.norm2 FOps m) ->
  entries_normal_b (M.values m) = true ->
  let n := length (M.values m) in
  let Q := Rsuml (map (fun x => FR x * FR x) (M.values m)) in
  M.norm2 ROps (RM m) = R_sqrt.sqrt Q /\ 0 <= Q /\ Forall ffin (M.values m) /\ 0 <= FR (M.norm2 FOps m) /\
  Rabs (FR (M.norm2 FOps m) - R_sqrt.sqrt Q) <= ((1 + u64) ^ (n + 1) - 1) * R_sqrt.sqrt Q.
Proof. exact (vnorm2_float_error_checked (M.values m)). Qed.

(* ---------------- decidable forms of "x' is x times 2^e" and "p is 2^e" (for instances) ---------------- *)
Lemma FR_SF x : FR x = SF2R radix2 (FloatOps.Prim2SF x).
Proof. unfold FR, Prim2B. apply B2R_SF2B. Qed.

Definition scaled_b (e : Z) (x x' : PrimFloat.float) : bool :=
  match FloatOps.Prim2SF x, FloatOps.Prim2SF x' with
  | S754_zero _, S754_zero _ => true
  | S754_finite s m ex, S754_finite s' m' ex' => Bool.eqb s s' && Pos.eqb m m' && Z.eqb ex' (ex + e)
  | _, _ => false
  end.
Lemma scaled_b_sound e x x' : scaled_b e x x' = true -> FR x' = FR x * powerRZ 2 e.
Proof.
  unfold scaled_b. rewrite !FR_SF. change 2 with (IZR radix2). rewrite <- bpow_powerRZ.
  destruct (FloatOps.Prim2SF x) as [s|s| |s m ex], (FloatOps.Prim2SF x') as [s'|s'| |s' m' ex']; try discriminate.
  - intros _. cbn [SF2R]. lra.
  - intros H. apply andb_prop in H as [H H3]. apply andb_prop in H as [H1 H2].
    apply Bool.eqb_prop in H1. apply Pos.eqb_eq in H2. apply Z.eqb_eq in H3. subst s' m' ex'.
    cbn [SF2R]. unfold F2R. cbn [Fnum Fexp]. rewrite bpow_plus. ring.
Qed.

Definition pow2_b (e : Z) (p : PrimFloat.float) : bool :=
  match FloatOps.Prim2SF p with
  | S754_finite false m ex => Pos.eqb m 4503599627370496 && Z.eqb (ex + 52) e
  | _ => false
  end.
Lemma pow2_b_sound e p : pow2_b e p = true -> FR p = powerRZ 2 e.
Proof.
  unfold pow2_b. rewrite FR_SF. change 2 with (IZR radix2). rewrite <- bpow_powerRZ.
  destruct (FloatOps.Prim2SF p) as [s|s| |[|] m ex]; try discriminate.
  intros H. apply andb_prop in H as [H1 H2]. apply Pos.eqb_eq in H1. apply Z.eqb_eq in H2. subst m e.
  cbn [SF2R cond_Zopp]. unfold F2R. cbn [Fnum Fexp].
  change (IZR (Z.pos 4503599627370496)) with (bpow radix2 52). rewrite <- bpow_plus. f_equal. lia.
Qed.

(* exactness of a scaling x * p, p = 2^e, decided on the floats *)
Lemma mul_pow2_exact_b e x p : pow2_b e p = true -> scaled_b e x (PrimFloat.mul x p) = true ->
  FR (PrimFloat.mul x p) = FR x * FR p.
Proof. intros Hp Hs. rewrite (pow2_b_sound e p Hp). apply scaled_b_sound, Hs. Qed.
