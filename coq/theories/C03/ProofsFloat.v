(* Rounding-error theorems for the binary64 instance of C03's reductions (SC.C03.Model): `sum` (plain
   recursive summation of terms of either sign) and the vector `dot` product.  Bounds are relative to the
   sum of magnitudes (there is cancellation).  Exported by Properties/C03.v: statements about C03's
   model (file moved here from C17 by the coordinator). *)
From Coq Require Import List Arith ZArith Bool Reals Floats Lra Lia Psatz.
From Flocq Require Import Core.
From SC Require Import Base.FloatUtil Base.Num Base.FloatError.
From SC Require C03.Model.
Import ListNotations.
Local Open Scope R_scope.

Module M := SC.C03.Model.

(* the models' sum_{k<n} f k is the left fold over the terms *)
Lemma osumn_fold {T} (O : Ops T) n (f : nat -> T) : osumn O n f = fold_left O.(oadd) (map f (seq 0 n)) O.(o0).
Proof.
  induction n as [|n IH]; [reflexivity|].
  rewrite seq_S, map_app, fold_left_app. cbn [osumn map fold_left Nat.add]. rewrite IH. reflexivity.
Qed.

(* the real-valued matrix behind a float matrix *)
Definition RM (m : M.dm PrimFloat.float) : M.dm R :=
  M.mkdm (M.nrows m) (M.ncols m) (map FR (M.values m)).

Lemma fold_left_Rplus_Rsuml (l : list R) (a : R) : fold_left Rplus l a = a + Rsuml l.
Proof.
  revert a. induction l as [|h t IH]; intros a; cbn [fold_left Rsuml fold_right]; [lra|].
  rewrite IH. fold (Rsuml t). lra.
Qed.

(* ---------------- sum ---------------- *)
Theorem sum_float_error (m : M.dm PrimFloat.float) : ffin (M.sum FOps m) ->
  let v := map FR (M.values m) in
  M.sum ROps (RM m) = Rsuml v /\ Forall ffin (M.values m) /\
  Rabs (FR (M.sum FOps m) - Rsuml v) <= ((1 + u64) ^ (length (M.values m) - 1) - 1) * Rsumabs v.
Proof.
  intros Hfin v. split; [|split].
  - unfold M.sum, RM. cbn [M.values ROps oadd o0]. fold v. rewrite fold_left_Rplus_Rsuml. lra.
  - exact (proj2 (fold_fadd_finite_acc _ _ Hfin)).
  - exact (fsum_signed_error (M.values m) Hfin).
Qed.

(* ---------------- dot ---------------- *)
Theorem dot_float_error (a b : M.dm PrimFloat.float) d : M.dot FOps a b = Some d -> ffin d ->
  let n := (M.nrows a * M.ncols a)%nat in
  let t := fun i => FR (nth i (M.values a) 0%float) * FR (nth i (M.values b) 0%float) in
  M.dot ROps (RM a) (RM b) = Some (Rsuml (map t (seq 0 n))) /\
  Rabs (FR d - Rsuml (map t (seq 0 n))) <=
    ((1 + u64) ^ n - 1) * (Rsumabs (map t (seq 0 n)) + INR n * eta64) + INR n * eta64.
Proof.
  intros H Hfin n t. unfold M.dot in *. cbn [RM M.nrows M.ncols M.values] in *.
  change (M.is_vec (RM a)) with (M.is_vec a). change (M.is_vec (RM b)) with (M.is_vec b).
  destruct (negb (M.is_vec a) || negb (M.is_vec b)); [discriminate|].
  destruct (negb (M.nrows a * M.ncols a =? M.nrows b * M.ncols b)%nat); [discriminate|].
  injection H as <-. fold n in Hfin |- *. split.
  - f_equal. rewrite osumn_fold. cbn [ROps oadd omul o0]. rewrite fold_left_Rplus_Rsuml, Rplus_0_l.
    f_equal. apply map_ext. intros i. unfold t. rewrite <- FR_zero at 1 2. rewrite !map_nth. reflexivity.
  - rewrite osumn_fold in *. cbn [FOps oadd omul o0] in *.
    set (f := fun i => PrimFloat.mul (nth i (M.values a) 0%float) (nth i (M.values b) 0%float)) in *.
    pose proof (fsum_error_signed 1 eta64 (Rlt_le _ _ eta64_pos) (map f (seq 0 n)) (map t (seq 0 n))) as G.
    rewrite !map_length, seq_length in G. replace (1 + n - 1)%nat with n in G by lia.
    apply G; [|exact Hfin].
    clear. induction (seq 0 n) as [|i l IH]; cbn [map]; constructor; [|exact IH].
    intros Hf. unfold f, t. rewrite Eu_1. apply fmul_error, Hf.
Qed.
