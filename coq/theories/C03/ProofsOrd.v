(* C03 — order-related operations of the dense matrix over the real instance ROps:
   argmax (first maximum of every row), unique (sort + dedup: strictly increasing, same support),
   softmax (max-shift, entries in (0,1], sum 1).  All statements are for arbitrary sizes. *)
From Coq Require Import List Arith Lia Reals Lra Sorted.
From SC Require Import Base.Num C03.Model C03.ProofsBase.
Import ListNotations.
Local Open Scope nat_scope.

(* ====================================================================================== *)
(* A. argmax                                                                              *)
(* ====================================================================================== *)

(* one step of the scan of a row (the closure of the model's fold_left, with the row abstracted
   to a function f of the column index) *)
Definition amstep (f : nat -> R) (acc : option R * nat) (c : nat) : option R * nat :=
  match fst acc with
  | None => (Some (f c), c)
  | Some mx => if Rltb mx (f c) then (Some (f c), c) else acc
  end.

(* k is the FIRST maximiser of f on [0,n) *)
Definition first_max (f : nat -> R) (n k : nat) : Prop :=
  k < n /\ (forall c, c < n -> (f c <= f k)%R) /\ (forall c, c < k -> (f c < f k)%R).

Lemma first_max_unique f n k k' : first_max f n k -> first_max f n k' -> k = k'.
Proof.
  intros [Hk [Hle Hlt]] [Hk' [Hle' Hlt']].
  destruct (Nat.lt_trichotomy k k') as [H|[H|H]]; [|exact H|]; exfalso.
  - specialize (Hlt' k H). specialize (Hle k' Hk'). lra.
  - specialize (Hlt k' H). specialize (Hle' k Hk). lra.
Qed.

Lemma amfold_inv f n : 0 < n ->
  exists k, fold_left (amstep f) (seq 0 n) (None, 0) = (Some (f k), k) /\ first_max f n k.
Proof.
  induction n as [|n IH]; [lia|]. intros _.
  rewrite seq_S, fold_left_app. cbn [Nat.add fold_left].
  destruct n as [|n'].
  - cbn [seq fold_left]. unfold amstep. cbn [fst]. exists 0. split; [reflexivity|].
    unfold first_max. repeat split; [lia| |]; intros c Hc; [|lia]. replace c with 0 by lia. lra.
  - destruct IH as [k [E [Hk [Hle Hlt]]]]; [lia|]. rewrite E. unfold amstep at 1. cbn [fst].
    destruct (Rltb (f k) (f (S n'))) eqn:B.
    + apply Rltb_true in B. exists (S n'). split; [reflexivity|]. repeat split; [lia| |].
      * intros c Hc. destruct (Nat.eq_dec c (S n')) as [->|Hne]; [lra|].
        assert (Hc' : c < S n') by lia. specialize (Hle c Hc'). lra.
      * intros c Hc. specialize (Hle c Hc). lra.
    + apply Rltb_false in B. exists k. split; [reflexivity|]. repeat split; [lia| |exact Hlt].
      intros c Hc. destruct (Nat.eq_dec c (S n')) as [->|Hne]; [lra|]. apply Hle. lia.
Qed.

Lemma argmax_unfold (m : dm R) :
  argmax ROps m =
  map (fun r => snd (fold_left (amstep (fun c => get ROps m r c)) (seq 0 (ncols m)) (None, 0)))
      (seq 0 (nrows m)).
Proof. reflexivity. Qed.

Lemma argmax_length (m : dm R) : length (argmax ROps m) = nrows m.
Proof. rewrite argmax_unfold, map_length, seq_length. reflexivity. Qed.

Lemma argmax_nth (m : dm R) r : r < nrows m ->
  nth r (argmax ROps m) 0 =
  snd (fold_left (amstep (fun c => get ROps m r c)) (seq 0 (ncols m)) (None, 0)).
Proof.
  intros Hr. rewrite argmax_unfold.
  set (g := fun r0 => snd (fold_left (amstep (fun c => get ROps m r0 c)) (seq 0 (ncols m)) (None, 0))).
  rewrite (nth_indep _ 0 (g 0)) by (rewrite map_length, seq_length; exact Hr).
  rewrite (map_nth g (seq 0 (nrows m)) 0 r). rewrite seq_nth by exact Hr. reflexivity.
Qed.

(* the k-th row's answer is the first maximiser of that row *)
Lemma argmax_first_max (m : dm R) r : r < nrows m -> 0 < ncols m ->
  first_max (fun c => get ROps m r c) (ncols m) (nth r (argmax ROps m) 0).
Proof.
  intros Hr Hp. rewrite argmax_nth by exact Hr.
  destruct (amfold_inv (fun c => get ROps m r c) (ncols m) Hp) as [k [E Hk]].
  rewrite E. cbn [snd]. exact Hk.
Qed.

Lemma argmax_spec (m : dm R) r : r < nrows m -> 0 < ncols m ->
  let k := nth r (argmax ROps m) 0 in
  k < ncols m /\
  (forall c, c < ncols m -> (get ROps m r c <= get ROps m r k)%R) /\
  (forall c, c < k -> (get ROps m r c < get ROps m r k)%R).
Proof. intros Hr Hp. exact (argmax_first_max m r Hr Hp). Qed.

(* ... and it is the only index with that property *)
Lemma argmax_characterised (m : dm R) r k : r < nrows m -> 0 < ncols m ->
  first_max (fun c => get ROps m r c) (ncols m) k -> nth r (argmax ROps m) 0 = k.
Proof.
  intros Hr Hp Hk. eapply first_max_unique; [apply argmax_first_max; assumption|exact Hk].
Qed.

Lemma map_const_seq {A : Type} (a : A) n s : map (fun _ : nat => a) (seq s n) = repeat a n.
Proof. revert s. induction n as [|n IH]; intros s; [reflexivity|]. cbn [seq map repeat]. rewrite IH. reflexivity. Qed.

Lemma argmax_no_columns (m : dm R) : ncols m = 0 -> argmax ROps m = repeat 0 (nrows m).
Proof.
  intros Hp. rewrite argmax_unfold, Hp. cbn [seq fold_left snd]. apply map_const_seq.
Qed.
Lemma argmax_no_columns_nth (m : dm R) r : ncols m = 0 -> nth r (argmax ROps m) 0 = 0.
Proof.
  intros Hp. rewrite argmax_no_columns by exact Hp.
  destruct (Nat.lt_ge_cases r (nrows m)) as [H|H].
  - apply (repeat_spec (nrows m)). apply nth_In. rewrite repeat_length. exact H.
  - apply nth_overflow. rewrite repeat_length. exact H.
Qed.

(* deciding the real comparisons of a closed instance *)
Ltac rdecide :=
  repeat match goal with
  | |- context [Rltb ?a ?b] =>
      first [ replace (Rltb a b) with true by (symmetry; apply Rltb_true; lra)
            | replace (Rltb a b) with false by (symmetry; apply Rltb_false; lra) ]
  | |- context [Reqb ?a ?b] =>
      first [ replace (Reqb a b) with true by (symmetry; apply Reqb_true; lra)
            | replace (Reqb a b) with false by (symmetry; apply Reqb_false; lra) ]
  end.

Example argmax_ex_tie : argmax ROps (mkdm 1 3 [2; 5; 5]%R) = [1].
Proof.
  rewrite argmax_unfold. cbv [nrows ncols values seq map fold_left get Nat.mul Nat.add nth amstep fst snd].
  rdecide. reflexivity.
Qed.
Example argmax_ex_2x2 : argmax ROps (mkdm 2 2 [1; 3; 3; 2]%R) = [1; 0].
Proof.
  rewrite argmax_unfold. cbv [nrows ncols values seq map fold_left get Nat.mul Nat.add nth amstep fst snd].
  rdecide. reflexivity.
Qed.
Example argmax_hyp_sat : let m := mkdm 2 2 [1; 3; 3; 2]%R in 0 < nrows m /\ 0 < ncols m.
Proof. cbn. lia. Qed.
Example argmax_no_columns_ex : argmax ROps (mkdm 2 0 (@nil R)) = [0; 0].
Proof. rewrite argmax_no_columns by reflexivity. reflexivity. Qed.

(* ====================================================================================== *)
(* views: the storage vector / the iteration order versus the logical entries             *)
(* ====================================================================================== *)

Lemma In_values_get {T : Type} (K : Ops T) (m : dm T) (x : T) : wf m ->
  (In x (values m) <-> exists r c, r < nrows m /\ c < ncols m /\ get K m r c = x).
Proof.
  unfold wf. intros Hwf. split.
  - intros Hin. destruct (In_nth _ _ (o0 K) Hin) as [i [Hi Hnth]]. rewrite Hwf in Hi.
    assert (Hn : nrows m <> 0) by (intros E; rewrite E in Hi; lia).
    pose proof (Nat.div_mod i (nrows m) Hn) as Hdm.
    pose proof (Nat.mod_upper_bound i (nrows m) Hn) as Hmod.
    assert (Hdiv : i / nrows m < ncols m) by (apply Nat.div_lt_upper_bound; lia).
    exists (i mod nrows m), (i / nrows m). split; [exact Hmod|]. split; [exact Hdiv|].
    unfold get. rewrite <- Hnth. f_equal. lia.
  - intros [r [c [Hr [Hc E]]]]. rewrite <- E. unfold get. apply nth_In. rewrite Hwf. nia.
Qed.

Lemma In_row_major_get {T : Type} (K : Ops T) (m : dm T) (x : T) :
  In x (row_major K m) <-> exists r c, r < nrows m /\ c < ncols m /\ get K m r c = x.
Proof.
  unfold row_major. rewrite in_flat_map. split.
  - intros [r [Hr Hin]]. apply in_map_iff in Hin as [c [E Hc]]. apply in_seq in Hr, Hc.
    exists r, c. repeat split; try lia. exact E.
  - intros [r [c [Hr [Hc E]]]]. exists r. split; [apply in_seq; lia|].
    apply in_map_iff. exists c. split; [exact E|apply in_seq; lia].
Qed.

Lemma map_flat_map {A B C : Type} (h : B -> C) (g : A -> list B) l :
  map h (flat_map g l) = flat_map (fun a => map h (g a)) l.
Proof.
  induction l as [|a l IH]; [reflexivity|]. cbn [flat_map]. rewrite map_app, IH. reflexivity.
Qed.

(* the iteration order of a tabulated matrix *)
Lemma row_major_tab {T : Type} (K : Ops T) n p (f : nat -> nat -> T) :
  row_major K (tab n p f) = flat_map (fun r => map (fun c => f r c) (seq 0 p)) (seq 0 n).
Proof.
  unfold row_major. rewrite tab_nrows, tab_ncols.
  apply flat_map_ext_in. intros r Hr. apply in_seq in Hr.
  apply map_ext_in. intros c Hc. apply in_seq in Hc. apply get_tab; lia.
Qed.

Lemma row_major_tab_map {T : Type} (K : Ops T) (m : dm T) (h : T -> T) :
  row_major K (tab (nrows m) (ncols m) (fun r c => h (get K m r c))) = map h (row_major K m).
Proof.
  rewrite row_major_tab. unfold row_major. rewrite map_flat_map.
  apply flat_map_ext_in. intros r _. rewrite map_map. reflexivity.
Qed.

(* ====================================================================================== *)
(* sums of real lists                                                                     *)
(* ====================================================================================== *)

Definition Rsum (l : list R) : R := fold_left Rplus l 0%R.

Lemma fold_left_Rplus_acc l a : fold_left Rplus l a = (a + fold_left Rplus l 0)%R.
Proof.
  revert a. induction l as [|x l IH]; intros a; cbn [fold_left]; [lra|].
  rewrite (IH (a + x)%R), (IH (0 + x)%R). lra.
Qed.
Lemma Rsum_cons x l : Rsum (x :: l) = (x + Rsum l)%R.
Proof. unfold Rsum. cbn [fold_left]. rewrite fold_left_Rplus_acc. lra. Qed.
Lemma Rsum_app l1 l2 : Rsum (l1 ++ l2) = (Rsum l1 + Rsum l2)%R.
Proof. unfold Rsum. rewrite fold_left_app. apply fold_left_Rplus_acc. Qed.
Lemma Rsum_nonneg l : (forall y, In y l -> (0 <= y)%R) -> (0 <= Rsum l)%R.
Proof.
  induction l as [|x l IH]; intros H; [unfold Rsum; cbn [fold_left]; lra|].
  rewrite Rsum_cons.
  assert (0 <= x)%R by (apply H; left; reflexivity).
  assert (0 <= Rsum l)%R by (apply IH; intros y Hy; apply H; right; exact Hy). lra.
Qed.
Lemma Rsum_ge_elem l x : (forall y, In y l -> (0 <= y)%R) -> In x l -> (x <= Rsum l)%R.
Proof.
  induction l as [|a l IH]; intros H Hin; [destruct Hin|].
  rewrite Rsum_cons.
  assert (Ha : (0 <= a)%R) by (apply H; left; reflexivity).
  assert (Hl : forall y, In y l -> (0 <= y)%R) by (intros y Hy; apply H; right; exact Hy).
  pose proof (Rsum_nonneg l Hl) as Hs.
  destruct Hin as [<-|Hin]; [lra|]. specialize (IH Hl Hin). lra.
Qed.
Lemma Rsum_map_div l z : Rsum (map (fun e => e / z)%R l) = (Rsum l / z)%R.
Proof.
  induction l as [|a l IH]; [unfold Rsum; cbn [map fold_left]; unfold Rdiv; lra|].
  cbn [map]. rewrite !Rsum_cons, IH. unfold Rdiv. lra.
Qed.
(* the row-major sum is the double sum, rows outside, accumulated upwards *)
Lemma Rsum_map_seq (f : nat -> R) n : Rsum (map f (seq 0 n)) = osumn ROps n f.
Proof.
  induction n as [|n IH]; [reflexivity|].
  rewrite seq_S, map_app, Rsum_app, IH. cbn [Nat.add map osumn]. rewrite Rsum_cons.
  unfold Rsum. cbn [fold_left oadd ROps]. lra.
Qed.
Lemma Rsum_flat_map_seq (g : nat -> list R) n :
  Rsum (flat_map g (seq 0 n)) = osumn ROps n (fun r => Rsum (g r)).
Proof.
  induction n as [|n IH]; [reflexivity|].
  rewrite seq_S, flat_map_app, Rsum_app, IH. cbn [Nat.add flat_map osumn]. rewrite app_nil_r.
  reflexivity.
Qed.
Lemma Rsum_row_major (m : dm R) :
  Rsum (row_major ROps m) = osumn ROps (nrows m) (fun r => osumn ROps (ncols m) (fun c => get ROps m r c)).
Proof.
  unfold row_major. rewrite Rsum_flat_map_seq.
  induction (nrows m) as [|n IH]; [reflexivity|]. cbn [osumn]. rewrite IH, Rsum_map_seq. reflexivity.
Qed.

(* ====================================================================================== *)
(* C. softmax                                                                             *)
(* ====================================================================================== *)

Lemma fold_left_omax_spec l x :
  let mx := fold_left (omax ROps) l x in
  (x <= mx)%R /\ (forall y, In y l -> (y <= mx)%R) /\ (mx = x \/ In mx l).
Proof.
  revert x. induction l as [|a l IH]; intros x; cbn [fold_left].
  - cbv zeta. split; [lra|]. split; [intros y []|left; reflexivity].
  - cbv zeta. destruct (IH (omax ROps x a)) as [H1 [H2 H3]].
    assert (Hm : (x <= omax ROps x a)%R /\ (a <= omax ROps x a)%R /\ (omax ROps x a = x \/ omax ROps x a = a)).
    { unfold omax. cbn [oltb ROps]. destruct (Rltb x a) eqn:B.
      - apply Rltb_true in B. split; [lra|]. split; [lra|]. right; reflexivity.
      - apply Rltb_false in B. split; [lra|]. split; [lra|]. left; reflexivity. }
    destruct Hm as [Hx [Ha Hor]].
    split; [lra|]. split.
    + intros y [<-|Hy]; [lra|apply H2; exact Hy].
    + destruct H3 as [E|Hin]; [|right; right; exact Hin].
      destruct Hor as [E'|E']; [left; congruence|right; left; congruence].
Qed.

(* fold1 max: the result is an element of the list and bounds every element *)
Lemma fold1_omax_spec l mx : fold1 (omax ROps) l = Some mx ->
  In mx l /\ forall y, In y l -> (y <= mx)%R.
Proof.
  destruct l as [|x l]; cbn [fold1]; [discriminate|]. intros [= <-].
  destruct (fold_left_omax_spec l x) as [H1 [H2 H3]]. split.
  - destruct H3 as [E|Hin]; [left; symmetry; exact E|right; exact Hin].
  - intros y [<-|Hy]; [exact H1|apply H2; exact Hy].
Qed.
Lemma fold1_some {T : Type} (f : T -> T -> T) l : l <> [] -> exists v, fold1 f l = Some v.
Proof. destruct l as [|x l]; [congruence|]. intros _. eexists. reflexivity. Qed.

(* mx is the largest entry of m (attained) *)
Definition is_max_entry (m : dm R) (mx : R) : Prop :=
  (forall r c, r < nrows m -> c < ncols m -> (get ROps m r c <= mx)%R) /\
  (exists r c, r < nrows m /\ c < ncols m /\ get ROps m r c = mx).

Lemma max_entry_spec (m : dm R) mx : wf m -> fold1 (omax ROps) (values m) = Some mx -> is_max_entry m mx.
Proof.
  intros Hwf E. destruct (fold1_omax_spec _ _ E) as [Hin Hle]. split.
  - intros r c Hr Hc. apply Hle. apply (In_values_get ROps m _ Hwf). exists r, c. auto.
  - apply (In_values_get ROps m _ Hwf). exact Hin.
Qed.
Lemma max_entry_exists (m : dm R) : wf m -> 0 < nrows m * ncols m ->
  exists mx, fold1 (omax ROps) (values m) = Some mx /\ is_max_entry m mx.
Proof.
  intros Hwf Hpos.
  destruct (fold1_some (omax ROps) (values m)) as [mx E].
  { intros E. unfold wf in Hwf. rewrite E in Hwf. cbn [length] in Hwf. lia. }
  exists mx. split; [exact E|]. apply max_entry_spec; assumption.
Qed.

(* the shifted exponentials and the normaliser, as the model computes them *)
Definition softmax_e (m : dm R) (mx : R) (r c : nat) : R := exp (get ROps m r c - mx).
Definition softmax_z (m : dm R) (mx : R) : R :=
  fold_left Rplus (row_major ROps (tab (nrows m) (ncols m) (softmax_e m mx))) 0%R.

Lemma softmax_unfold (m : dm R) mx : fold1 (omax ROps) (values m) = Some mx ->
  softmax ROps m = Some (tab (nrows m) (ncols m) (fun r c => (softmax_e m mx r c / softmax_z m mx)%R)).
Proof.
  intros E. unfold softmax. rewrite E. cbv zeta. f_equal.
  apply tab_ext. intros r c Hr Hc. rewrite get_tab by assumption. reflexivity.
Qed.

Lemma softmax_empty (m : dm R) : values m = [] -> softmax ROps m = Some m.
Proof. intros E. unfold softmax. rewrite E. reflexivity. Qed.

Lemma softmax_z_eq (m : dm R) mx :
  softmax_z m mx = Rsum (map (fun v => exp (v - mx)) (row_major ROps m)).
Proof.
  unfold softmax_z, softmax_e. fold (Rsum (row_major ROps (tab (nrows m) (ncols m) (fun r c => exp (get ROps m r c - mx))))).
  rewrite (row_major_tab_map ROps m (fun v => exp (v - mx))). reflexivity.
Qed.

(* (2) exponents <= 0, one is 0; shifted exponentials in (0,1], one is 1; 1 <= z *)
Lemma softmax_shift (m : dm R) mx : is_max_entry m mx ->
  (forall r c, r < nrows m -> c < ncols m ->
     (get ROps m r c - mx <= 0)%R /\ (0 < softmax_e m mx r c <= 1)%R) /\
  (exists r c, r < nrows m /\ c < ncols m /\ (get ROps m r c - mx = 0)%R /\ softmax_e m mx r c = 1%R).
Proof.
  intros [Hle [r0 [c0 [Hr0 [Hc0 E0]]]]]. split.
  - intros r c Hr Hc. specialize (Hle r c Hr Hc). split; [lra|]. unfold softmax_e. split; [apply exp_pos|].
    rewrite <- exp_0. destruct (Req_dec (get ROps m r c - mx) 0) as [E|Hne]; [rewrite E; lra|].
    left. apply exp_increasing. lra.
  - exists r0, c0. repeat split; try assumption; [lra|]. unfold softmax_e. rewrite E0.
    replace (mx - mx)%R with 0%R by lra. apply exp_0.
Qed.

Lemma softmax_e_le_z (m : dm R) mx r c : r < nrows m -> c < ncols m ->
  (softmax_e m mx r c <= softmax_z m mx)%R.
Proof.
  intros Hr Hc. unfold softmax_z. fold (Rsum (row_major ROps (tab (nrows m) (ncols m) (softmax_e m mx)))).
  apply Rsum_ge_elem.
  - intros y Hy. apply In_row_major_get in Hy as [r' [c' [Hr' [Hc' E]]]].
    rewrite tab_nrows in Hr'. rewrite tab_ncols in Hc'. rewrite get_tab in E by assumption.
    rewrite <- E. unfold softmax_e. left. apply exp_pos.
  - apply In_row_major_get. exists r, c. rewrite tab_nrows, tab_ncols. repeat split; try assumption.
    apply get_tab; assumption.
Qed.

Lemma softmax_z_ge_1 (m : dm R) mx : is_max_entry m mx -> (1 <= softmax_z m mx)%R.
Proof.
  intros Hmx. destruct (softmax_shift m mx Hmx) as [_ [r [c [Hr [Hc [_ E]]]]]].
  rewrite <- E. apply softmax_e_le_z; assumption.
Qed.

(* (3)+(4) and shape *)
Lemma softmax_spec (m : dm R) : wf m -> 0 < nrows m * ncols m ->
  exists mx s,
    fold1 (omax ROps) (values m) = Some mx /\ is_max_entry m mx /\
    softmax ROps m = Some s /\ nrows s = nrows m /\ ncols s = ncols m /\ wf s /\
    (1 <= softmax_z m mx)%R /\
    (forall r c, r < nrows m -> c < ncols m ->
       get ROps s r c = (exp (get ROps m r c - mx) / softmax_z m mx)%R /\
       (get ROps m r c - mx <= 0)%R /\ (0 < exp (get ROps m r c - mx) <= 1)%R /\
       (0 < get ROps s r c <= 1)%R) /\
    fold_left Rplus (row_major ROps s) 0%R = 1%R /\
    osumn ROps (nrows s) (fun r => osumn ROps (ncols s) (fun c => get ROps s r c)) = 1%R.
Proof.
  intros Hwf Hpos. destruct (max_entry_exists m Hwf Hpos) as [mx [E Hmx]].
  exists mx. eexists. split; [exact E|]. split; [exact Hmx|].
  split; [apply softmax_unfold; exact E|].
  set (z := softmax_z m mx).
  pose proof (softmax_z_ge_1 m mx Hmx) as Hz. fold z in Hz.
  split; [reflexivity|]. split; [reflexivity|]. split; [apply tab_wf|]. split; [exact Hz|].
  assert (Hsum : Rsum (row_major ROps (tab (nrows m) (ncols m) (fun r c => (softmax_e m mx r c / z)%R))) = 1%R).
  { assert (Hrm : row_major ROps (tab (nrows m) (ncols m) (fun r c => (softmax_e m mx r c / z)%R))
                  = map (fun e => (e / z)%R) (row_major ROps (tab (nrows m) (ncols m) (softmax_e m mx)))).
    { rewrite !row_major_tab, map_flat_map. apply flat_map_ext_in. intros r _. rewrite map_map. reflexivity. }
    rewrite Hrm, Rsum_map_div. change (Rsum (row_major ROps (tab (nrows m) (ncols m) (softmax_e m mx)))) with z.
    field. lra. }
  split; [|split; [exact Hsum|rewrite <- Rsum_row_major; exact Hsum]].
  intros r c Hr Hc. rewrite get_tab by assumption.
  destruct (softmax_shift m mx Hmx) as [Hsh _]. destruct (Hsh r c Hr Hc) as [Hexp [He0 He1]].
  pose proof (softmax_e_le_z m mx r c Hr Hc) as Hez. fold z in Hez.
  fold (softmax_e m mx r c). split; [reflexivity|]. split; [exact Hexp|]. split; [split; assumption|].
  split.
  - apply Rdiv_lt_0_compat; lra.
  - apply (Rmult_le_reg_r z); [lra|]. unfold Rdiv. rewrite Rmult_assoc, Rinv_l by lra. lra.
Qed.

Example softmax_hyp_sat : let m := mkdm 2 2 [1; 3; 3; 2]%R in wf m /\ 0 < nrows m * ncols m.
Proof. cbn. unfold wf. cbn. split; [reflexivity|lia]. Qed.
Example softmax_max_ex : is_max_entry (mkdm 2 2 [1; 3; 3; 2]%R) 3%R.
Proof.
  apply max_entry_spec; [reflexivity|].
  cbv [fold1 values fold_left omax oltb ROps]. rdecide. reflexivity.
Qed.
Example softmax_ex_1x2 : softmax ROps (mkdm 1 2 [0; 0]%R) = Some (mkdm 1 2 [/ 2; / 2]%R).
Proof.
  rewrite (softmax_unfold _ 0%R).
  2:{ cbv [fold1 values fold_left omax oltb ROps]. rdecide. reflexivity. }
  unfold softmax_z. rewrite row_major_tab.
  cbv [tab nrows ncols values seq flat_map map app fold_left softmax_e get Nat.mul Nat.add nth].
  replace (0 - 0)%R with 0%R by lra. rewrite exp_0. do 3 f_equal; [|f_equal]; field.
Qed.
Example softmax_empty_ex : softmax ROps (mkdm 0 3 (@nil R)) = Some (mkdm 0 3 (@nil R)).
Proof. apply softmax_empty. reflexivity. Qed.

(* ====================================================================================== *)
(* B. unique = sort (stable insertion order of the model) + dedup                         *)
(* ====================================================================================== *)

Lemma In_insert_sorted x y l : In x (insert_sorted ROps y l) <-> x = y \/ In x l.
Proof.
  induction l as [|a l IH]; cbn [insert_sorted].
  - cbn [In]. split; intros [H|H]; auto.
  - cbn [oltb ROps]. destruct (Rltb y a); cbn [In].
    + split; intros [H|H]; auto.
    + rewrite IH. split; intros H; tauto.
Qed.

Lemma insert_sorted_sorted y l :
  StronglySorted Rle l -> StronglySorted Rle (insert_sorted ROps y l).
Proof.
  induction l as [|a l IH]; intros Hs; cbn [insert_sorted].
  - constructor; constructor.
  - apply StronglySorted_inv in Hs as [Hs Hall]. cbn [oltb ROps]. destruct (Rltb y a) eqn:B.
    + apply Rltb_true in B. constructor; [constructor; assumption|].
      constructor; [lra|]. rewrite Forall_forall in Hall |- *. intros z Hz. specialize (Hall z Hz). lra.
    + apply Rltb_false in B. constructor; [apply IH; exact Hs|].
      rewrite Forall_forall in Hall |- *. intros z Hz. apply In_insert_sorted in Hz as [->|Hz]; [exact B|].
      apply Hall. exact Hz.
Qed.

Lemma insert_sorted_length y l : length (insert_sorted ROps y l) = S (length l).
Proof.
  induction l as [|a l IH]; cbn [insert_sorted]; [reflexivity|].
  cbn [oltb ROps]. destruct (Rltb y a); cbn [length]; [reflexivity|]. rewrite IH. reflexivity.
Qed.

Lemma sort_vals_acc_spec l acc : StronglySorted Rle acc ->
  StronglySorted Rle (fold_left (fun a x => insert_sorted ROps x a) l acc) /\
  (forall x, In x (fold_left (fun a x => insert_sorted ROps x a) l acc) <-> In x l \/ In x acc) /\
  length (fold_left (fun a x => insert_sorted ROps x a) l acc) = length l + length acc.
Proof.
  revert acc. induction l as [|y l IH]; intros acc Hs; cbn [fold_left].
  - split; [exact Hs|]. split; [|reflexivity]. intros x. cbn [In]. tauto.
  - destruct (IH (insert_sorted ROps y acc) (insert_sorted_sorted y acc Hs)) as [H1 [H2 H3]].
    split; [exact H1|]. split.
    + intros x. rewrite H2, In_insert_sorted. cbn [In]. split; intros H; intuition (auto; congruence).
    + rewrite H3, insert_sorted_length. cbn [length]. lia.
Qed.

Lemma sort_vals_sorted l : StronglySorted Rle (sort_vals ROps l).
Proof. unfold sort_vals. apply sort_vals_acc_spec. constructor. Qed.
Lemma In_sort_vals l x : In x (sort_vals ROps l) <-> In x l.
Proof.
  unfold sort_vals. destruct (sort_vals_acc_spec l [] (SSorted_nil Rle)) as [_ [H _]].
  rewrite H. cbn [In]. tauto.
Qed.
Lemma sort_vals_length l : length (sort_vals ROps l) = length l.
Proof.
  unfold sort_vals. destruct (sort_vals_acc_spec l [] (SSorted_nil Rle)) as [_ [_ H]].
  rewrite H. cbn [length]. lia.
Qed.

(* dedup on a sorted list: what is kept is strictly increasing, strictly above the last kept
   element, and is exactly the set of elements different from it *)
Lemma dedup_from_spec l prev : StronglySorted Rle l -> Forall (Rle prev) l ->
  StronglySorted Rlt (dedup_from ROps prev l) /\
  Forall (Rlt prev) (dedup_from ROps prev l) /\
  (forall x, In x (dedup_from ROps prev l) <-> In x l /\ x <> prev).
Proof.
  revert prev. induction l as [|y t IH]; intros prev Hs Hall; cbn [dedup_from].
  - split; [constructor|]. split; [constructor|]. intros x. cbn [In]. tauto.
  - apply StronglySorted_inv in Hs as [Hs Hyt].
    pose proof (Forall_inv Hall) as Hpy. pose proof (Forall_inv_tail Hall) as Hpt.
    cbn [oeqb ROps]. destruct (Reqb y prev) eqn:B.
    + apply Reqb_true in B. subst y. destruct (IH prev Hs Hpt) as [H1 [H2 H3]].
      split; [exact H1|]. split; [exact H2|]. intros x. rewrite H3. cbn [In].
      split; [intros [Hin Hne]; split; [right; exact Hin|exact Hne]|].
      intros [[E|Hin] Hne]; [congruence|split; assumption].
    + apply Reqb_false in B. assert (Hlt : (prev < y)%R) by lra.
      destruct (IH y Hs Hyt) as [H1 [H2 H3]].
      split; [constructor; assumption|]. split.
      * constructor; [exact Hlt|]. rewrite Forall_forall in H2 |- *. intros z Hz. specialize (H2 z Hz). lra.
      * intros x. cbn [In]. rewrite H3. split.
        -- intros [E|[Hin Hne]]; [subst x; split; [left; reflexivity|exact B]|].
           split; [right; exact Hin|]. rewrite Forall_forall in Hyt. specialize (Hyt x Hin). lra.
        -- intros [[E|Hin] Hne]; [left; exact E|].
           destruct (Req_dec x y) as [E|Hxy]; [left; symmetry; exact E|right; split; assumption].
Qed.

Lemma dedup_spec l : StronglySorted Rle l ->
  StronglySorted Rlt (dedup ROps l) /\ (forall x, In x (dedup ROps l) <-> In x l).
Proof.
  destruct l as [|a t]; intros Hs; cbn [dedup].
  - split; [constructor|]. intros x. tauto.
  - apply StronglySorted_inv in Hs as [Hs Hat].
    destruct (dedup_from_spec t a Hs Hat) as [H1 [H2 H3]].
    split; [constructor; assumption|]. intros x. cbn [In]. rewrite H3. split.
    + intros [E|[Hin _]]; [left; exact E|right; exact Hin].
    + intros [E|Hin]; [left; exact E|].
      destruct (Req_dec x a) as [E|Hne]; [left; symmetry; exact E|right; split; assumption].
Qed.

Lemma StronglySorted_Rlt_NoDup l : StronglySorted Rlt l -> NoDup l.
Proof.
  induction l as [|a l IH]; intros Hs; [constructor|].
  apply StronglySorted_inv in Hs as [Hs Hall]. constructor; [|apply IH; exact Hs].
  intros Hin. rewrite Forall_forall in Hall. specialize (Hall a Hin). lra.
Qed.
Lemma StronglySorted_Rlt_nth l i j : StronglySorted Rlt l -> i < j -> j < length l ->
  (nth i l 0 < nth j l 0)%R.
Proof.
  revert i j. induction l as [|a l IH]; intros i j Hs Hij Hj; cbn [length] in Hj; [lia|].
  apply StronglySorted_inv in Hs as [Hs Hall].
  destruct j as [|j]; [lia|]. destruct i as [|i]; cbn [nth].
  - rewrite Forall_forall in Hall. apply Hall. apply nth_In. lia.
  - apply IH; [exact Hs|lia|lia].
Qed.

(* (i) strictly increasing, duplicate-free; (ii) same support *)
Lemma unique_list_sorted l : StronglySorted Rlt (unique_list ROps l).
Proof. unfold unique_list. apply dedup_spec. apply sort_vals_sorted. Qed.
Lemma unique_list_NoDup l : NoDup (unique_list ROps l).
Proof. apply StronglySorted_Rlt_NoDup, unique_list_sorted. Qed.
Lemma In_unique_list l x : In x (unique_list ROps l) <-> In x l.
Proof.
  unfold unique_list. destruct (dedup_spec (sort_vals ROps l) (sort_vals_sorted l)) as [_ H].
  rewrite H. apply In_sort_vals.
Qed.
Lemma unique_list_increasing l i j : i < j -> j < length (unique_list ROps l) ->
  (nth i (unique_list ROps l) 0 < nth j (unique_list ROps l) 0)%R.
Proof. apply StronglySorted_Rlt_nth, unique_list_sorted. Qed.

(* the output is determined by the support: any strictly increasing list with the same elements *)
Lemma StronglySorted_Rlt_ext l1 l2 : StronglySorted Rlt l1 -> StronglySorted Rlt l2 ->
  (forall x, In x l1 <-> In x l2) -> l1 = l2.
Proof.
  revert l2. induction l1 as [|a l1 IH]; intros l2 H1 H2 Hin.
  - destruct l2 as [|b l2]; [reflexivity|]. exfalso. apply (Hin b). left; reflexivity.
  - destruct l2 as [|b l2]; [exfalso; apply (Hin a); left; reflexivity|].
    apply StronglySorted_inv in H1 as [H1 Ha]. apply StronglySorted_inv in H2 as [H2 Hb].
    rewrite Forall_forall in Ha, Hb.
    assert (E : a = b).
    { assert (Ia : In a (b :: l2)) by (apply Hin; left; reflexivity).
      assert (Ib : In b (a :: l1)) by (apply Hin; left; reflexivity).
      destruct Ia as [Ia|Ia]; [symmetry; exact Ia|]. destruct Ib as [Ib|Ib]; [exact Ib|].
      specialize (Ha b Ib). specialize (Hb a Ia). lra. }
    subst b. f_equal. apply IH; [exact H1|exact H2|].
    intros x. split; intros Hx.
    + assert (Hx' : In x (a :: l2)) by (apply Hin; right; exact Hx).
      destruct Hx' as [Hx'|Hx']; [|exact Hx']. subst x. specialize (Ha a Hx). lra.
    + assert (Hx' : In x (a :: l1)) by (apply Hin; right; exact Hx).
      destruct Hx' as [Hx'|Hx']; [|exact Hx']. subst x. specialize (Hb a Hx). lra.
Qed.
Lemma unique_list_characterised l u : StronglySorted Rlt u -> (forall x, In x u <-> In x l) ->
  unique_list ROps l = u.
Proof.
  intros Hs Hin. apply StronglySorted_Rlt_ext; [apply unique_list_sorted|exact Hs|].
  intros x. rewrite In_unique_list, Hin. tauto.
Qed.

(* the matrix and vector entry points *)
Lemma unique_sorted (m : dm R) : StronglySorted Rlt (unique ROps m) /\ NoDup (unique ROps m).
Proof. unfold unique. split; [apply unique_list_sorted|apply unique_list_NoDup]. Qed.
Lemma In_unique_values (m : dm R) x : In x (unique ROps m) <-> In x (values m).
Proof. unfold unique. apply In_unique_list. Qed.
Lemma In_unique_get (m : dm R) x : wf m ->
  (In x (unique ROps m) <-> exists r c, r < nrows m /\ c < ncols m /\ get ROps m r c = x).
Proof. intros Hwf. rewrite In_unique_values. apply In_values_get. exact Hwf. Qed.
Lemma vunique_spec (a : list R) :
  StronglySorted Rlt (vunique ROps a) /\ NoDup (vunique ROps a) /\ (forall x, In x (vunique ROps a) <-> In x a).
Proof.
  unfold vunique. split; [apply unique_list_sorted|]. split; [apply unique_list_NoDup|].
  intros x. apply In_unique_list.
Qed.

Example unique_list_ex : unique_list ROps [3; 1; 3; 2; 1]%R = [1; 2; 3]%R.
Proof.
  apply unique_list_characterised.
  - repeat (constructor; try lra).
  - intros x. cbn [In]. tauto.
Qed.
(* the same by running the model *)
Example unique_list_ex_run : unique_list ROps [3; 1; 3; 2; 1]%R = [1; 2; 3]%R.
Proof.
  unfold unique_list, sort_vals. cbn [fold_left insert_sorted oltb ROps].
  repeat (rdecide; cbn [insert_sorted oltb ROps]).
  cbn [dedup dedup_from oeqb ROps].
  repeat (rdecide; cbn [dedup_from oeqb ROps]).
  reflexivity.
Qed.
Example unique_ex_2x2 : unique ROps (mkdm 2 2 [1; 3; 3; 2]%R) = [1; 2; 3]%R.
Proof.
  unfold unique. cbn [values]. apply unique_list_characterised.
  - repeat (constructor; try lra).
  - intros x. cbn [In]. tauto.
Qed.
Example unique_hyp_sat : wf (mkdm 2 2 [1; 3; 3; 2]%R).
Proof. reflexivity. Qed.
