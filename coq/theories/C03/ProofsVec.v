(* C03 — logical-view characterisation of the BaseVector arithmetic (binary, scalar, constructors) and of
   the matrix constructors zeros / ones / from_row_vector.  Generic in the scalar type: every statement
   holds for binary64 with its roundings as well as over R. *)
From Coq Require Import List Arith Bool Lia PeanoNat.
From SC Require Import Base.Num C03.Model C03.ProofsBase C03.ProofsAlg.
Import ListNotations.

Section Vec.
  Context {T : Type} (K : Ops T).
  Local Notation zero := (K.(o0)).
  Local Notation get := (Model.get K).

  (* ---------- scalar forms: maps ---------- *)
  Lemma nth_map_in (f : T -> T) (a : list T) i d d' : i < length a -> nth i (map f a) d = f (nth i a d').
  Proof.
    intros Hi. rewrite (nth_indep (map f a) d (f d')) by (rewrite map_length; exact Hi). apply map_nth.
  Qed.

  (* what "v is the entrywise image of a under g" means: same length, i-th entry = g (i-th entry) *)
  Definition entrywise1 (g : T -> T) (a v : list T) : Prop :=
    length v = length a /\ forall d i, i < length a -> nth i v d = g (nth i a d).
  Definition entrywise2 (g : T -> T -> T) (a b v : list T) : Prop :=
    length v = length a /\ forall d i, i < length a -> nth i v d = g (nth i a d) (nth i b d).

  Lemma entrywise1_map g a : entrywise1 g a (map g a).
  Proof. split; [apply map_length|]. intros d i Hi. apply nth_map_in. exact Hi. Qed.

  (* the entrywise image is unique: the characterisation pins the result down completely *)
  Lemma entrywise1_unique g a v : entrywise1 g a v -> v = map g a.
  Proof.
    intros [Hl Hn]. revert v Hl Hn. induction a as [|x a IH]; intros v Hl Hn.
    - destruct v; [reflexivity|discriminate].
    - destruct v as [|y v]; [discriminate|]. cbn [map]. f_equal.
      + exact (Hn x 0 (Nat.lt_0_succ _)).
      + apply IH; [cbn in Hl; lia|]. intros d i Hi. apply (Hn d (S i)). cbn. lia.
  Qed.

  Lemma vadd_scalar_spec a x : entrywise1 (fun v => oadd K v x) a (vadd_scalar K a x).
  Proof. apply entrywise1_map. Qed.
  Lemma vsub_scalar_spec a x : entrywise1 (fun v => osub K v x) a (vsub_scalar K a x).
  Proof. apply entrywise1_map. Qed.
  Lemma vmul_scalar_spec a x : entrywise1 (fun v => omul K v x) a (vmul_scalar K a x).
  Proof. apply entrywise1_map. Qed.
  Lemma vdiv_scalar_spec a x : entrywise1 (fun v => odiv K v x) a (vdiv_scalar K a x).
  Proof. apply entrywise1_map. Qed.

  (* ---------- binary forms ---------- *)
  Lemma vzip_entrywise f (a b : list T) : length a = length b ->
    exists v, vzip f a b = Some v /\ entrywise2 f a b v.
  Proof.
    intros H. destruct (vzip_spec f a b H) as [l [H1 [H2 H3]]]. exists l. split; [exact H1|]. split; assumption.
  Qed.

  Lemma vbinary_none a b : length a <> length b ->
    vadd K a b = None /\ vsub K a b = None /\ vmul K a b = None /\ vdiv K a b = None.
  Proof. intros H. unfold vadd, vsub, vmul, vdiv. repeat split; apply vzip_none_iff; exact H. Qed.

  Lemma vbinary_none_iff a b :
    (vadd K a b = None <-> length a <> length b) /\ (vsub K a b = None <-> length a <> length b) /\
    (vmul K a b = None <-> length a <> length b) /\ (vdiv K a b = None <-> length a <> length b).
  Proof. unfold vadd, vsub, vmul, vdiv. repeat split; apply vzip_none_iff. Qed.

  Lemma vbinary_spec a b : length a = length b ->
    exists s d p q,
      vadd K a b = Some s /\ vsub K a b = Some d /\ vmul K a b = Some p /\ vdiv K a b = Some q /\
      entrywise2 (oadd K) a b s /\ entrywise2 (osub K) a b d /\
      entrywise2 (omul K) a b p /\ entrywise2 (odiv K) a b q.
  Proof.
    intros H. unfold vadd, vsub, vmul, vdiv.
    destruct (vzip_entrywise (oadd K) a b H) as [s [Hs1 Hs2]].
    destruct (vzip_entrywise (osub K) a b H) as [d [Hd1 Hd2]].
    destruct (vzip_entrywise (omul K) a b H) as [p [Hp1 Hp2]].
    destruct (vzip_entrywise (odiv K) a b H) as [q [Hq1 Hq2]].
    exists s, d, p, q. do 7 (split; [assumption|]). assumption.
  Qed.

  (* ---------- constant vectors ---------- *)
  Lemma vfill_spec n (x : T) : length (vfill n x) = n /\ forall d i, i < n -> nth i (vfill n x) d = x.
  Proof.
    unfold vfill. split; [apply repeat_length|]. intros d i Hi.
    apply (repeat_spec n). apply nth_In. rewrite repeat_length. exact Hi.
  Qed.

  (* ---------- constant matrices ---------- *)
  Lemma zeros_ones_spec n p :
    shape (zeros K n p) = (n, p) /\ shape (ones K n p) = (n, p) /\ wf (zeros K n p) /\ wf (ones K n p) /\
    forall r c, r < n -> c < p -> get (zeros K n p) r c = zero /\ get (ones K n p) r c = o1 K.
  Proof.
    unfold zeros, ones. split; [reflexivity|]. split; [reflexivity|].
    split; [apply fill_wf|]. split; [apply fill_wf|].
    intros r c Hr Hc. split; apply get_fill; assumption.
  Qed.

  (* ---------- from_row_vector: the 1 x n matrix with (0,j) entry v_j ---------- *)
  Lemma map_nth_seq (v : list T) d : map (fun c => nth c v d) (seq 0 (length v)) = v.
  Proof.
    apply (nth_ext _ _ d d).
    - rewrite map_length, seq_length. reflexivity.
    - intros i Hi. rewrite map_length, seq_length in Hi.
      rewrite (nth_indep _ d (nth 0 v d)) by (rewrite map_length, seq_length; exact Hi).
      rewrite (map_nth (fun c => nth c v d) (seq 0 (length v)) 0 i).
      rewrite seq_nth by exact Hi. reflexivity.
  Qed.

  Lemma from_row_vector_spec (v : list T) :
    shape (from_row_vector v) = (1, length v) /\ wf (from_row_vector v) /\
    from_row_vector v = row_vector_from_vec v /\
    (forall j, get (from_row_vector v) 0 j = nth j v zero) /\
    to_row_vector K (from_row_vector v) = v.
  Proof.
    split; [reflexivity|]. split; [exact (row_vector_wf v)|]. split; [reflexivity|].
    split; [exact (row_vector_get K v)|].
    unfold to_row_vector, row_major, from_row_vector. cbn [nrows ncols seq flat_map]. rewrite app_nil_r.
    rewrite <- (map_nth_seq v zero) at 2. apply map_ext. intros c.
    unfold Model.get. cbn [nrows values]. f_equal. lia.
  Qed.
End Vec.

(* the hypotheses are satisfiable / the statements are not vacuous: a generic instance over nat *)
Example vec_ops_ex :
  vadd NatOps [1; 2; 3] [10; 20; 30] = Some [11; 22; 33] /\ vsub NatOps [5; 7] [1; 2] = Some [4; 5] /\
  vmul NatOps [1; 2; 3] [4; 5; 6] = Some [4; 10; 18] /\ vadd NatOps [1; 2; 3] [1; 2] = None /\
  vmul_scalar NatOps [1; 2; 3] 3 = [3; 6; 9] /\ vfill 3 7 = [7; 7; 7] /\
  from_row_vector [4; 5; 6] = mkdm 1 3 [4; 5; 6] /\ zeros NatOps 2 2 = mkdm 2 2 [0; 0; 0; 0] /\
  ones NatOps 1 2 = mkdm 1 2 [1; 1].
Proof. repeat split; reflexivity. Qed.
