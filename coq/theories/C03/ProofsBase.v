(* C03 — addressing lemma (column-major tabulation and `get` are mutually inverse) and the
   logical-view characterisation of the structural operations.  Generic in the scalar type. *)
From Coq Require Import List Arith Bool Lia PeanoNat.
From SC Require Import Base.Num C03.Model.
Import ListNotations.

Section Base.
  Context {T : Type} (K : Ops T).
  Local Notation zero := (K.(o0)).
  Local Notation get := (get K).
  Local Notation tab := (@tab T).

  Definition wf (m : dm T) : Prop := length (values m) = nrows m * ncols m.

  (* ---------- lists ---------- *)
  Lemma nth_flat_map_const (g : nat -> list T) (n : nat) (d : T) :
    (forall c, length (g c) = n) ->
    forall cs k r, r < n -> k < length cs ->
      nth (k * n + r) (flat_map g cs) d = nth r (g (nth k cs 0)) d.
  Proof.
    intros Hg cs. induction cs as [|a cs IH]; intros k r Hr Hk; cbn [length] in Hk; [lia|].
    cbn [flat_map]. destruct k as [|k].
    - cbn [Nat.mul Nat.add nth]. apply app_nth1. rewrite Hg. exact Hr.
    - rewrite app_nth2 by (rewrite Hg; lia). rewrite Hg.
      replace (S k * n + r - n) with (k * n + r) by lia.
      cbn [nth]. apply IH; lia.
  Qed.

  Lemma length_flat_map_const (g : nat -> list T) (n : nat) :
    (forall c, length (g c) = n) -> forall cs, length (flat_map g cs) = length cs * n.
  Proof.
    intros Hg cs. induction cs as [|a cs IH]; [reflexivity|].
    cbn [flat_map length]. rewrite app_length, Hg, IH. lia.
  Qed.

  Lemma flat_map_ext_in (g h : nat -> list T) cs :
    (forall c, In c cs -> g c = h c) -> flat_map g cs = flat_map h cs.
  Proof.
    induction cs as [|a cs IH]; intros H; [reflexivity|].
    cbn [flat_map]. rewrite H by (left; reflexivity). rewrite IH; [reflexivity|].
    intros c Hc. apply H. right. exact Hc.
  Qed.

  (* ---------- tab ---------- *)
  Lemma tab_nrows n p f : nrows (tab n p f) = n. Proof. reflexivity. Qed.
  Lemma tab_ncols n p f : ncols (tab n p f) = p. Proof. reflexivity. Qed.
  Lemma tab_length n p f : length (values (tab n p f)) = n * p.
  Proof.
    unfold Model.tab. cbn [values].
    rewrite (length_flat_map_const _ n) by (intros; rewrite map_length, seq_length; reflexivity).
    rewrite seq_length. lia.
  Qed.
  Lemma tab_wf n p f : wf (tab n p f).
  Proof. unfold wf. rewrite tab_length. reflexivity. Qed.

  (* the addressing lemma *)
  Lemma get_tab n p f r c : r < n -> c < p -> get (tab n p f) r c = f r c.
  Proof.
    intros Hr Hc. unfold Model.get, Model.tab. cbn [values nrows].
    rewrite (nth_flat_map_const _ n) by
      (try (intros; rewrite map_length, seq_length; reflexivity); try rewrite seq_length; assumption).
    rewrite seq_nth by exact Hc. cbn [Nat.add].
    rewrite (nth_indep _ zero (f 0 c)) by (rewrite map_length, seq_length; exact Hr).
    rewrite (map_nth (fun r0 => f r0 c) (seq 0 n) 0 r). rewrite seq_nth by exact Hr. reflexivity.
  Qed.

  Lemma tab_ext n p f g : (forall r c, r < n -> c < p -> f r c = g r c) -> tab n p f = tab n p g.
  Proof.
    intros H. unfold Model.tab. f_equal. apply flat_map_ext_in. intros c Hc. apply in_seq in Hc.
    apply map_ext_in. intros r Hr. apply in_seq in Hr. apply H; lia.
  Qed.

  (* ... and conversely: re-tabulating the view of a well-formed matrix gives the matrix back *)
  Lemma tab_get m : wf m -> tab (nrows m) (ncols m) (get m) = m.
  Proof.
    unfold wf. destruct m as [n p vs]. cbn [nrows ncols values]. intros Hwf.
    unfold Model.tab. f_equal.
    apply (nth_ext _ _ zero zero).
    - rewrite (length_flat_map_const _ n) by (intros; rewrite map_length, seq_length; reflexivity).
      rewrite seq_length. lia.
    - intros i Hi.
      rewrite (length_flat_map_const _ n) in Hi by (intros; rewrite map_length, seq_length; reflexivity).
      rewrite seq_length in Hi.
      assert (Hn : n <> 0) by (intros ->; lia).
      pose proof (Nat.div_mod i n Hn) as Hdm.
      pose proof (Nat.mod_upper_bound i n Hn) as Hmod.
      assert (Hdiv : i / n < p) by (apply Nat.div_lt_upper_bound; lia).
      replace i with (i / n * n + i mod n) at 1 by lia.
      rewrite (nth_flat_map_const _ n) by
        (try (intros; rewrite map_length, seq_length; reflexivity); try rewrite seq_length; assumption).
      rewrite seq_nth by exact Hdiv. cbn [Nat.add].
      rewrite (nth_indep _ zero (get (mkdm n p vs) 0 (i / n))) by (rewrite map_length, seq_length; exact Hmod).
      rewrite (map_nth (fun r0 => get (mkdm n p vs) r0 (i / n)) (seq 0 n) 0 (i mod n)).
      rewrite seq_nth by exact Hmod. unfold Model.get. cbn [nrows values Nat.add]. f_equal. lia.
  Qed.

  (* two well-formed matrices with the same shape and the same logical view are equal *)
  Lemma dm_ext a b : wf a -> wf b -> nrows a = nrows b -> ncols a = ncols b ->
    (forall r c, r < nrows a -> c < ncols a -> get a r c = get b r c) -> a = b.
  Proof.
    intros Ha Hb Hn Hp H. rewrite <- (tab_get a Ha), <- (tab_get b Hb), <- Hn, <- Hp.
    apply tab_ext. exact H.
  Qed.

  (* ---------- construction ---------- *)
  Lemma from_vec_spec n p vals :
    (length vals < n * p -> from_vec K n p vals = None) /\
    (n * p <= length vals -> exists m, from_vec K n p vals = Some m /\ nrows m = n /\ ncols m = p /\ wf m /\
       forall r c, r < n -> c < p -> get m r c = nth (r * p + c) vals zero).
  Proof.
    unfold from_vec. split; intros H.
    - apply Nat.ltb_lt in H. rewrite H. reflexivity.
    - apply Nat.ltb_ge in H. rewrite H. eexists. split; [reflexivity|].
      repeat split; try apply tab_wf. intros r c Hr Hc. rewrite get_tab by assumption. f_equal. lia.
  Qed.

  Lemma from_2d_vec_spec first rest :
    exists m, from_2d_vec K (first :: rest) = Some m /\ nrows m = S (length rest) /\ ncols m = length first /\ wf m /\
      forall r c, r < S (length rest) -> c < length first -> get m r c = nth c (nth r (first :: rest) []) zero.
  Proof.
    unfold from_2d_vec. eexists. split; [reflexivity|]. cbn [length].
    repeat split; try apply tab_wf. intros r c Hr Hc. rewrite get_tab by assumption. reflexivity.
  Qed.
  Lemma from_2d_vec_empty : from_2d_vec K [] = None. Proof. reflexivity. Qed.

  Lemma row_vector_get v c : get (row_vector_from_vec v) 0 c = nth c v zero.
  Proof. unfold Model.get, row_vector_from_vec. cbn [nrows values]. f_equal. lia. Qed.
  Lemma column_vector_get v r : get (column_vector_from_vec v) r 0 = nth r v zero.
  Proof. unfold Model.get, column_vector_from_vec. cbn [nrows values]. reflexivity. Qed.
  Lemma row_vector_wf v : wf (row_vector_from_vec v). Proof. unfold wf. cbn. lia. Qed.
  Lemma column_vector_wf v : wf (column_vector_from_vec v). Proof. unfold wf. cbn. lia. Qed.

  Lemma fill_wf n p v : wf (fill n p v).
  Proof. unfold wf, fill. cbn [values nrows ncols]. rewrite repeat_length. lia. Qed.
  Lemma get_fill n p v r c : r < n -> c < p -> get (fill n p v) r c = v.
  Proof.
    intros Hr Hc. unfold Model.get, fill. cbn [values nrows].
    apply (repeat_spec (p * n)). apply nth_In. rewrite repeat_length. nia.
  Qed.
  Lemma get_eye n r c : r < n -> c < n -> get (eye K n) r c = if Nat.eqb r c then K.(o1) else zero.
  Proof. intros Hr Hc. unfold eye. rewrite get_tab by assumption. reflexivity. Qed.

  (* ---------- get / set ---------- *)
  Lemma get_chk_spec m r c : wf m ->
    get_chk m r c = if (r <? nrows m) && (c <? ncols m) then Some (get m r c) else None.
  Proof.
    unfold wf, get_chk, Model.get. intros Hwf.
    destruct (Nat.leb_spec (nrows m) r) as [H1|H1]; cbn [orb].
    - replace (r <? nrows m) with false by (symmetry; apply Nat.ltb_ge; exact H1). reflexivity.
    - replace (r <? nrows m) with true by (symmetry; apply Nat.ltb_lt; exact H1). cbn [andb].
      destruct (Nat.leb_spec (ncols m) c) as [H2|H2].
      + replace (c <? ncols m) with false by (symmetry; apply Nat.ltb_ge; exact H2). reflexivity.
      + replace (c <? ncols m) with true by (symmetry; apply Nat.ltb_lt; exact H2).
        apply nth_error_nth'. rewrite Hwf. nia.
  Qed.

  Lemma set_nth_length (l : list T) i v : length (set_nth l i v) = length l.
  Proof. revert i. induction l as [|x l IH]; intros [|i]; cbn; try reflexivity. rewrite IH. reflexivity. Qed.
  Lemma nth_set_nth (l : list T) i j v d : i < length l ->
    nth j (set_nth l i v) d = if Nat.eqb j i then v else nth j l d.
  Proof.
    revert i j. induction l as [|x l IH]; intros i j Hi; cbn [length] in Hi; [lia|].
    destruct i as [|i], j as [|j]; cbn; try reflexivity. apply IH. lia.
  Qed.

  Lemma set_spec m r c v : wf m -> r < nrows m -> c < ncols m ->
    exists m', set m r c v = Some m' /\ nrows m' = nrows m /\ ncols m' = ncols m /\ wf m' /\
      forall r' c', r' < nrows m -> c' < ncols m ->
        get m' r' c' = if Nat.eqb r' r && Nat.eqb c' c then v else get m r' c'.
  Proof.
    unfold wf, set. intros Hwf Hr Hc.
    assert (Hi : c * nrows m + r < length (values m)) by (rewrite Hwf; nia).
    apply Nat.ltb_lt in Hi as Hi'. rewrite Hi'. eexists. split; [reflexivity|]. cbn [nrows ncols values].
    repeat split.
    - unfold wf. cbn [nrows ncols values]. rewrite set_nth_length. exact Hwf.
    - intros r' c' Hr' Hc'. unfold Model.get. cbn [nrows values]. rewrite nth_set_nth by exact Hi.
      destruct (Nat.eqb_spec r' r) as [->|Hne]; cbn [andb].
      + destruct (Nat.eqb_spec c' c) as [->|Hne2].
        * rewrite Nat.eqb_refl. reflexivity.
        * destruct (Nat.eqb_spec (c' * nrows m + r) (c * nrows m + r)) as [E|E]; [|reflexivity].
          exfalso. apply Hne2. nia.
      + destruct (Nat.eqb_spec (c' * nrows m + r') (c * nrows m + r)) as [E|E]; [|reflexivity].
        exfalso. apply Hne.
        assert (c' = c) by nia. subst c'. lia.
  Qed.

  (* ---------- reading: row-major order (iter, to_row_vector), rows, columns ---------- *)
  Lemma row_major_length m : length (row_major K m) = nrows m * ncols m.
  Proof.
    unfold row_major. rewrite (length_flat_map_const _ (ncols m)) by (intros; rewrite map_length, seq_length; reflexivity).
    rewrite seq_length. reflexivity.
  Qed.
  Lemma nth_row_major m r c : r < nrows m -> c < ncols m ->
    nth (r * ncols m + c) (row_major K m) zero = get m r c.
  Proof.
    intros Hr Hc. unfold row_major.
    rewrite (nth_flat_map_const _ (ncols m)) by
      (try (intros; rewrite map_length, seq_length; reflexivity); try rewrite seq_length; assumption).
    rewrite seq_nth by exact Hr. cbn [Nat.add].
    rewrite (nth_indep _ zero (get m r 0)) by (rewrite map_length, seq_length; exact Hc).
    rewrite (map_nth (fun c0 => get m r c0) (seq 0 (ncols m)) 0 c). rewrite seq_nth by exact Hc. reflexivity.
  Qed.
  (* k-th element of the iteration order is the entry (k / ncols, k mod ncols) *)
  Lemma nth_row_major_divmod m k : k < nrows m * ncols m ->
    nth k (row_major K m) zero = get m (k / ncols m) (k mod ncols m).
  Proof.
    intros Hk. assert (Hp : ncols m <> 0) by (intros E; rewrite E in Hk; lia).
    pose proof (Nat.div_mod k (ncols m) Hp). pose proof (Nat.mod_upper_bound k (ncols m) Hp).
    assert (k / ncols m < nrows m) by (apply Nat.div_lt_upper_bound; lia).
    rewrite <- nth_row_major by assumption. f_equal. lia.
  Qed.

  Lemma get_row_spec m r :
    get_row K m r = if (nrows m <=? r) && (0 <? ncols m) then None else Some (map (fun c => get m r c) (seq 0 (ncols m))).
  Proof. reflexivity. Qed.
  Lemma get_row_nth m r row c : get_row K m r = Some row -> c < ncols m ->
    length row = ncols m /\ nth c row zero = get m r c.
  Proof.
    unfold get_row. destruct ((nrows m <=? r) && (0 <? ncols m)); [discriminate|]. intros [= <-] Hc.
    rewrite map_length, seq_length. split; [reflexivity|].
    rewrite (nth_indep _ zero (get m r 0)) by (rewrite map_length, seq_length; exact Hc).
    rewrite (map_nth (fun c0 => get m r c0) (seq 0 (ncols m)) 0 c). rewrite seq_nth by exact Hc. reflexivity.
  Qed.
  Lemma get_col_nth m c col r : get_col K m c = Some col -> r < nrows m ->
    length col = nrows m /\ nth r col zero = get m r c.
  Proof.
    unfold get_col. destruct ((ncols m <=? c) && (0 <? nrows m)); [discriminate|]. intros [= <-] Hr.
    rewrite map_length, seq_length. split; [reflexivity|].
    rewrite (nth_indep _ zero (get m 0 c)) by (rewrite map_length, seq_length; exact Hr).
    rewrite (map_nth (fun r0 => get m r0 c) (seq 0 (nrows m)) 0 r). rewrite seq_nth by exact Hr. reflexivity.
  Qed.
  Lemma get_row_some m r : r < nrows m -> exists row, get_row K m r = Some row.
  Proof. intros H. unfold get_row. apply Nat.leb_gt in H. rewrite H. eexists. reflexivity. Qed.
  Lemma get_col_some m c : c < ncols m -> exists col, get_col K m c = Some col.
  Proof. intros H. unfold get_col. apply Nat.leb_gt in H. rewrite H. eexists. reflexivity. Qed.
  Lemma get_row_none m r : nrows m <= r -> 0 < ncols m -> get_row K m r = None.
  Proof. intros H1 H2. unfold get_row. apply Nat.leb_le in H1. apply Nat.ltb_lt in H2. rewrite H1, H2. reflexivity. Qed.
  Lemma get_col_none m c : ncols m <= c -> 0 < nrows m -> get_col K m c = None.
  Proof. intros H1 H2. unfold get_col. apply Nat.leb_le in H1. apply Nat.ltb_lt in H2. rewrite H1, H2. reflexivity. Qed.

  (* ---------- transpose ---------- *)
  Lemma transpose_shape m : nrows (transpose K m) = ncols m /\ ncols (transpose K m) = nrows m /\ wf (transpose K m).
  Proof. unfold transpose. repeat split. apply tab_wf. Qed.
  Lemma get_transpose m r c : r < ncols m -> c < nrows m -> get (transpose K m) r c = get m c r.
  Proof. intros. unfold transpose. rewrite get_tab by assumption. reflexivity. Qed.
  Lemma transpose_involutive m : wf m -> transpose K (transpose K m) = m.
  Proof.
    intros Hwf. apply dm_ext; try assumption; try reflexivity; try apply tab_wf.
    intros r c Hr Hc. cbn [transpose nrows ncols Model.tab] in Hr, Hc.
    rewrite get_transpose by assumption. rewrite get_transpose by assumption. reflexivity.
  Qed.

  (* ---------- stacking ---------- *)
  Lemma v_stack_spec a b :
    (ncols a <> ncols b -> v_stack K a b = None) /\
    (ncols a = ncols b -> exists m, v_stack K a b = Some m /\ nrows m = nrows a + nrows b /\ ncols m = ncols a /\ wf m /\
       forall r c, r < nrows a + nrows b -> c < ncols a ->
         get m r c = if r <? nrows a then get a r c else get b (r - nrows a) c).
  Proof.
    unfold v_stack. split; intros H.
    - apply Nat.eqb_neq in H. rewrite H. reflexivity.
    - apply Nat.eqb_eq in H. rewrite H. cbn [negb]. eexists. split; [reflexivity|].
      repeat split; try apply tab_wf. intros r c Hr Hc. rewrite get_tab by assumption. reflexivity.
  Qed.
  Lemma h_stack_spec a b :
    (nrows a <> nrows b -> h_stack K a b = None) /\
    (nrows a = nrows b -> exists m, h_stack K a b = Some m /\ nrows m = nrows a /\ ncols m = ncols a + ncols b /\ wf m /\
       forall r c, r < nrows a -> c < ncols a + ncols b ->
         get m r c = if c <? ncols a then get a r c else get b r (c - ncols a)).
  Proof.
    unfold h_stack. split; intros H.
    - apply Nat.eqb_neq in H. rewrite H. reflexivity.
    - apply Nat.eqb_eq in H. rewrite H. cbn [negb]. eexists. split; [reflexivity|].
      repeat split; try apply tab_wf. intros r c Hr Hc. rewrite get_tab by assumption. reflexivity.
  Qed.

  (* ---------- slice ---------- *)
  Lemma slice_spec m r0 r1 c0 c1 :
    (r0 < r1 -> c0 < c1 -> (nrows m < r1 \/ ncols m < c1) -> slice K m r0 r1 c0 c1 = None) /\
    ((r1 <= nrows m /\ c1 <= ncols m) \/ r1 <= r0 \/ c1 <= c0 ->
       exists s, slice K m r0 r1 c0 c1 = Some s /\ nrows s = r1 - r0 /\ ncols s = c1 - c0 /\ wf s /\
         forall r c, r < r1 - r0 -> c < c1 - c0 -> get s r c = get m (r + r0) (c + c0)).
  Proof.
    unfold slice. split.
    - intros H1 H2 H3. apply Nat.ltb_lt in H1, H2. rewrite H1, H2. cbn [andb].
      destruct H3 as [H3|H3]; apply Nat.ltb_lt in H3; rewrite H3; [reflexivity|]. rewrite orb_true_r. reflexivity.
    - intros H.
      assert (E : (r0 <? r1) && (c0 <? c1) && ((nrows m <? r1) || (ncols m <? c1)) = false).
      { destruct H as [[H1 H2]|[H|H]].
        - apply Nat.ltb_ge in H1, H2. rewrite H1, H2. cbn [orb]. apply andb_false_r.
        - apply Nat.ltb_ge in H. rewrite H. reflexivity.
        - apply Nat.ltb_ge in H. rewrite H. rewrite andb_false_r. reflexivity. }
      rewrite E. eexists. split; [reflexivity|]. repeat split; try apply tab_wf.
      intros r c Hr Hc. rewrite get_tab by assumption. reflexivity.
  Qed.

  (* ---------- reshape: the logical row-major order is preserved for every target shape ---------- *)
  Lemma reshape_none m n p : nrows m * ncols m <> n * p -> reshape K m n p = None.
  Proof. intros H. unfold reshape. apply Nat.eqb_neq in H. rewrite H. reflexivity. Qed.
  Lemma reshape_spec m n p : nrows m * ncols m = n * p ->
    exists m', reshape K m n p = Some m' /\ nrows m' = n /\ ncols m' = p /\ wf m' /\
      row_major K m' = row_major K m /\
      forall r c, r < n -> c < p -> get m' r c = nth (r * p + c) (row_major K m) zero.
  Proof.
    intros H. unfold reshape. apply Nat.eqb_eq in H as H'. rewrite H'. cbn [negb].
    eexists. split; [reflexivity|].
    set (m' := tab n p _).
    assert (Hget : forall r c, r < n -> c < p -> get m' r c = nth (r * p + c) (row_major K m) zero).
    { intros r c Hr Hc. unfold m'. rewrite get_tab by assumption. cbv beta zeta.
      symmetry. apply nth_row_major_divmod. rewrite H. nia. }
    repeat split; try apply tab_wf; [|exact Hget].
    apply (nth_ext _ _ zero zero).
    - rewrite !row_major_length. unfold m'. cbn [nrows ncols Model.tab]. lia.
    - intros i Hi. rewrite row_major_length in Hi. unfold m' in Hi. cbn [nrows ncols Model.tab] in Hi.
      assert (Hp : p <> 0) by (intros ->; lia).
      pose proof (Nat.div_mod i p Hp). pose proof (Nat.mod_upper_bound i p Hp).
      assert (i / p < n) by (apply Nat.div_lt_upper_bound; lia).
      rewrite (nth_row_major_divmod m') by (unfold m'; cbn [nrows ncols Model.tab]; lia).
      replace (ncols m') with p by reflexivity.
      rewrite Hget by assumption. f_equal. lia.
  Qed.
  Lemma to_row_vector_spec m : to_row_vector K m = row_major K m. Proof. reflexivity. Qed.

  (* ---------- copy_from ---------- *)
  Lemma copy_from_spec a b : wf a -> wf b ->
    copy_from a b = if (nrows a =? nrows b) && (ncols a =? ncols b) then Some b else None.
  Proof.
    unfold wf, copy_from. intros Ha Hb.
    destruct (Nat.eqb_spec (nrows a) (nrows b)) as [E1|E1]; cbn [negb orb andb]; [|reflexivity].
    destruct (Nat.eqb_spec (ncols a) (ncols b)) as [E2|E2]; cbn [negb]; [|reflexivity].
    replace (length (values a) =? length (values b)) with true by (symmetry; apply Nat.eqb_eq; congruence).
    cbn [negb]. destruct b as [nb pb vb]. cbn [nrows ncols values] in *. subst. reflexivity.
  Qed.

  (* ---------- take ---------- *)
  Lemma existsb_false_forall (f : nat -> bool) l : existsb f l = false <-> forall x, In x l -> f x = false.
  Proof.
    induction l as [|a l IH]; cbn [existsb]; split; intros H.
    - intros x [].
    - reflexivity.
    - apply orb_false_iff in H as [H1 H2]. intros x [<-|Hx]; [exact H1|]. apply IH; assumption.
    - apply orb_false_iff. split; [apply H; left; reflexivity|]. apply IH. intros x Hx. apply H. right. exact Hx.
  Qed.
  Lemma take_rows_spec m index :
    ((exists i, In i index /\ nrows m <= i) -> 0 < ncols m -> take K m index true = None) /\
    ((forall i, In i index -> i < nrows m) ->
       exists t, take K m index true = Some t /\ nrows t = length index /\ ncols t = ncols m /\ wf t /\
         forall i j, i < length index -> j < ncols m -> get t i j = get m (nth i index 0) j).
  Proof.
    unfold take. split.
    - intros [i [Hi Hge]] Hp.
      assert (E : existsb (fun i => nrows m <=? i) index = true).
      { apply existsb_exists. exists i. split; [exact Hi|]. apply Nat.leb_le. exact Hge. }
      rewrite E. apply Nat.ltb_lt in Hp. rewrite Hp. reflexivity.
    - intros H.
      assert (E : existsb (fun i => nrows m <=? i) index = false).
      { apply existsb_false_forall. intros x Hx. apply Nat.leb_gt. apply H. exact Hx. }
      rewrite E. cbn [andb]. eexists. split; [reflexivity|]. repeat split; try apply tab_wf.
      intros i j Hi Hj. rewrite get_tab by assumption. reflexivity.
  Qed.
  Lemma take_cols_spec m index :
    ((exists i, In i index /\ ncols m <= i) -> 0 < nrows m -> take K m index false = None) /\
    ((forall i, In i index -> i < ncols m) ->
       exists t, take K m index false = Some t /\ nrows t = nrows m /\ ncols t = length index /\ wf t /\
         forall j i, j < nrows m -> i < length index -> get t j i = get m j (nth i index 0)).
  Proof.
    unfold take. split.
    - intros [i [Hi Hge]] Hp.
      assert (E : existsb (fun i => ncols m <=? i) index = true).
      { apply existsb_exists. exists i. split; [exact Hi|]. apply Nat.leb_le. exact Hge. }
      rewrite E. apply Nat.ltb_lt in Hp. rewrite Hp. reflexivity.
    - intros H.
      assert (E : existsb (fun i => ncols m <=? i) index = false).
      { apply existsb_false_forall. intros x Hx. apply Nat.leb_gt. apply H. exact Hx. }
      rewrite E. cbn [andb]. eexists. split; [reflexivity|]. repeat split; try apply tab_wf.
      intros j i Hj Hi. rewrite get_tab by assumption. reflexivity.
  Qed.
End Base.
