(* C03 — correspondence interface: the generic model (SC.C03.Model) instantiated at binary64,
   with `N` arguments, and the comparators the harness (harness/src/bin/c03.rs) uses to compare the
   model's `dm` / lists / scalars with what the implementation returned (its column-major storage
   obtained by `Vec::from(m.clone())`, and `shape()`).  A panic of the implementation is `None`.
   Evaluated by `Eval vm_compute`.  No theorem depends on this file. *)
From Coq Require Import List ZArith NArith Bool Floats.
From SC Require Import Base.FloatUtil Base.Elem Base.Num C03.Model.
Import ListNotations.

Definition F : Ops float := FOps.
Definition nn := N.to_nat.

(* a matrix literal: rows, columns, column-major values *)
Definition M (n p : N) (v : list float) : dm float := mkdm (nn n) (nn p) v.

(* ---------- comparators ---------- *)
(* bit-exact: equal as floats and zeros of the same sign (1/x separates +0 from -0); NaN = NaN *)
Definition feqs (a b : float) : bool := feq a b && feq (PrimFloat.div 1%float a) (PrimFloat.div 1%float b).

Definition dm_eqb (eq : float -> float -> bool) (a b : dm float) : bool :=
  Nat.eqb (nrows a) (nrows b) && Nat.eqb (ncols a) (ncols b) && list_eqb eq (values a) (values b).

Definition c_dm (x e : option (dm float)) : bool := option_eqb (dm_eqb feqs) x e.
Definition c_dmz (x e : option (dm float)) : bool := option_eqb (dm_eqb feq) x e.
Definition c_dm_tol (tol : float) (x e : option (dm float)) : bool := option_eqb (dm_eqb (feq_tol tol)) x e.
(* in-place and copying variant of the implementation against the one model function *)
Definition c_dm2 (x e1 e2 : option (dm float)) : bool := c_dm x e1 && c_dm x e2.
Definition c_dm2_tol (tol : float) (x e1 e2 : option (dm float)) : bool := c_dm_tol tol x e1 && c_dm_tol tol x e2.

Definition c_f (x e : option float) : bool := option_eqb feqs x e.
Definition c_fz (x e : option float) : bool := option_eqb feq x e.
Definition c_f_tol (tol : float) (x e : option float) : bool := option_eqb (feq_tol tol) x e.
Definition c_l (x e : option (list float)) : bool := option_eqb (list_eqb feqs) x e.
Definition c_l_tol (tol : float) (x e : option (list float)) : bool := option_eqb (list_eqb (feq_tol tol)) x e.
Definition c_l2 (x e1 e2 : option (list float)) : bool := c_l x e1 && c_l x e2.
Definition c_l2_tol tol (x e1 e2 : option (list float)) : bool := c_l_tol tol x e1 && c_l_tol tol x e2.
Definition c_b (x e : bool) : bool := Bool.eqb x e.
Definition c_nl (x : list nat) (e : option (list N)) : bool := option_eqb nlist_eqb (Some (map N.of_nat x)) e.
Definition c_shape (x : nat * nat) (n p : N) : bool := Nat.eqb (fst x) (nn n) && Nat.eqb (snd x) (nn p).

(* ---------- the model at binary64, N arguments; total operations are wrapped in Some ---------- *)
Definition x_from_vec (n p : N) (vals : list float) := from_vec F (nn n) (nn p) vals.
Definition x_from_2d (rows : list (list float)) := from_2d_vec F rows.
Definition x_row_vector (v : list float) := Some (row_vector_from_vec v).
Definition x_column_vector (v : list float) := Some (column_vector_from_vec v).
Definition x_from_row_vector (v : list float) := Some (from_row_vector v).
Definition x_fill (n p : N) (v : float) := Some (fill (nn n) (nn p) v).
Definition x_zeros (n p : N) := Some (zeros F (nn n) (nn p)).
Definition x_ones (n p : N) := Some (ones F (nn n) (nn p)).
Definition x_eye (n : N) := Some (eye F (nn n)).

Definition x_get (m : dm float) (r c : N) := get_chk m (nn r) (nn c).
Definition x_set (m : dm float) (r c : N) (v : float) := set m (nn r) (nn c) v.
(* add/sub/mul/div_element_mut: which = 0,1,2,3 *)
Definition x_elem (which : N) (m : dm float) (r c : N) (x : float) :=
  let f := match which with
           | 0%N => fun v => PrimFloat.add v x
           | 1%N => fun v => PrimFloat.sub v x
           | 2%N => fun v => PrimFloat.mul v x
           | _ => fun v => PrimFloat.div v x
           end in
  upd_element F f m (nn r) (nn c).
Definition x_iter (m : dm float) := Some (row_major F m).
Definition x_to_row_vector (m : dm float) := Some (to_row_vector F m).
Definition x_get_row (m : dm float) (r : N) := get_row F m (nn r).
Definition x_get_col (m : dm float) (c : N) := get_col F m (nn c).
Definition x_copy_row (m : dm float) (r : N) (res : list float) := copy_row_as_vec F m (nn r) res.
Definition x_copy_col (m : dm float) (c : N) (res : list float) := copy_col_as_vec F m (nn c) res.

Definition x_transpose (m : dm float) := Some (transpose F m).
Definition x_v_stack := v_stack F.
Definition x_h_stack := h_stack F.
Definition x_slice (m : dm float) (r0 r1 c0 c1 : N) := slice F m (nn r0) (nn r1) (nn c0) (nn c1).
Definition x_reshape (m : dm float) (n p : N) := reshape F m (nn n) (nn p).
Definition x_copy_from (a b : dm float) := copy_from a b.
Definition x_take (m : dm float) (index : list N) (axis0 : bool) := take F m (map nn index) axis0.

Definition x_matmul := matmul F.
Definition x_ab := ab F.
Definition x_dot := dot F.

(* element-wise: which = 0 add, 1 sub, 2 mul, 3 div *)
Definition x_zip (which : N) (a b : dm float) :=
  match which with 0%N => add F a b | 1%N => sub F a b | 2%N => mul F a b | _ => div F a b end.
Definition x_scalar (which : N) (m : dm float) (x : float) :=
  Some (match which with
        | 0%N => add_scalar F m x | 1%N => sub_scalar F m x | 2%N => mul_scalar F m x | _ => div_scalar F m x
        end).
Definition x_negative (m : dm float) := Some (negative F m).
Definition x_abs (m : dm float) := Some (abs F m).
Definition x_pow (m : dm float) (p : float) := Some (pow F m p).              (* non-negative bases *)
Definition x_powg (m : dm float) (p : float) := Some (pow_with fpow m p).     (* any base, integer p *)
Definition x_binarize (m : dm float) (t : float) := Some (binarize F m t).

Definition x_approximate_eq := approximate_eq F.
Definition x_eq (eps : float) := eq_dm F eps.

Definition x_sum (m : dm float) := Some (sum F m).
(* max()/min() and the infinity norms fold from -inf / +inf: on an empty matrix that is what they return *)
Definition x_max (m : dm float) := Some (match max F m with Some v => v | None => neg_infinity end).
Definition x_min (m : dm float) := Some (match min F m with Some v => v | None => infinity end).
Definition x_norm2 (m : dm float) := Some (norm2 F m).
Definition x_norm_pinf (m : dm float) := Some (match norm_pinf F m with Some v => v | None => neg_infinity end).
Definition x_norm_ninf (m : dm float) := Some (match norm_ninf F m with Some v => v | None => infinity end).
Definition x_norm_p (m : dm float) (p : float) := Some (norm_p F m p).
Definition x_max_diff := max_diff F.
Definition x_column_mean (m : dm float) := Some (column_mean F m).
Definition x_argmax (m : dm float) := argmax F m.
Definition x_unique (m : dm float) := Some (unique F m).
Definition x_softmax := softmax F.

Definition x_mean (m : dm float) (axis0 : bool) := Some (mean F m axis0).
Definition x_var (m : dm float) (axis0 : bool) := Some (var F m axis0).
Definition x_std (m : dm float) (axis0 : bool) := Some (std F m axis0).
Definition x_scale := scale F.
Definition x_cov := cov F.

(* ---------- BaseVector for Vec<T> ---------- *)
Definition x_vdot := vdot F.
Definition x_vnorm2 (a : list float) := Some (vnorm2 F a).
Definition x_vnorm_p (a : list float) (p : float) := Some (vnorm_p F a p).
Definition x_vnorm_pinf (a : list float) := Some (match vnorm_pinf F a with Some v => v | None => neg_infinity end).
Definition x_vnorm_ninf (a : list float) := Some (match vnorm_ninf F a with Some v => v | None => infinity end).
Definition x_vzip (which : N) (a b : list float) :=
  match which with 0%N => vadd F a b | 1%N => vsub F a b | 2%N => vmul F a b | _ => vdiv F a b end.
Definition x_vscalar (which : N) (a : list float) (x : float) :=
  Some (match which with
        | 0%N => vadd_scalar F a x | 1%N => vsub_scalar F a x | 2%N => vmul_scalar F a x | _ => vdiv_scalar F a x
        end).
Definition x_vapprox_eq := vapprox_eq F.
Definition x_vsum (a : list float) := Some (vsum F a).
Definition x_vmean (a : list float) := Some (vmean F a).
Definition x_vvar (a : list float) := Some (vvar F a).
Definition x_vstd (a : list float) := Some (vstd F a).
Definition x_vtake (a : list float) (index : list N) := vtake F a (map nn index).
Definition x_vcopy_from (a b : list float) := vcopy_from a b.
Definition x_vunique (a : list float) := Some (vunique F a).
Definition x_vfill (n : N) (v : float) := Some (vfill (nn n) v).
