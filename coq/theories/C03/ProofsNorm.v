(* C03 — norms of vectors and matrices over R (vnorm_pinf / vnorm_ninf / vnorm_p, norm_p), the agreement of
   the matrix norm of from_row_vector v with the vector norm of v (for every scalar type), and max_diff. *)
From Coq Require Import List Arith Lia Reals Lra.
From SC Require Import Base.Num C03.Model C03.ProofsBase C03.ProofsRed C03.ProofsVec.
From SC Require C03.ProofsOrd.
Import ListNotations.
Local Open Scope R_scope.

Local Notation get := (Model.get ROps).

(* ================================================================================ *)
(* 1. the real power function of the model                                           *)
(* ================================================================================ *)

(* x^y for x >= 0, y <> 0, extended by 0^y = 0: what `opow` computes for a non-zero exponent
   (Rpower x y = exp (y * ln x) is the standard library's real power for x > 0) *)
Definition rpow (x y : R) : R := if Req_EM_T x 0 then 0 else Rpower x y.

Lemma opow_R a p : p <> 0 -> opow ROps a p = rpow a p.
Proof.
  intros Hp. unfold opow, rpow. cbn [oeqb o0 o1 oexp oln omul ROps].
  apply Reqb_false in Hp. rewrite Hp. unfold Reqb. destruct (Req_EM_T a 0); reflexivity.
Qed.
Lemma opow_R_0 a : opow ROps a 0 = 1.
Proof. unfold opow. cbn [oeqb o0 o1 ROps]. unfold Reqb. destruct (Req_EM_T 0 0); [reflexivity|congruence]. Qed.

Lemma rpow_nonneg x y : 0 <= rpow x y.
Proof. unfold rpow. destruct (Req_EM_T x 0); [lra|]. unfold Rpower. left. apply exp_pos. Qed.
Lemma rpow_zero_iff x y : rpow x y = 0 <-> x = 0.
Proof.
  unfold rpow. destruct (Req_EM_T x 0) as [E|E]; [tauto|]. split; [|tauto].
  intros H. exfalso. pose proof (exp_pos (y * ln x)) as Hp. unfold Rpower in H. lra.
Qed.
Lemma rpow_0_l y : rpow 0 y = 0.
Proof. apply rpow_zero_iff. reflexivity. Qed.
Lemma rpow_pos_Rpower x y : 0 < x -> rpow x y = Rpower x y.
Proof. intros H. unfold rpow. destruct (Req_EM_T x 0); [lra|reflexivity]. Qed.
(* natural exponents n >= 1: rpow is the ordinary power *)
Lemma rpow_INR x n : 0 <= x -> (0 < n)%nat -> rpow x (INR n) = x ^ n.
Proof.
  intros Hx Hn. destruct (Req_EM_T x 0) as [E|E].
  - subst x. rewrite rpow_0_l. symmetry. apply pow_i. exact Hn.
  - rewrite rpow_pos_Rpower by lra. apply Rpower_pow. lra.
Qed.
Lemma rpow_1 x : 0 <= x -> rpow x 1 = x.
Proof. intros Hx. change 1 with (INR 1). rewrite rpow_INR by (try lia; exact Hx). ring. Qed.
Lemma rpow_half x : 0 <= x -> rpow x (1 / 2) = sqrt x.
Proof.
  intros Hx. destruct (Req_EM_T x 0) as [E|E].
  - subst x. rewrite rpow_0_l, sqrt_0. reflexivity.
  - rewrite rpow_pos_Rpower by lra. replace (1 / 2) with (/ 2) by lra. apply Rpower_sqrt. lra.
Qed.

(* ================================================================================ *)
(* 2. sums of non-negative terms                                                     *)
(* ================================================================================ *)

Lemma rsum_nonneg_zero_iff n f : (forall i, (i < n)%nat -> 0 <= f i) ->
  (rsum n f = 0 <-> forall i, (i < n)%nat -> f i = 0).
Proof.
  induction n as [|n IH]; intros Hf.
  - split; [intros _ i Hi; lia|intros _; apply rsum_0].
  - rewrite rsum_S.
    assert (H1 : 0 <= rsum n f) by (apply rsum_nonneg; intros; apply Hf; lia).
    assert (H2 : 0 <= f n) by (apply Hf; lia).
    destruct (IH (fun i Hi => Hf i (Nat.lt_lt_succ_r _ _ Hi))) as [IH1 IH2].
    split.
    + intros H i Hi. destruct (Nat.eq_dec i n) as [->|Hne]; [lra|]. apply IH1; [lra|lia].
    + intros H. rewrite IH2 by (intros; apply H; lia). rewrite H by lia. lra.
Qed.

(* ================================================================================ *)
(* 3. vector norms                                                                   *)
(* ================================================================================ *)

Lemma In_map_Rabs_nth a x : In x (map Rabs a) <-> exists i, (i < length a)%nat /\ Rabs (nth i a 0) = x.
Proof.
  rewrite in_map_iff. split.
  - intros [y [Hy Hin]]. destruct (In_nth _ _ 0 Hin) as [i [Hi Hn]]. exists i. split; [exact Hi|]. rewrite Hn. exact Hy.
  - intros [i [Hi Hx]]. exists (nth i a 0). split; [exact Hx|]. apply nth_In. exact Hi.
Qed.

Lemma vnorm_inf_nil : vnorm_pinf ROps [] = None /\ vnorm_ninf ROps [] = None.
Proof. split; reflexivity. Qed.

(* +inf order: the largest absolute value: bounds every |v_i| and is attained *)
Lemma vnorm_pinf_spec a : a <> [] ->
  exists v, vnorm_pinf ROps a = Some v /\
    (forall i, (i < length a)%nat -> Rabs (nth i a 0) <= v) /\
    (exists i, (i < length a)%nat /\ Rabs (nth i a 0) = v).
Proof.
  intros Hne. unfold vnorm_pinf. cbn [oabs ROps].
  assert (Hne' : map Rabs a <> []) by (intros E; apply map_eq_nil in E; exact (Hne E)).
  destruct (fold1_omax_spec _ Hne') as [v [Hv [Hin Hub]]].
  exists v. split; [exact Hv|]. split.
  - intros i Hi. apply Hub. apply In_map_Rabs_nth. exists i. split; [exact Hi|reflexivity].
  - apply In_map_Rabs_nth. exact Hin.
Qed.

(* -inf order: the smallest absolute value *)
Lemma vnorm_ninf_spec a : a <> [] ->
  exists v, vnorm_ninf ROps a = Some v /\
    (forall i, (i < length a)%nat -> v <= Rabs (nth i a 0)) /\
    (exists i, (i < length a)%nat /\ Rabs (nth i a 0) = v).
Proof.
  intros Hne. unfold vnorm_ninf. cbn [oabs ROps].
  assert (Hne' : map Rabs a <> []) by (intros E; apply map_eq_nil in E; exact (Hne E)).
  destruct (fold1_omin_spec _ Hne') as [v [Hv [Hin Hlb]]].
  exists v. split; [exact Hv|]. split.
  - intros i Hi. apply Hlb. apply In_map_Rabs_nth. exists i. split; [exact Hi|reflexivity].
  - apply In_map_Rabs_nth. exact Hin.
Qed.

(* the attained bound is unique, so the two clauses determine the value *)
Lemma attained_max_unique n (f : nat -> R) v w :
  (forall i, (i < n)%nat -> f i <= v) -> (exists i, (i < n)%nat /\ f i = v) ->
  (forall i, (i < n)%nat -> f i <= w) -> (exists i, (i < n)%nat /\ f i = w) -> v = w.
Proof.
  intros Hv [i [Hi Ei]] Hw [j [Hj Ej]]. pose proof (Hv j Hj). pose proof (Hw i Hi). lra.
Qed.

(* finite order p <> 0 (in particular every p >= 1): (sum_i |v_i|^p)^(1/p), as the model computes it *)
Definition psum (n : nat) (f : nat -> R) (p : R) : R := rsum n (fun i => rpow (Rabs (f i)) p).

Lemma psum_nonneg n f p : 0 <= psum n f p.
Proof. apply rsum_nonneg. intros i _. apply rpow_nonneg. Qed.
Lemma psum_zero_iff n f p : psum n f p = 0 <-> forall i, (i < n)%nat -> f i = 0.
Proof.
  unfold psum. rewrite rsum_nonneg_zero_iff by (intros; apply rpow_nonneg).
  split; intros H i Hi.
  - specialize (H i Hi). apply rpow_zero_iff in H. destruct (Req_EM_T (f i) 0) as [E|E]; [exact E|].
    exfalso. exact (Rabs_no_R0 _ E H).
  - apply rpow_zero_iff. rewrite (H i Hi). apply Rabs_R0.
Qed.

Lemma vnorm_p_formula a p : p <> 0 ->
  vnorm_p ROps a p = rpow (psum (length a) (fun i => nth i a 0) p) (1 / p).
Proof.
  intros Hp. unfold vnorm_p. cbn [oabs oadd odiv o0 o1 ROps].
  assert (Hq : 1 / p <> 0) by (unfold Rdiv; rewrite Rmult_1_l; apply Rinv_neq_0_compat; exact Hp).
  rewrite opow_R by exact Hq. f_equal.
  rewrite (fold_left_sum_nth (fun x => opow ROps (Rabs x) p) a 0), Rplus_0_l.
  apply rsum_ext. intros i _. apply opow_R. exact Hp.
Qed.

Lemma vnorm_p_nonneg a p : p <> 0 -> 0 <= vnorm_p ROps a p.
Proof. intros Hp. rewrite vnorm_p_formula by exact Hp. apply rpow_nonneg. Qed.

Lemma vnorm_p_zero_iff a p : p <> 0 ->
  (vnorm_p ROps a p = 0 <-> forall i, (i < length a)%nat -> nth i a 0 = 0).
Proof.
  intros Hp. rewrite vnorm_p_formula by exact Hp. rewrite rpow_zero_iff. apply psum_zero_iff.
Qed.

(* natural orders n >= 1: ordinary powers; n = 1: the sum of absolute values; n = 2: the Euclidean norm *)
Lemma vnorm_p_nat a n : (0 < n)%nat ->
  vnorm_p ROps a (INR n) = rpow (rsum (length a) (fun i => Rabs (nth i a 0) ^ n)) (1 / INR n).
Proof.
  intros Hn. rewrite vnorm_p_formula by (apply not_0_INR; lia). f_equal.
  apply rsum_ext. intros i _. apply rpow_INR; [apply Rabs_pos|exact Hn].
Qed.
Lemma vnorm_p_1 a : vnorm_p ROps a 1 = rsum (length a) (fun i => Rabs (nth i a 0)).
Proof.
  change 1 with (INR 1) at 1. rewrite vnorm_p_nat by lia. cbn [INR]. replace (1 / 1) with 1 by lra.
  rewrite rpow_1.
  - apply rsum_ext. intros i _. ring.
  - apply rsum_nonneg. intros i _. rewrite pow_1. apply Rabs_pos.
Qed.
Lemma vnorm_p_2 a : vnorm_p ROps a 2 = vnorm2 ROps a.
Proof.
  change 2 with (INR 2) at 1. rewrite vnorm_p_nat by lia. rewrite vnorm2_def.
  change (INR 2) with 2. rewrite rpow_half.
  - f_equal. apply rsum_ext. intros i _. apply pow2_abs.
  - apply rsum_nonneg. intros i _. apply pow2_ge_0.
Qed.

Local Ltac rabs_num := unfold Rabs; match goal with |- context [Rcase_abs ?x] => destruct (Rcase_abs x) end; lra.

Example vnorm_ex :
  vnorm_pinf ROps [-7; 2] = Some 7 /\ vnorm_ninf ROps [1; -5; 3] = Some 1 /\
  vnorm_p ROps [3; -4] 1 = 7 /\ vnorm_p ROps [3; -4] 2 = 5.
Proof.
  assert (A7 : Rabs (-7) = 7) by rabs_num. assert (A2 : Rabs 2 = 2) by rabs_num.
  assert (A1 : Rabs 1 = 1) by rabs_num. assert (A5 : Rabs (-5) = 5) by rabs_num.
  assert (A3 : Rabs 3 = 3) by rabs_num. assert (A4 : Rabs (-4) = 4) by rabs_num.
  split; [|split; [|split]].
  - destruct (vnorm_pinf_spec [-7; 2]) as [v [Hv [Hub [i [Hi Ei]]]]]; [discriminate|]. rewrite Hv. f_equal.
    pose proof (Hub 0%nat) as H0. cbn [length nth] in *. rewrite A7 in H0.
    assert (7 <= v) by (apply H0; lia).
    destruct i as [|[|i]]; cbn [nth] in Ei; try lia; rewrite ?A7, ?A2 in Ei; lra.
  - destruct (vnorm_ninf_spec [1; -5; 3]) as [v [Hv [Hlb [i [Hi Ei]]]]]; [discriminate|]. rewrite Hv. f_equal.
    pose proof (Hlb 0%nat) as H0. cbn [length nth] in *. rewrite A1 in H0.
    assert (v <= 1) by (apply H0; lia).
    destruct i as [|[|[|i]]]; cbn [nth] in Ei; try lia; rewrite ?A1, ?A5, ?A3 in Ei; lra.
  - rewrite vnorm_p_1. unfold rsum. cbn [length osumn nth oadd o0 ROps]. rewrite A3, A4. lra.
  - rewrite vnorm_p_2, vnorm2_def. unfold rsum. cbn [length osumn nth oadd o0 ROps].
    replace (0 + 3 ^ 2 + (-4) ^ 2) with (5 * 5) by lra. apply sqrt_square. lra.
Qed.

(* ================================================================================ *)
(* 4. matrix norm_p on the logical view; twin agreement                              *)
(* ================================================================================ *)

Lemma norm_p_view m p : wf m -> p <> 0 ->
  norm_p ROps m p
  = rpow (rsum (nrows m) (fun r => rsum (ncols m) (fun c => rpow (Rabs (get m r c)) p))) (1 / p).
Proof.
  intros Hwf Hp. unfold norm_p. cbn [oabs oadd odiv o0 o1 ROps].
  assert (Hq : 1 / p <> 0) by (unfold Rdiv; rewrite Rmult_1_l; apply Rinv_neq_0_compat; exact Hp).
  rewrite opow_R by exact Hq. f_equal.
  rewrite (values_sum_view (fun x => opow ROps (Rabs x) p) m Hwf).
  apply rsum_ext. intros r _. apply rsum_ext. intros c _. apply opow_R. exact Hp.
Qed.

Lemma norm_p_transpose m p : wf m -> p <> 0 -> norm_p ROps (transpose ROps m) p = norm_p ROps m p.
Proof.
  intros Hwf Hp. rewrite (norm_p_view (transpose ROps m)) by (try apply transpose_shape; exact Hp).
  rewrite (norm_p_view m) by assumption. f_equal.
  change (nrows (transpose ROps m)) with (ncols m). change (ncols (transpose ROps m)) with (nrows m).
  etransitivity; [|exact (rsum_swap (ncols m) (nrows m) (fun c r => rpow (Rabs (get m r c)) p))].
  apply rsum_ext. intros r Hr. apply rsum_ext. intros c Hc.
  rewrite get_transpose by assumption. reflexivity.
Qed.

Section Twin.
  Context {T : Type} (K : Ops T).
  (* The matrix norm of the 1 x n matrix built from v (and of the n x 1 column, and of row_vector_from_vec) IS
     the vector norm of v, for each of the three orders the code distinguishes (+inf, -inf, finite p) and
     for norm2 — as exact equality of the two computations, for every scalar type (so also in binary64). *)
  Lemma norm_twin (v : list T) (p : T) :
    norm_p K (from_row_vector v) p = vnorm_p K v p /\
    norm_pinf K (from_row_vector v) = vnorm_pinf K v /\
    norm_ninf K (from_row_vector v) = vnorm_ninf K v /\
    norm2 K (from_row_vector v) = vnorm2 K v /\
    norm_p K (column_vector_from_vec v) p = vnorm_p K v p /\
    norm_pinf K (column_vector_from_vec v) = vnorm_pinf K v /\
    norm_ninf K (column_vector_from_vec v) = vnorm_ninf K v /\
    norm2 K (column_vector_from_vec v) = vnorm2 K v.
  Proof. repeat split. Qed.
End Twin.

(* the same in terms of values over R: both members of the twin are the extremum of |v_j| over the entries
   of v — the vector read through nth, the matrix through its logical view (0, j) *)
Lemma norm_twin_R (v : list R) : v <> [] ->
  exists hi lo,
    vnorm_pinf ROps v = Some hi /\ norm_pinf ROps (from_row_vector v) = Some hi /\
    vnorm_ninf ROps v = Some lo /\ norm_ninf ROps (from_row_vector v) = Some lo /\
    (forall j, (j < length v)%nat -> lo <= Rabs (nth j v 0) <= hi) /\
    (forall j, (j < length v)%nat -> lo <= Rabs (get (from_row_vector v) 0 j) <= hi) /\
    (exists j, (j < length v)%nat /\ Rabs (nth j v 0) = hi /\ Rabs (get (from_row_vector v) 0 j) = hi) /\
    (exists j, (j < length v)%nat /\ Rabs (nth j v 0) = lo /\ Rabs (get (from_row_vector v) 0 j) = lo).
Proof.
  intros Hne.
  destruct (vnorm_pinf_spec v Hne) as [hi [Hhi [Hub [jh [Hjh Ejh]]]]].
  destruct (vnorm_ninf_spec v Hne) as [lo [Hlo [Hlb [jl [Hjl Ejl]]]]].
  assert (Hg : forall j, get (from_row_vector v) 0 j = nth j v 0).
  { intros j. destruct (from_row_vector_spec ROps v) as [_ [_ [_ [H _]]]]. exact (H j). }
  exists hi, lo. split; [exact Hhi|]. split; [exact Hhi|]. split; [exact Hlo|]. split; [exact Hlo|].
  split; [intros j Hj; split; [apply Hlb|apply Hub]; exact Hj|].
  split; [intros j Hj; rewrite Hg; split; [apply Hlb|apply Hub]; exact Hj|].
  split; [exists jh; rewrite Hg; repeat split; assumption|exists jl; rewrite Hg; repeat split; assumption].
Qed.

(* ================================================================================ *)
(* 5. max_diff                                                                       *)
(* ================================================================================ *)

Definition adiff (a b : dm R) (i : nat) : R := Rabs (nth i (values a) 0 - nth i (values b) 0).

Lemma fold_left_map_acc {A B : Type} (f : A -> B -> A) (g : nat -> B) l a :
  fold_left (fun acc i => f acc (g i)) l a = fold_left f (map g l) a.
Proof. revert a. induction l as [|x l IH]; intros a; [reflexivity|]. cbn [map fold_left]. apply IH. Qed.

Lemma max_diff_unfold a b : nrows a = nrows b -> ncols a = ncols b -> (length (values a) <= length (values b))%nat ->
  max_diff ROps a b = Some (fold_left (omax ROps) (map (adiff a b) (seq 0 (length (values a)))) 0).
Proof.
  intros Hr Hc Hl. unfold max_diff.
  apply Nat.eqb_eq in Hr. apply Nat.eqb_eq in Hc. rewrite Hr, Hc. cbn [andb negb].
  apply Nat.ltb_ge in Hl. rewrite Hl. f_equal.
  exact (fold_left_map_acc (omax ROps) (adiff a b) _ 0).
Qed.

Lemma max_diff_none_iff a b : wf a -> wf b ->
  (max_diff ROps a b = None <-> (nrows a <> nrows b \/ ncols a <> ncols b)).
Proof.
  intros Ha Hb. unfold max_diff.
  destruct (Nat.eqb_spec (nrows a) (nrows b)) as [Er|Er]; cbn [andb negb].
  - destruct (Nat.eqb_spec (ncols a) (ncols b)) as [Ec|Ec]; cbn [negb].
    + assert (Hl : (length (values b) <? length (values a))%nat = false).
      { apply Nat.ltb_ge. unfold wf in Ha, Hb. rewrite Ha, Hb, Er, Ec. lia. }
      rewrite Hl. split; [discriminate|]. intros [H|H]; contradiction.
    + split; [intros _; right; exact Ec|reflexivity].
  - split; [intros _; left; exact Er|reflexivity].
Qed.

(* linear storage index <-> logical position *)
Lemma storage_index m i : wf m -> (i < nrows m * ncols m)%nat ->
  (i mod nrows m < nrows m)%nat /\ (i / nrows m < ncols m)%nat /\
  nth i (values m) 0 = get m (i mod nrows m) (i / nrows m).
Proof.
  intros Hwf Hi.
  assert (Hn : nrows m <> 0%nat) by (intros E; rewrite E in Hi; lia).
  pose proof (Nat.div_mod i (nrows m) Hn) as Hdm.
  pose proof (Nat.mod_upper_bound i (nrows m) Hn) as Hmod.
  assert (Hdiv : (i / nrows m < ncols m)%nat) by (apply Nat.div_lt_upper_bound; lia).
  split; [exact Hmod|]. split; [exact Hdiv|]. unfold Model.get. f_equal. lia.
Qed.

Lemma max_diff_spec a b : wf a -> wf b -> nrows a = nrows b -> ncols a = ncols b ->
  exists d, max_diff ROps a b = Some d /\ 0 <= d /\
    (forall r c, (r < nrows a)%nat -> (c < ncols a)%nat -> Rabs (get a r c - get b r c) <= d) /\
    ((0 < nrows a * ncols a)%nat ->
       exists r c, (r < nrows a)%nat /\ (c < ncols a)%nat /\ Rabs (get a r c - get b r c) = d) /\
    ((nrows a * ncols a = 0)%nat -> d = 0).
Proof.
  intros Ha Hb Er Ec.
  assert (Hl : length (values a) = length (values b)) by (unfold wf in Ha, Hb; rewrite Ha, Hb, Er, Ec; reflexivity).
  rewrite (max_diff_unfold a b Er Ec) by lia.
  set (l := map (adiff a b) (seq 0 (length (values a)))).
  destruct (fold_left_omax_spec l 0) as [[H1 H2] H3].
  eexists. split; [reflexivity|]. split; [exact H1|]. split; [|split].
  - intros r c Hr Hc. apply H2. unfold l. apply in_map_iff.
    exists (c * nrows a + r)%nat. split.
    + unfold adiff, Model.get. rewrite <- Er. reflexivity.
    + apply in_seq. unfold wf in Ha. rewrite Ha. nia.
  - intros Hpos.
    assert (Hin : forall x, In x l ->
              exists r c, (r < nrows a)%nat /\ (c < ncols a)%nat /\ Rabs (get a r c - get b r c) = x).
    { intros x Hx. unfold l in Hx. apply in_map_iff in Hx. destruct Hx as [i [Hx Hi]].
      apply in_seq in Hi. unfold wf in Ha. rewrite Ha in Hi.
      destruct (storage_index a i Ha) as [Hm [Hd Hga]]; [lia|].
      destruct (storage_index b i Hb) as [_ [_ Hgb]]; [rewrite <- Er, <- Ec; lia|].
      exists (i mod nrows a)%nat, (i / nrows a)%nat. split; [exact Hm|]. split; [exact Hd|].
      rewrite <- Hx. unfold adiff. rewrite Hga, Hgb, Er. reflexivity. }
    destruct H3 as [H3|H3]; [|apply Hin; exact H3].
    (* the fold stayed at 0: every difference is 0, and there is at least one entry *)
    rewrite H3. exists 0%nat, 0%nat. split; [nia|]. split; [nia|].
    assert (Hle : Rabs (get a 0 0 - get b 0 0) <= 0).
    { rewrite <- H3. apply H2. unfold l. apply in_map_iff. exists 0%nat. split.
      - unfold adiff, Model.get. rewrite <- Er. reflexivity.
      - apply in_seq. unfold wf in Ha. rewrite Ha. lia. }
    pose proof (Rabs_pos (get a 0 0 - get b 0 0)). lra.
  - intros H0. unfold l. unfold wf in Ha. rewrite Ha, H0. reflexivity.
Qed.

Lemma max_diff_sym a b : wf a -> wf b -> max_diff ROps a b = max_diff ROps b a.
Proof.
  intros Ha Hb.
  destruct (Nat.eq_dec (nrows a) (nrows b)) as [Er|Er]; [destruct (Nat.eq_dec (ncols a) (ncols b)) as [Ec|Ec]|].
  - assert (Hl : length (values a) = length (values b)) by (unfold wf in Ha, Hb; rewrite Ha, Hb, Er, Ec; reflexivity).
    rewrite (max_diff_unfold a b Er Ec) by lia.
    rewrite (max_diff_unfold b a (eq_sym Er) (eq_sym Ec)) by lia.
    rewrite Hl. do 2 f_equal. apply map_ext. intros i. unfold adiff. apply Rabs_minus_sym.
  - transitivity (@None R); [|symmetry]; apply max_diff_none_iff; auto.
  - transitivity (@None R); [|symmetry]; apply max_diff_none_iff; auto.
Qed.

Lemma max_diff_zero_iff a b d : wf a -> wf b -> max_diff ROps a b = Some d -> (d = 0 <-> a = b).
Proof.
  intros Ha Hb Hd.
  destruct (Nat.eq_dec (nrows a) (nrows b)) as [Er|Er];
    [destruct (Nat.eq_dec (ncols a) (ncols b)) as [Ec|Ec]|].
  - destruct (max_diff_spec a b Ha Hb Er Ec) as [d' [Hd' [Hpos [Hub [Hatt Hemp]]]]].
    rewrite Hd in Hd'. injection Hd' as <-. split.
    + intros E. apply (dm_ext ROps a b Ha Hb Er Ec). intros r c Hr Hc.
      pose proof (Hub r c Hr Hc) as H. rewrite E in H.
      pose proof (Rabs_pos (get a r c - get b r c)) as Hp.
      assert (Hz : Rabs (get a r c - get b r c) = 0) by lra.
      destruct (Req_EM_T (get a r c - get b r c) 0) as [E0|E0]; [lra|].
      exfalso. exact (Rabs_no_R0 _ E0 Hz).
    + intros E. subst b. destruct (Nat.eq_dec (nrows a * ncols a) 0) as [E0|E0]; [apply Hemp; exact E0|].
      destruct Hatt as [r [c [_ [_ H]]]]; [lia|]. rewrite <- H.
      replace (get a r c - get a r c) with 0 by ring. apply Rabs_R0.
  - exfalso. assert (H : max_diff ROps a b = None) by (apply max_diff_none_iff; auto). congruence.
  - exfalso. assert (H : max_diff ROps a b = None) by (apply max_diff_none_iff; auto). congruence.
Qed.

Example max_diff_ex :
  max_diff ROps ex23 (transpose ROps ex23) = None /\
  max_diff ROps ex23 ex23 = Some 0 /\
  exists d, max_diff ROps ex23 (mkdm 2 3 [1; 4; 2; 8; 3; 5]) = Some d /\ d = 3.
Proof.
  split; [reflexivity|]. split.
  - destruct (max_diff_spec ex23 ex23 ex23_wf ex23_wf eq_refl eq_refl) as [d [Hd _]].
    rewrite Hd. f_equal. apply (max_diff_zero_iff ex23 ex23 d ex23_wf ex23_wf Hd). reflexivity.
  - assert (Hwf : wf (mkdm 2 3 [1; 4; 2; 8; 3; 5])) by reflexivity.
    destruct (max_diff_spec ex23 _ ex23_wf Hwf eq_refl eq_refl) as [d [Hd [_ [Hub [Hatt _]]]]].
    exists d. split; [exact Hd|].
    assert (H3 : 3 <= d).
    { specialize (Hub 1%nat 1%nat). unfold Model.get in Hub. cbn [nrows ncols values ex23 nth Nat.mul Nat.add] in Hub.
      assert (A : Rabs (5 - 8) = 3) by rabs_num. rewrite A in Hub. apply Hub; lia. }
    destruct Hatt as [r [c [Hr [Hc E]]]]; [cbn; lia|]. cbn in Hr, Hc.
    assert (Hle : d <= 3).
    { rewrite <- E. unfold Model.get. cbn [nrows values ex23].
      destruct r as [|[|r]]; [| |lia]; (destruct c as [|[|[|c]]]; [| | |lia]); cbn [nth Nat.mul Nat.add];
        apply Rabs_le; lra. }
    lra.
Qed.

(* ================================================================================ *)
(* 6. the matrix norms agree with the vector norms of the row-major flattening       *)
(* ================================================================================ *)

Lemma In_values_row_major m x : wf m -> (In x (values m) <-> In x (row_major ROps m)).
Proof.
  intros Hwf. rewrite (ProofsOrd.In_row_major_get ROps m x). split.
  - apply in_values_get. exact Hwf.
  - intros [r [c [Hr [Hc E]]]]. rewrite <- E. apply get_in_values; assumption.
Qed.

Lemma row_major_nil_iff m : wf m -> (values m = [] <-> row_major ROps m = []).
Proof.
  intros Hwf. pose proof (row_major_length ROps m) as Hl. unfold wf in Hwf. split; intros E.
  - rewrite E in Hwf. cbn [length] in Hwf. destruct (row_major ROps m); [reflexivity|cbn [length] in Hl; lia].
  - rewrite E in Hl. cbn [length] in Hl. destruct (values m); [reflexivity|cbn [length] in Hwf; lia].
Qed.

Lemma rsum_row_major (h : R -> R) m :
  rsum (length (row_major ROps m)) (fun i => h (nth i (row_major ROps m) 0))
  = rsum (nrows m) (fun r => rsum (ncols m) (fun c => h (get m r c))).
Proof.
  rewrite row_major_length, rsum_mul. apply rsum_ext. intros r Hr. apply rsum_ext. intros c Hc.
  f_equal. exact (nth_row_major ROps m r c Hr Hc).
Qed.

(* DenseMatrix::norm(p) = Vec::norm(p) of to_row_vector, although one walks the column-major storage and the
   other the row-major flattening *)
Lemma norm_flatten_twin m p : wf m ->
  norm_pinf ROps m = vnorm_pinf ROps (to_row_vector ROps m) /\
  norm_ninf ROps m = vnorm_ninf ROps (to_row_vector ROps m) /\
  (p <> 0 -> norm_p ROps m p = vnorm_p ROps (to_row_vector ROps m) p) /\
  norm2 ROps m = vnorm2 ROps (to_row_vector ROps m).
Proof.
  intros Hwf. unfold to_row_vector.
  assert (Hin : forall x, In x (map Rabs (values m)) <-> In x (map Rabs (row_major ROps m))).
  { intros x. rewrite !in_map_iff. split; intros [y [Hy Hi]]; exists y; (split; [exact Hy|]);
      apply (In_values_row_major m y Hwf); exact Hi. }
  split; [|split; [|split]].
  - unfold norm_pinf, vnorm_pinf. cbn [oabs ROps]. destruct (values m) as [|x0 l0] eqn:Ev.
    + apply (row_major_nil_iff m Hwf) in Ev. rewrite Ev. reflexivity.
    + assert (N1 : map Rabs (x0 :: l0) <> []) by discriminate.
      assert (N2 : map Rabs (row_major ROps m) <> []).
      { intros E. apply map_eq_nil in E. apply (row_major_nil_iff m Hwf) in E. congruence. }
      destruct (fold1_omax_spec _ N1) as [v [Hv [Iv Bv]]]. destruct (fold1_omax_spec _ N2) as [w [Hw [Iw Bw]]].
      rewrite Hv, Hw. f_equal. apply Hin in Iv as Iv'. apply Hin in Iw as Iw'.
      pose proof (Bw v Iv'). pose proof (Bv w Iw'). lra.
  - unfold norm_ninf, vnorm_ninf. cbn [oabs ROps]. destruct (values m) as [|x0 l0] eqn:Ev.
    + apply (row_major_nil_iff m Hwf) in Ev. rewrite Ev. reflexivity.
    + assert (N1 : map Rabs (x0 :: l0) <> []) by discriminate.
      assert (N2 : map Rabs (row_major ROps m) <> []).
      { intros E. apply map_eq_nil in E. apply (row_major_nil_iff m Hwf) in E. congruence. }
      destruct (fold1_omin_spec _ N1) as [v [Hv [Iv Bv]]]. destruct (fold1_omin_spec _ N2) as [w [Hw [Iw Bw]]].
      rewrite Hv, Hw. f_equal. apply Hin in Iv as Iv'. apply Hin in Iw as Iw'.
      pose proof (Bw v Iv'). pose proof (Bv w Iw'). lra.
  - intros Hp. rewrite (norm_p_view m p Hwf Hp), (vnorm_p_formula _ p Hp). f_equal. unfold psum.
    symmetry. exact (rsum_row_major (fun x => rpow (Rabs x) p) m).
  - rewrite (norm2_view m Hwf), vnorm2_def. f_equal. symmetry. exact (rsum_row_major (fun x => x ^ 2) m).
Qed.
