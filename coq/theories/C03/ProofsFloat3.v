(* Rounding-error theorems for MatrixStats::var / std in binary64 (the FOps instance of SC.C03.Model.var,
   the ONE-PASS formula  sum x^2 / n - (sum x / n)^2  exactly as the code has it), on top of
   Base/FloatError.v, C03/ProofsFloat.v and C03/ProofsFloat2.v.

   The point: the computed variance is accurate RELATIVE TO THE SECOND MOMENT Q/n = var + mean^2, not
   relative to the variance.  With n the line length (n < 2^53 so that n converts exactly), x_j the
   real values of the entries, Q = sum x_j^2, S = sum x_j, A = sum |x_j|, u = 2^-53, eta = 2^-1075,
   and a finite result (the only no-overflow hypothesis):

     | fl(var) - (Q/n - (S/n)^2) |  <=  ((1+u)^(n+2) - 1) * Q/n  +  ((1+u)^(2n+2) - 1) * (A/n)^2
                                        +  (1+u)^(n+2) * (2 A/n + 4) * eta                (var_float_error)
     (A/n)^2 <= Q/n  (Cauchy-Schwarz), so for n < 2^50:
     | fl(var) - var |  <=  (4n+6) u * Q/n + (3 A/n + 6) eta                              (var_float_error_lin)
     | fl(var) - var | / var  <=  (4n+6) u * (1 + mean^2/var) + (3 A/n + 6) eta / var     (var_condition_number)

   1 + mean^2/var is the condition number of the one-pass formula: this is the theorem behind the known
   finding matrix-var-cancellation (column 1e8 + {0,1,2,3}: mean^2/var = 8e15, the bound allows a
   relative error of 19, the computed value 2.0 instead of 1.25 is inside it), and it shows that data
   with |mean| <= spread (mean^2 <= var) get relative accuracy 2 (4n+6) u.
   std = sqrt(var) adds one rounding: relative error u + (1+u) r when the variance has relative error r. *)
From Coq Require Import List Arith ZArith Bool Reals Floats Lra Lia Psatz.
From Flocq Require Import Core.
From SC Require Import Base.FloatUtil Base.Num Base.FloatError.
From SC Require C03.Model C03.ProofsBase C03.ProofsRed C03.ProofsFloat C03.ProofsFloat2.
Import ListNotations.
Local Open Scope R_scope.

Import SC.C03.ProofsFloat SC.C03.ProofsFloat2.
Module M := SC.C03.Model.
Module PB := SC.C03.ProofsBase.
Module PR := SC.C03.ProofsRed.

(* ---------------- (1+u)^k - 1 in first order ---------------- *)
Lemma Eu_le_frac k : INR k * u64 < 1 -> Eu k <= INR k * u64 / (1 - INR k * u64).
Proof.
  intros H. pose proof u64_pos as Hu.
  assert (G : (1 + u64) ^ k * (1 - INR k * u64) <= 1).
  { clear H. induction k as [|k IH]; [cbn; lra|].
    rewrite S_INR. cbn [pow]. pose proof (pow_le (1 + u64) k ltac:(lra)) as Hp.
    pose proof (pos_INR k) as Hk.
    replace ((1 + u64) * (1 + u64) ^ k * (1 - (INR k + 1) * u64))
      with ((1 + u64) ^ k * (1 - INR k * u64) - (1 + u64) ^ k * ((INR k + 1) * u64 * u64)) by ring.
    assert (0 <= (1 + u64) ^ k * ((INR k + 1) * u64 * u64)) by (apply Rmult_le_pos; nra). lra. }
  unfold Eu. apply (Rmult_le_reg_r (1 - INR k * u64)); [lra|].
  unfold Rdiv. rewrite Rmult_assoc, Rinv_l by lra. lra.
Qed.

Lemma Eu_le_lin k : INR k * u64 <= / 4 -> Eu k <= 4 / 3 * (INR k * u64).
Proof.
  intros H. pose proof u64_pos as Hu. pose proof (pos_INR k) as Hk.
  eapply Rle_trans; [apply Eu_le_frac; lra|].
  assert (0 <= INR k * u64) by nra.
  apply (Rmult_le_reg_r (1 - INR k * u64)); [lra|].
  unfold Rdiv. rewrite Rmult_assoc, Rinv_l by lra. nra.
Qed.

Lemma eta64_le_1 : eta64 <= 1.
Proof. unfold eta64. change 1 with (bpow radix2 0). apply bpow_le. lia. Qed.

(* ---------------- Cauchy-Schwarz: (mean of magnitudes)^2 <= mean of squares ---------------- *)
Lemma sumsq_shift_nonneg {A} (g : A -> R) (l : list A) (t : R) :
  0 <= Rsuml (map (fun k => g k * g k) l) - 2 * t * Rsumabs (map g l) + INR (length l) * (t * t).
Proof.
  induction l as [|k l IH].
  - cbn. lra.
  - cbn [map Rsuml Rsumabs fold_right length]. fold (Rsuml (map (fun k => g k * g k) l)) (Rsumabs (map g l)).
    rewrite S_INR.
    assert (g k * g k = Rabs (g k) * Rabs (g k)).
    { unfold Rabs. destruct (Rcase_abs (g k)); ring. }
    pose proof (Rle_0_sqr (Rabs (g k) - t)) as Hs. unfold Rsqr in Hs. nra.
Qed.

Lemma mean_abs_sq_le {A} (g : A -> R) (l : list A) : (0 < length l)%nat ->
  let N := INR (length l) in
  (Rsumabs (map g l) / N) * (Rsumabs (map g l) / N) <= Rsuml (map (fun k => g k * g k) l) / N.
Proof.
  intros Hl N. assert (HN : 0 < N) by (apply lt_0_INR; exact Hl).
  pose proof (sumsq_shift_nonneg g l (Rsumabs (map g l) / N)) as H. fold N in H.
  set (s := Rsumabs (map g l)) in *. set (q := Rsuml (map (fun k => g k * g k) l)) in *.
  assert (E : q - 2 * (s / N) * s + N * (s / N * (s / N)) = q - s / N * s) by (field; lra).
  rewrite E in H.
  replace (s / N * (s / N)) with ((s / N * s) / N) by (field; lra).
  unfold Rdiv at 1 3. apply Rmult_le_compat_r; [left; apply Rinv_0_lt_compat; exact HN | lra].
Qed.

Lemma mean_le_mean_abs (v : list R) (N : R) : 0 < N -> Rabs (Rsuml v / N) <= Rsumabs v / N.
Proof.
  intros HN. unfold Rdiv. rewrite Rabs_mult, (Rabs_pos_eq (/ N)) by (left; apply Rinv_0_lt_compat; exact HN).
  apply Rmult_le_compat_r; [left; apply Rinv_0_lt_compat; exact HN | apply Rsuml_le_Rsumabs].
Qed.

(* ---------------- the chain of roundings, on real numbers ---------------- *)
Lemma Eu_S' n : Eu (S n) = (1 + Eu n) * (1 + u64) - 1.
Proof. unfold Eu. cbn [pow]. ring. Qed.
Lemma Eu_n2 n : Eu (n + 2) = (1 + Eu n) * (1 + u64) * (1 + u64) - 1.
Proof. unfold Eu. rewrite pow_add. cbn [pow]. ring. Qed.
Lemma Eu_2n2 n : Eu (2 * n + 2) = (1 + Eu n) * (1 + Eu n) * (1 + u64) * (1 + u64) - 1.
Proof. unfold Eu. replace (2 * n + 2)%nat with (n + n + 2)%nat by lia. rewrite !pow_add. cbn [pow]. ring. Qed.

(* mu ~ Mr (the mean), q ~ Qn (the mean of squares), p = fl(mu*mu), v = fl(q - p) *)
Lemma var_chain (n : nat) (Qn a Mr mu q p v : R) :
  0 <= a -> Rabs Mr <= a -> a * a <= Qn ->
  Rabs (mu - Mr) <= Eu n * a + eta64 ->
  Rabs (q - Qn) <= Eu (S n) * (Qn + eta64) + 2 * eta64 ->
  Rabs (p - mu * mu) <= u64 * Rabs (mu * mu) + eta64 ->
  Rabs (v - (q - p)) <= u64 * Rabs (q - p) ->
  Rabs (v - (Qn - Mr * Mr)) <=
    Eu (n + 2) * Qn + Eu (2 * n + 2) * (a * a) + (1 + Eu (n + 2)) * (2 * a + 4) * eta64.
Proof.
  intros Ha HM Hcs Hmu Hq Hp Hv.
  pose proof u64_pos as Hu. pose proof eta64_pos as He. pose proof eta64_le_1 as He1.
  pose proof (Eu_nonneg n) as Hen.
  set (e := Eu n) in *. set (h := eta64) in *. set (u := u64) in *.
  set (d := e * a + h) in *.
  assert (Hd : 0 <= d) by (unfold d; nra).
  assert (HM2 : Mr * Mr <= a * a).
  { rewrite <- (Rabs_pos_eq (Mr * Mr)) by nra. rewrite Rabs_mult. pose proof (Rabs_pos Mr). nra. }
  (* A: the square of the computed mean *)
  assert (Hmua : Rabs mu <= a + d).
  { replace mu with ((mu - Mr) + Mr) by ring. eapply Rle_trans; [apply Rabs_triang|]. lra. }
  assert (Hmm : Rabs (mu * mu) <= (a + d) * (a + d)).
  { rewrite Rabs_mult. pose proof (Rabs_pos mu). nra. }
  assert (HA : Rabs (mu * mu - Mr * Mr) <= d * (2 * a + d)).
  { replace (mu * mu - Mr * Mr) with ((mu - Mr) * (mu + Mr)) by ring. rewrite Rabs_mult.
    assert (Rabs (mu + Mr) <= 2 * a + d) by (eapply Rle_trans; [apply Rabs_triang|]; lra).
    pose proof (Rabs_pos (mu - Mr)). pose proof (Rabs_pos (mu + Mr)). nra. }
  set (errp := (1 + u) * ((a + d) * (a + d)) - a * a + h).
  assert (HB : Rabs (p - Mr * Mr) <= errp).
  { replace (p - Mr * Mr) with ((p - mu * mu) + (mu * mu - Mr * Mr)) by ring.
    eapply Rle_trans; [apply Rabs_triang|]. unfold errp. nra. }
  set (errq := Eu (S n) * (Qn + h) + 2 * h) in *.
  (* D: the exact difference and the computed operands *)
  assert (HD : Rabs ((q - p) - (Qn - Mr * Mr)) <= errq + errp).
  { replace ((q - p) - (Qn - Mr * Mr)) with ((q - Qn) - (p - Mr * Mr)) by ring.
    eapply Rle_trans; [apply Rabs_triang|]. rewrite Rabs_Ropp. lra. }
  assert (HV : Rabs (Qn - Mr * Mr) <= Qn).
  { apply Rabs_le. split; nra. }
  assert (Hqp : Rabs (q - p) <= Qn + errq + errp).
  { replace (q - p) with (((q - p) - (Qn - Mr * Mr)) + (Qn - Mr * Mr)) by ring.
    eapply Rle_trans; [apply Rabs_triang|]. lra. }
  assert (HE : Rabs (v - (Qn - Mr * Mr)) <= u * Qn + (1 + u) * (errq + errp)).
  { replace (v - (Qn - Mr * Mr)) with ((v - (q - p)) + ((q - p) - (Qn - Mr * Mr))) by ring.
    eapply Rle_trans; [apply Rabs_triang|]. nra. }
  eapply Rle_trans; [exact HE|].
  unfold errq, errp, d. rewrite Eu_S', Eu_n2, Eu_2n2. fold e u h.
  set (G := 1 + e). set (U := 1 + u).
  assert (HG : 1 <= G) by (unfold G; lra). assert (HU : 1 <= U) by (unfold U; lra).
  assert (Hid : (G * U * U - 1) * Qn + (G * G * U * U - 1) * (a * a) + (1 + (G * U * U - 1)) * (2 * a + 4) * h
                - (u * Qn + U * ((G * U - 1) * (Qn + h) + 2 * h + (U * ((a + (e * a + h)) * (a + (e * a + h))) - a * a + h)))
                = a * a * u + h * (3 * G * U * U - 2 * U - U * U * h)).
  { unfold G, U. ring. }
  assert (Hpos : 0 <= 3 * G * U * U - 2 * U - U * U * h).
  { assert (U * U <= G * U * U) by nra. assert (U <= U * U) by nra.
    assert (U * U * h <= U * U) by nra. nra. }
  assert (0 <= a * a * u) by nra.
  assert (0 <= h * (3 * G * U * U - 2 * U - U * U * h)) by (apply Rmult_le_pos; lra).
  lra.
Qed.

(* ---------------- one line of MatrixStats::var ---------------- *)
Lemma sq_map_F n (f : nat -> PrimFloat.float) :
  osumn FOps n (fun j => PrimFloat.mul (f j) (f j)) = fsum (map sqf (map f (seq 0 n))).
Proof. rewrite osumn_F, map_map. reflexivity. Qed.

Definition var_line (n : nat) (f : nat -> PrimFloat.float) : PrimFloat.float :=
  let nf := float_of_Z (Z.of_nat n) in
  let mu := PrimFloat.div (osumn FOps n f) nf in
  let sq := osumn FOps n (fun j => PrimFloat.mul (f j) (f j)) in
  PrimFloat.sub (PrimFloat.div sq nf) (PrimFloat.mul mu mu).

Lemma var_line_float_error n (f : nat -> PrimFloat.float) : (Z.of_nat n < 2 ^ 53)%Z ->
  ffin (var_line n f) ->
  let N := INR n in
  let x := fun k => FR (f k) in
  let Qn := Rsuml (map (fun k => x k * x k) (seq 0 n)) / N in
  let Mr := Rsuml (map x (seq 0 n)) / N in
  let a := Rsumabs (map x (seq 0 n)) / N in
  (0 < n)%nat /\ (forall k, (k < n)%nat -> ffin (f k)) /\
  0 <= a /\ Mr * Mr <= a * a /\ a * a <= Qn /\
  Rabs (FR (var_line n f) - (Qn - Mr * Mr)) <=
    Eu (n + 2) * Qn + Eu (2 * n + 2) * (a * a) + (1 + Eu (n + 2)) * (2 * a + 4) * eta64.
Proof.
  intros Hlt Hfin N x Qn Mr a. unfold var_line in *. cbv zeta in *.
  set (nf := float_of_Z (Z.of_nat n)) in *.
  set (mu := PrimFloat.div (osumn FOps n f) nf) in *.
  set (sq := osumn FOps n (fun j => PrimFloat.mul (f j) (f j))) in *.
  destruct (fsub_finite _ _ Hfin) as (Fq & Fp & _).
  destruct (fmul_finite _ _ Fp) as (Fmu & _ & _).
  destruct (mean_line_float_error n f Hlt Fmu) as (Hn & Ff & _ & Bmu).
  destruct (float_of_Z_exact (Z.of_nat n)) as [Fn En]; [lia|]. rewrite <- INR_IZR_INZ in En. fold nf in Fn, En.
  assert (HN : 0 < N) by (apply lt_0_INR; exact Hn).
  assert (Hi : 0 < / N) by apply Rinv_0_lt_compat, HN.
  assert (Hnz : FR nf <> 0) by (rewrite En; fold N; lra).
  destruct (fdiv_finite sq nf Fn Hnz Fq) as [Fs _].
  pose proof (fdiv_error sq nf Fn Hnz Fq) as Bdiv. rewrite En in Bdiv. fold N in Bdiv.
  unfold sq in Fs. rewrite sq_map_F in Fs.
  destruct (sumsq_float_error _ Fs) as (_ & HQ0 & _ & Bs & _).
  rewrite map_length, seq_length in Bs. rewrite <- sq_map_F in Bs. rewrite map_map in Bs, HQ0. fold sq in Bs.
  change (fun x0 : nat => FR (f x0) * FR (f x0)) with (fun k => x k * x k) in Bs, HQ0.
  set (Q := Rsuml (map (fun k => x k * x k) (seq 0 n))) in *. fold N in Bs.
  assert (HQn : 0 <= Qn) by (unfold Qn, Rdiv; apply Rmult_le_pos; lra).
  assert (Ha : 0 <= a).
  { unfold a, Rdiv. apply Rmult_le_pos; [apply Rsumabs_nonneg | lra]. }
  assert (HMa : Rabs Mr <= a) by (apply mean_le_mean_abs; exact HN).
  assert (Hcs : a * a <= Qn).
  { pose proof (mean_abs_sq_le x (seq 0 n)) as G. rewrite seq_length in G. apply G. exact Hn. }
  assert (HM2 : Mr * Mr <= a * a).
  { rewrite <- (Rabs_pos_eq (Mr * Mr)) by nra. rewrite Rabs_mult. pose proof (Rabs_pos Mr). nra. }
  split; [exact Hn|]. split; [exact Ff|]. split; [exact Ha|]. split; [exact HM2|]. split; [exact Hcs|].
  (* the mean of squares *)
  pose proof (Eu_nonneg n) as Hen. pose proof u64_pos as Hu. pose proof eta64_pos as He.
  assert (Bs' : Rabs (FR sq / N - Qn) <= Eu n * (Qn + eta64) + eta64).
  { replace (FR sq / N - Qn) with ((FR sq - Q) * / N) by (unfold Qn, Rdiv; ring).
    rewrite Rabs_mult, (Rabs_pos_eq (/ N)) by lra.
    replace (Eu n * (Qn + eta64) + eta64) with ((Eu n * (Q + N * eta64) + N * eta64) * / N)
      by (unfold Qn; field; lra).
    apply Rmult_le_compat_r; [lra | exact Bs]. }
  assert (Bq : Rabs (FR (PrimFloat.div sq nf) - Qn) <= Eu (S n) * (Qn + eta64) + 2 * eta64).
  { assert (Rabs (FR sq / N) <= (1 + Eu n) * (Qn + eta64)).
    { replace (FR sq / N) with ((FR sq / N - Qn) + Qn) by ring.
      eapply Rle_trans; [apply Rabs_triang|]. rewrite (Rabs_pos_eq Qn) by exact HQn. nra. }
    replace (FR (PrimFloat.div sq nf) - Qn) with ((FR (PrimFloat.div sq nf) - FR sq / N) + (FR sq / N - Qn)) by ring.
    eapply Rle_trans; [apply Rabs_triang|]. rewrite Eu_S. nra. }
  apply (var_chain n Qn a Mr (FR mu) (FR (PrimFloat.div sq nf)) (FR (PrimFloat.mul mu mu))); try assumption.
  - apply fmul_error, Fp.
  - apply fsub_error, Hfin.
Qed.

(* ---------------- MatrixStats::var on either axis, entry i ---------------- *)
Lemma var_nth_F (m : M.dm PrimFloat.float) ax i : (i < M.n_lines m ax)%nat ->
  nth i (M.var FOps m ax) 0%float = var_line (M.line_len m ax) (fun j => M.line FOps m ax i j).
Proof. intros Hi. unfold M.var. rewrite nth_map_seq by exact Hi. reflexivity. Qed.

Lemma line_RM m ax i j : M.line ROps (RM m) ax i j = FR (M.line FOps m ax i j).
Proof. unfold M.line. destruct ax; apply get_RM. Qed.

Lemma var_nth_R (m : M.dm PrimFloat.float) ax i : (i < M.n_lines m ax)%nat ->
  let n := M.line_len m ax in
  let x := fun j => FR (M.line FOps m ax i j) in
  nth i (M.var ROps (RM m) ax) 0 =
    Rsuml (map (fun k => x k * x k) (seq 0 n)) / INR n - (Rsuml (map x (seq 0 n)) / INR n) * (Rsuml (map x (seq 0 n)) / INR n).
Proof.
  intros Hi n x. unfold M.var.
  change (M.n_lines (RM m) ax) with (M.n_lines m ax). change (M.line_len (RM m) ax) with (M.line_len m ax).
  rewrite nth_map_seq by exact Hi. cbv zeta. fold n. unfold oofnat. cbn [ROps odiv osub omul oofZ].
  rewrite <- INR_IZR_INZ, !osumn_R.
  rewrite (map_ext (fun j => M.line ROps (RM m) ax i j) x) by (intros j; apply line_RM).
  rewrite (map_ext (fun j => M.line ROps (RM m) ax i j * M.line ROps (RM m) ax i j) (fun k => x k * x k))
    by (intros j; rewrite line_RM; reflexivity).
  reflexivity.
Qed.

Theorem var_float_error (m : M.dm PrimFloat.float) (axis0 : bool) (i : nat) :
  (i < M.n_lines m axis0)%nat -> (Z.of_nat (M.line_len m axis0) < 2 ^ 53)%Z ->
  ffin (nth i (M.var FOps m axis0) 0%float) ->
  let n := M.line_len m axis0 in
  let x := fun j => FR (M.line FOps m axis0 i j) in
  let Qn := Rsuml (map (fun j => x j * x j) (seq 0 n)) / INR n in
  let Mr := Rsuml (map x (seq 0 n)) / INR n in
  let a := Rsumabs (map x (seq 0 n)) / INR n in
  (0 < n)%nat /\ (forall j, (j < n)%nat -> ffin (M.line FOps m axis0 i j)) /\
  nth i (M.var ROps (RM m) axis0) 0 = Qn - Mr * Mr /\
  Qn - Mr * Mr = PR.rsum n (fun j => (x j - Mr) ^ 2) / INR n /\
  0 <= Qn - Mr * Mr /\ a * a <= Qn /\
  Rabs (FR (nth i (M.var FOps m axis0) 0%float) - (Qn - Mr * Mr)) <=
    ((1 + u64) ^ (n + 2) - 1) * Qn + ((1 + u64) ^ (2 * n + 2) - 1) * (a * a)
    + (1 + u64) ^ (n + 2) * (2 * a + 4) * eta64.
Proof.
  intros Hi Hlt Hfin n x Qn Mr a. rewrite var_nth_F in * by exact Hi. fold n in Hfin, Hlt |- *.
  destruct (var_line_float_error n (fun j => M.line FOps m axis0 i j) Hlt Hfin) as (Hn & Ff & Ha & HM2 & Hcs & B).
  change (0 <= a) in Ha. change (Mr * Mr <= a * a) in HM2. change (a * a <= Qn) in Hcs.
  change (Rabs (FR (var_line n (fun j => M.line FOps m axis0 i j)) - (Qn - Mr * Mr)) <=
          Eu (n + 2) * Qn + Eu (2 * n + 2) * (a * a) + (1 + Eu (n + 2)) * (2 * a + 4) * eta64) in B.
  pose proof (var_nth_R m axis0 i Hi) as ER. cbv zeta in ER. fold n x Qn Mr in ER.
  split; [exact Hn|]. split; [exact Ff|]. split; [exact ER|]. split; [|split; [lra|split; [exact Hcs|]]].
  - rewrite <- ER. rewrite (PR.var_nth (RM m) axis0 i Hi Hn).
    change (M.line_len (RM m) axis0) with n. f_equal. apply PR.rsum_ext. intros j _.
    rewrite line_RM. fold (x j). f_equal. f_equal. unfold PR.line_mean, Mr.
    change (M.line_len (RM m) axis0) with n. f_equal.
    rewrite <- osumn_R. unfold PR.rsum. apply osumn_ext. intros k _. apply line_RM.
  - unfold Eu in B. replace (1 + ((1 + u64) ^ (n + 2) - 1)) with ((1 + u64) ^ (n + 2)) in B by ring. exact B.
Qed.

(* first-order form, for n < 2^50 *)
Lemma small_n_u n k : (Z.of_nat n < 2 ^ 50)%Z -> (k <= 2 * n + 2)%nat -> INR k * u64 <= / 4.
Proof.
  intros Hn Hk. pose proof u64_pos as Hu.
  apply Rle_trans with (INR (2 * n + 2) * u64).
  { apply Rmult_le_compat_r; [lra | apply le_INR; exact Hk]. }
  rewrite INR_IZR_INZ, u64_eq.
  assert (IZR (Z.of_nat (2 * n + 2)) <= IZR (2 ^ 51)) by (apply IZR_le; lia).
  replace (2 ^ 53) with (IZR (2 ^ 53)) by (exact (eq_sym (pow_IZR 2 53))).
  change (2 ^ 51)%Z with 2251799813685248%Z in H. change (2 ^ 53)%Z with 9007199254740992%Z.
  lra.
Qed.

Theorem var_float_error_lin (m : M.dm PrimFloat.float) (axis0 : bool) (i : nat) :
  (i < M.n_lines m axis0)%nat -> (Z.of_nat (M.line_len m axis0) < 2 ^ 50)%Z ->
  ffin (nth i (M.var FOps m axis0) 0%float) ->
  let n := M.line_len m axis0 in
  let x := fun j => FR (M.line FOps m axis0 i j) in
  let Qn := Rsuml (map (fun j => x j * x j) (seq 0 n)) / INR n in
  let Mr := Rsuml (map x (seq 0 n)) / INR n in
  let a := Rsumabs (map x (seq 0 n)) / INR n in
  let V := Qn - Mr * Mr in
  nth i (M.var ROps (RM m) axis0) 0 = V /\ 0 <= V /\
  Rabs (FR (nth i (M.var FOps m axis0) 0%float) - V) <= (4 * INR n + 6) * u64 * Qn + (3 * a + 6) * eta64 /\
  Rabs (FR (nth i (M.var FOps m axis0) 0%float) - V) <= (4 * INR n + 6) * u64 * (Qn + Mr * Mr) + (3 * a + 6) * eta64.
Proof.
  intros Hi Hlt Hfin n x Qn Mr a V.
  assert (Hlt' : (Z.of_nat (M.line_len m axis0) < 2 ^ 53)%Z) by (fold n in Hlt |- *; lia).
  pose proof (var_float_error m axis0 i Hi Hlt' Hfin) as H0. cbv zeta in H0. fold n in H0. fold x in H0.
  fold Qn Mr a in H0. fold V in H0. destruct H0 as (Hn & _ & ER & _ & HV & Hcs & B).
  split; [exact ER|]. split; [exact HV|].
  pose proof u64_pos as Hu. pose proof eta64_pos as He.
  assert (Ha : 0 <= a).
  { unfold a, Rdiv. apply Rmult_le_pos; [apply Rsumabs_nonneg | left; apply Rinv_0_lt_compat, lt_0_INR, Hn]. }
  assert (HQn : 0 <= Qn) by nra.
  fold (Eu (n + 2)) (Eu (2 * n + 2)) in B.
  replace ((1 + u64) ^ (n + 2)) with (1 + Eu (n + 2)) in B by (unfold Eu; ring).
  pose proof (Eu_le_lin (n + 2) (small_n_u n (n + 2) Hlt ltac:(lia))) as E1.
  pose proof (Eu_le_lin (2 * n + 2) (small_n_u n (2 * n + 2) Hlt ltac:(lia))) as E2.
  pose proof (small_n_u n (n + 2) Hlt ltac:(lia)) as S1.
  rewrite plus_INR in E1, S1. rewrite plus_INR, mult_INR in E2. cbn [INR] in E1, E2, S1.
  pose proof (Eu_nonneg (n + 2)) as P1. pose proof (Eu_nonneg (2 * n + 2)) as P2.
  pose proof (pos_INR n) as Hpn.
  assert (Main : Rabs (FR (nth i (M.var FOps m axis0) 0%float) - V) <= (4 * INR n + 6) * u64 * Qn + (3 * a + 6) * eta64).
  { eapply Rle_trans; [exact B|].
    assert (T1 : Eu (n + 2) * Qn + Eu (2 * n + 2) * (a * a) <= (4 * INR n + 6) * u64 * Qn).
    { apply Rle_trans with ((Eu (n + 2) + Eu (2 * n + 2)) * Qn); [nra|].
      apply Rmult_le_compat_r; [exact HQn|]. nra. }
    assert (T2 : (1 + Eu (n + 2)) * (2 * a + 4) * eta64 <= (3 * a + 6) * eta64).
    { apply Rmult_le_compat_r; [lra|]. assert (Eu (n + 2) <= / 3) by lra. nra. }
    lra. }
  split; [exact Main|].
  eapply Rle_trans; [exact Main|].
  assert (0 <= (4 * INR n + 6) * u64 * (Mr * Mr)) by (apply Rmult_le_pos; nra). lra.
Qed.

(* the condition number of the one-pass formula: 1 + mean^2 / var *)
Theorem var_condition_number (m : M.dm PrimFloat.float) (axis0 : bool) (i : nat) :
  (i < M.n_lines m axis0)%nat -> (Z.of_nat (M.line_len m axis0) < 2 ^ 50)%Z ->
  ffin (nth i (M.var FOps m axis0) 0%float) ->
  let n := M.line_len m axis0 in
  let x := fun j => FR (M.line FOps m axis0 i j) in
  let Mr := Rsuml (map x (seq 0 n)) / INR n in
  let a := Rsumabs (map x (seq 0 n)) / INR n in
  let V := nth i (M.var ROps (RM m) axis0) 0 in
  0 < V ->
  Rabs (FR (nth i (M.var FOps m axis0) 0%float) - V) / V <=
    (4 * INR n + 6) * u64 * (1 + Mr * Mr / V) + (3 * a + 6) * eta64 / V /\
  Rabs (FR (nth i (M.var FOps m axis0) 0%float) - V) / V <=
    (4 * INR n + 6) * u64 * (1 + 2 * (Mr * Mr) / V) + (3 * a + 6) * eta64 / V /\
  (Mr * Mr <= V ->
   Rabs (FR (nth i (M.var FOps m axis0) 0%float) - V) / V <= 2 * (4 * INR n + 6) * u64 + (3 * a + 6) * eta64 / V).
Proof.
  intros Hi Hlt Hfin n x Mr a V HV.
  pose proof (var_float_error_lin m axis0 i Hi Hlt Hfin) as H0. cbv zeta in H0. fold n in H0. fold x in H0.
  fold Mr a in H0. fold V in H0. destruct H0 as (ER & _ & B & _). rewrite <- ER in B.
  set (Qn := Rsuml (map (fun j => x j * x j) (seq 0 n)) / INR n) in *.
  assert (EQ : Qn = V + Mr * Mr) by lra.
  pose proof u64_pos as Hu. pose proof (pos_INR n) as Hpn.
  assert (Hc : 0 <= (4 * INR n + 6) * u64) by nra.
  assert (Hiv : 0 < / V) by apply Rinv_0_lt_compat, HV.
  assert (HM : 0 <= Mr * Mr / V) by (unfold Rdiv; apply Rmult_le_pos; [nra | lra]).
  assert (Main : Rabs (FR (nth i (M.var FOps m axis0) 0%float) - V) / V <=
                 (4 * INR n + 6) * u64 * (1 + Mr * Mr / V) + (3 * a + 6) * eta64 / V).
  { replace ((4 * INR n + 6) * u64 * (1 + Mr * Mr / V) + (3 * a + 6) * eta64 / V)
      with (((4 * INR n + 6) * u64 * Qn + (3 * a + 6) * eta64) * / V) by (rewrite EQ; field; lra).
    unfold Rdiv. apply Rmult_le_compat_r; [lra | exact B]. }
  split; [exact Main|]. split.
  - eapply Rle_trans; [exact Main|].
    replace (2 * (Mr * Mr) / V) with (2 * (Mr * Mr / V)) by (unfold Rdiv; ring). nra.
  - intros Hsafe. eapply Rle_trans; [exact Main|].
    assert (Mr * Mr / V <= 1).
    { apply (Rmult_le_reg_r V); [exact HV|]. unfold Rdiv. rewrite Rmult_assoc, Rinv_l by lra. lra. }
    nra.
Qed.

(* ---------------- std = sqrt(var): one more rounding ---------------- *)
Lemma sqrt_abs_error (s T D : R) : 0 <= s -> 0 < T -> Rabs (s - T) <= D ->
  Rabs (R_sqrt.sqrt s - R_sqrt.sqrt T) <= D / R_sqrt.sqrt T.
Proof.
  intros Hs HT H. pose proof (sqrt_lt_R0 T HT) as HsT. pose proof (sqrt_pos s) as Hss.
  assert (Hmul : Rabs (R_sqrt.sqrt s - R_sqrt.sqrt T) * (R_sqrt.sqrt s + R_sqrt.sqrt T) = Rabs (s - T)).
  { rewrite <- (Rabs_pos_eq (R_sqrt.sqrt s + R_sqrt.sqrt T)) at 1 by lra. rewrite <- Rabs_mult. f_equal.
    replace ((R_sqrt.sqrt s - R_sqrt.sqrt T) * (R_sqrt.sqrt s + R_sqrt.sqrt T))
      with (R_sqrt.sqrt s * R_sqrt.sqrt s - R_sqrt.sqrt T * R_sqrt.sqrt T) by ring.
    rewrite !sqrt_sqrt by lra. reflexivity. }
  pose proof (Rabs_pos (R_sqrt.sqrt s - R_sqrt.sqrt T)) as Hp.
  apply (Rmult_le_reg_r (R_sqrt.sqrt T)); [exact HsT|].
  unfold Rdiv. rewrite Rmult_assoc, Rinv_l by lra. nra.
Qed.

Lemma std_nth_F (m : M.dm PrimFloat.float) ax i : (i < M.n_lines m ax)%nat ->
  nth i (M.std FOps m ax) 0%float = PrimFloat.sqrt (nth i (M.var FOps m ax) 0%float).
Proof.
  intros Hi. unfold M.std. cbn [FOps osqrt].
  rewrite (nth_indep _ 0%float (PrimFloat.sqrt 0%float))
    by (unfold M.var; rewrite !map_length, seq_length; exact Hi).
  apply map_nth.
Qed.

Theorem std_float_error (m : M.dm PrimFloat.float) (axis0 : bool) (i : nat) (r : R) :
  (i < M.n_lines m axis0)%nat ->
  ffin (nth i (M.std FOps m axis0) 0%float) ->
  let V := nth i (M.var ROps (RM m) axis0) 0 in
  0 < V ->
  Rabs (FR (nth i (M.var FOps m axis0) 0%float) - V) <= r * V ->
  ffin (nth i (M.var FOps m axis0) 0%float) /\ 0 <= FR (nth i (M.var FOps m axis0) 0%float) /\
  nth i (M.std ROps (RM m) axis0) 0 = R_sqrt.sqrt V /\
  Rabs (FR (nth i (M.std FOps m axis0) 0%float) - R_sqrt.sqrt V) <= (u64 + (1 + u64) * r) * R_sqrt.sqrt V.
Proof.
  intros Hi Hfin V HV Hr. rewrite std_nth_F in * by exact Hi.
  set (v := nth i (M.var FOps m axis0) 0%float) in *.
  destruct (fsqrt_finite _ Hfin) as (Fv & _). destruct (fsqrt_error _ Hfin) as (Hv0 & Bs).
  split; [exact Fv|]. split; [exact Hv0|]. split.
  { apply (PR.std_nth (RM m) axis0 i). exact Hi. }
  pose proof (sqrt_lt_R0 V HV) as HsV. pose proof u64_pos as Hu.
  pose proof (sqrt_abs_error (FR v) V (r * V) Hv0 HV Hr) as Bd.
  assert (EV : r * V / R_sqrt.sqrt V = r * R_sqrt.sqrt V).
  { rewrite <- (sqrt_sqrt V) at 1 by lra. field. lra. }
  rewrite EV in Bd.
  assert (Hr0 : 0 <= r * R_sqrt.sqrt V).
  { eapply Rle_trans; [apply Rabs_pos | exact Bd]. }
  assert (R_sqrt.sqrt (FR v) <= R_sqrt.sqrt V + r * R_sqrt.sqrt V).
  { pose proof (Rle_abs (R_sqrt.sqrt (FR v) - R_sqrt.sqrt V)). lra. }
  replace (FR (PrimFloat.sqrt v) - R_sqrt.sqrt V)
    with ((FR (PrimFloat.sqrt v) - R_sqrt.sqrt (FR v)) + (R_sqrt.sqrt (FR v) - R_sqrt.sqrt V)) by ring.
  eapply Rle_trans; [apply Rabs_triang|]. nra.
Qed.
