(* C03 — products, element-wise and scalar arithmetic, equality tests, shape contracts and the
   BaseVector operations.  Generic in the scalar type unless stated. *)
From Coq Require Import List Arith Bool Lia PeanoNat ZArith.
From SC Require Import Base.Num C03.Model C03.ProofsBase.
Import ListNotations.

Section Alg.
  Context {T : Type} (K : Ops T).
  Local Notation zero := (K.(o0)).
  Local Notation get := (Model.get K).

  Lemma osumn_ext n f g : (forall i, i < n -> f i = g i) -> osumn K n f = osumn K n g.
  Proof.
    induction n as [|n IH]; intros H; [reflexivity|]. cbn [osumn].
    rewrite IH by (intros; apply H; lia). rewrite H by lia. reflexivity.
  Qed.

  (* ---------- matmul ---------- *)
  Lemma matmul_none a b : ncols a <> nrows b -> matmul K a b = None.
  Proof. intros H. unfold matmul. apply Nat.eqb_neq in H. rewrite H. reflexivity. Qed.
  Lemma matmul_spec a b : ncols a = nrows b ->
    exists m, matmul K a b = Some m /\ nrows m = nrows a /\ ncols m = ncols b /\ wf m /\
      forall r c, r < nrows a -> c < ncols b ->
        get m r c = osumn K (ncols a) (fun i => omul K (get a r i) (get b i c)).
  Proof.
    intros H. unfold matmul. apply Nat.eqb_eq in H. rewrite H. cbn [negb].
    eexists. split; [reflexivity|]. repeat split; try apply tab_wf.
    intros r c Hr Hc. rewrite get_tab by assumption. reflexivity.
  Qed.
  Lemma matmul_some_iff a b : (exists m, matmul K a b = Some m) <-> ncols a = nrows b.
  Proof.
    split.
    - intros [m Hm]. destruct (Nat.eq_dec (ncols a) (nrows b)) as [E|E]; [exact E|].
      rewrite matmul_none in Hm by exact E. discriminate.
    - intros E. destruct (matmul_spec a b E) as [m [Hm _]]. exists m. exact Hm.
  Qed.

  (* ---------- ab: the four flag combinations are the product of the (un)transposed operands ---------- *)
  Lemma ab_matmul_transpose a ta b tb :
    ab K a ta b tb = matmul K (if ta then transpose K a else a) (if tb then transpose K b else b).
  Proof.
    destruct ta, tb; unfold ab; [| | |reflexivity].
    - (* A^T B^T *)
      unfold matmul. cbn [transpose nrows ncols Model.tab].
      destruct (Nat.eqb_spec (nrows a) (ncols b)) as [E|E]; cbn [negb]; [|reflexivity].
      f_equal. apply tab_ext. intros r c Hr Hc. apply osumn_ext. intros i Hi.
      rewrite get_transpose by assumption. rewrite get_transpose by (try assumption; lia). reflexivity.
    - (* A^T B *)
      unfold matmul. cbn [transpose nrows ncols Model.tab].
      destruct (nrows a =? nrows b); cbn [negb]; [|reflexivity].
      f_equal. apply tab_ext. intros r c Hr Hc. apply osumn_ext. intros i Hi.
      rewrite get_transpose by assumption. reflexivity.
    - (* A B^T *)
      unfold matmul. cbn [transpose nrows ncols Model.tab].
      destruct (Nat.eqb_spec (ncols a) (ncols b)) as [E|E]; cbn [negb]; [|reflexivity].
      f_equal. apply tab_ext. intros r c Hr Hc. apply osumn_ext. intros i Hi.
      rewrite get_transpose by (try assumption; lia). reflexivity.
  Qed.

  (* ---------- dot ---------- *)
  Definition vec_at (m : dm T) (i : nat) : T := if nrows m =? 1 then get m 0 i else get m i 0.
  Definition both_vectors_same_size (a b : dm T) : Prop :=
    (nrows a = 1 \/ ncols a = 1) /\ (nrows b = 1 \/ ncols b = 1) /\ nrows a * ncols a = nrows b * ncols b.

  Lemma is_vec_true (m : dm T) : is_vec m = true <-> (nrows m = 1 \/ ncols m = 1).
  Proof.
    unfold is_vec. rewrite orb_true_iff, !Nat.eqb_eq. reflexivity.
  Qed.
  Lemma dot_none_iff a b : dot K a b = None <-> ~ both_vectors_same_size a b.
  Proof.
    unfold dot, both_vectors_same_size. rewrite <- !is_vec_true.
    destruct (is_vec a), (is_vec b); cbn [negb orb];
      try (split; [intros _ [H1 [H2 _]]; discriminate | reflexivity]).
    destruct (Nat.eqb_spec (nrows a * ncols a) (nrows b * ncols b)) as [E|E]; cbn [negb].
    - split; [discriminate|]. intros H. exfalso. apply H. auto.
    - split; [intros _ [_ [_ H]]; contradiction | reflexivity].
  Qed.
  Lemma vec_at_values m i : nrows m = 1 \/ ncols m = 1 -> i < nrows m * ncols m ->
    nth i (values m) zero = vec_at m i.
  Proof.
    intros Hv Hi. unfold vec_at, Model.get.
    destruct (Nat.eqb_spec (nrows m) 1) as [E|E].
    - rewrite E. f_equal; lia.
    - destruct Hv as [Hv|Hv]; [contradiction|]. f_equal; lia.
  Qed.
  Lemma dot_spec a b : both_vectors_same_size a b ->
    dot K a b = Some (osumn K (nrows a * ncols a) (fun i => omul K (vec_at a i) (vec_at b i))).
  Proof.
    intros [Ha [Hb Hs]]. unfold dot.
    apply is_vec_true in Ha as Ea. apply is_vec_true in Hb as Eb. rewrite Ea, Eb. cbn [negb orb].
    apply Nat.eqb_eq in Hs as Hs'. rewrite Hs'. cbn [negb]. f_equal. apply osumn_ext. intros i Hi.
    rewrite vec_at_values by assumption. rewrite vec_at_values by (try assumption; lia). reflexivity.
  Qed.

  (* ---------- element-wise arithmetic ---------- *)
  Lemma same_shape_true (a b : dm T) : same_shape a b = true <-> (nrows a = nrows b /\ ncols a = ncols b).
  Proof. unfold same_shape. rewrite andb_true_iff, !Nat.eqb_eq. tauto. Qed.
  Lemma zip_with_none_iff f a b : zip_with K f a b = None <-> (nrows a <> nrows b \/ ncols a <> ncols b).
  Proof.
    unfold zip_with. destruct (same_shape a b) eqn:E; cbn [negb].
    - apply same_shape_true in E. split; [discriminate|]. lia.
    - split; [|reflexivity]. intros _.
      destruct (Nat.eq_dec (nrows a) (nrows b)) as [E1|E1]; [|left; exact E1].
      destruct (Nat.eq_dec (ncols a) (ncols b)) as [E2|E2]; [|right; exact E2].
      exfalso. assert (same_shape a b = true) by (apply same_shape_true; tauto). congruence.
  Qed.
  Lemma zip_with_spec f a b : nrows a = nrows b -> ncols a = ncols b ->
    exists m, zip_with K f a b = Some m /\ nrows m = nrows a /\ ncols m = ncols a /\ wf m /\
      forall r c, r < nrows a -> c < ncols a -> get m r c = f (get a r c) (get b r c).
  Proof.
    intros H1 H2. unfold zip_with.
    assert (E : same_shape a b = true) by (apply same_shape_true; tauto). rewrite E. cbn [negb].
    eexists. split; [reflexivity|]. repeat split; try apply tab_wf.
    intros r c Hr Hc. rewrite get_tab by assumption. reflexivity.
  Qed.
  Lemma add_spec a b : nrows a = nrows b -> ncols a = ncols b ->
    exists m, add K a b = Some m /\ nrows m = nrows a /\ ncols m = ncols a /\ wf m /\
      forall r c, r < nrows a -> c < ncols a -> get m r c = oadd K (get a r c) (get b r c).
  Proof. apply zip_with_spec. Qed.
  Lemma sub_spec a b : nrows a = nrows b -> ncols a = ncols b ->
    exists m, sub K a b = Some m /\ nrows m = nrows a /\ ncols m = ncols a /\ wf m /\
      forall r c, r < nrows a -> c < ncols a -> get m r c = osub K (get a r c) (get b r c).
  Proof. apply zip_with_spec. Qed.
  Lemma mul_spec a b : nrows a = nrows b -> ncols a = ncols b ->
    exists m, mul K a b = Some m /\ nrows m = nrows a /\ ncols m = ncols a /\ wf m /\
      forall r c, r < nrows a -> c < ncols a -> get m r c = omul K (get a r c) (get b r c).
  Proof. apply zip_with_spec. Qed.
  Lemma div_spec a b : nrows a = nrows b -> ncols a = ncols b ->
    exists m, div K a b = Some m /\ nrows m = nrows a /\ ncols m = ncols a /\ wf m /\
      forall r c, r < nrows a -> c < ncols a -> get m r c = odiv K (get a r c) (get b r c).
  Proof. apply zip_with_spec. Qed.

  (* ---------- maps: scalar arithmetic, negative, abs, pow, binarize ---------- *)
  Lemma map_values_shape (f : T -> T) (m : dm T) : nrows (map_values f m) = nrows m /\ ncols (map_values f m) = ncols m /\
    (wf m -> wf (map_values f m)).
  Proof. unfold map_values, wf. cbn [nrows ncols values]. rewrite map_length. tauto. Qed.
  Lemma get_map_values f m r c : wf m -> r < nrows m -> c < ncols m ->
    get (map_values f m) r c = f (get m r c).
  Proof.
    unfold wf. intros Hwf Hr Hc. unfold Model.get, map_values. cbn [nrows values].
    rewrite (nth_indep _ zero (f zero)) by (rewrite map_length, Hwf; nia).
    apply map_nth.
  Qed.
  Lemma get_add_scalar m x r c : wf m -> r < nrows m -> c < ncols m -> get (add_scalar K m x) r c = oadd K (get m r c) x.
  Proof. apply (get_map_values (fun v => oadd K v x)). Qed.
  Lemma get_sub_scalar m x r c : wf m -> r < nrows m -> c < ncols m -> get (sub_scalar K m x) r c = osub K (get m r c) x.
  Proof. apply (get_map_values (fun v => osub K v x)). Qed.
  Lemma get_mul_scalar m x r c : wf m -> r < nrows m -> c < ncols m -> get (mul_scalar K m x) r c = omul K (get m r c) x.
  Proof. apply (get_map_values (fun v => omul K v x)). Qed.
  Lemma get_div_scalar m x r c : wf m -> r < nrows m -> c < ncols m -> get (div_scalar K m x) r c = odiv K (get m r c) x.
  Proof. apply (get_map_values (fun v => odiv K v x)). Qed.
  Lemma get_negative m r c : wf m -> r < nrows m -> c < ncols m -> get (negative K m) r c = oneg K (get m r c).
  Proof. apply (get_map_values (oneg K)). Qed.
  Lemma get_abs m r c : wf m -> r < nrows m -> c < ncols m -> get (abs K m) r c = oabs K (get m r c).
  Proof. apply (get_map_values (oabs K)). Qed.
  Lemma get_pow m p r c : wf m -> r < nrows m -> c < ncols m -> get (pow K m p) r c = opow K (get m r c) p.
  Proof. apply (get_map_values (fun v => opow K v p)). Qed.
  Lemma binarize_spec m t : nrows (binarize K m t) = nrows m /\ ncols (binarize K m t) = ncols m /\ wf (binarize K m t) /\
    forall r c, r < nrows m -> c < ncols m ->
      get (binarize K m t) r c = if oltb K t (get m r c) then o1 K else zero.
  Proof.
    unfold binarize. repeat split; try apply tab_wf. intros r c Hr Hc. rewrite get_tab by assumption. reflexivity.
  Qed.

  (* ---------- equality tests ---------- *)
  Lemma approximate_eq_shape a b err : (nrows a <> nrows b \/ ncols a <> ncols b) -> approximate_eq K a b err = false.
  Proof.
    intros H. unfold approximate_eq.
    destruct (Nat.eqb_spec (ncols a) (ncols b)); destruct (Nat.eqb_spec (nrows a) (nrows b)); cbn [negb orb]; try reflexivity.
    lia.
  Qed.
  Lemma eq_dm_shape eps a b : (nrows a <> nrows b \/ ncols a <> ncols b) -> eq_dm K eps a b = false.
  Proof.
    intros H. unfold eq_dm.
    destruct (Nat.eqb_spec (ncols a) (ncols b)); destruct (Nat.eqb_spec (nrows a) (nrows b)); cbn [negb orb]; try reflexivity.
    lia.
  Qed.
  Lemma approximate_eq_true_iff a b err : nrows a = nrows b -> ncols a = ncols b ->
    (approximate_eq K a b err = true <->
     forall r c, r < nrows a -> c < ncols a -> oltb K err (oabs K (osub K (get a r c) (get b r c))) = false).
  Proof.
    intros H1 H2. unfold approximate_eq.
    apply Nat.eqb_eq in H1 as E1. apply Nat.eqb_eq in H2 as E2. rewrite E1, E2. cbn [negb orb].
    rewrite forallb_forall. split.
    - intros H r c Hr Hc. specialize (H c). rewrite forallb_forall in H.
      specialize (H ltac:(apply in_seq; lia) r ltac:(apply in_seq; lia)).
      apply negb_true_iff in H. exact H.
    - intros H c Hc. apply forallb_forall. intros r Hr. apply in_seq in Hc, Hr.
      apply negb_true_iff. apply H; lia.
  Qed.
  Lemma eq_dm_true_iff eps a b : wf a -> wf b -> nrows a = nrows b -> ncols a = ncols b ->
    (eq_dm K eps a b = true <->
     forall i, i < nrows a * ncols a ->
       oltb K eps (oabs K (osub K (nth i (values a) zero) (nth i (values b) zero))) = false).
  Proof.
    unfold wf. intros Ha Hb H1 H2. unfold eq_dm.
    apply Nat.eqb_eq in H1 as E1. apply Nat.eqb_eq in H2 as E2. rewrite E1, E2. cbn [negb orb].
    replace (length (values a) =? length (values b)) with true by (symmetry; apply Nat.eqb_eq; congruence).
    cbn [negb]. rewrite forallb_forall. rewrite Ha. split.
    - intros H i Hi. specialize (H i ltac:(apply in_seq; lia)). apply negb_true_iff in H. exact H.
    - intros H i Hi. apply in_seq in Hi. apply negb_true_iff. apply H. lia.
  Qed.

  (* ---------- BaseVector for Vec<T> ---------- *)
  Lemma vdot_none_iff a b : vdot K a b = None <-> length a <> length b.
  Proof.
    unfold vdot. destruct (Nat.eqb_spec (length a) (length b)); cbn [negb]; split; intros; try discriminate; try reflexivity; tauto.
  Qed.
  Lemma vdot_spec a b : length a = length b ->
    vdot K a b = Some (osumn K (length a) (fun i => omul K (nth i a zero) (nth i b zero))).
  Proof. intros H. unfold vdot. apply Nat.eqb_eq in H. rewrite H. reflexivity. Qed.

  Lemma zipw_length f (a b : list T) : length a = length b -> length (zipw f a b) = length a.
  Proof.
    revert b. induction a as [|x a IH]; intros [|y b] H; cbn in *; try reflexivity; try discriminate.
    rewrite IH by lia. reflexivity.
  Qed.
  Lemma zipw_nth f (a b : list T) d i : length a = length b -> i < length a ->
    nth i (zipw f a b) d = f (nth i a d) (nth i b d).
  Proof.
    revert b i. induction a as [|x a IH]; intros [|y b] i H Hi; cbn in *; try lia.
    destruct i as [|i]; [reflexivity|]. apply IH; lia.
  Qed.
  Lemma vzip_none_iff f (a b : list T) : vzip f a b = None <-> length a <> length b.
  Proof.
    unfold vzip. destruct (Nat.eqb_spec (length a) (length b)); cbn [negb]; split; intros; try discriminate; try reflexivity; tauto.
  Qed.
  Lemma vzip_spec f (a b : list T) : length a = length b ->
    exists l, vzip f a b = Some l /\ length l = length a /\
      forall d i, i < length a -> nth i l d = f (nth i a d) (nth i b d).
  Proof.
    intros H. unfold vzip. apply Nat.eqb_eq in H as E. rewrite E. cbn [negb]. eexists. split; [reflexivity|].
    split; [apply zipw_length; exact H|]. intros d i Hi. apply zipw_nth; assumption.
  Qed.
  Lemma vtake_spec a index :
    ((exists i, In i index /\ length a <= i) -> vtake K a index = None) /\
    ((forall i, In i index -> i < length a) -> vtake K a index = Some (map (fun i => nth i a zero) index)).
  Proof.
    unfold vtake. split.
    - intros [i [Hi Hge]].
      assert (E : existsb (fun i => length a <=? i) index = true).
      { apply existsb_exists. exists i. split; [exact Hi|]. apply Nat.leb_le. exact Hge. }
      rewrite E. reflexivity.
    - intros H.
      assert (E : existsb (fun i => length a <=? i) index = false).
      { apply existsb_false_forall. intros x Hx. apply Nat.leb_gt. apply H. exact Hx. }
      rewrite E. reflexivity.
  Qed.
  Lemma vcopy_from_spec (a b : list T) :
    vcopy_from a b = if length a =? length b then Some b else None.
  Proof. unfold vcopy_from. destruct (length a =? length b); reflexivity. Qed.
  Lemma vapprox_eq_length a b err : length a <> length b -> vapprox_eq K a b err = false.
  Proof. intros H. unfold vapprox_eq. apply Nat.eqb_neq in H. rewrite H. reflexivity. Qed.

  (* ---------- copy_row_as_vec / copy_col_as_vec into a buffer of the right length ---------- *)
  Lemma copy_row_full m r res : length res = ncols m -> copy_row_as_vec K m r res = get_row K m r.
  Proof.
    intros H. unfold copy_row_as_vec, get_row. rewrite H, Nat.min_id.
    rewrite <- H, skipn_all, app_nil_r. reflexivity.
  Qed.
  Lemma copy_col_full m c res : length res = nrows m -> copy_col_as_vec K m c res = get_col K m c.
  Proof.
    intros H. unfold copy_col_as_vec, get_col. rewrite H, Nat.min_id.
    rewrite <- H, skipn_all, app_nil_r. reflexivity.
  Qed.

  (* ---------- add/sub/mul/div_element_mut: an update of one cell ---------- *)
  Lemma upd_element_set f m r c : upd_element K f m r c = set m r c (f (get m r c)).
  Proof. reflexivity. Qed.
  Lemma upd_element_spec f m r c : wf m -> r < nrows m -> c < ncols m ->
    exists m', upd_element K f m r c = Some m' /\ nrows m' = nrows m /\ ncols m' = ncols m /\ wf m' /\
      forall r' c', r' < nrows m -> c' < ncols m ->
        get m' r' c' = if Nat.eqb r' r && Nat.eqb c' c then f (get m r c) else get m r' c'.
  Proof. intros Hwf Hr Hc. rewrite upd_element_set. apply (set_spec K); assumption. Qed.
End Alg.

(* ---------- over the reals ---------- *)
From Coq Require Import Reals.
Lemma approximate_eq_R a b err : nrows a = nrows b -> ncols a = ncols b ->
  (approximate_eq ROps a b err = true <->
   forall r c, r < nrows a -> c < ncols a -> (Rabs (Model.get ROps a r c - Model.get ROps b r c) <= err)%R).
Proof.
  intros H1 H2. rewrite (approximate_eq_true_iff ROps a b err H1 H2).
  split; intros H r c Hr Hc; specialize (H r c Hr Hc); cbn [ROps oltb oabs osub] in *; apply Rltb_false; exact H.
Qed.


(* exact equality (PartialEq): entrywise within eps on the logical view *)
Lemma eq_dm_R a b eps : wf a -> wf b -> nrows a = nrows b -> ncols a = ncols b ->
  (eq_dm ROps eps a b = true <->
   forall r c, r < nrows a -> c < ncols a -> (Rabs (Model.get ROps a r c - Model.get ROps b r c) <= eps)%R).
Proof.
  intros Ha Hb H1 H2. rewrite (eq_dm_true_iff ROps eps a b Ha Hb H1 H2). split.
  - intros H r c Hr Hc. specialize (H (c * nrows a + r) ltac:(nia)).
    cbn [ROps oltb oabs osub o0] in H. apply Rltb_false in H.
    unfold Model.get. rewrite <- H1. cbn [ROps o0]. exact H.
  - intros H i Hi.
    assert (Hn : nrows a <> 0) by (intros E; rewrite E in Hi; lia).
    pose proof (Nat.div_mod i (nrows a) Hn) as Hdm.
    pose proof (Nat.mod_upper_bound i (nrows a) Hn) as Hmod.
    assert (Hdiv : i / nrows a < ncols a) by (apply Nat.div_lt_upper_bound; lia).
    specialize (H (i mod nrows a) (i / nrows a) Hmod Hdiv).
    unfold Model.get in H. rewrite <- H1 in H.
    replace (i / nrows a * nrows a + i mod nrows a) with i in H by lia.
    cbn [ROps oltb oabs osub o0] in *. apply Rltb_false. exact H.
Qed.

(* ---------- satisfiability: a concrete instance over nat ---------- *)
Definition NatOps : Ops nat := {|
  o0 := 0; o1 := 1; oadd := Nat.add; osub := Nat.sub; omul := Nat.mul; odiv := Nat.div;
  oneg := fun x => x; oabs := fun x => x; osqrt := Nat.sqrt; oexp := fun x => x; oln := fun x => x;
  oltb := Nat.ltb; oleb := Nat.leb; oeqb := Nat.eqb; oofZ := Z.to_nat |}.
(* A = [[1,2,3],[4,5,6]] (2x3), B = [[1,0],[2,1],[0,3]] (3x2), column-major storage *)
Definition exA : dm nat := mkdm 2 3 [1; 4; 2; 5; 3; 6].
Definition exB : dm nat := mkdm 3 2 [1; 2; 0; 0; 1; 3].
Example matmul_ex : matmul NatOps exA exB = Some (mkdm 2 2 [5; 14; 11; 23]).
Proof. reflexivity. Qed.
Example matmul_none_ex : matmul NatOps exA exA = None.
Proof. reflexivity. Qed.
Example ab_ex : ab NatOps exA true exA false = matmul NatOps (transpose NatOps exA) exA /\
  ab NatOps exA true exA false = Some (mkdm 3 3 [17; 22; 27; 22; 29; 36; 27; 36; 45]) /\
  ab NatOps exA false exB true = None /\ ab NatOps exA true exB true = Some (mkdm 3 3 [1;2;3; 6;9;12; 12;15;18]).
Proof. repeat split; reflexivity. Qed.
Example dot_ex : dot NatOps (mkdm 1 3 [1; 2; 3]) (mkdm 3 1 [4; 5; 6]) = Some 32 /\
  both_vectors_same_size (mkdm 1 3 [1; 2; 3]) (mkdm 3 1 [4; 5; 6]) /\
  dot NatOps (mkdm 1 4 [1; 2; 3; 4]) (mkdm 2 2 [5; 7; 6; 8]) = None /\
  dot NatOps (mkdm 1 3 [1; 2; 3]) (mkdm 1 2 [4; 5]) = None.
Proof. repeat split; try reflexivity; cbn; auto. Qed.
Example add_ex : add NatOps exA exA = Some (mkdm 2 3 [2; 8; 4; 10; 6; 12]) /\ add NatOps exA exB = None /\
  add NatOps exA (transpose NatOps exB) = Some (mkdm 2 3 [2; 4; 4; 6; 3; 9]).
Proof. repeat split; reflexivity. Qed.
Example eq_shape_ex : approximate_eq NatOps exA exB 100 = false /\ eq_dm NatOps 100 exA exB = false /\
  approximate_eq NatOps exA exA 0 = true.
Proof. repeat split; reflexivity. Qed.
