(* C20 — the simulation (compositionality) theorem: if every primitive of two backends agrees
   through abstraction functions into a common model, every program does: same panics, same
   scalars, related matrices.  Hence backend independence of all generic algorithms REDUCES TO
   per-primitive agreement, which is what the correspondence check of C20 establishes per run
   against C03's model. *)
From Coq Require Import List Arith Bool.
From SC Require Import C20.Model.
Import ListNotations.

Section Simulation.
  Variable S : Type.
  Variable opM opS : Type.
  Variable I1 I2 : impl S opM opS.
  Variable M : Type.                                   (* the common model (C03's logical view) *)
  Variable a1 : carrier _ _ _ I1 -> M.
  Variable a2 : carrier _ _ _ I2 -> M.

  Definition Rm (x : carrier _ _ _ I1) (y : carrier _ _ _ I2) : Prop := a1 x = a2 y.

  Definition rel_opt {A B} (R : A -> B -> Prop) (x : option A) (y : option B) : Prop :=
    match x, y with
    | Some a, Some b => R a b
    | None, None => True
    | _, _ => False
    end.

  (* per-primitive agreement: same panic behaviour, related / equal results on related arguments *)
  Definition prims_agree : Prop :=
    (forall o ms1 ms2 ss, Forall2 Rm ms1 ms2 ->
        rel_opt Rm (evM _ _ _ I1 o ms1 ss) (evM _ _ _ I2 o ms2 ss)) /\
    (forall o ms1 ms2 ss, Forall2 Rm ms1 ms2 ->
        rel_opt eq (evS _ _ _ I1 o ms1 ss) (evS _ _ _ I2 o ms2 ss)).

  Definition Rst (st1 : state _ _ _ I1) (st2 : state _ _ _ I2) : Prop :=
    Forall2 Rm (fst st1) (fst st2) /\ snd st1 = snd st2.

  Lemma nth_error_rel {A B} (R : A -> B -> Prop) : forall e1 e2 i, Forall2 R e1 e2 ->
    rel_opt R (nth_error e1 i) (nth_error e2 i).
  Proof.
    intros e1 e2 i H. revert i. induction H as [|a b l1 l2 Hab H IH]; intro i; destruct i; cbn; auto.
  Qed.

  Lemma get_all_rel {A B} (R : A -> B -> Prop) : forall idx e1 e2, Forall2 R e1 e2 ->
    rel_opt (Forall2 R) (get_all e1 idx) (get_all e2 idx).
  Proof.
    induction idx as [|i idx IH]; intros e1 e2 H; cbn; [constructor|].
    pose proof (nth_error_rel R e1 e2 i H) as Hn. specialize (IH e1 e2 H).
    destruct (nth_error e1 i), (nth_error e2 i); cbn in Hn; try contradiction; [|exact I].
    destruct (get_all e1 idx), (get_all e2 idx); cbn in IH; try contradiction; cbn; [|exact I].
    constructor; assumption.
  Qed.

  Lemma set_slot_rel {A B} (R : A -> B -> Prop) : forall e1 e2 i a b, Forall2 R e1 e2 -> R a b ->
    rel_opt (Forall2 R) (set_slot e1 i a) (set_slot e2 i b).
  Proof.
    intros e1 e2 i a b H Hab. revert i. induction H as [|x y l1 l2 Hxy H IH]; intro i; destruct i;
      unfold rel_opt; cbn [set_slot]; auto.
    specialize (IH i). unfold rel_opt in IH.
    destruct (set_slot l1 i a), (set_slot l2 i b); cbn [option_map]; try contradiction; auto.
  Qed.

  Hypothesis Hagree : prims_agree.

  Lemma repeat_rel (f1 : state _ _ _ I1 -> option (state _ _ _ I1)) (f2 : state _ _ _ I2 -> option (state _ _ _ I2)) :
    (forall s1 s2, Rst s1 s2 -> rel_opt Rst (f1 s1) (f2 s2)) ->
    forall n s1 s2, Rst s1 s2 -> rel_opt Rst (repeat_run _ _ _ I1 f1 n s1) (repeat_run _ _ _ I2 f2 n s2).
  Proof.
    intros Hf. induction n as [|n IH]; intros s1 s2 H; cbn; [exact H|].
    specialize (Hf s1 s2 H). destruct (f1 s1), (f2 s2); cbn in Hf; try contradiction; [|exact I].
    apply IH. exact Hf.
  Qed.

  Lemma while_rel (f1 : state _ _ _ I1 -> option (state _ _ _ I1)) (f2 : state _ _ _ I2 -> option (state _ _ _ I2)) test sarg :
    (forall s1 s2, Rst s1 s2 -> rel_opt Rst (f1 s1) (f2 s2)) ->
    forall fuel s1 s2, Rst s1 s2 ->
      rel_opt Rst (while_run _ _ _ I1 f1 test sarg fuel s1) (while_run _ _ _ I2 f2 test sarg fuel s2).
  Proof.
    intros Hf. induction fuel as [|fuel IH]; intros s1 s2 H; cbn; destruct H as [Hm Hs]; rewrite <- Hs;
      destruct (nth_error (snd s1) sarg) as [s|]; cbn; try exact I; destruct (test s); cbn; try exact I;
      try (split; assumption).
    assert (H : Rst s1 s2) by (split; assumption).
    specialize (Hf s1 s2 H). destruct (f1 s1), (f2 s2); cbn in Hf; try contradiction; [|exact I].
    apply IH. exact Hf.
  Qed.

  Lemma simulation : forall p st1 st2, Rst st1 st2 ->
    rel_opt Rst (run _ _ _ I1 p st1) (run _ _ _ I2 p st2).
  Proof.
    destruct Hagree as [HM HS].
    induction p as [|p IHp q IHq|s|o ma sa|o ma sa|d s|d s|test sarg p IHp q IHq|n p IHp|fuel test sarg p IHp];
      intros st1 st2 [Hm Hs]; cbn [run].
    - split; assumption.
    - specialize (IHp st1 st2 (conj Hm Hs)).
      destruct (run _ _ _ I1 p st1), (run _ _ _ I2 p st2); cbn in IHp; try contradiction; [|exact I].
      apply IHq. exact IHp.
    - cbn. split; cbn; [assumption|]. rewrite Hs. reflexivity.
    - pose proof (get_all_rel Rm ma _ _ Hm) as G. rewrite <- Hs.
      destruct (get_all (fst st1) ma), (get_all (fst st2) ma); cbn in G; try contradiction; [|exact I].
      destruct (get_all (snd st1) sa); [|exact I].
      specialize (HM o _ _ l1 G).
      destruct (evM _ _ _ I1 o l l1), (evM _ _ _ I2 o l0 l1); cbn in HM; try contradiction; [|exact I].
      cbn. split; cbn; [|reflexivity]. apply Forall2_app; [assumption|constructor; [assumption|constructor]].
    - pose proof (get_all_rel Rm ma _ _ Hm) as G. rewrite <- Hs.
      destruct (get_all (fst st1) ma), (get_all (fst st2) ma); cbn in G; try contradiction; [|exact I].
      destruct (get_all (snd st1) sa); [|exact I].
      specialize (HS o _ _ l1 G).
      destruct (evS _ _ _ I1 o l l1), (evS _ _ _ I2 o l0 l1); cbn in HS; try contradiction; [|exact I].
      subst. cbn. split; cbn; [assumption|reflexivity].
    - pose proof (nth_error_rel Rm _ _ s Hm) as G.
      destruct (nth_error (fst st1) s), (nth_error (fst st2) s); cbn in G; try contradiction; [|exact I].
      pose proof (set_slot_rel Rm _ _ d _ _ Hm G) as G2.
      destruct (set_slot (fst st1) d c), (set_slot (fst st2) d c0); cbn in G2; try contradiction; cbn; [|exact I].
      split; cbn; assumption.
    - rewrite <- Hs. destruct (nth_error (snd st1) s); [|exact I].
      destruct (set_slot (snd st1) d s0); cbn; [|exact I]. split; cbn; [assumption|reflexivity].
    - rewrite <- Hs. destruct (nth_error (snd st1) sarg) as [s|]; [|exact I].
      destruct (test s); [apply IHp|apply IHq]; split; assumption.
    - apply repeat_rel; [exact IHp|split; assumption].
    - apply while_rel; [exact IHp|split; assumption].
  Qed.
End Simulation.
