(* C20 — (1) backend independence THROUGH ONE MODEL: the correspondence check ties every backend to
   C03's model separately; if two backends each agree with the model primitive by primitive, every
   program gives the same panics, the same scalars and matrices with the same abstraction on both.
   (2) The default (derived) methods of the traits are determined by the primitives: written once
   against `shape` / `get` / `set`, they return on every lawful backend what C03's model returns on the
   abstracted matrix — statistics (mean / var / std along an axis), and the in-place loops
   (binarize_mut, scale_mut) whose result cell (r, c) only depends on the old cell (r, c). *)
From Coq Require Import List Arith Bool Lia PeanoNat FinFun.
From SC Require Import Base.Num C03.Model C03.ProofsBase C03.ProofsAlg C20.Model C20.Proofs.
Import ListNotations.

Section Independence.
  Variable S opM opS : Type.
  Variable I1 I2 Im : impl S opM opS.
  Variable a1 : carrier _ _ _ I1 -> carrier _ _ _ Im.
  Variable a2 : carrier _ _ _ I2 -> carrier _ _ _ Im.

  Definition agrees_with_model (I : impl S opM opS) (a : carrier _ _ _ I -> carrier _ _ _ Im) : Prop :=
    prims_agree S opM opS I Im (carrier _ _ _ Im) a (fun x => x).
  Definition same_obs (st1 : state _ _ _ I1) (st2 : state _ _ _ I2) : Prop :=
    map a1 (fst st1) = map a2 (fst st2) /\ snd st1 = snd st2.

  Lemma Forall2_map_eq {A B} (f : A -> B) : forall l m, Forall2 (fun x y => f x = y) l m -> map f l = m.
  Proof. intros l m H. induction H as [|x y l m E H IH]; cbn; [reflexivity|]. rewrite E, IH. reflexivity. Qed.
  Lemma Forall2_map_refl {A B} (f : A -> B) : forall l, Forall2 (fun x y => f x = y) l (map f l).
  Proof. induction l; cbn; constructor; auto. Qed.

  Lemma independence : agrees_with_model I1 a1 -> agrees_with_model I2 a2 ->
    forall p st1 st2, same_obs st1 st2 -> rel_opt same_obs (run _ _ _ I1 p st1) (run _ _ _ I2 p st2).
  Proof.
    intros H1 H2 p st1 st2 [Hm Hs].
    set (stm := (map a1 (fst st1), snd st1) : state _ _ _ Im).
    assert (R1 : Rst S opM opS I1 Im (carrier _ _ _ Im) a1 (fun x => x) st1 stm).
    { split; [apply Forall2_map_refl | reflexivity]. }
    assert (R2 : Rst S opM opS I2 Im (carrier _ _ _ Im) a2 (fun x => x) st2 stm).
    { split; [unfold stm; cbn [fst]; rewrite Hm; apply Forall2_map_refl | cbn; symmetry; exact Hs]. }
    pose proof (simulation S opM opS I1 Im _ a1 (fun x => x) H1 p st1 stm R1) as S1.
    pose proof (simulation S opM opS I2 Im _ a2 (fun x => x) H2 p st2 stm R2) as S2.
    destruct (run _ _ _ I1 p st1) as [r1|], (run _ _ _ I2 p st2) as [r2|], (run _ _ _ Im p stm) as [rm|];
      cbn in *; try contradiction; try exact I.
    destruct S1 as [F1 E1], S2 as [F2 E2]. split.
    - rewrite (Forall2_map_eq a1 _ _ F1), (Forall2_map_eq a2 _ _ F2). reflexivity.
    - congruence.
  Qed.
End Independence.

Section Derived.
  Context {T : Type} (K : Ops T).
  Local Notation zero := (K.(o0)).
  Local Notation one := (K.(o1)).

  (* what a backend has to provide; everything below is written against these four only *)
  Record backend := mkB {
    car : Type;
    bshape : car -> nat * nat;
    bget : car -> nat -> nat -> T;
    bset : car -> nat -> nat -> T -> car }.
  Definition brows (B : backend) (m : car B) := fst (bshape B m).
  Definition bcols (B : backend) (m : car B) := snd (bshape B m).
  (* the abstraction function: logical view *)
  Definition bview (B : backend) (m : car B) : dm T := tab (brows B m) (bcols B m) (bget B m).
  (* the per-primitive obligations on `set` (what the correspondence groups `set` / `shape` / `get` test) *)
  Record lawful (B : backend) : Prop := mkLaw {
    shape_set : forall m r c x, bshape B (bset B m r c x) = bshape B m;
    get_set_same : forall m r c x, r < brows B m -> c < bcols B m -> bget B (bset B m r c x) r c = x;
    get_set_other : forall m r c x r' c', r < brows B m -> c < bcols B m -> r' < brows B m -> c' < bcols B m ->
      (r', c') <> (r, c) -> bget B (bset B m r c x) r' c' = bget B m r' c' }.

  Lemma get_bview B m r c : r < brows B m -> c < bcols B m -> get K (bview B m) r c = bget B m r c.
  Proof. intros Hr Hc. unfold bview. apply get_tab; assumption. Qed.

  (* ---------- MatrixStats defaults (src/linalg/stats.rs), transliterated against shape / get ---------- *)
  Definition d_line (B : backend) (m : car B) (axis0 : bool) (i j : nat) : T :=
    if axis0 then bget B m j i else bget B m i j.
  Definition d_nlines (B : backend) (m : car B) (axis0 : bool) := if axis0 then bcols B m else brows B m.
  Definition d_len (B : backend) (m : car B) (axis0 : bool) := if axis0 then brows B m else bcols B m.
  Definition d_mean (B : backend) (m : car B) (axis0 : bool) : list T :=
    map (fun i => K.(odiv) (osumn K (d_len B m axis0) (fun j => d_line B m axis0 i j)) (oofnat K (d_len B m axis0)))
        (seq 0 (d_nlines B m axis0)).
  Definition d_var (B : backend) (m : car B) (axis0 : bool) : list T :=
    map (fun i =>
           let len := d_len B m axis0 in
           let mu := K.(odiv) (osumn K len (fun j => d_line B m axis0 i j)) (oofnat K len) in
           let sq := osumn K len (fun j => K.(omul) (d_line B m axis0 i j) (d_line B m axis0 i j)) in
           K.(osub) (K.(odiv) sq (oofnat K len)) (K.(omul) mu mu))
        (seq 0 (d_nlines B m axis0)).
  Definition d_std (B : backend) (m : car B) (axis0 : bool) : list T := map K.(osqrt) (d_var B m axis0).

  Lemma d_line_view B m axis0 i j : i < d_nlines B m axis0 -> j < d_len B m axis0 ->
    line K (bview B m) axis0 i j = d_line B m axis0 i j.
  Proof.
    unfold line, d_line, d_nlines, d_len. destruct axis0; intros Hi Hj; apply get_bview; assumption.
  Qed.

  Lemma d_mean_model B m axis0 : d_mean B m axis0 = mean K (bview B m) axis0.
  Proof.
    unfold d_mean, mean.
    replace (n_lines (bview B m) axis0) with (d_nlines B m axis0) by (destruct axis0; reflexivity).
    replace (line_len (bview B m) axis0) with (d_len B m axis0) by (destruct axis0; reflexivity).
    apply map_ext_in. intros i Hi. apply in_seq in Hi. f_equal.
    apply osumn_ext. intros j Hj. symmetry. apply d_line_view; lia.
  Qed.
  Lemma d_var_model B m axis0 : d_var B m axis0 = var K (bview B m) axis0.
  Proof.
    unfold d_var, var.
    replace (n_lines (bview B m) axis0) with (d_nlines B m axis0) by (destruct axis0; reflexivity).
    replace (line_len (bview B m) axis0) with (d_len B m axis0) by (destruct axis0; reflexivity).
    apply map_ext_in. intros i Hi. apply in_seq in Hi. cbv zeta.
    rewrite (osumn_ext K _ (fun j => d_line B m axis0 i j) (fun j => line K (bview B m) axis0 i j))
      by (intros j Hj; symmetry; apply d_line_view; lia).
    rewrite (osumn_ext K _ (fun j => K.(omul) (d_line B m axis0 i j) (d_line B m axis0 i j))
                           (fun j => K.(omul) (line K (bview B m) axis0 i j) (line K (bview B m) axis0 i j)))
      by (intros j Hj; rewrite d_line_view by lia; reflexivity).
    reflexivity.
  Qed.
  Lemma d_std_model B m axis0 : d_std B m axis0 = std K (bview B m) axis0.
  Proof. unfold d_std, std. rewrite d_var_model. reflexivity. Qed.

  (* hence: the statistics of two matrices with the same logical view coincide, whatever the backends *)
  Lemma stats_backend_free B1 B2 (m1 : car B1) (m2 : car B2) axis0 : bview B1 m1 = bview B2 m2 ->
    d_mean B1 m1 axis0 = d_mean B2 m2 axis0 /\ d_var B1 m1 axis0 = d_var B2 m2 axis0 /\
    d_std B1 m1 axis0 = d_std B2 m2 axis0.
  Proof. intros H. rewrite !d_mean_model, !d_var_model, !d_std_model, H. repeat split. Qed.

  (* ---------- in-place cell loops: `for r in 0..n { for c in 0..p { m.set(r, c, h r c (m.get(r, c))) } }` ---------- *)
  Definition cells (n p : nat) : list (nat * nat) := list_prod (seq 0 n) (seq 0 p).
  Definition cell_loop (B : backend) (h : nat -> nat -> T -> T) (cs : list (nat * nat)) (m : car B) : car B :=
    fold_left (fun acc rc => bset B acc (fst rc) (snd rc) (h (fst rc) (snd rc) (bget B acc (fst rc) (snd rc)))) cs m.

  Lemma NoDup_app' {A} (l l' : list A) : NoDup l -> NoDup l' -> (forall x, In x l -> ~ In x l') -> NoDup (l ++ l').
  Proof.
    induction 1 as [|x l Hx Hl IH]; intros Hl' Hd; cbn; [exact Hl'|]. constructor.
    - intro Hin. apply in_app_or in Hin as [H|H]; [contradiction|]. apply (Hd x); [left; reflexivity|exact H].
    - apply IH; [exact Hl'|]. intros y Hy. apply Hd. right. exact Hy.
  Qed.
  Lemma NoDup_list_prod {A B'} (l : list A) (l' : list B') : NoDup l -> NoDup l' -> NoDup (list_prod l l').
  Proof.
    intros Hl Hl'. induction Hl as [|x l Hx Hl IH]; cbn [list_prod]; [constructor|].
    apply NoDup_app'.
    - apply FinFun.Injective_map_NoDup; [|exact Hl']. intros y1 y2 E. congruence.
    - exact IH.
    - intros [a b] Hin1 Hin2. apply in_map_iff in Hin1 as (y & E & _). injection E as <- <-.
      apply in_prod_iff in Hin2 as [Hin2 _]. contradiction.
  Qed.
  Lemma cells_NoDup n p : NoDup (cells n p).
  Proof. apply NoDup_list_prod; apply seq_NoDup. Qed.
  Lemma in_cells n p r c : In (r, c) (cells n p) <-> r < n /\ c < p.
  Proof. unfold cells. rewrite in_prod_iff, !in_seq. lia. Qed.

  Definition cell_eq_dec : forall x y : nat * nat, {x = y} + {x <> y}.
  Proof. decide equality; apply Nat.eq_dec. Defined.

  (* the loop invariant: visited cells hold h(old value), the others are untouched, the shape never changes *)
  Lemma cell_loop_spec B (L : lawful B) h : forall cs m,
    NoDup cs -> (forall rc, In rc cs -> fst rc < brows B m /\ snd rc < bcols B m) ->
    bshape B (cell_loop B h cs m) = bshape B m /\
    forall r c, r < brows B m -> c < bcols B m ->
      bget B (cell_loop B h cs m) r c = if in_dec cell_eq_dec (r, c) cs
                                        then h r c (bget B m r c) else bget B m r c.
  Proof.
    induction cs as [|[r0 c0] cs IH]; intros m Hnd Hin.
    - split; [reflexivity|]. intros r c _ _. reflexivity.
    - cbn [cell_loop fold_left fst snd].
      set (m1 := bset B m r0 c0 (h r0 c0 (bget B m r0 c0))).
      assert (Hr0 : r0 < brows B m /\ c0 < bcols B m) by (apply (Hin (r0, c0)); left; reflexivity).
      assert (Hs1 : bshape B m1 = bshape B m) by apply (shape_set B L).
      inversion Hnd as [|x l Hx Hnd' E]; subst.
      destruct (IH m1 Hnd') as [IHs IHg].
      { intros rc Hrc. unfold brows, bcols. rewrite Hs1. apply Hin. right. exact Hrc. }
      fold (cell_loop B h cs m1). split; [rewrite IHs; exact Hs1|].
      intros r c Hr Hc. rewrite IHg by (unfold brows, bcols; rewrite Hs1; assumption).
      destruct (in_dec _ (r, c) ((r0, c0) :: cs)) as [Hi|Hi]; destruct (in_dec _ (r, c) cs) as [Hj|Hj].
      + (* (r,c) in cs, hence different from (r0,c0) *)
        assert (Hne : (r, c) <> (r0, c0)) by (intros E; rewrite E in Hj; contradiction).
        unfold m1. rewrite (get_set_other B L) by (try assumption; apply Hr0). reflexivity.
      + destruct Hi as [E|Hi]; [|contradiction]. injection E as <- <-.
        unfold m1. apply (get_set_same B L); apply Hr0.
      + exfalso. apply Hi. right. exact Hj.
      + assert (Hne : (r, c) <> (r0, c0)) by (intros E; apply Hi; left; symmetry; exact E).
        unfold m1. apply (get_set_other B L); try assumption; apply Hr0.
  Qed.

  (* any visiting order that touches every cell exactly once gives the same matrix (stats.rs visits
     column by column for axis 0, row by row otherwise) *)
  Definition full_order (n p : nat) (cs : list (nat * nat)) : Prop :=
    NoDup cs /\ forall r c, In (r, c) cs <-> r < n /\ c < p.
  Lemma cells_full n p : full_order n p (cells n p).
  Proof. split; [apply cells_NoDup | apply in_cells]. Qed.
  Lemma cells_swapped_full n p : full_order n p (map (fun cr => (snd cr, fst cr)) (cells p n)).
  Proof.
    split.
    - apply Injective_map_NoDup; [|apply cells_NoDup]. intros [a b] [a' b'] E. cbn in E. congruence.
    - intros r c. rewrite in_map_iff. split.
      + intros ([c' r'] & E & Hin). cbn in E. injection E as <- <-. apply in_cells in Hin. lia.
      + intros H. exists (c, r). split; [reflexivity|]. apply in_cells. lia.
  Qed.

  Lemma cell_loop_view B (L : lawful B) h cs m : full_order (brows B m) (bcols B m) cs ->
    bview B (cell_loop B h cs m) = tab (brows B m) (bcols B m) (fun r c => h r c (bget B m r c)).
  Proof.
    intros [Hnd Hin].
    destruct (cell_loop_spec B L h cs m Hnd) as [Hs Hg].
    { intros [r c] H. apply Hin in H. exact H. }
    unfold bview, brows, bcols. rewrite Hs. apply tab_ext. intros r c Hr Hc.
    rewrite Hg by assumption.
    destruct (in_dec cell_eq_dec (r, c) cs) as [_|Hn]; [reflexivity|].
    exfalso. apply Hn. apply Hin. split; assumption.
  Qed.

  (* MatrixPreprocessing::binarize_mut *)
  Definition d_binarize (B : backend) (m : car B) (threshold : T) : car B :=
    cell_loop B (fun _ _ v => if K.(oltb) threshold v then one else zero) (cells (brows B m) (bcols B m)) m.
  Lemma d_binarize_model B (L : lawful B) m t : bview B (d_binarize B m t) = binarize K (bview B m) t.
  Proof.
    unfold d_binarize. rewrite (cell_loop_view B L) by apply cells_full.
    unfold binarize. cbn [bview nrows ncols tab]. apply tab_ext. intros r c Hr Hc.
    rewrite get_bview by assumption. reflexivity.
  Qed.

  (* MatrixStats::scale_mut, when `mean` and `std` are long enough (otherwise it panics on every backend:
     the index expression is evaluated before any backend method is called) *)
  Definition d_scale (B : backend) (m : car B) (mean_ std_ : list T) (axis0 : bool) : car B :=
    cell_loop B (fun r c v => let i := if axis0 then c else r in
                              K.(odiv) (K.(osub) v (nth i mean_ zero)) (nth i std_ zero))
              (if axis0 then map (fun cr => (snd cr, fst cr)) (cells (bcols B m) (brows B m))
               else cells (brows B m) (bcols B m)) m.
  Lemma d_scale_model B (L : lawful B) m mean_ std_ axis0 :
    d_nlines B m axis0 <= length mean_ -> d_nlines B m axis0 <= length std_ ->
    scale K (bview B m) mean_ std_ axis0 = Some (bview B (d_scale B m mean_ std_ axis0)).
  Proof.
    intros H1 H2. unfold scale.
    replace (n_lines (bview B m) axis0) with (d_nlines B m axis0) by (destruct axis0; reflexivity).
    assert (E1 : (length mean_ <? d_nlines B m axis0) = false) by (apply Nat.ltb_ge; exact H1).
    assert (E2 : (length std_ <? d_nlines B m axis0) = false) by (apply Nat.ltb_ge; exact H2).
    rewrite E1, E2. cbn [orb]. f_equal. unfold d_scale.
    rewrite (cell_loop_view B L) by (destruct axis0; [apply cells_swapped_full | apply cells_full]).
    cbn [bview nrows ncols tab]. apply tab_ext. intros r c Hr Hc. cbv zeta.
    rewrite get_bview by assumption. reflexivity.
  Qed.

  (* hence the in-place defaults, too, only depend on the logical view *)
  Lemma loops_backend_free B1 B2 (L1 : lawful B1) (L2 : lawful B2) (m1 : car B1) (m2 : car B2) t mean_ std_ axis0 :
    bview B1 m1 = bview B2 m2 ->
    bview B1 (d_binarize B1 m1 t) = bview B2 (d_binarize B2 m2 t) /\
    (d_nlines B1 m1 axis0 <= length mean_ -> d_nlines B1 m1 axis0 <= length std_ ->
     bview B1 (d_scale B1 m1 mean_ std_ axis0) = bview B2 (d_scale B2 m2 mean_ std_ axis0)).
  Proof.
    intros H. split.
    - rewrite (d_binarize_model B1 L1), (d_binarize_model B2 L2), H. reflexivity.
    - intros H1 H2.
      assert (Hn : d_nlines B1 m1 axis0 = d_nlines B2 m2 axis0).
      { pose proof (f_equal nrows H) as Hr. pose proof (f_equal ncols H) as Hc. cbn in Hr, Hc.
        unfold d_nlines. destruct axis0; assumption. }
      pose proof (d_scale_model B1 L1 m1 mean_ std_ axis0 H1 H2) as S1.
      rewrite Hn in H1, H2.
      pose proof (d_scale_model B2 L2 m2 mean_ std_ axis0 H1 H2) as S2.
      rewrite H in S1. rewrite S1 in S2. congruence.
  Qed.

  (* non-vacuity: a backend that stores the logical view itself (shape + entry function) is lawful;
     so is, e.g., any strided representation whose `set` writes the addressed cell *)
  Definition fun_backend : backend :=
    mkB ((nat * nat) * (nat -> nat -> T))%type
        (fun m => fst m)
        (fun m r c => snd m r c)
        (fun m r c x => (fst m, fun r' c' => if (r' =? r) && (c' =? c) then x else snd m r' c')).
  Lemma fun_backend_lawful : lawful fun_backend.
  Proof.
    constructor.
    - reflexivity.
    - intros m r c x _ _. cbn. rewrite !Nat.eqb_refl. reflexivity.
    - intros m r c x r' c' _ _ _ _ Hne. cbn.
      destruct (Nat.eqb_spec r' r) as [->|]; destruct (Nat.eqb_spec c' c) as [->|]; cbn; try reflexivity.
      exfalso. apply Hne. reflexivity.
  Qed.
End Derived.
