(* C20 — layout freeness.  A backend matrix may live in memory with ANY strides / offset inside a
   larger allocation (ndarray: standard, transposed = reversed strides, step-sliced; nalgebra: column
   major; DenseMatrix: column major).  `smat` is that general form.  Flatten and reshape DEFINED THROUGH
   `get` — iterate the logical index space in row-major order, which is what the repaired bindings do —
   depend only on the logical view: two representations with the same view give the same result, and
   the result is the one C03's model (`to_row_vector`, `reshape`, `transpose`) assigns to the abstracted
   matrix.  For all shapes, strides, offsets and buffers. *)
From Coq Require Import List Arith Bool Lia PeanoNat.
From SC Require Import Base.Num C03.Model C03.ProofsBase.
Import ListNotations.

Lemma nth_firstn_lt {A} (d : A) : forall (l : list A) n i, i < n -> nth i (firstn n l) d = nth i l d.
Proof.
  induction l as [|x l IH]; intros n i H.
  - destruct n; destruct i; reflexivity.
  - destruct n as [|n]; [lia|]. destruct i as [|i]; cbn; [reflexivity|]. apply IH. lia.
Qed.
Lemma nth_skipn_add {A} (d : A) : forall k (l : list A) i, nth i (skipn k l) d = nth (k + i) l d.
Proof.
  induction k as [|k IH]; intros l i; [reflexivity|].
  destruct l as [|x l]; cbn [skipn Nat.add].
  - destruct i; reflexivity.
  - cbn [nth]. apply IH.
Qed.

Section Layout.
  Context {T : Type} (K : Ops T).
  Local Notation zero := (K.(o0)).

  Record smat := mkS { sn : nat; sp : nat; soff : nat; srs : nat; scs : nat; sbuf : list T }.
  Definition sget (m : smat) (r c : nat) : T := nth (soff m + r * srs m + c * scs m) (sbuf m) zero.
  (* reversed_axes: shape and strides are swapped, no element moves *)
  Definition stranspose (m : smat) : smat := mkS (sp m) (sn m) (soff m) (scs m) (srs m) (sbuf m).
  Definition sflatten (m : smat) : list T :=
    flat_map (fun r => map (fun c => sget m r c) (seq 0 (sp m))) (seq 0 (sn m)).
  (* reshape: collect in logical row-major order, re-wrap in standard layout *)
  Definition sreshape (m : smat) (n p : nat) : option smat :=
    if negb (sn m * sp m =? n * p) then None else Some (mkS n p 0 p 1 (sflatten m)).
  (* the abstraction function into C03's model *)
  Definition sabs (m : smat) : dm T := tab (sn m) (sp m) (sget m).
  Definition same_view (a b : smat) : Prop :=
    sn a = sn b /\ sp a = sp b /\ forall r c, r < sn a -> c < sp a -> sget a r c = sget b r c.
  (* the defective variant (D12): flatten in MEMORY order of a compact buffer *)
  Definition sflatten_memory (m : smat) : list T := firstn (sn m * sp m) (skipn (soff m) (sbuf m)).

  Lemma sabs_wf m : wf (sabs m). Proof. apply tab_wf. Qed.
  Lemma get_sabs m r c : r < sn m -> c < sp m -> get K (sabs m) r c = sget m r c.
  Proof. intros Hr Hc. unfold sabs. apply get_tab; assumption. Qed.

  Lemma sflatten_model m : sflatten m = to_row_vector K (sabs m).
  Proof.
    unfold to_row_vector, row_major, sflatten. cbn [sabs nrows ncols tab].
    apply flat_map_ext_in. intros r Hr. apply in_seq in Hr.
    apply map_ext_in. intros c Hc. apply in_seq in Hc. symmetry. apply get_sabs; lia.
  Qed.

  Lemma same_view_sabs a b : same_view a b -> sabs a = sabs b.
  Proof.
    intros (Hn & Hp & Hg). unfold sabs. rewrite <- Hn, <- Hp. apply tab_ext. exact Hg.
  Qed.
  Lemma sabs_same_view a b : sabs a = sabs b -> same_view a b.
  Proof.
    intros H. assert (Hn : sn a = sn b) by (apply (f_equal nrows) in H; exact H).
    assert (Hp : sp a = sp b) by (apply (f_equal ncols) in H; exact H).
    repeat split; try assumption. intros r c Hr Hc.
    rewrite <- (get_sabs a) by assumption. rewrite H. apply get_sabs; lia.
  Qed.

  Lemma flatten_layout_free a b : same_view a b -> sflatten a = sflatten b.
  Proof. intros H. rewrite !sflatten_model. rewrite (same_view_sabs a b H). reflexivity. Qed.

  Lemma sget_transpose m r c : sget (stranspose m) r c = sget m c r.
  Proof. unfold sget, stranspose. cbn. f_equal. lia. Qed.

  Lemma sabs_transpose m : sabs (stranspose m) = transpose K (sabs m).
  Proof.
    unfold transpose, sabs at 1. cbn [stranspose sn sp nrows ncols sabs tab].
    apply tab_ext. intros r c Hr Hc. rewrite sget_transpose. symmetry. apply get_sabs; assumption.
  Qed.

  Lemma flatten_after_transpose m :
    sflatten (stranspose m) = to_row_vector K (transpose K (sabs m)) /\
    sflatten (stranspose m) = flat_map (fun c => map (fun r => sget m r c) (seq 0 (sn m))) (seq 0 (sp m)).
  Proof.
    split.
    - rewrite sflatten_model, sabs_transpose. reflexivity.
    - unfold sflatten. cbn [stranspose sn sp]. apply flat_map_ext_in. intros c _.
      apply map_ext. intros r. apply sget_transpose.
  Qed.

  Lemma transpose_twice_view m : same_view (stranspose (stranspose m)) m.
  Proof. repeat split. Qed.

  Lemma sflatten_length m : length (sflatten m) = sn m * sp m.
  Proof. rewrite sflatten_model. unfold to_row_vector. rewrite row_major_length. reflexivity. Qed.

  Lemma reshape_layout_free m n p : sn m * sp m = n * p ->
    exists m', sreshape m n p = Some m' /\ sn m' = n /\ sp m' = p /\
               sflatten m' = sflatten m /\ reshape K (sabs m) n p = Some (sabs m').
  Proof.
    intros H. unfold sreshape. apply Nat.eqb_eq in H as H'. rewrite H'. cbn [negb].
    eexists. split; [reflexivity|]. cbn [sn sp].
    set (m' := mkS n p 0 p 1 (sflatten m)).
    assert (Hget : forall r c, r < n -> c < p ->
              sget m' r c = get K (sabs m) ((r * p + c) / sp m) ((r * p + c) mod sp m)).
    { intros r c Hr Hc. unfold sget, m'. cbn [soff srs scs sbuf].
      replace (0 + r * p + c * 1) with (r * p + c) by lia.
      rewrite sflatten_model. unfold to_row_vector.
      rewrite (nth_row_major_divmod K (sabs m)); [reflexivity|].
      cbn [sabs nrows ncols tab]. rewrite H. nia. }
    assert (Hre : reshape K (sabs m) n p = Some (sabs m')).
    { unfold reshape. cbn [sabs nrows ncols tab]. rewrite H'. cbn [negb]. f_equal.
      unfold sabs. cbn [sn sp m']. apply tab_ext. intros r c Hr Hc. cbv beta zeta.
      rewrite Hget by assumption. replace (r * p + c) with (r * p + c) by reflexivity.
      reflexivity. }
    repeat split; try assumption.
    destruct (reshape_spec K (sabs m) n p) as (m2 & E & _ & _ & _ & Hrm & _).
    { cbn [sabs nrows ncols tab]. exact H. }
    rewrite Hre in E. injection E as E. rewrite !sflatten_model. unfold to_row_vector.
    rewrite E. exact Hrm.
  Qed.

  Lemma reshape_none_on_mismatch m n p : sn m * sp m <> n * p ->
    sreshape m n p = None /\ reshape K (sabs m) n p = None.
  Proof.
    intros H. split.
    - unfold sreshape. apply Nat.eqb_neq in H. rewrite H. reflexivity.
    - apply reshape_none. cbn [sabs nrows ncols tab]. exact H.
  Qed.

  (* flatten / reshape of two representations with the same view agree (incl. panic behaviour) *)
  Lemma reshape_same_view a b n p : same_view a b ->
    match sreshape a n p, sreshape b n p with
    | Some x, Some y => same_view x y
    | None, None => True
    | _, _ => False
    end.
  Proof.
    intros H. pose proof (flatten_layout_free a b H) as Hf. destruct H as (Hn & Hp & _).
    unfold sreshape. rewrite <- Hn, <- Hp. destruct (sn a * sp a =? n * p); cbn [negb]; [|exact I].
    rewrite Hf. repeat split.
  Qed.

  (* memory-order flattening coincides with the logical one on the standard layout ... *)
  Lemma memory_order_on_standard_layout n p off buf : off + n * p <= length buf ->
    sflatten_memory (mkS n p off p 1 buf) = sflatten (mkS n p off p 1 buf).
  Proof.
    intros Hlen. unfold sflatten_memory. cbn [sn sp soff sbuf].
    apply (nth_ext _ _ zero zero).
    - rewrite sflatten_length. cbn [sn sp]. rewrite firstn_length, skipn_length. lia.
    - intros i Hi. rewrite firstn_length, skipn_length in Hi.
      assert (Hi' : i < n * p) by lia.
      assert (Hp : p <> 0) by (intros ->; lia).
      pose proof (Nat.div_mod i p Hp). pose proof (Nat.mod_upper_bound i p Hp).
      assert (i / p < n) by (apply Nat.div_lt_upper_bound; lia).
      rewrite nth_firstn_lt by exact Hi'. rewrite nth_skipn_add.
      rewrite sflatten_model. unfold to_row_vector.
      rewrite (nth_row_major_divmod K) by (cbn [sabs nrows ncols tab sn sp]; exact Hi').
      change (ncols (sabs (mkS n p off p 1 buf))) with p.
      rewrite get_sabs by (cbn [sn sp]; assumption).
      unfold sget. cbn [soff srs scs sbuf]. f_equal. lia.
  Qed.
End Layout.
