(* C20 — backend independence as a simulation theorem.

   A "matrix program" is any straight-line / branching / looping composition of primitive
   operations of the BaseMatrix / BaseVector / stats / high-order signature.  Generic algorithms of
   the crate (everything written against `M: Matrix<T>`) are such programs: they touch a matrix
   only through the trait's primitives and take their control decisions from scalars.

   The deep embedding below is parametric in the signature (`opM`: primitives returning a matrix,
   `opS`: primitives returning a scalar) and in the implementation (carrier + interpretation of
   every primitive, `None` = panic).  Definitions only; the theorem is in Proofs.v. *)
From Coq Require Import List Arith Bool.
Import ListNotations.

Section Programs.
  Variable S : Type.            (* scalars: the same type in every backend *)
  Variable opM opS : Type.      (* names of the primitives *)

  Record impl := mkImpl {
    carrier : Type;
    evM : opM -> list carrier -> list S -> option carrier;
    evS : opS -> list carrier -> list S -> option S
  }.

  (* programs over an environment of matrix slots and scalar slots (new results are appended) *)
  Inductive prog :=
  | PSkip
  | PSeq (p q : prog)
  | PConst (s : S)                                        (* push a scalar constant *)
  | PM (o : opM) (margs sargs : list nat)                 (* push a matrix result *)
  | PS (o : opS) (margs sargs : list nat)                 (* push a scalar result *)
  | PSetM (dst src : nat)                                 (* overwrite a matrix slot (in-place variants) *)
  | PSetS (dst src : nat)
  | PIf (test : S -> bool) (sarg : nat) (p q : prog)      (* branch on a scalar *)
  | PRepeat (n : nat) (p : prog)                          (* counted loop *)
  | PWhile (fuel : nat) (test : S -> bool) (sarg : nat) (p : prog).   (* data-dependent loop *)

  Fixpoint get_all {A} (env : list A) (idx : list nat) : option (list A) :=
    match idx with
    | [] => Some []
    | i :: t => match nth_error env i, get_all env t with
                | Some a, Some r => Some (a :: r)
                | _, _ => None
                end
    end.
  Fixpoint set_slot {A} (env : list A) (i : nat) (a : A) : option (list A) :=
    match env, i with
    | [], _ => None
    | _ :: t, O => Some (a :: t)
    | x :: t, Datatypes.S j => option_map (cons x) (set_slot t j a)
    end.

  Section Run.
    Variable I : impl.
    Definition state := (list (carrier I) * list S)%type.

    Fixpoint repeat_run (f : state -> option state) (n : nat) (st : state) : option state :=
      match n with
      | O => Some st
      | Datatypes.S k => match f st with None => None | Some st' => repeat_run f k st' end
      end.
    Fixpoint while_run (f : state -> option state) (test : S -> bool) (sarg : nat) (fuel : nat) (st : state)
      : option state :=
      match nth_error (snd st) sarg with
      | None => None
      | Some s =>
        if test s then
          match fuel with
          | O => None                                   (* out of fuel: not a normal result *)
          | Datatypes.S k => match f st with None => None | Some st' => while_run f test sarg k st' end
          end
        else Some st
      end.

    Fixpoint run (p : prog) (st : state) : option state :=
      match p with
      | PSkip => Some st
      | PSeq p q => match run p st with None => None | Some st' => run q st' end
      | PConst s => Some (fst st, snd st ++ [s])
      | PM o ma sa =>
        match get_all (fst st) ma, get_all (snd st) sa with
        | Some ms, Some ss => match evM I o ms ss with
                              | Some r => Some (fst st ++ [r], snd st)
                              | None => None
                              end
        | _, _ => None
        end
      | PS o ma sa =>
        match get_all (fst st) ma, get_all (snd st) sa with
        | Some ms, Some ss => match evS I o ms ss with
                              | Some r => Some (fst st, snd st ++ [r])
                              | None => None
                              end
        | _, _ => None
        end
      | PSetM d s =>
        match nth_error (fst st) s with
        | Some a => option_map (fun e => (e, snd st)) (set_slot (fst st) d a)
        | None => None
        end
      | PSetS d s =>
        match nth_error (snd st) s with
        | Some a => option_map (fun e => (fst st, e)) (set_slot (snd st) d a)
        | None => None
        end
      | PIf test sarg p q =>
        match nth_error (snd st) sarg with
        | Some s => if test s then run p st else run q st
        | None => None
        end
      | PRepeat n p => repeat_run (run p) n st
      | PWhile fuel test sarg p => while_run (run p) test sarg fuel st
      end.
  End Run.
End Programs.
