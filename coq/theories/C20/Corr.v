(* C20 — correspondence interface.  Per-primitive agreement of the three backends (DenseMatrix,
   ndarray::Array2, nalgebra::DMatrix) with ONE model: C03's executable model of the dense matrix
   (SC.C03.Model), instantiated at binary64.

   A backend matrix is observed only through its LOGICAL VIEW: `shape()` and the entries read
   through `get(r, c)` in row-major order.  `L n p v` rebuilds C03's (column-major) `dm` from that
   view — this is the abstraction function `a_i` of the simulation theorem (C20/Proofs.v), made
   executable — the model function is run on it, and the logical view of the model's result is
   compared with the logical view of what the backend returned.  A panic of the backend is `None`.

   Comparators: `*_x` exact (Rust `==`, NaN = NaN), `*_t tol` relative tolerance
   |a-b| <= tol*max(1,|a|,|b|) for operations where a backend may legitimately accumulate in another
   order than the dense matrix (ndarray's sum/dot/matmul/mean_axis, nalgebra's gemm) or goes through
   libm (exp/powf).  Evaluated by `Eval vm_compute`.  No theorem depends on this file; it only
   depends on C03/Model.v (not on C03/Corr.v). *)
From Coq Require Import List ZArith NArith Bool Floats.
From SC Require Import Base.FloatUtil Base.Elem Base.Num C03.Model.
Import ListNotations.

Definition F : Ops float := FOps.
Definition nn := N.to_nat.

(* ---------- abstraction: logical view -> model matrix ---------- *)
Definition L (n p : N) (v : list float) : dm float :=
  tab (nn n) (nn p) (fun r c => nth (Nat.add c (Nat.mul r (nn p))) v 0%float).

(* ---------- comparators on the logical view ---------- *)
Definition view_eqb (eq : float -> float -> bool) (m : dm float) (e : N * N * list float) : bool :=
  let '(n, p, v) := e in
  Nat.eqb (nrows m) (nn n) && Nat.eqb (ncols m) (nn p) && list_eqb eq (row_major F m) v.

Definition k_m_x (x : option (dm float)) (e : option (N * N * list float)) : bool :=
  match x, e with
  | Some m, Some v => view_eqb feq m v
  | None, None => true
  | _, _ => false
  end.
Definition k_m_t (tol : float) (x : option (dm float)) (e : option (N * N * list float)) : bool :=
  match x, e with
  | Some m, Some v => view_eqb (feq_tol tol) m v
  | None, None => true
  | _, _ => false
  end.
(* absolute tolerance (the harness passes 1e-11 resp. 1e-9 times the scale of the INPUT) *)
Definition feq_a (t a b : float) : bool := feq a b || PrimFloat.leb (fabs (PrimFloat.sub a b)) t.
Definition k_m_a (t : float) (x : option (dm float)) (e : option (N * N * list float)) : bool :=
  match x, e with
  | Some m, Some v => view_eqb (feq_a t) m v
  | None, None => true
  | _, _ => false
  end.
Definition k_f_a (t : float) (x e : option float) : bool := option_eqb (feq_a t) x e.
Definition k_l_a (t : float) (x e : option (list float)) : bool := option_eqb (list_eqb (feq_a t)) x e.
Definition k_f_x (x e : option float) : bool := option_eqb feq x e.
Definition k_f_t (tol : float) (x e : option float) : bool := option_eqb (feq_tol tol) x e.
Definition k_l_x (x e : option (list float)) : bool := option_eqb (list_eqb feq) x e.
Definition k_l_t (tol : float) (x e : option (list float)) : bool := option_eqb (list_eqb (feq_tol tol)) x e.
Definition k_b (x e : option bool) : bool := option_eqb Bool.eqb x e.
Definition k_nl (x : option (list nat)) (e : option (list N)) : bool :=
  option_eqb nlist_eqb (option_map (map N.of_nat) x) e.
Definition k_shape (x : option (nat * nat)) (e : option (N * N)) : bool :=
  match x, e with
  | Some (a, b), Some (n, p) => Nat.eqb a (nn n) && Nat.eqb b (nn p)
  | None, None => true
  | _, _ => false
  end.

(* ---------- BaseMatrix: construction / access ---------- *)
Definition y_id (m : dm float) := Some m.                                   (* constructor round trip *)
Definition y_shape (m : dm float) := Some (shape m).
Definition y_from_row_vector (v : list float) := Some (from_row_vector v).
Definition y_to_row_vector (m : dm float) := Some (to_row_vector F m).
Definition y_fill (n p : N) (v : float) := Some (fill (nn n) (nn p) v).
Definition y_zeros (n p : N) := Some (zeros F (nn n) (nn p)).
Definition y_ones (n p : N) := Some (ones F (nn n) (nn p)).
Definition y_eye (n : N) := Some (eye F (nn n)).
Definition y_get (m : dm float) (r c : N) := get_chk m (nn r) (nn c).
(* set / *_element_mut: the backends test (row, col) against the shape; C03's `set` only tests the
   linear index (it is DenseMatrix's).  The bounds-tested variant is the common contract; the harness
   uses in-range positions and positions out of range in BOTH senses. *)
Definition in_range (m : dm float) (r c : N) : bool := (nn r <? nrows m) && (nn c <? ncols m).
Definition y_set (m : dm float) (r c : N) (v : float) := if in_range m r c then set m (nn r) (nn c) v else None.
Definition y_elem (which : N) (m : dm float) (r c : N) (x : float) :=
  let f := match which with
           | 0%N => fun v => PrimFloat.add v x
           | 1%N => fun v => PrimFloat.sub v x
           | 2%N => fun v => PrimFloat.mul v x
           | _ => fun v => PrimFloat.div v x
           end in
  if in_range m r c then upd_element F f m (nn r) (nn c) else None.
Definition y_get_row (m : dm float) (r : N) := get_row F m (nn r).
Definition y_get_col (m : dm float) (c : N) := get_col F m (nn c).
Definition y_copy_row (m : dm float) (r : N) (res : list float) := copy_row_as_vec F m (nn r) res.
Definition y_copy_col (m : dm float) (c : N) (res : list float) := copy_col_as_vec F m (nn c) res.

(* ---------- structure ---------- *)
Definition y_transpose (m : dm float) := Some (transpose F m).
Definition y_v_stack := v_stack F.
Definition y_h_stack := h_stack F.
Definition y_slice (m : dm float) (r0 r1 c0 c1 : N) := slice F m (nn r0) (nn r1) (nn c0) (nn c1).
Definition y_reshape (m : dm float) (n p : N) := reshape F m (nn n) (nn p).
Definition y_copy_from (a b : dm float) := copy_from a b.
Definition y_take (m : dm float) (index : list N) (axis0 : bool) := take F m (map nn index) axis0.

(* ---------- products ---------- *)
Definition y_matmul := matmul F.
Definition y_ab := ab F.
Definition y_dot := dot F.

(* ---------- element-wise ---------- *)
Definition y_zip (which : N) (a b : dm float) :=
  match which with 0%N => add F a b | 1%N => sub F a b | 2%N => mul F a b | _ => div F a b end.
Definition y_scalar (which : N) (m : dm float) (x : float) :=
  Some (match which with
        | 0%N => add_scalar F m x | 1%N => sub_scalar F m x | 2%N => mul_scalar F m x | _ => div_scalar F m x
        end).
Definition y_negative (m : dm float) := Some (negative F m).
Definition y_abs (m : dm float) := Some (abs F m).
Definition y_powg (m : dm float) (p : float) := Some (pow_with fpow m p).
Definition y_binarize (m : dm float) (t : float) := Some (binarize F m t).
Definition y_approximate_eq (a b : dm float) (err : float) := Some (approximate_eq F a b err).

(* ---------- reductions ---------- *)
Definition y_sum (m : dm float) := Some (sum F m).
Definition y_max (m : dm float) := Some (match max F m with Some v => v | None => neg_infinity end).
Definition y_min (m : dm float) := Some (match min F m with Some v => v | None => infinity end).
Definition y_norm2 (m : dm float) := Some (norm2 F m).
Definition y_norm_pinf (m : dm float) := Some (match norm_pinf F m with Some v => v | None => neg_infinity end).
Definition y_norm_ninf (m : dm float) := Some (match norm_ninf F m with Some v => v | None => infinity end).
Definition y_norm_p (m : dm float) (p : float) := Some (norm_p F m p).
Definition y_max_diff := max_diff F.                         (* rejects operands of different shape *)
Definition y_column_mean (m : dm float) := Some (column_mean F m).
Definition y_argmax (m : dm float) := Some (argmax F m).
Definition y_unique (m : dm float) := Some (unique F m).
Definition y_softmax := softmax F.

(* ---------- MatrixStats ---------- *)
Definition y_mean (m : dm float) (axis0 : bool) := Some (mean F m axis0).
Definition y_var (m : dm float) (axis0 : bool) := Some (var F m axis0).
Definition y_std (m : dm float) (axis0 : bool) := Some (std F m axis0).
Definition y_scale := scale F.
Definition y_cov := cov F.

(* ---------- BaseVector (the backend's RowVector type) ---------- *)
Definition y_vid (a : list float) := Some a.
Definition y_vget (a : list float) (i : N) := nth_error a (nn i).
Definition y_vdot := vdot F.
Definition y_vnorm2 (a : list float) := Some (vnorm2 F a).
Definition y_vnorm_p (a : list float) (p : float) := Some (vnorm_p F a p).
Definition y_vnorm_pinf (a : list float) := Some (match vnorm_pinf F a with Some v => v | None => neg_infinity end).
Definition y_vnorm_ninf (a : list float) := Some (match vnorm_ninf F a with Some v => v | None => infinity end).
Definition y_vzip (which : N) (a b : list float) :=
  match which with 0%N => vadd F a b | 1%N => vsub F a b | 2%N => vmul F a b | _ => vdiv F a b end.
Definition y_vscalar (which : N) (a : list float) (x : float) :=
  Some (match which with
        | 0%N => vadd_scalar F a x | 1%N => vsub_scalar F a x | 2%N => vmul_scalar F a x | _ => vdiv_scalar F a x
        end).
Definition y_velem (which : N) (a : list float) (i : N) (x : float) : option (list float) :=
  let f := match which with
           | 0%N => fun v => PrimFloat.add v x
           | 1%N => fun v => PrimFloat.sub v x
           | 2%N => fun v => PrimFloat.mul v x
           | 3%N => fun v => PrimFloat.div v x
           | _ => fun _ => x                                  (* set *)
           end in
  if nn i <? length a then Some (set_nth a (nn i) (f (nth (nn i) a 0%float))) else None.
Definition y_vapprox_eq (a b : list float) (err : float) := Some (vapprox_eq F a b err).
Definition y_vsum (a : list float) := Some (vsum F a).
Definition y_vmean (a : list float) := Some (vmean F a).
Definition y_vvar (a : list float) := Some (vvar F a).
Definition y_vstd (a : list float) := Some (vstd F a).
Definition y_vtake (a : list float) (index : list N) := vtake F a (map nn index).
Definition y_vcopy_from (a b : list float) := vcopy_from a b.
Definition y_vunique (a : list float) := Some (vunique F a).
Definition y_vfill (n : N) (v : float) := Some (vfill (nn n) v).
Definition y_vlen (a : list float) := Some [length a].
