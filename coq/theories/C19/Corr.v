(* C19 — correspondence interface: the model run on literal inputs (binary64 values, `N` integers,
   bit patterns) and compared with what the implementation / the format crates returned.  Used by
   harness/src/bin/c19.rs through `Eval vm_compute`. *)
From Coq Require Import List String NArith ZArith Bool Floats.
From SC Require Import Base.FloatUtil Base.Num C19.Model.
Import ListNotations.

(* ---------------- codec ---------------- *)
(* field keys are passed as small numbers; the harness uses the same table for its JSON text *)
Definition key_of_N (k : N) : string :=
  match k with
  | 0 => "nrows" | 1 => "ncols" | 2 => "values"
  | 3 => "NROWS" | 4 => "nrow" | 5 => "" | 6 => "valuess" | _ => "shape"
  end%N%string.

Definition ju (n : N) : sval float := VU64 n.
Definition js (l : list float) : sval float := VSeq l.
Definition jx : sval float := VOther.

Inductive exp_res := EOk (nrows ncols : N) (values : list float) | EErr (code arg : N).

Definition err_matches (e : de_error) (code arg : N) : bool :=
  match e with
  | InvalidLength n => N.eqb code 0 && N.eqb (N.of_nat n) arg
  | DuplicateField f => N.eqb code 1 && String.eqb f (key_of_N arg)
  | MissingField f => N.eqb code 2 && String.eqb f (key_of_N arg)
  | UnknownField k => N.eqb code 3 && String.eqb k (key_of_N arg)
  | InvalidType => N.eqb code 4
  | TrailingCharacters => N.eqb code 5
  | UnexpectedEof => N.eqb code 6
  end.
Definition res_matches (r : result (dm float)) (e : exp_res) : bool :=
  match r, e with
  | Ok m, EOk nr nc vs => N.eqb (dm_nrows m) nr && N.eqb (dm_ncols m) nc && flist_eq (dm_values m) vs
  | Err er, EErr code arg => err_matches er code arg
  | _, _ => false
  end.

Definition keyed (kv : list (N * sval float)) : list (string * sval float) :=
  map (fun p => (key_of_N (fst p), snd p)) kv.

(* what serde_json::from_str answered to an array / an object / something else *)
Definition corr_json_seq (l : list (sval float)) (e : exp_res) : bool := res_matches (json_de (JArr l)) e.
Definition corr_json_map (kv : list (N * sval float)) (e : exp_res) : bool := res_matches (json_de (JObj (keyed kv))) e.
Definition corr_json_other (e : exp_res) : bool := res_matches (json_de (@JOther float)) e.

(* the token stream recorded from the real `Serialize` impl *)
Inductive ktoken := KStruct (name_ok : bool) (len : N) | KField (key : N) (v : sval float) | KEnd.
Definition sval_eqb (a b : sval float) : bool :=
  match a, b with
  | VU64 x, VU64 y => N.eqb x y
  | VSeq x, VSeq y => flist_eq x y
  | VOther, VOther => true
  | _, _ => false
  end.
Definition token_matches (t : token float) (k : ktoken) : bool :=
  match t, k with
  | TStruct name len, KStruct ok len' => ok && String.eqb name "DenseMatrix" && N.eqb (N.of_nat len) len'
  | TField key v, KField key' v' => String.eqb key (key_of_N key') && sval_eqb v v'
  | TEnd, KEnd => true
  | _, _ => false
  end.
Definition kfields (ks : list ktoken) : list (N * sval float) :=
  flat_map (fun k => match k with KField key v => [(key, v)] | _ => [] end) ks.
(* (1) the model's encoder emits exactly the recorded stream; (2) the model's decoders, run on the
   recorded stream (sequence form, map form, reversed map form), give the matrix back *)
Definition corr_tokens (nrows ncols : N) (values : list float) (ks : list ktoken) : bool :=
  let m := mkDM nrows ncols values in
  let e := EOk nrows ncols values in
  forall2b token_matches (dm_serialize m) ks
  && res_matches (visit_seq (map snd (kfields ks))) e
  && res_matches (visit_map (keyed (kfields ks))) e
  && res_matches (visit_map (keyed (rev (kfields ks)))) e.

(* bincode bytes; scalars as bit patterns of `w` bytes *)
Definition corr_bincode_ser (w nrows ncols : N) (vals bytes : list N) : bool :=
  nlist_eqb (bincode_ser (N.to_nat w) (mkDM nrows ncols vals)) bytes.
Inductive exp_bin := BOk (nrows ncols : N) (vals : list N) | BErr.
Definition corr_bincode_de (w : N) (bytes : list N) (e : exp_bin) : bool :=
  match bincode_de (N.to_nat w) bytes, e with
  | Ok m, BOk nr nc vs => N.eqb (dm_nrows m) nr && N.eqb (dm_ncols m) nc && nlist_eqb (dm_values m) vs
  | Err UnexpectedEof, BErr => true
  | _, _ => false
  end.

(* ---------------- PartialEq ---------------- *)
Definition eps64 : float := 0x1p-52%float.
Definition eps32 : float := 0x1p-23%float.
Definition beq := Bool.eqb.
Definition obeq := option_eqb Bool.eqb.

Definition fdm (nr nc : N) (v : list float) : dm float := mkDM nr nc v.
(* `eps` is a parameter: f32 matrices (values widened exactly, lattice data) use eps32 *)
Definition corr_dm_eq (eps : float) (a b : dm float) (expected : bool) : bool :=
  beq (dm_eq FOps eps a b) expected.

Definition corr_lin_eq (ca : dm float) (ia : float) (cb : dm float) (ib : float) (expected : bool) : bool :=
  beq (lin_eq FOps eps64 (mkLin ca ia) (mkLin cb ib)) expected.

Definition flogit (coef intercept : dm float) (classes : list float) (nattr ncls : N) : @logit float :=
  mkLogit coef intercept classes nattr ncls.
Definition corr_logit_eq (a b : @logit float) (expected : bool) : bool :=
  beq (logit_eq FOps eps64 a b) expected.

Definition frn (i : N) (out : float) (feat : N) (v s : option float) (tc fc : option N) : @rnode float :=
  mkRNode i out feat v s tc fc.
Definition fcn (i : N) (out : N) (feat : N) (v s : option float) (tc fc : option N) : @cnode float :=
  mkCNode i out feat v s tc fc.
Definition frt (nodes : list (@rnode float)) (depth : N) : @rtree float := mkRTree nodes depth.
Definition fct (nodes : list (@cnode float)) (ncls : N) (classes : list float) (depth : N) : @ctree float :=
  mkCTree nodes ncls classes depth.
Definition corr_rtree_eq (a b : @rtree float) (expected : bool) : bool := beq (rtree_eq FOps eps64 a b) expected.
Definition corr_ctree_eq (a b : @ctree float) (expected : option bool) : bool := obeq (ctree_eq FOps eps64 a b) expected.
Definition corr_rforest_eq (a b : list (@rtree float)) (expected : bool) : bool := beq (rforest_eq FOps eps64 a b) expected.
Definition fcf (trees : list (@ctree float)) (classes : list float) : @cforest float := mkCForest trees classes.
Definition corr_cforest_eq (a b : @cforest float) (expected : option bool) : bool := obeq (cforest_eq FOps eps64 a b) expected.

Definition fpca (ev : dm float) (evals : list float) (proj : dm float) (mu pmu : list float) : @pca float :=
  mkPCA ev evals proj mu pmu.
Definition corr_pca_eq (a b : @pca float) (expected : bool) : bool := beq (pca_eq FOps eps64 a b) expected.
Definition corr_svd_eq (tol : float) (a b : dm float) (expected : option bool) : bool :=
  obeq (svd_eq FOps tol a b) expected.

Definition fsvm (b : float) (w : list float) (inst : list (list float)) : @svm float := mkSVM b w inst.
Definition corr_svm_eq (a b : @svm float) (expected : bool) : bool := beq (svm_eq FOps eps64 a b) expected.

Definition fkm (k : N) (y size : list N) (dist : float) (cent : list (list float)) : @kmeans float :=
  mkKMeans k y size dist cent.
Definition corr_kmeans_eq (a b : @kmeans float) (expected : bool) : bool := beq (kmeans_eq FOps eps64 a b) expected.

Definition fdb (labels : list Z) (ncls : N) (eps : float) : @dbscan float := mkDBSCAN labels ncls eps.
Definition corr_dbscan_eq (a b : @dbscan float) (expected : bool) : bool := beq (dbscan_eq FOps a b) expected.

Definition fkc (classes : list float) (y : list N) (k : N) : @knnc float := mkKNNC classes y k.
Definition corr_knnc_eq (a b : @knnc float) (expected : bool) : bool := beq (knnc_eq FOps eps64 a b) expected.
Definition fkr (y : list float) (k : N) : @knnr float := mkKNNR y k.
Definition corr_knnr_eq (a b : @knnr float) (expected : bool) : bool := beq (knnr_eq FOps eps64 a b) expected.

(* cover tree over Vec<f64> points with the Euclidian distance *)
Definition corr_covertree_eq (a b : list (list float)) (expected : bool) : bool :=
  beq (covertree_eq FOps (euclid FOps) a b) expected.

Definition fbern (labels : list float) (cc : list N) (priors : list float) (fc : list (list N))
           (lp : list (list float)) (nf : N) : @bernoulli float := mkBern labels cc priors fc lp nf.
Definition corr_bernoulli_eq (a b : @bernoulli float) (expected : bool) : bool := beq (bernoulli_eq FOps eps64 a b) expected.
Definition fcat (cc : list N) (labels priors : list float) (coef : list (list (list float))) (nf : N)
           (ncat : list N) : @categorical float := mkCat cc labels priors coef nf ncat.
Definition corr_categorical_eq (a b : @categorical float) (expected : bool) : bool :=
  beq (categorical_eq FOps eps64 a b) expected.
