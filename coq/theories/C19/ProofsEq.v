(* C19 — the hand-written PartialEq relations: reflexivity on finite data, symmetry, and what a
   difference must look like to be detected.  Generic in the scalar operations; the laws that the
   scalar comparisons must satisfy are explicit hypotheses (`scalar_laws`, `sub_sym`), discharged
   for the real numbers here and for binary64 in ProofsFloat.v. *)
From Coq Require Import List NArith ZArith Bool Arith Lia Reals Lra.
From SC Require Import Base.Num C19.Model.
Import ListNotations.

(* ---------------- combinators ---------------- *)
Lemma same_len_refl {A} (l : list A) : same_len l l = true.
Proof. unfold same_len. apply Nat.eqb_refl. Qed.
Lemma same_len_sym {A B} (a : list A) (b : list B) : same_len a b = same_len b a.
Proof. unfold same_len. apply Nat.eqb_sym. Qed.

Lemma forall2b_refl {A} (f : A -> A -> bool) l :
  (forall x, In x l -> f x x = true) -> forall2b f l l = true.
Proof.
  induction l as [|a l IH]; intros H; cbn; [reflexivity|].
  rewrite H by (left; reflexivity). rewrite IH; [reflexivity|]. intros x Hx. apply H. now right.
Qed.
Lemma forall2b_sym {A B} (f : A -> B -> bool) (g : B -> A -> bool) :
  (forall x y, f x y = g y x) -> forall a b, forall2b f a b = forall2b g b a.
Proof.
  intros H. induction a as [|x a IH]; destruct b as [|y b]; cbn; try reflexivity.
  now rewrite H, IH.
Qed.
Lemma forall2b_true_iff {A B} (f : A -> B -> bool) a b :
  forall2b f a b = true <-> Forall2 (fun x y => f x y = true) a b.
Proof.
  revert b. induction a as [|x a IH]; destruct b as [|y b]; cbn; split; intros H;
    try discriminate; try constructor; try (inversion H; fail).
  - apply andb_true_iff in H. tauto.
  - apply IH. apply andb_true_iff in H. tauto.
  - inversion H; subst. apply andb_true_iff. split; [assumption| now apply IH].
Qed.
Lemma Forall2_len {A B} (R : A -> B -> Prop) a b : Forall2 R a b -> List.length a = List.length b.
Proof. induction 1; cbn; congruence. Qed.
Lemma Forall2_impl {A B} (R1 R2 : A -> B -> Prop) a b :
  (forall x y, R1 x y -> R2 x y) -> Forall2 R1 a b -> Forall2 R2 a b.
Proof. intros H. induction 1; constructor; auto. Qed.
Lemma forall2b_length {A B} (f : A -> B -> bool) a b :
  forall2b f a b = true -> List.length a = List.length b.
Proof. intros H. apply forall2b_true_iff in H. eapply Forall2_len; eassumption. Qed.
Lemma forall2b_ext {A B} (f g : A -> B -> bool) a b :
  (forall x y, In x a -> In y b -> f x y = g x y) -> forall2b f a b = forall2b g a b.
Proof.
  revert b. induction a as [|x a IH]; destruct b as [|y b]; cbn; intros H; try reflexivity.
  rewrite H by (now left). rewrite IH; [reflexivity|]. intros; apply H; now right.
Qed.
Lemma zipall_refl {A} (f : A -> A -> bool) l :
  (forall x, In x l -> f x x = true) -> zipall f l l = true.
Proof.
  induction l as [|a l IH]; intros H; cbn; [reflexivity|].
  rewrite H by (left; reflexivity). rewrite IH; [reflexivity|]. intros x Hx. apply H. now right.
Qed.
Lemma idxall_refl {A} (f : A -> A -> bool) l :
  (forall x, In x l -> f x x = true) -> idxall f l l = Some true.
Proof.
  induction l as [|a l IH]; intros H; cbn; [reflexivity|].
  rewrite H by (left; reflexivity). apply IH. intros x Hx. apply H. now right.
Qed.
Lemma idxall_same_len {A B} (f : A -> B -> bool) a b :
  List.length a = List.length b -> idxall f a b = Some (forall2b f a b).
Proof.
  revert b. induction a as [|x a IH]; destruct b as [|y b]; cbn; intros H; try discriminate; try reflexivity.
  destruct (f x y); cbn; [apply IH; lia | reflexivity].
Qed.
Lemma idxall_o_refl {A} (f : A -> A -> option bool) l :
  (forall x, In x l -> f x x = Some true) -> idxall_o f l l = Some true.
Proof.
  induction l as [|a l IH]; intros H; cbn; [reflexivity|].
  rewrite H by (left; reflexivity). apply IH. intros x Hx. apply H. now right.
Qed.
Lemma nlist_eq_refl l : nlist_eq l l = true.
Proof. apply forall2b_refl. intros; apply N.eqb_refl. Qed.
Lemma nlist_eq_true a b : nlist_eq a b = true <-> a = b.
Proof.
  unfold nlist_eq. rewrite forall2b_true_iff. split.
  - induction 1; [reflexivity|]. f_equal; [now apply N.eqb_eq | assumption].
  - intros ->. induction b; constructor; [apply N.eqb_refl | assumption].
Qed.
Lemma approx_scan_refl {T} (O : Ops T) tol (l : list T) : forall k,
  (k <= List.length l)%nat -> (forall x, In x l -> gt_tol O tol x x = false) ->
  approx_scan O tol k l l = Some true.
Proof.
  induction l as [|a l IH]; intros k Hk H.
  - cbn in Hk. assert (k = 0)%nat by lia. subst. reflexivity.
  - destruct k; [reflexivity|]. cbn. rewrite H by (now left). apply IH; [cbn in Hk; lia|].
    intros; apply H; now right.
Qed.

(* ---------------- the laws the scalar comparisons must satisfy ---------------- *)
Section Laws.
  Context {T : Type} (O : Ops T) (eps : T).

  (* `fin` = the values on which reflexivity is claimed (finite floats; all reals) *)
  Record scalar_laws (fin : T -> Prop) : Prop := {
    sl_gt : forall x, fin x -> gt_eps O eps x x = false;
    sl_lt : forall x, fin x -> lt_eps O eps x x = true;
    sl_le : forall x, fin x -> le_eps O eps x x = true;
    sl_gt2 : forall x, fin x -> gt_tol O (two_eps O eps) x x = false;
    sl_eqb : forall x, fin x -> O.(oeqb) x x = true
  }.
  (* |x - y| = |y - x|: exact for the reals; for IEEE floats x - y and y - x are negations of
     each other (or both NaN), which is not derivable from Coq's float axioms without a
     formalised rounding theory, so it stays a hypothesis of the symmetry theorems *)
  Definition sub_sym : Prop := forall x y, O.(oabs) (O.(osub) x y) = O.(oabs) (O.(osub) y x).
  Definition eqb_sym : Prop := forall x y, O.(oeqb) x y = O.(oeqb) y x.

  Definition dm_fin (fin : T -> Prop) (m : dm T) : Prop := Forall fin (dm_values m).
  Definition opt_fin (fin : T -> Prop) (o : option T) : Prop := match o with Some x => fin x | None => True end.

  Section Refl.
    Context (fin : T -> Prop) (L : scalar_laws fin).

    Lemma close_refl x : fin x -> close O eps x x = true.
    Proof. intros H. unfold close. now rewrite (sl_gt fin L). Qed.
    Lemma all_close_refl l : Forall fin l -> forall2b (close O eps) l l = true.
    Proof. intros H. apply forall2b_refl. intros x Hx. apply close_refl. eapply Forall_forall; eassumption. Qed.

    Theorem dm_eq_refl m : dm_fin fin m -> dm_eq O eps m m = true.
    Proof.
      intros H. unfold dm_eq. rewrite !N.eqb_refl, same_len_refl. cbn. now apply all_close_refl.
    Qed.
    Theorem lin_eq_refl m : dm_fin fin (lin_coef m) -> fin (lin_intercept m) -> lin_eq O eps m m = true.
    Proof. intros H1 H2. unfold lin_eq. rewrite dm_eq_refl by assumption. now rewrite (sl_le fin L). Qed.
    Theorem logit_eq_refl m :
      dm_fin fin (lg_coef m) -> dm_fin fin (lg_intercept m) -> Forall fin (lg_classes m) -> logit_eq O eps m m = true.
    Proof.
      intros H1 H2 H3. unfold logit_eq. rewrite !N.eqb_refl, same_len_refl. cbn.
      rewrite all_close_refl by assumption. cbn. now rewrite !dm_eq_refl.
    Qed.
    Lemma opt_lt_refl o : opt_fin fin o -> opt_lt_eps O eps o o = true.
    Proof. destruct o; cbn; [apply (sl_lt fin L) | reflexivity]. Qed.
    Definition rnode_fin (n : rnode) : Prop := fin (rn_output n) /\ opt_fin fin (rn_value n) /\ opt_fin fin (rn_score n).
    Definition cnode_fin (n : cnode) : Prop := opt_fin fin (cn_value n) /\ opt_fin fin (cn_score n).
    Lemma rnode_eq_refl n : rnode_fin n -> rnode_eq O eps n n = true.
    Proof.
      intros (H1 & H2 & H3). unfold rnode_eq.
      now rewrite (sl_lt fin L), N.eqb_refl, !opt_lt_refl.
    Qed.
    Lemma cnode_eq_refl n : cnode_fin n -> cnode_eq O eps n n = true.
    Proof. intros (H2 & H3). unfold cnode_eq. now rewrite !N.eqb_refl, !opt_lt_refl. Qed.
    Theorem rtree_eq_refl t : Forall rnode_fin (rt_nodes t) -> rtree_eq O eps t t = true.
    Proof.
      intros H. unfold rtree_eq. rewrite N.eqb_refl, same_len_refl. cbn.
      apply forall2b_refl. intros x Hx. apply rnode_eq_refl. eapply Forall_forall; eassumption.
    Qed.
    Theorem ctree_eq_refl t :
      Forall cnode_fin (ct_nodes t) -> Forall fin (ct_classes t) -> ctree_eq O eps t t = Some true.
    Proof.
      intros H Hc. unfold ctree_eq. rewrite !N.eqb_refl, same_len_refl. cbn.
      rewrite idxall_refl.
      - f_equal. apply forall2b_refl. intros x Hx. apply cnode_eq_refl. eapply Forall_forall; eassumption.
      - intros x Hx. apply close_refl. eapply Forall_forall; eassumption.
    Qed.
    Theorem rforest_eq_refl f : Forall (fun t => Forall rnode_fin (rt_nodes t)) f -> rforest_eq O eps f f = true.
    Proof.
      intros H. unfold rforest_eq. rewrite same_len_refl. cbn. apply forall2b_refl.
      intros t Ht. apply rtree_eq_refl. exact (proj1 (Forall_forall _ _) H t Ht).
    Qed.
    Theorem cforest_eq_refl f :
      Forall (fun t => Forall cnode_fin (ct_nodes t) /\ Forall fin (ct_classes t)) (cf_trees f) ->
      Forall fin (cf_classes f) -> cforest_eq O eps f f = Some true.
    Proof.
      intros H Hc. unfold cforest_eq. rewrite !same_len_refl. cbn. rewrite all_close_refl by assumption. cbn.
      apply idxall_o_refl. intros t Ht. destruct (proj1 (Forall_forall _ _) H t Ht). now apply ctree_eq_refl.
    Qed.
    Theorem pca_eq_refl m : dm_fin fin (pca_eigenvectors m) -> Forall fin (pca_eigenvalues m) -> pca_eq O eps m m = true.
    Proof.
      intros H1 H2. unfold pca_eq. rewrite dm_eq_refl by assumption. rewrite same_len_refl. cbn.
      now apply all_close_refl.
    Qed.
    Lemma vec_approx_refl l : Forall fin l -> vec_approx O eps l l = true.
    Proof.
      intros H. unfold vec_approx. rewrite same_len_refl. cbn. apply forall2b_refl.
      intros x Hx. change (gt_tol O eps x x) with (gt_eps O eps x x).
      rewrite (sl_gt fin L); [reflexivity|]. eapply Forall_forall; eassumption.
    Qed.
    Theorem svm_eq_refl m :
      fin (svm_b m) -> Forall fin (svm_w m) -> Forall (Forall fin) (svm_instances m) -> svm_eq O eps m m = true.
    Proof.
      intros H1 H2 H3. unfold svm_eq. rewrite (sl_gt2 fin L) by assumption. rewrite !same_len_refl. cbn.
      rewrite all_close_refl by assumption. cbn. apply forall2b_refl.
      intros x Hx. apply vec_approx_refl. exact (proj1 (Forall_forall _ _) H3 x Hx).
    Qed.
    Theorem kmeans_eq_refl m : Forall (Forall fin) (km_centroids m) -> kmeans_eq O eps m m = true.
    Proof.
      intros H. unfold kmeans_eq. rewrite N.eqb_refl, nlist_eq_refl, same_len_refl. cbn.
      apply forall2b_refl. intros c Hc. rewrite same_len_refl. cbn.
      apply all_close_refl. exact (proj1 (Forall_forall _ _) H c Hc).
    Qed.
    Theorem dbscan_eq_refl m : fin (db_eps m) -> dbscan_eq O m m = true.
    Proof.
      intros H. unfold dbscan_eq. rewrite same_len_refl, N.eqb_refl, (sl_eqb fin L) by assumption. cbn.
      apply forall2b_refl. intros; apply Z.eqb_refl.
    Qed.
    Theorem knnc_eq_refl m : Forall fin (kc_classes m) -> knnc_eq O eps m m = true.
    Proof.
      intros H. unfold knnc_eq. rewrite !same_len_refl, N.eqb_refl. cbn.
      rewrite all_close_refl by assumption. cbn. apply forall2b_refl. intros; apply N.eqb_refl.
    Qed.
    Theorem knnr_eq_refl m : Forall fin (kr_y m) -> knnr_eq O eps m m = true.
    Proof.
      intros H. unfold knnr_eq. rewrite same_len_refl, N.eqb_refl. cbn. now apply all_close_refl.
    Qed.
    Theorem covertree_eq_refl {P} (dist : P -> P -> T) (data : list P) :
      (forall x, In x data -> O.(oeqb) (dist x x) O.(o0) = true) -> covertree_eq O dist data data = true.
    Proof. intros H. unfold covertree_eq. rewrite same_len_refl. cbn. now apply forall2b_refl. Qed.
    Lemma tlist_eq_refl l : Forall fin l -> tlist_eq O l l = true.
    Proof.
      intros H. apply forall2b_refl. intros x Hx. apply (sl_eqb fin L). eapply Forall_forall; eassumption.
    Qed.
    Theorem bernoulli_eq_refl m :
      Forall fin (bn_labels m) -> Forall fin (bn_priors m) -> Forall (Forall fin) (bn_log_prob m) ->
      bernoulli_eq O eps m m = true.
    Proof.
      intros H1 H2 H3. unfold bernoulli_eq.
      rewrite !tlist_eq_refl by assumption. rewrite nlist_eq_refl, N.eqb_refl. cbn.
      replace (nmat_eq (bn_feature_count m) (bn_feature_count m)) with true
        by (symmetry; apply forall2b_refl; intros; apply nlist_eq_refl).
      apply zipall_refl. intros x Hx. apply vec_approx_refl. exact (proj1 (Forall_forall _ _) H3 x Hx).
    Qed.
    Theorem categorical_eq_refl m :
      Forall fin (cat_labels m) -> Forall fin (cat_priors m) -> Forall (Forall (Forall fin)) (cat_coefficients m) ->
      categorical_eq O eps m m = true.
    Proof.
      intros H1 H2 H3. unfold categorical_eq.
      rewrite !tlist_eq_refl by assumption. rewrite !nlist_eq_refl, N.eqb_refl, same_len_refl. cbn.
      apply forall2b_refl. intros f1 Hf. rewrite same_len_refl. cbn.
      apply forall2b_refl. intros c1 Hc. rewrite same_len_refl. cbn. apply all_close_refl.
      pose proof (proj1 (Forall_forall _ _) H3 f1 Hf) as Hf1.
      exact (proj1 (Forall_forall _ _) Hf1 c1 Hc).
    Qed.
    Theorem svd_eq_refl tol m :
      (N.to_nat (dm_nrows m * dm_ncols m) <= List.length (dm_values m))%nat ->
      (forall x, In x (dm_values m) -> gt_tol O tol x x = false) -> svd_eq O tol m m = Some true.
    Proof.
      intros Hl H. unfold svd_eq, dm_approx. rewrite !N.eqb_refl. cbn. now apply approx_scan_refl.
    Qed.
  End Refl.

  (* ---------------- symmetry ---------------- *)
  Section Sym.
    Context (S : sub_sym).
    Lemma gt_tol_sym tol x y : gt_tol O tol x y = gt_tol O tol y x.
    Proof. unfold gt_tol. now rewrite S. Qed.
    Lemma gt_eps_sym x y : gt_eps O eps x y = gt_eps O eps y x.
    Proof. unfold gt_eps. now rewrite S. Qed.
    Lemma lt_eps_sym x y : lt_eps O eps x y = lt_eps O eps y x.
    Proof. unfold lt_eps. now rewrite S. Qed.
    Lemma le_eps_sym x y : le_eps O eps x y = le_eps O eps y x.
    Proof. unfold le_eps. now rewrite S. Qed.
    Lemma close_sym x y : close O eps x y = close O eps y x.
    Proof. unfold close. now rewrite gt_eps_sym. Qed.
    Lemma all_close_sym a b : forall2b (close O eps) a b = forall2b (close O eps) b a.
    Proof. apply forall2b_sym. apply close_sym. Qed.

    Theorem dm_eq_sym a b : dm_eq O eps a b = dm_eq O eps b a.
    Proof.
      unfold dm_eq. rewrite (N.eqb_sym (dm_ncols a)), (N.eqb_sym (dm_nrows a)), (same_len_sym (dm_values a)).
      now rewrite all_close_sym.
    Qed.
    Theorem lin_eq_sym a b : lin_eq O eps a b = lin_eq O eps b a.
    Proof. unfold lin_eq. now rewrite dm_eq_sym, le_eps_sym. Qed.
    Theorem logit_eq_sym a b : logit_eq O eps a b = logit_eq O eps b a.
    Proof.
      unfold logit_eq.
      rewrite (N.eqb_sym (lg_num_classes a)), (N.eqb_sym (lg_num_attributes a)), (same_len_sym (lg_classes a)).
      now rewrite all_close_sym, (dm_eq_sym (lg_coef a)), (dm_eq_sym (lg_intercept a)).
    Qed.
    Lemma opt_lt_sym a b : opt_lt_eps O eps a b = opt_lt_eps O eps b a.
    Proof. destruct a, b; cbn; try reflexivity. apply lt_eps_sym. Qed.
    Lemma rnode_eq_sym a b : rnode_eq O eps a b = rnode_eq O eps b a.
    Proof.
      unfold rnode_eq. now rewrite lt_eps_sym, (N.eqb_sym (rn_feature a)), (opt_lt_sym (rn_value a)), (opt_lt_sym (rn_score a)).
    Qed.
    Lemma cnode_eq_sym a b : cnode_eq O eps a b = cnode_eq O eps b a.
    Proof.
      unfold cnode_eq.
      now rewrite (N.eqb_sym (cn_output a)), (N.eqb_sym (cn_feature a)), (opt_lt_sym (cn_value a)), (opt_lt_sym (cn_score a)).
    Qed.
    Theorem rtree_eq_sym a b : rtree_eq O eps a b = rtree_eq O eps b a.
    Proof.
      unfold rtree_eq. rewrite (N.eqb_sym (rt_depth a)), (same_len_sym (rt_nodes a)).
      now rewrite (forall2b_sym _ _ rnode_eq_sym).
    Qed.
    (* the classifier tree indexes other.classes by self.classes.len(): symmetric only when the two
       class vectors have the same length (see ctree_eq_asymmetric in ProofsFloat.v) *)
    Theorem ctree_eq_sym a b :
      List.length (ct_classes a) = List.length (ct_classes b) -> ctree_eq O eps a b = ctree_eq O eps b a.
    Proof.
      intros Hl. unfold ctree_eq.
      rewrite (N.eqb_sym (ct_depth a)), (N.eqb_sym (ct_num_classes a)), (same_len_sym (ct_nodes a)).
      rewrite (idxall_same_len _ _ _ Hl), (idxall_same_len _ _ _ (eq_sym Hl)).
      now rewrite all_close_sym, (forall2b_sym _ _ cnode_eq_sym).
    Qed.
    Theorem rforest_eq_sym a b : rforest_eq O eps a b = rforest_eq O eps b a.
    Proof. unfold rforest_eq. now rewrite (same_len_sym a), (forall2b_sym _ _ rtree_eq_sym). Qed.
    Theorem pca_eq_sym a b : pca_eq O eps a b = pca_eq O eps b a.
    Proof.
      unfold pca_eq. now rewrite dm_eq_sym, (same_len_sym (pca_eigenvalues a)), all_close_sym.
    Qed.
    Lemma vec_approx_sym tol a b : vec_approx O tol a b = vec_approx O tol b a.
    Proof.
      unfold vec_approx. rewrite (same_len_sym a).
      now rewrite (forall2b_sym _ (fun x y => negb (gt_tol O tol x y)) (fun x y => f_equal negb (gt_tol_sym tol x y))).
    Qed.
    Theorem svm_eq_sym a b : svm_eq O eps a b = svm_eq O eps b a.
    Proof.
      unfold svm_eq. rewrite gt_tol_sym, (same_len_sym (svm_w a)), (same_len_sym (svm_instances a)).
      now rewrite all_close_sym, (forall2b_sym _ _ (vec_approx_sym eps)).
    Qed.
    Lemma nlist_eq_sym a b : nlist_eq a b = nlist_eq b a.
    Proof. apply forall2b_sym. apply N.eqb_sym. Qed.
    Theorem kmeans_eq_sym a b : kmeans_eq O eps a b = kmeans_eq O eps b a.
    Proof.
      unfold kmeans_eq. rewrite (N.eqb_sym (km_k a)), (nlist_eq_sym (km_size a)), (same_len_sym (km_centroids a)).
      rewrite (forall2b_sym _ (fun c1 c2 => same_len c1 c2 && forall2b (close O eps) c1 c2)); [reflexivity|].
      intros x y. now rewrite same_len_sym, all_close_sym.
    Qed.
    Theorem knnc_eq_sym a b : knnc_eq O eps a b = knnc_eq O eps b a.
    Proof.
      unfold knnc_eq. rewrite (same_len_sym (kc_classes a)), (N.eqb_sym (kc_k a)), (same_len_sym (kc_y a)).
      now rewrite all_close_sym, (forall2b_sym _ _ N.eqb_sym).
    Qed.
    Theorem knnr_eq_sym a b : knnr_eq O eps a b = knnr_eq O eps b a.
    Proof. unfold knnr_eq. now rewrite (N.eqb_sym (kr_k a)), (same_len_sym (kr_y a)), all_close_sym. Qed.
    Theorem dbscan_eq_sym (E : eqb_sym) a b : dbscan_eq O a b = dbscan_eq O b a.
    Proof.
      unfold dbscan_eq. rewrite (same_len_sym (db_labels a)), (N.eqb_sym (db_num_classes a)), (E (db_eps a)).
      now rewrite (forall2b_sym _ _ Z.eqb_sym).
    Qed.
  End Sym.

  (* ---------------- what is detected ---------------- *)
  (* DenseMatrix: equal iff same shape, same number of stored values and no pair of corresponding
     values further apart than the tolerance *)
  Theorem dm_eq_true_iff a b :
    dm_eq O eps a b = true <->
    dm_ncols a = dm_ncols b /\ dm_nrows a = dm_nrows b /\
    Forall2 (fun x y => gt_eps O eps x y = false) (dm_values a) (dm_values b).
  Proof.
    unfold dm_eq. split.
    - destruct (N.eqb (dm_ncols a) (dm_ncols b)) eqn:E1; cbn; [|discriminate].
      destruct (N.eqb (dm_nrows a) (dm_nrows b)) eqn:E2; cbn; [|discriminate].
      destruct (same_len (dm_values a) (dm_values b)); cbn; [|discriminate].
      intros H. apply N.eqb_eq in E1, E2. repeat split; try assumption.
      apply forall2b_true_iff in H. eapply Forall2_impl; [|exact H].
      intros x y Hxy. unfold close in Hxy. now apply negb_true_iff in Hxy.
    - intros (H1 & H2 & H3). rewrite H1, H2, !N.eqb_refl. cbn.
      assert (Hl : same_len (dm_values a) (dm_values b) = true)
        by (unfold same_len; apply Nat.eqb_eq; eapply Forall2_len; eassumption).
      rewrite Hl. cbn. apply forall2b_true_iff. eapply Forall2_impl; [|exact H3].
      intros x y Hxy. unfold close. now rewrite Hxy.
  Qed.

  Lemma forall2b_detects {A B} (f : A -> B -> bool) a b i x y :
    nth_error a i = Some x -> nth_error b i = Some y -> f x y = false -> forall2b f a b = false.
  Proof.
    revert b i. induction a as [|a0 a IH]; intros b i Ha Hb Hf; destruct i; cbn in Ha; try discriminate.
    - inversion Ha; subst. destruct b as [|b0 b]; cbn in Hb; [discriminate|]. inversion Hb; subst. cbn. now rewrite Hf.
    - destruct b as [|b0 b]; cbn in Hb; [discriminate|]. cbn. rewrite (IH b i Ha Hb Hf). apply andb_false_r.
  Qed.

  Theorem dm_eq_detects_value a b i x y :
    nth_error (dm_values a) i = Some x -> nth_error (dm_values b) i = Some y ->
    gt_eps O eps x y = true -> dm_eq O eps a b = false.
  Proof.
    intros Ha Hb Hg. unfold dm_eq.
    destruct (negb (N.eqb (dm_ncols a) (dm_ncols b)) || negb (N.eqb (dm_nrows a) (dm_nrows b))); [reflexivity|].
    destruct (negb (same_len (dm_values a) (dm_values b))); [reflexivity|].
    eapply forall2b_detects; try eassumption. unfold close. now rewrite Hg.
  Qed.
  Theorem dm_eq_detects_shape a b :
    dm_nrows a <> dm_nrows b \/ dm_ncols a <> dm_ncols b \/ List.length (dm_values a) <> List.length (dm_values b) ->
    dm_eq O eps a b = false.
  Proof.
    intros H. destruct (dm_eq O eps a b) eqn:E; [|reflexivity]. exfalso.
    apply dm_eq_true_iff in E. destruct E as (E1 & E2 & E3). apply Forall2_len in E3.
    destruct H as [H|[H|H]]; contradiction.
  Qed.

  (* linear family: a different coefficient or a different intercept *)
  Theorem lin_eq_detects_intercept a b : le_eps O eps (lin_intercept a) (lin_intercept b) = false -> lin_eq O eps a b = false.
  Proof. intros H. unfold lin_eq. rewrite H. apply andb_false_r. Qed.
  Theorem lin_eq_detects_coefficient a b : dm_eq O eps (lin_coef a) (lin_coef b) = false -> lin_eq O eps a b = false.
  Proof. intros H. unfold lin_eq. now rewrite H. Qed.

  (* k-NN: the stored targets are what is compared (never the training rows) *)
  Theorem knnr_eq_detects_target a b i x y :
    nth_error (kr_y a) i = Some x -> nth_error (kr_y b) i = Some y -> gt_eps O eps x y = true ->
    knnr_eq O eps a b = false.
  Proof.
    intros Ha Hb Hg. unfold knnr_eq.
    destruct (negb (N.eqb (kr_k a) (kr_k b)) || negb (same_len (kr_y a) (kr_y b))); [reflexivity|].
    eapply forall2b_detects; try eassumption. unfold close. now rewrite Hg.
  Qed.
  Theorem knnc_eq_detects_target a b i x y :
    nth_error (kc_y a) i = Some x -> nth_error (kc_y b) i = Some y -> x <> y -> knnc_eq O eps a b = false.
  Proof.
    intros Ha Hb Hn. unfold knnc_eq.
    destruct (negb (same_len (kc_classes a) (kc_classes b)) || negb (N.eqb (kc_k a) (kc_k b)) || negb (same_len (kc_y a) (kc_y b))); [reflexivity|].
    destruct (negb (forall2b (close O eps) (kc_classes a) (kc_classes b))); [reflexivity|].
    eapply forall2b_detects; try eassumption. now apply N.eqb_neq.
  Qed.

  (* k-NN: a different NUMBER of stored targets is detected whatever the common part looks like: the
     relation starts with `self.y.len() != other.y.len()`.  In particular a model never equals the
     model fitted on the same rows plus appended rows (or on a row-prefix), in either direction.
     (`zipall`, the `iter().zip().all()` form of the same loop, has no such property: see
     `zip_form_accepts_prefix` below.) *)
  Theorem knnr_eq_detects_different_lengths a b :
    List.length (kr_y a) <> List.length (kr_y b) -> knnr_eq O eps a b = false.
  Proof.
    intros H. unfold knnr_eq.
    assert (E : same_len (kr_y a) (kr_y b) = false) by (unfold same_len; now apply Nat.eqb_neq).
    rewrite E. cbn. now rewrite orb_true_r.
  Qed.
  Theorem knnc_eq_detects_different_lengths a b :
    List.length (kc_y a) <> List.length (kc_y b) -> knnc_eq O eps a b = false.
  Proof.
    intros H. unfold knnc_eq.
    assert (E : same_len (kc_y a) (kc_y b) = false) by (unfold same_len; now apply Nat.eqb_neq).
    rewrite E. cbn. now rewrite orb_true_r.
  Qed.
  Theorem knnr_eq_detects_appended ys extra k1 k2 :
    extra <> [] ->
    knnr_eq O eps (mkKNNR ys k1) (mkKNNR (ys ++ extra) k2) = false /\
    knnr_eq O eps (mkKNNR (ys ++ extra) k2) (mkKNNR ys k1) = false.
  Proof.
    intros H.
    assert (L : List.length ys <> List.length (ys ++ extra)).
    { rewrite app_length. destruct extra; [congruence | cbn; lia]. }
    split; apply knnr_eq_detects_different_lengths; cbn [kr_y]; [exact L | intro E; apply L; now symmetry].
  Qed.
  Theorem knnc_eq_detects_appended cl1 cl2 ys extra k1 k2 :
    extra <> [] ->
    knnc_eq O eps (mkKNNC cl1 ys k1) (mkKNNC cl2 (ys ++ extra) k2) = false /\
    knnc_eq O eps (mkKNNC cl2 (ys ++ extra) k2) (mkKNNC cl1 ys k1) = false.
  Proof.
    intros H.
    assert (L : List.length ys <> List.length (ys ++ extra)).
    { rewrite app_length. destruct extra; [congruence | cbn; lia]. }
    split; apply knnc_eq_detects_different_lengths; cbn [kc_y]; [exact L | intro E; apply L; now symmetry].
  Qed.
  (* the same comparison written with zip: every list is "equal" to each of its extensions *)
  Lemma zip_form_accepts_prefix {A} (f : A -> A -> bool) (l extra : list A) :
    (forall x, In x l -> f x x = true) -> zipall f l (l ++ extra) = true /\ zipall f (l ++ extra) l = true.
  Proof.
    induction l as [|a l IH]; intros H; cbn.
    - split; [reflexivity | now destruct extra].
    - rewrite H by (now left). cbn. apply IH. intros x Hx. apply H. now right.
  Qed.

  (* trees: a node whose output / split value / split score differs by eps or more, or whose split
     feature differs; the child links are never looked at *)
  Theorem rtree_eq_detects_node a b i x y :
    nth_error (rt_nodes a) i = Some x -> nth_error (rt_nodes b) i = Some y -> rnode_eq O eps x y = false ->
    rtree_eq O eps a b = false.
  Proof.
    intros Ha Hb Hn. unfold rtree_eq.
    destruct (negb (N.eqb (rt_depth a) (rt_depth b)) || negb (same_len (rt_nodes a) (rt_nodes b))); [reflexivity|].
    eapply forall2b_detects; eassumption.
  Qed.
  Theorem rnode_eq_blind_to_links i o f v s t1 f1 t2 f2 i' :
    rnode_eq O eps (mkRNode i o f v s t1 f1) (mkRNode i' o f v s t2 f2) =
    rnode_eq O eps (mkRNode i o f v s t1 f1) (mkRNode i o f v s t1 f1).
  Proof. reflexivity. Qed.

  (* SVC / SVR: a support vector (row of `instances`), a weight or the bias *)
  Theorem svm_eq_detects_instance a b i x y :
    nth_error (svm_instances a) i = Some x -> nth_error (svm_instances b) i = Some y ->
    vec_approx O eps x y = false -> svm_eq O eps a b = false.
  Proof.
    intros Ha Hb Hn. unfold svm_eq.
    destruct (gt_tol O (two_eps O eps) (svm_b a) (svm_b b) || negb (same_len (svm_w a) (svm_w b))
              || negb (same_len (svm_instances a) (svm_instances b))); [reflexivity|].
    destruct (negb (forall2b (close O eps) (svm_w a) (svm_w b))); [reflexivity|].
    eapply forall2b_detects; eassumption.
  Qed.

  (* k-means: a centroid coordinate *)
  Theorem kmeans_eq_detects_centroid a b i c1 c2 j x y :
    nth_error (km_centroids a) i = Some c1 -> nth_error (km_centroids b) i = Some c2 ->
    nth_error c1 j = Some x -> nth_error c2 j = Some y -> gt_eps O eps x y = true ->
    kmeans_eq O eps a b = false.
  Proof.
    intros Ha Hb Hx Hy Hg. unfold kmeans_eq.
    destruct (negb (N.eqb (km_k a) (km_k b)) || negb (nlist_eq (km_size a) (km_size b))
              || negb (same_len (km_centroids a) (km_centroids b))); [reflexivity|].
    eapply forall2b_detects; try eassumption. cbn.
    replace (forall2b (close O eps) c1 c2) with false; [apply andb_false_r|].
    symmetry. eapply forall2b_detects; try eassumption. unfold close. now rewrite Hg.
  Qed.

  (* PCA: an eigenvalue (or anything dm_eq detects in the eigenvectors); projection, mu, pmu are ignored *)
  Theorem pca_eq_detects_eigenvalue a b i x y :
    nth_error (pca_eigenvalues a) i = Some x -> nth_error (pca_eigenvalues b) i = Some y ->
    gt_eps O eps x y = true -> pca_eq O eps a b = false.
  Proof.
    intros Ha Hb Hg. unfold pca_eq.
    destruct (negb (dm_eq O eps (pca_eigenvectors a) (pca_eigenvectors b))
              || negb (same_len (pca_eigenvalues a) (pca_eigenvalues b))); [reflexivity|].
    eapply forall2b_detects; try eassumption. unfold close. now rewrite Hg.
  Qed.
  Theorem pca_eq_blind ev evals p1 m1 q1 p2 m2 q2 :
    pca_eq O eps (mkPCA ev evals p1 m1 q1) (mkPCA ev evals p2 m2 q2) =
    pca_eq O eps (mkPCA ev evals p1 m1 q1) (mkPCA ev evals p1 m1 q1).
  Proof. reflexivity. Qed.

  (* DBSCAN: labels, number of classes and eps are compared; nothing else exists in the relation *)
  Theorem dbscan_eq_true_inv a b :
    dbscan_eq O a b = true ->
    db_labels a = db_labels b /\ db_num_classes a = db_num_classes b /\ O.(oeqb) (db_eps a) (db_eps b) = true.
  Proof.
    unfold dbscan_eq. intros H.
    apply andb_true_iff in H. destruct H as [H Hl].
    apply andb_true_iff in H. destruct H as [H He].
    apply andb_true_iff in H. destruct H as [_ Hn].
    repeat split.
    - apply forall2b_true_iff in Hl. induction Hl; [reflexivity|]. f_equal; [now apply Z.eqb_eq | assumption].
    - now apply N.eqb_eq.
    - assumption.
  Qed.
End Laws.

(* ---------------- the real-number instance ---------------- *)
Section Reals.
  Variable eps : R.
  Hypothesis eps_pos : (0 < eps)%R.

  Lemma R_laws : scalar_laws ROps eps (fun _ => True).
  Proof.
    assert (E : forall x : R, Rabs (x - x) = 0%R) by (intros x; replace (x - x)%R with 0%R by ring; apply Rabs_R0).
    constructor; intros x _; unfold gt_eps, lt_eps, le_eps, gt_tol, two_eps;
      cbn [oltb oleb oeqb oabs osub omul oadd o1 ROps]; try rewrite E.
    - apply Rltb_false. lra.
    - apply Rltb_true. lra.
    - apply Rleb_true. lra.
    - apply Rltb_false. lra.
    - apply Reqb_true. reflexivity.
  Qed.
  Lemma R_sub_sym : sub_sym ROps.
  Proof. intros x y. cbn [oabs osub ROps]. apply Rabs_minus_sym. Qed.
  Lemma R_eqb_sym : eqb_sym ROps.
  Proof.
    intros x y. cbn [oeqb ROps]. unfold Reqb. destruct (Req_EM_T x y), (Req_EM_T y x); try reflexivity; congruence.
  Qed.
  Lemma R_gt_eps x y : gt_eps ROps eps x y = true <-> (Rabs (x - y) > eps)%R.
  Proof. unfold gt_eps. cbn [oltb oabs osub ROps]. rewrite Rltb_true. tauto. Qed.
  Lemma R_gt_eps_false x y : gt_eps ROps eps x y = false <-> (Rabs (x - y) <= eps)%R.
  Proof. unfold gt_eps. cbn [oltb oabs osub ROps]. apply Rltb_false. Qed.
  Lemma R_lt_eps x y : lt_eps ROps eps x y = true <-> (Rabs (x - y) < eps)%R.
  Proof. unfold lt_eps. cbn [oltb oabs osub ROps]. apply Rltb_true. Qed.

  (* DenseMatrix over the reals: equal exactly when the shapes agree and every stored value is
     within eps; so a difference is detected iff it exceeds eps somewhere (or changes the shape) *)
  Theorem R_dm_eq_iff a b :
    dm_eq ROps eps a b = true <->
    dm_ncols a = dm_ncols b /\ dm_nrows a = dm_nrows b /\
    Forall2 (fun x y => (Rabs (x - y) <= eps)%R) (dm_values a) (dm_values b).
  Proof.
    rewrite dm_eq_true_iff. split; intros (H1 & H2 & H3); repeat split; try assumption;
      (eapply Forall2_impl; [|exact H3]); intros x y; apply R_gt_eps_false.
  Qed.
End Reals.
