(* C19 — the binary64 instance of the scalar laws: for every finite double x, x - x = +0, so all
   tolerance tests against machine epsilon succeed on (x, x); and witnesses (evaluated on the float
   instance) of what the relations do on non-finite or malformed data. *)
From Coq Require Import List NArith ZArith Bool Floats Lia.
From SC Require Import Base.FloatUtil Base.Num C19.Model C19.ProofsEq.
Import ListNotations.

Definition eps64 : float := 0x1p-52%float.

Definition ffinite (x : float) : Prop :=
  match Prim2SF x with S754_zero _ | S754_finite _ _ _ => True | _ => False end.

Lemma sub_self_SF x : ffinite x -> Prim2SF (PrimFloat.sub x x) = S754_zero false.
Proof.
  unfold ffinite. intros H. rewrite sub_spec. unfold SF64sub. destruct (Prim2SF x) as [s|s| |s m e]; try contradiction.
  - cbn. destruct s; reflexivity.
  - cbn [SFsub]. rewrite Z.min_id. rewrite Z.sub_diag. reflexivity.
Qed.

Lemma abs_sub_self_SF x : ffinite x -> Prim2SF (PrimFloat.abs (PrimFloat.sub x x)) = S754_zero false.
Proof. intros H. rewrite abs_spec, (sub_self_SF x H). reflexivity. Qed.

Lemma eqb_self x : ffinite x -> PrimFloat.eqb x x = true.
Proof.
  unfold ffinite. intros H. rewrite eqb_spec. unfold SFeqb, SFcompare.
  destruct (Prim2SF x) as [s|s| |s m e]; try contradiction.
  - reflexivity.
  - destruct s; rewrite Z.compare_refl, ?Pos.compare_cont_refl; cbn; rewrite ?Pos.compare_refl; reflexivity.
Qed.

Lemma F_laws : scalar_laws FOps eps64 ffinite.
Proof.
  constructor; intros x H; unfold gt_eps, lt_eps, le_eps, gt_tol, two_eps;
    cbn [oltb oleb oeqb oabs osub omul oadd o1 FOps].
  - rewrite ltb_spec, (abs_sub_self_SF x H). reflexivity.
  - rewrite ltb_spec, (abs_sub_self_SF x H). reflexivity.
  - rewrite leb_spec, (abs_sub_self_SF x H). reflexivity.
  - rewrite ltb_spec, (abs_sub_self_SF x H). reflexivity.
  - now apply eqb_self.
Qed.

(* ---- witnesses on the binary64 instance (closed terms, decided by computation) ---- *)
Definition leaf (out : float) : @rnode float := mkRNode 0 out 0 None None None None.

(* the strict `<` of the tree nodes makes a node with an infinite (or NaN) output differ from itself *)
Lemma rnode_inf_not_self : rnode_eq FOps eps64 (leaf infinity) (leaf infinity) = false.
Proof. vm_compute. reflexivity. Qed.
Lemma rtree_nan_not_self :
  rtree_eq FOps eps64 (mkRTree [leaf nan] 0) (mkRTree [leaf nan] 0) = false.
Proof. vm_compute. reflexivity. Qed.
(* the `>`-based relations treat NaN as equal to everything *)
Lemma dm_nan_equals_anything :
  dm_eq FOps eps64 (mkDM 1 1 [nan]) (mkDM 1 1 [5%float]) = true.
Proof. vm_compute. reflexivity. Qed.
(* tolerance relations are not transitive *)
Lemma dm_eq_not_transitive :
  let a := mkDM 1 1 [0%float] in let b := mkDM 1 1 [0x1p-52%float] in let c := mkDM 1 1 [0x1p-51%float] in
  dm_eq FOps eps64 a b = true /\ dm_eq FOps eps64 b c = true /\ dm_eq FOps eps64 a c = false.
Proof. vm_compute. repeat split; reflexivity. Qed.
(* classifier tree: `for i in 0..self.classes.len() { other.classes[i] }` — with class vectors of
   different lengths one direction panics (None) while the other answers true *)
Lemma ctree_eq_asymmetric :
  let a := mkCTree [] 2 [1%float; 2%float] 0 in let b := mkCTree [] 2 [1%float] 0 in
  ctree_eq FOps eps64 a b = None /\ ctree_eq FOps eps64 b a = Some true.
Proof. vm_compute. split; reflexivity. Qed.
(* Bernoulli NB: the zip over feature_log_prob stops at the shorter operand *)
Lemma bernoulli_eq_ignores_extra_rows :
  bernoulli_eq FOps eps64 (mkBern [] [] [] [] [[1%float]] 1) (mkBern [] [] [] [] [] 1) = true.
Proof. vm_compute. reflexivity. Qed.
(* a finite matrix does equal itself: instance of dm_eq_refl on concrete data *)
Lemma ffinite_examples : ffinite 0.5%float /\ ffinite (-0)%float /\ ffinite 0x1.fffffffffffffp+1023%float /\ ~ ffinite infinity /\ ~ ffinite nan.
Proof. unfold ffinite. vm_compute. tauto. Qed.
