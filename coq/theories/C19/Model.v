(* C19 — serialisation round trips.  Executable definitions only.

   Part 1: the only hand-written codec of the crate, `impl Serialize / Deserialize for DenseMatrix`
           (src/linalg/naive/dense_matrix.rs), over a token-stream model of serde's struct protocol:
           `serialize_struct("DenseMatrix", 3)` + three `serialize_field` calls + `end`, and the
           visitor's `visit_seq` / `visit_map` with the `Field` identifier enum.
   Part 2: how two formats drive that protocol: serde_json's `deserialize_struct` (array -> visit_seq,
           object -> visit_map) and bincode 1.3's fixed-width little-endian wire format (struct =
           3-tuple, u64 lengths).  These two are models of third-party behaviour, kept only because
           the correspondence check compares them with the real crates byte for byte.
   Part 3: the hand-written `PartialEq` relations of the model types, as boolean functions generic
           in the scalar operations (`Ops T`, Base/Num.v); `None` = the Rust code panics (index out
           of bounds). *)
From Coq Require Import List String NArith ZArith Bool.
From SC Require Import Base.Num.
Import ListNotations.
Open Scope string_scope.

(* ------------------------------------------------------------------------------------------ *)
(* Part 1: the DenseMatrix codec                                                               *)
(* ------------------------------------------------------------------------------------------ *)

(* struct DenseMatrix<T> { ncols: usize, nrows: usize, values: Vec<T> } — no invariant ties
   values.len() to nrows * ncols (`DenseMatrix::new` does not check it). *)
Record dm (T : Type) := mkDM { dm_nrows : N; dm_ncols : N; dm_values : list T }.
Arguments mkDM {T}. Arguments dm_nrows {T}. Arguments dm_ncols {T}. Arguments dm_values {T}.

(* the serde data-model values that can occur at a field of the struct *)
Inductive sval (T : Type) : Type :=
| VU64 (n : N)          (* serialize_u64 (usize) *)
| VSeq (l : list T)     (* serialize_seq of scalars (Vec<T>) *)
| VOther.               (* a value of any other type: string, float, negative number, null, ... *)
Arguments VU64 {T}. Arguments VSeq {T}. Arguments VOther {T}.

Inductive token (T : Type) : Type :=
| TStruct (name : string) (len : nat)
| TField (key : string) (v : sval T)
| TEnd.
Arguments TStruct {T}. Arguments TField {T}. Arguments TEnd {T}.

(* impl Serialize: let (nrows, ncols) = self.shape(); serialize_struct("DenseMatrix", 3);
   serialize_field("nrows", &nrows); serialize_field("ncols", &ncols);
   serialize_field("values", &self.values); end() *)
Definition dm_serialize {T} (m : dm T) : list (token T) :=
  [ TStruct "DenseMatrix" 3;
    TField "nrows" (VU64 (dm_nrows m));
    TField "ncols" (VU64 (dm_ncols m));
    TField "values" (VSeq (dm_values m));
    TEnd ].

(* what a format hands to the visitor: the (key, value) entries of the stream *)
Fixpoint fields_of {T} (ts : list (token T)) : list (string * sval T) :=
  match ts with
  | [] => []
  | TField k v :: r => (k, v) :: fields_of r
  | _ :: r => fields_of r
  end.

Inductive de_error : Type :=
| InvalidLength (n : nat)
| DuplicateField (f : string)
| MissingField (f : string)
| UnknownField (k : string)
| InvalidType
| TrailingCharacters      (* serde_json: more than three elements in the array form *)
| UnexpectedEof.          (* bincode: input ends early *)

Inductive result (A : Type) : Type := Ok (a : A) | Err (e : de_error).
Arguments Ok {A}. Arguments Err {A}.

(* #[serde(field_identifier, rename_all = "lowercase")] enum Field { NRows, NCols, Values } *)
Inductive field := FNRows | FNCols | FValues.
Definition field_of_key (k : string) : option field :=
  if String.eqb k "nrows" then Some FNRows
  else if String.eqb k "ncols" then Some FNCols
  else if String.eqb k "values" then Some FValues
  else None.

(* next_element::<usize>() / next_value::<usize>() and ::<Vec<T>>() *)
Definition as_usize {T} (v : sval T) : result N :=
  match v with VU64 n => Ok n | _ => Err InvalidType end.
Definition as_vec {T} (v : sval T) : result (list T) :=
  match v with VSeq l => Ok l | _ => Err InvalidType end.

(* fn visit_seq: three next_element calls, each `None` -> invalid_length(i) *)
Definition visit_seq {T} (s : list (sval T)) : result (dm T) :=
  match s with
  | [] => Err (InvalidLength 0)
  | v0 :: s1 =>
    match as_usize v0 with
    | Err e => Err e
    | Ok nrows =>
      match s1 with
      | [] => Err (InvalidLength 1)
      | v1 :: s2 =>
        match as_usize v1 with
        | Err e => Err e
        | Ok ncols =>
          match s2 with
          | [] => Err (InvalidLength 2)
          | v2 :: _ =>
            match as_vec v2 with
            | Err e => Err e
            | Ok values => Ok (mkDM nrows ncols values)
            end
          end
        end
      end
    end
  end.

(* fn visit_map: the `while let Some(key) = map.next_key()?` loop, then the three missing-field tests *)
Fixpoint visit_map_loop {T} (kv : list (string * sval T))
         (nrows ncols : option N) (values : option (list T))
  : result (option N * option N * option (list T)) :=
  match kv with
  | [] => Ok (nrows, ncols, values)
  | (k, v) :: rest =>
    match field_of_key k with
    | None => Err (UnknownField k)
    | Some FNRows =>
      match nrows with
      | Some _ => Err (DuplicateField "nrows")
      | None => match as_usize v with
                | Err e => Err e
                | Ok n => visit_map_loop rest (Some n) ncols values
                end
      end
    | Some FNCols =>
      match ncols with
      | Some _ => Err (DuplicateField "ncols")
      | None => match as_usize v with
                | Err e => Err e
                | Ok n => visit_map_loop rest nrows (Some n) values
                end
      end
    | Some FValues =>
      match values with
      | Some _ => Err (DuplicateField "values")
      | None => match as_vec v with
                | Err e => Err e
                | Ok l => visit_map_loop rest nrows ncols (Some l)
                end
      end
    end
  end.

Definition visit_map {T} (kv : list (string * sval T)) : result (dm T) :=
  match visit_map_loop kv None None None with
  | Err e => Err e
  | Ok (nrows, ncols, values) =>
    match nrows with
    | None => Err (MissingField "nrows")
    | Some nr =>
      match ncols with
      | None => Err (MissingField "ncols")
      | Some nc =>
        match values with
        | None => Err (MissingField "values")
        | Some vs => Ok (mkDM nr nc vs)
        end
      end
    end
  end.

(* ------------------------------------------------------------------------------------------ *)
(* Part 2: two formats driving the protocol                                                    *)
(* ------------------------------------------------------------------------------------------ *)

(* serde_json: what `deserialize_struct` sees at the position of the matrix *)
Inductive jform (T : Type) : Type :=
| JArr (l : list (sval T))
| JObj (kv : list (string * sval T))
| JOther.
Arguments JArr {T}. Arguments JObj {T}. Arguments JOther {T}.

Definition json_de {T} (j : jform T) : result (dm T) :=
  match j with
  | JArr l =>
    match visit_seq l with
    | Err e => Err e
    | Ok m => if Nat.ltb 3 (List.length l) then Err TrailingCharacters else Ok m   (* end_seq *)
    end
  | JObj kv => visit_map kv
  | JOther => Err InvalidType
  end.
(* the serializer side of serde_json: an object with the fields in emission order *)
Definition json_ser {T} (m : dm T) : jform T := JObj (fields_of (dm_serialize m)).

(* bincode 1.3, `bincode::serialize` / `deserialize` (fixed-width integers, little endian, trailing
   bytes allowed).  Scalars are their bit patterns: `w` bytes each (8 for f64, 4 for f32). *)
Fixpoint le_bytes (k : nat) (n : N) : list N :=
  match k with
  | O => []
  | S k' => N.modulo n 256 :: le_bytes k' (N.div n 256)
  end.
Fixpoint le_value (bs : list N) : N :=
  match bs with
  | [] => 0%N
  | b :: r => (b + 256 * le_value r)%N
  end.

Definition bincode_sval (w : nat) (v : sval N) : list N :=
  match v with
  | VU64 n => le_bytes 8 n
  | VSeq l => le_bytes 8 (N.of_nat (List.length l)) ++ flat_map (le_bytes w) l
  | VOther => []
  end.
Fixpoint bincode_tokens (w : nat) (ts : list (token N)) : list N :=
  match ts with
  | [] => []
  | TField _ v :: r => bincode_sval w v ++ bincode_tokens w r      (* keys and struct framing cost no bytes *)
  | _ :: r => bincode_tokens w r
  end.
Definition bincode_ser (w : nat) (m : dm N) : list N := bincode_tokens w (dm_serialize m).

Fixpoint take_n {A} (k : nat) (l : list A) : option (list A * list A) :=
  match k with
  | O => Some ([], l)
  | S k' => match l with
            | [] => None
            | a :: r => match take_n k' r with
                        | None => None
                        | Some (h, t) => Some (a :: h, t)
                        end
            end
  end.
Definition read_int (k : nat) (bs : list N) : option (N * list N) :=
  match take_n k bs with
  | None => None
  | Some (h, r) => Some (le_value h, r)
  end.
(* `cnt` elements of `w` bytes; `fuel` bounds the recursion (the input length is always enough) *)
Fixpoint read_elems (w : nat) (fuel : nat) (cnt : N) (bs : list N) : option (list N * list N) :=
  if N.eqb cnt 0 then Some ([], bs)
  else match fuel with
       | O => None
       | S f => match read_int w bs with
                | None => None
                | Some (x, r) => match read_elems w f (N.pred cnt) r with
                                 | None => None
                                 | Some (l, r') => Some (x :: l, r')
                                 end
                end
       end.
(* deserialize_struct = deserialize_tuple(3): the visitor's visit_seq pulls usize, usize, Vec<T> *)
Definition bincode_de (w : nat) (bs : list N) : result (dm N) :=
  match read_int 8 bs with
  | None => Err UnexpectedEof
  | Some (a, r1) =>
    match read_int 8 r1 with
    | None => Err UnexpectedEof
    | Some (b, r2) =>
      match read_int 8 r2 with
      | None => Err UnexpectedEof
      | Some (len, r3) =>
        match read_elems w (S (List.length r3)) len r3 with
        | None => Err UnexpectedEof
        | Some (l, _) => visit_seq [VU64 a; VU64 b; VSeq l]
        end
      end
    end
  end.

(* ------------------------------------------------------------------------------------------ *)
(* Part 3: the hand-written PartialEq relations                                                *)
(* ------------------------------------------------------------------------------------------ *)
Section Eq.
  Context {T : Type} (O : Ops T) (eps : T).

  (* (a - b).abs() > T::epsilon() *)
  Definition gt_eps (a b : T) : bool := O.(oltb) eps (O.(oabs) (O.(osub) a b)).
  (* (a - b).abs() < T::epsilon() *)
  Definition lt_eps (a b : T) : bool := O.(oltb) (O.(oabs) (O.(osub) a b)) eps.
  (* (a - b).abs() <= T::epsilon() *)
  Definition le_eps (a b : T) : bool := O.(oleb) (O.(oabs) (O.(osub) a b)) eps.
  (* (a - b).abs() > tol, for an arbitrary tolerance *)
  Definition gt_tol (tol a b : T) : bool := O.(oltb) tol (O.(oabs) (O.(osub) a b)).

  (* all2 with a length test: the shape of `len != other.len -> false; for i in 0..len {..}` *)
  Fixpoint forall2b {A B} (f : A -> B -> bool) (l1 : list A) (l2 : list B) : bool :=
    match l1, l2 with
    | [], [] => true
    | a :: t1, b :: t2 => f a b && forall2b f t1 t2
    | _, _ => false
    end.
  (* `for (a, b) in xs.iter().zip(ys.iter())`: stops at the shorter one *)
  Fixpoint zipall {A B} (f : A -> B -> bool) (l1 : list A) (l2 : list B) : bool :=
    match l1, l2 with
    | a :: t1, b :: t2 => f a b && zipall f t1 t2
    | _, _ => true
    end.
  (* `for i in 0..xs.len() { if !f(xs[i], ys[i]) { return false } }`: panics when ys is shorter *)
  Fixpoint idxall {A B} (f : A -> B -> bool) (l1 : list A) (l2 : list B) : option bool :=
    match l1 with
    | [] => Some true
    | a :: t1 => match l2 with
                 | [] => None
                 | b :: t2 => if f a b then idxall f t1 t2 else Some false
                 end
    end.
  Fixpoint idxall_o {A B} (f : A -> B -> option bool) (l1 : list A) (l2 : list B) : option bool :=
    match l1 with
    | [] => Some true
    | a :: t1 => match l2 with
                 | [] => None
                 | b :: t2 => match f a b with
                              | None => None
                              | Some true => idxall_o f t1 t2
                              | Some false => Some false
                              end
                 end
    end.

  Definition close (a b : T) : bool := negb (gt_eps a b).
  Definition nlen {A} (l : list A) : N := N.of_nat (List.length l).
  Definition same_len {A B} (a : list A) (b : list B) : bool := Nat.eqb (List.length a) (List.length b).

  (* ---- DenseMatrix ---- *)
  Definition dm_eq (a b : dm T) : bool :=
    if negb (N.eqb (dm_ncols a) (dm_ncols b)) || negb (N.eqb (dm_nrows a) (dm_nrows b)) then false
    else if negb (same_len (dm_values a) (dm_values b)) then false
    else forall2b close (dm_values a) (dm_values b).

  (* BaseVector::approximate_eq for Vec<T> *)
  Definition vec_approx (tol : T) (a b : list T) : bool :=
    if negb (same_len a b) then false else forall2b (fun x y => negb (gt_tol tol x y)) a b.

  (* BaseMatrix::approximate_eq for DenseMatrix: shape test, then get(r, c) for c outer, r inner:
     the first nrows * ncols stored values in storage order (index panic if there are fewer) *)
  Fixpoint approx_scan (tol : T) (k : nat) (a b : list T) : option bool :=
    match k with
    | 0%nat => Some true
    | S k' => match a, b with
              | x :: a', y :: b' => if gt_tol tol x y then Some false else approx_scan tol k' a' b'
              | _, _ => None
              end
    end.
  Definition dm_approx (tol : T) (a b : dm T) : option bool :=
    if negb (N.eqb (dm_ncols a) (dm_ncols b)) || negb (N.eqb (dm_nrows a) (dm_nrows b)) then Some false
    else approx_scan tol (N.to_nat (dm_nrows a * dm_ncols a)) (dm_values a) (dm_values b).

  (* ---- LinearRegression / RidgeRegression / Lasso / ElasticNet: { coefficients: M, intercept: T } ---- *)
  Record linmodel := mkLin { lin_coef : dm T; lin_intercept : T }.
  Definition lin_eq (a b : linmodel) : bool :=
    dm_eq (lin_coef a) (lin_coef b) && le_eps (lin_intercept a) (lin_intercept b).

  (* ---- LogisticRegression ---- *)
  Record logit := mkLogit { lg_coef : dm T; lg_intercept : dm T; lg_classes : list T;
                            lg_num_attributes : N; lg_num_classes : N }.
  Definition logit_eq (a b : logit) : bool :=
    if negb (N.eqb (lg_num_classes a) (lg_num_classes b))
       || negb (N.eqb (lg_num_attributes a) (lg_num_attributes b))
       || negb (same_len (lg_classes a) (lg_classes b)) then false
    else if negb (forall2b close (lg_classes a) (lg_classes b)) then false
    else dm_eq (lg_coef a) (lg_coef b) && dm_eq (lg_intercept a) (lg_intercept b).

  (* ---- decision trees ---- *)
  Definition opt_lt_eps (a b : option T) : bool :=
    match a, b with
    | Some x, Some y => lt_eps x y
    | None, None => true
    | _, _ => false
    end.
  (* regressor node: output is a scalar; classifier node: output is a class index *)
  Record rnode := mkRNode { rn_index : N; rn_output : T; rn_feature : N; rn_value : option T;
                            rn_score : option T; rn_true : option N; rn_false : option N }.
  Record cnode := mkCNode { cn_index : N; cn_output : N; cn_feature : N; cn_value : option T;
                            cn_score : option T; cn_true : option N; cn_false : option N }.
  Definition rnode_eq (a b : rnode) : bool :=
    lt_eps (rn_output a) (rn_output b) && N.eqb (rn_feature a) (rn_feature b)
    && opt_lt_eps (rn_value a) (rn_value b) && opt_lt_eps (rn_score a) (rn_score b).
  Definition cnode_eq (a b : cnode) : bool :=
    N.eqb (cn_output a) (cn_output b) && N.eqb (cn_feature a) (cn_feature b)
    && opt_lt_eps (cn_value a) (cn_value b) && opt_lt_eps (cn_score a) (cn_score b).

  Record rtree := mkRTree { rt_nodes : list rnode; rt_depth : N }.
  Definition rtree_eq (a b : rtree) : bool :=
    if negb (N.eqb (rt_depth a) (rt_depth b)) || negb (same_len (rt_nodes a) (rt_nodes b)) then false
    else forall2b rnode_eq (rt_nodes a) (rt_nodes b).

  Record ctree := mkCTree { ct_nodes : list cnode; ct_num_classes : N; ct_classes : list T; ct_depth : N }.
  (* the classes loop runs over self.classes.len() without a length test: `None` = index panic *)
  Definition ctree_eq (a b : ctree) : option bool :=
    if negb (N.eqb (ct_depth a) (ct_depth b)) || negb (N.eqb (ct_num_classes a) (ct_num_classes b))
       || negb (same_len (ct_nodes a) (ct_nodes b)) then Some false
    else match idxall close (ct_classes a) (ct_classes b) with
         | Some true => Some (forall2b cnode_eq (ct_nodes a) (ct_nodes b))
         | r => r
         end.

  (* ---- random forests ---- *)
  Definition rforest_eq (a b : list rtree) : bool :=
    if negb (same_len a b) then false else forall2b rtree_eq a b.
  Record cforest := mkCForest { cf_trees : list ctree; cf_classes : list T }.
  Definition cforest_eq (a b : cforest) : option bool :=
    if negb (same_len (cf_classes a) (cf_classes b)) || negb (same_len (cf_trees a) (cf_trees b)) then Some false
    else if negb (forall2b close (cf_classes a) (cf_classes b)) then Some false
    else idxall_o ctree_eq (cf_trees a) (cf_trees b).

  (* ---- PCA { eigenvectors, eigenvalues, projection, mu, pmu } ---- *)
  Record pca := mkPCA { pca_eigenvectors : dm T; pca_eigenvalues : list T; pca_projection : dm T;
                        pca_mu : list T; pca_pmu : list T }.
  Definition pca_eq (a b : pca) : bool :=
    if negb (dm_eq (pca_eigenvectors a) (pca_eigenvectors b))
       || negb (same_len (pca_eigenvalues a) (pca_eigenvalues b)) then false
    else forall2b close (pca_eigenvalues a) (pca_eigenvalues b).

  (* ---- SVD { components }: approximate_eq with 1e-8 ---- *)
  Definition svd_eq (tol : T) (a b : dm T) : option bool := dm_approx tol a b.

  (* ---- SVC / SVR: (b, w, instances) are compared; classes and kernel are not ---- *)
  Record svm := mkSVM { svm_b : T; svm_w : list T; svm_instances : list (list T) }.
  Definition two_eps : T := O.(omul) eps (O.(oadd) O.(o1) O.(o1)).
  Definition svm_eq (a b : svm) : bool :=
    if gt_tol two_eps (svm_b a) (svm_b b) || negb (same_len (svm_w a) (svm_w b))
       || negb (same_len (svm_instances a) (svm_instances b)) then false
    else if negb (forall2b close (svm_w a) (svm_w b)) then false
    else forall2b (vec_approx eps) (svm_instances a) (svm_instances b).

  (* ---- KMeans { k, _y, size, _distortion, centroids } ---- *)
  Record kmeans := mkKMeans { km_k : N; km_y : list N; km_size : list N; km_distortion : T;
                              km_centroids : list (list T) }.
  Definition nlist_eq (a b : list N) : bool := forall2b N.eqb a b.
  Definition kmeans_eq (a b : kmeans) : bool :=
    if negb (N.eqb (km_k a) (km_k b)) || negb (nlist_eq (km_size a) (km_size b))
       || negb (same_len (km_centroids a) (km_centroids b)) then false
    else forall2b (fun c1 c2 => same_len c1 c2 && forall2b close c1 c2) (km_centroids a) (km_centroids b).

  (* ---- DBSCAN { cluster_labels: Vec<i16>, num_classes, knn_algorithm, eps } ---- *)
  Record dbscan := mkDBSCAN { db_labels : list Z; db_num_classes : N; db_eps : T }.
  Definition dbscan_eq (a b : dbscan) : bool :=
    same_len (db_labels a) (db_labels b) && N.eqb (db_num_classes a) (db_num_classes b)
    && O.(oeqb) (db_eps a) (db_eps b) && forall2b Z.eqb (db_labels a) (db_labels b).

  (* ---- k-NN ---- *)
  Record knnc := mkKNNC { kc_classes : list T; kc_y : list N; kc_k : N }.
  Definition knnc_eq (a b : knnc) : bool :=
    if negb (same_len (kc_classes a) (kc_classes b)) || negb (N.eqb (kc_k a) (kc_k b))
       || negb (same_len (kc_y a) (kc_y b)) then false
    else if negb (forall2b close (kc_classes a) (kc_classes b)) then false
    else forall2b N.eqb (kc_y a) (kc_y b).
  Record knnr := mkKNNR { kr_y : list T; kr_k : N }.
  Definition knnr_eq (a b : knnr) : bool :=
    if negb (N.eqb (kr_k a) (kr_k b)) || negb (same_len (kr_y a) (kr_y b)) then false
    else forall2b close (kr_y a) (kr_y b).

  (* ---- CoverTree: only `data` is compared, through the tree's own distance ---- *)
  Definition covertree_eq {P} (dist : P -> P -> T) (a b : list P) : bool :=
    if negb (same_len a b) then false
    else forall2b (fun x y => O.(oeqb) (dist x y) O.(o0)) a b.
  (* Euclidian::distance (panics on different lengths: not reachable from the cases we run) *)
  Fixpoint sqdist (acc : T) (x y : list T) : T :=
    match x, y with
    | a :: x', b :: y' => let d := O.(osub) a b in sqdist (O.(oadd) acc (O.(omul) d d)) x' y'
    | _, _ => acc
    end.
  Definition euclid (x y : list T) : T := O.(osqrt) (sqdist O.(o0) x y).

  (* ---- naive Bayes distributions with a hand-written relation ---- *)
  Definition tlist_eq (a b : list T) : bool := forall2b O.(oeqb) a b.        (* Vec<T> == Vec<T> *)
  Definition nmat_eq (a b : list (list N)) : bool := forall2b nlist_eq a b.
  Record bernoulli := mkBern { bn_labels : list T; bn_class_count : list N; bn_priors : list T;
                               bn_feature_count : list (list N); bn_log_prob : list (list T); bn_n_features : N }.
  Definition bernoulli_eq (a b : bernoulli) : bool :=
    if tlist_eq (bn_labels a) (bn_labels b) && nlist_eq (bn_class_count a) (bn_class_count b)
       && tlist_eq (bn_priors a) (bn_priors b) && nmat_eq (bn_feature_count a) (bn_feature_count b)
       && N.eqb (bn_n_features a) (bn_n_features b)
    then zipall (vec_approx eps) (bn_log_prob a) (bn_log_prob b)
    else false.
  Record categorical := mkCat { cat_class_count : list N; cat_labels : list T; cat_priors : list T;
                                cat_coefficients : list (list (list T)); cat_n_features : N;
                                cat_n_categories : list N }.
  Definition categorical_eq (a b : categorical) : bool :=
    if tlist_eq (cat_labels a) (cat_labels b) && tlist_eq (cat_priors a) (cat_priors b)
       && N.eqb (cat_n_features a) (cat_n_features b) && nlist_eq (cat_n_categories a) (cat_n_categories b)
       && nlist_eq (cat_class_count a) (cat_class_count b)
    then if negb (same_len (cat_coefficients a) (cat_coefficients b)) then false
         else forall2b (fun f1 f2 => same_len f1 f2 &&
                          forall2b (fun c1 c2 => same_len c1 c2 && forall2b close c1 c2) f1 f2)
                       (cat_coefficients a) (cat_coefficients b)
    else false.
End Eq.
