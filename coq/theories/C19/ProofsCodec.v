(* C19 — proofs about the DenseMatrix codec model (serde struct protocol, JSON driver, bincode wire). *)
From Coq Require Import List String NArith Bool Permutation Lia Arith.
From SC Require Import Base.Num C19.Model.
Import ListNotations.
Open Scope string_scope. Open Scope list_scope.

Definition dm_fields {T} (m : dm T) : list (string * sval T) := fields_of (dm_serialize m).

Lemma dm_fields_eq {T} (m : dm T) :
  dm_fields m = [("nrows", VU64 (dm_nrows m)); ("ncols", VU64 (dm_ncols m)); ("values", VSeq (dm_values m))].
Proof. reflexivity. Qed.

(* ---- sequence form ---- *)
Lemma seq_roundtrip {T} (m : dm T) : visit_seq (map snd (dm_fields m)) = Ok m.
Proof. destruct m; reflexivity. Qed.

Lemma seq_trailing_ignored {T} (m : dm T) rest : visit_seq (map snd (dm_fields m) ++ rest) = Ok m.
Proof. destruct m; reflexivity. Qed.

Lemma seq_ok_inv {T} (s : list (sval T)) m :
  visit_seq s = Ok m -> exists rest, s = map snd (dm_fields m) ++ rest.
Proof.
  destruct s as [|v0 [|v1 [|v2 rest]]]; cbn; try discriminate.
  - destruct v0; cbn; discriminate.
  - destruct v0; cbn; try discriminate. destruct v1; cbn; discriminate.
  - destruct v0; cbn; try discriminate. destruct v1; cbn; try discriminate.
    destruct v2; cbn; try discriminate. intros H; inversion H; subst. exists rest. reflexivity.
Qed.

Lemma seq_short {T} (s : list (sval T)) :
  (List.length s < 3)%nat -> forall m, visit_seq s <> Ok m.
Proof.
  intros Hl m H. apply seq_ok_inv in H. destruct H as [rest ->].
  rewrite app_length in Hl. destruct m; cbn in Hl. lia.
Qed.

Lemma seq_invalid_length {T} (s : list (sval T)) :
  (List.length s < 3)%nat -> Forall (fun v => exists n, v = VU64 n) s ->
  visit_seq s = Err (InvalidLength (List.length s)).
Proof.
  intros Hl Hf. destruct s as [|v0 [|v1 [|v2 rest]]]; cbn in *; try lia; try reflexivity.
  - inversion Hf as [|? ? [n ->] _]. reflexivity.
  - inversion Hf as [|? ? [n ->] Hf']. inversion Hf' as [|? ? [n' ->] _]. reflexivity.
Qed.

(* ---- map form ---- *)
Lemma field_of_key_some k f :
  field_of_key k = Some f ->
  k = match f with FNRows => "nrows" | FNCols => "ncols" | FValues => "values" end.
Proof.
  unfold field_of_key.
  destruct (String.eqb k "nrows") eqn:E1; [intros H; inversion H; subst; now apply String.eqb_eq|].
  destruct (String.eqb k "ncols") eqn:E2; [intros H; inversion H; subst; now apply String.eqb_eq|].
  destruct (String.eqb k "values") eqn:E3; [intros H; inversion H; subst; now apply String.eqb_eq|].
  discriminate.
Qed.

Definition st_entries {T} (on oc : option N) (ov : option (list T)) : list (string * sval T) :=
  (match on with Some n => [("nrows", VU64 n)] | None => [] end) ++
  (match oc with Some n => [("ncols", VU64 n)] | None => [] end) ++
  (match ov with Some l => [("values", VSeq l)] | None => [] end).

(* the loop only ever succeeds by moving each entry it reads into an empty slot of the state *)
Lemma loop_perm {T} (kv : list (string * sval T)) : forall on oc ov on' oc' ov',
  visit_map_loop kv on oc ov = Ok (on', oc', ov') ->
  Permutation (st_entries on oc ov ++ kv) (st_entries on' oc' ov').
Proof.
  induction kv as [|[k v] rest IH]; intros on oc ov on' oc' ov' H.
  - cbn in H. inversion H; subst. rewrite app_nil_r. apply Permutation_refl.
  - cbn in H. destruct (field_of_key k) as [f|] eqn:Ef; [|discriminate].
    apply field_of_key_some in Ef. destruct f; subst k.
    + destruct on; [discriminate|]. destruct v as [n| |]; cbn in H; try discriminate.
      apply IH in H. eapply Permutation_trans; [|exact H].
      unfold st_entries. cbn. apply Permutation_sym, Permutation_middle.
    + destruct oc; [discriminate|]. destruct v as [n| |]; cbn in H; try discriminate.
      apply IH in H. eapply Permutation_trans; [|exact H].
      unfold st_entries. destruct on; cbn.
      * apply perm_skip. apply Permutation_sym.
        change (Permutation ((("ncols", VU64 n) :: match ov with Some l => [("values", VSeq l)] | None => [] end) ++ rest)
                            ((match ov with Some l => [("values", VSeq l)] | None => [] end) ++ ("ncols", VU64 n) :: rest)).
        apply Permutation_sym, Permutation_sym, Permutation_middle.
      * apply Permutation_sym, Permutation_middle.
    + destruct ov; [discriminate|]. destruct v as [|l|]; cbn in H; try discriminate.
      apply IH in H. eapply Permutation_trans; [|exact H].
      unfold st_entries. rewrite !app_assoc. rewrite <- !app_assoc.
      destruct on, oc; cbn; repeat apply perm_skip; apply Permutation_sym;
        try (apply (Permutation_middle [] rest)); apply Permutation_refl.
Qed.

Lemma map_ok_perm {T} (kv : list (string * sval T)) m :
  visit_map kv = Ok m -> Permutation kv (dm_fields m).
Proof.
  unfold visit_map. destruct (visit_map_loop kv None None None) as [[[on oc] ov]|e] eqn:E; [|discriminate].
  destruct on as [nr|]; [|discriminate]. destruct oc as [nc|]; [|discriminate].
  destruct ov as [vs|]; [|discriminate]. intros H; inversion H; subst.
  apply loop_perm in E. exact E.
Qed.

(* the six arrangements of a three-element list *)
Lemma perm3 {A} (a b c : A) l :
  Permutation l [a; b; c] ->
  l = [a; b; c] \/ l = [a; c; b] \/ l = [b; a; c] \/ l = [b; c; a] \/ l = [c; a; b] \/ l = [c; b; a].
Proof.
  intros H. apply Permutation_sym in H.
  assert (Hin : In a l) by (eapply Permutation_in; [exact H | left; reflexivity]).
  apply in_split in Hin. destruct Hin as [l1 [l2 ->]].
  apply Permutation_cons_app_inv in H.
  apply Permutation_length_2_inv in H.
  destruct H as [H|H];
    destruct l1 as [|x [|y [|z l1]]]; cbn in H; inversion H; subst; cbn; try (destruct l1; discriminate); tauto.
Qed.

Lemma map_roundtrip {T} (m : dm T) kv :
  Permutation kv (dm_fields m) -> visit_map kv = Ok m.
Proof.
  rewrite dm_fields_eq. intros H. apply perm3 in H.
  destruct m as [nr nc vs]. cbn [dm_nrows dm_ncols dm_values] in H.
  destruct H as [->|[->|[->|[->|[->| ->]]]]]; reflexivity.
Qed.

Theorem map_ok_iff {T} (kv : list (string * sval T)) m :
  visit_map kv = Ok m <-> Permutation kv (dm_fields m).
Proof. split; [apply map_ok_perm | apply map_roundtrip]. Qed.

Lemma dm_fields_keys {T} (m : dm T) : map fst (dm_fields m) = ["nrows"; "ncols"; "values"].
Proof. reflexivity. Qed.

Lemma keys_nodup : NoDup ["nrows"; "ncols"; "values"].
Proof.
  repeat constructor; cbn; intros H; repeat (destruct H as [H|H]; [discriminate|]); exact H.
Qed.

(* a repeated key, an absent field or a foreign key: never a matrix *)
Lemma map_ok_keys {T} (kv : list (string * sval T)) m :
  visit_map kv = Ok m -> Permutation (map fst kv) ["nrows"; "ncols"; "values"].
Proof. intros H. apply map_ok_perm in H. rewrite <- (dm_fields_keys m). now apply Permutation_map. Qed.

Lemma map_duplicate_never_ok {T} (kv : list (string * sval T)) :
  ~ NoDup (map fst kv) -> forall m, visit_map kv <> Ok m.
Proof.
  intros Hnd m H. apply Hnd. apply map_ok_keys in H.
  eapply Permutation_NoDup; [apply Permutation_sym; exact H | exact keys_nodup].
Qed.

Lemma map_missing_never_ok {T} (kv : list (string * sval T)) f :
  In f ["nrows"; "ncols"; "values"] -> ~ In f (map fst kv) -> forall m, visit_map kv <> Ok m.
Proof.
  intros Hf Hn m H. apply Hn. apply map_ok_keys in H.
  eapply Permutation_in; [apply Permutation_sym; exact H | exact Hf].
Qed.

Lemma map_unknown_never_ok {T} (kv : list (string * sval T)) k :
  In k (map fst kv) -> ~ In k ["nrows"; "ncols"; "values"] -> forall m, visit_map kv <> Ok m.
Proof.
  intros Hk Hn m H. apply Hn. apply map_ok_keys in H. eapply Permutation_in; [exact H | exact Hk].
Qed.

(* the precise errors: any field order followed by a repeated field; any field order with one field dropped *)
Lemma map_duplicate_error {T} (m : dm T) kv k v :
  Permutation kv (dm_fields m) -> In k ["nrows"; "ncols"; "values"] ->
  visit_map (kv ++ [(k, v)]) = Err (DuplicateField k).
Proof.
  rewrite dm_fields_eq. intros H Hk. apply perm3 in H. destruct m as [nr nc vs].
  cbn [dm_nrows dm_ncols dm_values] in H. cbn in Hk.
  destruct Hk as [<-|[<-|[<-|[]]]];
    destruct H as [->|[->|[->|[->|[->| ->]]]]]; reflexivity.
Qed.

Lemma map_missing_error {T} (m : dm T) kv e :
  Permutation (e :: kv) (dm_fields m) -> visit_map kv = Err (MissingField (fst e)).
Proof.
  rewrite dm_fields_eq. intros H. apply perm3 in H. destruct m as [nr nc vs].
  cbn [dm_nrows dm_ncols dm_values] in H.
  destruct H as [H|[H|[H|[H|[H|H]]]]]; inversion H; subst; reflexivity.
Qed.

Lemma map_unknown_error {T} (m : dm T) pre post k v :
  Permutation (pre ++ post) (dm_fields m) -> field_of_key k = None ->
  forall mm, visit_map (pre ++ (k, v) :: post) <> Ok mm.
Proof.
  intros _ Hk mm H. apply map_ok_keys in H.
  assert (Hin : In k ["nrows"; "ncols"; "values"]).
  { eapply Permutation_in; [exact H|]. rewrite map_app. apply in_or_app. right. left. reflexivity. }
  cbn in Hin. destruct Hin as [<-|[<-|[<-|[]]]]; discriminate.
Qed.

(* ---- serde_json driver ---- *)
Lemma json_roundtrip {T} (m : dm T) : json_de (json_ser m) = Ok m.
Proof. destruct m; reflexivity. Qed.
Lemma json_any_order {T} (m : dm T) kv : Permutation kv (dm_fields m) -> json_de (JObj kv) = Ok m.
Proof. apply map_roundtrip. Qed.
Lemma json_seq_form {T} (m : dm T) : json_de (JArr (map snd (dm_fields m))) = Ok m.
Proof. destruct m; reflexivity. Qed.

(* ---- bincode wire format ---- *)
Lemma le_bytes_length k n : List.length (le_bytes k n) = k.
Proof. revert n; induction k; intros; cbn; [reflexivity| now rewrite IHk]. Qed.

Lemma le_value_le_bytes k n : le_value (le_bytes k n) = N.modulo n (256 ^ N.of_nat k).
Proof.
  revert n; induction k as [|k IH]; intros n.
  - cbn. now rewrite N.mod_1_r.
  - cbn [le_bytes le_value]. rewrite IH. rewrite Nat2N.inj_succ, N.pow_succ_r'.
    rewrite N.mod_mul_r; [reflexivity | discriminate | apply N.pow_nonzero; discriminate].
Qed.

Lemma le_value_small k n : (n < 256 ^ N.of_nat k)%N -> le_value (le_bytes k n) = n.
Proof. intros H. rewrite le_value_le_bytes. now apply N.mod_small. Qed.

Lemma take_n_app {A} (a b : list A) : take_n (List.length a) (a ++ b) = Some (a, b).
Proof. induction a as [|x a IH]; cbn; [reflexivity| now rewrite IH]. Qed.

Lemma read_int_app k n rest :
  (n < 256 ^ N.of_nat k)%N -> read_int k (le_bytes k n ++ rest) = Some (n, rest).
Proof.
  intros H. unfold read_int.
  rewrite <- (le_bytes_length k n) at 1. rewrite take_n_app. now rewrite le_value_small.
Qed.

Lemma read_elems_app w l : forall fuel rest,
  (List.length l <= fuel)%nat -> Forall (fun x => (x < 256 ^ N.of_nat w)%N) l ->
  read_elems w fuel (N.of_nat (List.length l)) (flat_map (le_bytes w) l ++ rest) = Some (l, rest).
Proof.
  induction l as [|x l IH]; intros fuel rest Hf Hb.
  - destruct fuel; reflexivity.
  - destruct fuel as [|fuel]; [cbn in Hf; lia|].
    cbn [List.length flat_map]. cbn [read_elems].
    replace (N.eqb (N.of_nat (S (List.length l))) 0) with false
      by (symmetry; apply N.eqb_neq; lia).
    rewrite <- app_assoc. inversion Hb as [|? ? Hx Hl]; subst.
    rewrite read_int_app by exact Hx.
    replace (N.pred (N.of_nat (S (List.length l)))) with (N.of_nat (List.length l)) by lia.
    rewrite IH; [reflexivity | cbn in Hf; lia | exact Hl].
Qed.

Lemma flat_map_le_length w (l : list N) : List.length (flat_map (le_bytes w) l) = (List.length l * w)%nat.
Proof. induction l; cbn; [reflexivity|]. rewrite app_length, le_bytes_length, IHl. lia. Qed.

Theorem bincode_roundtrip_gen w (m : dm N) rest :
  (0 < w)%nat ->
  (dm_nrows m < 2 ^ 64)%N -> (dm_ncols m < 2 ^ 64)%N -> (N.of_nat (List.length (dm_values m)) < 2 ^ 64)%N ->
  Forall (fun x => (x < 256 ^ N.of_nat w)%N) (dm_values m) ->
  bincode_de w (bincode_ser w m ++ rest) = Ok m.
Proof.
  intros Hw Hr Hc Hl Hv. destruct m as [nr nc vs]. cbn [dm_nrows dm_ncols dm_values] in *.
  unfold bincode_ser, dm_serialize. cbn [bincode_tokens bincode_sval].
  rewrite app_nil_r. unfold bincode_de. rewrite <- !app_assoc.
  assert (E64 : (256 ^ N.of_nat 8 = 2 ^ 64)%N) by reflexivity.
  rewrite read_int_app by (rewrite E64; exact Hr).
  rewrite read_int_app by (rewrite E64; exact Hc).
  rewrite read_int_app by (rewrite E64; exact Hl).
  rewrite read_elems_app; [reflexivity | | exact Hv].
  rewrite app_length, flat_map_le_length. nia.
Qed.
