(* C17 — quadratic forms on R^n: expansion of Q(u + t v), the Cauchy–Schwarz / triangle lemma for a
   positive semi-definite form (used for both Euclidian and Mahalanobis), the identity matrix. *)
From Coq Require Import List Arith Reals Lra Lia Psatz.
From SC Require Import C17.Spec C17.ProofsSum.
Import ListNotations.
Local Open Scope R_scope.

(* ---------- the scalar core: a non-negative quadratic polynomial ---------- *)
Lemma quad_cauchy_schwarz a b c :
  0 <= a -> (forall t, 0 <= c + 2 * t * b + t * t * a) -> b * b <= a * c.
Proof.
  intros Ha H. destruct (Req_dec a 0) as [Ha0|Ha0].
  - subst a. destruct (Req_dec b 0) as [->|Hb]; [lra|].
    exfalso. specialize (H (- (c + 1) / (2 * b))).
    replace (c + 2 * (- (c + 1) / (2 * b)) * b + - (c + 1) / (2 * b) * (- (c + 1) / (2 * b)) * 0)
      with (-1) in H by (field; exact Hb). lra.
  - assert (Hapos : 0 < a) by lra.
    specialize (H (- b / a)).
    replace (c + 2 * (- b / a) * b + - b / a * (- b / a) * a) with ((a * c - b * b) / a) in H
      by (field; exact Ha0).
    assert (0 <= (a * c - b * b) / a * a) by (apply Rmult_le_pos; lra).
    replace ((a * c - b * b) / a * a) with (a * c - b * b) in * by (field; exact Ha0). lra.
Qed.

Lemma quad_triangle a b c :
  0 <= a -> 0 <= c -> (forall t, 0 <= c + 2 * t * b + t * t * a) ->
  sqrt (c + 2 * b + a) <= sqrt c + sqrt a.
Proof.
  intros Ha Hc H.
  pose proof (quad_cauchy_schwarz a b c Ha H) as CS.
  assert (Hb : b <= sqrt a * sqrt c).
  { rewrite <- sqrt_mult by assumption.
    apply Rle_trans with (Rabs b); [apply Rle_abs|].
    rewrite <- sqrt_Rsqr_abs. apply sqrt_le_1_alt. unfold Rsqr. exact CS. }
  assert (Hsum : 0 <= sqrt c + sqrt a) by (pose proof (sqrt_pos c); pose proof (sqrt_pos a); lra).
  rewrite <- (sqrt_square (sqrt c + sqrt a)) by exact Hsum.
  apply sqrt_le_1_alt.
  replace ((sqrt c + sqrt a) * (sqrt c + sqrt a))
    with (sqrt c * sqrt c + 2 * (sqrt a * sqrt c) + sqrt a * sqrt a) by ring.
  rewrite !sqrt_sqrt by assumption. lra.
Qed.

(* ---------- bilinear expansion ---------- *)
Definition bform (n : nat) (S : list (list R)) (u v : nat -> R) : R :=
  sigma n (fun j => sigma n (fun i => entry S i j * u i * v j)).

Lemma sigma_lin3 n t (a b c : nat -> R) :
  sigma n (fun i => a i + t * b i + t * t * c i) = sigma n a + t * sigma n b + t * t * sigma n c.
Proof.
  induction n as [|n IH]; [unfold sigma; cbn; lra|]. rewrite !sigma_S_last, IH. lra.
Qed.

Lemma qform_expand n S u v t :
  qform n S (fun i => u i + t * v i) =
  qform n S u + t * (bform n S u v + bform n S v u) + t * t * qform n S v.
Proof.
  unfold qform, bform.
  rewrite <- sigma_plus.
  rewrite <- (sigma_lin3 n t).
  apply sigma_ext. intros j _.
  rewrite <- sigma_plus.
  rewrite <- (sigma_lin3 n t).
  apply sigma_ext. intros i _. ring.
Qed.

Lemma qform_ext n S u v : (forall i, (i < n)%nat -> u i = v i) -> qform n S u = qform n S v.
Proof.
  intros H. unfold qform. apply sigma_ext. intros j Hj. apply sigma_ext. intros i Hi.
  rewrite (H i Hi), (H j Hj). reflexivity.
Qed.
Lemma qform_neg n S u : qform n S (fun i => - u i) = qform n S u.
Proof. unfold qform. apply sigma_ext. intros j _. apply sigma_ext. intros i _. ring. Qed.
Lemma qform_zero n S : qform n S (fun _ => 0) = 0.
Proof.
  unfold qform. rewrite (sigma_ext n _ (fun _ => 0)); [apply sigma_zero|].
  intros j _. rewrite (sigma_ext n _ (fun _ => 0)); [apply sigma_zero|]. intros i _. ring.
Qed.

(* the triangle inequality of sqrt(Q) for a positive semi-definite Q (Cauchy–Schwarz inside) *)
Lemma qform_triangle n S u v : psd n S ->
  sqrt (qform n S (fun i => u i + v i)) <= sqrt (qform n S u) + sqrt (qform n S v).
Proof.
  intros Hpsd.
  set (b := (bform n S u v + bform n S v u) / 2).
  assert (E : forall t, qform n S (fun i => u i + t * v i)
                        = qform n S u + 2 * t * b + t * t * qform n S v).
  { intros t. rewrite qform_expand. unfold b. lra. }
  replace (qform n S (fun i => u i + v i)) with (qform n S u + 2 * b + qform n S v).
  - apply quad_triangle; [apply Hpsd | apply Hpsd |].
    intros t. rewrite <- E. apply Hpsd.
  - specialize (E 1). rewrite (qform_ext n S (fun i => u i + v i) (fun i => u i + 1 * v i)).
    + rewrite E. lra.
    + intros i _. lra.
Qed.

(* ---------- identity matrix ---------- *)
Lemma entry_identity n i j : (i < n)%nat -> (j < n)%nat ->
  entry (identity_matrix n) i j = if Nat.eqb i j then 1 else 0.
Proof.
  intros Hi Hj. unfold entry, identity_matrix.
  rewrite (nth_indep _ [] (map (fun j => if Nat.eqb 0 j then 1 else 0) (seq 0 n)))
    by (rewrite map_length, seq_length; exact Hi).
  rewrite (map_nth (fun i => map (fun j => if Nat.eqb i j then 1 else 0) (seq 0 n)) (seq 0 n) 0%nat i).
  rewrite seq_nth by exact Hi. cbn [Nat.add].
  rewrite (nth_indep _ 0 (if Nat.eqb i 0 then 1 else 0)) by (rewrite map_length, seq_length; exact Hj).
  rewrite (map_nth (fun j => if Nat.eqb i j then 1 else 0) (seq 0 n) 0%nat j).
  rewrite seq_nth by exact Hj. reflexivity.
Qed.

Lemma qform_identity n w : qform n (identity_matrix n) w = sigma n (fun j => w j * w j).
Proof.
  unfold qform. apply sigma_ext. intros j Hj.
  rewrite (sigma_ext n _ (fun i => (if Nat.eqb i j then 1 else 0) * (w i * w j))).
  - apply sigma_delta with (f := fun i => w i * w j). exact Hj.
  - intros i Hi. rewrite entry_identity by assumption. ring.
Qed.
Lemma psd_identity n : psd n (identity_matrix n).
Proof.
  intros w. rewrite qform_identity. apply sigma_nonneg. intros i _. nra.
Qed.
