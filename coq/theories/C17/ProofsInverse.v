(* C17 — from the covariance to its stored inverse: if S is positive semi-definite on R^n and T is a
   right inverse of S (S T = I, which is what the LU inversion of C01 delivers and what the search
   checks numerically on every constructed object), then T is positive semi-definite, hence
   Mahalanobis::distance on T satisfies the metric laws.  No symmetry is needed. *)
From Coq Require Import List Arith Reals Lra Lia.
From SC Require Import C17.Spec C17.ProofsSum C17.ProofsQuad.
Import ListNotations.
Local Open Scope R_scope.

Lemma sigma_delta' n i (f : nat -> R) : (i < n)%nat ->
  sigma n (fun l => (if Nat.eqb i l then 1 else 0) * f l) = f i.
Proof.
  intros Hi. rewrite (sigma_ext n _ (fun l => (if Nat.eqb l i then 1 else 0) * f l)).
  - apply sigma_delta. exact Hi.
  - intros l _. rewrite (Nat.eqb_sym i l). reflexivity.
Qed.

Lemma psd_right_inverse n S T : psd n S -> right_inverse n S T -> psd n T.
Proof.
  intros Hpsd Hinv w.
  set (y := fun k => sigma n (fun l => entry T k l * w l)).
  (* S y = w on the index range *)
  assert (Sy : forall i, (i < n)%nat -> sigma n (fun k => entry S i k * y k) = w i).
  { intros i Hi. unfold y.
    rewrite (sigma_ext n _ (fun k => sigma n (fun l => entry S i k * entry T k l * w l)))
      by (intros k _; rewrite <- sigma_scal; apply sigma_ext; intros l _; ring).
    rewrite sigma_swap.
    rewrite (sigma_ext n _ (fun l => (if Nat.eqb i l then 1 else 0) * w l)).
    - apply sigma_delta'. exact Hi.
    - intros l Hl. rewrite <- (Hinv i l Hi Hl).
      rewrite Rmult_comm, <- sigma_scal. apply sigma_ext. intros k _. ring. }
  (* w^T T w = sum_i w_i y_i = sum_i (S y)_i y_i = y^T S y >= 0 *)
  assert (E : qform n T w = qform n S y).
  { unfold qform.
    rewrite sigma_swap.
    rewrite (sigma_ext n _ (fun i => w i * y i)).
    - rewrite (sigma_ext n (fun i => w i * y i)
                         (fun i => sigma n (fun k => entry S i k * y i * y k))).
      + rewrite sigma_swap. apply sigma_ext. intros k _. apply sigma_ext. intros i _. ring.
      + intros i Hi. rewrite <- (Sy i Hi). rewrite Rmult_comm, <- sigma_scal.
        apply sigma_ext. intros k _. ring.
    - intros i _. unfold y. rewrite <- sigma_scal. apply sigma_ext. intros l _. ring. }
  rewrite E. apply Hpsd.
Qed.
