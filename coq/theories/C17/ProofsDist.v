(* C17 — the model's distance functions over the reals: closed forms (the folds are the index sums of
   the definitions), rejection of mismatched lengths, and the metric laws of Manhattan, Hamming,
   Mahalanobis (for a positive semi-definite stored inverse) and Euclidian (= Mahalanobis with the
   identity matrix). *)
From Coq Require Import List Arith ZArith Bool Reals Lra Lia Psatz.
From SC Require Import Base.Num C17.Model C17.Spec C17.ProofsSum C17.ProofsQuad.
Import ListNotations.
Local Open Scope R_scope.

Lemma same_len_true {A} (x y : list A) : same_len x y = true <-> length x = length y.
Proof. unfold same_len. apply Nat.eqb_eq. Qed.
Lemma same_len_false {A} (x y : list A) : same_len x y = false <-> length x <> length y.
Proof. unfold same_len. apply Nat.eqb_neq. Qed.

Lemma fold_left_ext {A B} (f g : A -> B -> A) l a :
  (forall s b, f s b = g s b) -> fold_left f l a = fold_left g l a.
Proof. intros H. revert a. induction l as [|h t IH]; intros a; cbn; [reflexivity|]. rewrite H. apply IH. Qed.

(* ---------- loops = index sums ---------- *)
Lemma sq_dist_loop_R x y : length x = length y ->
  sq_dist_loop ROps x y = sigma (length x) (fun i => (comp x i - comp y i) * (comp x i - comp y i)).
Proof.
  intros H. unfold sq_dist_loop. cbn [ROps oadd osub omul o0].
  rewrite (fold_left_Rsum (fun ab : R * R => (fst ab - snd ab) * (fst ab - snd ab))).
  rewrite (Rsum_combine 0) by exact H. unfold comp. cbn [fst snd]. lra.
Qed.
Lemma manhattan_loop_R x y : length x = length y ->
  manhattan_loop ROps x y = sigma (length x) (fun i => Rabs (comp x i - comp y i)).
Proof.
  intros H. unfold manhattan_loop. cbn [ROps oadd osub oabs o0].
  rewrite (fold_left_Rsum (fun ab : R * R => Rabs (fst ab - snd ab))).
  rewrite (Rsum_combine 0) by exact H. unfold comp. cbn [fst snd]. lra.
Qed.

Lemma comp_vsub x y i : length x = length y ->
  comp (vsub ROps x y) i = comp x i - comp y i.
Proof.
  unfold comp, vsub. cbn [ROps osub]. revert y i.
  induction x as [|a x IH]; intros [|b y] i H; try discriminate.
  - destruct i; cbn; lra.
  - destruct i as [|i]; cbn [combine map nth fst snd]; [reflexivity|]. apply IH. cbn in H. lia.
Qed.
Lemma vsub_length x y : length x = length y -> length (vsub ROps x y) = length x.
Proof. intros H. unfold vsub. rewrite map_length, combine_length, H. apply Nat.min_id. Qed.

Lemma quadform_R n S z : quadform ROps n S z = qform n S (comp z).
Proof.
  unfold quadform, qform. cbn [ROps oadd omul o0].
  rewrite (fold_left_ext _ (fun s j => s + sigma n (fun i => entry S i j * comp z i * comp z j))).
  - rewrite (fold_left_Rsum (fun j => sigma n (fun i => entry S i j * comp z i * comp z j))).
    unfold sigma. lra.
  - intros s j.
    rewrite (fold_left_Rsum (fun i => mget ROps S i j * nth i z 0 * nth j z 0)).
    reflexivity.
Qed.

(* ---------- closed forms / rejection ---------- *)
Lemma euclidian_some x y d :
  euclidian ROps x y = Some d <->
  length x = length y /\
  d = sqrt (sigma (length x) (fun i => (comp x i - comp y i) * (comp x i - comp y i))).
Proof.
  unfold euclidian, squared_distance. destruct (same_len x y) eqn:E; cbn [option_map ROps osqrt].
  - apply same_len_true in E. rewrite sq_dist_loop_R by exact E.
    split; [intros [= <-]; auto | intros [_ ->]; reflexivity].
  - apply same_len_false in E. split; [discriminate | tauto].
Qed.
Lemma euclidian_none x y : euclidian ROps x y = None <-> length x <> length y.
Proof.
  unfold euclidian, squared_distance. destruct (same_len x y) eqn:E; cbn [option_map].
  - apply same_len_true in E. split; [discriminate | tauto].
  - apply same_len_false in E. tauto.
Qed.
Lemma manhattan_some x y d :
  manhattan ROps x y = Some d <->
  length x = length y /\ d = sigma (length x) (fun i => Rabs (comp x i - comp y i)).
Proof.
  unfold manhattan. destruct (same_len x y) eqn:E.
  - apply same_len_true in E. rewrite manhattan_loop_R by exact E.
    split; [intros [= <-]; auto | intros [_ ->]; reflexivity].
  - apply same_len_false in E. split; [discriminate | tauto].
Qed.
Lemma manhattan_none x y : manhattan ROps x y = None <-> length x <> length y.
Proof.
  unfold manhattan. destruct (same_len x y) eqn:E.
  - apply same_len_true in E. split; [discriminate | tauto].
  - apply same_len_false in E. tauto.
Qed.
Lemma mahalanobis_some n S x y d :
  mahalanobis ROps n S x y = Some d <->
  length x = n /\ length y = n /\ d = sqrt (qform n S (fun i => comp x i - comp y i)).
Proof.
  unfold mahalanobis.
  destruct (Nat.eqb_spec (length x) n) as [Hx|Hx]; destruct (Nat.eqb_spec (length y) n) as [Hy|Hy];
    cbn [andb]; try (split; [discriminate | tauto]).
  cbn [ROps osqrt]. rewrite quadform_R, Hx.
  rewrite (qform_ext n S (comp (vsub ROps x y)) (fun i => comp x i - comp y i))
    by (intros i _; apply comp_vsub; congruence).
  split; [intros [= <-]; auto | intros (_ & _ & ->); reflexivity].
Qed.
Lemma mahalanobis_none n S x y :
  mahalanobis ROps n S x y = None <-> (length x <> n \/ length y <> n).
Proof.
  unfold mahalanobis.
  destruct (Nat.eqb_spec (length x) n) as [Hx|Hx]; destruct (Nat.eqb_spec (length y) n) as [Hy|Hy];
    cbn [andb]; try tauto. split; [discriminate | tauto].
Qed.

(* ---------- Manhattan: metric laws ---------- *)
Lemma manhattan_metric : metric_laws (manhattan ROps).
Proof.
  intros x y z dxy dyz dxz Hxy Hyz Hxz.
  apply manhattan_some in Hxy as [Lxy ->]. apply manhattan_some in Hyz as [Lyz ->].
  apply manhattan_some in Hxz as [Lxz ->].
  repeat split.
  - apply sigma_nonneg. intros i _. apply Rabs_pos.
  - apply manhattan_some. split; [auto|]. rewrite <- Lxy. apply sigma_ext. intros i _. apply Rabs_minus_sym.
  - apply manhattan_some. split; [reflexivity|]. symmetry.
    rewrite (sigma_ext _ _ (fun _ => 0)); [apply sigma_zero|].
    intros i _. rewrite Rminus_diag_eq by reflexivity. apply Rabs_R0.
  - rewrite <- Lxy, <- sigma_plus. apply sigma_le. intros i _.
    replace (comp x i - comp z i) with ((comp x i - comp y i) + (comp y i - comp z i)) by ring.
    apply Rabs_triang.
Qed.

(* ---------- Mahalanobis: metric laws for a positive semi-definite stored inverse ---------- *)
Lemma mahalanobis_metric n S : psd n S -> metric_laws (mahalanobis ROps n S).
Proof.
  intros Hpsd x y z dxy dyz dxz Hxy Hyz Hxz.
  apply mahalanobis_some in Hxy as (Lx & Ly & ->). apply mahalanobis_some in Hyz as (_ & Lz & ->).
  apply mahalanobis_some in Hxz as (_ & _ & ->).
  repeat split.
  - apply sqrt_pos.
  - apply mahalanobis_some. repeat split; auto. f_equal.
    rewrite <- (qform_neg n S (fun i => comp y i - comp x i)).
    apply qform_ext. intros i _. ring.
  - apply mahalanobis_some. repeat split; auto.
    rewrite (qform_ext n S _ (fun _ => 0)) by (intros i _; ring).
    rewrite qform_zero, sqrt_0. reflexivity.
  - rewrite (qform_ext n S (fun i => comp x i - comp z i)
                       (fun i => (comp x i - comp y i) + (comp y i - comp z i))) by (intros i _; ring).
    apply qform_triangle. exact Hpsd.
Qed.

(* ---------- identity covariance: Mahalanobis = Euclidian ---------- *)
Lemma mahalanobis_identity n x y : length x = n ->
  mahalanobis ROps n (identity_matrix n) x y = euclidian ROps x y.
Proof.
  intros Hx. destruct (euclidian ROps x y) as [d|] eqn:E.
  - apply euclidian_some in E as [L ->]. apply mahalanobis_some. repeat split; [auto | congruence |].
    rewrite qform_identity, Hx. reflexivity.
  - apply euclidian_none in E. apply mahalanobis_none. right. congruence.
Qed.

Lemma euclidian_metric : metric_laws (euclidian ROps).
Proof.
  intros x y z dxy dyz dxz Hxy Hyz Hxz.
  assert (Lxy : length x = length y) by (apply euclidian_some in Hxy; tauto).
  assert (Lyz : length y = length z) by (apply euclidian_some in Hyz; tauto).
  pose proof (mahalanobis_metric (length x) (identity_matrix (length x)) (psd_identity _)
                                 x y z dxy dyz dxz) as M.
  rewrite !mahalanobis_identity in M by congruence.
  exact (M Hxy Hyz Hxz).
Qed.
