(* C17 — rounding-error theorems for the binary64 instance of the model (the very definitions the
   correspondence check executes against the Rust code): Manhattan, squared Euclidian, Euclidian,
   Hamming.  Built on Base/FloatError.v (Flocq's primitive-float bridge).  `FR x` is the real value of
   a float, `RV x` the vector of real values, `ffin d` finiteness, u64 = 2^-53, eta64 = 2^-1075.
   The only no-overflow hypothesis is that the RESULT is finite: non-finite values are absorbing, so
   every input and every intermediate is then finite and no addition/multiplication overflowed. *)
From Coq Require Import List Arith ZArith Bool Reals Floats Lra Lia Psatz.
From Flocq Require Import Core.
From SC Require Import Base.FloatUtil Base.Num Base.FloatError C17.Model C17.Spec C17.ProofsSum C17.ProofsDist
     C17.ProofsHamming.
Import ListNotations.
Local Open Scope R_scope.

Lemma fold_left_map_r {A B C} (f : A -> C -> A) (g : B -> C) l a :
  fold_left (fun s b => f s (g b)) l a = fold_left f (map g l) a.
Proof. revert a. induction l as [|h t IH]; intros a; cbn [fold_left map]; [reflexivity | apply IH]. Qed.

Lemma Forall2_map_in {A B C} (P : B -> C -> Prop) (g : A -> B) (h : A -> C) l :
  (forall a, In a l -> P (g a) (h a)) -> Forall2 P (map g l) (map h l).
Proof.
  induction l as [|a l IH]; intros H; cbn [map]; constructor.
  - apply H. left. reflexivity.
  - apply IH. intros b Hb. apply H. right. exact Hb.
Qed.

(* real values of a float vector *)
Definition RV (x : list PrimFloat.float) : list R := map FR x.
Lemma comp_RV x i : comp (RV x) i = FR (nth i x 0%float).
Proof. unfold comp, RV. rewrite <- FR_zero at 1. apply map_nth. Qed.
Lemma RV_length x : length (RV x) = length x.
Proof. apply map_length. Qed.

Lemma Rsuml_combine_RV (f : R -> R -> R) (x y : list PrimFloat.float) : length x = length y ->
  Rsuml (map (fun ab => f (FR (fst ab)) (FR (snd ab))) (combine x y)) =
  sigma (length x) (fun i => f (comp (RV x) i) (comp (RV y) i)).
Proof.
  intros H. change Rsuml with Rsum.
  rewrite (Rsum_combine 0%float (fun ab => f (FR (fst ab)) (FR (snd ab))) x y H).
  apply sigma_ext. intros i _. rewrite !comp_RV. reflexivity.
Qed.

(* ---------------- Manhattan ---------------- *)
Definition man_term (ab : PrimFloat.float * PrimFloat.float) : PrimFloat.float :=
  PrimFloat.abs (PrimFloat.sub (fst ab) (snd ab)).

Lemma manhattan_loop_F x y : manhattan_loop FOps x y = fsum (map man_term (combine x y)).
Proof. unfold manhattan_loop, fsum. cbn [FOps oadd osub oabs o0]. apply (fold_left_map_r PrimFloat.add man_term). Qed.

Lemma man_term_error ab : ffin (man_term ab) ->
  0 <= Rabs (FR (fst ab) - FR (snd ab)) /\
  Rabs (FR (man_term ab) - Rabs (FR (fst ab) - FR (snd ab))) <= Eu 1 * Rabs (FR (fst ab) - FR (snd ab)) + 0.
Proof.
  unfold man_term. intros H. split; [apply Rabs_pos|]. apply (proj1 (fabs_finite _)) in H.
  rewrite fabs_exact, Eu_1, Rplus_0_r.
  eapply Rle_trans; [apply Rabs_triang_inv2 | apply fsub_error, H].
Qed.

Theorem manhattan_float_error x y d :
  manhattan FOps x y = Some d -> ffin d ->
  let D := sigma (length x) (fun i => Rabs (comp (RV x) i - comp (RV y) i)) in
  manhattan ROps (RV x) (RV y) = Some D /\
  0 <= D /\ 0 <= FR d /\ Rabs (FR d - D) <= ((1 + u64) ^ length x - 1) * D.
Proof.
  unfold manhattan. destruct (same_len x y) eqn:L; [|discriminate]. intros [= <-] Hfin. set (D := sigma (length x) _).
  apply same_len_true in L.
  assert (L' : same_len (RV x) (RV y) = true) by (apply same_len_true; rewrite !RV_length; exact L).
  rewrite L'. rewrite manhattan_loop_R by (rewrite !RV_length; exact L). rewrite RV_length. fold D.
  split; [reflexivity|].
  rewrite manhattan_loop_F in *.
  set (l := map man_term (combine x y)) in *.
  set (a := map (fun ab => Rabs (FR (fst ab) - FR (snd ab))) (combine x y)).
  assert (HF : Forall2 (fun t a => ffin t -> 0 <= a /\ Rabs (FR t - a) <= Eu 1 * a + 0) l a).
  { apply Forall2_map_in. intros ab _. apply man_term_error. }
  assert (Ea : Rsuml a = D).
  { unfold a, D. apply (Rsuml_combine_RV (fun u v => Rabs (u - v)) x y L). }
  assert (Ll : length l = length x).
  { unfold l. rewrite map_length, combine_length, L. apply Nat.min_id. }
  destruct (fsum_error_gen 1 0 (Rle_refl 0) l a HF Hfin) as [G1 G2].
  rewrite Ea, Ll in *. split; [exact G1|]. split.
  - apply fold_fadd_nonneg; [exact Hfin | | rewrite FR_zero; lra].
    unfold l. apply Forall_forall. intros t Ht. apply in_map_iff in Ht as (ab & <- & _).
    unfold man_term. rewrite fabs_exact. apply Rabs_pos.
  - replace (1 + length x - 1)%nat with (length x) in G2 by lia.
    rewrite Rmult_0_r, !Rplus_0_r in G2. exact G2.
Qed.

(* ---------------- squared Euclidian ---------------- *)
Definition sq_term (ab : PrimFloat.float * PrimFloat.float) : PrimFloat.float :=
  let d := PrimFloat.sub (fst ab) (snd ab) in PrimFloat.mul d d.

Lemma sq_dist_loop_F x y : sq_dist_loop FOps x y = fsum (map sq_term (combine x y)).
Proof. unfold sq_dist_loop, fsum. cbn [FOps oadd osub omul o0]. apply (fold_left_map_r PrimFloat.add sq_term). Qed.

(* D = delta (1 + eps), |eps| <= u  ==>  D^2 within Eu 2 of delta^2 *)
Lemma sq_perturb (D dl : R) : Rabs (D - dl) <= u64 * Rabs dl ->
  Rabs (D * D - dl * dl) <= Eu 2 * (dl * dl) /\ Rabs (D * D) <= (1 + Eu 2) * (dl * dl).
Proof.
  intros H. pose proof u64_pos as Hu.
  assert (Hsq : Rabs dl * Rabs dl = dl * dl) by (rewrite <- Rabs_mult; apply Rabs_pos_eq; nra).
  pose proof (Rabs_pos dl) as Hd. pose proof (Rabs_pos (D - dl)) as Hr.
  assert (H1 : Rabs (D * D - dl * dl) <= Eu 2 * (dl * dl)).
  { replace (D * D - dl * dl) with ((D - dl) * (2 * dl + (D - dl))) by ring.
    rewrite Rabs_mult.
    assert (Rabs (2 * dl + (D - dl)) <= 2 * Rabs dl + Rabs (D - dl)).
    { eapply Rle_trans; [apply Rabs_triang|]. rewrite Rabs_mult, (Rabs_pos_eq 2) by lra. lra. }
    pose proof (Rabs_pos (2 * dl + (D - dl))).
    unfold Eu. cbn [pow]. nra. }
  split; [exact H1|].
  replace (D * D) with ((D * D - dl * dl) + dl * dl) by ring.
  eapply Rle_trans; [apply Rabs_triang|]. rewrite (Rabs_pos_eq (dl * dl)) by nra. lra.
Qed.

Lemma sq_term_error ab : ffin (sq_term ab) ->
  let dl := FR (fst ab) - FR (snd ab) in
  0 <= dl * dl /\ Rabs (FR (sq_term ab) - dl * dl) <= Eu 3 * (dl * dl) + eta64.
Proof.
  unfold sq_term. cbv zeta. intros H. set (dl := FR (fst ab) - FR (snd ab)).
  split; [nra|].
  pose proof (fmul_error _ _ H) as Hm. destruct (fmul_finite _ _ H) as (Hd & _ & _).
  pose proof (fsub_error _ _ Hd) as Hs. fold dl in Hs.
  set (D := FR (fst ab - snd ab)%float) in *.
  destruct (sq_perturb D dl Hs) as [P1 P2].
  replace (FR (_ * _)%float - dl * dl) with ((FR ((fst ab - snd ab) * (fst ab - snd ab))%float - D * D) + (D * D - dl * dl)) by ring.
  eapply Rle_trans; [apply Rabs_triang|]. rewrite (Eu_S 2). pose proof u64_pos. nra.
Qed.

(* no underflow in the squares: every difference is zero or at least 2^-510 in magnitude *)
Definition diff_normal (ab : PrimFloat.float * PrimFloat.float) : Prop :=
  FR (fst ab) - FR (snd ab) = 0 \/ bpow radix2 (-510) <= Rabs (FR (fst ab) - FR (snd ab)).

Lemma sq_term_error_normal ab : diff_normal ab -> ffin (sq_term ab) ->
  let dl := FR (fst ab) - FR (snd ab) in
  0 <= dl * dl /\ Rabs (FR (sq_term ab) - dl * dl) <= Eu 3 * (dl * dl) + 0.
Proof.
  unfold sq_term, diff_normal. cbv zeta. intros N H. set (dl := FR (fst ab) - FR (snd ab)) in *.
  split; [nra|]. rewrite Rplus_0_r.
  destruct (fmul_finite _ _ H) as (Hd & _ & E).
  pose proof (fsub_error _ _ Hd) as Hs. fold dl in Hs.
  set (D := FR (fst ab - snd ab)%float) in *.
  destruct N as [Z|N].
  - rewrite Z in *. rewrite Rabs_R0, Rmult_0_r, Rminus_0_r in Hs.
    assert (D = 0). { pose proof (Rabs_pos D). apply Rabs_eq_R0. lra. }
    rewrite E. replace (D * D) with 0 by (subst D; nra). rewrite rnd64_0.
    rewrite Rmult_0_r, Rminus_0_r, Rabs_R0, Rmult_0_r. lra.
  - assert (Hn : bpow radix2 (-1022) <= Rabs (D * D)).
    { change (-1022)%Z with (-511 + -511)%Z. rewrite bpow_plus, Rabs_mult.
      assert (bpow radix2 (-511) <= Rabs D).
      { assert (Rabs dl - Rabs D <= Rabs (D - dl)).
        { rewrite <- (Rabs_Ropp (D - dl)). replace (- (D - dl)) with (dl - D) by ring. apply Rabs_triang_inv. }
        assert (bpow radix2 (-510) = 2 * bpow radix2 (-511)).
        { change (-510)%Z with (1 + -511)%Z. rewrite bpow_plus. reflexivity. }
        pose proof u64_lt_1. pose proof u64_pos. pose proof (bpow_gt_0 radix2 (-511)). pose proof (Rabs_pos dl).
        assert (u64 <= /2).
        { unfold u64. change (/2) with (bpow radix2 (-1)). apply bpow_le. lia. }
        nra. }
      pose proof (bpow_gt_0 radix2 (-511)). nra. }
    pose proof (fmul_error_normal _ _ H Hn) as Hm. fold D in Hm.
    destruct (sq_perturb D dl Hs) as [P1 P2].
    replace (FR (_ * _)%float - dl * dl) with ((FR ((fst ab - snd ab) * (fst ab - snd ab))%float - D * D) + (D * D - dl * dl)) by ring.
    eapply Rle_trans; [apply Rabs_triang|]. rewrite (Eu_S 2). pose proof u64_pos. nra.
Qed.

Lemma sq_terms_nonneg x y : Forall (fun t => ffin t -> 0 <= FR t) (map sq_term (combine x y)).
Proof.
  apply Forall_forall. intros t Ht. apply in_map_iff in Ht as (ab & <- & _).
  unfold sq_term. intros H. destruct (fmul_finite _ _ H) as (_ & _ & E). rewrite E.
  apply rnd64_ge_0. nra.
Qed.

Theorem squared_distance_float_error x y d :
  squared_distance FOps x y = Some d -> ffin d ->
  let n := length x in
  let D := sigma n (fun i => (comp (RV x) i - comp (RV y) i) * (comp (RV x) i - comp (RV y) i)) in
  squared_distance ROps (RV x) (RV y) = Some D /\ 0 <= D /\ 0 <= FR d /\
  Rabs (FR d - D) <= ((1 + u64) ^ (n + 2) - 1) * (D + INR n * eta64) + INR n * eta64 /\
  ((forall ab, In ab (combine x y) -> diff_normal ab) ->
     Rabs (FR d - D) <= ((1 + u64) ^ (n + 2) - 1) * D).
Proof.
  intros H0 Hfin n D. revert H0.
  unfold squared_distance. destruct (same_len x y) eqn:L; [|discriminate]. intros [= <-].
  apply same_len_true in L.
  assert (L' : same_len (RV x) (RV y) = true) by (apply same_len_true; rewrite !RV_length; exact L).
  rewrite L'. rewrite sq_dist_loop_R by (rewrite !RV_length; exact L). rewrite RV_length. fold D.
  split; [reflexivity|].
  rewrite sq_dist_loop_F in *.
  set (l := map sq_term (combine x y)) in *.
  set (a := map (fun ab => (FR (fst ab) - FR (snd ab)) * (FR (fst ab) - FR (snd ab))) (combine x y)).
  assert (Ea : Rsuml a = D).
  { unfold a, D. apply (Rsuml_combine_RV (fun u v => (u - v) * (u - v)) x y L). }
  assert (Ll : length l = n).
  { unfold l, n. rewrite map_length, combine_length, L. apply Nat.min_id. }
  assert (HF : Forall2 (fun t a => ffin t -> 0 <= a /\ Rabs (FR t - a) <= Eu 3 * a + eta64) l a).
  { apply Forall2_map_in. intros ab _. apply sq_term_error. }
  destruct (fsum_error_gen 3 eta64 (Rlt_le _ _ eta64_pos) l a HF Hfin) as [G1 G2].
  rewrite Ea, Ll in *. replace (3 + n - 1)%nat with (n + 2)%nat in G2 by lia.
  split; [exact G1|]. split; [|split; [exact G2|]].
  - destruct (fold_fadd_finite_acc _ _ Hfin) as [_ Hall].
    apply fold_fadd_nonneg; [exact Hfin | | rewrite FR_zero; lra].
    pose proof (sq_terms_nonneg x y) as Hnn. fold l in Hnn.
    rewrite Forall_forall in *. intros t Ht. apply Hnn; [exact Ht | apply Hall, Ht].
  - intros Hno.
    assert (HF0 : Forall2 (fun t a => ffin t -> 0 <= a /\ Rabs (FR t - a) <= Eu 3 * a + 0) l a).
    { apply Forall2_map_in. intros ab Hab. apply sq_term_error_normal, Hno, Hab. }
    destruct (fsum_error_gen 3 0 (Rle_refl 0) l a HF0 Hfin) as [_ G3].
    rewrite Ea, Ll in G3. replace (3 + n - 1)%nat with (n + 2)%nat in G3 by lia.
    rewrite Rmult_0_r, !Rplus_0_r in G3. exact G3.
Qed.


(* ---------------- Euclidian ---------------- *)
Lemma sqrt_rel_error (s T E : R) : 0 <= s -> 0 <= T -> 0 <= E -> Rabs (s - T) <= E * T ->
  Rabs (R_sqrt.sqrt s - R_sqrt.sqrt T) <= E * R_sqrt.sqrt T.
Proof.
  intros Hs HS HE H.
  destruct (Req_dec T 0) as [->|NZ].
  - rewrite Rmult_0_r, Rminus_0_r in H. assert (s = 0) by (pose proof (Rabs_pos s); apply Rabs_eq_R0; lra).
    subst s. rewrite Rminus_diag_eq, Rabs_R0, sqrt_0 by reflexivity. lra.
  - assert (0 < T) by lra. pose proof (sqrt_lt_R0 T H0) as HsS. pose proof (sqrt_pos s) as Hss.
    assert (Hmul : Rabs (R_sqrt.sqrt s - R_sqrt.sqrt T) * (R_sqrt.sqrt s + R_sqrt.sqrt T) = Rabs (s - T)).
    { rewrite <- (Rabs_pos_eq (R_sqrt.sqrt s + R_sqrt.sqrt T)) at 1 by lra. rewrite <- Rabs_mult. f_equal.
      replace ((R_sqrt.sqrt s - R_sqrt.sqrt T) * (R_sqrt.sqrt s + R_sqrt.sqrt T)) with (R_sqrt.sqrt s * R_sqrt.sqrt s - R_sqrt.sqrt T * R_sqrt.sqrt T) by ring.
      rewrite !sqrt_sqrt by lra. reflexivity. }
    assert (HS2 : T = R_sqrt.sqrt T * R_sqrt.sqrt T) by (rewrite sqrt_sqrt; lra).
    pose proof (Rabs_pos (R_sqrt.sqrt s - R_sqrt.sqrt T)) as Hp.
    apply (Rmult_le_reg_r (R_sqrt.sqrt s + R_sqrt.sqrt T)); [lra|]. rewrite Hmul.
    eapply Rle_trans; [exact H|]. rewrite HS2 at 1.
    assert (0 <= E * R_sqrt.sqrt T) by nra. nra.
Qed.

Theorem euclidian_float_error x y r :
  euclidian FOps x y = Some r -> ffin r ->
  (forall ab, In ab (combine x y) -> diff_normal ab) ->
  let D := sigma (length x) (fun i => (comp (RV x) i - comp (RV y) i) * (comp (RV x) i - comp (RV y) i)) in
  euclidian ROps (RV x) (RV y) = Some (R_sqrt.sqrt D) /\ 0 <= FR r /\
  Rabs (FR r - R_sqrt.sqrt D) <= ((1 + u64) ^ (length x + 3) - 1) * R_sqrt.sqrt D.
Proof.
  unfold euclidian. destruct (squared_distance FOps x y) as [s|] eqn:Hs; [|discriminate].
  cbn [option_map FOps osqrt]. intros [= <-] Hfin Hno.
  destruct (fsqrt_finite _ Hfin) as (Hsf & E).
  destruct (squared_distance_float_error x y s Hs Hsf) as (HR & HD & Hs0 & _ & G).
  specialize (G Hno). set (D := sigma (length x) _) in *. cbv zeta.
  rewrite HR. cbn [option_map ROps osqrt]. split; [reflexivity|].
  split; [rewrite E; apply rnd64_ge_0, sqrt_pos|].
  destruct (fsqrt_error _ Hfin) as [_ Hq].
  pose proof (sqrt_rel_error (FR s) D _ Hs0 HD (Eu_nonneg _) G) as Hrel.
  fold (Eu (length x + 2)) in Hrel. fold (Eu (length x + 3)).
  replace (length x + 3)%nat with (S (length x + 2)) by lia. rewrite Eu_S.
  replace (FR (PrimFloat.sqrt s) - R_sqrt.sqrt D) with ((FR (PrimFloat.sqrt s) - R_sqrt.sqrt (FR s)) + (R_sqrt.sqrt (FR s) - R_sqrt.sqrt D)) by ring.
  eapply Rle_trans; [apply Rabs_triang|].
  assert (R_sqrt.sqrt (FR s) <= (1 + Eu (length x + 2)) * R_sqrt.sqrt D).
  { pose proof (Rle_abs (R_sqrt.sqrt (FR s) - R_sqrt.sqrt D)). lra. }
  pose proof u64_pos. pose proof (sqrt_pos D). pose proof (Eu_nonneg (length x + 2)). nra.
Qed.

(* ---------------- Hamming: the count is exact, the final division is one rounding ---------------- *)
Theorem hamming_float_error {A} (neqb : A -> A -> bool) (x y : list A) d :
  hamming FOps neqb x y = Some d -> (0 < length x)%nat -> (Z.of_nat (length x) < 2 ^ 53)%Z ->
  let q := INR (diff_count neqb x y) / INR (length x) in
  hamming ROps neqb x y = Some q /\ ffin d /\ FR d = rnd64 q /\
  Rabs (FR d - q) <= u64 * q /\ (diff_count neqb x y = 0%nat -> FR d = 0).
Proof.
  intros H Hn Hlt q.
  assert (HR : hamming ROps neqb x y = Some q).
  { apply hamming_some. split; [|reflexivity].
    unfold hamming in H. destruct (same_len x y) eqn:L; [|discriminate]. apply same_len_true, L. }
  split; [exact HR|].
  unfold hamming in H. destruct (same_len x y) eqn:L; [|discriminate].
  cbn [FOps odiv oofZ] in H. injection H as <-.
  rewrite hamming_count_spec.
  pose proof (diff_count_le_length neqb x y) as Hc.
  set (c := diff_count neqb x y) in *. set (n := length x) in *.
  destruct (float_of_Z_exact (Z.of_nat c)) as [Fc Ec]; [lia|].
  destruct (float_of_Z_exact (Z.of_nat n)) as [Fn En]; [lia|].
  rewrite <- INR_IZR_INZ in Ec, En.
  assert (Hn0 : 0 < INR n) by (apply lt_0_INR; exact Hn).
  assert (Hc0 : 0 <= INR c) by apply pos_INR.
  assert (Hcn : INR c <= INR n) by (apply le_INR; exact Hc).
  assert (Hq : 0 <= q <= 1).
  { unfold q. split.
    - apply Rmult_le_pos; [exact Hc0 | apply Rlt_le, Rinv_0_lt_compat, Hn0].
    - apply (Rmult_le_reg_r (INR n)); [exact Hn0|]. unfold Rdiv. rewrite Rmult_assoc, Rinv_l by lra. lra. }
  destruct (fdiv_small (float_of_Z (Z.of_nat c)) (float_of_Z (Z.of_nat n))) as [Fd Ed]; try assumption.
  { rewrite En. lra. }
  { rewrite Ec, En. fold q. rewrite Rabs_pos_eq; lra. }
  rewrite Ec, En in Ed. fold q in Ed.
  split; [exact Fd|]. split; [exact Ed|]. rewrite Ed.
  destruct (Nat.eq_dec c 0) as [Z|NZ].
  - assert (q = 0) by (unfold q; rewrite Z; cbn [INR]; lra).
    rewrite H, rnd64_0, Rminus_0_r, Rabs_R0. split; [lra | reflexivity].
  - split; [|intros; contradiction].
    pose proof (rnd64_err_normal q) as G0. rewrite Rabs_pos_eq in G0 by lra. apply G0.
    apply Rle_trans with (bpow radix2 (-53)); [apply bpow_le; lia|].
    assert (1 <= INR c) by (change 1 with (INR 1); apply le_INR; lia).
    assert (INR n <= bpow radix2 53).
    { change (bpow radix2 53) with (IZR (2 ^ 53)). rewrite INR_IZR_INZ. apply IZR_le. lia. }
    change (-53)%Z with (- (53))%Z. rewrite bpow_opp. pose proof (bpow_gt_0 radix2 53).
    unfold q, Rdiv. apply Rle_trans with (1 * / INR n).
    + rewrite Rmult_1_l. apply Rinv_le_contravar; assumption.
    + apply Rmult_le_compat_r; [apply Rlt_le, Rinv_0_lt_compat, Hn0 | assumption].
Qed.

(* ---------------- helpers for stating and instantiating the theorems ---------------- *)
Lemma bpow_m510 : bpow radix2 (-510) = / 2 ^ 510.
Proof.
  change (-510)%Z with (- (510))%Z. rewrite bpow_opp. f_equal.
  change (bpow radix2 510) with (IZR (2 ^ Z.of_nat 510)). rewrite <- pow_IZR. reflexivity.
Qed.
Lemma diff_normal_intro (x y : list PrimFloat.float) :
  (forall a b, In (a, b) (combine x y) -> FR a = FR b \/ / 2 ^ 510 <= Rabs (FR a - FR b)) ->
  forall ab, In ab (combine x y) -> diff_normal ab.
Proof.
  intros H [a b] Hab. unfold diff_normal. cbn [fst snd]. rewrite bpow_m510.
  destruct (H a b Hab) as [E|G]; [left; lra | right; exact G].
Qed.
(* the real value of a float that is a small integer *)
Lemma FR_int z : (0 <= z < 2 ^ 53)%Z -> FR (float_of_Z z) = IZR z.
Proof. intros H. apply (float_of_Z_exact z H). Qed.

From Flocq Require Import BinarySingleNaN PrimFloat Plus_error.
Local Existing Instance Hprec.

(* ---------------- a decidable form of the no-underflow hypothesis ---------------- *)
(* every computed difference is 0 or at least 2^-509 in magnitude (evaluate with vm_compute) *)
Definition diff_normal_b (x y : list PrimFloat.float) : bool :=
  forallb (fun ab => let d := PrimFloat.abs (PrimFloat.sub (fst ab) (snd ab)) in
                     PrimFloat.eqb d 0%float || PrimFloat.leb 0x1p-509%float d) (combine x y).

Lemma FR_2m509 : FR 0x1p-509%float = bpow radix2 (-509).
Proof.
  unfold FR, Prim2B. rewrite B2R_SF2B.
  change (FloatOps.Prim2SF 0x1p-509%float) with (S754_finite false 4503599627370496 (-561)).
  unfold SF2R, F2R. cbn [cond_Zopp Fnum Fexp].
  change (IZR (Z.pos 4503599627370496)) with (bpow radix2 52). rewrite <- bpow_plus. reflexivity.
Qed.

Lemma fsub_zero_exact a b : ffin (a - b)%float -> FR (a - b)%float = 0 -> FR a - FR b = 0.
Proof.
  intros H Z. destruct (fsub_finite _ _ H) as (_ & _ & E). rewrite E in Z. unfold rnd64 in Z.
  apply (round_plus_eq_0 radix2 (FLT_exp (-1074) 53) ZnearestE (FR a) (- FR b)).
  - apply fmt64_FR.
  - apply generic_format_opp, fmt64_FR.
  - exact Z.
Qed.

Lemma diff_normal_of_check a b : ffin (a - b)%float ->
  (let d := PrimFloat.abs (PrimFloat.sub a b) in
   PrimFloat.eqb d 0%float || PrimFloat.leb 0x1p-509%float d) = true ->
  diff_normal (a, b).
Proof.
  cbv zeta. intros H C. unfold diff_normal. cbn [fst snd].
  assert (Hd : ffin (PrimFloat.abs (a - b))) by (apply fabs_finite; exact H).
  apply orb_true_iff in C. destruct C as [C|C].
  - left. apply fsub_zero_exact; [exact H|].
    rewrite eqb_equiv, (Beqb_correct prec emax) in C.
    + destruct (Req_bool_spec (B2R (Prim2B (PrimFloat.abs (a - b)))) (B2R (Prim2B 0%float))) as [C'|C']; [clear C; rename C' into C | discriminate C]. fold (FR (PrimFloat.abs (a - b))) (FR 0%float) in C.
      rewrite fabs_exact, FR_zero in C. pose proof (Rabs_pos (FR (a - b)%float)).
      destruct (Req_dec (FR (a - b)%float) 0) as [Z|NZ]; [exact Z|]. apply Rabs_no_R0 in NZ. contradiction.
    + apply ffin_B, Hd.
    + reflexivity.
  - right. rewrite leb_equiv, (Bleb_correct prec emax) in C.
    + destruct (Rle_bool_spec (B2R (Prim2B 0x1p-509%float)) (B2R (Prim2B (PrimFloat.abs (a - b))))) as [C'|C']; [clear C; rename C' into C | discriminate C]. fold (FR (PrimFloat.abs (a - b))) (FR 0x1p-509%float) in C.
      rewrite fabs_exact, FR_2m509 in C.
      pose proof (fsub_error _ _ H) as Hs.
      assert (Rabs (FR (a - b)%float) <= (1 + u64) * Rabs (FR a - FR b)).
      { replace (FR (a - b)%float) with ((FR (a - b)%float - (FR a - FR b)) + (FR a - FR b)) at 1 by ring.
        eapply Rle_trans; [apply Rabs_triang|]. lra. }
      assert (bpow radix2 (-509) = 2 * bpow radix2 (-510)).
      { change (-509)%Z with (1 + -510)%Z. rewrite bpow_plus. reflexivity. }
      pose proof u64_lt_1. pose proof u64_pos. pose proof (Rabs_pos (FR a - FR b)).
      pose proof (bpow_gt_0 radix2 (-510)). nra.
    + reflexivity.
    + apply ffin_B, Hd.
Qed.

Lemma diff_normal_b_sound x y : diff_normal_b x y = true ->
  forall ab, In ab (combine x y) -> ffin (sq_term ab) -> diff_normal ab.
Proof.
  unfold diff_normal_b. intros H [a b] Hab Hf. rewrite forallb_forall in H. specialize (H _ Hab).
  cbn [fst snd] in H. apply diff_normal_of_check; [|exact H].
  unfold sq_term in Hf. cbn [fst snd] in Hf. destruct (fmul_finite _ _ Hf) as (Hd & _). exact Hd.
Qed.

Lemma sq_terms_finite x y d : squared_distance FOps x y = Some d -> ffin d ->
  forall ab, In ab (combine x y) -> ffin (sq_term ab).
Proof.
  unfold squared_distance. destruct (same_len x y); [|discriminate]. intros [= <-] Hfin ab Hab.
  rewrite sq_dist_loop_F in Hfin. destruct (fold_fadd_finite_acc _ _ Hfin) as [_ Hall].
  rewrite Forall_forall in Hall. apply Hall, in_map, Hab.
Qed.

Theorem euclidian_float_error_checked x y r :
  euclidian FOps x y = Some r -> ffin r -> diff_normal_b x y = true ->
  let D := sigma (length x) (fun i => (comp (RV x) i - comp (RV y) i) * (comp (RV x) i - comp (RV y) i)) in
  euclidian ROps (RV x) (RV y) = Some (R_sqrt.sqrt D) /\ 0 <= FR r /\
  Rabs (FR r - R_sqrt.sqrt D) <= ((1 + u64) ^ (length x + 3) - 1) * R_sqrt.sqrt D.
Proof.
  intros H Hfin Hb. apply (euclidian_float_error x y r H Hfin).
  intros ab Hab. apply (diff_normal_b_sound x y Hb ab Hab).
  unfold euclidian in H. destruct (squared_distance FOps x y) as [s|] eqn:Hs; [|discriminate].
  cbn [option_map FOps osqrt] in H. injection H as <-.
  apply (sq_terms_finite x y s Hs); [|exact Hab]. apply (fsqrt_finite s Hfin).
Qed.

Theorem squared_distance_float_error_checked x y d :
  squared_distance FOps x y = Some d -> ffin d -> diff_normal_b x y = true ->
  let n := length x in
  let D := sigma n (fun i => (comp (RV x) i - comp (RV y) i) * (comp (RV x) i - comp (RV y) i)) in
  Rabs (FR d - D) <= ((1 + u64) ^ (n + 2) - 1) * D.
Proof.
  intros H Hfin Hb n D. destruct (squared_distance_float_error x y d H Hfin) as (_ & _ & _ & _ & G).
  apply G. intros ab Hab. apply (diff_normal_b_sound x y Hb ab Hab), (sq_terms_finite x y d H Hfin ab Hab).
Qed.
