(* C17 — rounding-error theorems for Mahalanobis::distance on the STORED inverse covariance matrix, for
   the binary64 instance of the model (the definitions the correspondence check executes bit for bit).
   Loop structure of the model (= the Rust code):
       z = x - y   (one rounding per component, computed once)
       s = 0;  for j in 0..n { for i in 0..n { s = s + (M[i][j] * z[i]) * z[j] } }    d = sqrt s
   i.e. ONE recursive summation of the n*n terms fl(fl(M_ij * z_i) * z_j), in the order j outer, i inner.
   Each term carries 4 roundings (two differences, two products), the summation n*n - 1 more (the first
   addition 0 + t is exact): relative error Eu (n*n + 3) with respect to sum_ij |M_ij z_i z_j|. *)
From Coq Require Import List Arith ZArith Bool Reals Floats Lra Lia Psatz.
From Flocq Require Import Core.
From SC Require Import Base.FloatUtil Base.Num Base.FloatError C17.Model C17.Spec C17.ProofsSum C17.ProofsQuad
     C17.ProofsDist C17.ProofsFloat.
Import ListNotations.
Local Open Scope R_scope.

(* ---------------- list plumbing: the double loop is one fold over the flattened term list -------- *)
Lemma fold_left_flat {A B C} (f : A -> C -> A) (g : B -> B -> C) (l1 l2 : list B) (a : A) :
  fold_left (fun s j => fold_left (fun s i => f s (g i j)) l1 s) l2 a =
  fold_left f (flat_map (fun j => map (fun i => g i j) l1) l2) a.
Proof.
  revert a. induction l2 as [|j l2 IH]; intros a; cbn [fold_left flat_map]; [reflexivity|].
  rewrite fold_left_app, <- IH. f_equal. apply (fold_left_map_r f (fun i => g i j)).
Qed.

Lemma Forall2_flat_map {A B C} (P : B -> C -> Prop) (F : A -> list B) (G : A -> list C) l :
  (forall a, In a l -> Forall2 P (F a) (G a)) -> Forall2 P (flat_map F l) (flat_map G l).
Proof.
  induction l as [|a l IH]; intros H; cbn [flat_map]; [constructor|].
  apply Forall2_app; [apply H; left; reflexivity | apply IH; intros b Hb; apply H; right; exact Hb].
Qed.

Lemma flat_map_length_const {A B} (F : A -> list B) (k : nat) l :
  (forall a, length (F a) = k) -> length (flat_map F l) = (length l * k)%nat.
Proof.
  intros H. induction l as [|a l IH]; cbn [flat_map length]; [reflexivity|].
  rewrite app_length, IH, H. reflexivity.
Qed.

Lemma Rsuml_app l1 l2 : Rsuml (l1 ++ l2) = Rsuml l1 + Rsuml l2.
Proof. unfold Rsuml. induction l1 as [|a l1 IH]; cbn [app fold_right]; [lra|]. rewrite IH. lra. Qed.
Lemma Rsumabs_app l1 l2 : Rsumabs (l1 ++ l2) = Rsumabs l1 + Rsumabs l2.
Proof. unfold Rsumabs. induction l1 as [|a l1 IH]; cbn [app fold_right]; [lra|]. rewrite IH. lra. Qed.
Lemma Rsuml_flat {A} (F : A -> list R) l : Rsuml (flat_map F l) = Rsum (map (fun j => Rsuml (F j)) l).
Proof.
  induction l as [|a l IH]; cbn [flat_map map Rsum fold_right]; [reflexivity|].
  rewrite Rsuml_app, IH. reflexivity.
Qed.
Lemma Rsumabs_flat {A} (F : A -> list R) l : Rsumabs (flat_map F l) = Rsum (map (fun j => Rsumabs (F j)) l).
Proof.
  induction l as [|a l IH]; cbn [flat_map map Rsum fold_right]; [reflexivity|].
  rewrite Rsumabs_app, IH. reflexivity.
Qed.
Lemma Rsumabs_map {A} (f : A -> R) l : Rsumabs (map f l) = Rsum (map (fun i => Rabs (f i)) l).
Proof.
  induction l as [|a l IH]; cbn [map Rsumabs Rsum fold_right]; [reflexivity|].
  fold (Rsumabs (map f l)). rewrite IH. reflexivity.
Qed.

(* ---------------- one product with perturbed factors ---------------- *)
(* X ~ x (relative Eu k, absolute ex), Y ~ y (relative Eu m), P = fl(X * Y) *)
Lemma mul_step (k m : nat) (ex x y X Y P : R) :
  0 <= ex ->
  Rabs (X - x) <= Eu k * Rabs x + ex ->
  Rabs (Y - y) <= Eu m * Rabs y ->
  Rabs (P - X * Y) <= u64 * Rabs (X * Y) + eta64 ->
  Rabs (P - x * y) <= Eu (S (k + m)) * Rabs (x * y) + ((1 + u64) * (1 + Eu m) * ex * Rabs y + eta64).
Proof.
  intros Hex HX HY HP.
  pose proof (Eu_nonneg k) as Hk. pose proof (Eu_nonneg m) as Hm. pose proof u64_pos as Hu.
  pose proof (Rabs_pos x) as Hx0. pose proof (Rabs_pos y) as Hy0.
  assert (HYa : Rabs Y <= (1 + Eu m) * Rabs y).
  { replace Y with ((Y - y) + y) at 1 by ring. eapply Rle_trans; [apply Rabs_triang|]. lra. }
  set (Dn := Eu (k + m) * Rabs (x * y) + (1 + Eu m) * ex * Rabs y).
  assert (HD : Rabs (X * Y - x * y) <= Dn).
  { replace (X * Y - x * y) with ((X - x) * Y + x * (Y - y)) by ring.
    eapply Rle_trans; [apply Rabs_triang|]. unfold Dn. rewrite !Rabs_mult.
    pose proof (Rabs_pos (X - x)). pose proof (Rabs_pos Y). pose proof (Rabs_pos (Y - y)).
    assert (H2 : Rabs (X - x) * Rabs Y <= (Eu k * Rabs x + ex) * ((1 + Eu m) * Rabs y))
      by (apply Rmult_le_compat; lra).
    assert (H3 : Rabs x * Rabs (Y - y) <= Rabs x * (Eu m * Rabs y)) by (apply Rmult_le_compat_l; lra).
    replace (Eu (k + m)) with ((1 + Eu k) * (1 + Eu m) - 1) by (rewrite <- Eu_plus; ring).
    eapply Rle_trans; [apply Rplus_le_compat; [exact H2 | exact H3]|]. apply Req_le. ring. }
  assert (HXY : Rabs (X * Y) <= Rabs (x * y) + Dn).
  { replace (X * Y) with ((X * Y - x * y) + x * y) at 1 by ring.
    eapply Rle_trans; [apply Rabs_triang|]. lra. }
  replace (P - x * y) with ((P - X * Y) + (X * Y - x * y)) by ring.
  eapply Rle_trans; [apply Rabs_triang|].
  rewrite Eu_S. fold Dn in HD.
  assert (Hle : Rabs (P - X * Y) + Rabs (X * Y - x * y) <= u64 * (Rabs (x * y) + Dn) + eta64 + Dn).
  { assert (u64 * Rabs (X * Y) <= u64 * (Rabs (x * y) + Dn)) by (apply Rmult_le_compat_l; lra). lra. }
  eapply Rle_trans; [exact Hle|]. apply Req_le. unfold Dn. ring.
Qed.

(* ---------------- one term of the quadratic form ---------------- *)
Lemma qterm_error (s a b c d : PrimFloat.float) :
  ffin ((s * (a - b)) * (c - d))%float ->
  let zi := FR a - FR b in let zj := FR c - FR d in
  Rabs (FR ((s * (a - b)) * (c - d))%float - FR s * zi * zj) <=
    Eu 4 * Rabs (FR s * zi * zj) + eta64 * (1 + (1 + u64) ^ 2 * Rabs zj).
Proof.
  intros H zi zj.
  destruct (fmul_finite _ _ H) as (H1 & Hcd & _).
  destruct (fmul_finite _ _ H1) as (_ & Hab & _).
  pose proof (fmul_error _ _ H) as E2. pose proof (fmul_error _ _ H1) as E1.
  pose proof (fsub_error _ _ Hab) as Ei. pose proof (fsub_error _ _ Hcd) as Ej.
  fold zi in Ei. fold zj in Ej. rewrite <- Eu_1 in Ei, Ej.
  assert (E0 : Rabs (FR s - FR s) <= Eu 0 * Rabs (FR s) + 0).
  { rewrite Rminus_diag_eq, Rabs_R0, Eu_0 by reflexivity. lra. }
  pose proof (mul_step 0 1 0 (FR s) zi (FR s) (FR (a - b)%float) _ (Rle_refl 0) E0 Ei E1) as S1.
  change (S (0 + 1)) with 2%nat in S1.
  assert (S1' : Rabs (FR (s * (a - b))%float - FR s * zi) <= Eu 2 * Rabs (FR s * zi) + eta64) by lra.
  pose proof (mul_step 2 1 eta64 (FR s * zi) zj _ (FR (c - d)%float) _ (Rlt_le _ _ eta64_pos) S1' Ej E2) as S2.
  change (S (2 + 1)) with 4%nat in S2.
  eapply Rle_trans; [exact S2|]. rewrite Eu_1. apply Req_le. ring.
Qed.

(* ---------------- the float quadratic form is a recursive sum of n*n terms ---------------- *)
Definition qterm (M : list (list PrimFloat.float)) (z : list PrimFloat.float) (i j : nat) : PrimFloat.float :=
  PrimFloat.mul (PrimFloat.mul (mget FOps M i j) (nth i z 0%float)) (nth j z 0%float).
Definition qterms (n : nat) (M : list (list PrimFloat.float)) (z : list PrimFloat.float) : list PrimFloat.float :=
  flat_map (fun j => map (fun i => qterm M z i j) (seq 0 n)) (seq 0 n).

Lemma quadform_F n M z : quadform FOps n M z = fsum (qterms n M z).
Proof.
  unfold quadform, fsum, qterms. cbn [FOps oadd omul o0].
  apply (fold_left_flat PrimFloat.add (fun i j => qterm M z i j)).
Qed.

Lemma qterms_length n M z : length (qterms n M z) = (n * n)%nat.
Proof.
  unfold qterms. rewrite (flat_map_length_const _ n); [rewrite seq_length; reflexivity|].
  intros j. rewrite map_length, seq_length. reflexivity.
Qed.

Lemma nth_vsub_F x y i : length x = length y -> (i < length x)%nat ->
  nth i (vsub FOps x y) 0%float = (nth i x 0 - nth i y 0)%float.
Proof.
  unfold vsub. cbn [FOps osub]. revert y i.
  induction x as [|a x IH]; intros [|b y] i H Hi; try discriminate; cbn [length] in Hi; [lia|].
  destruct i as [|i]; cbn [combine map nth fst snd]; [reflexivity|]. apply IH; cbn in H; lia.
Qed.

(* real values of a float matrix *)
Definition RM (M : list (list PrimFloat.float)) : list (list R) := map RV M.
Lemma entry_RM M i j : entry (RM M) i j = FR (mget FOps M i j).
Proof.
  unfold entry, RM, mget. cbn [FOps o0].
  change (@nil R) with (RV []). rewrite (map_nth RV M [] i).
  change (nth j (RV (nth i M [])) 0) with (comp (RV (nth i M [])) j). apply comp_RV.
Qed.

(* ---------------- target 1: the quadratic form ---------------- *)
Theorem quadform_float_error_gen (n : nat) (M : list (list PrimFloat.float)) (x y : list PrimFloat.float) (Zm : R) :
  length x = n -> length y = n ->
  ffin (quadform FOps n M (vsub FOps x y)) ->
  let z := fun i => comp (RV x) i - comp (RV y) i in
  0 <= Zm -> (forall j, (j < n)%nat -> Rabs (z j) <= Zm) ->
  let Q := qform n (RM M) z in
  let A := sigma n (fun j => sigma n (fun i => Rabs (entry (RM M) i j * z i * z j))) in
  let e := eta64 * (1 + (1 + u64) ^ 2 * Zm) in
  quadform ROps n (RM M) (vsub ROps (RV x) (RV y)) = Q /\ Rabs Q <= A /\
  Rabs (FR (quadform FOps n M (vsub FOps x y)) - Q) <=
    Eu (n * n + 3) * (A + INR (n * n) * e) + INR (n * n) * e.
Proof.
  intros Lx Ly Hfin z Zm0 HZ Q A e.
  assert (HQR : quadform ROps n (RM M) (vsub ROps (RV x) (RV y)) = Q).
  { rewrite quadform_R. unfold Q. apply qform_ext. intros i _. apply comp_vsub.
    rewrite !RV_length. congruence. }
  split; [exact HQR|].
  set (a := flat_map (fun j => map (fun i => entry (RM M) i j * z i * z j) (seq 0 n)) (seq 0 n)).
  assert (Ea : Rsuml a = Q).
  { unfold a. rewrite Rsuml_flat. unfold Q, qform, sigma. f_equal. }
  assert (Eabs : Rsumabs a = A).
  { unfold a. rewrite Rsumabs_flat. unfold A, sigma. f_equal. apply map_ext. intros j.
    apply Rsumabs_map. }
  split; [rewrite <- Ea, <- Eabs; apply Rsuml_le_Rsumabs|].
  rewrite quadform_F in *.
  pose proof u64_pos as Hu. pose proof eta64_pos as Heta.
  assert (Hp2 : 0 <= (1 + u64) ^ 2) by apply pow2_ge_0.
  assert (Hp2Z : 0 <= (1 + u64) ^ 2 * Zm) by (apply Rmult_le_pos; assumption).
  assert (He : 0 <= e) by (unfold e; apply Rmult_le_pos; lra).
  assert (HF : Forall2 (fun t a => ffin t -> Rabs (FR t - a) <= Eu 4 * Rabs a + e)
                       (qterms n M (vsub FOps x y)) a).
  { unfold qterms, a. apply Forall2_flat_map. intros j Hj. apply in_seq in Hj.
    apply Forall2_map_in. intros i Hi. apply in_seq in Hi. intros Ht.
    unfold qterm in *. rewrite !nth_vsub_F in * by lia.
    rewrite !entry_RM. unfold z. rewrite !comp_RV.
    eapply Rle_trans; [apply (qterm_error _ _ _ _ _ Ht)|].
    apply Rplus_le_compat_l. unfold e. apply Rmult_le_compat_l; [lra|].
    apply Rplus_le_compat_l. apply Rmult_le_compat_l; [exact Hp2|].
    specialize (HZ j (proj2 Hj)). unfold z in HZ. rewrite !comp_RV in HZ. exact HZ. }
  pose proof (fsum_error_signed 4 e He _ _ HF Hfin) as G.
  rewrite qterms_length, Ea, Eabs in G.
  replace (4 + n * n - 1)%nat with (n * n + 3)%nat in G by lia. exact G.
Qed.

(* the same with the concrete bound Zm = sum_j |z_j| (the exact Manhattan distance) *)
Theorem quadform_float_error (n : nat) (M : list (list PrimFloat.float)) (x y : list PrimFloat.float) :
  length x = n -> length y = n ->
  ffin (quadform FOps n M (vsub FOps x y)) ->
  let z := fun i => comp (RV x) i - comp (RV y) i in
  let Q := qform n (RM M) z in
  let A := sigma n (fun j => sigma n (fun i => Rabs (entry (RM M) i j * z i * z j))) in
  let e := eta64 * (1 + (1 + u64) ^ 2 * sigma n (fun j => Rabs (z j))) in
  quadform ROps n (RM M) (vsub ROps (RV x) (RV y)) = Q /\ Rabs Q <= A /\
  Rabs (FR (quadform FOps n M (vsub FOps x y)) - Q) <=
    Eu (n * n + 3) * (A + INR (n * n) * e) + INR (n * n) * e.
Proof.
  intros Lx Ly Hfin z Q A e.
  apply (quadform_float_error_gen n M x y (sigma n (fun j => Rabs (z j))) Lx Ly Hfin).
  - apply sigma_nonneg. intros j _. apply Rabs_pos.
  - intros j Hj. apply (sigma_term_le n (fun j => Rabs (z j))); [intros k _; apply Rabs_pos | exact Hj].
Qed.

(* ---------------- target 2: the distance ---------------- *)
Lemma sqrt_diff_le_div a b : 0 <= a -> 0 < b ->
  Rabs (R_sqrt.sqrt a - R_sqrt.sqrt b) <= Rabs (a - b) / R_sqrt.sqrt b.
Proof.
  intros Ha Hb. pose proof (sqrt_lt_R0 b Hb) as Hsb. pose proof (sqrt_pos a) as Hsa.
  assert (Hmul : Rabs (R_sqrt.sqrt a - R_sqrt.sqrt b) * (R_sqrt.sqrt a + R_sqrt.sqrt b) = Rabs (a - b)).
  { rewrite <- (Rabs_pos_eq (R_sqrt.sqrt a + R_sqrt.sqrt b)) at 1 by lra. rewrite <- Rabs_mult. f_equal.
    replace ((R_sqrt.sqrt a - R_sqrt.sqrt b) * (R_sqrt.sqrt a + R_sqrt.sqrt b))
      with (R_sqrt.sqrt a * R_sqrt.sqrt a - R_sqrt.sqrt b * R_sqrt.sqrt b) by ring.
    rewrite !sqrt_sqrt by lra. reflexivity. }
  pose proof (Rabs_pos (R_sqrt.sqrt a - R_sqrt.sqrt b)) as Hp.
  apply (Rmult_le_reg_r (R_sqrt.sqrt b)); [exact Hsb|].
  unfold Rdiv. rewrite Rmult_assoc, Rinv_l by lra. rewrite Rmult_1_r, <- Hmul. nra.
Qed.

Lemma sqrt_diff_le_sqrt a b : 0 <= a -> 0 <= b ->
  Rabs (R_sqrt.sqrt a - R_sqrt.sqrt b) <= R_sqrt.sqrt (Rabs (a - b)).
Proof.
  assert (W : forall a b, 0 <= b -> b <= a -> R_sqrt.sqrt a - R_sqrt.sqrt b <= R_sqrt.sqrt (a - b)).
  { clear. intros a b Hb Hab. pose proof (sqrt_pos b) as Hp. pose proof (sqrt_pos (a - b)) as Hr.
    assert (R_sqrt.sqrt a <= R_sqrt.sqrt b + R_sqrt.sqrt (a - b)); [|lra].
    rewrite <- (sqrt_square (R_sqrt.sqrt b + R_sqrt.sqrt (a - b))) by lra.
    apply sqrt_le_1_alt.
    pose proof (sqrt_sqrt b Hb). pose proof (sqrt_sqrt (a - b)). nra. }
  intros Ha Hb. destruct (Rle_dec b a) as [L|L].
  - rewrite Rabs_pos_eq by (pose proof (sqrt_le_1_alt b a L); lra).
    rewrite (Rabs_pos_eq (a - b)) by lra. apply W; assumption.
  - assert (L' : a <= b) by lra.
    rewrite <- Rabs_Ropp, Ropp_minus_distr, Rabs_pos_eq by (pose proof (sqrt_le_1_alt a b L'); lra).
    rewrite <- (Rabs_Ropp (a - b)), Ropp_minus_distr, (Rabs_pos_eq (b - a)) by lra. apply W; assumption.
Qed.

Theorem mahalanobis_float_error (n : nat) (M : list (list PrimFloat.float)) (x y : list PrimFloat.float)
  (d : PrimFloat.float) :
  mahalanobis FOps n M x y = Some d -> ffin d ->
  let z := fun i => comp (RV x) i - comp (RV y) i in
  let Q := qform n (RM M) z in
  let A := sigma n (fun j => sigma n (fun i => Rabs (entry (RM M) i j * z i * z j))) in
  let e := eta64 * (1 + (1 + u64) ^ 2 * sigma n (fun j => Rabs (z j))) in
  let B := Eu (n * n + 3) * (A + INR (n * n) * e) + INR (n * n) * e in
  mahalanobis ROps n (RM M) (RV x) (RV y) = Some (R_sqrt.sqrt Q) /\
  0 <= FR d /\ 0 <= B /\
  (0 <= Q -> Rabs (FR d - R_sqrt.sqrt Q) <= u64 * R_sqrt.sqrt Q + (1 + u64) * R_sqrt.sqrt B) /\
  (0 < Q -> Rabs (FR d - R_sqrt.sqrt Q) <= u64 * R_sqrt.sqrt Q + (1 + u64) * (B / R_sqrt.sqrt Q)).
Proof.
  intros H Hfin z Q A e B. unfold mahalanobis in H |- *.
  rewrite !RV_length.
  destruct (Nat.eqb_spec (length x) n) as [Lx|]; [|discriminate].
  destruct (Nat.eqb_spec (length y) n) as [Ly|]; [|discriminate].
  cbn [andb FOps osqrt] in H. injection H as <-.
  cbn [andb ROps osqrt]. rewrite Lx in *.
  destruct (fsqrt_finite _ Hfin) as (Hqf & Ed).
  destruct (fsqrt_error _ Hfin) as (Hq0 & Hsq).
  destruct (quadform_float_error n M x y Lx Ly Hqf) as (HQR0 & _ & HB0').
  assert (HQR : quadform ROps n (RM M) (vsub ROps (RV x) (RV y)) = Q) by exact HQR0.
  assert (HB : Rabs (FR (quadform FOps n M (vsub FOps x y)) - Q) <= B) by exact HB0'.
  clear HQR0 HB0'.
  set (s := FR (quadform FOps n M (vsub FOps x y))) in *.
  split; [rewrite HQR; reflexivity|].
  split; [rewrite Ed; apply rnd64_ge_0, sqrt_pos|].
  assert (HB0 : 0 <= B) by (pose proof (Rabs_pos (s - Q)); lra).
  split; [exact HB0|].
  pose proof u64_pos as Hu. pose proof (sqrt_pos s) as Hss. pose proof (sqrt_pos Q) as HsQ.
  assert (Core : forall D, Rabs (R_sqrt.sqrt s - R_sqrt.sqrt Q) <= D ->
            Rabs (FR (PrimFloat.sqrt (quadform FOps n M (vsub FOps x y))) - R_sqrt.sqrt Q) <=
            u64 * R_sqrt.sqrt Q + (1 + u64) * D).
  { intros D HD.
    replace (FR _ - R_sqrt.sqrt Q) with
      ((FR (PrimFloat.sqrt (quadform FOps n M (vsub FOps x y))) - R_sqrt.sqrt s) + (R_sqrt.sqrt s - R_sqrt.sqrt Q)) by ring.
    eapply Rle_trans; [apply Rabs_triang|].
    assert (R_sqrt.sqrt s <= R_sqrt.sqrt Q + D) by (pose proof (Rle_abs (R_sqrt.sqrt s - R_sqrt.sqrt Q)); lra).
    fold s in Hsq. nra. }
  split.
  - intros HQ0. apply Core. eapply Rle_trans; [apply sqrt_diff_le_sqrt; assumption|].
    apply sqrt_le_1_alt. exact HB.
  - intros HQ0. apply Core. eapply Rle_trans; [apply sqrt_diff_le_div; assumption|].
    unfold Rdiv. apply Rmult_le_compat_r; [apply Rlt_le, Rinv_0_lt_compat, sqrt_lt_R0, HQ0 | exact HB].
Qed.

(* ---------------- target 3: symmetry d(x, y) = d(y, x) in binary64 ---------------- *)
(* The loop visits the same (i, j) in the same order for (x, y) and (y, x); only z changes sign, so the
   matrix need NOT be symmetric.  y_i - x_i = -(x_i - y_i) as real values (rounding to nearest even is
   odd), products of two negated factors agree, hence every term, every partial sum and the square
   root have the same real value, and finiteness transfers.  (Bit patterns: equal real values of
   finite floats mean equal floats except for the sign of a zero — x_i - x_i is +0 both ways, so
   "negation" is not exact on zeros; the statement below is therefore by value plus bit-equality for a
   non-zero result.) *)
From Flocq Require Import BinarySingleNaN PrimFloat.
Local Existing Instance Hprec.
Local Existing Instance Hmax.

Lemma rnd64_opp a : rnd64 (- a) = - rnd64 a.
Proof. unfold rnd64. apply round_NE_opp. Qed.

Lemma FR_lt_emax x : Rabs (FR x) < bpow radix2 1024.
Proof. unfold FR. apply (abs_B2R_lt_emax prec emax). Qed.

Lemma fadd_fwd x y : ffin x -> ffin y -> Rabs (rnd64 (FR x + FR y)) < bpow radix2 1024 ->
  ffin (x + y)%float /\ FR (x + y)%float = rnd64 (FR x + FR y).
Proof.
  rewrite !ffin_B. unfold FR. intros Hx Hy Hb. rewrite add_equiv.
  generalize (Bplus_correct prec emax Hprec Hmax mode_NE _ _ Hx Hy).
  assert (Hb' : Rlt_bool (Rabs (round radix2 (fexp prec emax) (round_mode mode_NE)
                   (B2R (Prim2B x) + B2R (Prim2B y)))) (bpow radix2 emax) = true)
    by (apply Rlt_bool_true; exact Hb).
  rewrite Hb'. intros (E & F & _). split; [exact F | exact E].
Qed.
Lemma fsub_fwd x y : ffin x -> ffin y -> Rabs (rnd64 (FR x - FR y)) < bpow radix2 1024 ->
  ffin (x - y)%float /\ FR (x - y)%float = rnd64 (FR x - FR y).
Proof.
  rewrite !ffin_B. unfold FR. intros Hx Hy Hb. rewrite sub_equiv.
  generalize (Bminus_correct prec emax Hprec Hmax mode_NE _ _ Hx Hy).
  assert (Hb' : Rlt_bool (Rabs (round radix2 (fexp prec emax) (round_mode mode_NE)
                   (B2R (Prim2B x) - B2R (Prim2B y)))) (bpow radix2 emax) = true)
    by (apply Rlt_bool_true; exact Hb).
  rewrite Hb'. intros (E & F & _). split; [exact F | exact E].
Qed.
Lemma fmul_fwd x y : ffin x -> ffin y -> Rabs (rnd64 (FR x * FR y)) < bpow radix2 1024 ->
  ffin (x * y)%float /\ FR (x * y)%float = rnd64 (FR x * FR y).
Proof.
  rewrite !ffin_B. unfold FR. intros Hx Hy Hb. rewrite mul_equiv.
  generalize (Bmult_correct prec emax Hprec Hmax mode_NE (Prim2B x) (Prim2B y)).
  assert (Hb' : Rlt_bool (Rabs (round radix2 (fexp prec emax) (round_mode mode_NE)
                   (B2R (Prim2B x) * B2R (Prim2B y)))) (bpow radix2 emax) = true)
    by (apply Rlt_bool_true; exact Hb).
  rewrite Hb'. intros (E & F & _). split; [rewrite F, Hx, Hy; reflexivity | exact E].
Qed.

(* swapping the operands of a subtraction negates the value *)
Lemma fsub_swap a b : ffin (a - b)%float -> ffin (b - a)%float /\ FR (b - a)%float = - FR (a - b)%float.
Proof.
  intros H. destruct (fsub_finite _ _ H) as (Ha & Hb & E).
  assert (E' : rnd64 (FR b - FR a) = - FR (a - b)%float).
  { rewrite E, <- rnd64_opp. f_equal. ring. }
  destruct (fsub_fwd b a Hb Ha) as (F & G).
  - rewrite E', Rabs_Ropp. apply FR_lt_emax.
  - split; [exact F | rewrite G; exact E'].
Qed.

(* operands with negated / equal values *)
Lemma fmul_neg_r m u v : ffin (m * u)%float -> ffin v -> FR v = - FR u ->
  ffin (m * v)%float /\ FR (m * v)%float = - FR (m * u)%float.
Proof.
  intros H Hv Ev. destruct (fmul_finite _ _ H) as (Hm & _ & E).
  assert (E' : rnd64 (FR m * FR v) = - FR (m * u)%float).
  { rewrite E, <- rnd64_opp, Ev. f_equal. ring. }
  destruct (fmul_fwd m v Hm Hv) as (F & G).
  - rewrite E', Rabs_Ropp. apply FR_lt_emax.
  - split; [exact F | rewrite G; exact E'].
Qed.
Lemma fmul_neg_neg p w p' w' : ffin (p * w)%float -> ffin p' -> ffin w' -> FR p' = - FR p -> FR w' = - FR w ->
  ffin (p' * w')%float /\ FR (p' * w')%float = FR (p * w)%float.
Proof.
  intros H Hp Hw Ep Ew. destruct (fmul_finite _ _ H) as (_ & _ & E).
  assert (E' : rnd64 (FR p' * FR w') = FR (p * w)%float).
  { rewrite E, Ep, Ew. f_equal. ring. }
  destruct (fmul_fwd p' w' Hp Hw) as (F & G).
  - rewrite E'. apply FR_lt_emax.
  - split; [exact F | rewrite G; exact E'].
Qed.
Lemma fadd_congr s t s' t' : ffin (s + t)%float -> ffin s' -> ffin t' -> FR s' = FR s -> FR t' = FR t ->
  ffin (s' + t')%float /\ FR (s' + t')%float = FR (s + t)%float.
Proof.
  intros H Hs Ht Es Et. destruct (fadd_finite _ _ H) as (_ & _ & E).
  assert (E' : rnd64 (FR s' + FR t') = FR (s + t)%float) by (rewrite E, Es, Et; reflexivity).
  destruct (fadd_fwd s' t' Hs Ht) as (F & G).
  - rewrite E'. apply FR_lt_emax.
  - split; [exact F | rewrite G; exact E'].
Qed.

Lemma qterm_swap (m a b c d : PrimFloat.float) : ffin ((m * (a - b)) * (c - d))%float ->
  ffin ((m * (b - a)) * (d - c))%float /\
  FR ((m * (b - a)) * (d - c))%float = FR ((m * (a - b)) * (c - d))%float.
Proof.
  intros H. destruct (fmul_finite _ _ H) as (H1 & Hcd & _).
  destruct (fmul_finite _ _ H1) as (_ & Hab & _).
  destruct (fsub_swap _ _ Hab) as (Hba & Eba). destruct (fsub_swap _ _ Hcd) as (Hdc & Edc).
  destruct (fmul_neg_r m _ _ H1 Hba Eba) as (H1' & E1').
  apply (fmul_neg_neg _ _ _ _ H H1' Hdc E1' Edc).
Qed.

Local Notation fadd := PrimFloat.add.
Lemma fold_fadd_transfer (l l' : list PrimFloat.float) :
  Forall2 (fun t t' => ffin t -> ffin t' /\ FR t' = FR t) l l' ->
  forall acc acc', ffin (fold_left fadd l acc) -> ffin acc' -> FR acc' = FR acc ->
  ffin (fold_left fadd l' acc') /\ FR (fold_left fadd l' acc') = FR (fold_left fadd l acc).
Proof.
  induction 1 as [|t t' l l' Ht HF IH]; intros acc acc' Hfin Ha Ea; cbn [fold_left] in *.
  - split; assumption.
  - destruct (fold_fadd_finite_acc _ _ Hfin) as [H1 _]. destruct (fadd_finite _ _ H1) as (_ & Htf & _).
    destruct (Ht Htf) as (Ht' & Et).
    destruct (fadd_congr _ _ _ _ H1 Ha Ht' Ea Et) as (H1' & E1').
    apply IH; assumption.
Qed.

Lemma fsqrt_congr q q' : ffin (PrimFloat.sqrt q) -> ffin q' -> FR q' = FR q ->
  ffin (PrimFloat.sqrt q') /\ FR (PrimFloat.sqrt q') = FR (PrimFloat.sqrt q).
Proof.
  intros H Hq' E. pose proof (fsqrt_finite_nonneg q H) as Hq0. destruct (fsqrt_finite q H) as (_ & Es).
  assert (F : ffin (PrimFloat.sqrt q')).
  { revert Hq' E Hq0. rewrite !ffin_B. unfold FR. rewrite sqrt_equiv. intros Hq' E Hq0.
    destruct (Bsqrt_correct prec emax Hprec Hmax mode_NE (Prim2B q')) as (_ & F & _). rewrite F.
    destruct (Prim2B q') as [s'|s'| |[|] m' e' B']; try reflexivity; try discriminate Hq'.
    exfalso. rewrite <- E in Hq0. cbn [B2R] in Hq0.
    pose proof (F2R_lt_0 radix2 (Float radix2 (cond_Zopp true (Z.pos m')) e')) as Hlt.
    assert (Hneg : (Fnum (Float radix2 (cond_Zopp true (Z.pos m')) e') < 0)%Z) by (cbn; lia).
    specialize (Hlt Hneg). lra. }
  split; [exact F|]. destruct (fsqrt_finite q' F) as (_ & Es'). rewrite Es', Es, E. reflexivity.
Qed.

(* equal real values of finite floats: equal floats, unless the value is zero (sign of zero) *)
Lemma FR_inj_nonzero a b : ffin a -> ffin b -> FR a = FR b -> FR a <> 0 -> a = b.
Proof.
  rewrite !ffin_B. unfold FR. intros Ha Hb E NZ. apply Prim2B_inj.
  apply (B2R_inj prec emax); [| |exact E].
  - destruct (Prim2B a); try discriminate Ha; [exfalso; apply NZ; reflexivity | reflexivity].
  - rewrite E in NZ. destruct (Prim2B b); try discriminate Hb; [exfalso; apply NZ; reflexivity | reflexivity].
Qed.

Theorem mahalanobis_float_symmetric (n : nat) (M : list (list PrimFloat.float)) (x y : list PrimFloat.float)
  (d : PrimFloat.float) :
  mahalanobis FOps n M x y = Some d -> ffin d ->
  exists d', mahalanobis FOps n M y x = Some d' /\ ffin d' /\ FR d' = FR d /\ (FR d <> 0 -> d' = d).
Proof.
  unfold mahalanobis.
  destruct (Nat.eqb_spec (length x) n) as [Lx|]; [|discriminate].
  destruct (Nat.eqb_spec (length y) n) as [Ly|]; [|discriminate].
  cbn [andb FOps osqrt]. intros [= <-] Hfin. eexists. split; [reflexivity|].
  rewrite Lx, Ly in *.
  destruct (fsqrt_finite _ Hfin) as (Hq & _).
  assert (T : ffin (quadform FOps n M (vsub FOps y x)) /\
              FR (quadform FOps n M (vsub FOps y x)) = FR (quadform FOps n M (vsub FOps x y))).
  { rewrite !quadform_F in *. unfold fsum in *.
    apply (fold_fadd_transfer (qterms n M (vsub FOps x y))); [|exact Hq | reflexivity | reflexivity].
    unfold qterms. apply Forall2_flat_map. intros j Hj. apply in_seq in Hj.
    rewrite <- (map_id (map (fun i => qterm M (vsub FOps y x) i j) (seq 0 n))). rewrite map_map.
    apply Forall2_map_in. intros i Hi. apply in_seq in Hi. unfold qterm.
    rewrite !nth_vsub_F by lia. apply qterm_swap. }
  destruct T as (Hq' & Eq).
  destruct (fsqrt_congr _ _ Hfin Hq' Eq) as (F & E).
  split; [exact F|]. split; [exact E|].
  intros NZ. symmetry. apply FR_inj_nonzero; [exact Hfin | exact F | symmetry; exact E | exact NZ].
Qed.

(* ---------------- full bit-identity: the accumulator is never -0 ---------------- *)
(* a sum is -0 only if both operands are -0, and the accumulator starts at +0: so the two quadratic forms,
   finite with equal real values and neither of them -0, are the same float, and so are their roots *)
From Flocq Require Import Plus_error.
Definition negzero (x : PrimFloat.float) : Prop := Prim2B x = B754_zero true.

Lemma Bneg_le0 (b : binary_float prec emax) : is_finite b = true -> Bsign b = true -> B2R b <= 0.
Proof.
  destruct b as [s|s| |s m e B]; try discriminate; cbn [Bsign B2R]; intros _ ->; [lra|].
  apply Rlt_le, F2R_lt_0. cbn. lia.
Qed.

Lemma fadd_not_negzero s t : ffin (s + t)%float -> ~ negzero s -> ~ negzero (s + t)%float.
Proof.
  intros H Hs Hz. destruct (fadd_finite _ _ H) as (Fs & Ft & _).
  revert Fs Ft Hs Hz. unfold negzero. rewrite !ffin_B, add_equiv. intros Fs Ft Hs Hz.
  generalize (Bplus_correct prec emax Hprec Hmax mode_NE _ _ Fs Ft). rewrite Hz.
  destruct Rlt_bool.
  - cbn [B2R Bsign]. intros (E & _ & Sg).
    assert (Z0 : B2R (Prim2B s) + B2R (Prim2B t) = 0).
    { apply (round_plus_eq_0 radix2 (FLT_exp (-1074) 53) ZnearestE);
        [apply (generic_format_B2R prec emax) | apply (generic_format_B2R prec emax) | symmetry; exact E]. }
    rewrite Z0, Rcompare_Eq in Sg by reflexivity. symmetry in Sg. apply andb_prop in Sg as [S1 S2].
    pose proof (Bneg_le0 _ Fs S1). pose proof (Bneg_le0 _ Ft S2).
    assert (Zs : B2R (Prim2B s) = 0) by lra.
    apply Hs. destruct (Prim2B s) as [b|b| |b m e B]; try discriminate Fs.
    + cbn in S1. rewrite S1. reflexivity.
    + exfalso. cbn [B2R] in Zs. apply eq_0_F2R in Zs. destruct b; discriminate Zs.
  - cbn. intros (E & _). discriminate E.
Qed.

Lemma fold_fadd_not_negzero l : forall acc, ffin (fold_left fadd l acc) -> ~ negzero acc ->
  ~ negzero (fold_left fadd l acc).
Proof.
  induction l as [|t l IH]; intros acc H Hacc; cbn [fold_left] in *; [exact Hacc|].
  apply IH; [exact H|]. apply fadd_not_negzero; [|exact Hacc].
  apply (fold_fadd_finite_acc _ _ H).
Qed.

Lemma not_negzero_0 : ~ negzero 0%float.
Proof. unfold negzero. change 0%float with (B2Prim (B754_zero false)). rewrite Prim2B_B2Prim. discriminate. Qed.

Lemma FR_inj_not_negzero a b : ffin a -> ffin b -> FR a = FR b -> ~ negzero a -> ~ negzero b -> a = b.
Proof.
  intros Ha Hb E Na Nb. destruct (Req_dec (FR a) 0) as [Z|NZ]; [|apply FR_inj_nonzero; assumption].
  revert Ha Hb E Na Nb Z. unfold negzero, FR. rewrite !ffin_B. intros Ha Hb E Na Nb Z.
  apply Prim2B_inj. rewrite Z in E. symmetry in E.
  destruct (Prim2B a) as [sa|sa| |sa ma ea Ba]; try discriminate Ha.
  - destruct (Prim2B b) as [sb|sb| |sb mb eb Bb]; try discriminate Hb.
    + destruct sa; [exfalso; apply Na; reflexivity|]. destruct sb; [exfalso; apply Nb; reflexivity|]. reflexivity.
    + exfalso. cbn [B2R] in E. apply eq_0_F2R in E. destruct sb; discriminate E.
  - exfalso. cbn [B2R] in Z. apply eq_0_F2R in Z. destruct sa; discriminate Z.
Qed.

(* full bit-identity for a finite result, any matrix *)
Theorem mahalanobis_float_symmetric_bits (n : nat) (M : list (list PrimFloat.float)) (x y : list PrimFloat.float)
  (d : PrimFloat.float) :
  mahalanobis FOps n M x y = Some d -> ffin d -> mahalanobis FOps n M y x = Some d.
Proof.
  unfold mahalanobis.
  destruct (Nat.eqb_spec (length x) n) as [Lx|]; [|discriminate].
  destruct (Nat.eqb_spec (length y) n) as [Ly|]; [|discriminate].
  cbn [andb FOps osqrt]. intros [= <-] Hfin. rewrite Lx, Ly in *. f_equal. f_equal.
  destruct (fsqrt_finite _ Hfin) as (Hq & _).
  assert (T : ffin (quadform FOps n M (vsub FOps y x)) /\
              FR (quadform FOps n M (vsub FOps y x)) = FR (quadform FOps n M (vsub FOps x y))).
  { rewrite !quadform_F in *. unfold fsum in *.
    apply (fold_fadd_transfer (qterms n M (vsub FOps x y))); [|exact Hq | reflexivity | reflexivity].
    unfold qterms. apply Forall2_flat_map. intros j Hj. apply in_seq in Hj.
    rewrite <- (map_id (map (fun i => qterm M (vsub FOps y x) i j) (seq 0 n))). rewrite map_map.
    apply Forall2_map_in. intros i Hi. apply in_seq in Hi. unfold qterm.
    rewrite !nth_vsub_F by lia. apply qterm_swap. }
  destruct T as (Hq' & Eq).
  apply FR_inj_not_negzero; try assumption.
  - rewrite quadform_F in *. apply fold_fadd_not_negzero; [exact Hq' | apply not_negzero_0].
  - rewrite quadform_F in *. apply fold_fadd_not_negzero; [exact Hq | apply not_negzero_0].
Qed.
