(* C17 — executable model of smartcore's distance functions
   (src/math/distance/{euclidian,manhattan,minkowski,hamming,mahalanobis}.rs and the
   covariance estimate `DenseMatrix::cov` / `column_mean` of src/linalg/naive/dense_matrix.rs
   that `Mahalanobis::new` starts from).  Definitions only; proofs are in Proofs*.v.

   Transliteration notes
   - vectors are lists, `panic!` (length mismatch, p < 1) is `None`;
   - every loop `for i in 0..x.len()` that reads x[i], y[i] is a left fold over `combine x y`
     (same visiting order, accumulator starts at zero, `sum += t` is `sum := sum + t`);
   - `powf` is `opowf`: 0 for a zero base (exponents here are >= 1/p > 0), exp (y * ln x) otherwise
     (a real function in ROps, a few-ulp software routine in FOps => tolerance comparison);
   - `Hamming` is generic in the element type: `neqb` is the element's `!=`;
   - `Mahalanobis::distance` is modelled on the *stored* inverse `sigmaInv` (a list of rows,
     `get(i, j)` = `mget`), the LU inversion itself belongs to C01 and is not modelled here:
     the harness reads `sigmaInv` from the implementation's public field;
   - matrices are lists of rows (`get(r, c)`), the storage order is C03's business. *)
From Coq Require Import List ZArith Bool Arith.
From SC Require Import Base.Num.
Import ListNotations.

Section Dist.
  Context {T : Type} (O : Ops T).

  Definition same_len {A} (x y : list A) : bool := Nat.eqb (length x) (length y).

  (* ---------- Euclidian ---------- *)
  Definition sq_dist_loop (x y : list T) : T :=
    fold_left (fun sum ab => let d := O.(osub) (fst ab) (snd ab) in O.(oadd) sum (O.(omul) d d))
              (combine x y) O.(o0).
  Definition squared_distance (x y : list T) : option T :=
    if same_len x y then Some (sq_dist_loop x y) else None.
  Definition euclidian (x y : list T) : option T :=
    option_map O.(osqrt) (squared_distance x y).

  (* ---------- Manhattan ---------- *)
  Definition manhattan_loop (x y : list T) : T :=
    fold_left (fun dist ab => O.(oadd) dist (O.(oabs) (O.(osub) (fst ab) (snd ab))))
              (combine x y) O.(o0).
  Definition manhattan (x y : list T) : option T :=
    if same_len x y then Some (manhattan_loop x y) else None.

  (* ---------- Minkowski ---------- *)
  Definition opowf (x y : T) : T :=
    if O.(oeqb) x O.(o0) then O.(o0) else O.(oexp) (O.(omul) y (O.(oln) x)).
  Definition minkowski_loop (p_t : T) (x y : list T) : T :=
    fold_left (fun dist ab => let d := O.(oabs) (O.(osub) (fst ab) (snd ab)) in
                              O.(oadd) dist (opowf d p_t))
              (combine x y) O.(o0).
  Definition minkowski (p : nat) (x y : list T) : option T :=
    if same_len x y then
      if p <? 1 then None
      else let p_t := O.(oofZ) (Z.of_nat p) in
           Some (opowf (minkowski_loop p_t x y) (O.(odiv) O.(o1) p_t))
    else None.

  (* ---------- Hamming (elements of any type with `!=`) ---------- *)
  Definition hamming_count {A} (neqb : A -> A -> bool) (x y : list A) : Z :=
    fold_left (fun dist ab => if neqb (fst ab) (snd ab) then (dist + 1)%Z else dist)
              (combine x y) 0%Z.
  Definition hamming {A} (neqb : A -> A -> bool) (x y : list A) : option T :=
    if same_len x y then
      Some (O.(odiv) (O.(oofZ) (hamming_count neqb x y)) (O.(oofZ) (Z.of_nat (length x))))
    else None.

  (* ---------- Mahalanobis::distance on the stored inverse ---------- *)
  Definition mget (m : list (list T)) (i j : nat) : T := nth j (nth i m []) O.(o0).
  Definition vsub (x y : list T) : list T :=
    map (fun ab => O.(osub) (fst ab) (snd ab)) (combine x y).
  (* for j in 0..n { for i in 0..n { s += sigmaInv.get(i, j) * z[i] * z[j] } } *)
  Definition quadform (n : nat) (sinv : list (list T)) (z : list T) : T :=
    fold_left (fun s j =>
      fold_left (fun s i =>
        O.(oadd) s (O.(omul) (O.(omul) (mget sinv i j) (nth i z O.(o0))) (nth j z O.(o0))))
        (seq 0 n) s)
      (seq 0 n) O.(o0).
  (* nrows = sigma.shape().0 *)
  Definition mahalanobis (nrows : nat) (sinv : list (list T)) (x y : list T) : option T :=
    if Nat.eqb (length x) nrows && Nat.eqb (length y) nrows then
      Some (O.(osqrt) (quadform (length x) sinv (vsub x y)))
    else None.

  (* ---------- column_mean and cov (what Mahalanobis::new stores as sigma) ---------- *)
  Definition column_mean (ncols : nat) (rows : list (list T)) : list T :=
    map (fun c => O.(odiv) (fold_left (fun m row => O.(oadd) m (nth c row O.(o0))) rows O.(o0))
                           (O.(oofZ) (Z.of_nat (length rows))))
        (seq 0 ncols).
  (* entry (i, j), j <= i, accumulated over the rows k = 0.. in order, then divided by m - 1 and
     mirrored into (j, i) *)
  Definition cov_entry (rows : list (list T)) (mu : list T) (i j : nat) : T :=
    O.(odiv)
       (fold_left (fun s row => O.(oadd) s (O.(omul) (O.(osub) (nth i row O.(o0)) (nth i mu O.(o0)))
                                                     (O.(osub) (nth j row O.(o0)) (nth j mu O.(o0)))))
                  rows O.(o0))
       (O.(oofZ) (Z.of_nat (length rows) - 1)).
  Definition cov (ncols : nat) (rows : list (list T)) : option (list (list T)) :=
    match rows with
    | [] => None                                  (* m - 1 underflows: panic (debug build) *)
    | _ => let mu := column_mean ncols rows in
           Some (map (fun a => map (fun b => cov_entry rows mu (Nat.max a b) (Nat.min a b))
                                   (seq 0 ncols))
                     (seq 0 ncols))
    end.
End Dist.
