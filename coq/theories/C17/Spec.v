(* C17 — the mathematical vocabulary of the theorems: finite sums over an index range, the metric
   laws as a predicate on a partial distance function, positive semi-definiteness of a quadratic form. *)
From Coq Require Import List Reals.
Import ListNotations.
Local Open Scope R_scope.

(* sum of a list, and sum_{i < n} f i *)
Definition Rsum (l : list R) : R := fold_right Rplus 0 l.
Definition sigma (n : nat) (f : nat -> R) : R := Rsum (map f (seq 0 n)).

(* i-th component of a vector (0 outside) *)
Definition comp (x : list R) (i : nat) : R := nth i x 0.

(* The metric laws for a distance that is defined (`Some`) on the pairs it accepts:
   non-negative, symmetric, zero on identical arguments, triangle inequality. *)
Definition metric_laws {A} (d : list A -> list A -> option R) : Prop :=
  forall x y z dxy dyz dxz,
    d x y = Some dxy -> d y z = Some dyz -> d x z = Some dxz ->
    0 <= dxy /\ d y x = Some dxy /\ d x x = Some 0 /\ dxz <= dxy + dyz.

(* entry (i, j) of a matrix given as a list of rows *)
Definition entry (m : list (list R)) (i j : nat) : R := nth j (nth i m []) 0.
(* the quadratic form  w^T S w = sum_j sum_i S_ij w_i w_j  on R^n *)
Definition qform (n : nat) (S : list (list R)) (w : nat -> R) : R :=
  sigma n (fun j => sigma n (fun i => entry S i j * w i * w j)).
(* positive semi-definite on R^n (no symmetry required: only the symmetric part of S matters) *)
Definition psd (n : nat) (S : list (list R)) : Prop := forall w : nat -> R, 0 <= qform n S w.
Definition identity_matrix (n : nat) : list (list R) :=
  map (fun i => map (fun j => if Nat.eqb i j then 1 else 0) (seq 0 n)) (seq 0 n).

(* number of positions at which two lists differ (`neqb` is the element type's `!=`) *)
Fixpoint diff_count {A} (neqb : A -> A -> bool) (x y : list A) : nat :=
  match x, y with
  | a :: x', b :: y' => (if neqb a b then 1 else 0) + diff_count neqb x' y'
  | _, _ => 0
  end.

(* T is a right inverse of S on R^n:  S T = I *)
Definition right_inverse (n : nat) (S T : list (list R)) : Prop :=
  forall i j, (i < n)%nat -> (j < n)%nat ->
    sigma n (fun k => entry S i k * entry T k j) = if Nat.eqb i j then 1 else 0.

(* data matrix as a list of rows: value of column c in row k minus the column mean mu_c *)
Definition centred (rows : list (list R)) (mu : list R) (k c : nat) : R :=
  nth c (nth k rows []) 0 - nth c mu 0.
