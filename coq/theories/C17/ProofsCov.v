(* C17 — the covariance estimate that Mahalanobis::new stores as sigma (model of DenseMatrix::cov):
   closed form (centred cross products over m - 1), symmetry and positive semi-definiteness. *)
From Coq Require Import List Arith ZArith Reals Lra Lia.
From SC Require Import Base.Num C17.Model C17.Spec C17.ProofsSum C17.ProofsQuad.
Import ListNotations.
Local Open Scope R_scope.

Lemma entry_table n (F : nat -> nat -> R) i j : (i < n)%nat -> (j < n)%nat ->
  entry (map (fun a => map (fun b => F a b) (seq 0 n)) (seq 0 n)) i j = F i j.
Proof.
  intros Hi Hj. unfold entry.
  rewrite (nth_indep _ [] (map (fun b => F 0%nat b) (seq 0 n)))
    by (rewrite map_length, seq_length; exact Hi).
  rewrite (map_nth (fun a => map (fun b => F a b) (seq 0 n)) (seq 0 n) 0%nat i).
  rewrite seq_nth by exact Hi. cbn [Nat.add].
  rewrite (nth_indep _ 0 (F i 0%nat)) by (rewrite map_length, seq_length; exact Hj).
  rewrite (map_nth (fun b => F i b) (seq 0 n) 0%nat j).
  rewrite seq_nth by exact Hj. reflexivity.
Qed.

Lemma Rsum_map_nth {A} (d : A) (f : A -> R) (l : list A) :
  Rsum (map f l) = sigma (length l) (fun k => f (nth k l d)).
Proof.
  induction l as [|h t IH]; [reflexivity|].
  cbn [map length Rsum fold_right]. rewrite sigma_S_head. cbn [nth]. fold (Rsum (map f t)).
  rewrite IH. reflexivity.
Qed.

Lemma cov_entry_R rows mu i j :
  cov_entry ROps rows mu i j
  = sigma (length rows) (fun k => centred rows mu k i * centred rows mu k j)
    / IZR (Z.of_nat (length rows) - 1).
Proof.
  unfold cov_entry. cbn [ROps oadd osub omul odiv o0 oofZ].
  rewrite (fold_left_Rsum (fun row : list R => (nth i row 0 - nth i mu 0) * (nth j row 0 - nth j mu 0))).
  rewrite (Rsum_map_nth []). rewrite Rplus_0_l. reflexivity.
Qed.

Lemma column_mean_R ncols rows c : (c < ncols)%nat ->
  nth c (column_mean ROps ncols rows) 0
  = sigma (length rows) (fun k => nth c (nth k rows []) 0) / INR (length rows).
Proof.
  intros Hc. unfold column_mean. cbn [ROps oadd odiv o0 oofZ].
  rewrite (nth_indep _ 0 ((fun c => fold_left (fun m row => m + nth c row 0) rows 0
                                    / IZR (Z.of_nat (length rows))) 0%nat))
    by (rewrite map_length, seq_length; exact Hc).
  rewrite (map_nth (fun c => fold_left (fun m row => m + nth c row 0) rows 0
                             / IZR (Z.of_nat (length rows))) (seq 0 ncols) 0%nat c).
  rewrite seq_nth by exact Hc. cbn [Nat.add].
  rewrite (fold_left_Rsum (fun row : list R => nth c row 0)), (Rsum_map_nth []), Rplus_0_l.
  rewrite <- INR_IZR_INZ. reflexivity.
Qed.

Lemma cov_some ncols rows C : cov ROps ncols rows = Some C ->
  rows <> [] /\
  C = map (fun a => map (fun b => cov_entry ROps rows (column_mean ROps ncols rows)
                                            (Nat.max a b) (Nat.min a b)) (seq 0 ncols)) (seq 0 ncols).
Proof.
  unfold cov. destruct rows as [|r0 rs]; [discriminate|]. intros [= <-]. split; [discriminate | reflexivity].
Qed.

Lemma sigma_scal_r n c f : sigma n (fun i => f i * c) = sigma n f * c.
Proof. rewrite (sigma_ext n _ (fun i => c * f i)) by (intros; ring). rewrite sigma_scal. ring. Qed.

Section Cov.
  Variables (ncols : nat) (rows : list (list R)) (C : list (list R)).
  Hypothesis Hcov : cov ROps ncols rows = Some C.
  Let mu := column_mean ROps ncols rows.
  Let m := length rows.

  Lemma cov_entry_form a b : (a < ncols)%nat -> (b < ncols)%nat ->
    entry C a b = sigma m (fun k => centred rows mu k a * centred rows mu k b) / (INR m - 1).
  Proof.
    intros Ha Hb. destruct (cov_some _ _ _ Hcov) as [_ EC]. rewrite EC.
    rewrite (entry_table ncols (fun a b => cov_entry ROps rows (column_mean ROps ncols rows)
                                                     (Nat.max a b) (Nat.min a b))) by assumption.
    rewrite cov_entry_R. fold mu. fold m.
    replace (IZR (Z.of_nat m - 1)) with (INR m - 1) by (rewrite minus_IZR, <- INR_IZR_INZ; reflexivity).
    f_equal. destruct (Nat.le_ge_cases a b) as [H|H].
    - rewrite Nat.max_r, Nat.min_l by exact H. apply sigma_ext. intros k _. ring.
    - rewrite Nat.max_l, Nat.min_r by exact H. reflexivity.
  Qed.

  Lemma cov_symmetric a b : (a < ncols)%nat -> (b < ncols)%nat -> entry C a b = entry C b a.
  Proof.
    intros Ha Hb. rewrite !cov_entry_form by assumption. f_equal. apply sigma_ext. intros k _. ring.
  Qed.

  (* w^T C w = (1/(m-1)) sum_k (sum_a centred_ka w_a)^2 *)
  Lemma cov_qform w :
    qform ncols C w
    = / (INR m - 1) * sigma m (fun k => (sigma ncols (fun a => centred rows mu k a * w a))
                                        * (sigma ncols (fun a => centred rows mu k a * w a))).
  Proof.
    unfold qform.
    rewrite (sigma_ext ncols _
      (fun b => / (INR m - 1) * sigma m (fun k => sigma ncols (fun a =>
                   centred rows mu k a * w a * (centred rows mu k b * w b))))).
    - rewrite sigma_scal. f_equal. rewrite sigma_swap. apply sigma_ext. intros k _.
      set (s := sigma ncols (fun a => centred rows mu k a * w a)).
      rewrite (sigma_ext ncols _ (fun b => s * (centred rows mu k b * w b))).
      + rewrite sigma_scal. reflexivity.
      + intros b _. unfold s. rewrite <- sigma_scal_r. reflexivity.
    - intros b Hb. rewrite sigma_swap.
      rewrite <- sigma_scal. apply sigma_ext. intros a Ha.
      rewrite cov_entry_form by assumption. unfold Rdiv.
      rewrite (sigma_ext m (fun k => centred rows mu k a * w a * (centred rows mu k b * w b))
                         (fun k => (w a * w b) * (centred rows mu k a * centred rows mu k b)))
        by (intros k _; ring).
      rewrite sigma_scal. ring.
  Qed.

  Lemma cov_psd : (2 <= m)%nat -> psd ncols C.
  Proof.
    intros Hm w. rewrite cov_qform.
    apply Rmult_le_pos.
    - apply Rlt_le, Rinv_0_lt_compat.
      assert (2 <= INR m) by (change 2 with (INR 2); apply le_INR; exact Hm). lra.
    - apply sigma_nonneg. intros k _. exact (Rle_0_sqr _).
  Qed.
End Cov.
