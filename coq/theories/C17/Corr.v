(* C17 — correspondence interface: the generic distance models instantiated at binary64
   (primitive floats) and binary32 (Flocq), compared against what the implementation returned.
   Used by harness/src/bin/c17.rs through `Eval vm_compute`.
   Euclidian / Manhattan / Hamming / Mahalanobis::distance / cov use only + - * / sqrt abs in the
   model's order => bit-exact comparison; Minkowski goes through powf => tolerance. *)
From Coq Require Import List ZArith Bool Floats.
From SC Require Import Base.FloatUtil Base.Num C17.Model C17.F32.
From SC Require C01.Model C01.Corr.
Import ListNotations.

Definition to_nat := N.to_nat.

(* ---------------- binary64 ---------------- *)
Definition corr_euclid (x y : list float) (expected : option float) : bool :=
  option_eqb feq (euclidian FOps x y) expected.
Definition corr_manhattan (x y : list float) (expected : option float) : bool :=
  option_eqb feq (manhattan FOps x y) expected.
(* purely relative comparison: |a - b| <= tol * max(|a|,|b|) (the Minkowski distance is positively
   homogeneous, so the error of the software powf scales with the value) *)
Definition frel (tol a b : float) : bool :=
  feq a b || PrimFloat.leb (fabs (PrimFloat.sub a b)) (PrimFloat.mul tol (fmax (fabs a) (fabs b))).
Definition corr_minkowski (tol : float) (p : N) (x y : list float) (expected : option float) : bool :=
  option_eqb (frel tol) (minkowski FOps (to_nat p) x y) expected.
Definition fneqb (a b : float) : bool := negb (PrimFloat.eqb a b).      (* Rust's != on floats *)
Definition corr_hamming_f (x y : list float) (expected : option float) : bool :=
  option_eqb feq (hamming FOps fneqb x y) expected.
Definition zneqb (a b : Z) : bool := negb (Z.eqb a b).
Definition corr_hamming_z (x y : list Z) (expected : option float) : bool :=
  option_eqb feq (hamming FOps zneqb x y) expected.

(* well-formedness of the implementation's stored inverse as far as evaluation can see it:
   n rows of n entries, symmetric up to `tol` relative to the largest entry, positive diagonal *)
Definition fmaxabs (m : list (list float)) : float :=
  fold_left (fun a row => fold_left (fun a v => fmax a (fabs v)) row a) m 0%float.
Definition sinv_wf (tol : float) (n : nat) (sinv : list (list float)) : bool :=
  Nat.eqb (length sinv) n && forallb (fun r => Nat.eqb (length r) n) sinv &&
  let big := fmaxabs sinv in
  forallb (fun i => PrimFloat.ltb 0%float (mget FOps sinv i i) &&
     forallb (fun j => feq_abs tol big (mget FOps sinv i j) (mget FOps sinv j i)) (seq 0 n)) (seq 0 n).

(* the hypothesis of C17_mahalanobis_metric (positive semi-definite) as far as evaluation can see it:
   the Cholesky factorisation of the symmetric part of the stored inverse succeeds with positive pivots *)
Definition fdot (a b : list float) : float :=
  fold_left (fun s ab => PrimFloat.add s (PrimFloat.mul (fst ab) (snd ab))) (combine a b) 0%float.
Fixpoint chol_row (srow : list float) (lprev : list (list float)) (acc : list float) : list float :=
  match srow, lprev with
  | s :: srow', lj :: lprev' =>
      chol_row srow' lprev' (acc ++ [PrimFloat.div (PrimFloat.sub s (fdot acc lj)) (last lj 1%float)])
  | _, _ => acc
  end.
Fixpoint chol_go (rows : list (list float)) (i : nat) (l : list (list float)) : bool :=
  match rows with
  | [] => true
  | r :: rows' =>
      let acc := chol_row r l [] in
      let d := PrimFloat.sub (nth i r 0%float) (fdot acc acc) in
      if PrimFloat.ltb 0%float d then chol_go rows' (S i) (l ++ [acc ++ [PrimFloat.sqrt d]]) else false
  end.
Definition sym_part (n : nat) (m : list (list float)) : list (list float) :=
  map (fun i => map (fun j => PrimFloat.mul 0.5%float (PrimFloat.add (mget FOps m i j) (mget FOps m j i)))
                    (seq 0 n)) (seq 0 n).
Definition sinv_pd (n : nat) (sinv : list (list float)) : bool := chol_go (sym_part n sinv) 0 [].

(* Mahalanobis::distance on the implementation's own sigmaInv (nrows = sigma.shape().0) *)
Definition corr_mahalanobis (nrows : N) (sinv : list (list float)) (x y : list float)
           (expected : option float) : bool :=
  option_eqb feq (mahalanobis FOps (to_nat nrows) sinv x y) expected.
Definition corr_mahalanobis_wf (tol : float) (nrows : N) (sinv : list (list float)) (x y : list float)
           (expected : option float) : bool :=
  sinv_wf tol (to_nat nrows) sinv && sinv_pd (to_nat nrows) sinv && corr_mahalanobis nrows sinv x y expected.

(* DenseMatrix::cov = the sigma stored by Mahalanobis::new *)
Definition corr_cov (ncols : N) (rows : list (list float)) (expected : option (list (list float))) : bool :=
  option_eqb fmat_eq (cov FOps (to_nat ncols) rows) expected.
Definition corr_column_mean (ncols : N) (rows : list (list float)) (expected : list float) : bool :=
  flist_eq (column_mean FOps (to_nat ncols) rows) expected.

(* ---------------- binary32 (values are passed as their bit patterns) ---------------- *)
Definition v32 := map f32_of_bits.
Definition m32 := map v32.
Definition opt32_same (a : option f32) (b : option Z) : bool :=
  option_eqb f32_same a (option_map f32_of_bits b).
(* |a - b| <= tol * max(1,|a|,|b|) after exact widening *)
Definition opt32_tol (tol : float) (a : option f32) (b : option Z) : bool :=
  option_eqb (fun u v => feq_tol tol (f32_to_f64 u) (f32_to_f64 v)) a (option_map f32_of_bits b).

Definition corr32_euclid (x y : list Z) (expected : option Z) : bool :=
  opt32_same (euclidian F32Ops (v32 x) (v32 y)) expected.
Definition corr32_manhattan (x y : list Z) (expected : option Z) : bool :=
  opt32_same (manhattan F32Ops (v32 x) (v32 y)) expected.
(* powf path: the binary64 model on the exactly widened single-precision inputs, relative tolerance *)
Definition w32 (x : list Z) : list float := map (fun z => f32_to_f64 (f32_of_bits z)) x.
Definition corr32_minkowski (tol : float) (p : N) (x y : list Z) (expected : option Z) : bool :=
  option_eqb (frel tol) (minkowski FOps (to_nat p) (w32 x) (w32 y))
             (option_map (fun z => f32_to_f64 (f32_of_bits z)) expected).
Definition corr32_hamming (x y : list Z) (expected : option Z) : bool :=
  opt32_same (hamming F32Ops (fun a b => negb (f32_eqb a b)) (v32 x) (v32 y)) expected.
Definition corr32_hamming_z (x y : list Z) (expected : option Z) : bool :=
  opt32_same (hamming F32Ops zneqb x y) expected.
Definition corr32_mahalanobis (nrows : N) (sinv : list (list Z)) (x y : list Z) (expected : option Z) : bool :=
  opt32_same (mahalanobis F32Ops (to_nat nrows) (m32 sinv) (v32 x) (v32 y)) expected.
Definition corr32_cov (ncols : N) (rows : list (list Z)) (expected : option (list (list Z))) : bool :=
  option_eqb (list_eqb (list_eqb f32_same)) (cov F32Ops (to_nat ncols) (m32 rows)) (option_map m32 expected).

(* ---------------- the constructors as a whole (structured covariances) ----------------
   `Mahalanobis::new_from_covariance(cov)` stores sigmaInv = cov.lu().inverse() and
   `Mahalanobis::new(data)` the same for cov = data.cov().  The LU factorisation and its inverse are
   C01's model (SC.C01.Model.lu_mut / lu_inverse, compared bit for bit with the implementation by C01's
   own correspondence); here the chain  [cov ->] LU inverse -> distance  is evaluated on small
   structured covariances (integer, sparse, cancelling off-diagonal sums, exactly diagonal, ...) and
   compared bit for bit with the stored inverse and the distance the implementation returned, so a
   constructor that takes any other route to sigmaInv for some special shape of the covariance shows
   up as a mismatch.  w32 = true runs C01's binary32 emulation (operands are binary32 values held in
   binary64, every + - * / sqrt rounded once more to 24 bits). *)
Definition lu_inverse_rows (O : Ops float) (n : nat) (A : list (list float)) : option (list (list float)) :=
  let st := C01.Model.lu_mut O n n (C01.Model.of_rows O A) in
  option_map (C01.Model.to_rows n n) (C01.Model.lu_inverse O n (C01.Model.lu_A st) (C01.Model.lu_piv st)).
Definition maha_of_cov (O : Ops float) (n : nat) (sigma : list (list float)) (x y : list float) : option float :=
  match lu_inverse_rows O n sigma with
  | Some sinv => mahalanobis O n sinv x y
  | None => None                                   (* `.unwrap()` of a singular matrix: panic *)
  end.
(* esinv: the implementation's stored inverse; expected: what distance(x, y) returned (None = panic) *)
Definition corr_maha_from_cov (w32 : bool) (n : N) (sigma : list (list float)) (esinv : list (list float))
           (x y : list float) (expected : option float) : bool :=
  let O := C01.Corr.ops w32 in
  option_eqb fmat_eq (lu_inverse_rows O (to_nat n) sigma) (Some esinv) &&
  option_eqb feq (maha_of_cov O (to_nat n) sigma x y) expected.
(* esigma: the implementation's stored covariance *)
Definition corr_maha_from_data (w32 : bool) (ncols : N) (rows : list (list float))
           (esigma esinv : list (list float)) (x y : list float) (expected : option float) : bool :=
  let O := C01.Corr.ops w32 in
  match cov O (to_nat ncols) rows with
  | Some sigma => fmat_eq sigma esigma && corr_maha_from_cov w32 ncols sigma esinv x y expected
  | None => false
  end.
