(* C17 — definiteness: Minkowski (hence Manhattan and Euclidian) distance zero only between equal vectors. *)
From Coq Require Import List Arith ZArith Bool Reals Lra Lia.
From SC Require Import Base.Num C17.Model C17.Spec C17.ProofsSum C17.ProofsDist C17.ProofsMinkowski.
Import ListNotations.
Local Open Scope R_scope.

Lemma minkowski_zero_equal p x y : minkowski ROps p x y = Some 0 -> x = y.
Proof.
  intros H. pose proof (minkowski_closed_form _ _ _ _ H) as [_ Q].
  apply minkowski_some in H as (L & Hp & _).
  rewrite pow_i in Q by lia.
  apply (nth_ext x y 0 0 L). intros i Hi.
  pose proof (sigma_pow_zero p (length x) (fun i => Rabs (comp x i - comp y i))
                             (fun i => Rabs_pos _) Q i Hi) as Z.
  cbn beta in Z. unfold comp in Z.
  destruct (Req_dec (nth i x 0 - nth i y 0) 0) as [E|E]; [lra|].
  exfalso. apply Rabs_no_R0 in E. contradiction.
Qed.
Lemma manhattan_zero_equal x y : manhattan ROps x y = Some 0 -> x = y.
Proof. rewrite <- minkowski_1_manhattan. apply minkowski_zero_equal. Qed.
Lemma euclidian_zero_equal x y : euclidian ROps x y = Some 0 -> x = y.
Proof. rewrite <- minkowski_2_euclidian. apply minkowski_zero_equal. Qed.
