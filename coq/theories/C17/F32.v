(* C17 — a binary32 instance of `Ops` (Flocq's verified IEEE-754 single precision arithmetic), so that
   the generic models can be executed bit for bit against the f32 code paths.  exp / ln go through
   the binary64 software routines of Base/Elem and are rounded to single (tolerance comparison
   only).  Execution only: no theorem depends on this file. *)
From Coq Require Import ZArith List Bool Floats.
From Flocq Require Import Core IEEE754.BinarySingleNaN IEEE754.Binary IEEE754.Bits.
From SC Require Import Base.FloatUtil Base.Elem Base.Num.

Definition f32 := binary32.
Definition f32_of_bits (z : Z) : f32 := b32_of_bits z.
Definition f32_bits (x : f32) : Z := bits_of_b32 x.
Definition f32_of_Z (z : Z) : f32 :=
  binary_normalize 24 128 (eq_refl _) (eq_refl _) mode_NE z 0 false.
Definition f32_is_nan (x : f32) : bool := Binary.is_nan 24 128 x.

(* exact widening to binary64 and correctly rounded narrowing *)
Definition f32_to_f64 (x : f32) : PrimFloat.float := SF2Prim (Binary.B2SF 24 128 x).
Definition f32_of_f64 (x : PrimFloat.float) : f32 :=
  match Prim2SF x with
  | S754_zero s => B754_zero 24 128 s
  | S754_infinity s => B754_infinity 24 128 s
  | S754_nan => b32_of_bits 2143289344
  | S754_finite s m e => binary_normalize 24 128 (eq_refl _) (eq_refl _) mode_NE
                                          (if s then Zneg m else Zpos m) e s
  end.

Definition f32_ltb (a b : f32) : bool := match b32_compare a b with Some Lt => true | _ => false end.
Definition f32_leb (a b : f32) : bool :=
  match b32_compare a b with Some Lt => true | Some Eq => true | _ => false end.
Definition f32_eqb (a b : f32) : bool := match b32_compare a b with Some Eq => true | _ => false end.

Definition F32Ops : Ops f32 := {|
  o0 := f32_of_Z 0; o1 := f32_of_Z 1;
  oadd := b32_plus mode_NE; osub := b32_minus mode_NE; omul := b32_mult mode_NE; odiv := b32_div mode_NE;
  oneg := b32_opp; oabs := b32_abs; osqrt := b32_sqrt mode_NE;
  oexp := fun x => f32_of_f64 (fexp (f32_to_f64 x)); oln := fun x => f32_of_f64 (fln (f32_to_f64 x));
  oltb := f32_ltb; oleb := f32_leb; oeqb := f32_eqb;
  oofZ := f32_of_Z |}.

(* bit equality, all NaNs identified *)
Definition f32_same (a b : f32) : bool :=
  (f32_is_nan a && f32_is_nan b) || Z.eqb (f32_bits a) (f32_bits b).
