(* C17 — rounding-error theorems for the binary32 instance F32Ops of the model (the very definitions
   the correspondence check executes against the f32 code paths): Manhattan, squared Euclidian,
   Euclidian, Hamming.  Mirror of C17/ProofsFloat.v on C17/FloatError32.v (Flocq's binary32 directly:
   no primitive-float bridge).  `FR32 x` is the real value of a binary32 number, `RV32 x`
   the vector of real values, `ffin32 d` finiteness, u32 = 2^-24, eta32 = 2^-150.
   The only no-overflow hypothesis is that the RESULT is finite. *)
From Coq Require Import List Arith ZArith Bool Reals Lra Lia Psatz.
From Flocq Require Import Core.
From Flocq Require Binary Bits.
From SC Require Import Base.Num Base.FloatError C17.Model C17.Spec C17.ProofsSum C17.ProofsDist
     C17.ProofsHamming C17.ProofsFloat C17.F32 C17.FloatError32.
Import ListNotations.
Local Open Scope R_scope.

(* real values of a binary32 vector *)
Definition RV32 (x : list f32) : list R := map FR32 x.
Lemma comp_RV32 x i : comp (RV32 x) i = FR32 (nth i x f32zero).
Proof. unfold comp, RV32. rewrite <- FR32_zero at 1. apply map_nth. Qed.
Lemma RV32_length x : length (RV32 x) = length x.
Proof. apply map_length. Qed.

Lemma Rsuml_combine_RV32 (f : R -> R -> R) (x y : list f32) : length x = length y ->
  Rsuml (map (fun ab => f (FR32 (fst ab)) (FR32 (snd ab))) (combine x y)) =
  sigma (length x) (fun i => f (comp (RV32 x) i) (comp (RV32 y) i)).
Proof.
  intros H. change Rsuml with Rsum.
  rewrite (Rsum_combine f32zero (fun ab => f (FR32 (fst ab)) (FR32 (snd ab))) x y H).
  apply sigma_ext. intros i _. rewrite !comp_RV32. reflexivity.
Qed.

(* ---------------- Manhattan ---------------- *)
Definition man_term32 (ab : f32 * f32) : f32 := f32abs (f32sub (fst ab) (snd ab)).

Lemma manhattan_loop_F32 x y : manhattan_loop F32Ops x y = fsum32 (map man_term32 (combine x y)).
Proof. unfold manhattan_loop, fsum32. cbn [F32Ops oadd osub oabs o0]. apply (fold_left_map_r f32add man_term32). Qed.

Lemma man_term32_error ab : ffin32 (man_term32 ab) ->
  0 <= Rabs (FR32 (fst ab) - FR32 (snd ab)) /\
  Rabs (FR32 (man_term32 ab) - Rabs (FR32 (fst ab) - FR32 (snd ab))) <= Eu32 1 * Rabs (FR32 (fst ab) - FR32 (snd ab)) + 0.
Proof.
  unfold man_term32. intros H. split; [apply Rabs_pos|]. apply (proj1 (f32abs_finite _)) in H.
  rewrite f32abs_exact, Eu32_1, Rplus_0_r.
  eapply Rle_trans; [apply Rabs_triang_inv2 | apply f32sub_error, H].
Qed.

Theorem manhattan_float_error32 x y d :
  manhattan F32Ops x y = Some d -> ffin32 d ->
  let D := sigma (length x) (fun i => Rabs (comp (RV32 x) i - comp (RV32 y) i)) in
  manhattan ROps (RV32 x) (RV32 y) = Some D /\
  0 <= D /\ 0 <= FR32 d /\ Rabs (FR32 d - D) <= ((1 + u32) ^ length x - 1) * D.
Proof.
  unfold manhattan. destruct (same_len x y) eqn:L; [|discriminate]. intros [= <-] Hfin. set (D := sigma (length x) _).
  apply same_len_true in L.
  assert (L' : same_len (RV32 x) (RV32 y) = true) by (apply same_len_true; rewrite !RV32_length; exact L).
  rewrite L'. rewrite manhattan_loop_R by (rewrite !RV32_length; exact L). rewrite RV32_length. fold D.
  split; [reflexivity|].
  rewrite manhattan_loop_F32 in *.
  set (l := map man_term32 (combine x y)) in *.
  set (a := map (fun ab => Rabs (FR32 (fst ab) - FR32 (snd ab))) (combine x y)).
  assert (HF : Forall2 (fun t a => ffin32 t -> 0 <= a /\ Rabs (FR32 t - a) <= Eu32 1 * a + 0) l a).
  { apply Forall2_map_in. intros ab _. apply man_term32_error. }
  assert (Ea : Rsuml a = D).
  { unfold a, D. apply (Rsuml_combine_RV32 (fun u v => Rabs (u - v)) x y L). }
  assert (Ll : length l = length x).
  { unfold l. rewrite map_length, combine_length, L. apply Nat.min_id. }
  destruct (fsum32_error_gen 1 0 (Rle_refl 0) l a HF Hfin) as [G1 G2].
  rewrite Ea, Ll in *. split; [exact G1|]. split.
  - apply fold_f32add_nonneg; [exact Hfin | | rewrite FR32_zero; lra].
    unfold l. apply Forall_forall. intros t Ht. apply in_map_iff in Ht as (ab & <- & _).
    unfold man_term32. rewrite f32abs_exact. apply Rabs_pos.
  - replace (1 + length x - 1)%nat with (length x) in G2 by lia.
    rewrite Rmult_0_r, !Rplus_0_r in G2. exact G2.
Qed.

(* ---------------- squared Euclidian ---------------- *)
Definition sq_term32 (ab : f32 * f32) : f32 :=
  let d := f32sub (fst ab) (snd ab) in f32mul d d.

Lemma sq_dist_loop_F32 x y : sq_dist_loop F32Ops x y = fsum32 (map sq_term32 (combine x y)).
Proof. unfold sq_dist_loop, fsum32. cbn [F32Ops oadd osub omul o0]. apply (fold_left_map_r f32add sq_term32). Qed.

Lemma sq_perturb32 (D dl : R) : Rabs (D - dl) <= u32 * Rabs dl ->
  Rabs (D * D - dl * dl) <= Eu32 2 * (dl * dl) /\ Rabs (D * D) <= (1 + Eu32 2) * (dl * dl).
Proof.
  intros H. pose proof u32_pos as Hu.
  assert (Hsq : Rabs dl * Rabs dl = dl * dl) by (rewrite <- Rabs_mult; apply Rabs_pos_eq; nra).
  pose proof (Rabs_pos dl) as Hd. pose proof (Rabs_pos (D - dl)) as Hr.
  assert (H1 : Rabs (D * D - dl * dl) <= Eu32 2 * (dl * dl)).
  { replace (D * D - dl * dl) with ((D - dl) * (2 * dl + (D - dl))) by ring.
    rewrite Rabs_mult.
    assert (Rabs (2 * dl + (D - dl)) <= 2 * Rabs dl + Rabs (D - dl)).
    { eapply Rle_trans; [apply Rabs_triang|]. rewrite Rabs_mult, (Rabs_pos_eq 2) by lra. lra. }
    pose proof (Rabs_pos (2 * dl + (D - dl))).
    unfold Eu32. cbn [pow]. nra. }
  split; [exact H1|].
  replace (D * D) with ((D * D - dl * dl) + dl * dl) by ring.
  eapply Rle_trans; [apply Rabs_triang|]. rewrite (Rabs_pos_eq (dl * dl)) by nra. lra.
Qed.

Lemma sq_term32_error ab : ffin32 (sq_term32 ab) ->
  let dl := FR32 (fst ab) - FR32 (snd ab) in
  0 <= dl * dl /\ Rabs (FR32 (sq_term32 ab) - dl * dl) <= Eu32 3 * (dl * dl) + eta32.
Proof.
  unfold sq_term32. cbv zeta. intros H. set (dl := FR32 (fst ab) - FR32 (snd ab)).
  split; [nra|].
  pose proof (f32mul_error _ _ H) as Hm. destruct (f32mul_finite _ _ H) as (Hd & _ & _).
  pose proof (f32sub_error _ _ Hd) as Hs. fold dl in Hs.
  set (D := FR32 (f32sub (fst ab) (snd ab))) in *.
  destruct (sq_perturb32 D dl Hs) as [P1 P2].
  replace (FR32 (f32mul _ _) - dl * dl) with ((FR32 (f32mul (f32sub (fst ab) (snd ab)) (f32sub (fst ab) (snd ab))) - D * D) + (D * D - dl * dl)) by ring.
  eapply Rle_trans; [apply Rabs_triang|]. rewrite (Eu32_S 2). pose proof u32_pos. nra.
Qed.

(* no underflow in the squares: every difference is zero or at least 2^-62 in magnitude *)
Definition diff_normal32 (ab : f32 * f32) : Prop :=
  FR32 (fst ab) - FR32 (snd ab) = 0 \/ bpow radix2 (-62) <= Rabs (FR32 (fst ab) - FR32 (snd ab)).

Lemma sq_term32_error_normal ab : diff_normal32 ab -> ffin32 (sq_term32 ab) ->
  let dl := FR32 (fst ab) - FR32 (snd ab) in
  0 <= dl * dl /\ Rabs (FR32 (sq_term32 ab) - dl * dl) <= Eu32 3 * (dl * dl) + 0.
Proof.
  unfold sq_term32, diff_normal32. cbv zeta. intros N H. set (dl := FR32 (fst ab) - FR32 (snd ab)) in *.
  split; [nra|]. rewrite Rplus_0_r.
  destruct (f32mul_finite _ _ H) as (Hd & _ & E).
  pose proof (f32sub_error _ _ Hd) as Hs. fold dl in Hs.
  set (D := FR32 (f32sub (fst ab) (snd ab))) in *.
  destruct N as [Z|N].
  - rewrite Z in *. rewrite Rabs_R0, Rmult_0_r, Rminus_0_r in Hs.
    assert (D = 0). { pose proof (Rabs_pos D). apply Rabs_eq_R0. lra. }
    rewrite E. replace (D * D) with 0 by (subst D; nra). rewrite rnd32_0.
    rewrite Rmult_0_r, Rminus_0_r, Rabs_R0, Rmult_0_r. lra.
  - assert (Hn : bpow radix2 (-126) <= Rabs (D * D)).
    { change (-126)%Z with (-63 + -63)%Z. rewrite bpow_plus, Rabs_mult.
      assert (bpow radix2 (-63) <= Rabs D).
      { assert (Rabs dl - Rabs D <= Rabs (D - dl)).
        { rewrite <- (Rabs_Ropp (D - dl)). replace (- (D - dl)) with (dl - D) by ring. apply Rabs_triang_inv. }
        assert (bpow radix2 (-62) = 2 * bpow radix2 (-63)).
        { change (-62)%Z with (1 + -63)%Z. rewrite bpow_plus. reflexivity. }
        pose proof u32_lt_1. pose proof u32_pos. pose proof (bpow_gt_0 radix2 (-63)). pose proof (Rabs_pos dl).
        assert (u32 <= /2).
        { unfold u32. change (/2) with (bpow radix2 (-1)). apply bpow_le. lia. }
        nra. }
      pose proof (bpow_gt_0 radix2 (-63)). nra. }
    pose proof (f32mul_error_normal _ _ H Hn) as Hm. fold D in Hm.
    destruct (sq_perturb32 D dl Hs) as [P1 P2].
    replace (FR32 (f32mul _ _) - dl * dl) with ((FR32 (f32mul (f32sub (fst ab) (snd ab)) (f32sub (fst ab) (snd ab))) - D * D) + (D * D - dl * dl)) by ring.
    eapply Rle_trans; [apply Rabs_triang|]. rewrite (Eu32_S 2). pose proof u32_pos. nra.
Qed.

Lemma sq_terms32_nonneg x y : Forall (fun t => ffin32 t -> 0 <= FR32 t) (map sq_term32 (combine x y)).
Proof.
  apply Forall_forall. intros t Ht. apply in_map_iff in Ht as (ab & <- & _).
  unfold sq_term32. intros H. destruct (f32mul_finite _ _ H) as (_ & _ & E). rewrite E.
  apply rnd32_ge_0. nra.
Qed.

Theorem squared_distance_float_error32 x y d :
  squared_distance F32Ops x y = Some d -> ffin32 d ->
  let n := length x in
  let D := sigma n (fun i => (comp (RV32 x) i - comp (RV32 y) i) * (comp (RV32 x) i - comp (RV32 y) i)) in
  squared_distance ROps (RV32 x) (RV32 y) = Some D /\ 0 <= D /\ 0 <= FR32 d /\
  Rabs (FR32 d - D) <= ((1 + u32) ^ (n + 2) - 1) * (D + INR n * eta32) + INR n * eta32 /\
  ((forall ab, In ab (combine x y) -> diff_normal32 ab) ->
     Rabs (FR32 d - D) <= ((1 + u32) ^ (n + 2) - 1) * D).
Proof.
  intros H0 Hfin n D. revert H0.
  unfold squared_distance. destruct (same_len x y) eqn:L; [|discriminate]. intros [= <-].
  apply same_len_true in L.
  assert (L' : same_len (RV32 x) (RV32 y) = true) by (apply same_len_true; rewrite !RV32_length; exact L).
  rewrite L'. rewrite sq_dist_loop_R by (rewrite !RV32_length; exact L). rewrite RV32_length. fold D.
  split; [reflexivity|].
  rewrite sq_dist_loop_F32 in *.
  set (l := map sq_term32 (combine x y)) in *.
  set (a := map (fun ab => (FR32 (fst ab) - FR32 (snd ab)) * (FR32 (fst ab) - FR32 (snd ab))) (combine x y)).
  assert (Ea : Rsuml a = D).
  { unfold a, D. apply (Rsuml_combine_RV32 (fun u v => (u - v) * (u - v)) x y L). }
  assert (Ll : length l = n).
  { unfold l, n. rewrite map_length, combine_length, L. apply Nat.min_id. }
  assert (HF : Forall2 (fun t a => ffin32 t -> 0 <= a /\ Rabs (FR32 t - a) <= Eu32 3 * a + eta32) l a).
  { apply Forall2_map_in. intros ab _. apply sq_term32_error. }
  destruct (fsum32_error_gen 3 eta32 (Rlt_le _ _ eta32_pos) l a HF Hfin) as [G1 G2].
  rewrite Ea, Ll in *. replace (3 + n - 1)%nat with (n + 2)%nat in G2 by lia.
  split; [exact G1|]. split; [|split; [exact G2|]].
  - destruct (fold_f32add_finite_acc _ _ Hfin) as [_ Hall].
    apply fold_f32add_nonneg; [exact Hfin | | rewrite FR32_zero; lra].
    pose proof (sq_terms32_nonneg x y) as Hnn. fold l in Hnn.
    rewrite Forall_forall in *. intros t Ht. apply Hnn; [exact Ht | apply Hall, Ht].
  - intros Hno.
    assert (HF0 : Forall2 (fun t a => ffin32 t -> 0 <= a /\ Rabs (FR32 t - a) <= Eu32 3 * a + 0) l a).
    { apply Forall2_map_in. intros ab Hab. apply sq_term32_error_normal, Hno, Hab. }
    destruct (fsum32_error_gen 3 0 (Rle_refl 0) l a HF0 Hfin) as [_ G3].
    rewrite Ea, Ll in G3. replace (3 + n - 1)%nat with (n + 2)%nat in G3 by lia.
    rewrite Rmult_0_r, !Rplus_0_r in G3. exact G3.
Qed.

(* ---------------- Euclidian ---------------- *)
Theorem euclidian_float_error32 x y r :
  euclidian F32Ops x y = Some r -> ffin32 r ->
  (forall ab, In ab (combine x y) -> diff_normal32 ab) ->
  let D := sigma (length x) (fun i => (comp (RV32 x) i - comp (RV32 y) i) * (comp (RV32 x) i - comp (RV32 y) i)) in
  euclidian ROps (RV32 x) (RV32 y) = Some (R_sqrt.sqrt D) /\ 0 <= FR32 r /\
  Rabs (FR32 r - R_sqrt.sqrt D) <= ((1 + u32) ^ (length x + 3) - 1) * R_sqrt.sqrt D.
Proof.
  unfold euclidian. destruct (squared_distance F32Ops x y) as [s|] eqn:Hs; [|discriminate].
  cbn [option_map F32Ops osqrt]. fold f32sqrt. intros [= <-] Hfin Hno.
  destruct (f32sqrt_finite _ Hfin) as (Hsf & E).
  destruct (squared_distance_float_error32 x y s Hs Hsf) as (HR & HD & Hs0 & _ & G).
  specialize (G Hno). set (D := sigma (length x) _) in *. cbv zeta.
  rewrite HR. cbn [option_map ROps osqrt]. split; [reflexivity|].
  split; [rewrite E; apply rnd32_ge_0, sqrt_pos|].
  destruct (f32sqrt_error _ Hfin) as [_ Hq].
  pose proof (sqrt_rel_error (FR32 s) D _ Hs0 HD (Eu32_nonneg _) G) as Hrel.
  fold (Eu32 (length x + 2)) in Hrel. fold (Eu32 (length x + 3)).
  replace (length x + 3)%nat with (S (length x + 2)) by lia. rewrite Eu32_S.
  replace (FR32 (f32sqrt s) - R_sqrt.sqrt D) with ((FR32 (f32sqrt s) - R_sqrt.sqrt (FR32 s)) + (R_sqrt.sqrt (FR32 s) - R_sqrt.sqrt D)) by ring.
  eapply Rle_trans; [apply Rabs_triang|].
  assert (R_sqrt.sqrt (FR32 s) <= (1 + Eu32 (length x + 2)) * R_sqrt.sqrt D).
  { pose proof (Rle_abs (R_sqrt.sqrt (FR32 s) - R_sqrt.sqrt D)). lra. }
  pose proof u32_pos. pose proof (sqrt_pos D). pose proof (Eu32_nonneg (length x + 2)). nra.
Qed.

(* ---------------- Hamming: the count is exact, the final division is one rounding ---------------- *)
Theorem hamming_float_error32 {A} (neqb : A -> A -> bool) (x y : list A) d :
  hamming F32Ops neqb x y = Some d -> (0 < length x)%nat -> (Z.of_nat (length x) < 2 ^ 24)%Z ->
  let q := INR (diff_count neqb x y) / INR (length x) in
  hamming ROps neqb x y = Some q /\ ffin32 d /\ FR32 d = rnd32 q /\
  Rabs (FR32 d - q) <= u32 * q /\ (diff_count neqb x y = 0%nat -> FR32 d = 0).
Proof.
  intros H Hn Hlt q.
  assert (HR : hamming ROps neqb x y = Some q).
  { apply hamming_some. split; [|reflexivity].
    unfold hamming in H. destruct (same_len x y) eqn:L; [|discriminate]. apply same_len_true, L. }
  split; [exact HR|].
  unfold hamming in H. destruct (same_len x y) eqn:L; [|discriminate].
  cbn [F32Ops odiv oofZ] in H. fold f32div in H. injection H as <-.
  rewrite hamming_count_spec.
  pose proof (diff_count_le_length neqb x y) as Hc.
  set (c := diff_count neqb x y) in *. set (n := length x) in *.
  destruct (f32_of_Z_exact (Z.of_nat c)) as [Fc Ec]; [lia|].
  destruct (f32_of_Z_exact (Z.of_nat n)) as [Fn En]; [lia|].
  rewrite <- INR_IZR_INZ in Ec, En.
  assert (Hn0 : 0 < INR n) by (apply lt_0_INR; exact Hn).
  assert (Hc0 : 0 <= INR c) by apply pos_INR.
  assert (Hcn : INR c <= INR n) by (apply le_INR; exact Hc).
  assert (Hq : 0 <= q <= 1).
  { unfold q. split.
    - apply Rmult_le_pos; [exact Hc0 | apply Rlt_le, Rinv_0_lt_compat, Hn0].
    - apply (Rmult_le_reg_r (INR n)); [exact Hn0|]. unfold Rdiv. rewrite Rmult_assoc, Rinv_l by lra. lra. }
  destruct (f32div_small (f32_of_Z (Z.of_nat c)) (f32_of_Z (Z.of_nat n))) as [Fd Ed]; try assumption.
  { rewrite En. lra. }
  { rewrite Ec, En. fold q. rewrite Rabs_pos_eq; lra. }
  rewrite Ec, En in Ed. fold q in Ed.
  split; [exact Fd|]. split; [exact Ed|]. rewrite Ed.
  destruct (Nat.eq_dec c 0) as [Z|NZ].
  - assert (q = 0) by (unfold q; rewrite Z; cbn [INR]; lra).
    rewrite H, rnd32_0, Rminus_0_r, Rabs_R0. split; [lra | reflexivity].
  - split; [|intros; contradiction].
    pose proof (rnd32_err_normal q) as G0. rewrite Rabs_pos_eq in G0 by lra. apply G0.
    apply Rle_trans with (bpow radix2 (-24)); [apply bpow_le; lia|].
    assert (1 <= INR c) by (change 1 with (INR 1); apply le_INR; lia).
    assert (INR n <= bpow radix2 24).
    { change (bpow radix2 24) with (IZR (2 ^ 24)). rewrite INR_IZR_INZ. apply IZR_le. lia. }
    change (-24)%Z with (- (24))%Z. rewrite bpow_opp. pose proof (bpow_gt_0 radix2 24).
    unfold q, Rdiv. apply Rle_trans with (1 * / INR n).
    + rewrite Rmult_1_l. apply Rinv_le_contravar; assumption.
    + apply Rmult_le_compat_r; [apply Rlt_le, Rinv_0_lt_compat, Hn0 | assumption].
Qed.

(* ---------------- helpers for stating and instantiating the theorems ---------------- *)
Lemma bpow_m62 : bpow radix2 (-62) = / 2 ^ 62.
Proof.
  change (-62)%Z with (- (62))%Z. rewrite bpow_opp. f_equal.
  change (bpow radix2 62) with (IZR (2 ^ Z.of_nat 62)). rewrite <- pow_IZR. reflexivity.
Qed.
Lemma diff_normal32_intro (x y : list f32) :
  (forall a b, In (a, b) (combine x y) -> FR32 a = FR32 b \/ / 2 ^ 62 <= Rabs (FR32 a - FR32 b)) ->
  forall ab, In ab (combine x y) -> diff_normal32 ab.
Proof.
  intros H [a b] Hab. unfold diff_normal32. cbn [fst snd]. rewrite bpow_m62.
  destruct (H a b Hab) as [E|G]; [left; lra | right; exact G].
Qed.
Lemma FR32_int z : (0 <= z < 2 ^ 24)%Z -> FR32 (f32_of_Z z) = IZR z.
Proof. intros H. apply (f32_of_Z_exact z H). Qed.

(* ---------------- a decidable form of the no-underflow hypothesis ---------------- *)
Local Existing Instance Hprec32.
(* 2^-61 as a binary32 number (biased exponent 66, mantissa field 0) *)
Definition f32_2m61 : f32 := f32_of_bits 553648128.

(* every computed difference is 0 or at least 2^-61 in magnitude (evaluate with vm_compute) *)
Definition diff_normal_b32 (x y : list f32) : bool :=
  forallb (fun ab => let d := f32abs (f32sub (fst ab) (snd ab)) in
                     f32_eqb d f32zero || f32_leb f32_2m61 d) (combine x y).

Lemma FR32_2m61 : FR32 f32_2m61 = bpow radix2 (-61) /\ ffin32 f32_2m61.
Proof.
  unfold FR32, ffin32. set (c := f32_2m61). vm_compute in c. subst c. split; [|reflexivity].
  cbn [Binary.B2R]. unfold F2R. cbn [cond_Zopp Fnum Fexp].
  change (IZR (Z.pos 8388608)) with (bpow radix2 23). rewrite <- bpow_plus. reflexivity.
Qed.

Lemma f32sub_zero_exact a b : ffin32 (f32sub a b) -> FR32 (f32sub a b) = 0 -> FR32 a - FR32 b = 0.
Proof.
  intros H Z. destruct (f32sub_finite _ _ H) as (_ & _ & E). rewrite E in Z. unfold rnd32 in Z.
  apply (Plus_error.round_plus_eq_0 radix2 (FLT_exp (-149) 24) ZnearestE (FR32 a) (- FR32 b)).
  - apply fmt32_FR32.
  - apply generic_format_opp, fmt32_FR32.
  - exact Z.
Qed.

Lemma f32_compare_correct a b : ffin32 a -> ffin32 b ->
  Bits.b32_compare a b = Some (Rcompare (FR32 a) (FR32 b)).
Proof. intros Ha Hb. apply Binary.Bcompare_correct; assumption. Qed.

Lemma diff_normal32_of_check a b : ffin32 (f32sub a b) ->
  (let d := f32abs (f32sub a b) in f32_eqb d f32zero || f32_leb f32_2m61 d) = true ->
  diff_normal32 (a, b).
Proof.
  cbv zeta. intros H C. unfold diff_normal32. cbn [fst snd].
  assert (Hd : ffin32 (f32abs (f32sub a b))) by (apply f32abs_finite; exact H).
  destruct FR32_2m61 as [V61 F61].
  apply orb_true_iff in C. destruct C as [C|C].
  - left. apply f32sub_zero_exact; [exact H|].
    unfold f32_eqb in C. rewrite (f32_compare_correct _ _ Hd ffin32_zero) in C.
    rewrite f32abs_exact, FR32_zero in C.
    destruct (Rcompare_spec (Rabs (FR32 (f32sub a b))) 0) as [C'|C'|C']; try discriminate C.
    destruct (Req_dec (FR32 (f32sub a b)) 0) as [Z|NZ]; [exact Z|]. apply Rabs_no_R0 in NZ. contradiction.
  - right. unfold f32_leb in C. rewrite (f32_compare_correct _ _ F61 Hd) in C.
    rewrite f32abs_exact, V61 in C.
    assert (C' : bpow radix2 (-61) <= Rabs (FR32 (f32sub a b))).
    { destruct (Rcompare_spec (bpow radix2 (-61)) (Rabs (FR32 (f32sub a b)))) as [G|G|G]; try discriminate C; lra. }
    pose proof (f32sub_error _ _ H) as Hs.
    assert (Rabs (FR32 (f32sub a b)) <= (1 + u32) * Rabs (FR32 a - FR32 b)).
    { replace (FR32 (f32sub a b)) with ((FR32 (f32sub a b) - (FR32 a - FR32 b)) + (FR32 a - FR32 b)) at 1 by ring.
      eapply Rle_trans; [apply Rabs_triang|]. lra. }
    assert (bpow radix2 (-61) = 2 * bpow radix2 (-62)).
    { change (-61)%Z with (1 + -62)%Z. rewrite bpow_plus. reflexivity. }
    pose proof u32_lt_1. pose proof u32_pos. pose proof (Rabs_pos (FR32 a - FR32 b)).
    pose proof (bpow_gt_0 radix2 (-62)). nra.
Qed.

Lemma diff_normal_b32_sound x y : diff_normal_b32 x y = true ->
  forall ab, In ab (combine x y) -> ffin32 (sq_term32 ab) -> diff_normal32 ab.
Proof.
  unfold diff_normal_b32. intros H [a b] Hab Hf. rewrite forallb_forall in H. specialize (H _ Hab).
  cbn [fst snd] in H. apply diff_normal32_of_check; [|exact H].
  unfold sq_term32 in Hf. cbn [fst snd] in Hf. destruct (f32mul_finite _ _ Hf) as (Hd & _). exact Hd.
Qed.

Lemma sq_terms32_finite x y d : squared_distance F32Ops x y = Some d -> ffin32 d ->
  forall ab, In ab (combine x y) -> ffin32 (sq_term32 ab).
Proof.
  unfold squared_distance. destruct (same_len x y); [|discriminate]. intros [= <-] Hfin ab Hab.
  rewrite sq_dist_loop_F32 in Hfin. destruct (fold_f32add_finite_acc _ _ Hfin) as [_ Hall].
  rewrite Forall_forall in Hall. apply Hall, in_map, Hab.
Qed.

Theorem euclidian_float_error32_checked x y r :
  euclidian F32Ops x y = Some r -> ffin32 r -> diff_normal_b32 x y = true ->
  let D := sigma (length x) (fun i => (comp (RV32 x) i - comp (RV32 y) i) * (comp (RV32 x) i - comp (RV32 y) i)) in
  euclidian ROps (RV32 x) (RV32 y) = Some (R_sqrt.sqrt D) /\ 0 <= FR32 r /\
  Rabs (FR32 r - R_sqrt.sqrt D) <= ((1 + u32) ^ (length x + 3) - 1) * R_sqrt.sqrt D.
Proof.
  intros H Hfin Hb. apply (euclidian_float_error32 x y r H Hfin).
  intros ab Hab. apply (diff_normal_b32_sound x y Hb ab Hab).
  unfold euclidian in H. destruct (squared_distance F32Ops x y) as [s|] eqn:Hs; [|discriminate].
  cbn [option_map F32Ops osqrt] in H. fold f32sqrt in H. injection H as <-.
  apply (sq_terms32_finite x y s Hs); [|exact Hab]. apply (f32sqrt_finite s Hfin).
Qed.

Theorem squared_distance_float_error32_checked x y d :
  squared_distance F32Ops x y = Some d -> ffin32 d -> diff_normal_b32 x y = true ->
  let n := length x in
  let D := sigma n (fun i => (comp (RV32 x) i - comp (RV32 y) i) * (comp (RV32 x) i - comp (RV32 y) i)) in
  Rabs (FR32 d - D) <= ((1 + u32) ^ (n + 2) - 1) * D.
Proof.
  intros H Hfin Hb n D. destruct (squared_distance_float_error32 x y d H Hfin) as (_ & _ & _ & _ & G).
  apply G. intros ab Hab. apply (diff_normal_b32_sound x y Hb ab Hab), (sq_terms32_finite x y d H Hfin ab Hab).
Qed.

(* for Examples: establish `exists d, o = Some d /\ finite /\ bit pattern` from ONE boolean computation
   (vm_compute then never has to read back a binary32 value with its boundedness proof) *)
Lemma f32_result_intro (o : option f32) (bits : Z) :
  match o with Some d => Binary.is_finite 24 128 d && Z.eqb (f32_bits d) bits | None => false end = true ->
  exists d, o = Some d /\ Binary.is_finite 24 128 d = true /\ f32_bits d = bits.
Proof.
  destruct o as [d|]; [|discriminate]. intros H. apply andb_true_iff in H as [H1 H2].
  exists d. split; [reflexivity|]. split; [exact H1 | apply Z.eqb_eq, H2].
Qed.
