(* C17 — rounding-error library for the binary32 instance F32Ops (C17/F32.v): the operations are
   Flocq's IEEE754.Bits b32_plus / b32_minus / b32_mult / b32_div / b32_sqrt (mode_NE) and b32_abs, i.e.
   IEEE754.Binary's Bplus ... on `binary_float 24 128` with the NaN-payload functions binop_nan_pl32 /
   unop_nan_pl32.  Each of them is `BSN2B nan (BinarySingleNaN.op (B2BSN x) (B2BSN y))`, so Flocq's
   BinarySingleNaN correctness theorems apply directly (no primitive-float bridge and none of its specification assumptions).
   The NaN payload never matters here: every statement is about finite results.
   Mirror of Base/FloatError.v with prec = 24, emax = 128, emin = -149.

   Vocabulary
     FR32 x    the real value of x (0 for infinities and NaN): Binary.B2R 24 128 x
     ffin32 x  x is finite: Binary.is_finite 24 128 x = true
     u32       2^-24, the unit roundoff;  eta32 = 2^-150, half the smallest subnormal
     rnd32 r   r rounded to the nearest binary32 number, ties to even (no overflow)
     Eu32 k    (1 + u32)^k - 1
   Shape of the basic facts as in Base/FloatError.v: IF THE RESULT IS FINITE then the operands were
   finite and the result is rnd32 of the exact result. *)
From Coq Require Import ZArith Reals Lra Lia List Psatz Bool.
From Flocq Require Import Core BinarySingleNaN Relative Plus_error.
From Flocq Require Binary Bits.
From SC Require Import Base.Num Base.FloatError C17.F32.
Import ListNotations.
Local Open Scope R_scope.

Definition Hprec32 : Prec_gt_0 24 := eq_refl.
Definition Hmax32 : Prec_lt_emax 24 128 := eq_refl.
Local Existing Instance Hprec32.
Local Existing Instance Hmax32.

(* ---------------- values, finiteness, the operations ---------------- *)
Definition FR32 (x : f32) : R := Binary.B2R 24 128 x.
Definition ffin32 (x : f32) : Prop := Binary.is_finite 24 128 x = true.
Definition u32 : R := bpow radix2 (-24).
Definition eta32 : R := bpow radix2 (-150).
Definition rnd32 (r : R) : R := round radix2 (FLT_exp (-149) 24) ZnearestE r.
Definition fmt32 (r : R) : Prop := generic_format radix2 (FLT_exp (-149) 24) r.

(* the operations of F32Ops *)
Definition f32add : f32 -> f32 -> f32 := Bits.b32_plus mode_NE.
Definition f32sub : f32 -> f32 -> f32 := Bits.b32_minus mode_NE.
Definition f32mul : f32 -> f32 -> f32 := Bits.b32_mult mode_NE.
Definition f32div : f32 -> f32 -> f32 := Bits.b32_div mode_NE.
Definition f32sqrt : f32 -> f32 := Bits.b32_sqrt mode_NE.
Definition f32abs : f32 -> f32 := Bits.b32_abs.
Definition f32zero : f32 := f32_of_Z 0.

Lemma F32Ops_ops :
  oadd F32Ops = f32add /\ osub F32Ops = f32sub /\ omul F32Ops = f32mul /\ odiv F32Ops = f32div /\
  osqrt F32Ops = f32sqrt /\ oabs F32Ops = f32abs /\ o0 F32Ops = f32zero /\ oofZ F32Ops = f32_of_Z.
Proof. repeat split. Qed.

(* to Flocq's single-NaN format *)
Local Notation BS := (Binary.B2BSN 24 128).

Lemma ffin32_B x : ffin32 x <-> is_finite (BS x) = true.
Proof. unfold ffin32. rewrite Binary.is_finite_B2BSN. tauto. Qed.
Lemma FR32_B x : FR32 x = B2R (BS x).
Proof. unfold FR32. symmetry. apply Binary.B2R_B2BSN. Qed.

Lemma BS_add x y : BS (f32add x y) = Bplus mode_NE (BS x) (BS y).
Proof. apply Binary.B2BSN_BSN2B. Qed.
Lemma BS_sub x y : BS (f32sub x y) = Bminus mode_NE (BS x) (BS y).
Proof. apply Binary.B2BSN_BSN2B. Qed.
Lemma BS_mul x y : BS (f32mul x y) = Bmult mode_NE (BS x) (BS y).
Proof. apply Binary.B2BSN_BSN2B. Qed.
Lemma BS_div x y : BS (f32div x y) = Bdiv mode_NE (BS x) (BS y).
Proof. apply Binary.B2BSN_BSN2B. Qed.
Lemma BS_sqrt x : BS (f32sqrt x) = Bsqrt mode_NE (BS x).
Proof. apply Binary.B2BSN_BSN2B. Qed.

Lemma fmt32_FR32 x : fmt32 (FR32 x).
Proof. unfold fmt32. rewrite FR32_B. apply (generic_format_B2R 24 128). Qed.

Lemma f32add_finite x y : ffin32 (f32add x y) ->
  ffin32 x /\ ffin32 y /\ FR32 (f32add x y) = rnd32 (FR32 x + FR32 y).
Proof.
  rewrite !ffin32_B, !FR32_B. rewrite BS_add. intros H.
  assert (Hx : is_finite (BS x) = true).
  { destruct (BS x) as [sx|sx| |sx mx ex Bx], (BS y) as [sy|sy| |sy my ey By];
      try reflexivity; simpl in H; try discriminate H; destruct (Bool.eqb sx sy); discriminate H. }
  assert (Hy : is_finite (BS y) = true).
  { destruct (BS x) as [sx|sx| |sx mx ex Bx], (BS y) as [sy|sy| |sy my ey By];
      try reflexivity; simpl in H; try discriminate H; try discriminate Hx. }
  split; [exact Hx|]. split; [exact Hy|].
  generalize (Bplus_correct 24 128 Hprec32 Hmax32 mode_NE _ _ Hx Hy).
  destruct Rlt_bool.
  - intros (E & _). exact E.
  - intros (E & _). rewrite <- is_finite_SF_B2SF, E in H. discriminate H.
Qed.

Lemma f32sub_finite x y : ffin32 (f32sub x y) ->
  ffin32 x /\ ffin32 y /\ FR32 (f32sub x y) = rnd32 (FR32 x - FR32 y).
Proof.
  rewrite !ffin32_B, !FR32_B. rewrite BS_sub. intros H.
  assert (Hx : is_finite (BS x) = true).
  { destruct (BS x) as [sx|sx| |sx mx ex Bx], (BS y) as [sy|sy| |sy my ey By];
      try reflexivity; simpl in H; try discriminate H; destruct (Bool.eqb sx (negb sy)); discriminate H. }
  assert (Hy : is_finite (BS y) = true).
  { destruct (BS x) as [sx|sx| |sx mx ex Bx], (BS y) as [sy|sy| |sy my ey By];
      try reflexivity; simpl in H; try discriminate H; try discriminate Hx. }
  split; [exact Hx|]. split; [exact Hy|].
  generalize (Bminus_correct 24 128 Hprec32 Hmax32 mode_NE _ _ Hx Hy).
  destruct Rlt_bool.
  - intros (E & _). exact E.
  - intros (E & _). rewrite <- is_finite_SF_B2SF, E in H. discriminate H.
Qed.

Lemma f32mul_finite x y : ffin32 (f32mul x y) ->
  ffin32 x /\ ffin32 y /\ FR32 (f32mul x y) = rnd32 (FR32 x * FR32 y).
Proof.
  rewrite !ffin32_B, !FR32_B. rewrite BS_mul. intros H.
  generalize (Bmult_correct 24 128 Hprec32 Hmax32 mode_NE (BS x) (BS y)).
  destruct Rlt_bool.
  - intros (E & F & _). rewrite H in F. symmetry in F. apply andb_prop in F. tauto.
  - intros E. rewrite <- is_finite_SF_B2SF, E in H. discriminate H.
Qed.

Lemma f32abs_finite x : ffin32 (f32abs x) <-> ffin32 x.
Proof. unfold ffin32, f32abs, Bits.b32_abs. rewrite Binary.is_finite_Babs. tauto. Qed.
Lemma f32abs_exact x : FR32 (f32abs x) = Rabs (FR32 x).
Proof. unfold FR32, f32abs, Bits.b32_abs. apply Binary.B2R_Babs. Qed.

Lemma f32sqrt_finite x : ffin32 (f32sqrt x) -> ffin32 x /\ FR32 (f32sqrt x) = rnd32 (R_sqrt.sqrt (FR32 x)).
Proof.
  rewrite !ffin32_B, !FR32_B. rewrite BS_sqrt. intros H.
  destruct (Bsqrt_correct 24 128 Hprec32 Hmax32 mode_NE (BS x)) as (E & F & _).
  split; [|exact E]. rewrite H in F. destruct (BS x) as [sx|sx| |[|] mx ex Bx]; try reflexivity; discriminate F.
Qed.

Lemma f32zero_eq : f32zero = Binary.B754_zero 24 128 false.
Proof. vm_compute. reflexivity. Qed.
Lemma FR32_zero : FR32 f32zero = 0.
Proof. rewrite f32zero_eq. reflexivity. Qed.
Lemma ffin32_zero : ffin32 f32zero.
Proof. unfold ffin32. rewrite f32zero_eq. reflexivity. Qed.

(* ---- the rounding operator ---- *)
Lemma u32_pos : 0 < u32. Proof. apply bpow_gt_0. Qed.
Lemma eta32_pos : 0 < eta32. Proof. apply bpow_gt_0. Qed.
Lemma u32_val : u32 = / 2 * bpow radix2 (- 24 + 1).
Proof. unfold u32. change (-24+1)%Z with (-23)%Z.
  replace (/ 2) with (bpow radix2 (-1)) by (simpl; unfold Z.pow_pos; simpl; lra).
  rewrite <- bpow_plus. reflexivity. Qed.
Lemma eta32_val : eta32 = / 2 * bpow radix2 (-149).
Proof. unfold eta32. replace (/ 2) with (bpow radix2 (-1)) by (simpl; unfold Z.pow_pos; simpl; lra).
  rewrite <- bpow_plus. reflexivity. Qed.
Lemma u32_lt_1 : u32 < 1.
Proof. unfold u32. change 1 with (bpow radix2 0). apply bpow_lt. lia. Qed.

Lemma rnd32_0 : rnd32 0 = 0.
Proof. apply round_0. apply valid_rnd_N. Qed.
Lemma rnd32_le a b : a <= b -> rnd32 a <= rnd32 b.
Proof. apply round_le; [apply FLT_exp_valid; exact Hprec32 | apply valid_rnd_N]. Qed.
Lemma rnd32_id a : fmt32 a -> rnd32 a = a.
Proof. apply round_generic. apply valid_rnd_N. Qed.
Lemma rnd32_ge_0 a : 0 <= a -> 0 <= rnd32 a.
Proof. intros H. rewrite <- rnd32_0. apply rnd32_le. exact H. Qed.
Lemma fmt32_rnd32 a : fmt32 (rnd32 a).
Proof. apply generic_format_round; [apply FLT_exp_valid; exact Hprec32 | apply valid_rnd_N]. Qed.

(* sum / difference of two binary32 numbers: relative error u, also in the subnormal range *)
Lemma rnd32_add_err a b : fmt32 a -> fmt32 b -> Rabs (rnd32 (a + b) - (a + b)) <= u32 * Rabs (a + b).
Proof.
  intros Fa Fb.
  destruct (FLT_plus_error_N_ex radix2 (-149) 24 (fun x => negb (Z.even x)) a b Fa Fb) as (e & He & E).
  unfold rnd32. rewrite E.
  replace ((a + b) * (1 + e) - (a + b)) with ((a + b) * e) by ring.
  rewrite Rabs_mult, Rmult_comm. apply Rmult_le_compat_r; [apply Rabs_pos|].
  change (u_ro radix2 24) with (/ 2 * bpow radix2 (- 24 + 1)) in He. rewrite <- u32_val in He.
  eapply Rle_trans; [exact He|].
  pose proof u32_pos. apply (Rmult_le_reg_r (1 + u32)); [lra|].
  unfold Rdiv. rewrite Rmult_assoc, Rinv_l by lra. nra.
Qed.
Lemma fmt32_opp a : fmt32 a -> fmt32 (- a).
Proof. apply generic_format_opp. Qed.
Lemma rnd32_sub_err a b : fmt32 a -> fmt32 b -> Rabs (rnd32 (a - b) - (a - b)) <= u32 * Rabs (a - b).
Proof. intros Fa Fb. apply (rnd32_add_err a (- b) Fa (fmt32_opp b Fb)). Qed.

(* any real: relative error u plus absolute error eta (underflow) *)
Lemma rnd32_err a : Rabs (rnd32 a - a) <= u32 * Rabs a + eta32.
Proof.
  destruct (error_N_FLT radix2 (-149) 24 eq_refl (fun x => negb (Z.even x)) a) as (e & t & He & Ht & _ & E).
  unfold rnd32. rewrite E.
  assert (He' : Rabs e <= u32) by (rewrite u32_val; exact He).
  assert (Ht' : Rabs t <= eta32) by (rewrite eta32_val; exact Ht).
  replace (a * (1 + e) + t - a) with (a * e + t) by ring.
  eapply Rle_trans; [apply Rabs_triang|]. rewrite Rabs_mult.
  pose proof (Rabs_pos a). nra.
Qed.
(* normal range (|a| >= 2^-126): no absolute term *)
Lemma rnd32_err_normal a : bpow radix2 (-126) <= Rabs a -> Rabs (rnd32 a - a) <= u32 * Rabs a.
Proof.
  intros H. rewrite u32_val. apply (relative_error_N_FLT radix2 (-149) 24 eq_refl). exact H.
Qed.

(* ---------------- recursive summation ---------------- *)
Definition Eu32 (k : nat) : R := (1 + u32) ^ k - 1.
Lemma Eu32_0 : Eu32 0 = 0. Proof. unfold Eu32. simpl. lra. Qed.
Lemma Eu32_1 : Eu32 1 = u32. Proof. unfold Eu32. simpl. lra. Qed.
Lemma Eu32_S k : Eu32 (S k) = Eu32 k + u32 * (1 + Eu32 k).
Proof. unfold Eu32. simpl. ring. Qed.
Lemma Eu32_nonneg k : 0 <= Eu32 k.
Proof. induction k as [|k IH]; [rewrite Eu32_0; lra|]. rewrite Eu32_S. pose proof u32_pos. nra. Qed.
Lemma Eu32_le k m : (k <= m)%nat -> Eu32 k <= Eu32 m.
Proof.
  induction 1 as [|m H IH]; [lra|]. rewrite Eu32_S. pose proof u32_pos. pose proof (Eu32_nonneg m). nra.
Qed.

(* one step of a recursive summation, on real numbers (see Base/FloatError.v sum_step) *)
Lemma sum_step32 (k m : nat) (e c A a s t s' : R) :
  (k <= m)%nat -> 0 <= e -> 0 <= c -> 0 <= A -> 0 <= a ->
  Rabs (s - A) <= Eu32 m * (A + c * e) + c * e ->
  Rabs (t - a) <= Eu32 k * a + e ->
  Rabs (s' - (s + t)) <= u32 * Rabs (s + t) ->
  Rabs (s' - (A + a)) <= Eu32 (S m) * (A + a + (c + 1) * e) + (c + 1) * e.
Proof.
  intros Hkm He Hc HA Ha Hs Ht Hr.
  pose proof (Eu32_nonneg m) as Hm. pose proof (Eu32_nonneg k) as Hk. pose proof (Eu32_le k m Hkm) as Hkm'.
  pose proof u32_pos as Hu.
  set (B := A + a + (c + 1) * e).
  assert (HB : 0 <= B) by (unfold B; nra).
  assert (H1 : Rabs (s + t - (A + a)) <= Eu32 m * B + (c + 1) * e).
  { replace (s + t - (A + a)) with ((s - A) + (t - a)) by ring.
    eapply Rle_trans; [apply Rabs_triang|]. unfold B. nra. }
  assert (H2 : Rabs (s + t) <= (1 + Eu32 m) * B).
  { replace (s + t) with ((s + t - (A + a)) + (A + a)) by ring.
    eapply Rle_trans; [apply Rabs_triang|]. rewrite (Rabs_pos_eq (A + a)) by lra. unfold B in *. nra. }
  replace (s' - (A + a)) with ((s' - (s + t)) + (s + t - (A + a))) by ring.
  eapply Rle_trans; [apply Rabs_triang|]. rewrite Eu32_S. fold B. nra.
Qed.

Lemma fold_f32add_finite_acc l : forall acc, ffin32 (fold_left f32add l acc) -> ffin32 acc /\ Forall ffin32 l.
Proof.
  induction l as [|t l IH]; intros acc H; cbn [fold_left] in H.
  - split; [exact H | constructor].
  - destruct (IH _ H) as [H1 H2]. destruct (f32add_finite _ _ H1) as (Ha & Ht & _).
    split; [exact Ha | constructor; assumption].
Qed.

Lemma fold_f32add_nonneg l : forall acc, ffin32 (fold_left f32add l acc) ->
  Forall (fun t => 0 <= FR32 t) l -> 0 <= FR32 acc -> 0 <= FR32 (fold_left f32add l acc).
Proof.
  induction l as [|t l IH]; intros acc H Hl Hacc; cbn [fold_left] in *.
  - exact Hacc.
  - inversion Hl as [|? ? Ht Hl']; subst. apply IH; [exact H | exact Hl' |].
    destruct (fold_f32add_finite_acc _ _ H) as [H1 _]. destruct (f32add_finite _ _ H1) as (_ & _ & E).
    rewrite E. apply rnd32_ge_0. lra.
Qed.

Lemma fold_f32add_error_acc (k : nat) (e : R) : 0 <= e ->
  forall (l : list f32) (a : list R),
  Forall2 (fun t a => ffin32 t -> 0 <= a /\ Rabs (FR32 t - a) <= Eu32 k * a + e) l a ->
  forall (acc : f32) (A c : R) (m : nat), (k <= m)%nat -> 0 <= A -> 0 <= c ->
  ffin32 (fold_left f32add l acc) ->
  Rabs (FR32 acc - A) <= Eu32 m * (A + c * e) + c * e ->
  0 <= Rsuml a /\
  Rabs (FR32 (fold_left f32add l acc) - (A + Rsuml a)) <=
    Eu32 (m + length l) * (A + Rsuml a + (c + INR (length l)) * e) + (c + INR (length l)) * e.
Proof.
  intros He l a HF. induction HF as [|t a0 l a Hta HF IH]; intros acc A c m Hkm HA Hc Hfin Hacc.
  - cbn [fold_left length Rsuml fold_right INR]. rewrite Nat.add_0_r, !Rplus_0_r. split; [lra | exact Hacc].
  - cbn [fold_left] in Hfin |- *.
    destruct (fold_f32add_finite_acc _ _ Hfin) as [H1 _]. destruct (f32add_finite _ _ H1) as (Ha & Ht & E).
    destruct (Hta Ht) as [Ha0 Hterm].
    assert (Hstep : Rabs (FR32 (f32add acc t) - (A + a0)) <= Eu32 (S m) * (A + a0 + (c + 1) * e) + (c + 1) * e).
    { apply (sum_step32 k m e c A a0 (FR32 acc) (FR32 t)); try assumption.
      rewrite E. apply rnd32_add_err; apply fmt32_FR32. }
    destruct (IH (f32add acc t) (A + a0) (c + 1) (S m)) as [IH1 IH2]; try assumption; try lia; try lra.
    cbn [Rsuml fold_right length]. fold (Rsuml a). split; [lra|].
    replace (m + S (length l))%nat with (S m + length l)%nat by lia.
    rewrite S_INR.
    replace (A + (a0 + Rsuml a)) with (A + a0 + Rsuml a) by ring.
    replace (c + (INR (length l) + 1)) with (c + 1 + INR (length l)) by ring.
    exact IH2.
Qed.

Definition fsum32 (l : list f32) : f32 := fold_left f32add l f32zero.

Lemma f32add_0_l t : ffin32 (f32add f32zero t) -> FR32 (f32add f32zero t) = FR32 t.
Proof.
  intros H. destruct (f32add_finite _ _ H) as (_ & _ & E). rewrite E, FR32_zero, Rplus_0_l.
  apply rnd32_id, fmt32_FR32.
Qed.

(* terms known up to relative error Eu32 k and absolute error e: the computed sum of n terms has
   relative error Eu32 (k + n - 1) (the first addition 0 + t is exact) and absolute error n*e *)
Theorem fsum32_error_gen (k : nat) (e : R) : 0 <= e ->
  forall (l : list f32) (a : list R),
  Forall2 (fun t a => ffin32 t -> 0 <= a /\ Rabs (FR32 t - a) <= Eu32 k * a + e) l a ->
  ffin32 (fsum32 l) ->
  0 <= Rsuml a /\
  Rabs (FR32 (fsum32 l) - Rsuml a) <=
    Eu32 (k + length l - 1) * (Rsuml a + INR (length l) * e) + INR (length l) * e.
Proof.
  intros He l a HF Hfin. destruct HF as [|t a0 l a Hta HF].
  - unfold fsum32. cbn [fold_left Rsuml fold_right length INR]. rewrite FR32_zero.
    rewrite Rminus_0_r, Rabs_R0. pose proof (Eu32_nonneg (k + 0 - 1)). split; [lra | nra].
  - unfold fsum32 in *. cbn [fold_left] in *.
    destruct (fold_f32add_finite_acc _ _ Hfin) as [H1 _]. destruct (f32add_finite _ _ H1) as (_ & Ht & _).
    destruct (Hta Ht) as [Ha0 Hterm].
    destruct (fold_f32add_error_acc k e He l a HF (f32add f32zero t) a0 1 k) as [G1 G2];
      try assumption; try lia; try lra.
    { rewrite (f32add_0_l t H1). pose proof (Eu32_nonneg k). nra. }
    cbn [Rsuml fold_right length]. fold (Rsuml a). split; [lra|].
    replace (k + S (length l) - 1)%nat with (k + length l)%nat by lia.
    rewrite S_INR. replace (INR (length l) + 1) with (1 + INR (length l)) by ring.
    exact G2.
Qed.

(* the classical statement: recursive summation of non-negative binary32 numbers *)
Theorem fsum32_nonneg_error (l : list f32) :
  Forall (fun t => 0 <= FR32 t) l -> ffin32 (fsum32 l) ->
  0 <= FR32 (fsum32 l) /\
  Rabs (FR32 (fsum32 l) - Rsuml (map FR32 l)) <= Eu32 (length l - 1) * Rsuml (map FR32 l).
Proof.
  intros Hl Hfin. split.
  - apply fold_f32add_nonneg; [exact Hfin | exact Hl | rewrite FR32_zero; lra].
  - destruct (fsum32_error_gen 0 0 (Rle_refl 0) l (map FR32 l)) as [_ G].
    + clear Hfin. induction Hl as [|t l Ht Hl IH]; cbn [map]; constructor; [|exact IH].
      intros _. split; [exact Ht|]. rewrite Eu32_0. rewrite Rminus_diag_eq, Rabs_R0 by reflexivity. lra.
    + exact Hfin.
    + rewrite Rmult_0_r, !Rplus_0_r in G. exact G.
Qed.

(* ---------------- error of one operation, at the level of floats ---------------- *)
Theorem f32add_error x y : ffin32 (f32add x y) ->
  Rabs (FR32 (f32add x y) - (FR32 x + FR32 y)) <= u32 * Rabs (FR32 x + FR32 y).
Proof. intros H. destruct (f32add_finite _ _ H) as (_ & _ & E). rewrite E. apply rnd32_add_err; apply fmt32_FR32. Qed.
Theorem f32sub_error x y : ffin32 (f32sub x y) ->
  Rabs (FR32 (f32sub x y) - (FR32 x - FR32 y)) <= u32 * Rabs (FR32 x - FR32 y).
Proof. intros H. destruct (f32sub_finite _ _ H) as (_ & _ & E). rewrite E. apply rnd32_sub_err; apply fmt32_FR32. Qed.
Theorem f32mul_error x y : ffin32 (f32mul x y) ->
  Rabs (FR32 (f32mul x y) - FR32 x * FR32 y) <= u32 * Rabs (FR32 x * FR32 y) + eta32.
Proof. intros H. destruct (f32mul_finite _ _ H) as (_ & _ & E). rewrite E. apply rnd32_err. Qed.
Theorem f32mul_error_normal x y : ffin32 (f32mul x y) -> bpow radix2 (-126) <= Rabs (FR32 x * FR32 y) ->
  Rabs (FR32 (f32mul x y) - FR32 x * FR32 y) <= u32 * Rabs (FR32 x * FR32 y).
Proof. intros H N. destruct (f32mul_finite _ _ H) as (_ & _ & E). rewrite E. apply rnd32_err_normal, N. Qed.

(* a non-zero binary32 number is at least 2^-149 in magnitude *)
Lemma FR32_nonzero_ge x : FR32 x <> 0 -> bpow radix2 (-149) <= Rabs (FR32 x).
Proof.
  rewrite FR32_B. intros H. apply (abs_B2R_ge_emin 24 128).
  destruct (BS x); try reflexivity; exfalso; apply H; reflexivity.
Qed.

Lemma f32sqrt_finite_nonneg x : ffin32 (f32sqrt x) -> 0 <= FR32 x.
Proof.
  rewrite ffin32_B, FR32_B. rewrite BS_sqrt. intros H.
  destruct (Bsqrt_correct 24 128 Hprec32 Hmax32 mode_NE (BS x)) as (_ & F & _).
  rewrite H in F. destruct (BS x) as [sx|sx| |[|] mx ex Bx]; try discriminate F; try (simpl; lra).
  simpl. apply F2R_ge_0. simpl. lia.
Qed.

(* the square root never under- or overflows: one rounding, relative error u *)
Theorem f32sqrt_error x : ffin32 (f32sqrt x) ->
  0 <= FR32 x /\ Rabs (FR32 (f32sqrt x) - R_sqrt.sqrt (FR32 x)) <= u32 * R_sqrt.sqrt (FR32 x).
Proof.
  intros H. pose proof (f32sqrt_finite_nonneg x H) as Hx. split; [exact Hx|].
  destruct (f32sqrt_finite x H) as (_ & E). rewrite E.
  destruct (Req_dec (FR32 x) 0) as [Z|NZ].
  - rewrite Z, sqrt_0, rnd32_0, Rminus_0_r, Rabs_R0. lra.
  - pose proof (rnd32_err_normal (R_sqrt.sqrt (FR32 x))) as G0.
    rewrite Rabs_pos_eq in G0 by apply sqrt_pos. apply G0.
    apply Rle_trans with (bpow radix2 (-75)); [apply bpow_le; lia|].
    rewrite <- (sqrt_bpow radix2 (-75)). apply sqrt_le_1_alt.
    pose proof (FR32_nonzero_ge x NZ) as G. rewrite Rabs_pos_eq in G by exact Hx.
    apply Rle_trans with (bpow radix2 (-149)); [apply bpow_le; lia | exact G].
Qed.

(* ---------------- small integers and quotients ---------------- *)
Lemma rnd32_lt_emax a : Rabs a <= 1 -> Rlt_bool (Rabs (rnd32 a)) (bpow radix2 128) = true.
Proof.
  intros H. apply Rlt_bool_true. apply Rle_lt_trans with 1.
  - assert (F1 : fmt32 1).
    { apply generic_format_FLT. exists (Float radix2 1 0); [unfold F2R; simpl; lra | simpl; lia | simpl; lia]. }
    apply Rabs_le. apply Rabs_le_inv in H. split.
    + rewrite <- (rnd32_id (Ropp 1)) by (apply fmt32_opp, F1). apply rnd32_le. lra.
    + rewrite <- (rnd32_id 1) by exact F1. apply rnd32_le. lra.
  - change 1 with (bpow radix2 0). apply bpow_lt. lia.
Qed.

(* integers below 2^24 are binary32 numbers, and f32_of_Z converts them exactly *)
Lemma fmt32_IZR z : (Z.abs z < 2 ^ 24)%Z -> fmt32 (IZR z).
Proof.
  intros H. apply generic_format_FLT. exists (Float radix2 z 0).
  - unfold F2R. simpl. lra.
  - exact H.
  - simpl. lia.
Qed.

Lemma f32_of_Z_exact z : (0 <= z < 2 ^ 24)%Z -> ffin32 (f32_of_Z z) /\ FR32 (f32_of_Z z) = IZR z.
Proof.
  intros Hz. unfold f32_of_Z, ffin32, FR32.
  generalize (Binary.binary_normalize_correct 24 128 eq_refl eq_refl mode_NE z 0 false).
  assert (E : F2R (Float radix2 z 0) = IZR z) by (unfold F2R; simpl; lra).
  rewrite E.
  assert (R1 : round radix2 (SpecFloat.fexp 24 128) (round_mode mode_NE) (IZR z) = IZR z).
  { apply (rnd32_id (IZR z)). apply fmt32_IZR. lia. }
  rewrite R1. rewrite Rlt_bool_true.
  - intros (P & Q & _). split; [exact Q | exact P].
  - rewrite <- abs_IZR. change (bpow radix2 128) with (IZR (2 ^ 128)). apply IZR_lt.
    apply Z.lt_trans with (2 ^ 24)%Z; [lia|]. apply Z.pow_lt_mono_r; lia.
Qed.

(* a quotient of magnitude <= 1: the division cannot overflow *)
Lemma f32div_small x y : ffin32 x -> ffin32 y -> FR32 y <> 0 -> Rabs (FR32 x / FR32 y) <= 1 ->
  ffin32 (f32div x y) /\ FR32 (f32div x y) = rnd32 (FR32 x / FR32 y).
Proof.
  rewrite !ffin32_B, !FR32_B. intros Hx Hy Hnz Hq. rewrite BS_div.
  generalize (Bdiv_correct 24 128 Hprec32 Hmax32 mode_NE (BS x) (BS y) Hnz).
  pose proof (rnd32_lt_emax _ Hq) as Hb. unfold rnd32 in Hb.
  assert (Hb' : Rlt_bool (Rabs (round radix2 (SpecFloat.fexp 24 128) (round_mode mode_NE)
                                    (B2R (BS x) / B2R (BS y)))) (bpow radix2 128) = true) by exact Hb.
  rewrite Hb'. intros (P & Q & _). split; [rewrite Q; exact Hx | exact P].
Qed.

(* the constants in elementary terms *)
Lemma u32_eq : u32 = / 2 ^ 24.
Proof.
  unfold u32. change (-24)%Z with (- (24))%Z. rewrite bpow_opp. f_equal.
  change (bpow radix2 24) with (IZR (2 ^ Z.of_nat 24)). rewrite <- pow_IZR. reflexivity.
Qed.
Lemma eta32_eq : eta32 = / 2 ^ 150.
Proof.
  unfold eta32. change (-150)%Z with (- (150))%Z. rewrite bpow_opp. f_equal.
  change (bpow radix2 150) with (IZR (2 ^ Z.of_nat 150)). rewrite <- pow_IZR. reflexivity.
Qed.
