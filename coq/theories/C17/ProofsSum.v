(* C17 — finite sums: the folds of the model are sums over the index range. *)
From Coq Require Import List Arith Reals Lra Lia.
From SC Require Import C17.Spec.
Import ListNotations.
Local Open Scope R_scope.

Lemma fold_left_Rsum {A} (f : A -> R) (l : list A) (a : R) :
  fold_left (fun s x => s + f x) l a = a + Rsum (map f l).
Proof.
  revert a. induction l as [|h t IH]; intros a; cbn [fold_left map Rsum fold_right].
  - lra.
  - rewrite IH. unfold Rsum. lra.
Qed.

Lemma sigma_0 f : sigma 0 f = 0.
Proof. reflexivity. Qed.
Lemma sigma_S_head n f : sigma (S n) f = f 0%nat + sigma n (fun i => f (S i)).
Proof.
  unfold sigma. cbn [seq map Rsum fold_right]. rewrite <- seq_shift, map_map. reflexivity.
Qed.
Lemma sigma_S_last n f : sigma (S n) f = sigma n f + f n.
Proof.
  unfold sigma. rewrite seq_S, map_app. cbn [map Nat.add]. unfold Rsum.
  rewrite fold_right_app. cbn [fold_right].
  generalize (map f (seq 0 n)) as l. induction l as [|h t IH]; cbn [fold_right]; lra.
Qed.

Lemma sigma_ext n f g : (forall i, (i < n)%nat -> f i = g i) -> sigma n f = sigma n g.
Proof.
  induction n as [|n IH]; intros H; [reflexivity|].
  rewrite !sigma_S_last, IH, (H n) by auto with arith. reflexivity.
Qed.
Lemma sigma_le n f g : (forall i, (i < n)%nat -> f i <= g i) -> sigma n f <= sigma n g.
Proof.
  induction n as [|n IH]; intros H; [unfold sigma; cbn; lra|].
  rewrite !sigma_S_last. specialize (H n (Nat.lt_succ_diag_r n)) as Hn.
  assert (sigma n f <= sigma n g) by (apply IH; auto with arith). lra.
Qed.
Lemma sigma_nonneg n f : (forall i, (i < n)%nat -> 0 <= f i) -> 0 <= sigma n f.
Proof.
  intros H. induction n as [|n IH]; [unfold sigma; cbn; lra|].
  rewrite sigma_S_last. specialize (H n (Nat.lt_succ_diag_r n)) as Hn.
  assert (0 <= sigma n f) by (apply IH; auto with arith). lra.
Qed.
Lemma sigma_plus n f g : sigma n (fun i => f i + g i) = sigma n f + sigma n g.
Proof. induction n as [|n IH]; [unfold sigma; cbn; lra|]. rewrite !sigma_S_last, IH. lra. Qed.
Lemma sigma_scal n c f : sigma n (fun i => c * f i) = c * sigma n f.
Proof. induction n as [|n IH]; [unfold sigma; cbn; lra|]. rewrite !sigma_S_last, IH. lra. Qed.
Lemma sigma_zero n : sigma n (fun _ => 0) = 0.
Proof. induction n as [|n IH]; [reflexivity|]. rewrite sigma_S_last, IH. lra. Qed.
Lemma sigma_term_le n f i : (forall k, (k < n)%nat -> 0 <= f k) -> (i < n)%nat -> f i <= sigma n f.
Proof.
  intros Hpos. induction n as [|n IH]; intros Hi; [lia|].
  rewrite sigma_S_last.
  assert (0 <= sigma n f) by (apply sigma_nonneg; auto with arith).
  destruct (Nat.eq_dec i n) as [->|Hne].
  - lra.
  - assert (f i <= sigma n f) by (apply IH; [auto with arith | lia]).
    specialize (Hpos n (Nat.lt_succ_diag_r n)). lra.
Qed.
Lemma sigma_swap n m (f : nat -> nat -> R) :
  sigma n (fun i => sigma m (fun j => f i j)) = sigma m (fun j => sigma n (fun i => f i j)).
Proof.
  induction n as [|n IH].
  - rewrite sigma_0. symmetry. rewrite (sigma_ext m _ (fun _ => 0)); [apply sigma_zero | reflexivity].
  - rewrite sigma_S_last, IH, <- sigma_plus. apply sigma_ext. intros j _. rewrite sigma_S_last. reflexivity.
Qed.
(* Kronecker delta picks one term *)
Lemma sigma_delta n j (f : nat -> R) : (j < n)%nat ->
  sigma n (fun i => (if Nat.eqb i j then 1 else 0) * f i) = f j.
Proof.
  induction n as [|n IH]; intros Hj; [lia|].
  rewrite sigma_S_last. destruct (Nat.eq_dec j n) as [->|Hne].
  - rewrite Nat.eqb_refl.
    rewrite (sigma_ext n _ (fun _ => 0)).
    + rewrite sigma_zero. lra.
    + intros i Hi. destruct (Nat.eqb_spec i n); [lia | lra].
  - rewrite IH by lia. destruct (Nat.eqb_spec n j); [lia | lra].
Qed.

(* a sum over `combine x y` of equally long lists is a sum over the index range *)
Lemma Rsum_combine {A} (dflt : A) (f : A * A -> R) : forall x y : list A, length x = length y ->
  Rsum (map f (combine x y)) = sigma (length x) (fun i => f (nth i x dflt, nth i y dflt)).
Proof.
  induction x as [|a x IH]; intros [|b y] Hlen; try discriminate; [reflexivity|].
  cbn [combine map length]. rewrite sigma_S_head. cbn [nth Rsum fold_right].
  rewrite <- IH by (cbn in Hlen; lia). reflexivity.
Qed.
