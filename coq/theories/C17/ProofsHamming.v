(* C17 — Hamming distance (fraction of differing positions): closed form and metric laws. *)
From Coq Require Import List Arith ZArith Bool Reals Lra Lia.
From SC Require Import Base.Num C17.Model C17.Spec C17.ProofsDist.
Import ListNotations.
Local Open Scope R_scope.

Section Hamming.
  Context {A : Type} (neqb : A -> A -> bool).

  Lemma hamming_count_acc (l : list (A * A)) (a : Z) :
    fold_left (fun dist ab => if neqb (fst ab) (snd ab) then (dist + 1)%Z else dist) l a
    = (a + fold_left (fun dist ab => if neqb (fst ab) (snd ab) then (dist + 1)%Z else dist) l 0%Z)%Z.
  Proof.
    revert a. induction l as [|h t IH]; intros a; cbn [fold_left]; [lia|].
    rewrite IH. rewrite (IH (if neqb (fst h) (snd h) then (0 + 1)%Z else 0%Z)).
    destruct (neqb (fst h) (snd h)); lia.
  Qed.

  Lemma hamming_count_spec x y : hamming_count neqb x y = Z.of_nat (diff_count neqb x y).
  Proof.
    unfold hamming_count. revert y. induction x as [|a x IH]; intros [|b y]; try reflexivity.
    cbn [combine fold_left diff_count fst snd]. rewrite hamming_count_acc, IH.
    destruct (neqb a b); lia.
  Qed.

  Lemma hamming_some x y d :
    hamming ROps neqb x y = Some d <->
    length x = length y /\ d = INR (diff_count neqb x y) / INR (length x).
  Proof.
    unfold hamming. destruct (same_len x y) eqn:E.
    - apply same_len_true in E. cbn [ROps odiv oofZ]. rewrite hamming_count_spec, <- !INR_IZR_INZ.
      split; [intros [= <-]; auto | intros [_ ->]; reflexivity].
    - apply same_len_false in E. split; [discriminate | tauto].
  Qed.
  Lemma hamming_none x y : hamming ROps neqb x y = None <-> length x <> length y.
  Proof.
    unfold hamming. destruct (same_len x y) eqn:E.
    - apply same_len_true in E. split; [discriminate | tauto].
    - apply same_len_false in E. tauto.
  Qed.

  Lemma diff_count_le_length x y : (diff_count neqb x y <= length x)%nat.
  Proof.
    revert y. induction x as [|a x IH]; intros [|b y]; cbn [diff_count length]; try lia.
    specialize (IH y). destruct (neqb a b); lia.
  Qed.

  (* `neqb` really is the negation of equality *)
  Hypothesis neqb_spec : forall a b, neqb a b = false <-> a = b.

  Lemma neqb_refl a : neqb a a = false.
  Proof. apply neqb_spec. reflexivity. Qed.
  Lemma neqb_sym a b : neqb a b = neqb b a.
  Proof.
    destruct (neqb a b) eqn:E1; destruct (neqb b a) eqn:E2; try reflexivity.
    - apply neqb_spec in E2. subst. rewrite neqb_refl in E1. discriminate.
    - apply neqb_spec in E1. subst. rewrite neqb_refl in E2. discriminate.
  Qed.
  Lemma neqb_triangle a b c : neqb a c = true -> neqb a b = true \/ neqb b c = true.
  Proof.
    intros H. destruct (neqb a b) eqn:E1; [auto|]. destruct (neqb b c) eqn:E2; [auto|].
    apply neqb_spec in E1, E2. subst. rewrite neqb_refl in H. discriminate.
  Qed.

  Lemma diff_count_sym x y : diff_count neqb x y = diff_count neqb y x.
  Proof.
    revert y. induction x as [|a x IH]; intros [|b y]; try reflexivity.
    cbn [diff_count]. rewrite IH, neqb_sym. reflexivity.
  Qed.
  Lemma diff_count_refl x : diff_count neqb x x = 0%nat.
  Proof. induction x as [|a x IH]; [reflexivity|]. cbn [diff_count]. rewrite IH, neqb_refl. reflexivity. Qed.
  Lemma diff_count_triangle x y z : length x = length y -> length y = length z ->
    (diff_count neqb x z <= diff_count neqb x y + diff_count neqb y z)%nat.
  Proof.
    revert y z. induction x as [|a x IH]; intros [|b y] [|c z] H1 H2; try discriminate; cbn [diff_count]; try lia.
    specialize (IH y z ltac:(cbn in H1; lia) ltac:(cbn in H2; lia)).
    destruct (neqb a c) eqn:E; [|lia].
    destruct (neqb_triangle a b c E) as [-> | ->]; destruct (neqb a b), (neqb b c); lia.
  Qed.
  (* definiteness: distance zero only between equal lists *)
  Lemma diff_count_zero x y : length x = length y -> diff_count neqb x y = 0%nat -> x = y.
  Proof.
    revert y. induction x as [|a x IH]; intros [|b y] H1 H2; try discriminate; [reflexivity|].
    cbn [diff_count] in H2. destruct (neqb a b) eqn:E; [discriminate|].
    apply neqb_spec in E. subst. f_equal. apply IH; [cbn in H1; lia | exact H2].
  Qed.

  Lemma hamming_metric : metric_laws (hamming ROps neqb).
  Proof.
    intros x y z dxy dyz dxz Hxy Hyz Hxz.
    apply hamming_some in Hxy as [Lxy ->]. apply hamming_some in Hyz as [Lyz ->].
    apply hamming_some in Hxz as [Lxz ->].
    destruct (Nat.eq_dec (length x) 0) as [Hn|Hn].
    - (* empty vectors: every count is zero *)
      destruct x; [|discriminate]. destruct y; [|discriminate]. destruct z; [|discriminate].
      cbn [diff_count length INR]. unfold Rdiv. rewrite !Rmult_0_l.
      repeat split; try lra; apply hamming_some; cbn [diff_count length INR]; unfold Rdiv;
        rewrite ?Rmult_0_l; auto.
    - assert (Hpos : 0 < INR (length x)) by (apply lt_0_INR; lia).
      assert (Hinv : 0 < / INR (length x)) by (apply Rinv_0_lt_compat; exact Hpos).
      repeat split.
      + unfold Rdiv. apply Rmult_le_pos; [apply pos_INR | lra].
      + apply hamming_some. split; [auto|]. rewrite diff_count_sym, Lxy. reflexivity.
      + apply hamming_some. split; [auto|]. rewrite diff_count_refl. cbn [INR]. unfold Rdiv. lra.
      + rewrite <- Lxy. unfold Rdiv. rewrite <- Rmult_plus_distr_r.
        apply Rmult_le_compat_r; [lra|]. rewrite <- plus_INR. apply le_INR.
        apply diff_count_triangle; assumption.
  Qed.

  Lemma hamming_zero_iff_equal x y : (0 < length x)%nat ->
    hamming ROps neqb x y = Some 0 -> x = y.
  Proof.
    intros Hn H. apply hamming_some in H as [L H].
    apply diff_count_zero; [exact L|].
    assert (Hpos : 0 < INR (length x)) by (apply lt_0_INR; exact Hn).
    assert (E : INR (diff_count neqb x y) = 0).
    { apply Rmult_eq_reg_r with (/ INR (length x)).
      - unfold Rdiv in H. lra.
      - apply Rinv_neq_0_compat. lra. }
    apply INR_eq. exact E.
  Qed.
End Hamming.
