(* C17 — Minkowski distance of integer order p >= 1: powf on the reals is the integer power / the
   p-th root, closed form, orders 1 and 2, and Minkowski's inequality (via convexity of t^p, no
   Hoelder needed) hence the metric laws for every p >= 1. *)
From Coq Require Import List Arith ZArith Bool Reals Lra Lia Psatz.
From SC Require Import Base.Num C17.Model C17.Spec C17.ProofsSum C17.ProofsDist.
Import ListNotations.
Local Open Scope R_scope.

(* ---------- powf over the reals ---------- *)
Lemma opowf_R_zero y : opowf ROps 0 y = 0.
Proof. unfold opowf. cbn [ROps oeqb o0]. unfold Reqb. destruct (Req_EM_T 0 0); [reflexivity | congruence]. Qed.

Lemma opowf_R_pos x y : 0 < x -> opowf ROps x y = Rpower x y.
Proof.
  intros Hx. unfold opowf. cbn [ROps oeqb o0 oexp omul oln]. unfold Reqb.
  destruct (Req_EM_T x 0); [lra | reflexivity].
Qed.

Lemma opowf_R_pow x p : 0 <= x -> (1 <= p)%nat -> opowf ROps x (IZR (Z.of_nat p)) = x ^ p.
Proof.
  intros Hx Hp. destruct (Req_dec x 0) as [->|Hne].
  - rewrite opowf_R_zero, pow_i by lia. reflexivity.
  - rewrite opowf_R_pos by lra. rewrite <- INR_IZR_INZ. apply Rpower_pow. lra.
Qed.

Lemma opowf_R_root s p : 0 <= s -> (1 <= p)%nat ->
  0 <= opowf ROps s (1 / IZR (Z.of_nat p)) /\ (opowf ROps s (1 / IZR (Z.of_nat p))) ^ p = s.
Proof.
  intros Hs Hp. destruct (Req_dec s 0) as [->|Hne].
  - rewrite opowf_R_zero, pow_i by lia. lra.
  - assert (Hpos : 0 < s) by lra. rewrite opowf_R_pos by exact Hpos.
    assert (Hr : 0 < Rpower s (1 / IZR (Z.of_nat p))) by (unfold Rpower; apply exp_pos).
    split; [lra|].
    rewrite <- Rpower_pow by exact Hr. rewrite Rpower_mult, <- INR_IZR_INZ.
    replace (1 / INR p * INR p) with 1.
    + apply Rpower_1. exact Hpos.
    + field. apply not_0_INR. lia.
Qed.

(* ---------- monotonicity / uniqueness of the p-th root ---------- *)
Lemma pow_lt_strict a b p : 0 <= a -> a < b -> (1 <= p)%nat -> a ^ p < b ^ p.
Proof.
  intros Ha Hab Hp. induction p as [|p IH]; [lia|].
  destruct p as [|p].
  - rewrite !pow_1. exact Hab.
  - assert (H1 : (1 <= S p)%nat) by lia. specialize (IH H1).
    assert (0 <= a ^ S p) by (apply pow_le; exact Ha).
    change (a ^ S (S p)) with (a * a ^ S p). change (b ^ S (S p)) with (b * b ^ S p). nra.
Qed.
Lemma pow_le_inv a b p : 0 <= a -> 0 <= b -> (1 <= p)%nat -> a ^ p <= b ^ p -> a <= b.
Proof.
  intros Ha Hb Hp H. destruct (Rle_lt_dec a b) as [Hle|Hlt]; [exact Hle|].
  exfalso. pose proof (pow_lt_strict b a p Hb Hlt Hp). lra.
Qed.
Lemma pow_root_unique a b p : 0 <= a -> 0 <= b -> (1 <= p)%nat -> a ^ p = b ^ p -> a = b.
Proof. intros Ha Hb Hp H. apply Rle_antisym; apply (pow_le_inv _ _ p); auto; lra. Qed.
Lemma pow_zero_inv a p : a ^ p = 0 -> a = 0.
Proof. intros H. destruct (Req_dec a 0) as [E|E]; [exact E|]. exfalso. exact (pow_nonzero a p E H). Qed.

(* ---------- convexity of t^p on [0, inf) ---------- *)
Lemma pow_diff_sign s t p : 0 <= s -> 0 <= t -> 0 <= (s - t) * (s ^ p - t ^ p).
Proof.
  intros Hs Ht. destruct (Rle_lt_dec s t) as [H|H].
  - assert (s ^ p <= t ^ p) by (apply pow_incr; lra). nra.
  - assert (t ^ p <= s ^ p) by (apply pow_incr; lra). nra.
Qed.
Lemma pow_convex p l s t : 0 <= s -> 0 <= t -> 0 <= l <= 1 ->
  (l * s + (1 - l) * t) ^ p <= l * s ^ p + (1 - l) * t ^ p.
Proof.
  intros Hs Ht Hl. induction p as [|p IH].
  - cbn [pow]. lra.
  - assert (Hm : 0 <= l * s + (1 - l) * t) by nra.
    rewrite <- !tech_pow_Rmult.
    apply Rle_trans with ((l * s + (1 - l) * t) * (l * s ^ p + (1 - l) * t ^ p)).
    + apply Rmult_le_compat_l; assumption.
    + pose proof (pow_diff_sign s t p Hs Ht) as D.
      assert (E : l * (s * s ^ p) + (1 - l) * (t * t ^ p)
                  - (l * s + (1 - l) * t) * (l * s ^ p + (1 - l) * t ^ p)
                  = l * (1 - l) * ((s - t) * (s ^ p - t ^ p))) by ring.
      assert (0 <= l * (1 - l) * ((s - t) * (s ^ p - t ^ p)))
        by (apply Rmult_le_pos; [apply Rmult_le_pos; lra | exact D]).
      lra.
Qed.

(* ---------- Minkowski's inequality for index sums ---------- *)
Lemma minkowski_ineq_pos p n (a b : nat -> R) A B :
  (forall i, 0 <= a i) -> (forall i, 0 <= b i) -> 0 < A -> 0 < B ->
  A ^ p = sigma n (fun i => a i ^ p) -> B ^ p = sigma n (fun i => b i ^ p) ->
  sigma n (fun i => (a i + b i) ^ p) <= (A + B) ^ p.
Proof.
  intros Ha Hb HA HB EA EB.
  set (l := A / (A + B)).
  assert (HAB : 0 < A + B) by lra.
  assert (Hl : 0 <= l <= 1).
  { unfold l. split.
    - apply Rmult_le_pos; [lra|]. apply Rlt_le, Rinv_0_lt_compat. exact HAB.
    - apply Rmult_le_reg_r with (A + B); [exact HAB|]. unfold Rdiv. rewrite Rmult_assoc, Rinv_l; lra. }
  assert (H1l : 1 - l = B / (A + B)) by (unfold l; field; lra).
  (* termwise *)
  assert (T : forall i, (a i + b i) ^ p
                        <= (A + B) ^ p * (l * (a i ^ p * (/ A) ^ p) + (1 - l) * (b i ^ p * (/ B) ^ p))).
  { intros i.
    replace (a i + b i) with ((A + B) * (l * (a i * / A) + (1 - l) * (b i * / B))).
    - rewrite Rpow_mult_distr. apply Rmult_le_compat_l; [apply pow_le; lra|].
      rewrite <- !Rpow_mult_distr. apply pow_convex; [| | exact Hl].
      + apply Rmult_le_pos; [apply Ha | apply Rlt_le, Rinv_0_lt_compat; exact HA].
      + apply Rmult_le_pos; [apply Hb | apply Rlt_le, Rinv_0_lt_compat; exact HB].
    - rewrite H1l. unfold l. field. lra. }
  apply Rle_trans with
      (sigma n (fun i => (A + B) ^ p * (l * (a i ^ p * (/ A) ^ p) + (1 - l) * (b i ^ p * (/ B) ^ p)))).
  - apply sigma_le. intros i _. apply T.
  - rewrite sigma_scal, sigma_plus, !sigma_scal.
    rewrite (sigma_ext n (fun i => a i ^ p * (/ A) ^ p) (fun i => (/ A) ^ p * a i ^ p)) by (intros; ring).
    rewrite (sigma_ext n (fun i => b i ^ p * (/ B) ^ p) (fun i => (/ B) ^ p * b i ^ p)) by (intros; ring).
    rewrite !sigma_scal, <- EA, <- EB, <- !Rpow_mult_distr.
    rewrite !Rinv_l by lra. rewrite pow1. lra.
Qed.

Lemma sigma_pow_zero p n (a : nat -> R) : (forall i, 0 <= a i) ->
  0 = sigma n (fun i => a i ^ p) -> forall i, (i < n)%nat -> a i = 0.
Proof.
  intros Ha E i Hi. apply (pow_zero_inv _ p).
  assert (a i ^ p <= sigma n (fun k => a k ^ p)).
  { apply sigma_term_le with (f := fun k => a k ^ p); [|exact Hi]. intros k _. apply pow_le. apply Ha. }
  assert (0 <= a i ^ p) by (apply pow_le; apply Ha). lra.
Qed.

Lemma minkowski_ineq p n (a b : nat -> R) A B : (1 <= p)%nat ->
  (forall i, 0 <= a i) -> (forall i, 0 <= b i) -> 0 <= A -> 0 <= B ->
  A ^ p = sigma n (fun i => a i ^ p) -> B ^ p = sigma n (fun i => b i ^ p) ->
  sigma n (fun i => (a i + b i) ^ p) <= (A + B) ^ p.
Proof.
  intros Hp Ha Hb HA HB EA EB.
  destruct (Req_dec A 0) as [A0|A0].
  - subst A. rewrite pow_i in EA by lia.
    rewrite (sigma_ext n _ (fun i => b i ^ p)).
    + rewrite <- EB, Rplus_0_l. lra.
    + intros i Hi. rewrite (sigma_pow_zero p n a Ha EA i Hi), Rplus_0_l. reflexivity.
  - destruct (Req_dec B 0) as [B0|B0].
    + subst B. rewrite pow_i in EB by lia.
      rewrite (sigma_ext n _ (fun i => a i ^ p)).
      * rewrite <- EA, Rplus_0_r. lra.
      * intros i Hi. rewrite (sigma_pow_zero p n b Hb EB i Hi), Rplus_0_r. reflexivity.
    + apply minkowski_ineq_pos; auto; lra.
Qed.

(* ---------- the model ---------- *)
Lemma minkowski_loop_R p x y : (1 <= p)%nat -> length x = length y ->
  minkowski_loop ROps (IZR (Z.of_nat p)) x y
  = sigma (length x) (fun i => Rabs (comp x i - comp y i) ^ p).
Proof.
  intros Hp H. unfold minkowski_loop. cbn [ROps oadd osub oabs o0].
  rewrite (fold_left_Rsum (fun ab : R * R => opowf ROps (Rabs (fst ab - snd ab)) (IZR (Z.of_nat p)))).
  rewrite (Rsum_combine 0) by exact H. rewrite Rplus_0_l.
  apply sigma_ext. intros i _. cbn [fst snd]. apply opowf_R_pow; [apply Rabs_pos | exact Hp].
Qed.

Definition mink_sum (p : nat) (x y : list R) : R :=
  sigma (length x) (fun i => Rabs (comp x i - comp y i) ^ p).

Lemma mink_sum_nonneg p x y : 0 <= mink_sum p x y.
Proof. apply sigma_nonneg. intros i _. apply pow_le, Rabs_pos. Qed.

Lemma minkowski_some p x y d :
  minkowski ROps p x y = Some d <->
  length x = length y /\ (1 <= p)%nat /\ d = opowf ROps (mink_sum p x y) (1 / IZR (Z.of_nat p)).
Proof.
  unfold minkowski. destruct (same_len x y) eqn:E.
  - apply same_len_true in E. destruct (Nat.ltb_spec p 1) as [Hp|Hp].
    + split; [discriminate | intros (_ & H & _); lia].
    + cbn [ROps oofZ odiv o1]. rewrite minkowski_loop_R by assumption. fold (mink_sum p x y).
      split; [intros [= <-]; auto | intros (_ & _ & ->); reflexivity].
  - apply same_len_false in E. split; [discriminate | tauto].
Qed.
Lemma minkowski_none p x y : minkowski ROps p x y = None <-> (length x <> length y \/ p = 0%nat).
Proof.
  unfold minkowski. destruct (same_len x y) eqn:E.
  - apply same_len_true in E. destruct (Nat.ltb_spec p 1) as [Hp|Hp].
    + split; [intros _; right; lia | reflexivity].
    + split; [discriminate | intros [H|H]; [tauto | lia]].
  - apply same_len_false in E. tauto.
Qed.

(* closed form: the value is the non-negative p-th root of sum |x_i - y_i|^p *)
Lemma minkowski_closed_form p x y d : minkowski ROps p x y = Some d ->
  0 <= d /\ d ^ p = sigma (length x) (fun i => Rabs (comp x i - comp y i) ^ p).
Proof.
  intros H. apply minkowski_some in H as (L & Hp & ->).
  apply opowf_R_root; [apply mink_sum_nonneg | exact Hp].
Qed.

Lemma minkowski_metric p : metric_laws (minkowski ROps p).
Proof.
  intros x y z dxy dyz dxz Hxy Hyz Hxz.
  pose proof (minkowski_closed_form _ _ _ _ Hxy) as [Pxy Exy].
  pose proof (minkowski_closed_form _ _ _ _ Hyz) as [Pyz Eyz].
  pose proof (minkowski_closed_form _ _ _ _ Hxz) as [Pxz Exz].
  apply minkowski_some in Hxy as (Lxy & Hp & Dxy). apply minkowski_some in Hyz as (Lyz & _ & Dyz).
  repeat split.
  - exact Pxy.
  - apply minkowski_some. repeat split; auto. rewrite Dxy. f_equal.
    unfold mink_sum. rewrite <- Lxy. apply sigma_ext. intros i _. rewrite Rabs_minus_sym. reflexivity.
  - apply minkowski_some. repeat split; auto.
    replace (mink_sum p x x) with 0; [symmetry; apply opowf_R_zero|].
    unfold mink_sum. symmetry. rewrite (sigma_ext _ _ (fun _ => 0)); [apply sigma_zero|].
    intros i _. rewrite Rminus_diag_eq by reflexivity. rewrite Rabs_R0. apply pow_i. lia.
  - apply (pow_le_inv _ _ p); [exact Pxz | lra | exact Hp |].
    rewrite Exz.
    apply Rle_trans with
        (sigma (length x) (fun i => (Rabs (comp x i - comp y i) + Rabs (comp y i - comp z i)) ^ p)).
    + apply sigma_le. intros i _. apply pow_incr. split; [apply Rabs_pos|].
      replace (comp x i - comp z i) with ((comp x i - comp y i) + (comp y i - comp z i)) by ring.
      apply Rabs_triang.
    + apply minkowski_ineq with (a := fun i => Rabs (comp x i - comp y i))
                                (b := fun i => Rabs (comp y i - comp z i)); auto.
      * intros i. apply Rabs_pos.
      * intros i. apply Rabs_pos.
      * rewrite Lxy. exact Eyz.
Qed.

(* ---------- orders 1 and 2 ---------- *)
Lemma minkowski_1_manhattan x y : minkowski ROps 1 x y = manhattan ROps x y.
Proof.
  destruct (manhattan ROps x y) as [d|] eqn:E.
  - apply manhattan_some in E as [L ->].
    destruct (minkowski ROps 1 x y) as [d'|] eqn:E'.
    + pose proof (minkowski_closed_form _ _ _ _ E') as [P Q]. f_equal.
      rewrite pow_1 in Q. rewrite Q. apply sigma_ext. intros i _. apply pow_1.
    + apply minkowski_none in E' as [H|H]; [tauto | discriminate].
  - apply manhattan_none in E. apply minkowski_none. left. exact E.
Qed.
Lemma minkowski_2_euclidian x y : minkowski ROps 2 x y = euclidian ROps x y.
Proof.
  destruct (euclidian ROps x y) as [d|] eqn:E.
  - apply euclidian_some in E as [L ->].
    destruct (minkowski ROps 2 x y) as [d'|] eqn:E'.
    + pose proof (minkowski_closed_form _ _ _ _ E') as [P Q]. f_equal. symmetry.
      apply sqrt_lem_1; [| exact P |].
      * apply sigma_nonneg. intros i _. exact (Rle_0_sqr (comp x i - comp y i)).
      * replace (d' * d') with (d' ^ 2) by ring. rewrite Q. apply sigma_ext. intros i _.
        rewrite <- Rsqr_pow2, <- Rsqr_abs. reflexivity.
    + apply minkowski_none in E' as [H|H]; [tauto | discriminate].
  - apply euclidian_none in E. apply minkowski_none. left. exact E.
Qed.
