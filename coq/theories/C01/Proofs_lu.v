(* C01 — LU decomposition with partial pivoting and the triangular solves, exact arithmetic (ROps). *)
From Coq Require Import List Arith Bool ZArith Reals Lra Lia Permutation.
From SC Require Import Base.Num C01.Model C01.Proofs.
Import ListNotations.
Open Scope R_scope.

Ltac rops := cbn [oadd osub omul odiv oabs oltb oeqb o0 o1 oneg ROps] in *.
Ltac bdestr := repeat match goal with
  | |- context [Nat.eqb ?a ?b] => destruct (Nat.eqb_spec a b)
  | |- context [Nat.ltb ?a ?b] => destruct (Nat.ltb_spec a b)
  | |- context [Nat.leb ?a ?b] => destruct (Nat.leb_spec a b)
  end; cbn [andb orb negb].

Lemma rsum_shift n f : rsum (S n) f = f 0%nat + rsum n (fun t => f (S t)).
Proof.
  induction n as [|n IH].
  - rewrite rsum_S, !rsum_0. lra.
  - rewrite rsum_S, IH. rewrite (rsum_S n (fun t => f (S t))). lra.
Qed.

(* ---------- row operations ---------- *)
Lemma row_axpy_spec bn i k c (X : @Mx R) : i <> k ->
  forall a j, row_axpy ROps bn i k c X a j
              = if (Nat.eqb a i && (j <? bn))%bool then X i j - X k j * c else X a j.
Proof.
  intros Hik. unfold row_axpy.
  apply (for_up_inv (fun cnt X1 => forall a j,
           X1 a j = if (Nat.eqb a i && (j <? cnt))%bool then X i j - X k j * c else X a j)).
  - intros a j. rewrite andb_false_r. reflexivity.
  - intros cnt X1 Hc IH a j. cbn [Nat.add]. rops.
    rewrite upd_eq, !IH. bdestr; subst; try lia; try reflexivity; try congruence.
Qed.

Lemma row_div_spec bn k d (X : @Mx R) :
  forall a j, row_div ROps bn k d X a j
              = if (Nat.eqb a k && (j <? bn))%bool then X k j / d else X a j.
Proof.
  unfold row_div.
  apply (for_up_inv (fun cnt X1 => forall a j,
           X1 a j = if (Nat.eqb a k && (j <? cnt))%bool then X k j / d else X a j)).
  - intros a j. rewrite andb_false_r. reflexivity.
  - intros cnt X1 Hc IH a j. cbn [Nat.add]. rops.
    rewrite upd_eq, !IH. bdestr; subst; try lia; try reflexivity; try congruence.
Qed.

(* the `for i in k+1..n` loop of the substitutions: rows k < a < n get  X a j - X k j * c a *)
Lemma axpy_below_spec n bn k (c : nat -> R) (X : @Mx R) :
  forall a j, for_up (n - (k + 1)) (k + 1) (fun i X2 => row_axpy ROps bn i k (c i) X2) X a j
              = if ((k <? a) && (a <? n) && (j <? bn))%bool then X a j - X k j * c a else X a j.
Proof.
  assert (G : forall cnt a j,
    for_up cnt (k + 1) (fun i X2 => row_axpy ROps bn i k (c i) X2) X a j
    = if ((k <? a) && (a <? k + 1 + cnt) && (j <? bn))%bool then X a j - X k j * c a else X a j).
  { intros cnt.
    apply (for_up_inv (fun cnt X1 => forall a j,
       X1 a j = if ((k <? a) && (a <? k + 1 + cnt) && (j <? bn))%bool then X a j - X k j * c a else X a j)).
    - intros a j. bdestr; try lia; reflexivity.
    - intros c0 X1 Hc IH a j. rewrite row_axpy_spec by lia. rewrite !IH.
      bdestr; subst; try lia; try reflexivity. }
  intros a j. rewrite G. bdestr; try lia; reflexivity.
Qed.

(* the `for i in 0..k` loop of the back substitution: rows a < k *)
Lemma axpy_above_spec bn k (c : nat -> R) (X : @Mx R) :
  forall a j, for_up k 0 (fun i X3 => row_axpy ROps bn i k (c i) X3) X a j
              = if ((a <? k) && (j <? bn))%bool then X a j - X k j * c a else X a j.
Proof.
  assert (G : forall cnt, (cnt <= k)%nat -> forall a j,
    for_up cnt 0 (fun i X3 => row_axpy ROps bn i k (c i) X3) X a j
    = if ((a <? cnt) && (j <? bn))%bool then X a j - X k j * c a else X a j).
  { intros cnt.
    apply (for_up_inv (fun cnt X1 => (cnt <= k)%nat -> forall a j,
       X1 a j = if ((a <? cnt) && (j <? bn))%bool then X a j - X k j * c a else X a j)).
    - intros _ a j. reflexivity.
    - intros c0 X1 Hc IH Hk a j. cbn [Nat.add]. rewrite row_axpy_spec by lia. rewrite !IH by lia.
      bdestr; subst; try lia; try reflexivity. }
  intros a j. apply G. lia.
Qed.

(* ---------- (3) forward and back substitution ---------- *)
Lemma lu_forward_spec : forall n bn LU X0, let X1 := lu_forward ROps n bn LU X0 in
  (forall i j, (i < n)%nat -> (j < bn)%nat -> X1 i j + rsum i (fun t => LU i t * X1 t j) = X0 i j) /\
  (forall i j, (n <= i)%nat \/ (bn <= j)%nat -> X1 i j = X0 i j).
Proof.
  intros n bn LU X0. cbv zeta. unfold lu_forward.
  assert (G : forall K, (K <= n)%nat ->
    let X1 := for_up K 0 (fun k X1 =>
       for_up (n - (k + 1)) (k + 1) (fun i X2 => row_axpy ROps bn i k (LU i k) X2) X1) X0 in
    (forall i j, (i < n)%nat -> (j < bn)%nat ->
        X1 i j + rsum (Nat.min i K) (fun t => LU i t * X1 t j) = X0 i j) /\
    (forall i j, (n <= i)%nat \/ (bn <= j)%nat -> X1 i j = X0 i j)).
  { intros K. cbv zeta.
    apply (for_up_inv (fun K X1 => (K <= n)%nat ->
      (forall i j, (i < n)%nat -> (j < bn)%nat ->
         X1 i j + rsum (Nat.min i K) (fun t => LU i t * X1 t j) = X0 i j) /\
      (forall i j, (n <= i)%nat \/ (bn <= j)%nat -> X1 i j = X0 i j))).
    - intros _. split; [|reflexivity]. intros i j _ _. rewrite Nat.min_0_r, rsum_0. lra.
    - intros K0 X1 HK IH HKn. destruct (IH ltac:(lia)) as [Ha Hb]. cbn [Nat.add].
      pose proof (axpy_below_spec n bn K0 (fun i => LU i K0) X1) as E. cbv beta in E.
      split.
      + intros i j Hi Hj. rewrite E.
        destruct (Nat.ltb_spec K0 i) as [Hlt|Hge].
        * replace (Nat.min i (S K0)) with (S K0) by lia. rewrite rsum_S.
          rewrite (rsum_ext K0 _ (fun t => LU i t * X1 t j)).
          2:{ intros t Ht. rewrite E. bdestr; try lia; reflexivity. }
          rewrite E. specialize (Ha i j Hi Hj). replace (Nat.min i K0) with K0 in Ha by lia.
          bdestr; try lia. lra.
        * replace (Nat.min i (S K0)) with (Nat.min i K0) by lia.
          rewrite (rsum_ext _ _ (fun t => LU i t * X1 t j)).
          2:{ intros t Ht. rewrite E. bdestr; try lia; reflexivity. }
          cbn [andb]. apply Ha; assumption.
      + intros i j Hij. rewrite E. rewrite <- (Hb i j Hij). bdestr; try lia; reflexivity. }
  destruct (G n (le_n n)) as [Ha Hb]. split; [|exact Hb].
  intros i j Hi Hj. specialize (Ha i j Hi Hj). replace (Nat.min i n) with i in Ha by lia. exact Ha.
Qed.

Lemma back_subst_spec : forall n bn Uo dg X1, (forall k, (k < n)%nat -> dg k <> 0) ->
  let X2 := back_subst ROps n bn Uo dg X1 in
  (forall i j, (i < n)%nat -> (j < bn)%nat ->
     dg i * X2 i j + rsum (n - S i) (fun t => Uo i (S i + t)%nat * X2 (S i + t)%nat j) = X1 i j) /\
  (forall i j, (n <= i)%nat \/ (bn <= j)%nat -> X2 i j = X1 i j).
Proof.
  intros n bn Uo dg X1 Hdg. cbv zeta. unfold back_subst.
  set (P := fun (c : nat) (X : @Mx R) =>
     (forall i j, (c <= i < n)%nat -> (j < bn)%nat ->
        dg i * X i j + rsum (n - S i) (fun t => Uo i (S i + t)%nat * X (S i + t)%nat j) = X1 i j) /\
     (forall i j, (i < c)%nat -> (j < bn)%nat ->
        X i j + rsum (n - c) (fun t => Uo i (c + t)%nat * X (c + t)%nat j) = X1 i j) /\
     (forall i j, (n <= i)%nat \/ (bn <= j)%nat -> X i j = X1 i j)).
  match goal with |- context [for_down n ?f X1] => assert (G : P 0%nat (for_down n f X1)) end.
  { apply for_down_inv.
    - unfold P. split; [|split].
      + intros i j Hi. lia.
      + intros i j Hi Hj. rewrite Nat.sub_diag, rsum_0. lra.
      + reflexivity.
    - intros c X Hc (Ha & Ha' & Hb). cbv zeta.
      assert (E : forall a j,
        for_up c 0 (fun i X3 => row_axpy ROps bn i c (Uo i c) X3) (row_div ROps bn c (dg c) X) a j
        = if j <? bn then (if a <? c then X a j - X c j / dg c * Uo a c
                           else if Nat.eqb a c then X c j / dg c else X a j) else X a j).
      { intros a j. rewrite (axpy_above_spec bn c (fun i => Uo i c)). rewrite !row_div_spec.
        bdestr; subst; try lia; reflexivity. }
      set (X' := for_up c 0 _ _) in *. clearbody X'.
      unfold P. split; [|split].
      + intros i j Hi Hj. destruct (Nat.eq_dec i c) as [->|Hne].
        * rewrite <- (Ha' c j ltac:(lia) Hj).
          rewrite (rsum_ext _ _ (fun t => Uo c (S c + t)%nat * X (S c + t)%nat j)).
          2:{ intros t Ht. rewrite E. bdestr; try lia; reflexivity. }
          rewrite E. bdestr; try lia. specialize (Hdg c Hc). field. exact Hdg.
        * rewrite <- (Ha i j ltac:(lia) Hj).
          rewrite (rsum_ext _ _ (fun t => Uo i (S i + t)%nat * X (S i + t)%nat j)).
          2:{ intros t Ht. rewrite E. bdestr; try lia; reflexivity. }
          rewrite E. bdestr; try lia. reflexivity.
      + intros i j Hi Hj. rewrite <- (Ha' i j ltac:(lia) Hj).
        replace (n - c)%nat with (S (n - S c)) by lia. rewrite rsum_shift.
        rewrite (rsum_ext _ _ (fun t => Uo i (S c + t)%nat * X (S c + t)%nat j)).
        2:{ intros t Ht. rewrite E. replace (c + S t)%nat with (S c + t)%nat by lia.
            bdestr; try lia; reflexivity. }
        rewrite Nat.add_0_r. rewrite !E. bdestr; try lia. specialize (Hdg c Hc). field. exact Hdg.
      + intros i j Hij. rewrite E. rewrite <- (Hb i j Hij). bdestr; try lia; reflexivity. }
  destruct G as (Ha & _ & Hb). split; [|exact Hb].
  intros i j Hi Hj. apply Ha; [lia|exact Hj].
Qed.

(* ---------- LU: the small loops ---------- *)
Lemma lu_col_spec m j (A : @Mx R) :
  let A' := fst (lu_col ROps m j A) in
  let col := snd (lu_col ROps m j A) in
  (forall i, col i = A' i j) /\
  (forall i k, k <> j -> A' i k = A i k) /\
  (forall i, (i < m)%nat -> A' i j = A i j - rsum (Nat.min i j) (fun t => A i t * A' t j)) /\
  (forall i, (m <= i)%nat -> A' i j = A i j).
Proof.
  cbv zeta. unfold lu_col.
  apply (for_up_inv (fun r (st : @Mx R * @Vec R) =>
    (forall i, snd st i = fst st i j) /\
    (forall i k, k <> j -> fst st i k = A i k) /\
    (forall i, (i < r)%nat -> fst st i j = A i j - rsum (Nat.min i j) (fun t => A i t * fst st t j)) /\
    (forall i, (r <= i)%nat -> fst st i j = A i j))).
  - cbn [fst snd]. repeat split; intros; try reflexivity; lia.
  - intros r [A1 col] Hr (H1 & H2 & H3 & H4). cbn [fst snd Nat.add] in *. rops.
    change (osumn ROps) with rsum.
    assert (Es : rsum (Nat.min r j) (fun k => A1 r k * col k)
                 = rsum (Nat.min r j) (fun t => A r t * A1 t j)).
    { apply rsum_ext. intros t Ht. rewrite H1, H2 by lia. reflexivity. }
    rewrite Es. repeat split.
    + intros i. unfold updv. rewrite upd_eq, Nat.eqb_refl, andb_true_r.
      destruct (Nat.eqb r i); [reflexivity|apply H1].
    + intros i k Hk. rewrite upd_other by lia. apply H2, Hk.
    + intros i Hi. destruct (Nat.eq_dec i r) as [->|Hne].
      * rewrite upd_same, H1, H4 by lia. f_equal. apply rsum_ext. intros t Ht.
        rewrite upd_other by lia. reflexivity.
      * rewrite upd_other by lia. rewrite H3 by lia. f_equal. apply rsum_ext. intros t Ht.
        rewrite upd_other by lia. reflexivity.
    + intros i Hi. rewrite upd_other by lia. apply H4. lia.
Qed.

Lemma lu_pivot_spec m j (col : @Vec R) :
  let p := lu_pivot ROps m j col in
  (j <= p)%nat /\ ((j < m)%nat -> (p < m)%nat) /\
  (forall i, (j <= i < m)%nat -> Rabs (col i) <= Rabs (col p)).
Proof.
  cbv zeta. unfold lu_pivot.
  assert (G : forall cnt, let p := for_up cnt (j + 1)
      (fun i p => if gtb ROps (oabs ROps (col i)) (oabs ROps (col p)) then i else p) j in
      (j <= p < j + 1 + cnt)%nat /\ (forall i, (j <= i < j + 1 + cnt)%nat -> Rabs (col i) <= Rabs (col p))).
  { intros cnt. cbv zeta.
    apply (for_up_inv (fun cnt p => (j <= p < j + 1 + cnt)%nat /\
              (forall i, (j <= i < j + 1 + cnt)%nat -> Rabs (col i) <= Rabs (col p)))).
    - split; [lia|]. intros i Hi. replace i with j by lia. lra.
    - intros c p Hc [Hp Hmax]. unfold gtb. rops.
      destruct (Rltb (Rabs (col p)) (Rabs (col (j + 1 + c)%nat))) eqn:E.
      + apply Rltb_true in E. split; [lia|]. intros i Hi.
        destruct (Nat.eq_dec i (j + 1 + c)) as [->|Hne]; [lra|].
        specialize (Hmax i ltac:(lia)). lra.
      + apply Rltb_false in E. split; [lia|]. intros i Hi.
        destruct (Nat.eq_dec i (j + 1 + c)) as [->|Hne]; [lra|].
        apply Hmax. lia. }
  destruct (G (m - (j + 1))%nat) as [Hp Hmax]. split; [lia|]. split; [lia|].
  intros i Hi. apply Hmax. lia.
Qed.

Lemma swap_rows_spec n p j (A : @Mx R) :
  forall a k, swap_rows n p j A a k
              = if k <? n then (if Nat.eqb a j then A p k else if Nat.eqb a p then A j k else A a k)
                else A a k.
Proof.
  unfold swap_rows.
  apply (for_up_inv (fun cnt (X : @Mx R) => forall a k,
    X a k = if k <? cnt then (if Nat.eqb a j then A p k else if Nat.eqb a p then A j k else A a k)
            else A a k)).
  - intros a k. reflexivity.
  - intros c X Hc IH a k. cbn [Nat.add].
    assert (Ec : forall b, X b c = A b c) by (intros b; rewrite IH, Nat.ltb_irrefl; reflexivity).
    destruct (Nat.eq_dec k c) as [->|Hne].
    + rewrite (proj2 (Nat.ltb_lt c (S c))) by lia.
      destruct (Nat.eqb_spec a j) as [->|Haj]; [rewrite upd_same; apply Ec|].
      rewrite upd_other by lia.
      destruct (Nat.eqb_spec a p) as [->|Hap]; [rewrite upd_same; apply Ec|].
      rewrite upd_other by lia. apply Ec.
    + rewrite !upd_other by lia. rewrite IH.
      destruct (Nat.ltb_spec k c), (Nat.ltb_spec k (S c)); try lia; reflexivity.
Qed.

Lemma lu_scale_spec m j (A : @Mx R) : (j < m)%nat ->
  (A j j <> 0 ->
     (forall a, (j < a < m)%nat -> lu_scale ROps m j A a j = A a j / A j j) /\
     (forall a k, ~ (k = j /\ (j < a < m)%nat) -> lu_scale ROps m j A a k = A a k)) /\
  (A j j = 0 -> forall a k, lu_scale ROps m j A a k = A a k).
Proof.
  intros Hj. unfold lu_scale. rewrite (proj2 (Nat.ltb_lt j m) Hj). cbn [andb]. split.
  - intros Hnz. rewrite (proj2 (nez_R _) Hnz).
    assert (G : forall cnt,
      let X := for_up cnt (j + 1) (fun i A1 => upd A1 i j (odiv ROps (A1 i j) (A1 j j))) A in
      (forall a, (j < a < j + 1 + cnt)%nat -> X a j = A a j / A j j) /\
      (forall a k, ~ (k = j /\ (j < a < j + 1 + cnt)%nat) -> X a k = A a k)).
    { intros cnt. cbv zeta.
      apply (for_up_inv (fun cnt (X : @Mx R) =>
        (forall a, (j < a < j + 1 + cnt)%nat -> X a j = A a j / A j j) /\
        (forall a k, ~ (k = j /\ (j < a < j + 1 + cnt)%nat) -> X a k = A a k))).
      - split; [intros; lia|reflexivity].
      - intros c X Hc [IH1 IH2]. rops. split.
        + intros a Ha. destruct (Nat.eq_dec a (j + 1 + c)) as [->|Hne].
          * rewrite upd_same, !IH2 by lia. reflexivity.
          * rewrite upd_other by lia. apply IH1. lia.
        + intros a k Hak. rewrite upd_other by lia. apply IH2. lia. }
    destruct (G (m - (j + 1))%nat) as [G1 G2]. split.
    + intros a Ha. apply G1. lia.
    + intros a k Hak. apply G2. lia.
  - intros Hz. rewrite (proj2 (nez_R_false _) Hz). reflexivity.
Qed.

(* ---------- the transposition applied by a row swap ---------- *)
Definition tau (p j a : nat) : nat := if Nat.eqb a j then p else if Nat.eqb a p then j else a.
Lemma tau_lt n p j a : (p < n)%nat -> (j < n)%nat -> (a < n)%nat -> (tau p j a < n)%nat.
Proof. unfold tau. intros. bdestr; lia. Qed.
Lemma tau_below p j a : (j <= p)%nat -> (a < j)%nat -> tau p j a = a.
Proof. unfold tau. intros. bdestr; lia. Qed.
Lemma tau_above p j a : (j <= p)%nat -> (j <= a)%nat -> (j <= tau p j a)%nat.
Proof. unfold tau. intros. bdestr; lia. Qed.
Lemma tau_invol p j a : tau p j (tau p j a) = a.
Proof. unfold tau. destruct (Nat.eqb_spec a j), (Nat.eqb_spec a p); bdestr; lia. Qed.
Lemma tau_j p j : tau p j j = p.
Proof. unfold tau. rewrite Nat.eqb_refl. reflexivity. Qed.
Lemma tau_id j a : tau j j a = a.
Proof. unfold tau. bdestr; lia. Qed.
Lemma swapv_tau {X} (piv : nat -> X) p j a : swapv piv p j a = piv (tau p j a).
Proof. unfold swapv, updv, tau. bdestr; subst; try lia; reflexivity. Qed.

Lemma lu_swap_spec n p c (B1 : @Mx R) piv sg :
  exists B2 piv2 sg2,
    (if negb (Nat.eqb p c) then mkLU (swap_rows n p c B1) (swapv piv p c) (- sg)%Z else mkLU B1 piv sg)
    = mkLU B2 piv2 sg2 /\
    (forall a k, (k < n)%nat -> B2 a k = B1 (tau p c a) k) /\
    (forall a, piv2 a = piv (tau p c a)).
Proof.
  destruct (Nat.eqb_spec p c) as [->|Hne]; cbn [negb].
  - exists B1, piv, sg. split; [reflexivity|]. split; intros; rewrite tau_id; reflexivity.
  - exists (swap_rows n p c B1), (swapv piv p c), (- sg)%Z. split; [reflexivity|]. split.
    + intros a k Hk. rewrite swap_rows_spec. rewrite (proj2 (Nat.ltb_lt k n) Hk). unfold tau.
      bdestr; reflexivity.
    + intros a. apply swapv_tau.
Qed.

Lemma lu_scale_props n c (B2 : @Mx R) : (c < n)%nat ->
  (forall a, (c < a < n)%nat -> Rabs (B2 a c) <= Rabs (B2 c c)) ->
  let B3 := lu_scale ROps n c B2 in
  (forall a k, k <> c -> B3 a k = B2 a k) /\
  (forall a, (a <= c)%nat -> B3 a c = B2 a c) /\
  (forall a, (c < a < n)%nat -> B2 a c = B3 a c * B3 c c /\ Rabs (B3 a c) <= 1).
Proof.
  intros Hc Hmax. cbv zeta. destruct (lu_scale_spec n c B2 Hc) as [Hnz Hz].
  destruct (Req_dec (B2 c c) 0) as [E|E].
  - specialize (Hz E). split; [|split]; intros; rewrite ?Hz; try reflexivity.
    assert (E0 : B2 a c = 0).
    { specialize (Hmax a H). rewrite E, Rabs_R0 in Hmax.
      destruct (Req_dec (B2 a c) 0) as [|Hn]; [assumption|].
      apply Rabs_pos_lt in Hn. lra. }
    rewrite E0. split; [lra|]. rewrite Rabs_R0. lra.
  - destruct (Hnz E) as [G1 G2]. split; [|split].
    + intros a k Hk. apply G2. lia.
    + intros a Ha. apply G2. lia.
    + intros a Ha. rewrite (G1 a Ha), (G2 c c) by lia. split; [field; exact E|].
      specialize (Hmax a Ha). unfold Rdiv. rewrite Rabs_mult, Rabs_inv.
      assert (Hp : 0 < Rabs (B2 c c)) by (apply Rabs_pos_lt; exact E).
      assert (Hi : 0 < / Rabs (B2 c c)) by (apply Rinv_0_lt_compat; exact Hp).
      assert (H1 : Rabs (B2 c c) * / Rabs (B2 c c) = 1) by (field; lra).
      nra.
Qed.

(* ---------- the invariant of the column loop ---------- *)
Definition lu_inv (n : nat) (A : @Mx R) (c : nat) (st : @lu_state R) : Prop :=
  let B := lu_A st in let piv := lu_piv st in
  (forall i k, (i < n)%nat -> (c <= k)%nat -> (k < n)%nat -> B i k = A (piv i) k) /\
  (forall i k, (i < n)%nat -> (k < c)%nat ->
     A (piv i) k = rsum (Nat.min i k) (fun t => B i t * B t k)
                   + (if i <=? k then B i k else B i k * B k k)) /\
  ((forall a, (a < n)%nat -> (piv a < n)%nat) /\
   (forall a b, (a < n)%nat -> (b < n)%nat -> piv a = piv b -> a = b)) /\
  (forall i k, (k < c)%nat -> (k < i < n)%nat -> Rabs (B i k) <= 1).

Lemma lu_inv_init n A : lu_inv n A 0 (mkLU A (fun i => i) 1%Z).
Proof.
  unfold lu_inv. cbn [lu_A lu_piv]. repeat split; intros; try reflexivity; try lia; assumption.
Qed.

Lemma lu_inv_step n A c st : (c < n)%nat -> lu_inv n A c st -> lu_inv n A (S c) (lu_step ROps n n c st).
Proof.
  intros Hc. destruct st as [B piv sg]. unfold lu_inv at 1. cbn [lu_A lu_piv].
  intros (HB1 & HB2 & (HB3a & HB3b) & HB4).
  unfold lu_step. cbn [lu_A lu_piv lu_sign].
  pose proof (lu_col_spec n c B) as HC. cbv zeta in HC.
  destruct (lu_col ROps n c B) as [B1 col]. cbn [fst snd] in HC. destruct HC as (C1 & C2 & C3 & C4).
  pose proof (lu_pivot_spec n c col) as HP. cbv zeta in HP.
  set (p := lu_pivot ROps n c col) in *. destruct HP as (P1 & P2 & P3). specialize (P2 Hc).
  destruct (lu_swap_spec n p c B1 piv sg) as (B2 & piv2 & sg2 & -> & S1 & S2).
  cbn [lu_A lu_piv lu_sign].
  set (q := tau p c) in *.
  assert (Q1 : forall a, (a < n)%nat -> (q a < n)%nat) by (intros; apply tau_lt; assumption).
  assert (Q2 : forall a, (a < c)%nat -> q a = a) by (intros; apply tau_below; assumption).
  assert (Q3 : forall a, (c <= a)%nat -> (c <= q a)%nat) by (intros; apply tau_above; assumption).
  assert (Q4 : forall a, q (q a) = a) by (intros; apply tau_invol).
  assert (Q5 : q c = p) by apply tau_j.
  clearbody q.
  (* the new column before scaling *)
  assert (Star : forall i, (i < n)%nat ->
     A (piv i) c = B1 i c + rsum (Nat.min i c) (fun t => B1 i t * B1 t c)).
  { intros i Hi. rewrite (C3 i Hi), <- (HB1 i c Hi (le_n c) Hc).
    rewrite (rsum_ext _ (fun t => B1 i t * B1 t c) (fun t => B i t * B1 t c)).
    - lra.
    - intros t Ht. rewrite C2 by lia. reflexivity. }
  assert (Hmax : forall a, (c < a < n)%nat -> Rabs (B2 a c) <= Rabs (B2 c c)).
  { intros a Ha. rewrite !S1 by lia. rewrite Q5, <- C1, <- C1. apply P3.
    split; [apply Q3; lia|apply Q1; lia]. }
  destruct (lu_scale_props n c B2 Hc Hmax) as (F1 & F2 & F3).
  set (B3 := lu_scale ROps n c B2) in *. clearbody B3.
  (* old columns of the result *)
  assert (Old : forall a k, (k < c)%nat -> B3 a k = B (q a) k).
  { intros a k Hk. rewrite F1, S1, C2 by lia. reflexivity. }
  unfold lu_inv. cbn [lu_A lu_piv]. split; [|split; [|split]].
  - intros i k Hi Hk Hkn. rewrite F1, S1, C2, S2 by lia. apply HB1; [apply Q1; exact Hi|lia|exact Hkn].
  - intros i k Hi Hk. rewrite S2. destruct (Nat.eq_dec k c) as [->|Hkc].
    + rewrite (Star (q i) (Q1 i Hi)).
      assert (Em : Nat.min (q i) c = Nat.min i c).
      { destruct (Nat.lt_ge_cases i c) as [Hlt|Hge]; [rewrite Q2 by lia; reflexivity|].
        specialize (Q3 i Hge). lia. }
      rewrite Em.
      rewrite (rsum_ext _ (fun t => B3 i t * B3 t c) (fun t => B1 (q i) t * B1 t c)).
      2:{ intros t Ht. rewrite F1, S1 by lia. rewrite F2, S1, (Q2 t) by lia. reflexivity. }
      rewrite <- (S1 i c Hc).
      destruct (Nat.leb_spec i c) as [Hle|Hgt].
      * rewrite F2 by lia. lra.
      * destruct (F3 i ltac:(lia)) as [E _]. rewrite <- E. lra.
    + assert (Hk' : (k < c)%nat) by lia.
      rewrite (HB2 (q i) k (Q1 i Hi) Hk').
      rewrite (rsum_ext _ (fun t => B3 i t * B3 t k) (fun t => B (q i) t * B t k)).
      2:{ intros t Ht. rewrite !Old by lia. rewrite (Q2 t) by lia. reflexivity. }
      rewrite !Old by lia. rewrite (Q2 k) by lia.
      destruct (Nat.lt_ge_cases i c) as [Hlt|Hge]; [rewrite Q2 by lia; reflexivity|].
      specialize (Q3 i Hge).
      replace (Nat.min (q i) k) with (Nat.min i k) by lia.
      destruct (Nat.leb_spec (q i) k), (Nat.leb_spec i k); try lia. reflexivity.
  - split.
    + intros a Ha. rewrite S2. apply HB3a, Q1, Ha.
    + intros a b Ha Hb E. rewrite !S2 in E. apply HB3b in E; [|apply Q1; assumption..].
      rewrite <- (Q4 a), <- (Q4 b), E. reflexivity.
  - intros i k Hk Hi. destruct (Nat.eq_dec k c) as [->|Hkc].
    + apply F3. exact Hi.
    + rewrite Old by lia. apply HB4; [lia|].
      destruct (Nat.lt_ge_cases i c) as [Hlt|Hge]; [rewrite Q2 by lia; lia|].
      specialize (Q3 i Hge). specialize (Q1 i ltac:(lia)). lia.
Qed.

Lemma lu_cols_inv n A c : (c <= n)%nat -> lu_inv n A c (lu_cols ROps n n c A).
Proof.
  unfold lu_cols.
  apply (for_up_inv (fun c st => (c <= n)%nat -> lu_inv n A c st)).
  - intros _. apply lu_inv_init.
  - intros c0 st Hc IH Hle. cbn [Nat.add]. apply lu_inv_step; [lia|]. apply IH. lia.
Qed.

(* ---------- (1) P A = L U ---------- *)
Lemma NoDup_map_inj_on {X Y} (f : X -> Y) l :
  NoDup l -> (forall a b, In a l -> In b l -> f a = f b -> a = b) -> NoDup (map f l).
Proof.
  induction 1 as [|x l Hx Hnd IH]; intros Hinj; cbn; constructor.
  - intros Hin. apply in_map_iff in Hin. destruct Hin as (y & Hy & Hyl).
    assert (y = x) by (apply Hinj; [right; exact Hyl|left; reflexivity|exact Hy]).
    subst. contradiction.
  - apply IH. intros a b Ha Hb. apply Hinj; right; assumption.
Qed.

Lemma perm_of_inj n (piv : nat -> nat) :
  (forall a, (a < n)%nat -> (piv a < n)%nat) ->
  (forall a b, (a < n)%nat -> (b < n)%nat -> piv a = piv b -> a = b) ->
  Permutation (map piv (seq 0 n)) (seq 0 n).
Proof.
  intros Hr Hi. apply NoDup_Permutation_bis.
  - apply NoDup_map_inj_on; [apply seq_NoDup|]. intros a b Ha Hb.
    apply in_seq in Ha. apply in_seq in Hb. apply Hi; lia.
  - rewrite map_length. apply le_n.
  - intros x Hx. apply in_map_iff in Hx. destruct Hx as (a & <- & Ha).
    apply in_seq in Ha. apply in_seq. specialize (Hr a). lia.
Qed.

Lemma lu_exact : forall (n : nat) (A : @Mx R),
  let st := lu_mut ROps n n A in
  let L := lu_L ROps (lu_A st) in let U := lu_U ROps (lu_A st) in
  (forall i j, (i < n)%nat -> (j < n)%nat -> mmul n L U i j = A (lu_piv st i) j) /\
  (forall i j, (i < n)%nat -> (j < n)%nat -> Rabs (L i j) <= 1) /\
  (forall i, L i i = 1) /\ (forall i j, (i < j)%nat -> L i j = 0) /\
  (forall i j, (j < i)%nat -> U i j = 0) /\
  Permutation (map (lu_piv st) (seq 0 n)) (seq 0 n).
Proof.
  intros n A. cbv zeta. unfold lu_mut.
  pose proof (lu_cols_inv n A n (le_n n)) as H.
  destruct (lu_cols ROps n n n A) as [B piv sg]. unfold lu_inv in H. cbn [lu_A lu_piv] in *.
  destruct H as (_ & H2 & (H3a & H3b) & H4).
  split; [|split; [|split; [|split; [|split]]]].
  - intros i j Hi Hj. unfold mmul. rewrite (H2 i j Hi Hj).
    rewrite (rsum_trunc n (S (Nat.min i j))); [|lia|].
    2:{ intros k Hk. unfold lu_L, lu_U. rops. bdestr; try lia; lra. }
    rewrite rsum_S. f_equal.
    + apply rsum_ext. intros t Ht. unfold lu_L, lu_U. bdestr; try lia. reflexivity.
    + unfold lu_L, lu_U. rops. destruct (Nat.leb_spec i j) as [Hle|Hgt].
      * replace (Nat.min i j) with i by lia. bdestr; try lia. lra.
      * replace (Nat.min i j) with j by lia. bdestr; try lia. reflexivity.
  - intros i j Hi Hj. unfold lu_L. rops.
    destruct (Nat.ltb_spec j i); [apply H4; lia|].
    destruct (Nat.eqb_spec i j); [rewrite Rabs_R1|rewrite Rabs_R0]; lra.
  - intros i. unfold lu_L. rewrite Nat.ltb_irrefl, Nat.eqb_refl. reflexivity.
  - intros i j Hij. unfold lu_L. rops. bdestr; try lia; reflexivity.
  - intros i j Hij. unfold lu_U. rops. bdestr; try lia; reflexivity.
  - apply perm_of_inj; assumption.
Qed.

(* ---------- (2) the permutation matrix ---------- *)
Lemma lu_P_spec : forall n piv i j, (i < n)%nat ->
  lu_P ROps n piv i j = (if Nat.eqb j (piv i) then 1 else 0).
Proof.
  intros n piv i j Hi. unfold lu_P.
  assert (G : forall cnt a b,
    for_up cnt 0 (fun i P => upd P i (piv i) (o1 ROps)) (zeros ROps) a b
    = if a <? cnt then (if Nat.eqb b (piv a) then 1 else 0) else 0).
  { intros cnt.
    apply (for_up_inv (fun cnt (P : @Mx R) => forall a b,
       P a b = if a <? cnt then (if Nat.eqb b (piv a) then 1 else 0) else 0)).
    - intros a b. reflexivity.
    - intros c P Hc IH a b. cbn [Nat.add]. rops. rewrite upd_eq, IH.
      bdestr; subst; try lia; try reflexivity; congruence. }
  rewrite G. rewrite (proj2 (Nat.ltb_lt i n) Hi). reflexivity.
Qed.

(* ---------- (4) solve ---------- *)
Lemma lu_singular_false : forall n LU, lu_singular ROps n LU = false ->
  forall k, (k < n)%nat -> LU k k <> 0.
Proof.
  intros n LU H k Hk E. unfold lu_singular in H.
  assert (T : existsb (fun j => oeqb ROps (LU j j) (o0 ROps)) (seq 0 n) = true).
  { apply existsb_exists. exists k. split; [apply in_seq; lia|]. rops. apply Reqb_true. exact E. }
  congruence.
Qed.

Lemma lu_L_mul n (LU Y : @Mx R) i j : (i < n)%nat ->
  rsum n (fun t => lu_L ROps LU i t * Y t j) = Y i j + rsum i (fun t => LU i t * Y t j).
Proof.
  intros Hi. rewrite (rsum_trunc n (S i)); [|lia|].
  2:{ intros t Ht. unfold lu_L. rops. bdestr; try lia; lra. }
  rewrite rsum_S. rewrite (rsum_ext i _ (fun t => LU i t * Y t j)).
  2:{ intros t Ht. unfold lu_L. bdestr; try lia; reflexivity. }
  unfold lu_L. rewrite Nat.ltb_irrefl, Nat.eqb_refl. rops. lra.
Qed.

Lemma lu_U_mul n (LU X : @Mx R) i j : (i < n)%nat ->
  rsum n (fun t => lu_U ROps LU i t * X t j)
  = LU i i * X i j + rsum (n - S i) (fun t => LU i (S i + t)%nat * X (S i + t)%nat j).
Proof.
  intros Hi.
  replace (rsum n (fun t => lu_U ROps LU i t * X t j))
    with (rsum (S i + (n - S i)) (fun t => lu_U ROps LU i t * X t j)) by (f_equal; lia).
  rewrite rsum_app, rsum_S. rewrite (rsum_zero i).
  2:{ intros t Ht. unfold lu_U. rops. bdestr; try lia; lra. }
  rewrite (rsum_ext (n - S i) _ (fun t => LU i (S i + t)%nat * X (S i + t)%nat j)).
  2:{ intros t Ht. unfold lu_U. bdestr; try lia; reflexivity. }
  unfold lu_U. rewrite Nat.leb_refl. lra.
Qed.

Lemma lu_solve_exact : forall n bn (A b X : @Mx R), lu_solve_mut ROps n bn A b = Some X ->
  forall i j, (i < n)%nat -> (j < bn)%nat -> rsum n (fun k => A i k * X k j) = b i j.
Proof.
  intros n bn A b X0 H. unfold lu_solve_mut, lu_solve in H. cbv zeta in H.
  pose proof (lu_exact n A) as HE. cbv zeta in HE. destruct HE as (E1 & _ & _ & _ & _ & EP).
  set (st := lu_mut ROps n n A) in *. clearbody st.
  destruct (lu_singular ROps n (lu_A st)) eqn:Hs; [discriminate|]. injection H as <-.
  pose proof (lu_singular_false _ _ Hs) as Hd.
  set (LU := lu_A st) in *. set (piv := lu_piv st) in *. clearbody LU piv.
  destruct (lu_forward_spec n bn LU (fun i j => b (piv i) j)) as [FY _].
  set (Y := lu_forward ROps n bn LU (fun i j => b (piv i) j)) in *. clearbody Y.
  destruct (back_subst_spec n bn LU (fun k => LU k k) Y Hd) as [BX _].
  set (X := back_subst ROps n bn LU (fun k => LU k k) Y) in *. clearbody X. cbv beta in *.
  assert (Row : forall i j, (i < n)%nat -> (j < bn)%nat ->
            rsum n (fun k => A (piv i) k * X k j) = b (piv i) j).
  { intros i j Hi Hj. rewrite <- (FY i j Hi Hj). rewrite <- (lu_L_mul n LU Y i j Hi).
    rewrite (rsum_ext n _ (fun k => rsum n (fun t => lu_L ROps LU i t * lu_U ROps LU t k * X k j))).
    2:{ intros k Hk. rewrite <- (E1 i k Hi Hk). unfold mmul. rewrite <- rsum_scal_r. reflexivity. }
    rewrite (rsum_swap n n (fun k t => lu_L ROps LU i t * lu_U ROps LU t k * X k j)).
    apply rsum_ext. intros t Ht.
    rewrite <- (BX t j Ht Hj), <- (lu_U_mul n LU X t j Ht), <- rsum_scal.
    apply rsum_ext. intros k Hk. ring. }
  intros r j Hr Hj.
  assert (Hex : exists i, (i < n)%nat /\ piv i = r).
  { assert (Hin : In r (map piv (seq 0 n))).
    { eapply Permutation_in; [apply Permutation_sym; exact EP|]. apply in_seq. lia. }
    apply in_map_iff in Hin. destruct Hin as (i & Hi & Hin). exists i.
    apply in_seq in Hin. split; [lia|exact Hi]. }
  destruct Hex as (i & Hi & <-). apply Row; assumption.
Qed.

(* ---------- (5) inverse ---------- *)
Lemma lu_inverse_exact : forall n (A X : @Mx R),
  (let st := lu_mut ROps n n A in lu_inverse ROps n (lu_A st) (lu_piv st)) = Some X ->
  forall i j, (i < n)%nat -> (j < n)%nat -> mmul n A X i j = (if Nat.eqb i j then 1 else 0).
Proof.
  intros n A X H i j Hi Hj.
  assert (H' : lu_solve_mut ROps n n A (identity ROps) = Some X) by exact H.
  unfold mmul. rewrite (lu_solve_exact n n A (identity ROps) X H' i j Hi Hj).
  unfold identity. reflexivity.
Qed.

(* ---------- (6) a 2 x 2 instance on which the solver succeeds (rows are swapped: |3| > |1|) ---------- *)
Lemma lu_singular_true : forall n LU, lu_singular ROps n LU = true ->
  exists k, (k < n)%nat /\ LU k k = 0.
Proof.
  intros n LU H. unfold lu_singular in H. apply existsb_exists in H. destruct H as (k & Hk & E).
  apply in_seq in Hk. rops. apply Reqb_true in E. exists k. split; [lia|exact E].
Qed.

Example lu_example : exists X,
  lu_solve_mut ROps 2 1
    (fun i j => match i, j with 0%nat, 0%nat => 1 | 0%nat, _ => 2 | _, 0%nat => 3 | _, _ => 4 end)
    (fun i _ => match i with 0%nat => 5 | _ => 6 end) = Some X.
Proof.
  match goal with |- exists X, lu_solve_mut ROps 2 1 ?A ?b = Some X => set (A0 := A); set (b0 := b) end.
  unfold lu_solve_mut, lu_solve. cbv zeta.
  destruct (lu_singular ROps 2 (lu_A (lu_mut ROps 2 2 A0))) eqn:E; [exfalso|eexists; reflexivity].
  apply lu_singular_true in E. destruct E as (k & Hk & E).
  pose proof (lu_exact 2 A0) as HE. cbv zeta in HE. destruct HE as (E1 & _ & _ & _ & _ & EP).
  set (st := lu_mut ROps 2 2 A0) in *. clearbody st.
  set (B := lu_A st) in *. set (piv := lu_piv st) in *. clearbody B piv.
  pose proof (E1 0 0 ltac:(lia) ltac:(lia))%nat as E00.
  pose proof (E1 0 1 ltac:(lia) ltac:(lia))%nat as E01.
  pose proof (E1 1 0 ltac:(lia) ltac:(lia))%nat as E10.
  pose proof (E1 1 1 ltac:(lia) ltac:(lia))%nat as E11.
  clear E1.
  unfold mmul, rsum, lu_L, lu_U in E00, E01, E10, E11.
  cbn [osumn Nat.ltb Nat.leb Nat.eqb] in E00, E01, E10, E11. rops.
  cbn [map seq] in EP. apply Permutation_length_2 in EP.
  assert (Hk' : k = 0%nat \/ k = 1%nat) by lia.
  destruct EP as [[P0 P1]|[P0 P1]]; rewrite P0, P1 in *; unfold A0 in *;
    destruct Hk' as [-> | ->]; nra.
Qed.

(* on that instance the rows are swapped, and the solution is (-4, 9/2) *)
Example lu_example_swap :
  lu_piv (lu_mut ROps 2 2
    (fun i j => match i, j with 0%nat, 0%nat => 1 | 0%nat, _ => 2 | _, 0%nat => 3 | _, _ => 4 end)) 0%nat
  = 1%nat.
Proof.
  match goal with |- lu_piv (lu_mut ROps 2 2 ?A) _ = _ => set (A0 := A) end.
  pose proof (lu_exact 2 A0) as HE. cbv zeta in HE. destruct HE as (E1 & E2 & _ & _ & _ & EP).
  set (st := lu_mut ROps 2 2 A0) in *. clearbody st.
  set (B := lu_A st) in *. set (piv := lu_piv st) in *. clearbody B piv.
  pose proof (E1 0 0 ltac:(lia) ltac:(lia))%nat as E00.
  pose proof (E1 1 0 ltac:(lia) ltac:(lia))%nat as E10.
  pose proof (E2 1 0 ltac:(lia) ltac:(lia))%nat as A10.
  clear E1 E2.
  unfold mmul, rsum, lu_L, lu_U in E00, E10, A10.
  cbn [osumn Nat.ltb Nat.leb Nat.eqb] in E00, E10, A10. rops.
  cbn [map seq] in EP. apply Permutation_length_2 in EP.
  destruct EP as [[P0 P1]|[P0 P1]]; [exfalso|exact P0].
  rewrite P0, P1 in *. unfold A0 in *.
  assert (E : B 1%nat 0%nat = 3) by nra. rewrite E in A10.
  rewrite Rabs_pos_eq in A10; lra.
Qed.

Example lu_example_value : forall X,
  lu_solve_mut ROps 2 1
    (fun i j => match i, j with 0%nat, 0%nat => 1 | 0%nat, _ => 2 | _, 0%nat => 3 | _, _ => 4 end)
    (fun i _ => match i with 0%nat => 5 | _ => 6 end) = Some X ->
  X 0%nat 0%nat = -4 /\ X 1%nat 0%nat = 9 / 2.
Proof.
  intros X H.
  pose proof (lu_solve_exact _ _ _ _ _ H 0 0 ltac:(lia) ltac:(lia))%nat as H0.
  pose proof (lu_solve_exact _ _ _ _ _ H 1 0 ltac:(lia) ltac:(lia))%nat as H1.
  unfold rsum in H0, H1. cbn [osumn] in H0, H1. rops. split; lra.
Qed.
