(* C01 — LU decomposition with partial pivoting and the triangular solves, exact arithmetic (ROps). *)
From Coq Require Import List Arith Bool ZArith Reals Lra Lia Permutation.
From SC Require Import Base.Num C01.Model C01.Proofs.
Import ListNotations.
Open Scope R_scope.

Ltac rops := cbn [oadd osub omul odiv oabs oltb oeqb o0 o1 oneg ROps] in *.
Ltac bdestr := repeat match goal with
  | |- context [Nat.eqb ?a ?b] => destruct (Nat.eqb_spec a b)
  | |- context [Nat.ltb ?a ?b] => destruct (Nat.ltb_spec a b)
  | |- context [Nat.leb ?a ?b] => destruct (Nat.leb_spec a b)
  end; cbn [andb orb negb].

Lemma rsum_shift n f : rsum (S n) f = f 0%nat + rsum n (fun t => f (S t)).
Proof.
  induction n as [|n IH].
  - rewrite rsum_S, !rsum_0. lra.
  - rewrite rsum_S, IH. rewrite (rsum_S n (fun t => f (S t))). lra.
Qed.

(* ---------- row operations ---------- *)
Lemma row_axpy_spec bn i k c (X : @Mx R) : i <> k ->
  forall a j, row_axpy ROps bn i k c X a j
              = if (Nat.eqb a i && (j <? bn))%bool then X i j - X k j * c else X a j.
Proof.
  intros Hik. unfold row_axpy.
  apply (for_up_inv (fun cnt X1 => forall a j,
           X1 a j = if (Nat.eqb a i && (j <? cnt))%bool then X i j - X k j * c else X a j)).
  - intros a j. rewrite andb_false_r. reflexivity.
  - intros cnt X1 Hc IH a j. cbn [Nat.add]. rops.
    rewrite upd_eq, !IH. bdestr; subst; try lia; try reflexivity; try congruence.
Qed.

Lemma row_div_spec bn k d (X : @Mx R) :
  forall a j, row_div ROps bn k d X a j
              = if (Nat.eqb a k && (j <? bn))%bool then X k j / d else X a j.
Proof.
  unfold row_div.
  apply (for_up_inv (fun cnt X1 => forall a j,
           X1 a j = if (Nat.eqb a k && (j <? cnt))%bool then X k j / d else X a j)).
  - intros a j. rewrite andb_false_r. reflexivity.
  - intros cnt X1 Hc IH a j. cbn [Nat.add]. rops.
    rewrite upd_eq, !IH. bdestr; subst; try lia; try reflexivity; try congruence.
Qed.

(* the `for i in k+1..n` loop of the substitutions: rows k < a < n get  X a j - X k j * c a *)
Lemma axpy_below_spec n bn k (c : nat -> R) (X : @Mx R) :
  forall a j, for_up (n - (k + 1)) (k + 1) (fun i X2 => row_axpy ROps bn i k (c i) X2) X a j
              = if ((k <? a) && (a <? n) && (j <? bn))%bool then X a j - X k j * c a else X a j.
Proof.
  assert (G : forall cnt a j,
    for_up cnt (k + 1) (fun i X2 => row_axpy ROps bn i k (c i) X2) X a j
    = if ((k <? a) && (a <? k + 1 + cnt) && (j <? bn))%bool then X a j - X k j * c a else X a j).
  { intros cnt.
    apply (for_up_inv (fun cnt X1 => forall a j,
       X1 a j = if ((k <? a) && (a <? k + 1 + cnt) && (j <? bn))%bool then X a j - X k j * c a else X a j)).
    - intros a j. bdestr; try lia; reflexivity.
    - intros c0 X1 Hc IH a j. rewrite row_axpy_spec by lia. rewrite !IH.
      bdestr; subst; try lia; try reflexivity. }
  intros a j. rewrite G. bdestr; try lia; reflexivity.
Qed.

(* the `for i in 0..k` loop of the back substitution: rows a < k *)
Lemma axpy_above_spec bn k (c : nat -> R) (X : @Mx R) :
  forall a j, for_up k 0 (fun i X3 => row_axpy ROps bn i k (c i) X3) X a j
              = if ((a <? k) && (j <? bn))%bool then X a j - X k j * c a else X a j.
Proof.
  assert (G : forall cnt, (cnt <= k)%nat -> forall a j,
    for_up cnt 0 (fun i X3 => row_axpy ROps bn i k (c i) X3) X a j
    = if ((a <? cnt) && (j <? bn))%bool then X a j - X k j * c a else X a j).
  { intros cnt.
    apply (for_up_inv (fun cnt X1 => (cnt <= k)%nat -> forall a j,
       X1 a j = if ((a <? cnt) && (j <? bn))%bool then X a j - X k j * c a else X a j)).
    - intros _ a j. reflexivity.
    - intros c0 X1 Hc IH Hk a j. cbn [Nat.add]. rewrite row_axpy_spec by lia. rewrite !IH by lia.
      bdestr; subst; try lia; try reflexivity. }
  intros a j. apply G. lia.
Qed.

(* ---------- (3) forward and back substitution ---------- *)
Lemma lu_forward_spec : forall n bn LU X0, let X1 := lu_forward ROps n bn LU X0 in
  (forall i j, (i < n)%nat -> (j < bn)%nat -> X1 i j + rsum i (fun t => LU i t * X1 t j) = X0 i j) /\
  (forall i j, (n <= i)%nat \/ (bn <= j)%nat -> X1 i j = X0 i j).
Proof.
  intros n bn LU X0. cbv zeta. unfold lu_forward.
  assert (G : forall K, (K <= n)%nat ->
    let X1 := for_up K 0 (fun k X1 =>
       for_up (n - (k + 1)) (k + 1) (fun i X2 => row_axpy ROps bn i k (LU i k) X2) X1) X0 in
    (forall i j, (i < n)%nat -> (j < bn)%nat ->
        X1 i j + rsum (Nat.min i K) (fun t => LU i t * X1 t j) = X0 i j) /\
    (forall i j, (n <= i)%nat \/ (bn <= j)%nat -> X1 i j = X0 i j)).
  { intros K. cbv zeta.
    apply (for_up_inv (fun K X1 => (K <= n)%nat ->
      (forall i j, (i < n)%nat -> (j < bn)%nat ->
         X1 i j + rsum (Nat.min i K) (fun t => LU i t * X1 t j) = X0 i j) /\
      (forall i j, (n <= i)%nat \/ (bn <= j)%nat -> X1 i j = X0 i j))).
    - intros _. split; [|reflexivity]. intros i j _ _. rewrite Nat.min_0_r, rsum_0. lra.
    - intros K0 X1 HK IH HKn. destruct (IH ltac:(lia)) as [Ha Hb]. cbn [Nat.add].
      pose proof (axpy_below_spec n bn K0 (fun i => LU i K0) X1) as E. cbv beta in E.
      split.
      + intros i j Hi Hj. rewrite E.
        destruct (Nat.ltb_spec K0 i) as [Hlt|Hge].
        * replace (Nat.min i (S K0)) with (S K0) by lia. rewrite rsum_S.
          rewrite (rsum_ext K0 _ (fun t => LU i t * X1 t j)).
          2:{ intros t Ht. rewrite E. bdestr; try lia; reflexivity. }
          rewrite E. specialize (Ha i j Hi Hj). replace (Nat.min i K0) with K0 in Ha by lia.
          bdestr; try lia. lra.
        * replace (Nat.min i (S K0)) with (Nat.min i K0) by lia.
          rewrite (rsum_ext _ _ (fun t => LU i t * X1 t j)).
          2:{ intros t Ht. rewrite E. bdestr; try lia; reflexivity. }
          cbn [andb]. apply Ha; assumption.
      + intros i j Hij. rewrite E. rewrite <- (Hb i j Hij). bdestr; try lia; reflexivity. }
  destruct (G n (le_n n)) as [Ha Hb]. split; [|exact Hb].
  intros i j Hi Hj. specialize (Ha i j Hi Hj). replace (Nat.min i n) with i in Ha by lia. exact Ha.
Qed.

Lemma back_subst_spec : forall n bn Uo dg X1, (forall k, (k < n)%nat -> dg k <> 0) ->
  let X2 := back_subst ROps n bn Uo dg X1 in
  (forall i j, (i < n)%nat -> (j < bn)%nat ->
     dg i * X2 i j + rsum (n - S i) (fun t => Uo i (S i + t)%nat * X2 (S i + t)%nat j) = X1 i j) /\
  (forall i j, (n <= i)%nat \/ (bn <= j)%nat -> X2 i j = X1 i j).
Proof.
  intros n bn Uo dg X1 Hdg. cbv zeta. unfold back_subst.
  set (P := fun (c : nat) (X : @Mx R) =>
     (forall i j, (c <= i < n)%nat -> (j < bn)%nat ->
        dg i * X i j + rsum (n - S i) (fun t => Uo i (S i + t)%nat * X (S i + t)%nat j) = X1 i j) /\
     (forall i j, (i < c)%nat -> (j < bn)%nat ->
        X i j + rsum (n - c) (fun t => Uo i (c + t)%nat * X (c + t)%nat j) = X1 i j) /\
     (forall i j, (n <= i)%nat \/ (bn <= j)%nat -> X i j = X1 i j)).
  match goal with |- context [for_down n ?f X1] => assert (G : P 0%nat (for_down n f X1)) end.
  { apply for_down_inv.
    - unfold P. split; [|split].
      + intros i j Hi. lia.
      + intros i j Hi Hj. rewrite Nat.sub_diag, rsum_0. lra.
      + reflexivity.
    - intros c X Hc (Ha & Ha' & Hb). cbv zeta.
      assert (E : forall a j,
        for_up c 0 (fun i X3 => row_axpy ROps bn i c (Uo i c) X3) (row_div ROps bn c (dg c) X) a j
        = if j <? bn then (if a <? c then X a j - X c j / dg c * Uo a c
                           else if Nat.eqb a c then X c j / dg c else X a j) else X a j).
      { intros a j. rewrite (axpy_above_spec bn c (fun i => Uo i c)). rewrite !row_div_spec.
        bdestr; subst; try lia; reflexivity. }
      set (X' := for_up c 0 _ _) in *. clearbody X'.
      unfold P. split; [|split].
      + intros i j Hi Hj. destruct (Nat.eq_dec i c) as [->|Hne].
        * rewrite <- (Ha' c j ltac:(lia) Hj).
          rewrite (rsum_ext _ _ (fun t => Uo c (S c + t)%nat * X (S c + t)%nat j)).
          2:{ intros t Ht. rewrite E. bdestr; try lia; reflexivity. }
          rewrite E. bdestr; try lia. specialize (Hdg c Hc). field. exact Hdg.
        * rewrite <- (Ha i j ltac:(lia) Hj).
          rewrite (rsum_ext _ _ (fun t => Uo i (S i + t)%nat * X (S i + t)%nat j)).
          2:{ intros t Ht. rewrite E. bdestr; try lia; reflexivity. }
          rewrite E. bdestr; try lia. reflexivity.
      + intros i j Hi Hj. rewrite <- (Ha' i j ltac:(lia) Hj).
        replace (n - c)%nat with (S (n - S c)) by lia. rewrite rsum_shift.
        rewrite (rsum_ext _ _ (fun t => Uo i (S c + t)%nat * X (S c + t)%nat j)).
        2:{ intros t Ht. rewrite E. replace (c + S t)%nat with (S c + t)%nat by lia.
            bdestr; try lia; reflexivity. }
        rewrite Nat.add_0_r. rewrite !E. bdestr; try lia. specialize (Hdg c Hc). field. exact Hdg.
      + intros i j Hij. rewrite E. rewrite <- (Hb i j Hij). bdestr; try lia; reflexivity. }
  destruct G as (Ha & _ & Hb). split; [|exact Hb].
  intros i j Hi Hj. apply Ha; [lia|exact Hj].
Qed.

(* ---------- LU: the small loops ---------- *)
Lemma lu_col_spec m j (A : @Mx R) :
  let A' := fst (lu_col ROps m j A) in
  let col := snd (lu_col ROps m j A) in
  (forall i, col i = A' i j) /\
  (forall i k, k <> j -> A' i k = A i k) /\
  (forall i, (i < m)%nat -> A' i j = A i j - rsum (Nat.min i j) (fun t => A i t * A' t j)) /\
  (forall i, (m <= i)%nat -> A' i j = A i j).
Proof.
  cbv zeta. unfold lu_col.
  apply (for_up_inv (fun r (st : @Mx R * @Vec R) =>
    (forall i, snd st i = fst st i j) /\
    (forall i k, k <> j -> fst st i k = A i k) /\
    (forall i, (i < r)%nat -> fst st i j = A i j - rsum (Nat.min i j) (fun t => A i t * fst st t j)) /\
    (forall i, (r <= i)%nat -> fst st i j = A i j))).
  - cbn [fst snd]. repeat split; intros; try reflexivity; lia.
  - intros r [A1 col] Hr (H1 & H2 & H3 & H4). cbn [fst snd Nat.add] in *. rops.
    change (osumn ROps) with rsum.
    assert (Es : rsum (Nat.min r j) (fun k => A1 r k * col k)
                 = rsum (Nat.min r j) (fun t => A r t * A1 t j)).
    { apply rsum_ext. intros t Ht. rewrite H1, H2 by lia. reflexivity. }
    rewrite Es. repeat split.
    + intros i. unfold updv. rewrite upd_eq, Nat.eqb_refl, andb_true_r.
      destruct (Nat.eqb r i); [reflexivity|apply H1].
    + intros i k Hk. rewrite upd_other by lia. apply H2, Hk.
    + intros i Hi. destruct (Nat.eq_dec i r) as [->|Hne].
      * rewrite upd_same, H1, H4 by lia. f_equal. apply rsum_ext. intros t Ht.
        rewrite upd_other by lia. reflexivity.
      * rewrite upd_other by lia. rewrite H3 by lia. f_equal. apply rsum_ext. intros t Ht.
        rewrite upd_other by lia. reflexivity.
    + intros i Hi. rewrite upd_other by lia. apply H4. lia.
Qed.

Lemma lu_pivot_spec m j (col : @Vec R) :
  let p := lu_pivot ROps m j col in
  (j <= p)%nat /\ ((j < m)%nat -> (p < m)%nat) /\
  (forall i, (j <= i < m)%nat -> Rabs (col i) <= Rabs (col p)).
Proof.
  cbv zeta. unfold lu_pivot.
  assert (G : forall cnt, let p := for_up cnt (j + 1)
      (fun i p => if gtb ROps (oabs ROps (col i)) (oabs ROps (col p)) then i else p) j in
      (j <= p < j + 1 + cnt)%nat /\ (forall i, (j <= i < j + 1 + cnt)%nat -> Rabs (col i) <= Rabs (col p))).
  { intros cnt. cbv zeta.
    apply (for_up_inv (fun cnt p => (j <= p < j + 1 + cnt)%nat /\
              (forall i, (j <= i < j + 1 + cnt)%nat -> Rabs (col i) <= Rabs (col p)))).
    - split; [lia|]. intros i Hi. replace i with j by lia. lra.
    - intros c p Hc [Hp Hmax]. unfold gtb. rops.
      destruct (Rltb (Rabs (col p)) (Rabs (col (j + 1 + c)%nat))) eqn:E.
      + apply Rltb_true in E. split; [lia|]. intros i Hi.
        destruct (Nat.eq_dec i (j + 1 + c)) as [->|Hne]; [lra|].
        specialize (Hmax i ltac:(lia)). lra.
      + apply Rltb_false in E. split; [lia|]. intros i Hi.
        destruct (Nat.eq_dec i (j + 1 + c)) as [->|Hne]; [lra|].
        apply Hmax. lia. }
  destruct (G (m - (j + 1))%nat) as [Hp Hmax]. split; [lia|]. split; [lia|].
  intros i Hi. apply Hmax. lia.
Qed.

Lemma swap_rows_spec n p j (A : @Mx R) :
  forall a k, swap_rows n p j A a k
              = if k <? n then (if Nat.eqb a j then A p k else if Nat.eqb a p then A j k else A a k)
                else A a k.
Proof.
  unfold swap_rows.
  apply (for_up_inv (fun cnt (X : @Mx R) => forall a k,
    X a k = if k <? cnt then (if Nat.eqb a j then A p k else if Nat.eqb a p then A j k else A a k)
            else A a k)).
  - intros a k. reflexivity.
  - intros c X Hc IH a k. cbn [Nat.add].
    assert (Ec : forall b, X b c = A b c) by (intros b; rewrite IH, Nat.ltb_irrefl; reflexivity).
    destruct (Nat.eq_dec k c) as [->|Hne].
    + rewrite (proj2 (Nat.ltb_lt c (S c))) by lia.
      destruct (Nat.eqb_spec a j) as [->|Haj]; [rewrite upd_same; apply Ec|].
      rewrite upd_other by lia.
      destruct (Nat.eqb_spec a p) as [->|Hap]; [rewrite upd_same; apply Ec|].
      rewrite upd_other by lia. apply Ec.
    + rewrite !upd_other by lia. rewrite IH.
      destruct (Nat.ltb_spec k c), (Nat.ltb_spec k (S c)); try lia; reflexivity.
Qed.

Lemma lu_scale_spec m j (A : @Mx R) : (j < m)%nat ->
  (A j j <> 0 ->
     (forall a, (j < a < m)%nat -> lu_scale ROps m j A a j = A a j / A j j) /\
     (forall a k, ~ (k = j /\ (j < a < m)%nat) -> lu_scale ROps m j A a k = A a k)) /\
  (A j j = 0 -> forall a k, lu_scale ROps m j A a k = A a k).
Proof.
  intros Hj. unfold lu_scale. rewrite (proj2 (Nat.ltb_lt j m) Hj). cbn [andb]. split.
  - intros Hnz. rewrite (proj2 (nez_R _) Hnz).
    assert (G : forall cnt,
      let X := for_up cnt (j + 1) (fun i A1 => upd A1 i j (odiv ROps (A1 i j) (A1 j j))) A in
      (forall a, (j < a < j + 1 + cnt)%nat -> X a j = A a j / A j j) /\
      (forall a k, ~ (k = j /\ (j < a < j + 1 + cnt)%nat) -> X a k = A a k)).
    { intros cnt. cbv zeta.
      apply (for_up_inv (fun cnt (X : @Mx R) =>
        (forall a, (j < a < j + 1 + cnt)%nat -> X a j = A a j / A j j) /\
        (forall a k, ~ (k = j /\ (j < a < j + 1 + cnt)%nat) -> X a k = A a k))).
      - split; [intros; lia|reflexivity].
      - intros c X Hc [IH1 IH2]. rops. split.
        + intros a Ha. destruct (Nat.eq_dec a (j + 1 + c)) as [->|Hne].
          * rewrite upd_same, !IH2 by lia. reflexivity.
          * rewrite upd_other by lia. apply IH1. lia.
        + intros a k Hak. rewrite upd_other by lia. apply IH2. lia. }
    destruct (G (m - (j + 1))%nat) as [G1 G2]. split.
    + intros a Ha. apply G1. lia.
    + intros a k Hak. apply G2. lia.
  - intros Hz. rewrite (proj2 (nez_R_false _) Hz). reflexivity.
Qed.
