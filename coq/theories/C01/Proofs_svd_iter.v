(* C01 — SVD, the iteration of svd_mut as a whole (exact arithmetic, threshold eps = 0):
   IF svd_mut returns THEN the returned factors are a singular value decomposition of A. *)
From Coq Require Import List Arith Bool ZArith Reals Lra Lia.
From SC Require Import Base.Num C01.Model C01.Proofs C01.Proofs_qr C01.Proofs_svd C01.Proofs_svd_refl
  C01.Proofs_svd_bidiag C01.Proofs_svd_accum C01.Proofs_svd_sweep.
Import ListNotations.  Open Scope R_scope.

(* ---------- the search for a negligible (here: exactly zero) entry ---------- *)
Lemma find_split_spec anorm (w rv1 : nat -> R) : forall fuel l0 nm0 l nm flag, (l0 < fuel)%nat ->
  find_split ROps 0 fuel anorm w rv1 l0 nm0 = (l, nm, flag) ->
  (l <= l0)%nat /\ (forall t, (l < t <= l0)%nat -> rv1 t <> 0) /\ (forall t, (l <= t < l0)%nat -> w t <> 0) /\
  (flag = false -> rv1 l = 0) /\
  (flag = true -> l = 0%nat \/ ((0 < l)%nat /\ (nm + 1 = l)%nat /\ w nm = 0 /\ rv1 l <> 0)).
Proof.
  induction fuel as [|fu IH]; intros l0 nm0 l nm flag Hf E; [lia|].
  cbn [find_split] in E. destruct (Nat.eqb_spec l0 0) as [H0|H0].
  { injection E as <- <- <-. repeat split; try lia; try (intros; lia); try discriminate; try (intros _; left; exact H0). }
  cbn [oleb oabs omul ROps] in E.
  destruct (Rleb (Rabs (rv1 l0)) (0 * anorm)) eqn:E1.
  { apply Rleb_abs0 in E1. injection E as <- <- <-.
    repeat split; try lia; try (intros; lia); try discriminate; try (intros _; exact E1). }
  assert (Hr : rv1 l0 <> 0).
  { intros H. apply Rleb_abs0 with (anorm := anorm) in H. congruence. }
  destruct (Rleb (Rabs (w (l0 - 1)%nat)) (0 * anorm)) eqn:E2.
  { apply Rleb_abs0 in E2. injection E as <- <- <-.
    repeat split; try lia; try (intros; lia); try discriminate; try (intros _; right; repeat split; try lia; assumption). }
  assert (Hw : w (l0 - 1)%nat <> 0).
  { intros H. apply Rleb_abs0 with (anorm := anorm) in H. congruence. }
  destruct (IH (l0 - 1)%nat (l0 - 1)%nat l nm flag ltac:(lia) E) as (I1 & I2 & I3 & I4 & I5).
  split; [lia|]. split; [|split; [|split]]; try assumption.
  - intros t Ht. destruct (Nat.eq_dec t l0) as [->|Hne]; [exact Hr|apply I2; lia].
  - intros t Ht. destruct (Nat.eq_dec t (l0 - 1)) as [->|Hne]; [exact Hw|apply I3; lia].
Qed.

Lemma SInv_ext m n A U V w rv1 w' rv1' :
  (forall t, (t < n)%nat -> w' t = w t) -> (forall t, (t < n)%nat -> rv1' t = rv1 t) -> (0 < n)%nat ->
  SInv m n A U V w rv1 -> SInv m n A U V w' rv1'.
Proof.
  intros Hw Hr Hn (OU & OV & HP & H0). split; [exact OU|]. split; [exact OV|]. split.
  - intros i k Hi Hk. rewrite <- HP by assumption. apply UBVt_ext; try reflexivity.
    intros a b Ha Hb. unfold Bd. bdestr; [apply Hw|apply Hr]; lia.
  - rewrite Hr by assumption. exact H0.
Qed.

(* what the iteration for k sees after the split search and the optional cancellation *)
Definition iter_prep (m k : nat) (anorm : R) (st : @svd_st R) (l nm1 : nat) (flag : bool) : @Mx R * (nat -> R) * (nat -> R) :=
  if flag then
    let cst := cancel ROps 0 m l k nm1 anorm (sU st) (sw st) (srv1 st) in (cU cst, cw cst, crv1 cst)
  else (sU st, sw st, srv1 st).

Definition KInv (m n : nat) (A : @Mx R) (c : nat) (st : @svd_st R) : Prop :=
  SInv m n A (sU st) (sV st) (sw st) (srv1 st) /\ orthorows n (sV st) /\
  (forall t, (c <= t < n)%nat -> srv1 st t = 0 /\ 0 <= sw st t).

Lemma iter_prep_spec m n A k anorm st nm l nm1 flag : (k < n)%nat -> KInv m n A (S k) st ->
  find_split ROps 0 (S k) anorm (sw st) (srv1 st) k nm = (l, nm1, flag) ->
  let '(U1, w1, rv1) := iter_prep m k anorm st l nm1 flag in
  (l <= k)%nat /\ SInv m n A U1 (sV st) w1 rv1 /\ block_ok n l k w1 rv1 /\
  (forall t, (k < t < n)%nat -> w1 t = sw st t /\ rv1 t = srv1 st t).
Proof.
  intros Hk (HS & _ & HK) E.
  destruct (find_split_spec anorm (sw st) (srv1 st) (S k) k nm l nm1 flag ltac:(lia) E) as (F1 & F2 & F3 & F4 & F5).
  assert (Hk1 : (k + 1 < n)%nat -> srv1 st (k + 1)%nat = 0) by (intros H; apply HK; lia).
  unfold iter_prep. destruct flag.
  - destruct (Req_dec (srv1 st l) 0) as [Hz|Hnz].
    + destruct (cancel_break m l k nm1 anorm (sU st) (sw st) (srv1 st) F1 Hz) as (C1 & C2 & C3).
      cbv zeta in *. rewrite C1, C2. split; [exact F1|]. split; [|split].
      * apply (SInv_ext m n A _ _ (sw st) (srv1 st)); auto. lia.
      * split; [|split; [|split]].
        -- intros t Ht. rewrite C3. apply F2. exact Ht.
        -- exact F3.
        -- rewrite C3. exact Hz.
        -- intros H. rewrite C3. apply Hk1. exact H.
      * intros t Ht. split; [reflexivity|apply C3].
    + destruct (F5 eq_refl) as [Hl0|(Hl & Hnm & Hw & _)].
      { exfalso. apply Hnz. rewrite Hl0. apply HS. }
      destruct (cancel_spec_nz m n A l k nm1 anorm (sU st) (sV st) (sw st) (srv1 st) Hnm F1 Hk Hw Hnz HS F2 F3 Hk1)
        as (D1 & D2 & D3 & D4 & D5).
      cbv zeta in *. split; [exact F1|]. split; [exact D1|]. split.
      * split; [exact D4|]. split; [exact D5|]. split; [exact D3|].
        intros H. rewrite (proj2 (D2 (k + 1)%nat ltac:(lia))). apply Hk1. exact H.
      * intros t Ht. apply D2. lia.
  - split; [exact F1|]. split; [exact HS|]. split.
    + split; [exact F2|]. split; [exact F3|]. split; [apply F4; reflexivity|exact Hk1].
    + intros; split; reflexivity.
Qed.

(* negating column k of V together with w[k] when rv1[k] = 0 *)
Lemma neg_fix m n A U V w rv1 k : (k < n)%nat -> rv1 k = 0 -> SInv m n A U V w rv1 ->
  SInv m n A U (neg_col ROps n k V) (updv w k (- w k)) rv1.
Proof.
  intros Hk Hr (OU & OV & HP & H0). split; [exact OU|]. split; [|split; [|exact H0]].
  - intros a b Ha Hb. rewrite <- (OV a b Ha Hb).
    destruct (Nat.eqb_spec a k) as [->|Ha'], (Nat.eqb_spec b k) as [->|Hb'].
    + apply rsum_ext. intros i Hi. rewrite !neg_col_spec. rewrite (proj2 (Nat.ltb_lt i n) Hi), Nat.eqb_refl. cbn [andb]. ring.
    + transitivity (- rsum n (fun i => V i k * V i b)).
      * rewrite <- rsum_opp. apply rsum_ext. intros i Hi. rewrite !neg_col_spec.
        rewrite (proj2 (Nat.ltb_lt i n) Hi), Nat.eqb_refl. replace (Nat.eqb b k) with false by (symmetry; bdestr). cbn [andb]. ring.
      * rewrite (OV k b Hk Hb). replace (Nat.eqb k b) with false by (symmetry; bdestr). ring.
    + transitivity (- rsum n (fun i => V i a * V i k)).
      * rewrite <- rsum_opp. apply rsum_ext. intros i Hi. rewrite !neg_col_spec.
        rewrite (proj2 (Nat.ltb_lt i n) Hi), Nat.eqb_refl. replace (Nat.eqb a k) with false by (symmetry; bdestr). cbn [andb]. ring.
      * rewrite (OV a k Ha Hk). replace (Nat.eqb a k) with false by (symmetry; bdestr). ring.
    + apply rsum_ext. intros i Hi. rewrite !neg_col_spec.
      replace (Nat.eqb a k) with false by (symmetry; bdestr). replace (Nat.eqb b k) with false by (symmetry; bdestr).
      rewrite !andb_false_r. reflexivity.
  - intros i k' Hi Hk'. rewrite <- HP by assumption. unfold UBVt. apply rsum_ext. intros a Ha. apply rsum_ext. intros b Hb.
    rewrite neg_col_spec. rewrite (proj2 (Nat.ltb_lt k' n) Hk'). cbn [andb]. unfold Bd, updv.
    bdestr; try ring. rewrite Hr. ring.
Qed.

Lemma neg_col_orthorows n k (V : @Mx R) : orthorows n V -> orthorows n (neg_col ROps n k V).
Proof.
  intros HV a b Ha Hb. rewrite <- (HV a b Ha Hb). apply rsum_ext. intros j Hj. rewrite !neg_col_spec.
  rewrite (proj2 (Nat.ltb_lt a n) Ha), (proj2 (Nat.ltb_lt b n) Hb). cbn [andb]. destruct (Nat.eqb j k); ring.
Qed.
Lemma col_rel_orthorows m n st st' sigma e : col_rel m n st st' sigma e -> orthorows n (sV st) -> orthorows n (sV st').
Proof.
  intros (Hr & Hinj & He & _ & _ & HV) Ho a b Ha Hb. rewrite <- (Ho a b Ha Hb).
  rewrite <- (rsum_perm n sigma (fun j => sV st a j * sV st b j) Hr Hinj).
  apply rsum_ext. intros j Hj. rewrite !HV by assumption.
  transitivity ((e j * e j) * (sV st a (sigma j) * sV st b (sigma j))); [ring|].
  rewrite (sign_sq _ (He j Hj)). ring.
Qed.

Lemma svd_iter_S cs fu it m n k anorm nm (st : @svd_st R) :
  svd_iter ROps 0 cs (S fu) it m n k anorm nm st =
  let '(l, nm1, flag) := find_split ROps 0 (S k) anorm (sw st) (srv1 st) k nm in
  let '(U1, w1, rv1) := iter_prep m k anorm st l nm1 flag in
  let z := w1 k in
  if Nat.eqb l k then
    (if Rltb z 0 then Some (mkSVD U1 (neg_col ROps n k (sV st)) (updv w1 k (- z)) rv1, nm1)
     else Some (mkSVD U1 (sV st) w1 rv1, nm1))
  else if Nat.eqb it 29 then None
  else svd_iter ROps 0 cs fu (S it) m n k anorm (k - 1) (sweep ROps cs m n l k U1 (sV st) w1 rv1).
Proof.
  cbn [svd_iter]. destruct (find_split ROps 0 (S k) anorm (sw st) (srv1 st) k nm) as [[l nm1] flag].
  unfold iter_prep. destruct flag; reflexivity.
Qed.

Lemma svd_iter_spec cs m n A k anorm : (k < n)%nat ->
  forall fuel it nm st st' nm', KInv m n A (S k) st ->
  svd_iter ROps 0 cs fuel it m n k anorm nm st = Some (st', nm') -> KInv m n A k st'.
Proof.
  intros Hk. induction fuel as [|fu IH]; intros it nm st st' nm' HK E; [discriminate|].
  rewrite svd_iter_S in E.
  destruct (find_split ROps 0 (S k) anorm (sw st) (srv1 st) k nm) as [[l nm1] flag] eqn:Efs.
  pose proof (iter_prep_spec m n A k anorm st nm l nm1 flag Hk HK Efs) as Hp.
  destruct (iter_prep m k anorm st l nm1 flag) as [[U1 w1] rv1]. cbv zeta in E.
  destruct Hp as (Hlk & HS1 & (B1 & B2 & B3 & B4) & Hfr).
  destruct HK as (_ & HR & HKt).
  assert (Habove : forall t, (S k <= t < n)%nat -> rv1 t = 0 /\ 0 <= w1 t).
  { intros t Ht. destruct (Hfr t ltac:(lia)) as [-> ->]. apply HKt. exact Ht. }
  destruct (Nat.eqb_spec l k) as [Hl|Hl].
  - subst l. destruct (Rltb (w1 k) 0) eqn:Ez.
    + apply Rltb_true in Ez. injection E as <- <-. split; [|split]; cbn [sU sV sw srv1].
      * apply neg_fix; assumption.
      * apply neg_col_orthorows. exact HR.
      * intros t Ht. destruct (Nat.eq_dec t k) as [->|Hne].
        -- split; [exact B3|]. rewrite updv_same. lra.
        -- rewrite updv_other by lia. apply Habove. lia.
    + apply Rltb_false in Ez. injection E as <- <-. split; [|split]; cbn [sU sV sw srv1]; [exact HS1|exact HR|].
      intros t Ht. destruct (Nat.eq_dec t k) as [->|Hne]; [split; [exact B3|exact Ez]|apply Habove; lia].
  - destruct (Nat.eqb it 29); [discriminate|].
    apply IH in E; [exact E|].
    destruct (sweep_spec cs m n A l k U1 (sV st) w1 rv1 ltac:(lia) Hk HS1 (conj B1 (conj B2 (conj B3 B4)))) as (S1 & S2 & S3).
    cbv zeta in *. split; [exact S1|]. split; [exact (S3 HR)|].
    intros t Ht. destruct (S2 t ltac:(lia) ltac:(lia)) as [-> ->]. apply Habove. exact Ht.
Qed.

(* ---------- svd_mut as a whole ---------- *)
Definition svd_outer (cs : R -> R -> R) (m n : nat) (anorm : R) (st0 : @svd_st R) : option (@svd_st R * nat) :=
  for_down n (fun k (acc : option (@svd_st R * nat)) =>
     match acc with
     | None => None
     | Some (st, nm) => svd_iter ROps 0 cs 30 0 m n k anorm nm st
     end) (Some (st0, 0%nat)).

Lemma svd_mut_eq cs minpos m n (A : @Mx R) :
  svd_mut ROps 0 cs minpos m n A =
  match svd_outer cs m n (snd (svd_stage1 cs minpos m n A)) (fst (svd_stage1 cs minpos m n A)) with
  | None => None
  | Some (st, _) => Some (svd_post ROps m n st)
  end.
Proof.
  unfold svd_mut, svd_outer, svd_stage1, svd_bd, bd_init.
  destruct (for_down n _ (zeros ROps, _, _)) as [[v g] l]. reflexivity.
Qed.

Lemma svd_outer_spec cs m n A anorm st0 st nm : KInv m n A n st0 ->
  svd_outer cs m n anorm st0 = Some (st, nm) -> KInv m n A 0 st.
Proof.
  intros H0 E. unfold svd_outer in E.
  pose (P := fun (c : nat) (acc : option (@svd_st R * nat)) =>
              match acc with None => True | Some (st, _) => KInv m n A c st end).
  match type of E with for_down n ?f ?s = _ => assert (HP : P 0%nat (for_down n f s)) end.
  { apply for_down_inv.
    - exact H0.
    - intros c [[st1 nm1]|] Hc HPc; [|exact I]. unfold P in *.
      destruct (svd_iter ROps 0 cs 30 0 m n c anorm nm1 st1) as [[st2 nm2]|] eqn:Ei; [|exact I].
      apply (svd_iter_spec cs m n A c anorm Hc 30%nat 0%nat nm1 st1 st2 nm2 HPc Ei). }
  rewrite E in HP. exact HP.
Qed.

Lemma UBVt_diag n U V (w rv1 : nat -> R) i k : (forall t, (t < n)%nat -> rv1 t = 0) ->
  UBVt n U (Bd w rv1) V i k = svd_A n U w V i k.
Proof.
  intros H. unfold UBVt, svd_A. apply rsum_ext. intros a Ha.
  rewrite (rsum_single n a) by (try assumption; intros b Hb Hne; unfold Bd; bdestr; try (rewrite H by lia); ring).
  unfold Bd. rewrite Nat.eqb_refl. reflexivity.
Qed.

Lemma col_rel_Urows m n st st' sigma e : col_rel m n st st' sigma e ->
  (forall a b, (a < m)%nat -> (b < m)%nat -> rsum n (fun j => sU st a j * sU st b j) = if Nat.eqb a b then 1 else 0) ->
  (forall a b, (a < m)%nat -> (b < m)%nat -> rsum n (fun j => sU st' a j * sU st' b j) = if Nat.eqb a b then 1 else 0).
Proof.
  intros (Hr & Hinj & He & _ & HU & _) Ho a b Ha Hb. rewrite <- (Ho a b Ha Hb).
  rewrite <- (rsum_perm n sigma (fun j => sU st a j * sU st b j) Hr Hinj).
  apply rsum_ext. intros j Hj. rewrite !HU by assumption.
  transitivity ((e j * e j) * (sU st a (sigma j) * sU st b (sigma j))); [ring|].
  rewrite (sign_sq _ (He j Hj)). ring.
Qed.

(* PARTIAL CORRECTNESS of svd_mut in exact arithmetic (threshold eps = 0, regular bidiagonal entries), every
   shape: whatever it returns satisfies A = U diag(s) V^T with V orthogonal, s >= 0 non-increasing, and U with
   orthonormal columns (m >= n) resp. orthonormal rows (m <= n) *)
Theorem svd_mut_correct_gen : forall (minpos : R) (cs : R -> R -> R) m n (A : @Mx R) st,
  0 < minpos -> cs_spec cs ->
  bd_regular minpos n (svd_bd cs m n A) ->
  svd_mut ROps 0 cs minpos m n A = Some st ->
  Uorth m n (sU st) /\ orthocols n n (sV st) /\
  (forall i k, (i < m)%nat -> (k < n)%nat -> svd_A n (sU st) (sw st) (sV st) i k = A i k) /\
  (forall j, (j < n)%nat -> 0 <= sw st j) /\
  (forall a b, (a <= b)%nat -> (b < n)%nat -> sw st b <= sw st a) /\
  orthorows n (sV st).
Proof.
  intros minpos cs m n A st Hmp Hcs Hreg E. rewrite svd_mut_eq in E.
  pose proof (svd_stage1_correct_gen cs minpos m n A Hcs Hmp Hreg) as H1. cbv zeta in H1.
  destruct (svd_stage1 cs minpos m n A) as [st0 anorm]. cbn [fst snd] in *.
  destruct (svd_outer cs m n anorm st0) as [[st1 nm1]|] eqn:Eo; [|discriminate].
  injection E as <-.
  assert (K0 : KInv m n A n st0).
  { destruct H1 as (O1 & O2 & O3 & O4 & O5). split; [|split; [exact O5|intros; lia]]. split; [exact O1|]. split; [exact O2|]. split; [exact O3|exact O4]. }
  destruct (svd_outer_spec cs m n A anorm st0 st1 nm1 K0 Eo) as (((OU1 & OU2) & OV & HP & _) & OR & Hall).
  destruct (svd_post_invariant m n st1) as (_ & Hprod & Hsort & Hnn & HoU & HoV).
  destruct (svd_post_rel m n st1) as (sg & ee & Hrel).
  cbv zeta in *.
  split; [|split; [exact (HoV OV)|split; [|split; [|split]]]].
  - split.
    + intros Hnm. exact (HoU (OU1 Hnm)).
    + intros Hmn. exact (col_rel_Urows m n _ _ sg ee Hrel (OU2 Hmn)).
  - intros i k Hi Hk. unfold svd_A. rewrite (Hprod i k Hi Hk). rewrite <- (HP i k Hi Hk).
    symmetry. apply UBVt_diag. intros t Ht. apply Hall. lia.
  - apply Hnn. intros j Hj. apply Hall. lia.
  - exact Hsort.
  - exact (col_rel_orthorows m n _ _ sg ee Hrel OR).
Qed.

Theorem svd_mut_correct : forall (minpos : R) (cs : R -> R -> R) m n (A : @Mx R) st,
  (n <= m)%nat -> 0 < minpos -> cs_spec cs ->
  bd_regular minpos n (svd_bd cs m n A) ->
  svd_mut ROps 0 cs minpos m n A = Some st ->
  orthocols m n (sU st) /\ orthocols n n (sV st) /\
  (forall i k, (i < m)%nat -> (k < n)%nat -> svd_A n (sU st) (sw st) (sV st) i k = A i k) /\
  (forall j, (j < n)%nat -> 0 <= sw st j) /\
  (forall a b, (a <= b)%nat -> (b < n)%nat -> sw st b <= sw st a) /\
  orthorows n (sV st).
Proof.
  intros minpos cs m n A st Hnm Hmp Hcs Hreg E.
  destruct (svd_mut_correct_gen minpos cs m n A st Hmp Hcs Hreg E) as ((O1 & _) & R).
  split; [exact (O1 Hnm)|exact R].
Qed.

(* the wide case as the code handles it: U is m x n with U U^T = I_m (its columns cannot be orthonormal) *)
Theorem svd_mut_correct_wide : forall (minpos : R) (cs : R -> R -> R) m n (A : @Mx R) st,
  (m <= n)%nat -> 0 < minpos -> cs_spec cs ->
  bd_regular minpos n (svd_bd cs m n A) ->
  svd_mut ROps 0 cs minpos m n A = Some st ->
  (forall a b, (a < m)%nat -> (b < m)%nat -> rsum n (fun j => sU st a j * sU st b j) = if Nat.eqb a b then 1 else 0) /\
  orthocols n n (sV st) /\ orthorows n (sV st) /\
  (forall i k, (i < m)%nat -> (k < n)%nat -> svd_A n (sU st) (sw st) (sV st) i k = A i k) /\
  (forall j, (j < n)%nat -> 0 <= sw st j) /\
  (forall a b, (a <= b)%nat -> (b < n)%nat -> sw st b <= sw st a).
Proof.
  intros minpos cs m n A st Hmn Hmp Hcs Hreg E.
  destruct (svd_mut_correct_gen minpos cs m n A st Hmp Hcs Hreg E) as ((_ & O2) & OV & HA & Hnn & Hs & OR).
  split; [exact (O2 Hmn)|]. repeat split; assumption.
Qed.

(* ---------- SVD::solve end to end: for the factors svd_mut itself computes ---------- *)
Theorem svd_solve_lsq_end_to_end : forall eps minpos cs m n p (A b : @Mx R) st,
  (n <= m)%nat -> 0 < minpos -> cs_spec cs -> bd_regular minpos n (svd_bd cs m n A) ->
  svd_mut ROps 0 cs minpos m n A = Some st ->
  (forall j, (j < n)%nat -> svd_tol ROps eps m n (sw st) < sw st j \/ sw st j = 0) ->
  let X := svd_solve ROps eps m n p (sU st) (sw st) (sV st) b in
  forall c k, (c < n)%nat -> (k < p)%nat ->
    rsum m (fun i => A i c * (rsum n (fun t => A i t * X t k) - b i k)) = 0.
Proof.
  intros eps minpos cs m n p A b st Hnm Hmp Hcs Hreg E Htol X c k Hc Hk.
  destruct (svd_mut_correct minpos cs m n A st Hnm Hmp Hcs Hreg E) as (OU & OV & HA & _ & _ & OR).
  pose proof (svd_solve_lsq eps m n p (sU st) (sw st) (sV st) b OU OV OR Htol c k Hc Hk) as H.
  cbv zeta in H. rewrite <- H. apply rsum_ext. intros i Hi. rewrite HA by assumption.
  f_equal. f_equal. apply rsum_ext. intros t Ht. rewrite HA by assumption. reflexivity.
Qed.

Theorem svd_solve_min_norm_end_to_end : forall eps minpos cs m n p (A b : @Mx R) st,
  (n <= m)%nat -> 0 < minpos -> cs_spec cs -> bd_regular minpos n (svd_bd cs m n A) ->
  svd_mut ROps 0 cs minpos m n A = Some st ->
  (forall j, (j < n)%nat -> svd_tol ROps eps m n (sw st) < sw st j \/ sw st j = 0) ->
  let X := svd_solve ROps eps m n p (sU st) (sw st) (sV st) b in
  forall k (y : nat -> R), (k < p)%nat ->
    (forall c, (c < n)%nat -> rsum m (fun i => A i c * (rsum n (fun t => A i t * y t) - b i k)) = 0) ->
    rsum n (fun t => X t k * X t k) <= rsum n (fun t => y t * y t).
Proof.
  intros eps minpos cs m n p A b st Hnm Hmp Hcs Hreg E Htol X k y Hk Hy.
  destruct (svd_mut_correct minpos cs m n A st Hnm Hmp Hcs Hreg E) as (OU & OV & HA & _ & _ & OR).
  apply (svd_solve_min_norm eps m n p (sU st) (sw st) (sV st) b OU OV OR Htol k y Hk).
  intros c Hc. rewrite <- (Hy c Hc). apply rsum_ext. intros i Hi. rewrite HA by assumption.
  f_equal. f_equal. apply rsum_ext. intros t Ht. rewrite HA by assumption. reflexivity.
Qed.

(* ---------- satisfiability: every column vector (m x 1 matrix) ---------- *)
(* for n = 1 the iteration returns at once (there is no super-diagonal), whatever the matrix *)
Lemma svd_mut_column_returns cs minpos m (A : @Mx R) : exists st, svd_mut ROps 0 cs minpos m 1 A = Some st.
Proof.
  rewrite svd_mut_eq. destruct (svd_stage1 cs minpos m 1 A) as [st0 anorm]. cbn [fst snd].
  unfold svd_outer. cbn [for_down]. rewrite svd_iter_S. cbn [find_split Nat.eqb].
  destruct (iter_prep m 0 anorm st0 0 0 true) as [[U1 w1] rv1]. cbv zeta.
  destruct (Rltb (w1 0%nat) 0); eexists; reflexivity.
Qed.
Example svd_column_instance : forall cs m (A : @Mx R), cs_spec cs -> (1 <= m)%nat ->
  exists minpos st, 0 < minpos /\ bd_regular minpos 1 (svd_bd cs m 1 A) /\
                    svd_mut ROps 0 cs minpos m 1 A = Some st.
Proof.
  intros cs m A Hcs Hm.
  pose proof (svd_bd_inv cs m 1 A Hcs) as (_ & _ & _ & _ & I5 & _). cbv zeta in I5.
  set (bd := svd_bd cs m 1 A) in *.
  assert (Hr0 : brv1 bd 0%nat = 0) by (unfold epend in I5; cbn [Nat.ltb Nat.leb] in I5; exact I5).
  destruct (Req_dec (bw bd 0%nat) 0) as [Hw|Hw].
  - exists 1. destruct (svd_mut_column_returns cs 1 m A) as [st Hst]. exists st.
    split; [lra|]. split; [|exact Hst].
    split; intros t Ht; assert (t = 0)%nat by lia; subst t; left; assumption.
  - exists (Rabs (bw bd 0%nat)). destruct (svd_mut_column_returns cs (Rabs (bw bd 0%nat)) m A) as [st Hst]. exists st.
    split; [apply Rabs_pos_lt; exact Hw|]. split; [|exact Hst].
    split; intros t Ht; assert (t = 0)%nat by lia; subst t; [right|left; assumption].
    apply invertible_R. lra.
Qed.

(* the hypotheses of sweep_spec are satisfiable: B = [[1,1],[0,1]] with U = V = I, block 0..1 *)
Example svd_sweep_hyps :
  let w := fun _ : nat => 1 in let rv1 := fun t : nat => if Nat.eqb t 1 then 1 else 0 in
  SInv 2 2 (Bd w rv1) (identity ROps) (identity ROps) w rv1 /\ block_ok 2 0 1 w rv1.
Proof.
  cbv zeta. split.
  - split; [split; [intros _; exact identity_orthocols2|intros _; exact identity_orthorows2]|].
    split; [exact identity_orthocols2|]. split; [|reflexivity].
    intros i k Hi Hk. unfold UBVt. rewrite !rsum_S, !rsum_0. unfold identity, Bd. cbn [o0 o1 ROps].
    destruct i as [|[|i]]; [| |lia]; (destruct k as [|[|k]]; [| |lia]); cbn [Nat.eqb Nat.add]; ring.
  - split; [|split; [|split]].
    + intros t Ht. assert (t = 1)%nat by lia. subst t. cbn [Nat.eqb]. lra.
    + intros t Ht. lra.
    + reflexivity.
    + intros H. lia.
Qed.

(* ---------- a convergence case: an already diagonal B (rv1 = 0) is accepted at once ---------- *)
Lemma svd_outer_diag cs m n anorm (st0 : @svd_st R) : (forall t, (t < n)%nat -> srv1 st0 t = 0) ->
  exists st nm, svd_outer cs m n anorm st0 = Some (st, nm).
Proof.
  intros H0. unfold svd_outer.
  pose (P := fun (c : nat) (acc : option (@svd_st R * nat)) =>
    exists st nm, acc = Some (st, nm) /\ forall t, (t < n)%nat -> srv1 st t = 0).
  match goal with |- exists st nm, for_down n ?f ?s = _ => assert (HP : P 0%nat (for_down n f s)) end.
  { apply for_down_inv.
    - exists st0, 0%nat. split; [reflexivity|exact H0].
    - intros k acc Hk (st & nm & -> & Hz). unfold P. rewrite svd_iter_S.
      cbn [find_split]. destruct (Nat.eqb_spec k 0) as [->|Hk0].
      + destruct (cancel_break m 0 0 nm anorm (sU st) (sw st) (srv1 st) (le_n 0) (Hz 0%nat Hk)) as (C1 & C2 & C3).
        unfold iter_prep. cbv zeta in *. cbn [Nat.eqb].
        destruct (Rltb _ 0); eexists; eexists; (split; [reflexivity|]); cbn [srv1]; intros t Ht; rewrite C3; apply Hz; exact Ht.
      + cbn [oleb oabs omul ROps].
        replace (Rleb (Rabs (srv1 st k)) (0 * anorm)) with true by (symmetry; apply Rleb_abs0; apply Hz; exact Hk).
        unfold iter_prep. cbv zeta. rewrite Nat.eqb_refl.
        destruct (Rltb _ 0); eexists; eexists; (split; [reflexivity|]); cbn [srv1]; exact Hz. }
  destruct HP as (st & nm & E & _). exists st, nm. exact E.
Qed.

(* the zero matrix of ANY shape (tall, square, wide): every step takes its skip branch *)
Definition A0 : @Mx R := fun _ _ => 0.
Lemma svd_bd_zero cs m n : let bd := svd_bd cs m n A0 in
  (forall t, (t < n)%nat -> bw bd t = 0) /\ (forall t, (t < n)%nat -> brv1 bd t = 0).
Proof.
  cbv zeta. unfold svd_bd.
  pose (Z := fun (c : nat) (st : @bidiag_st R) =>
    (forall r k, (r < m)%nat -> (k < n)%nat -> bU st r k = 0) /\ (forall t, (t < n)%nat -> bw st t = 0) /\
    (forall t, (t < n)%nat -> brv1 st t = 0) /\ bg st = 0).
  assert (HZ : Z n (for_up n 0 (bidiag_step ROps cs m n) (bd_init A0))).
  { apply for_up_inv.
    - unfold Z, bd_init. cbn [bU bw brv1 bg]. repeat split; intros; reflexivity.
    - intros c st Hc (Z1 & Z2 & Z3 & Z4). cbn [Nat.add]. destruct (le_lt_dec m c) as [Hmc|Hcm].
      + rewrite bidiag_step_skip by assumption. unfold Z. cbn [bU bw brv1 bg].
        split; [|split; [|split]].
        * intros r k Hr Hk. rewrite freeze_in by assumption. apply Z1; assumption.
        * intros t Ht. rewrite freezev_in by assumption. unfold updv. bdestr; [ring|apply Z2; assumption].
        * intros t Ht. rewrite freezev_in by assumption. unfold updv. bdestr; [rewrite Z4; ring|apply Z3; assumption].
        * reflexivity.
      + rewrite bidiag_step_eq by assumption. cbv zeta.
        assert (EL : bd_left cs m n c (bU st) = (bU st, 0, 0)).
        { unfold bd_left. rewrite sum_from_rsum.
          rewrite (rsum_zero (m - c)) by (intros t Ht; rewrite Z1 by lia; apply Rabs_R0).
          replace (nez ROps 0) with false by (symmetry; apply nez_R_false; reflexivity). reflexivity. }
        rewrite EL.
        assert (ER : exists sc, bd_right cs m n c (bU st) (updv (brv1 st) c (bscale st * bg st)) =
                                (bU st, updv (brv1 st) c (bscale st * bg st), 0, sc)).
        { unfold bd_right. destruct (negb (Nat.eqb (c + 1) n)); [|eexists; reflexivity].
          rewrite sum_from_rsum.
          rewrite (rsum_zero (n - (c + 2 - 1))) by (intros t Ht; rewrite Z1 by lia; apply Rabs_R0).
          replace (nez ROps 0) with false by (symmetry; apply nez_R_false; reflexivity). eexists; reflexivity. }
        destruct ER as [sc ER]. rewrite ER. unfold Z. cbn [bU bw brv1 bg].
        split; [|split; [|split]].
        * intros r k Hr Hk. rewrite freeze_in by assumption. apply Z1; assumption.
        * intros t Ht. rewrite freezev_in by assumption. unfold updv. bdestr; [ring|apply Z2; assumption].
        * intros t Ht. rewrite freezev_in by assumption. unfold updv. bdestr; [rewrite Z4; ring|apply Z3; assumption].
        * reflexivity. }
  destruct HZ as (_ & Z2 & Z3 & _). split; assumption.
Qed.

Example svd_zero_instance : forall cs minpos m n,
  bd_regular minpos n (svd_bd cs m n A0) /\ exists st, svd_mut ROps 0 cs minpos m n A0 = Some st.
Proof.
  intros cs minpos m n. destruct (svd_bd_zero cs m n) as [Hw Hr]. cbv zeta in *. split.
  - split; intros t Ht; left; [apply Hw|apply Hr]; assumption.
  - rewrite svd_mut_eq.
    assert (H0 : forall t, (t < n)%nat -> srv1 (fst (svd_stage1 cs minpos m n A0)) t = 0).
    { intros t Ht. unfold svd_stage1. destruct (for_down n _ (zeros ROps, _, _)) as [[v g] l]. cbn [fst srv1].
      apply Hr. exact Ht. }
    destruct (svd_outer_diag cs m n (snd (svd_stage1 cs minpos m n A0)) _ H0) as (st & nm & E).
    rewrite E. eexists. reflexivity.
Qed.
