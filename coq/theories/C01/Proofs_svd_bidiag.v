(* C01 — SVD, first stage of svd_mut (svd.rs): Householder bidiagonalisation and the accumulation of
   the right- and left-hand transformations, in exact arithmetic. *)
From Coq Require Import List Arith Bool ZArith Reals Lra Lia.
From SC Require Import Base.Num C01.Model C01.Proofs C01.Proofs_qr C01.Proofs_svd C01.Proofs_svd_refl.
Import ListNotations.  Open Scope R_scope.

(* ---------- generic in-place loops ---------- *)
(* for k in start..start+cnt { X[k][j] = body(k, X) } *)
Lemma col_loop cnt start j (body : nat -> @Mx R -> R) (g : nat -> R) (X0 : @Mx R) :
  (forall c X, (c < cnt)%nat ->
     (forall i j', X i j' = if (Nat.eqb j' j && ((start <=? i) && (i <? start + c)))%bool then g i else X0 i j') ->
     body (start + c)%nat X = g (start + c)%nat) ->
  forall i j', for_up cnt start (fun k X => upd X k j (body k X)) X0 i j' =
     if (Nat.eqb j' j && ((start <=? i) && (i <? start + cnt)))%bool then g i else X0 i j'.
Proof.
  intros Hb.
  apply (for_up_inv (fun c X => forall i j', X i j' =
     if (Nat.eqb j' j && ((start <=? i) && (i <? start + c)))%bool then g i else X0 i j')).
  - intros i j'. bdestr.
  - intros c X Hc HX i j'. rewrite upd_eq. rewrite (Hb c X Hc HX). rewrite HX. bdestr.
Qed.
(* for k in start..start+cnt { X[i][k] = body(k, X) } *)
Lemma row_loop cnt start i (body : nat -> @Mx R -> R) (g : nat -> R) (X0 : @Mx R) :
  (forall c X, (c < cnt)%nat ->
     (forall i' j, X i' j = if (Nat.eqb i' i && ((start <=? j) && (j <? start + c)))%bool then g j else X0 i' j) ->
     body (start + c)%nat X = g (start + c)%nat) ->
  forall i' j, for_up cnt start (fun k X => upd X i k (body k X)) X0 i' j =
     if (Nat.eqb i' i && ((start <=? j) && (j <? start + cnt)))%bool then g j else X0 i' j.
Proof.
  intros Hb.
  apply (for_up_inv (fun c X => forall i' j, X i' j =
     if (Nat.eqb i' i && ((start <=? j) && (j <? start + c)))%bool then g j else X0 i' j)).
  - intros i' j. bdestr.
  - intros c X Hc HX i' j. rewrite upd_eq. rewrite (Hb c X Hc HX). rewrite HX. bdestr.
Qed.
(* for j in start..start+cnt { inner(j) rewrites rows lo..hi of column j } *)
Lemma cols_loop cnt start lo hi (inner : nat -> @Mx R -> @Mx R) (G : nat -> nat -> R) (X0 : @Mx R) :
  (forall c X, (c < cnt)%nat ->
     (forall i j, X i j = if (((start <=? j) && (j <? start + c)) && ((lo <=? i) && (i <? hi)))%bool then G i j else X0 i j) ->
     forall i j, inner (start + c)%nat X i j =
        if (Nat.eqb j (start + c) && ((lo <=? i) && (i <? hi)))%bool then G i j else X i j) ->
  forall i j, for_up cnt start inner X0 i j =
     if (((start <=? j) && (j <? start + cnt)) && ((lo <=? i) && (i <? hi)))%bool then G i j else X0 i j.
Proof.
  intros Hb.
  apply (for_up_inv (fun c X => forall i j, X i j =
     if (((start <=? j) && (j <? start + c)) && ((lo <=? i) && (i <? hi)))%bool then G i j else X0 i j)).
  - intros i j. bdestr.
  - intros c X Hc HX i j. rewrite (Hb c X Hc HX). rewrite HX. bdestr.
Qed.
(* for i in start..start+cnt { inner(i) rewrites columns lo..hi of row i } *)
Lemma rows_loop cnt start lo hi (inner : nat -> @Mx R -> @Mx R) (G : nat -> nat -> R) (X0 : @Mx R) :
  (forall c X, (c < cnt)%nat ->
     (forall i j, X i j = if (((start <=? i) && (i <? start + c)) && ((lo <=? j) && (j <? hi)))%bool then G i j else X0 i j) ->
     forall i j, inner (start + c)%nat X i j =
        if (Nat.eqb i (start + c) && ((lo <=? j) && (j <? hi)))%bool then G i j else X i j) ->
  forall i j, for_up cnt start inner X0 i j =
     if (((start <=? i) && (i <? start + cnt)) && ((lo <=? j) && (j <? hi)))%bool then G i j else X0 i j.
Proof.
  intros Hb.
  apply (for_up_inv (fun c X => forall i j, X i j =
     if (((start <=? i) && (i <? start + c)) && ((lo <=? j) && (j <? hi)))%bool then G i j else X0 i j)).
  - intros i j. bdestr.
  - intros c X Hc HX i j. rewrite (Hb c X Hc HX). rewrite HX. bdestr.
Qed.
(* the scaling loops that also accumulate the sum of squares *)
Lemma col_scale_sq cnt start j (scale : R) (X0 : @Mx R) :
  let r := for_up cnt start (fun k (us : @Mx R * R) =>
             let '(Ux, s) := us in let v := Ux k j / scale in (upd Ux k j v, s + v * v)) (X0, 0) in
  (forall i j', fst r i j' = if (Nat.eqb j' j && ((start <=? i) && (i <? start + cnt)))%bool then X0 i j / scale else X0 i j') /\
  snd r = rsum cnt (fun t => (X0 (start + t)%nat j / scale) * (X0 (start + t)%nat j / scale)).
Proof.
  cbv zeta.
  apply (for_up_inv (fun c (us : @Mx R * R) =>
    (forall i j', fst us i j' = if (Nat.eqb j' j && ((start <=? i) && (i <? start + c)))%bool then X0 i j / scale else X0 i j') /\
    snd us = rsum c (fun t => (X0 (start + t)%nat j / scale) * (X0 (start + t)%nat j / scale)))).
  - split; [intros i j'; bdestr|reflexivity].
  - intros c [Ux s] Hc [H1 H2]. cbn [fst snd] in *. split.
    + intros i j'. rewrite upd_eq, !H1. bdestr.
    + rewrite rsum_S, H2, H1. bdestr.
Qed.
Lemma row_scale_sq cnt start i (scale : R) (X0 : @Mx R) :
  let r := for_up cnt start (fun k (us : @Mx R * R) =>
             let '(Ux, s) := us in let v := Ux i k / scale in (upd Ux i k v, s + v * v)) (X0, 0) in
  (forall i' j, fst r i' j = if (Nat.eqb i' i && ((start <=? j) && (j <? start + cnt)))%bool then X0 i j / scale else X0 i' j) /\
  snd r = rsum cnt (fun t => (X0 i (start + t)%nat / scale) * (X0 i (start + t)%nat / scale)).
Proof.
  cbv zeta.
  apply (for_up_inv (fun c (us : @Mx R * R) =>
    (forall i' j, fst us i' j = if (Nat.eqb i' i && ((start <=? j) && (j <? start + c)))%bool then X0 i j / scale else X0 i' j) /\
    snd us = rsum c (fun t => (X0 i (start + t)%nat / scale) * (X0 i (start + t)%nat / scale)))).
  - split; [intros i' j; bdestr|reflexivity].
  - intros c [Ux s] Hc [H1 H2]. cbn [fst snd] in *. split.
    + intros i' j. rewrite upd_eq, !H1. bdestr.
    + rewrite rsum_S, H2, H1. bdestr.
Qed.
(* for j in start..start+cnt { f = coef(X, j); for k in lo..lo+len { X[k][j] += f * X[k][piv] } } *)
Lemma col_axpy_loop cnt start lo len piv (coef : @Mx R -> nat -> R) (X0 : @Mx R) :
  (piv < start)%nat ->
  (forall X j, (forall r, X r j = X0 r j) -> (forall r, X r piv = X0 r piv) -> coef X j = coef X0 j) ->
  forall r k,
    for_up cnt start (fun j X => let f := coef X j in
       for_up len lo (fun k Xy => upd Xy k j (Xy k j + f * Xy k piv)) X) X0 r k =
    if (((start <=? k) && (k <? start + cnt)) && ((lo <=? r) && (r <? lo + len)))%bool
    then X0 r k + coef X0 k * X0 r piv else X0 r k.
Proof.
  intros Hp Hc.
  apply (cols_loop cnt start lo (lo + len) _ (fun r k => X0 r k + coef X0 k * X0 r piv)).
  intros c X Hlt HX r k. cbv zeta.
  rewrite (col_loop len lo (start + c) (fun k Xy => Xy k (start + c)%nat + coef X (start + c)%nat * Xy k piv)
             (fun r => X r (start + c)%nat + coef X (start + c)%nat * X r piv)).
  2:{ intros c' Xy Hc' HXy. rewrite !HXy. bdestr. }
  assert (E1 : forall r, X r (start + c)%nat = X0 r (start + c)%nat) by (intros r0; rewrite HX; bdestr).
  assert (E2 : forall r, X r piv = X0 r piv) by (intros r0; rewrite HX; bdestr).
  rewrite (Hc X (start + c)%nat E1 E2), E1, E2.
  destruct (Nat.eqb_spec k (start + c)) as [->|Hne]; cbn [andb]; [|reflexivity]. reflexivity.
Qed.
(* for j in start..start+cnt { s = coef(X, j); for k in lo..lo+len { X[j][k] += s * rva[k] } } *)
Lemma row_axpy_loop cnt start lo len (rva : nat -> R) (coef : @Mx R -> nat -> R) (X0 : @Mx R) :
  (forall X j, (forall k, X j k = X0 j k) -> (forall r k, (r < start)%nat -> X r k = X0 r k) -> coef X j = coef X0 j) ->
  forall r k,
    for_up cnt start (fun j X => let s := coef X j in
       for_up len lo (fun k Xy => upd Xy j k (Xy j k + s * rva k)) X) X0 r k =
    if (((start <=? r) && (r <? start + cnt)) && ((lo <=? k) && (k <? lo + len)))%bool
    then X0 r k + coef X0 r * rva k else X0 r k.
Proof.
  intros Hc.
  apply (rows_loop cnt start lo (lo + len) _ (fun r k => X0 r k + coef X0 r * rva k)).
  intros c X Hlt HX r k. cbv zeta.
  rewrite (row_loop len lo (start + c) (fun k Xy => Xy (start + c)%nat k + coef X (start + c)%nat * rva k)
             (fun k => X (start + c)%nat k + coef X (start + c)%nat * rva k)).
  2:{ intros c' Xy Hc' HXy. rewrite !HXy. bdestr. }
  assert (E1 : forall k, X (start + c)%nat k = X0 (start + c)%nat k) by (intros k0; rewrite HX; bdestr).
  assert (E2 : forall r k, (r < start)%nat -> X r k = X0 r k) by (intros r0 k0 H0; rewrite HX; bdestr).
  rewrite (Hc X (start + c)%nat E1 E2), E1.
  destruct (Nat.eqb_spec r (start + c)) as [->|Hne]; cbn [andb]; reflexivity.
Qed.

(* ---------- bidiag_step split into its two halves (same terms as in Model.v) ---------- *)
Definition cs_spec (cs : R -> R -> R) : Prop := forall a f, cs a f = if Rlt_dec f 0 then - Rabs a else Rabs a.

Definition bd_left (cs : R -> R -> R) (m n i : nat) (W : @Mx R) : @Mx R * R * R :=
  let scale := sum_from ROps i (m - i) (fun k => Rabs (W k i)) in
  if nez ROps scale then
    let '(Ua, s) := for_up (m - i) i (fun k (us : @Mx R * R) =>
                       let '(Ux, s) := us in
                       let v := Ux k i / scale in
                       (upd Ux k i v, s + v * v)) (W, 0) in
    let f := Ua i i in
    let g := - cs (sqrt s) f in
    let h := f * g - s in
    let Ub := upd Ua i i (f - g) in
    let Uc := for_up (n - (i + 2 - 1)) (i + 2 - 1) (fun j Ux =>
                let s := sum_from ROps i (m - i) (fun k => Ux k i * Ux k j) in
                let f := s / h in
                for_up (m - i) i (fun k Uy => upd Uy k j (Uy k j + f * Uy k i)) Ux) Ub in
    let Ud := for_up (m - i) i (fun k Ux => upd Ux k i (Ux k i * scale)) Uc in
    (Ud, g, scale)
  else (W, 0, scale).

Definition bd_right (cs : R -> R -> R) (m n i : nat) (U1 : @Mx R) (rv1 : nat -> R) : @Mx R * (nat -> R) * R * R :=
  if negb (Nat.eqb (i + 1) n) then
    let scale := sum_from ROps (i + 2 - 1) (n - (i + 2 - 1)) (fun k => Rabs (U1 i k)) in
    if nez ROps scale then
      let '(Ua, s) := for_up (n - (i + 2 - 1)) (i + 2 - 1) (fun k (us : @Mx R * R) =>
                         let '(Ux, s) := us in
                         let v := Ux i k / scale in
                         (upd Ux i k v, s + v * v)) (U1, 0) in
      let f := Ua i (i + 2 - 1)%nat in
      let g := - cs (sqrt s) f in
      let h := f * g - s in
      let Ub := upd Ua i (i + 2 - 1) (f - g) in
      let rva := for_up (n - (i + 2 - 1)) (i + 2 - 1) (fun k r => updv r k (Ub i k / h)) rv1 in
      let Uc := for_up (m - (i + 2 - 1)) (i + 2 - 1) (fun j Ux =>
                  let s := sum_from ROps (i + 2 - 1) (n - (i + 2 - 1)) (fun k => Ux j k * Ux i k) in
                  for_up (n - (i + 2 - 1)) (i + 2 - 1) (fun k Uy => upd Uy j k (Uy j k + s * rva k)) Ux) Ub in
      let Ud := for_up (n - (i + 2 - 1)) (i + 2 - 1) (fun k Ux => upd Ux i k (Ux i k * scale)) Uc in
      (Ud, rva, g, scale)
    else (U1, rv1, 0, scale)
  else (U1, rv1, 0, 0).

Lemma bidiag_step_eq cs m n i (st : @bidiag_st R) : (i < m)%nat ->
  bidiag_step ROps cs m n i st =
  let rv1 := updv (brv1 st) i (bscale st * bg st) in
  let '(U1, g1, scale1) := bd_left cs m n i (bU st) in
  let w := updv (bw st) i (scale1 * g1) in
  let '(U2, rv2, g2, scale2) := bd_right cs m n i U1 rv1 in
  mkBD (freeze ROps m n U2) (freezev ROps n w) (freezev ROps n rv2) g2 scale2
       (omaxT ROps (banorm st) (Rabs (w i) + Rabs (rv2 i))).
Proof.
  intros Hi. unfold bidiag_step, bd_left, bd_right.
  rewrite (proj2 (Nat.ltb_lt i m) Hi). cbn [andb]. reflexivity.
Qed.

(* ---------- the Householder vector of svd.rs: u = a - alpha e_i, H = I + u u^T / ((a_i - alpha) alpha) ---------- *)
Definition colpad (m i : nat) (W : @Mx R) : nat -> R := fun r => if ((i <=? r) && (r <? m))%bool then W r i else 0.
Definition rowpad (n i : nat) (W : @Mx R) : nat -> R := fun k => if ((i + 1 <=? k) && (k <? n))%bool then W i k else 0.
Definition hinv_of (d e : R) : R := if Req_EM_T e 0 then 0 else / (d * e).

Lemma cs_sq cs s f : cs_spec cs -> 0 <= s -> let g := - cs (sqrt s) f in g * g = s /\ f * g <= 0.
Proof.
  intros Hcs Hs. cbv zeta. rewrite Hcs. rewrite (Rabs_pos_eq (sqrt s)) by apply sqrt_pos.
  pose proof (sqrt_sqrt s Hs). pose proof (sqrt_pos s).
  destruct (Rlt_dec f 0); split; nra.
Qed.

Lemma house_vec N (a : nat -> R) i al : (i < N)%nat -> al * al = dot N a a -> al * a i <= 0 -> 0 < dot N a a ->
  let u := fun r => a r - (if Nat.eqb r i then al else 0) in
  let D := (a i - al) * al in
  D < 0 /\ dot N u a = - D /\ dot N u u = - 2 * D /\
  (forall r, hrefl N u (/ D) a r = if Nat.eqb r i then al else 0) /\ hrefl_ok N u (/ D).
Proof.
  intros Hi Hal Hsg Hpos u D.
  assert (E1 : dot N u a = dot N a a - al * a i).
  { unfold dot, u.
    rewrite (rsum_ext N _ (fun r => a r * a r - al * ((if Nat.eqb r i then 1 else 0) * a r))) by (intros; bdestr; ring).
    rewrite rsum_minus, rsum_scal, rsum_unit by assumption. reflexivity. }
  assert (E2 : dot N u u = dot N a a - 2 * al * a i + al * al).
  { unfold dot, u.
    rewrite (rsum_ext N _ (fun r => a r * a r - (2 * al) * ((if Nat.eqb r i then 1 else 0) * a r)
                                     + (al * al) * ((if Nat.eqb r i then 1 else 0) * 1))) by (intros; bdestr; ring).
    rewrite rsum_plus, rsum_minus, !rsum_scal, !rsum_unit by assumption. ring. }
  assert (HD : D < 0) by (unfold D; nra).
  assert (HD1 : dot N u a = - D) by (unfold D; rewrite E1; nra).
  assert (HD2 : dot N u u = - 2 * D) by (unfold D; rewrite E2; nra).
  repeat split; try assumption.
  - intros r. unfold hrefl. rewrite HD1. unfold u. bdestr; field; lra.
  - unfold hrefl_ok. rewrite HD2. field. lra.
Qed.

Lemma rsum_abs_zero n (f : nat -> R) : rsum n (fun t => Rabs (f t)) = 0 -> forall t, (t < n)%nat -> f t = 0.
Proof.
  induction n as [|n IH]; intros H t Ht; [lia|].
  rewrite rsum_S in H.
  assert (H0 : 0 <= rsum n (fun t => Rabs (f t))) by (apply rsum_nonneg; intros; apply Rabs_pos).
  pose proof (Rabs_pos (f n)) as H1.
  destruct (Nat.eq_dec t n) as [->|Hn].
  - destruct (Req_dec (f n) 0) as [E|E]; [exact E|]. apply Rabs_pos_lt in E. lra.
  - apply IH; [lra|lia].
Qed.
Lemma dot_pos_of_nonzero N (a : nat -> R) : (exists t, (t < N)%nat /\ a t <> 0) -> 0 < dot N a a.
Proof.
  intros [t [Ht Hne]].
  assert (H0 : 0 <= dot N a a) by (apply rsum_nonneg; intros; nra).
  destruct (Req_dec (dot N a a) 0) as [E|E]; [|lra].
  exfalso. apply Hne. apply (rsum_sq_zero N a E t Ht).
Qed.
Lemma dot_colpad_shift m i (W : @Mx R) (y : nat -> R) : (i <= m)%nat ->
  dot m (colpad m i W) y = rsum (m - i) (fun t => W (i + t)%nat i * y (i + t)%nat).
Proof.
  intros H. unfold dot. rewrite <- (rsum_shift_if i m (fun r => W r i * y r)) by assumption.
  apply rsum_ext. intros r Hr. unfold colpad. bdestr; ring.
Qed.

Lemma hrefl_ext_supp N u h x y : (forall t, (t < N)%nat -> u t = 0 \/ x t = y t) ->
  forall i, x i = y i -> hrefl N u h x i = hrefl N u h y i.
Proof.
  intros H i Hi. unfold hrefl. rewrite Hi. f_equal. f_equal. f_equal. unfold dot. apply rsum_ext.
  intros t Ht. destruct (H t Ht) as [E|E]; rewrite E; ring.
Qed.

Lemma bd_left_spec cs m n i (W W1 : @Mx R) g1 sc1 : cs_spec cs -> (i < m)%nat -> (i < n)%nat ->
  bd_left cs m n i W = (W1, g1, sc1) ->
  let u := colpad m i W1 in let wi := sc1 * g1 in let hinv := hinv_of (W1 i i) wi in
  (forall r k, ~ ((i <= r < m)%nat /\ (i <= k < n)%nat) -> W1 r k = W r k) /\
  (forall r k, (i < k < n)%nat -> W1 r k = hrefl m u hinv (fun r' => W r' k) r) /\
  (forall r, hrefl m u hinv (fun r' => W r' i) r =
             if Nat.eqb r i then wi else if ((i <? r) && (r <? m))%bool then 0 else W r i) /\
  hrefl_ok m u hinv /\
  (wi = 0 -> forall r, (i <= r < m)%nat -> W1 r i = 0) /\
  (wi <> 0 -> W1 i i <> 0).
Proof.
  intros Hcs Him Hin E. unfold bd_left in E. rewrite sum_from_rsum in E.
  set (scale := rsum (m - i) (fun t => Rabs (W (i + t)%nat i))) in *.
  destruct (nez ROps scale) eqn:En.
  - apply nez_R in En.
    destruct (for_up (m - i) i _ (W, 0)) as [Ua s] eqn:EUa in E.
    pose proof (col_scale_sq (m - i) i i scale W) as Hc. cbv zeta in Hc. rewrite EUa in Hc.
    cbn [fst snd] in Hc. destruct Hc as [HUa Hs].
    set (f := Ua i i) in *. set (g := - cs (sqrt s) f) in *. set (h := f * g - s) in *.
    set (Ub := upd Ua i i (f - g)) in *.
    replace (i + 2 - 1)%nat with (i + 1)%nat in E by lia.
    match type of E with (for_up _ _ _ ?X, _, _) = _ => set (Uc := X) in * end.
    assert (HUc : forall r k, Uc r k =
       if (((i + 1 <=? k) && (k <? i + 1 + (n - (i + 1)))) && ((i <=? r) && (r <? i + (m - i))))%bool
       then Ub r k + (sum_from ROps i (m - i) (fun k' => Ub k' i * Ub k' k) / h) * Ub r i else Ub r k).
    { intros r k. unfold Uc.
      apply (col_axpy_loop (n - (i + 1)) (i + 1) i (m - i) i
               (fun X j => sum_from ROps i (m - i) (fun k' => X k' i * X k' j) / h) Ub); [lia|].
      intros X j H1 H2. f_equal. rewrite !sum_from_rsum. apply rsum_ext. intros t Ht. rewrite H1, H2. reflexivity. }
    injection E as EW Eg Esc. subst g1 sc1.
    assert (HW1 : forall r k, W1 r k =
       if (Nat.eqb k i && ((i <=? r) && (r <? i + (m - i))))%bool then Uc r i * scale else Uc r k).
    { intros r k. rewrite <- EW.
      apply (col_loop (m - i) i i (fun k Ux => Ux k i * scale) (fun r => Uc r i * scale)).
      intros c X Hc HX; rewrite HX; bdestr. }
    clear EW.
    (* the mathematical vector *)
    set (a := colpad m i W).
    pose (al := scale * g).
    assert (Hs0 : 0 <= s) by (rewrite Hs; apply rsum_nonneg; intros; nra).
    destruct (cs_sq cs s f Hcs Hs0) as [Hgg Hfg]. fold g in Hgg, Hfg.
    assert (Hf : f = W i i / scale) by (unfold f; rewrite HUa; bdestr).
    assert (HS2 : dot m a a = scale * scale * s).
    { unfold a. rewrite dot_colpad_shift by lia. rewrite Hs, <- rsum_scal. apply rsum_ext. intros t Ht.
      unfold colpad. bdestr. field. exact En. }
    assert (Hpos : 0 < dot m a a).
    { assert (H0 : 0 <= dot m a a) by (apply rsum_nonneg; intros; nra).
      destruct (Req_dec (dot m a a) 0) as [E0|E0]; [exfalso|lra].
      apply En. unfold scale. apply rsum_zero. intros t Ht.
      pose proof (rsum_sq_zero m a E0 (i + t)%nat ltac:(lia)) as Hz.
      unfold a, colpad in Hz.
      replace ((i <=? i + t) && (i + t <? m))%bool with true in Hz by (symmetry; bdestr).
      rewrite Hz. apply Rabs_R0. }
    assert (Hai : a i = W i i) by (unfold a, colpad; bdestr).
    assert (Hal : al * al = dot m a a) by (unfold al; rewrite HS2; nra).
    assert (Hsg : al * a i <= 0).
    { unfold al. rewrite Hai. replace (W i i) with (f * scale) by (rewrite Hf; field; exact En). nra. }
    destruct (house_vec m a i al Him Hal Hsg Hpos) as (HD & _ & _ & Hcol & Hok).
    set (D := (a i - al) * al) in *.
    set (u0 := fun r => a r - (if Nat.eqb r i then al else 0)) in *.
    assert (HW1i : forall r, (i <= r < m)%nat -> W1 r i = u0 r).
    { intros r Hr. rewrite HW1.
      replace (Nat.eqb i i && ((i <=? r) && (r <? i + (m - i))))%bool with true by (symmetry; bdestr).
      rewrite HUc. replace (((i + 1 <=? i) && (i <? i + 1 + (n - (i + 1)))))%bool with false by (symmetry; bdestr).
      cbn [andb]. unfold Ub. rewrite upd_eq, HUa. unfold u0, a, colpad, al. bdestr; try rewrite Hf; field; exact En. }
    assert (Hu : forall r, colpad m i W1 r = u0 r).
    { intros r. unfold colpad. destruct ((i <=? r) && (r <? m))%bool eqn:Er.
      - apply HW1i. revert Er. bdestr.
      - unfold u0, a, colpad. rewrite Er. revert Er. bdestr; intros; try discriminate; ring. }
    assert (Hwi : scale * g <> 0) by (fold al; nra).
    assert (Hhinv : hinv_of (W1 i i) (scale * g) = / D).
    { unfold hinv_of. destruct (Req_EM_T (scale * g) 0) as [E0|_]; [contradiction|].
      rewrite HW1i by lia. unfold D, u0. rewrite Nat.eqb_refl. fold al. reflexivity. }
    assert (HDh : D = scale * scale * h).
    { unfold D, h, al. rewrite Hai. replace (W i i) with (f * scale) by (rewrite Hf; field; exact En). nra. }
    cbv zeta. rewrite Hhinv.
    assert (Hframe : forall r k, ~ ((i <= r < m)%nat /\ (i <= k < n)%nat) -> W1 r k = W r k).
    { intros r k Hn. rewrite HW1.
      destruct (Nat.eqb k i && ((i <=? r) && (r <? i + (m - i))))%bool eqn:Ek.
      { exfalso. apply Hn. revert Ek. bdestr; intros; try discriminate. }
      rewrite HUc.
      destruct (((i + 1 <=? k) && (k <? i + 1 + (n - (i + 1)))) && ((i <=? r) && (r <? i + (m - i))))%bool eqn:Ek2.
      { exfalso. apply Hn. revert Ek2. bdestr; intros; try discriminate. }
      unfold Ub. rewrite upd_eq, HUa. revert Ek Ek2. bdestr; intros; try discriminate; exfalso; apply Hn; lia. }
    split; [exact Hframe|]. split; [|split; [|split; [|split]]].
    + intros r k Hk.
      rewrite (hrefl_ext m (colpad m i W1) (/ D) u0 (/ D) _ (fun r' => W r' k)) by auto.
      destruct (le_lt_dec i r) as [H1|H1]; [destruct (le_lt_dec m r) as [H2|H2]|].
      * rewrite Hframe by lia. rewrite hrefl_out; [reflexivity|]. unfold u0, a, colpad. bdestr; ring.
      * rewrite HW1.
        replace (Nat.eqb k i && ((i <=? r) && (r <? i + (m - i))))%bool with false by (symmetry; bdestr).
        rewrite HUc.
        replace ((((i + 1 <=? k) && (k <? i + 1 + (n - (i + 1)))) && ((i <=? r) && (r <? i + (m - i)))))%bool
          with true by (symmetry; bdestr).
        assert (HUbi : forall r', (i <= r' < m)%nat -> Ub r' i = u0 r' / scale).
        { intros r' Hr'. unfold Ub. rewrite upd_eq, HUa. unfold u0, a, colpad, al. bdestr; try rewrite Hf; field; exact En. }
        assert (HUbk : forall r', Ub r' k = W r' k).
        { intros r'. unfold Ub. rewrite upd_eq, HUa. bdestr. }
        unfold hrefl. rewrite HUbk, HUbi by lia.
        assert (Edot : dot m u0 (fun r' => W r' k) = scale * sum_from ROps i (m - i) (fun k' => Ub k' i * Ub k' k)).
        { rewrite sum_from_rsum. rewrite <- rsum_scal.
          rewrite (dot_ext m u0 _ (colpad m i W1) (fun r' => W r' k)) by (intros; auto).
          rewrite dot_colpad_shift by lia. apply rsum_ext. intros t Ht.
          rewrite HW1i, HUbk, HUbi by lia. field. exact En. }
        rewrite Edot, HDh. field. split; [|exact En]. intros Hh0. rewrite Hh0, Rmult_0_r in HDh. lra.
      * rewrite Hframe by lia. rewrite hrefl_out; [reflexivity|]. unfold u0, a, colpad. bdestr; ring.
    + intros r.
      destruct (le_lt_dec i r) as [H1|H1]; [destruct (le_lt_dec m r) as [H2|H2]|].
      * rewrite hrefl_out by (unfold colpad; bdestr). bdestr.
      * transitivity (hrefl m u0 (/ D) a r).
        -- rewrite (hrefl_ext m (colpad m i W1) (/ D) u0 (/ D) _ (fun r' => W r' i)) by auto.
           apply hrefl_ext_supp.
           ++ intros t Ht. unfold u0, a, colpad. bdestr; auto. left; ring.
           ++ unfold a, colpad. bdestr.
        -- rewrite Hcol. bdestr.
      * rewrite hrefl_out by (unfold colpad; bdestr). bdestr.
    + unfold hrefl_ok. rewrite (dot_ext m _ _ u0 u0 (fun t _ => Hu t) (fun t _ => Hu t)). exact Hok.
    + intros H0. contradiction.
    + intros _. rewrite HW1i by lia. unfold u0. rewrite Nat.eqb_refl. intros E0.
      unfold D in HD. rewrite E0 in HD. lra.
  - apply nez_R_false in En. injection E as EW Eg Esc. subst W1 g1 sc1.
    assert (Hz : forall r, (i <= r < m)%nat -> W r i = 0).
    { intros r Hr. pose proof (rsum_abs_zero (m - i) (fun t => W (i + t)%nat i) En (r - i)%nat ltac:(lia)) as H.
      cbv beta in H. replace (i + (r - i))%nat with r in H by lia. exact H. }
    cbv zeta.
    assert (Hh : hinv_of (W i i) (scale * 0) = 0).
    { unfold hinv_of. destruct (Req_EM_T (scale * 0) 0) as [_|Hne]; [reflexivity|]. exfalso. apply Hne. ring. }
    rewrite Hh. split; [intros; reflexivity|]. split; [intros; rewrite hrefl_hinv0; reflexivity|].
    split; [|split; [|split]].
    + intros r. rewrite hrefl_hinv0. bdestr; try (rewrite Hz by lia); ring.
    + unfold hrefl_ok. ring.
    + intros _ r Hr. apply Hz. exact Hr.
    + intros Hne. exfalso. apply Hne. ring.
Qed.

Lemma vec_loop cnt start (g : nat -> R) (r0 : nat -> R) t :
  for_up cnt start (fun k r => updv r k (g k)) r0 t =
  if ((start <=? t) && (t <? start + cnt))%bool then g t else r0 t.
Proof.
  revert t. apply (for_up_inv (fun c r => forall t, r t = if ((start <=? t) && (t <? start + c))%bool then g t else r0 t)).
  - intros t. bdestr.
  - intros c r Hc Hr t. unfold updv. rewrite Hr. bdestr.
Qed.
Lemma dot_rowpad_shift n i (W : @Mx R) (y : nat -> R) : (i + 1 <= n)%nat ->
  dot n (rowpad n i W) y = rsum (n - (i + 1)) (fun t => W i (i + 1 + t)%nat * y (i + 1 + t)%nat).
Proof.
  intros H. unfold dot. rewrite <- (rsum_shift_if (i + 1) n (fun k => W i k * y k)) by assumption.
  apply rsum_ext. intros r Hr. unfold rowpad. bdestr; ring.
Qed.

Lemma bd_right_spec cs m n i (U1 W2 : @Mx R) rv1 rv2 g2 sc2 : cs_spec cs -> (i < m)%nat -> (i < n)%nat ->
  bd_right cs m n i U1 rv1 = (W2, rv2, g2, sc2) ->
  let v := rowpad n i W2 in let e := sc2 * g2 in let hinv := hinv_of (W2 i (i + 1)%nat) e in
  (forall r k, ~ ((i <= r < m)%nat /\ (i + 1 <= k < n)%nat) -> W2 r k = U1 r k) /\
  (forall r k, (i < r < m)%nat -> W2 r k = hrefl n v hinv (fun k' => U1 r k') k) /\
  (forall k, (k < n)%nat -> hrefl n v hinv (fun k' => U1 i k') k =
             if Nat.eqb k (i + 1) then e else if ((i + 1 <? k) && (k <? n))%bool then 0 else U1 i k) /\
  hrefl_ok n v hinv /\
  (e = 0 -> forall k, (i + 1 <= k < n)%nat -> W2 i k = 0) /\
  (forall t, (t <= i)%nat -> rv2 t = rv1 t).
Proof.
  intros Hcs Him Hin E. unfold bd_right in E.
  destruct (Nat.eqb_spec (i + 1) n) as [Hlast|Hnl]; cbn [negb] in E.
  { injection E as EW Erv Eg Esc. subst W2 rv2 g2 sc2. cbv zeta.
    assert (Hh : hinv_of (U1 i (i + 1)%nat) (0 * 0) = 0).
    { unfold hinv_of. destruct (Req_EM_T (0 * 0) 0) as [_|Hne]; [reflexivity|]. exfalso. apply Hne. ring. }
    rewrite Hh. split; [intros; reflexivity|]. split; [intros; rewrite hrefl_hinv0; reflexivity|].
    split; [|split; [|split]].
    - intros k Hk. rewrite hrefl_hinv0. bdestr.
    - unfold hrefl_ok. ring.
    - intros _ k Hk. lia.
    - intros; reflexivity. }
  replace (i + 2 - 1)%nat with (i + 1)%nat in E by lia.
  rewrite sum_from_rsum in E.
  set (scale := rsum (n - (i + 1)) (fun t => Rabs (U1 i (i + 1 + t)%nat))) in *.
  destruct (nez ROps scale) eqn:En.
  - apply nez_R in En.
    destruct (for_up (n - (i + 1)) (i + 1) _ (U1, 0)) as [Ua s] eqn:EUa in E.
    pose proof (row_scale_sq (n - (i + 1)) (i + 1) i scale U1) as Hc. cbv zeta in Hc. rewrite EUa in Hc.
    cbn [fst snd] in Hc. destruct Hc as [HUa Hs].
    set (f := Ua i (i + 1)%nat) in *. set (g := - cs (sqrt s) f) in *. set (h := f * g - s) in *.
    set (Ub := upd Ua i (i + 1) (f - g)) in *.
    match type of E with (for_up _ _ _ (for_up _ _ _ _), ?X, _, _) = _ => set (rva := X) in * end.
    match type of E with (for_up _ _ _ ?X, _, _, _) = _ => set (Uc := X) in * end.
    assert (Hrva : forall t, rva t = if ((i + 1 <=? t) && (t <? i + 1 + (n - (i + 1))))%bool then Ub i t / h else rv1 t).
    { intros t. unfold rva. apply (vec_loop (n - (i + 1)) (i + 1) (fun k => Ub i k / h) rv1 t). }
    assert (HUc : forall r k, Uc r k =
       if (((i + 1 <=? r) && (r <? i + 1 + (m - (i + 1)))) && ((i + 1 <=? k) && (k <? i + 1 + (n - (i + 1)))))%bool
       then Ub r k + sum_from ROps (i + 1) (n - (i + 1)) (fun k' => Ub r k' * Ub i k') * rva k else Ub r k).
    { intros r k. unfold Uc.
      apply (row_axpy_loop (m - (i + 1)) (i + 1) (i + 1) (n - (i + 1)) rva
               (fun X j => sum_from ROps (i + 1) (n - (i + 1)) (fun k' => X j k' * X i k')) Ub).
      intros X j H1 H2. rewrite !sum_from_rsum. apply rsum_ext. intros t Ht. rewrite H1, H2 by lia. reflexivity. }
    injection E as EW Erv Eg Esc. subst g2 sc2 rv2.
    assert (HW2 : forall r k, W2 r k =
       if (Nat.eqb r i && ((i + 1 <=? k) && (k <? i + 1 + (n - (i + 1)))))%bool then Uc i k * scale else Uc r k).
    { intros r k. rewrite <- EW.
      apply (row_loop (n - (i + 1)) (i + 1) i (fun k Ux => Ux i k * scale) (fun k => Uc i k * scale)).
      intros c X Hc HX; rewrite HX; bdestr. }
    clear EW.
    set (a := rowpad n i U1).
    pose (al := scale * g).
    assert (Hs0 : 0 <= s) by (rewrite Hs; apply rsum_nonneg; intros; nra).
    destruct (cs_sq cs s f Hcs Hs0) as [Hgg Hfg]. fold g in Hgg, Hfg.
    assert (Hf : f = U1 i (i + 1)%nat / scale) by (unfold f; rewrite HUa; bdestr).
    assert (HS2 : dot n a a = scale * scale * s).
    { unfold a. rewrite dot_rowpad_shift by lia. rewrite Hs, <- rsum_scal. apply rsum_ext. intros t Ht.
      unfold rowpad. bdestr. field. exact En. }
    assert (Hpos : 0 < dot n a a).
    { assert (H0 : 0 <= dot n a a) by (apply rsum_nonneg; intros; nra).
      destruct (Req_dec (dot n a a) 0) as [E0|E0]; [exfalso|lra].
      apply En. unfold scale. apply rsum_zero. intros t Ht.
      pose proof (rsum_sq_zero n a E0 (i + 1 + t)%nat ltac:(lia)) as Hz.
      unfold a, rowpad in Hz.
      replace ((i + 1 <=? i + 1 + t) && (i + 1 + t <? n))%bool with true in Hz by (symmetry; bdestr).
      rewrite Hz. apply Rabs_R0. }
    assert (Hai : a (i + 1)%nat = U1 i (i + 1)%nat) by (unfold a, rowpad; bdestr).
    assert (Hal : al * al = dot n a a) by (unfold al; rewrite HS2; nra).
    assert (Hsg : al * a (i + 1)%nat <= 0).
    { unfold al. rewrite Hai. replace (U1 i (i + 1)%nat) with (f * scale) by (rewrite Hf; field; exact En). nra. }
    destruct (house_vec n a (i + 1) al ltac:(lia) Hal Hsg Hpos) as (HD & _ & _ & Hcol & Hok).
    set (D := (a (i + 1)%nat - al) * al) in *.
    set (u0 := fun r => a r - (if Nat.eqb r (i + 1) then al else 0)) in *.
    assert (HUbi : forall k, (i + 1 <= k < n)%nat -> Ub i k = u0 k / scale).
    { intros k Hk. unfold Ub. rewrite upd_eq, HUa. unfold u0, a, rowpad, al. bdestr; try rewrite Hf; field; exact En. }
    assert (HW2i : forall k, (i + 1 <= k < n)%nat -> W2 i k = u0 k).
    { intros k Hk. rewrite HW2.
      replace (Nat.eqb i i && ((i + 1 <=? k) && (k <? i + 1 + (n - (i + 1)))))%bool with true by (symmetry; bdestr).
      rewrite HUc. replace (((i + 1 <=? i) && (i <? i + 1 + (m - (i + 1)))))%bool with false by (symmetry; bdestr).
      cbn [andb]. rewrite HUbi by assumption. field. exact En. }
    assert (Hu : forall k, rowpad n i W2 k = u0 k).
    { intros k. unfold rowpad. destruct ((i + 1 <=? k) && (k <? n))%bool eqn:Er.
      - apply HW2i. revert Er. bdestr.
      - unfold u0, a, rowpad. rewrite Er. revert Er. bdestr; intros; try discriminate; ring. }
    assert (Hwi : scale * g <> 0) by (fold al; nra).
    assert (Hhinv : hinv_of (W2 i (i + 1)%nat) (scale * g) = / D).
    { unfold hinv_of. destruct (Req_EM_T (scale * g) 0) as [E0|_]; [contradiction|].
      rewrite HW2i by lia. unfold D, u0. rewrite Nat.eqb_refl. fold al. reflexivity. }
    assert (HDh : D = scale * scale * h).
    { unfold D, h, al. rewrite Hai. replace (U1 i (i + 1)%nat) with (f * scale) by (rewrite Hf; field; exact En). nra. }
    cbv zeta. rewrite Hhinv.
    assert (Hframe : forall r k, ~ ((i <= r < m)%nat /\ (i + 1 <= k < n)%nat) -> W2 r k = U1 r k).
    { intros r k Hn. rewrite HW2.
      destruct (Nat.eqb r i && ((i + 1 <=? k) && (k <? i + 1 + (n - (i + 1)))))%bool eqn:Ek.
      { exfalso. apply Hn. revert Ek. bdestr; intros; try discriminate. }
      rewrite HUc.
      destruct (((i + 1 <=? r) && (r <? i + 1 + (m - (i + 1)))) && ((i + 1 <=? k) && (k <? i + 1 + (n - (i + 1)))))%bool eqn:Ek2.
      { exfalso. apply Hn. revert Ek2. bdestr; intros; try discriminate. }
      unfold Ub. rewrite upd_eq, HUa. revert Ek Ek2. bdestr; intros; try discriminate; exfalso; apply Hn; lia. }
    split; [exact Hframe|]. split; [|split; [|split; [|split]]].
    + intros r k Hr.
      rewrite (hrefl_ext n (rowpad n i W2) (/ D) u0 (/ D) _ (fun k' => U1 r k')) by auto.
      destruct (le_lt_dec (i + 1) k) as [H1|H1]; [destruct (le_lt_dec n k) as [H2|H2]|].
      * rewrite Hframe by lia. rewrite hrefl_out; [reflexivity|]. unfold u0, a, rowpad. bdestr; ring.
      * rewrite HW2.
        replace (Nat.eqb r i && ((i + 1 <=? k) && (k <? i + 1 + (n - (i + 1)))))%bool with false by (symmetry; bdestr).
        rewrite HUc.
        replace ((((i + 1 <=? r) && (r <? i + 1 + (m - (i + 1)))) && ((i + 1 <=? k) && (k <? i + 1 + (n - (i + 1))))))%bool
          with true by (symmetry; bdestr).
        assert (HUbr : forall k', Ub r k' = U1 r k').
        { intros k'. unfold Ub. rewrite upd_eq, HUa. bdestr. }
        unfold hrefl. rewrite HUbr, Hrva.
        replace ((i + 1 <=? k) && (k <? i + 1 + (n - (i + 1))))%bool with true by (symmetry; bdestr).
        rewrite HUbi by lia.
        assert (Edot : dot n u0 (fun k' => U1 r k') =
                       scale * sum_from ROps (i + 1) (n - (i + 1)) (fun k' => Ub r k' * Ub i k')).
        { rewrite sum_from_rsum. rewrite <- rsum_scal.
          rewrite (dot_ext n u0 _ (rowpad n i W2) (fun k' => U1 r k')) by (intros; auto).
          rewrite dot_rowpad_shift by lia. apply rsum_ext. intros t Ht.
          rewrite HW2i, HUbr, HUbi by lia. field. exact En. }
        rewrite Edot, HDh. field. split; [|exact En]. intros Hh0. rewrite Hh0, Rmult_0_r in HDh. lra.
      * rewrite Hframe by lia. rewrite hrefl_out; [reflexivity|]. unfold u0, a, rowpad. bdestr; ring.
    + intros k Hk.
      destruct (le_lt_dec (i + 1) k) as [H1|H1].
      * transitivity (hrefl n u0 (/ D) a k).
        -- rewrite (hrefl_ext n (rowpad n i W2) (/ D) u0 (/ D) _ (fun k' => U1 i k')) by auto.
           apply hrefl_ext_supp.
           ++ intros t Ht. unfold u0, a, rowpad. bdestr; auto. left; ring.
           ++ unfold a, rowpad. bdestr.
        -- rewrite Hcol. bdestr.
      * rewrite hrefl_out by (unfold rowpad; bdestr). bdestr.
    + unfold hrefl_ok. rewrite (dot_ext n _ _ u0 u0 (fun t _ => Hu t) (fun t _ => Hu t)). exact Hok.
    + intros H0. contradiction.
    + intros t Ht. rewrite Hrva. bdestr.
  - apply nez_R_false in En. injection E as EW Erv Eg Esc. subst W2 rv2 g2 sc2.
    assert (Hz : forall k, (i + 1 <= k < n)%nat -> U1 i k = 0).
    { intros k Hk. pose proof (rsum_abs_zero (n - (i + 1)) (fun t => U1 i (i + 1 + t)%nat) En (k - (i + 1))%nat ltac:(lia)) as H.
      cbv beta in H. replace (i + 1 + (k - (i + 1)))%nat with k in H by lia. exact H. }
    cbv zeta.
    assert (Hh : hinv_of (U1 i (i + 1)%nat) (scale * 0) = 0).
    { unfold hinv_of. destruct (Req_EM_T (scale * 0) 0) as [_|Hne]; [reflexivity|]. exfalso. apply Hne. ring. }
    rewrite Hh. split; [intros; reflexivity|]. split; [intros; rewrite hrefl_hinv0; reflexivity|].
    split; [|split; [|split]].
    + intros k Hk. rewrite hrefl_hinv0. bdestr; try (rewrite Hz by lia); ring.
    + unfold hrefl_ok. ring.
    + intros _ k Hk. apply Hz. exact Hk.
    + intros; reflexivity.
Qed.

(* ---------- the invariant of the bidiagonalisation loop ---------- *)
(* the reflectors stored in the work matrix: column t below the diagonal (left), row t right of the
   super-diagonal (right); 1/h is recovered from the stored pivot and the bidiagonal entry exactly as
   the accumulation loops of svd_mut do; a zero bidiagonal entry means "step skipped" (identity) *)
Definition uL (m : nat) (W : @Mx R) (t : nat) : nat -> R := colpad m t W.
Definition hL (W : @Mx R) (w : nat -> R) (t : nat) : R := hinv_of (W t t) (w t).
Definition vR (n : nat) (W : @Mx R) (t : nat) : nat -> R := rowpad n t W.
Definition hR (W : @Mx R) (e : nat -> R) (t : nat) : R := hinv_of (W t (t + 1)%nat) (e (t + 1)%nat).
(* rv1 with the pending entry scale*g that the next step will store *)
Definition epend (c : nat) (st : @bidiag_st R) : nat -> R :=
  fun t => if (t <? c)%nat then brv1 st t else bscale st * bg st.
(* rows < c are finished rows of the bidiagonal matrix, the rest is the trailing block of the work matrix *)
Definition Lmat (c : nat) (W : @Mx R) (w e : nat -> R) : @Mx R :=
  fun r k => if (r <? c)%nat then (if Nat.eqb k r then w r else if Nat.eqb k (r + 1) then e (r + 1)%nat else 0)
             else (if (k <? c)%nat then 0 else W r k).

Definition bd_inv (m n : nat) (A : @Mx R) (c : nat) (st : @bidiag_st R) : Prop :=
  let W := bU st in let w := bw st in let e := epend c st in
  (forall x y, bil m n A x y =
     bil m n (Lmat c W w e) (app_up m (uL m W) (hL W w) c x) (app_up n (vR n W) (hR W e) c y)) /\
  (forall t, (t < c)%nat -> hrefl_ok m (uL m W t) (hL W w t) /\ hrefl_ok n (vR n W t) (hR W e t)) /\
  (forall t, (t < c)%nat -> w t = 0 -> forall r, (t <= r < m)%nat -> W r t = 0) /\
  (forall t, (t < c)%nat -> e (t + 1)%nat = 0 -> forall k, (t + 1 <= k < n)%nat -> W t k = 0) /\
  e 0%nat = 0 /\
  (forall t, (t < c)%nat -> w t <> 0 -> W t t <> 0) /\
  ((0 < c)%nat -> forall r k, (m <= r \/ n <= k)%nat -> W r k = 0).

Lemma hinv_of_0 d : hinv_of d 0 = 0.
Proof. unfold hinv_of. destruct (Req_EM_T 0 0) as [_|H]; [reflexivity|contradiction]. Qed.

Lemma bd_inv_step cs m n A c st : cs_spec cs -> (c < m)%nat -> (c < n)%nat ->
  bd_inv m n A c st -> bd_inv m n A (S c) (bidiag_step ROps cs m n c st).
Proof.
  intros Hcs Hnm Hc (I1 & I2 & I3 & I4 & I5 & I6 & _).
  rewrite bidiag_step_eq by lia. cbv zeta.
  destruct (bd_left cs m n c (bU st)) as [[U1 g1] sc1] eqn:EL.
  destruct (bd_right cs m n c U1 (updv (brv1 st) c (bscale st * bg st))) as [[[U2 rv2] g2] sc2] eqn:ER.
  destruct (bd_left_spec cs m n c (bU st) U1 g1 sc1 Hcs ltac:(lia) Hc EL) as (L1 & L2 & L3 & L4 & L5 & L6).
  destruct (bd_right_spec cs m n c U1 U2 _ rv2 g2 sc2 Hcs ltac:(lia) Hc ER) as (R1 & R2 & R3 & R4 & R5 & R6).
  cbv zeta in *.
  set (W := bU st) in *. set (w := bw st) in *. set (e := epend c st) in *.
  set (st' := mkBD _ _ _ _ _ _).
  set (W' := bU st'). set (w' := bw st'). set (e' := epend (S c) st').
  assert (HW' : forall r k, (r < m)%nat -> (k < n)%nat -> W' r k = U2 r k).
  { intros r k Hr Hk. unfold W', st'. cbn [bU]. apply freeze_in; assumption. }
  assert (Hw' : forall t, (t < n)%nat -> w' t = if Nat.eqb c t then sc1 * g1 else w t).
  { intros t Ht. unfold w', st'. cbn [bw]. rewrite freezev_in by assumption. reflexivity. }
  assert (He'1 : forall t, (t <= c)%nat -> e' t = e t).
  { intros t Ht. unfold e', epend. replace (t <? S c)%nat with true by (symmetry; bdestr).
    unfold st'. cbn [brv1]. rewrite freezev_in by lia. rewrite R6 by assumption. unfold updv, e, epend. bdestr. }
  assert (He'2 : e' (c + 1)%nat = sc2 * g2).
  { unfold e', epend. replace (c + 1 <? S c)%nat with false by (symmetry; bdestr). reflexivity. }
  (* the stored vectors of earlier steps are not touched *)
  assert (HWold : forall r k, (r < m)%nat -> (k < n)%nat -> (r < c \/ k < c)%nat -> W' r k = W r k).
  { intros r k Hr Hk Hlt. rewrite HW' by assumption. rewrite R1 by lia. apply L1. lia. }
  assert (HWc : forall r, (c <= r < m)%nat -> W' r c = U1 r c).
  { intros r Hr. rewrite HW' by lia. apply R1. lia. }
  assert (HWr : forall k, (k < n)%nat -> W' c k = U2 c k) by (intros; apply HW'; lia).
  assert (Hag : fam_agree m c (uL m W) (uL m W') (hL W w) (hL W' w')).
  { intros t Ht. split.
    - intros r Hr. unfold uL, colpad. bdestr. symmetry. apply HWold; lia.
    - unfold hL. rewrite HWold by lia. rewrite Hw' by lia. bdestr. }
  assert (Hag2 : fam_agree n c (vR n W) (vR n W') (hR W e) (hR W' e')).
  { intros t Ht. split.
    - intros k Hk. unfold vR, rowpad. bdestr. symmetry. apply HWold; lia.
    - unfold hR. rewrite HWold by lia. rewrite He'1 by lia. reflexivity. }
  (* the two new reflectors, expressed on the new state *)
  assert (HuL : forall r, uL m W' c r = colpad m c U1 r).
  { intros r. unfold uL, colpad. bdestr. apply HWc. lia. }
  assert (HhL : hL W' w' c = hinv_of (U1 c c) (sc1 * g1)).
  { unfold hL. rewrite HWc by lia. rewrite Hw' by lia. rewrite Nat.eqb_refl. reflexivity. }
  assert (HvR : forall k, vR n W' c k = rowpad n c U2 k).
  { intros k. unfold vR, rowpad. bdestr. apply HWr. lia. }
  assert (HhR : hR W' e' c = hinv_of (U2 c (c + 1)%nat) (sc2 * g2)).
  { unfold hR. rewrite He'2. destruct (Nat.eq_dec (c + 1) n) as [Hl|Hl].
    - assert (E0 : sc2 * g2 = 0).
      { unfold bd_right in ER. rewrite (proj2 (Nat.eqb_eq (c + 1) n) Hl) in ER. cbn [negb] in ER.
        injection ER as _ _ <- <-. ring. }
      rewrite E0, !hinv_of_0. reflexivity.
    - rewrite HWr by lia. reflexivity. }
  set (ul := colpad m c U1) in *. set (hl := hinv_of (U1 c c) (sc1 * g1)) in *.
  set (vr := rowpad n c U2) in *. set (hr := hinv_of (U2 c (c + 1)%nat) (sc2 * g2)) in *.
  set (M := Lmat c W w e).
  (* H applied to the columns *)
  assert (HM1 : forall r k, (r < m)%nat -> (k < n)%nat -> colrefl m ul hl M r k =
     if (r <? c)%nat then M r k
     else if (k <? c)%nat then 0
     else if Nat.eqb k c then (if Nat.eqb r c then sc1 * g1 else 0) else U1 r k).
  { intros r k Hr Hk. unfold colrefl.
    destruct (Nat.ltb_spec r c) as [Hrc|Hrc].
    { apply (hrefl_out m ul hl (fun r' => M r' k) r). unfold ul, colpad. bdestr. }
    destruct (lt_eq_lt_dec k c) as [[Hkc|Hkc]|Hkc].
    - replace (k <? c)%nat with true by (symmetry; bdestr).
      rewrite hrefl_orth.
      + unfold M, Lmat. bdestr.
      + unfold dot. apply rsum_zero. intros t Ht. unfold ul, colpad, M, Lmat. bdestr; ring.
    - subst k. replace (c <? c)%nat with false by (symmetry; bdestr). rewrite Nat.eqb_refl.
      rewrite (hrefl_ext_supp m ul hl _ (fun r' => W r' c)).
      + rewrite L3. bdestr.
      + intros t Ht. unfold ul, colpad, M, Lmat. bdestr; auto.
      + unfold M, Lmat. bdestr.
    - replace (k <? c)%nat with false by (symmetry; bdestr).
      replace (Nat.eqb k c) with false by (symmetry; bdestr).
      rewrite (hrefl_ext_supp m ul hl _ (fun r' => W r' k)).
      + symmetry. apply L2. lia.
      + intros t Ht. unfold ul, colpad, M, Lmat. bdestr; auto.
      + unfold M, Lmat. bdestr. }
  set (M1 := colrefl m ul hl M) in *.
  assert (HM2 : forall r k, (r < m)%nat -> (k < n)%nat ->
     rowrefl n vr hr M1 r k = Lmat (S c) W' w' e' r k).
  { intros r k Hr Hk. unfold rowrefl.
    destruct (lt_eq_lt_dec r c) as [[Hrc|Hrc]|Hrc].
    - rewrite hrefl_orth.
      + rewrite HM1 by assumption. unfold M, Lmat. replace (r <? c)%nat with true by (symmetry; bdestr).
        replace (r <? S c)%nat with true by (symmetry; bdestr).
        rewrite Hw' by lia. rewrite He'1 by lia. bdestr.
      + unfold dot. apply rsum_zero. intros t Ht. rewrite HM1 by assumption.
        unfold vr, rowpad, M, Lmat. bdestr; ring.
    - subst r. unfold Lmat. replace (c <? S c)%nat with true by (symmetry; bdestr).
      destruct (le_lt_dec (c + 1) k) as [Hk1|Hk1].
      + rewrite (hrefl_ext_supp n vr hr _ (fun k' => U1 c k')).
        * rewrite R3 by assumption. rewrite He'2. bdestr.
        * intros t Ht. rewrite HM1 by assumption. unfold vr, rowpad. bdestr; auto.
        * rewrite HM1 by assumption. bdestr.
      + rewrite hrefl_out by (unfold vr, rowpad; bdestr).
        rewrite HM1 by assumption. rewrite Hw' by lia. bdestr.
    - unfold Lmat. replace (r <? S c)%nat with false by (symmetry; bdestr).
      destruct (le_lt_dec (c + 1) k) as [Hk1|Hk1].
      + rewrite (hrefl_ext_supp n vr hr _ (fun k' => U1 r k')).
        * rewrite <- R2 by lia. rewrite HW' by assumption. bdestr.
        * intros t Ht. rewrite HM1 by assumption. unfold vr, rowpad. bdestr; auto.
        * rewrite HM1 by assumption. bdestr.
      + rewrite hrefl_out by (unfold vr, rowpad; bdestr).
        rewrite HM1 by assumption. bdestr. }
  assert (Hokl : hrefl_ok m ul hl) by exact L4.
  assert (Hokr : hrefl_ok n vr hr) by exact R4.
  unfold bd_inv. cbv zeta. fold W' w' e'.
  split; [|split; [|split; [|split; [|split; [|split]]]]].
  - intros x y. rewrite I1. fold M. cbn [app_up].
    set (x1 := app_up m (uL m W) (hL W w) c x). set (y1 := app_up n (vR n W) (hR W e) c y).
    set (x1' := app_up m (uL m W') (hL W' w') c x). set (y1' := app_up n (vR n W') (hR W' e') c y).
    assert (Ex : forall r, (r < m)%nat -> x1 r = x1' r) by (intros; apply app_up_ext; auto).
    assert (Ey : forall r, (r < n)%nat -> y1 r = y1' r) by (intros; apply app_up_ext; auto).
    rewrite <- (bil_colrefl m n ul hl M x1 y1 Hokl). fold M1.
    rewrite <- (bil_rowrefl m n vr hr M1 _ y1 Hokr).
    apply bil_ext.
    + exact HM2.
    + intros r Hr. rewrite HhL. apply hrefl_ext; auto; intros; symmetry; apply HuL.
    + intros k Hk. rewrite HhR. apply hrefl_ext; auto; intros; symmetry; apply HvR.
  - intros t Ht. destruct (Nat.eq_dec t c) as [->|Hne].
    + split.
      * unfold hrefl_ok. rewrite HhL. rewrite (dot_ext m _ _ ul ul (fun r _ => HuL r) (fun r _ => HuL r)). exact Hokl.
      * unfold hrefl_ok. rewrite HhR. rewrite (dot_ext n _ _ vr vr (fun r _ => HvR r) (fun r _ => HvR r)). exact Hokr.
    + destruct (I2 t ltac:(lia)) as [O1 O2]. destruct (Hag t ltac:(lia)) as [A1 A2].
      destruct (Hag2 t ltac:(lia)) as [B1 B2]. split.
      * unfold hrefl_ok. rewrite <- A2. rewrite <- (dot_ext m _ _ _ _ A1 A1). exact O1.
      * unfold hrefl_ok. rewrite <- B2. rewrite <- (dot_ext n _ _ _ _ B1 B1). exact O2.
  - intros t Ht Hz r Hr. destruct (Nat.eq_dec t c) as [->|Hne].
    + rewrite HWc by lia. apply L5; [|lia]. rewrite Hw' in Hz by lia. rewrite Nat.eqb_refl in Hz. exact Hz.
    + rewrite HWold by lia. apply (I3 t); try lia. rewrite Hw' in Hz by lia. revert Hz; bdestr; auto.
  - intros t Ht Hz k Hk. destruct (Nat.eq_dec t c) as [->|Hne].
    + rewrite HWr by lia. apply R5; [|lia]. rewrite He'2 in Hz. exact Hz.
    + rewrite HWold by lia. apply (I4 t); try lia. rewrite He'1 in Hz by lia. exact Hz.
  - rewrite He'1 by lia. exact I5.
  - intros t Ht Hz. destruct (Nat.eq_dec t c) as [->|Hne].
    + rewrite HWc by lia. apply L6. rewrite Hw' in Hz by lia. rewrite Nat.eqb_refl in Hz. exact Hz.
    + rewrite HWold by lia. apply (I6 t); try lia. rewrite Hw' in Hz by lia. revert Hz; bdestr; auto.
  - intros _ r k Hout. unfold W', st'. cbn [bU]. apply freeze_out. exact Hout.
Qed.

(* the steps i >= m of a wide matrix: nothing is reflected, w[i] = 0 and the pending rv1 entry is stored *)
Lemma bidiag_step_skip cs m n i (st : @bidiag_st R) : (m <= i)%nat ->
  bidiag_step ROps cs m n i st =
  mkBD (freeze ROps m n (bU st)) (freezev ROps n (updv (bw st) i (0 * 0)))
       (freezev ROps n (updv (brv1 st) i (bscale st * bg st))) 0 0
       (omaxT ROps (banorm st) (Rabs (updv (bw st) i (0 * 0) i) + Rabs (updv (brv1 st) i (bscale st * bg st) i))).
Proof.
  intros Hi. unfold bidiag_step. rewrite (proj2 (Nat.ltb_ge i m) Hi). cbn [andb]. reflexivity.
Qed.

Lemma bd_inv_step_skip cs m n A c st : (m <= c)%nat -> (c < n)%nat ->
  bd_inv m n A c st -> bd_inv m n A (S c) (bidiag_step ROps cs m n c st).
Proof.
  intros Hmc Hc (I1 & I2 & I3 & I4 & I5 & I6 & I7).
  rewrite bidiag_step_skip by assumption.
  set (W := bU st) in *. set (w := bw st) in *. set (e := epend c st) in *.
  set (st' := mkBD _ _ _ _ _ _).
  set (W' := bU st'). set (w' := bw st'). set (e' := epend (S c) st').
  assert (HW' : forall r k, (r < m)%nat -> (k < n)%nat -> W' r k = W r k).
  { intros r k Hr Hk. unfold W', st'. cbn [bU]. apply freeze_in; assumption. }
  assert (HW'0 : forall r k, (m <= r \/ n <= k)%nat -> W' r k = 0).
  { intros r k H. unfold W', st'. cbn [bU]. apply freeze_out. exact H. }
  assert (HWall : (0 < c)%nat -> forall r k, W' r k = W r k).
  { intros H0 r k. destruct (le_lt_dec m r) as [H1|H1]; [rewrite HW'0, I7 by auto; reflexivity|].
    destruct (le_lt_dec n k) as [H2|H2]; [rewrite HW'0, I7 by auto; reflexivity|]. apply HW'; assumption. }
  assert (Hw' : forall t, (t < n)%nat -> w' t = if Nat.eqb c t then 0 else w t).
  { intros t Ht. unfold w', st'. cbn [bw]. rewrite freezev_in by assumption. unfold updv. bdestr. ring. }
  assert (He'1 : forall t, (t <= c)%nat -> e' t = e t).
  { intros t Ht. unfold e', epend. replace (t <? S c)%nat with true by (symmetry; bdestr).
    unfold st'. cbn [brv1]. rewrite freezev_in by lia. unfold updv, e, epend. bdestr. }
  assert (He'2 : e' (c + 1)%nat = 0).
  { unfold e', epend. replace (c + 1 <? S c)%nat with false by (symmetry; bdestr). unfold st'. cbn [bscale bg]. ring. }
  assert (Hag : fam_agree m c (uL m W) (uL m W') (hL W w) (hL W' w')).
  { intros t Ht. assert (H0 : (0 < c)%nat) by lia. split.
    - intros r Hr. unfold uL, colpad. rewrite HWall by assumption. reflexivity.
    - unfold hL. rewrite HWall by assumption. rewrite Hw' by lia. bdestr. }
  assert (Hag2 : fam_agree n c (vR n W) (vR n W') (hR W e) (hR W' e')).
  { intros t Ht. assert (H0 : (0 < c)%nat) by lia. split.
    - intros k Hk. unfold vR, rowpad. rewrite HWall by assumption. reflexivity.
    - unfold hR. rewrite HWall by assumption. rewrite He'1 by lia. reflexivity. }
  assert (HhL : hL W' w' c = 0) by (unfold hL; rewrite Hw' by lia; rewrite Nat.eqb_refl; apply hinv_of_0).
  assert (HhR : hR W' e' c = 0) by (unfold hR; rewrite He'2; apply hinv_of_0).
  unfold bd_inv. cbv zeta. fold W' w' e'.
  split; [|split; [|split; [|split; [|split; [|split]]]]].
  - intros x y. rewrite I1. cbn [app_up]. rewrite HhL, HhR. apply bil_ext.
    + intros r k Hr Hk. unfold Lmat. replace (r <? c)%nat with true by (symmetry; bdestr).
      replace (r <? S c)%nat with true by (symmetry; bdestr).
      rewrite Hw' by lia. rewrite He'1 by lia. bdestr.
    + intros r Hr. rewrite hrefl_hinv0. apply app_up_ext; auto.
    + intros k Hk. rewrite hrefl_hinv0. apply app_up_ext; auto.
  - intros t Ht. destruct (Nat.eq_dec t c) as [->|Hne].
    + rewrite HhL, HhR. unfold hrefl_ok. split; ring.
    + destruct (I2 t ltac:(lia)) as [O1 O2]. destruct (Hag t ltac:(lia)) as [A1 A2].
      destruct (Hag2 t ltac:(lia)) as [B1 B2]. split.
      * unfold hrefl_ok. rewrite <- A2. rewrite <- (dot_ext m _ _ _ _ A1 A1). exact O1.
      * unfold hrefl_ok. rewrite <- B2. rewrite <- (dot_ext n _ _ _ _ B1 B1). exact O2.
  - intros t Ht Hz r Hr. destruct (Nat.eq_dec t c) as [->|Hne]; [lia|].
    rewrite HWall by lia. apply (I3 t); try lia. rewrite Hw' in Hz by lia. revert Hz; bdestr; auto.
  - intros t Ht Hz k Hk. destruct (Nat.eq_dec t c) as [->|Hne].
    + apply HW'0. left. exact Hmc.
    + rewrite HWall by lia. apply (I4 t); try lia. rewrite He'1 in Hz by lia. exact Hz.
  - rewrite He'1 by lia. exact I5.
  - intros t Ht Hz. destruct (Nat.eq_dec t c) as [->|Hne].
    + exfalso. apply Hz. rewrite Hw' by lia. rewrite Nat.eqb_refl. reflexivity.
    + rewrite HWall by lia. apply (I6 t); try lia. rewrite Hw' in Hz by lia. revert Hz; bdestr; auto.
  - intros _ r k Hout. apply HW'0. exact Hout.
Qed.
