(* C01 — correspondence interface: the generic models of Model.v instantiated at binary64
   (`FOps`; bit for bit what the f64 code computes wherever only + - * / sqrt are used) and at an
   emulated binary32 (`F32Ops`: every binary64 result of + - * / sqrt on binary32 operands rounded
   once more to 24 bits, which is the correctly rounded binary32 result because 53 >= 2*24+2),
   compared with what the implementation returned.  Used by harness/src/bin/c01.rs through
   `Eval vm_compute`.  LU / Cholesky / their solves / SVD::solve / the SVD tail are compared exactly;
   QR and the SVD sweeps (hypot) with a tolerance relative to the scale handed in by the harness. *)
From Coq Require Import List ZArith NArith Bool Floats.
From SC Require Import Base.FloatUtil Base.Num C01.Model.
Import ListNotations.

Definition rowsF := list (list float).
Definition nn := N.to_nat.

(* ---------- binary32 emulated on binary64 ---------- *)
(* round a binary64 value to the nearest binary32 value (ties to even), result held in a binary64 *)
Definition rnd32 (x : float) : float :=
  match Prim2SF x with
  | S754_finite s m e =>
      let d := Z.of_nat (Pos.size_nat m) in          (* m has d bits: value = m * 2^e *)
      let q := Z.max (e + d - 24) (-149) in          (* exponent of the binary32 quantum *)
      let sh := (q - e)%Z in
      if (sh <=? 0)%Z then x else
      let mz := Zpos m in
      let p2 := (2 ^ sh)%Z in
      let hi := (mz / p2)%Z in
      let lo := (mz mod p2)%Z in
      let halfq := (2 ^ (sh - 1))%Z in
      let up := ((halfq <? lo) || ((halfq =? lo) && Z.odd hi))%bool%Z in
      let r := if up then (hi + 1)%Z else hi in
      (* overflow: r * 2^q >= 2^128 *)
      if (2 ^ 24 <=? r)%Z && (104 <=? q)%Z then (if s then neg_infinity else infinity)
      else
        let v := FloatOps.Z.ldexp (PrimFloat.of_uint63 (Uint63.of_Z r)) q in
        if s then PrimFloat.opp v else v
  | _ => x
  end.
Definition F32Ops : Ops float := {|
  o0 := 0%float; o1 := 1%float;
  oadd := fun a b => rnd32 (PrimFloat.add a b); osub := fun a b => rnd32 (PrimFloat.sub a b);
  omul := fun a b => rnd32 (PrimFloat.mul a b); odiv := fun a b => rnd32 (PrimFloat.div a b);
  oneg := PrimFloat.opp; oabs := PrimFloat.abs; osqrt := fun a => rnd32 (PrimFloat.sqrt a);
  oexp := fun a => rnd32 (oexp FOps a); oln := fun a => rnd32 (oln FOps a);
  oltb := PrimFloat.ltb; oleb := PrimFloat.leb; oeqb := PrimFloat.eqb;
  oofZ := fun z => rnd32 (float_of_Z z) |}.
(* width selector handed in by the harness: false = f64, true = f32 *)
Definition ops (w32 : bool) : Ops float := if w32 then F32Ops else FOps.
Definition epsw (w32 : bool) : float := if w32 then 0x1p-23%float else 0x1p-52%float.
Definition minposw (w32 : bool) : float := if w32 then 0x1p-126%float else 0x1p-1022%float.

Definition fsignbit (x : float) : bool :=
  match Prim2SF x with
  | S754_zero s => s | S754_infinity s => s | S754_finite s _ _ => s | S754_nan => false
  end.
Definition fcopysign (a f : float) : float :=
  if fsignbit f then PrimFloat.opp (PrimFloat.abs a) else PrimFloat.abs a.

Definition mxF (l : rowsF) : @Mx float := of_rows FOps l.
Definition vecF (l : list float) : @Vec float := of_vec FOps l.
Definition rows_of (m n : nat) (A : @Mx float) : rowsF := to_rows m n A.
Definition eq_rows (m n : nat) (A : @Mx float) (e : rowsF) : bool := fmat_eq (rows_of m n A) e.
Definition eq_rows_abs (tol scale : float) (m n : nat) (A : @Mx float) (e : rowsF) : bool :=
  list_eqb (list_eqb (feq_abs tol scale)) (rows_of m n A) e.
Definition eq_vec_abs (tol scale : float) (n : nat) (x : @Vec float) (e : list float) : bool :=
  list_eqb (feq_abs tol scale) (to_vec n x) e.

(* ---------- LU ---------- *)
(* factors, permutation matrix and the singular flag (observable through inverse/solve panicking) *)
Definition corr_lu (w32 : bool) (n : N) (A : rowsF) (eL eU eP : rowsF) : bool :=
  let O := ops w32 in
  let st := lu_mut O (nn n) (nn n) (mxF A) in
  eq_rows (nn n) (nn n) (lu_L O st.(lu_A)) eL &&
  eq_rows (nn n) (nn n) (lu_U O st.(lu_A)) eU &&
  eq_rows (nn n) (nn n) (lu_P O (nn n) st.(lu_piv)) eP.
Definition corr_lu_solve (w32 : bool) (n bn : N) (A B : rowsF) (e : option rowsF) : bool :=
  let O := ops w32 in
  option_eqb fmat_eq (option_map (rows_of (nn n) (nn bn)) (lu_solve_mut O (nn n) (nn bn) (mxF A) (mxF B))) e.
Definition corr_lu_inverse (w32 : bool) (n : N) (A : rowsF) (e : option rowsF) : bool :=
  let O := ops w32 in
  let st := lu_mut O (nn n) (nn n) (mxF A) in
  option_eqb fmat_eq (option_map (rows_of (nn n) (nn n)) (lu_inverse O (nn n) st.(lu_A) st.(lu_piv))) e.

(* ---------- Cholesky ---------- *)
(* code: 0 = Ok, 1 = Err(non-square), 2 = Err(not positive definite) *)
Definition corr_chol (w32 : bool) (m n : N) (A : rowsF) (code : N) (eL eU : rowsF) : bool :=
  let O := ops w32 in
  if negb (N.eqb m n) then N.eqb code 1 else
  match cholesky O (nn n) (mxF A) with
  | None => N.eqb code 2
  | Some R => N.eqb code 0 && eq_rows (nn n) (nn n) (chol_L O R) eL && eq_rows (nn n) (nn n) (chol_U O R) eU
  end.
(* cholesky_solve_mut: None = Err (decomposition failed or row counts differ) *)
Definition corr_chol_solve (w32 : bool) (n bm bn : N) (A B : rowsF) (e : option rowsF) : bool :=
  let O := ops w32 in
  let r := match cholesky O (nn n) (mxF A) with
           | None => None
           | Some R => if N.eqb bm n then Some (rows_of (nn n) (nn bn) (chol_solve O (nn n) (nn bn) R (mxF B))) else None
           end in
  option_eqb fmat_eq r e.

(* ---------- QR ---------- *)
(* a sign decision of qr_mut taken on a value that is tiny but not exactly zero (noise of a
   mathematically zero entry) is not reproducible across hypot implementations: such cases are skipped *)
Definition qr_tie (O : Ops float) (m n : nat) (A : @Mx float) : bool :=
  existsb (fun k =>
     let '(Ak, _) := qr_steps O m n k A in
     let a := fabs (Ak k k) in
     let nrm := fabs (col_norm O m k Ak) in
     PrimFloat.ltb 0%float a && PrimFloat.leb a (PrimFloat.mul 0x1p-30%float nrm)) (seq 0 n).
Definition corr_qr (w32 : bool) (m n : N) (A : rowsF) (tol scale : float) (eQ eR : rowsF) : bool :=
  let O := ops w32 in
  let '(QR, tau) := qr_mut O (nn m) (nn n) (mxF A) in
  qr_tie O (nn m) (nn n) (mxF A) ||
  (eq_rows_abs tol 1%float (nn m) (nn n) (qr_Q O (nn m) (nn n) QR) eQ &&
   eq_rows_abs tol scale (nn n) (nn n) (qr_R O QR tau) eR).
(* qr_solve_mut: None = panic "rank deficient" (a tau exactly zero); result has m rows *)
Definition corr_qr_solve (w32 : bool) (m n bn : N) (A B : rowsF) (tol scale : float) (e : option rowsF) : bool :=
  let O := ops w32 in
  qr_tie O (nn m) (nn n) (mxF A) ||
  match qr_solve_mut O (nn m) (nn n) (nn bn) (mxF A) (mxF B), e with
  | None, None => true
  | Some X, Some eX => eq_rows_abs tol scale (nn m) (nn bn) X eX
  | _, _ => false
  end.

(* ---------- SVD ---------- *)
(* whole svd_mut; r = number of leading columns of U and V that are compared (min(m,n): the columns
   belonging to zero singular values of a wide matrix are not determined) *)
Definition corr_svd (w32 : bool) (m n r : N) (A : rowsF) (tol scale : float) (eU : rowsF) (es : list float) (eV : rowsF)
  : bool :=
  let O := ops w32 in
  match svd_mut O (epsw w32) fcopysign (minposw w32) (nn m) (nn n) (mxF A) with
  | None => false
  | Some st =>
      eq_vec_abs tol scale (nn n) st.(sw) es &&
      list_eqb (list_eqb (feq_abs tol 1%float))
               (map (firstn (nn r)) (rows_of (nn m) (nn n) st.(sU))) (map (firstn (nn r)) eU) &&
      list_eqb (list_eqb (feq_abs tol 1%float))
               (map (firstn (nn r)) (rows_of (nn n) (nn n) st.(sV))) (map (firstn (nn r)) eV)
  end.
(* implementation said "no convergence" *)
Definition corr_svd_none (w32 : bool) (m n : N) (A : rowsF) : bool :=
  match svd_mut (ops w32) (epsw w32) fcopysign (minposw w32) (nn m) (nn n) (mxF A) with None => true | Some _ => false end.
(* SVD::solve run on the implementation's own factors (exact) *)
Definition corr_svd_solve (w32 : bool) (m n p : N) (U : rowsF) (s : list float) (V B : rowsF) (e : rowsF) : bool :=
  let O := ops w32 in
  eq_rows (nn m) (nn p) (svd_solve O (epsw w32) (nn m) (nn n) (nn p) (mxF U) (vecF s) (mxF V) (mxF B)) e.
(* the tail of svd_mut (shell sort + sign normalisation) must leave the implementation's final factors unchanged *)
Definition corr_svd_post (w32 : bool) (m n : N) (U : rowsF) (s : list float) (V : rowsF) : bool :=
  let O := ops w32 in
  let st := svd_post O (nn m) (nn n) (mkSVD (mxF U) (mxF V) (vecF s) (vecF [])) in
  eq_rows (nn m) (nn n) st.(sU) U && eq_rows (nn n) (nn n) st.(sV) V && flist_eq (to_vec (nn n) st.(sw)) s.
(* the tail of svd_mut run on arbitrary (unsorted, unnormalised) columns against a reference computed by the harness *)
Definition corr_svd_S (n : N) (s : list float) (e : rowsF) : bool :=
  eq_rows (nn n) (nn n) (svd_S FOps (vecF s)) e.
