(* C01 — SVD: the statement "for every eps > 0 and minpos > 0, whatever svd_mut returns is an SVD of A" is
   FALSE in the exact-arithmetic model.  Witness: A = [[1]], minpos = 2 (so w[0] = -1 counts as "subnormal"),
   eps = 1: the left accumulation replaces the reflector by the identity, and the routine returns
   U = [1], s = [1], V = [-1], i.e. U s V^T = -A.  (The floating-point analogue: a 1 x 1 matrix whose entry
   is a positive subnormal number.) *)
From Coq Require Import List Arith Bool ZArith Reals Lra Lia.
From SC Require Import Base.Num C01.Model C01.Proofs C01.Proofs_qr C01.Proofs_svd C01.Proofs_svd_refl
  C01.Proofs_svd_bidiag C01.Proofs_svd_accum C01.Proofs_svd_sweep C01.Proofs_svd_iter.
Import ListNotations.  Open Scope R_scope.

Definition cs0 : R -> R -> R := fun a f => if Rlt_dec f 0 then - Rabs a else Rabs a.
Definition A1 : @Mx R := fun _ _ => 1.

Lemma nez_1 : nez ROps 1 = true. Proof. apply nez_R. lra. Qed.
Lemma cs0_11 : cs0 (sqrt 1) 1 = 1.
Proof. unfold cs0. destruct (Rlt_dec 1 0); [lra|]. rewrite sqrt_1. apply Rabs_pos_eq. lra. Qed.

Lemma rf_left : exists W1, bd_left cs0 1 1 0 A1 = (W1, -1, 1) /\ W1 0%nat 0%nat = 2.
Proof.
  unfold bd_left. cbn [Nat.sub Nat.add]. rewrite sum_from_rsum, rsum_S, rsum_0. cbn [Nat.add].
  replace (0 + Rabs (A1 0%nat 0%nat)) with 1 by (unfold A1; rewrite Rabs_pos_eq; lra).
  rewrite nez_1. cbn [for_up Nat.add].
  replace (A1 0%nat 0%nat / 1) with 1 by (unfold A1; field).
  rewrite !upd_same. replace (0 + 1 * 1) with 1 by ring. rewrite cs0_11.
  eexists. split; [reflexivity|].
  rewrite !upd_same. ring.
Qed.

Lemma rf_bd : exists W w r an, svd_bd cs0 1 1 A1 = mkBD W w r 0 0 an /\
  W 0%nat 0%nat = 2 /\ w 0%nat = -1 /\ r 0%nat = 0 /\ 0 <= an.
Proof.
  destruct rf_left as (W1 & E & HW).
  unfold svd_bd. cbn [for_up Nat.add]. rewrite bidiag_step_eq by lia.
  unfold bd_init. cbn [bU bw brv1 bg bscale banorm]. cbv zeta. rewrite E.
  unfold bd_right. cbn [Nat.add Nat.eqb negb].
  eexists. eexists. eexists. eexists. split; [reflexivity|].
  split; [|split; [|split]].
  - rewrite freeze_in by lia. exact HW.
  - rewrite freezev_in by lia. rewrite updv_same. ring.
  - rewrite freezev_in by lia. rewrite updv_same. ring.
  - unfold omaxT. cbn [oltb oadd oabs ROps]. destruct (Rltb 0 _) eqn:E0; [|lra].
    apply Rltb_true in E0. lra.
Qed.

Lemma rf_mut : exists st, svd_mut ROps 1 cs0 2 1 1 A1 = Some st /\
  sU st 0%nat 0%nat = 1 /\ sw st 0%nat = 1 /\ sV st 0%nat 0%nat = -1.
Proof.
  destruct rf_bd as (W & w & r & an & Ebd & HW & Hw & Hr & Han).
  unfold svd_mut.
  change (for_up 1 0 (bidiag_step ROps cs0 1 1) (mkBD A1 (zerov ROps) (zerov ROps) (o0 ROps) (o0 ROps) (o0 ROps)))
    with (svd_bd cs0 1 1 A1).
  rewrite Ebd. cbn [bU bw brv1 bg bscale banorm].
  cbn [for_down accum_v_step Nat.sub Nat.ltb Nat.leb Nat.min].
  unfold accum_u_step. cbn [Nat.add Nat.sub for_up].
  assert (Einv : invertible ROps 2 (w 0%nat) = false).
  { unfold invertible. cbn [oleb oabs ROps]. rewrite Hw. apply Rleb_false. unfold Rabs. destruct (Rcase_abs (-1)); lra. }
  rewrite Einv.
  set (U0 := freeze ROps 1 1 _). set (V0 := freeze ROps 1 1 _).
  assert (HU0 : U0 0%nat 0%nat = 1).
  { unfold U0. rewrite freeze_in by lia. rewrite !upd_same. cbn [oadd o0 o1 ROps]. ring. }
  assert (HV0 : V0 0%nat 0%nat = 1).
  { unfold V0. rewrite freeze_in by lia. rewrite upd_same. reflexivity. }
  clearbody U0 V0.
  cbn [svd_iter find_split Nat.eqb sU sV sw srv1].
  unfold cancel. cbn [Nat.add Nat.sub for_up cbrk crv1 cc Model.cs cU cw].
  cbn [oleb oabs omul o0 o1 ROps].
  assert (Eb : Rleb (Rabs (1 * r 0%nat)) (1 * an) = true).
  { apply Rleb_true. rewrite Hr, Rmult_0_r, Rabs_R0. lra. }
  rewrite Eb. cbn [cU cw crv1].
  assert (Ez : oltb ROps (w 0%nat) 0 = true).
  { cbn [oltb ROps]. apply Rltb_true. lra. }
  rewrite Ez.
  set (V1 := neg_col ROps 1 0 V0).
  assert (HV1 : V1 0%nat 0%nat = -1).
  { unfold V1. rewrite neg_col_spec. cbn [Nat.ltb Nat.leb Nat.eqb andb]. rewrite HV0. ring. }
  clearbody V1.
  unfold svd_post, svd_sort. cbn [shell_inc0 Nat.mul Nat.add Nat.ltb Nat.leb].
  change (shell_passes ROps 2 1 1 4) with (fun st : @svd_st R => st).
  cbv beta. unfold svd_signs. cbn [for_up Nat.add sU sV sw srv1].
  unfold count_neg. cbn [for_up Nat.add]. rewrite HU0, HV1.
  assert (E1 : oltb ROps 1 (o0 ROps) = false) by (cbn [oltb o0 ROps]; apply Rltb_false; lra).
  assert (E2 : oltb ROps (-1) (o0 ROps) = true) by (cbn [oltb o0 ROps]; apply Rltb_true; lra).
  rewrite E1, E2. cbn [Nat.add Nat.mul Nat.ltb Nat.leb].
  eexists. split; [reflexivity|]. cbn [sU sV sw]. split; [exact HU0|]. split; [|exact HV1].
  rewrite updv_same. cbn [oneg ROps]. rewrite Hw. ring.
Qed.

Theorem svd_full_statement_refuted :
  ~ (forall (eps minpos : R) (cs : R -> R -> R) m n (A : @Mx R) st, (n <= m)%nat -> 0 < eps -> 0 < minpos ->
    (forall a f, cs a f = if Rlt_dec f 0 then - Rabs a else Rabs a) ->
    svd_mut ROps eps cs minpos m n A = Some st ->
    orthocols m n (sU st) /\ orthocols n n (sV st) /\
    (forall i k, (i < m)%nat -> (k < n)%nat -> svd_A n (sU st) (sw st) (sV st) i k = A i k) /\
    (forall j, (j < n)%nat -> 0 <= sw st j) /\
    (forall a b, (a <= b)%nat -> (b < n)%nat -> sw st b <= sw st a)).
Proof.
  intros H. destruct rf_mut as (st & E & HU & Hw & HV).
  destruct (H 1 2 cs0 1%nat 1%nat A1 st (le_n 1) ltac:(lra) ltac:(lra) (fun a f => eq_refl) E) as (_ & _ & HA & _).
  specialize (HA 0%nat 0%nat ltac:(lia) ltac:(lia)). unfold svd_A in HA. rewrite rsum_S, rsum_0 in HA.
  rewrite HU, Hw, HV in HA. unfold A1 in HA. lra.
Qed.

