(* C01 — Householder QR (qr.rs) over the reals: the stored reflectors triangularise A, are orthogonal
   involutions, A = Q R, Q has orthonormal columns, and solve returns a least-squares solution. *)
From Coq Require Import List Arith Bool ZArith Reals Lra Lia.
From SC Require Import Base.Num C01.Model C01.Proofs.
Import ListNotations.  Open Scope R_scope.

(* the reflection stored in column k of V, applied to a vector x of length m *)
Definition refl (m k : nat) (V : @Mx R) (x : nat -> R) : nat -> R :=
  let s := - (rsum (m - k) (fun t => V (k + t)%nat k * x (k + t)%nat)) / V k k in
  fun i => if ((k <=? i) && (i <? m))%bool then x i + s * V i k else x i.
(* H_k as Q()/the maths uses it: identity when the step was skipped (stored column is zero) *)
Definition Hk (m k : nat) (V : @Mx R) (x : nat -> R) : nat -> R :=
  if nez ROps (V k k) then refl m k V x else x.
(* H_{cnt-1} (... (H_0 x)) and H_0 (... (H_{cnt-1} x)) *)
Fixpoint Qtapp (m : nat) (V : @Mx R) (cnt : nat) (x : nat -> R) : nat -> R :=
  match cnt with 0%nat => x | S c => Hk m c V (Qtapp m V c x) end.
Fixpoint Qapp (m : nat) (V : @Mx R) (cnt : nat) (x : nat -> R) : nat -> R :=
  match cnt with 0%nat => x | S c => Qapp m V c (Hk m c V x) end.
Definition dot (m : nat) (x y : nat -> R) : R := rsum m (fun i => x i * y i).

(* ---------- small tools ---------- *)
Ltac bdestr :=
  repeat match goal with
  | |- context [Nat.eqb ?a ?b] => destruct (Nat.eqb_spec a b)
  | |- context [Nat.leb ?a ?b] => destruct (Nat.leb_spec a b)
  | |- context [Nat.ltb ?a ?b] => destruct (Nat.ltb_spec a b)
  end; cbn [andb orb negb]; subst; try lia; try reflexivity.

Lemma rsum_first n f : rsum (S n) f = f 0%nat + rsum n (fun t => f (S t)).
Proof.
  induction n as [|n IH]; [rewrite !rsum_S, !rsum_0; lra|].
  rewrite rsum_S, IH, rsum_S. lra.
Qed.
Lemma rsum_sq_zero n f : rsum n (fun t => f t * f t) = 0 -> forall t, (t < n)%nat -> f t = 0.
Proof.
  induction n as [|n IH]; intros H t Ht; [lia|].
  rewrite rsum_S in H.
  assert (H0 : 0 <= rsum n (fun t => f t * f t)) by (apply rsum_nonneg; intros; nra).
  assert (H1 : 0 <= f n * f n) by nra.
  destruct (Nat.eq_dec t n) as [->|Hn].
  - nra.
  - apply IH; [lra|lia].
Qed.

(* the scalar product v . x over rows k..m that the reflection uses *)
Definition sig (m k : nat) (V : @Mx R) (x : nat -> R) : R :=
  rsum (m - k) (fun t => V (k + t)%nat k * x (k + t)%nat).

Lemma refl_in m k V x i : (k <= i < m)%nat ->
  refl m k V x i = x i + (- sig m k V x / V k k) * V i k.
Proof. intros H. unfold refl, sig. bdestr. Qed.
Lemma refl_out m k V x i : ~ (k <= i < m)%nat -> refl m k V x i = x i.
Proof. intros H. unfold refl. bdestr. Qed.

Lemma sig_ext m k V V' x y :
  (forall i, (k <= i < m)%nat -> V i k = V' i k) -> (forall i, (k <= i < m)%nat -> x i = y i) ->
  sig m k V x = sig m k V' y.
Proof. intros HV Hx. unfold sig. apply rsum_ext. intros t Ht. rewrite HV, Hx by lia. reflexivity. Qed.

Lemma refl_ext m k V V' x y : (k < m)%nat ->
  (forall i, (k <= i < m)%nat -> V i k = V' i k) -> (forall i, (k <= i < m)%nat -> x i = y i) ->
  forall i, x i = y i -> refl m k V x i = refl m k V' y i.
Proof.
  intros Hkm HV Hx i Hi.
  destruct (le_lt_dec k i) as [H1|H1]; [destruct (le_lt_dec m i) as [H2|H2]|].
  - rewrite !refl_out by lia. exact Hi.
  - rewrite !refl_in by lia. rewrite (sig_ext m k V V' x y HV Hx), Hi, !HV by lia. reflexivity.
  - rewrite !refl_out by lia. exact Hi.
Qed.
Lemma refl_ext_x m k V x y :
  (forall i, (k <= i < m)%nat -> x i = y i) -> forall i, x i = y i -> refl m k V x i = refl m k V y i.
Proof.
  intros Hx i Hi.
  destruct (le_lt_dec k i) as [H1|H1]; [destruct (le_lt_dec m i) as [H2|H2]|].
  - rewrite !refl_out by lia. exact Hi.
  - rewrite !refl_in by lia. rewrite (sig_ext m k V V x y (fun _ _ => eq_refl) Hx), Hi. reflexivity.
  - rewrite !refl_out by lia. exact Hi.
Qed.

Lemma Hk_ext m k V x y :
  (forall i, (k <= i < m)%nat -> x i = y i) -> forall i, x i = y i -> Hk m k V x i = Hk m k V y i.
Proof. intros Hx i Hi. unfold Hk. destruct (nez ROps (V k k)); [apply refl_ext_x; assumption|exact Hi]. Qed.
Lemma Hk_ext_V m k V V' x : (k < m)%nat ->
  (forall i, (k <= i < m)%nat -> V i k = V' i k) -> forall i, Hk m k V x i = Hk m k V' x i.
Proof.
  intros Hkm HV i. unfold Hk. rewrite <- (HV k) by lia.
  destruct (nez ROps (V k k)); [apply refl_ext; auto|reflexivity].
Qed.
(* rows k..m of x are zero: nothing happens *)
Lemma Hk_zero_tail m k V x : (forall r, (k <= r < m)%nat -> x r = 0) -> forall i, Hk m k V x i = x i.
Proof.
  intros Hz i. unfold Hk. destruct (nez ROps (V k k)); [|reflexivity].
  destruct (le_lt_dec k i) as [H1|H1]; [destruct (le_lt_dec m i) as [H2|H2]|]; try (apply refl_out; lia).
  rewrite refl_in by lia. unfold sig. rewrite rsum_zero; [unfold Rdiv; ring|].
  intros t Ht. rewrite Hz by lia. ring.
Qed.

(* ---------- (0) the two inner loops ---------- *)
Lemma house_apply_spec m k V j B i j' :
  house_apply ROps m k V j B i j' = (if Nat.eqb j' j then refl m k V (fun r => B r j) i else B i j').
Proof.
  unfold house_apply. rewrite sum_from_rsum. cbn [oadd omul odiv oneg ROps].
  unfold refl. cbv beta.
  set (s := - rsum _ _ / V k k).
  pose (P := fun (c : nat) (B1 : @Mx R) => forall i j',
     B1 i j' = if (Nat.eqb j' j && ((k <=? i) && (i <? k + c)))%bool then B i j + s * V i k else B i j').
  assert (HP : P (m - k)%nat (for_up (m - k) k (fun i B1 => upd B1 i j (B1 i j + s * V i k)) B)).
  { apply for_up_inv.
    - intros i0 j0. bdestr.
    - intros c B1 Hc HB i0 j0. rewrite upd_eq, !HB. bdestr. }
  rewrite HP. bdestr.
Qed.

Lemma col_norm_spec m k A : (k <= m)%nat ->
  col_norm ROps m k A = sqrt (rsum (m - k) (fun t => A (k + t)%nat k * A (k + t)%nat k)).
Proof.
  intros _. unfold col_norm.
  apply (for_up_inv (fun c nrm => nrm = sqrt (rsum c (fun t => A (k + t)%nat k * A (k + t)%nat k)))).
  - cbn [o0 ROps]. rewrite rsum_0, sqrt_0. reflexivity.
  - intros c s' Hc ->. unfold hypot. cbn [oadd omul osqrt ROps].
    rewrite sqrt_sqrt by (apply rsum_nonneg; intros; nra). rewrite rsum_S. reflexivity.
Qed.
Lemma col_norm_nonneg m k A : 0 <= col_norm ROps m k A.
Proof.
  destruct (le_lt_dec k m).
  - rewrite col_norm_spec by assumption. apply sqrt_pos.
  - unfold col_norm. replace (m - k)%nat with 0%nat by lia. cbn. lra.
Qed.
Lemma col_norm_zero m k A : (k <= m)%nat ->
  (col_norm ROps m k A = 0 <-> forall i, (k <= i < m)%nat -> A i k = 0).
Proof.
  intros Hkm. rewrite col_norm_spec by assumption. split.
  - intros H i Hi. apply sqrt_eq_0 in H; [|apply rsum_nonneg; intros; nra].
    pose proof (rsum_sq_zero _ (fun t => A (k + t)%nat k) H (i - k)%nat ltac:(lia)) as H1.
    cbv beta in H1. replace (k + (i - k))%nat with i in H1 by lia. exact H1.
  - intros H. rewrite rsum_zero; [apply sqrt_0|]. intros t Ht. rewrite H by lia. ring.
Qed.

(* ---------- (1) ---------- *)
Lemma qr_R_upper (QR : @Mx R) tau i j : (j < i)%nat -> qr_R ROps QR tau i j = 0.
Proof. intros H. unfold qr_R. bdestr. Qed.

(* ---------- one step of qr_mut ---------- *)
Lemma scale_loop_spec m k (A : @Mx R) nrm i j :
  for_up (m - k) k (fun i A1 => upd A1 i k (A1 i k / nrm)) A i j =
  if (Nat.eqb j k && ((k <=? i) && (i <? m)))%bool then A i k / nrm else A i j.
Proof.
  pose (P := fun (c : nat) (B1 : @Mx R) => forall i j,
     B1 i j = if (Nat.eqb j k && ((k <=? i) && (i <? k + c)))%bool then A i k / nrm else A i j).
  assert (HP : P (m - k)%nat (for_up (m - k) k (fun i A1 => upd A1 i k (A1 i k / nrm)) A)).
  { apply for_up_inv.
    - intros i0 j0. bdestr.
    - intros c B1 Hc HB i0 j0. rewrite upd_eq, !HB. bdestr. }
  rewrite HP. bdestr.
Qed.

Lemma house_cols_spec m n k (A2 : @Mx R) i j : (k < m)%nat ->
  for_up (n - (k + 1)) (k + 1) (fun j A3 => house_apply ROps m k A3 j A3) A2 i j =
  if ((k <? j) && (j <? n))%bool then refl m k A2 (fun r => A2 r j) i else A2 i j.
Proof.
  intros Hkm.
  pose (P := fun (c : nat) (A3 : @Mx R) => forall i j,
     A3 i j = if ((k <? j) && (j <? k + 1 + c))%bool then refl m k A2 (fun r => A2 r j) i else A2 i j).
  assert (HP : P (n - (k + 1))%nat (for_up (n - (k + 1)) (k + 1) (fun j A3 => house_apply ROps m k A3 j A3) A2)).
  { apply for_up_inv.
    - intros i0 j0. bdestr.
    - intros c A3 Hc HB i0 j0. rewrite house_apply_spec.
      destruct (Nat.eqb_spec j0 (k + 1 + c)) as [->|Hne].
      + replace ((k <? k + 1 + c) && (k + 1 + c <? k + 1 + S c))%bool with true by (symmetry; bdestr).
        apply refl_ext; [assumption| | |].
        * intros r Hr. rewrite HB. bdestr.
        * intros r Hr. rewrite HB. bdestr.
        * rewrite HB. bdestr.
      + rewrite HB. bdestr. }
  rewrite HP. bdestr.
Qed.

Definition refl_fact (m k : nat) (V : @Mx R) (tau : nat -> R) : Prop :=
  ((forall i, (k <= i < m)%nat -> V i k = 0) /\ tau k = 0) \/
  (1 <= V k k /\ rsum (m - k) (fun t => V (k + t)%nat k ^ 2) = 2 * V k k /\ tau k <> 0).

Lemma house_scalar a0 T nrm : nrm <> 0 -> nrm * nrm = a0 * a0 + T -> 0 <= a0 / nrm ->
  - ((a0 / nrm + 1) * a0 + T / nrm) / (a0 / nrm + 1) = - nrm.
Proof.
  intros Hn HT Hs.
  assert (E : (a0 / nrm + 1) * a0 + T / nrm = nrm * (a0 / nrm + 1)).
  { replace T with (nrm * nrm - a0 * a0) by lra. field. assumption. }
  rewrite E. assert (Hd : a0 / nrm + 1 <> 0) by lra. revert Hd. generalize (a0 / nrm + 1). intros d Hd.
  field. assumption.
Qed.
Lemma house_norm a0 T nrm : nrm <> 0 -> nrm * nrm = a0 * a0 + T ->
  (a0 / nrm + 1) ^ 2 + T / (nrm * nrm) = 2 * (a0 / nrm + 1).
Proof.
  intros Hn HT. replace T with (nrm * nrm - a0 * a0) by lra. field. assumption.
Qed.

Lemma qr_step_spec m n k (A : @Mx R) (rd : nat -> R) : (k < m)%nat -> (k < n)%nat ->
  forall B rd', qr_step ROps m n k (A, rd) = (B, rd') ->
  (forall i j, (j < k \/ n <= j)%nat -> B i j = A i j) /\
  (forall i j, (i < k \/ m <= i)%nat -> B i j = A i j) /\
  (forall i, i <> k -> rd' i = rd i) /\
  (forall i j, (k < j < n)%nat -> B i j = Hk m k B (fun r => A r j) i) /\
  (forall i, Hk m k B (fun r => A r k) i =
             if ((k <? i) && (i <? m))%bool then 0 else if Nat.eqb i k then rd' k else A i k) /\
  refl_fact m k B rd'.
Proof.
  intros Hkm Hkn B rd' E. unfold qr_step in E.
  pose proof (col_norm_nonneg m k A) as Hn0.
  pose proof (col_norm_zero m k A ltac:(lia)) as Hz.
  pose proof (col_norm_spec m k A ltac:(lia)) as Hs.
  set (nrm0 := col_norm ROps m k A) in *.
  destruct (nez ROps nrm0) eqn:En.
  - apply nez_R in En. cbn [oadd osub omul odiv oabs oltb oeqb osqrt o0 o1 oneg ROps] in E.
    set (nrm := if Rltb (A k k) 0 then - nrm0 else nrm0) in *.
    pose (A2 := fun i j => if (Nat.eqb j k && ((k <=? i) && (i <? m)))%bool
                           then A i k / nrm + (if Nat.eqb i k then 1 else 0) else A i j).
    assert (HB : forall i j, B i j = if ((k <? j) && (j <? n))%bool
                                     then refl m k A2 (fun r => A r j) i else A2 i j).
    { inversion E as [[EB Erd]]. intros i j. rewrite house_cols_spec by assumption.
      match goal with |- context [refl m k ?X _] => set (A2t := X) end.
      assert (HA2 : forall i j, A2t i j = A2 i j).
      { intros i0 j0. unfold A2t, A2. rewrite upd_eq, !scale_loop_spec. bdestr; ring. }
      destruct ((k <? j) && (j <? n))%bool eqn:Ej; [|apply HA2].
      apply andb_true_iff in Ej. destruct Ej as [Ej1 Ej2]. apply Nat.ltb_lt in Ej1.
      apply refl_ext; [assumption| | |].
      - intros r Hr. apply HA2.
      - intros r Hr. rewrite HA2. unfold A2. bdestr.
      - rewrite HA2. unfold A2. bdestr. }
    assert (Erd : rd' = updv rd k (- nrm)) by (inversion E; reflexivity).
    clear E.
    assert (HBk : forall i, B i k = A2 i k) by (intros i; rewrite HB; bdestr).
    assert (HBkk : B k k = A k k / nrm + 1) by (rewrite HBk; unfold A2; bdestr).
    assert (Hpos : 0 < nrm0) by lra.
    assert (Hnrm : nrm <> 0) by (unfold nrm; destruct (Rltb (A k k) 0); lra).
    assert (Hsq : nrm * nrm = rsum (m - k) (fun t => A (k + t)%nat k * A (k + t)%nat k)).
    { transitivity (nrm0 * nrm0); [unfold nrm; destruct (Rltb (A k k) 0); ring|].
      rewrite Hs. apply sqrt_sqrt. apply rsum_nonneg; intros; nra. }
    assert (Hsign : 0 <= A k k / nrm).
    { unfold nrm. destruct (Rltb (A k k) 0) eqn:El; [apply Rltb_true in El | apply Rltb_false in El].
      - replace (A k k / - nrm0) with ((- A k k) * / nrm0) by (field; lra).
        apply Rmult_le_pos; [lra | left; apply Rinv_0_lt_compat; lra].
      - unfold Rdiv. apply Rmult_le_pos; [lra | left; apply Rinv_0_lt_compat; lra]. }
    destruct (m - k)%nat as [|p] eqn:Hp; [lia|].
    set (T := rsum p (fun t => A (k + S t)%nat k * A (k + S t)%nat k)).
    rewrite rsum_first, Nat.add_0_r in Hsq. fold T in Hsq.
    assert (HBt : forall t, (t < p)%nat -> B (k + S t)%nat k = A (k + S t)%nat k / nrm).
    { intros t Ht. rewrite HBk. unfold A2. bdestr; ring. }
    assert (Hnz : nez ROps (B k k) = true) by (apply nez_R; lra).
    assert (Hsig : - sig m k B (fun r => A r k) / B k k = - nrm).
    { unfold sig. rewrite Hp, rsum_first, Nat.add_0_r, HBkk.
      replace (rsum p (fun t => B (k + S t)%nat k * A (k + S t)%nat k)) with (T / nrm).
      - apply house_scalar; assumption.
      - unfold T, Rdiv. rewrite <- rsum_scal_r. apply rsum_ext. intros t Ht. rewrite HBt by assumption.
        field. assumption. }
    repeat split.
    + intros i j Hj. rewrite HB. unfold A2. bdestr.
    + intros i j Hi. rewrite HB. destruct ((k <? j) && (j <? n))%bool.
      * rewrite refl_out by lia. reflexivity.
      * unfold A2. bdestr.
    + intros i Hi. rewrite Erd. apply updv_other. lia.
    + intros i j Hj. unfold Hk. rewrite Hnz. rewrite HB.
      replace ((k <? j) && (j <? n))%bool with true by (symmetry; bdestr).
      apply refl_ext; [assumption| | |]; try reflexivity.
      intros r Hr. symmetry. apply HBk.
    + intros i. unfold Hk. rewrite Hnz.
      destruct (le_lt_dec k i) as [H1|H1]; [destruct (le_lt_dec m i) as [H2|H2]|].
      * rewrite refl_out by lia. bdestr.
      * rewrite refl_in by lia. rewrite Hsig, HBk, Erd. unfold A2. bdestr.
        -- rewrite updv_same. field. assumption.
        -- field. assumption.
      * rewrite refl_out by lia. bdestr.
    + right. split; [lra|]. split.
      * rewrite Hp, rsum_first, Nat.add_0_r, HBkk.
        replace (rsum p (fun t => B (k + S t)%nat k ^ 2)) with (T / (nrm * nrm)).
        -- apply house_norm; assumption.
        -- unfold T, Rdiv. rewrite <- rsum_scal_r. apply rsum_ext. intros t Ht. rewrite HBt by assumption.
           field. assumption.
      * rewrite Erd, updv_same. lra.
  - apply nez_R_false in En. cbn [oneg ROps] in E. inversion E as [[EB Erd]]. subst B. clear E.
    pose proof (proj1 Hz En) as HA0.
    assert (Hnz : nez ROps (A k k) = false) by (apply nez_R_false; apply HA0; lia).
    repeat split.
    + intros i Hi. apply updv_other. lia.
    + intros i j Hj. unfold Hk. rewrite Hnz. reflexivity.
    + intros i. unfold Hk. rewrite Hnz. bdestr; try (apply HA0; lia).
      rewrite updv_same, En, HA0 by lia. lra.
    + left. split; [exact HA0|]. rewrite updv_same, En. lra.
Qed.
