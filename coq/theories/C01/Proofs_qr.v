(* C01 — Householder QR (qr.rs) over the reals: the stored reflectors triangularise A, are orthogonal
   involutions, A = Q R, Q has orthonormal columns, and solve returns a least-squares solution. *)
From Coq Require Import List Arith Bool ZArith Reals Lra Lia.
From SC Require Import Base.Num C01.Model C01.Proofs.
Import ListNotations.  Open Scope R_scope.

(* the reflection stored in column k of V, applied to a vector x of length m *)
Definition refl (m k : nat) (V : @Mx R) (x : nat -> R) : nat -> R :=
  let s := - (rsum (m - k) (fun t => V (k + t)%nat k * x (k + t)%nat)) / V k k in
  fun i => if ((k <=? i) && (i <? m))%bool then x i + s * V i k else x i.
(* H_k as Q()/the maths uses it: identity when the step was skipped (stored column is zero) *)
Definition Hk (m k : nat) (V : @Mx R) (x : nat -> R) : nat -> R :=
  if nez ROps (V k k) then refl m k V x else x.
(* H_{cnt-1} (... (H_0 x)) and H_0 (... (H_{cnt-1} x)) *)
Fixpoint Qtapp (m : nat) (V : @Mx R) (cnt : nat) (x : nat -> R) : nat -> R :=
  match cnt with 0%nat => x | S c => Hk m c V (Qtapp m V c x) end.
Fixpoint Qapp (m : nat) (V : @Mx R) (cnt : nat) (x : nat -> R) : nat -> R :=
  match cnt with 0%nat => x | S c => Qapp m V c (Hk m c V x) end.
Definition dot (m : nat) (x y : nat -> R) : R := rsum m (fun i => x i * y i).

(* ---------- small tools ---------- *)
Ltac bstep :=
  match goal with
  | |- context [Nat.eqb ?a ?b] => destruct (Nat.eqb_spec a b)
  | |- context [Nat.leb ?a ?b] => destruct (Nat.leb_spec a b)
  | |- context [Nat.ltb ?a ?b] => destruct (Nat.ltb_spec a b)
  end.
Ltac bdestr := repeat (bstep; cbn [andb orb negb]; try lia); subst; try lia; try reflexivity.

Lemma rsum_first n f : rsum (S n) f = f 0%nat + rsum n (fun t => f (S t)).
Proof.
  induction n as [|n IH]; [rewrite !rsum_S, !rsum_0; lra|].
  rewrite rsum_S, IH, rsum_S. lra.
Qed.
Lemma rsum_sq_zero n f : rsum n (fun t => f t * f t) = 0 -> forall t, (t < n)%nat -> f t = 0.
Proof.
  induction n as [|n IH]; intros H t Ht; [lia|].
  rewrite rsum_S in H.
  assert (H0 : 0 <= rsum n (fun t => f t * f t)) by (apply rsum_nonneg; intros; nra).
  assert (H1 : 0 <= f n * f n) by nra.
  destruct (Nat.eq_dec t n) as [->|Hn].
  - nra.
  - apply IH; [lra|lia].
Qed.

(* the scalar product v . x over rows k..m that the reflection uses *)
Definition sig (m k : nat) (V : @Mx R) (x : nat -> R) : R :=
  rsum (m - k) (fun t => V (k + t)%nat k * x (k + t)%nat).

Lemma refl_in m k V x i : (k <= i < m)%nat ->
  refl m k V x i = x i + (- sig m k V x / V k k) * V i k.
Proof. intros H. unfold refl, sig. bdestr. Qed.
Lemma refl_out m k V x i : ~ (k <= i < m)%nat -> refl m k V x i = x i.
Proof. intros H. unfold refl. bdestr. Qed.

Lemma sig_ext m k V V' x y :
  (forall i, (k <= i < m)%nat -> V i k = V' i k) -> (forall i, (k <= i < m)%nat -> x i = y i) ->
  sig m k V x = sig m k V' y.
Proof. intros HV Hx. unfold sig. apply rsum_ext. intros t Ht. rewrite HV, Hx by lia. reflexivity. Qed.

Lemma refl_ext m k V V' x y : (k < m)%nat ->
  (forall i, (k <= i < m)%nat -> V i k = V' i k) -> (forall i, (k <= i < m)%nat -> x i = y i) ->
  forall i, x i = y i -> refl m k V x i = refl m k V' y i.
Proof.
  intros Hkm HV Hx i Hi.
  destruct (le_lt_dec k i) as [H1|H1]; [destruct (le_lt_dec m i) as [H2|H2]|].
  - rewrite !refl_out by lia. exact Hi.
  - rewrite !refl_in by lia. rewrite (sig_ext m k V V' x y HV Hx), Hi, !HV by lia. reflexivity.
  - rewrite !refl_out by lia. exact Hi.
Qed.
Lemma refl_ext_x m k V x y :
  (forall i, (k <= i < m)%nat -> x i = y i) -> forall i, x i = y i -> refl m k V x i = refl m k V y i.
Proof.
  intros Hx i Hi.
  destruct (le_lt_dec k i) as [H1|H1]; [destruct (le_lt_dec m i) as [H2|H2]|].
  - rewrite !refl_out by lia. exact Hi.
  - rewrite !refl_in by lia. rewrite (sig_ext m k V V x y (fun _ _ => eq_refl) Hx), Hi. reflexivity.
  - rewrite !refl_out by lia. exact Hi.
Qed.

Lemma Hk_ext m k V x y :
  (forall i, (k <= i < m)%nat -> x i = y i) -> forall i, x i = y i -> Hk m k V x i = Hk m k V y i.
Proof. intros Hx i Hi. unfold Hk. destruct (nez ROps (V k k)); [apply refl_ext_x; assumption|exact Hi]. Qed.
Lemma Hk_ext_V m k V V' x : (k < m)%nat ->
  (forall i, (k <= i < m)%nat -> V i k = V' i k) -> forall i, Hk m k V x i = Hk m k V' x i.
Proof.
  intros Hkm HV i. unfold Hk. rewrite <- (HV k) by lia.
  destruct (nez ROps (V k k)); [apply refl_ext; auto|reflexivity].
Qed.
(* rows k..m of x are zero: nothing happens *)
Lemma Hk_zero_tail m k V x : (forall r, (k <= r < m)%nat -> x r = 0) -> forall i, Hk m k V x i = x i.
Proof.
  intros Hz i. unfold Hk. destruct (nez ROps (V k k)); [|reflexivity].
  destruct (le_lt_dec k i) as [H1|H1]; [destruct (le_lt_dec m i) as [H2|H2]|]; try (apply refl_out; lia).
  rewrite refl_in by lia. unfold sig. rewrite rsum_zero; [unfold Rdiv; ring|].
  intros t Ht. rewrite Hz by lia. ring.
Qed.

(* ---------- (0) the two inner loops ---------- *)
Lemma house_apply_spec m k V j B i j' :
  house_apply ROps m k V j B i j' = (if Nat.eqb j' j then refl m k V (fun r => B r j) i else B i j').
Proof.
  unfold house_apply. rewrite sum_from_rsum. cbn [oadd omul odiv oneg ROps].
  unfold refl. cbv beta.
  set (s := - rsum _ _ / V k k).
  pose (P := fun (c : nat) (B1 : @Mx R) => forall i j',
     B1 i j' = if (Nat.eqb j' j && ((k <=? i) && (i <? k + c)))%bool then B i j + s * V i k else B i j').
  assert (HP : P (m - k)%nat (for_up (m - k) k (fun i B1 => upd B1 i j (B1 i j + s * V i k)) B)).
  { apply for_up_inv.
    - intros i0 j0. bdestr.
    - intros c B1 Hc HB i0 j0. rewrite upd_eq, !HB. bdestr. }
  rewrite HP. bdestr.
Qed.

Lemma col_norm_spec m k A : (k <= m)%nat ->
  col_norm ROps m k A = sqrt (rsum (m - k) (fun t => A (k + t)%nat k * A (k + t)%nat k)).
Proof.
  intros _. unfold col_norm.
  apply (for_up_inv (fun c nrm => nrm = sqrt (rsum c (fun t => A (k + t)%nat k * A (k + t)%nat k)))).
  - cbn [o0 ROps]. rewrite rsum_0, sqrt_0. reflexivity.
  - intros c s' Hc ->. unfold hypot. cbn [oadd omul osqrt ROps].
    rewrite sqrt_sqrt by (apply rsum_nonneg; intros; nra). rewrite rsum_S. reflexivity.
Qed.
Lemma col_norm_nonneg m k A : 0 <= col_norm ROps m k A.
Proof.
  destruct (le_lt_dec k m).
  - rewrite col_norm_spec by assumption. apply sqrt_pos.
  - unfold col_norm. replace (m - k)%nat with 0%nat by lia. cbn. lra.
Qed.
Lemma col_norm_zero m k A : (k <= m)%nat ->
  (col_norm ROps m k A = 0 <-> forall i, (k <= i < m)%nat -> A i k = 0).
Proof.
  intros Hkm. rewrite col_norm_spec by assumption. split.
  - intros H i Hi. apply sqrt_eq_0 in H; [|apply rsum_nonneg; intros; nra].
    pose proof (rsum_sq_zero _ (fun t => A (k + t)%nat k) H (i - k)%nat ltac:(lia)) as H1.
    cbv beta in H1. replace (k + (i - k))%nat with i in H1 by lia. exact H1.
  - intros H. rewrite rsum_zero; [apply sqrt_0|]. intros t Ht. rewrite H by lia. ring.
Qed.

(* ---------- (1) ---------- *)
Lemma qr_R_upper (QR : @Mx R) tau i j : (j < i)%nat -> qr_R ROps QR tau i j = 0.
Proof. intros H. unfold qr_R. bdestr. Qed.

(* ---------- one step of qr_mut ---------- *)
Lemma scale_loop_spec m k (A : @Mx R) nrm i j :
  for_up (m - k) k (fun i A1 => upd A1 i k (A1 i k / nrm)) A i j =
  if (Nat.eqb j k && ((k <=? i) && (i <? m)))%bool then A i k / nrm else A i j.
Proof.
  pose (P := fun (c : nat) (B1 : @Mx R) => forall i j,
     B1 i j = if (Nat.eqb j k && ((k <=? i) && (i <? k + c)))%bool then A i k / nrm else A i j).
  assert (HP : P (m - k)%nat (for_up (m - k) k (fun i A1 => upd A1 i k (A1 i k / nrm)) A)).
  { apply for_up_inv.
    - intros i0 j0. bdestr.
    - intros c B1 Hc HB i0 j0. rewrite upd_eq, !HB. bdestr. }
  rewrite HP. bdestr.
Qed.

Lemma house_cols_spec m n k (A2 : @Mx R) i j : (k < m)%nat ->
  for_up (n - (k + 1)) (k + 1) (fun j A3 => house_apply ROps m k A3 j A3) A2 i j =
  if ((k <? j) && (j <? n))%bool then refl m k A2 (fun r => A2 r j) i else A2 i j.
Proof.
  intros Hkm.
  pose (P := fun (c : nat) (A3 : @Mx R) => forall i j,
     A3 i j = if ((k <? j) && (j <? k + 1 + c))%bool then refl m k A2 (fun r => A2 r j) i else A2 i j).
  assert (HP : P (n - (k + 1))%nat (for_up (n - (k + 1)) (k + 1) (fun j A3 => house_apply ROps m k A3 j A3) A2)).
  { apply for_up_inv.
    - intros i0 j0. bdestr.
    - intros c A3 Hc HB i0 j0. rewrite house_apply_spec.
      destruct (Nat.eqb_spec j0 (k + 1 + c)) as [->|Hne].
      + replace ((k <? k + 1 + c) && (k + 1 + c <? k + 1 + S c))%bool with true by (symmetry; bdestr).
        apply refl_ext; [assumption| | |].
        * intros r Hr. rewrite HB. bdestr.
        * intros r Hr. rewrite HB. bdestr.
        * rewrite HB. bdestr.
      + rewrite HB. bdestr. }
  rewrite HP. bdestr.
Qed.

Definition refl_fact (m k : nat) (V : @Mx R) (tau : nat -> R) : Prop :=
  ((forall i, (k <= i < m)%nat -> V i k = 0) /\ tau k = 0) \/
  (1 <= V k k /\ rsum (m - k) (fun t => V (k + t)%nat k ^ 2) = 2 * V k k /\ tau k <> 0).

Lemma house_scalar a0 T nrm : nrm <> 0 -> nrm * nrm = a0 * a0 + T -> 0 <= a0 / nrm ->
  - ((a0 / nrm + 1) * a0 + T / nrm) / (a0 / nrm + 1) = - nrm.
Proof.
  intros Hn HT Hs.
  assert (E : (a0 / nrm + 1) * a0 + T / nrm = nrm * (a0 / nrm + 1)).
  { replace T with (nrm * nrm - a0 * a0) by lra. field. assumption. }
  rewrite E. assert (Hd : a0 / nrm + 1 <> 0) by lra. revert Hd. generalize (a0 / nrm + 1). intros d Hd.
  field. assumption.
Qed.
Lemma house_norm a0 T nrm : nrm <> 0 -> nrm * nrm = a0 * a0 + T ->
  (a0 / nrm + 1) ^ 2 + T / (nrm * nrm) = 2 * (a0 / nrm + 1).
Proof.
  intros Hn HT. replace T with (nrm * nrm - a0 * a0) by lra. field. assumption.
Qed.

Lemma qr_step_spec m n k (A : @Mx R) (rd : nat -> R) : (k < m)%nat -> (k < n)%nat ->
  forall B rd', qr_step ROps m n k (A, rd) = (B, rd') ->
  (forall i j, (j < k \/ n <= j)%nat -> B i j = A i j) /\
  (forall i j, (i < k \/ m <= i)%nat -> B i j = A i j) /\
  (forall i, i <> k -> rd' i = rd i) /\
  (forall i j, (k < j < n)%nat -> B i j = Hk m k B (fun r => A r j) i) /\
  (forall i, Hk m k B (fun r => A r k) i =
             if ((k <? i) && (i <? m))%bool then 0 else if Nat.eqb i k then rd' k else A i k) /\
  refl_fact m k B rd'.
Proof.
  intros Hkm Hkn B rd' E. unfold qr_step in E.
  pose proof (col_norm_nonneg m k A) as Hn0.
  pose proof (col_norm_zero m k A ltac:(lia)) as Hz.
  pose proof (col_norm_spec m k A ltac:(lia)) as Hs.
  set (nrm0 := col_norm ROps m k A) in *.
  destruct (nez ROps nrm0) eqn:En.
  - apply nez_R in En. cbn [oadd osub omul odiv oabs oltb oeqb osqrt o0 o1 oneg ROps] in E.
    set (nrm := if Rltb (A k k) 0 then - nrm0 else nrm0) in *.
    pose (A2 := fun i j => if (Nat.eqb j k && ((k <=? i) && (i <? m)))%bool
                           then A i k / nrm + (if Nat.eqb i k then 1 else 0) else A i j).
    assert (HB : forall i j, B i j = if ((k <? j) && (j <? n))%bool
                                     then refl m k A2 (fun r => A r j) i else A2 i j).
    { inversion E as [[EB Erd]]. intros i j. rewrite house_cols_spec by assumption.
      match goal with |- context [refl m k ?X _] => set (A2t := X) end.
      assert (HA2 : forall i j, A2t i j = A2 i j).
      { intros i0 j0. unfold A2t, A2. rewrite upd_eq, !scale_loop_spec. bdestr; ring. }
      destruct ((k <? j) && (j <? n))%bool eqn:Ej; [|apply HA2].
      apply andb_true_iff in Ej. destruct Ej as [Ej1 Ej2]. apply Nat.ltb_lt in Ej1.
      apply refl_ext; [assumption| | |].
      - intros r Hr. apply HA2.
      - intros r Hr. rewrite HA2. unfold A2. bdestr.
      - rewrite HA2. unfold A2. bdestr. }
    assert (Erd : rd' = updv rd k (- nrm)) by (inversion E; reflexivity).
    clear E.
    assert (HBk : forall i, B i k = A2 i k) by (intros i; rewrite HB; bdestr).
    assert (HBkk : B k k = A k k / nrm + 1) by (rewrite HBk; unfold A2; bdestr).
    assert (Hpos : 0 < nrm0) by lra.
    assert (Hnrm : nrm <> 0) by (unfold nrm; destruct (Rltb (A k k) 0); lra).
    assert (Hsq : nrm * nrm = rsum (m - k) (fun t => A (k + t)%nat k * A (k + t)%nat k)).
    { transitivity (nrm0 * nrm0); [unfold nrm; destruct (Rltb (A k k) 0); ring|].
      rewrite Hs. apply sqrt_sqrt. apply rsum_nonneg; intros; nra. }
    assert (Hsign : 0 <= A k k / nrm).
    { unfold nrm. destruct (Rltb (A k k) 0) eqn:El; [apply Rltb_true in El | apply Rltb_false in El].
      - replace (A k k / - nrm0) with ((- A k k) * / nrm0) by (field; lra).
        apply Rmult_le_pos; [lra | left; apply Rinv_0_lt_compat; lra].
      - unfold Rdiv. apply Rmult_le_pos; [lra | left; apply Rinv_0_lt_compat; lra]. }
    destruct (m - k)%nat as [|p] eqn:Hp; [lia|].
    set (T := rsum p (fun t => A (k + S t)%nat k * A (k + S t)%nat k)).
    rewrite rsum_first, Nat.add_0_r in Hsq. fold T in Hsq.
    assert (HBt : forall t, (t < p)%nat -> B (k + S t)%nat k = A (k + S t)%nat k / nrm).
    { intros t Ht. rewrite HBk. unfold A2. bdestr; ring. }
    assert (Hnz : nez ROps (B k k) = true) by (apply nez_R; lra).
    assert (Hsig : - sig m k B (fun r => A r k) / B k k = - nrm).
    { unfold sig. rewrite Hp, rsum_first, Nat.add_0_r, HBkk.
      replace (rsum p (fun t => B (k + S t)%nat k * A (k + S t)%nat k)) with (T / nrm).
      - apply house_scalar; assumption.
      - unfold T, Rdiv. rewrite <- rsum_scal_r. apply rsum_ext. intros t Ht. rewrite HBt by assumption.
        field. assumption. }
    repeat split.
    + intros i j Hj. rewrite HB. unfold A2. bdestr.
    + intros i j Hi. rewrite HB. destruct ((k <? j) && (j <? n))%bool.
      * rewrite refl_out by lia. reflexivity.
      * unfold A2. bdestr.
    + intros i Hi. rewrite Erd. apply updv_other. lia.
    + intros i j Hj. unfold Hk. rewrite Hnz. rewrite HB.
      replace ((k <? j) && (j <? n))%bool with true by (symmetry; bdestr).
      apply refl_ext; [assumption| | |]; try reflexivity.
      intros r Hr. symmetry. apply HBk.
    + intros i. unfold Hk. rewrite Hnz.
      destruct (le_lt_dec k i) as [H1|H1]; [destruct (le_lt_dec m i) as [H2|H2]|].
      * rewrite refl_out by lia. bdestr.
      * rewrite refl_in by lia. rewrite Hsig, HBk, Erd. unfold A2. bdestr.
        -- rewrite updv_same. field. assumption.
        -- field. assumption.
      * rewrite refl_out by lia. bdestr.
    + right. split; [lra|]. split.
      * rewrite Hp, rsum_first, Nat.add_0_r, HBkk.
        replace (rsum p (fun t => B (k + S t)%nat k ^ 2)) with (T / (nrm * nrm)).
        -- apply house_norm; assumption.
        -- unfold T, Rdiv. rewrite <- rsum_scal_r. apply rsum_ext. intros t Ht. rewrite HBt by assumption.
           field. assumption.
      * rewrite Erd, updv_same. lra.
  - apply nez_R_false in En. cbn [oneg ROps] in E. inversion E as [[EB Erd]]. subst B. clear E.
    pose proof (proj1 Hz En) as HA0.
    assert (Hnz : nez ROps (A k k) = false) by (apply nez_R_false; apply HA0; lia).
    repeat split.
    + intros i Hi. apply updv_other. lia.
    + intros i j Hj. unfold Hk. rewrite Hnz. reflexivity.
    + intros i. unfold Hk. rewrite Hnz. bdestr; try (apply HA0; lia).
      rewrite updv_same, En, HA0 by lia. lra.
    + left. split; [exact HA0|]. rewrite updv_same, En. lra.
Qed.

(* ---------- (2), (3): the invariant of the outer loop ---------- *)
Lemma qr_steps_S m n c (A : @Mx R) :
  qr_steps ROps m n (S c) A = qr_step ROps m n c (qr_steps ROps m n c A).
Proof. reflexivity. Qed.

Lemma Qtapp_ext m V cnt x y :
  (forall i, (i < m)%nat -> x i = y i) -> forall i, x i = y i -> Qtapp m V cnt x i = Qtapp m V cnt y i.
Proof.
  intros Hx. induction cnt as [|c IH]; intros i Hi; [exact Hi|].
  cbn [Qtapp]. apply Hk_ext.
  - intros r Hr. apply IH. apply Hx. lia.
  - apply IH. exact Hi.
Qed.
Lemma Qtapp_ext_V m V V' cnt x : (cnt <= m)%nat ->
  (forall k i, (k < cnt)%nat -> (k <= i < m)%nat -> V i k = V' i k) ->
  forall i, Qtapp m V cnt x i = Qtapp m V' cnt x i.
Proof.
  induction cnt as [|c IH]; intros Hc HV i; [reflexivity|].
  cbn [Qtapp]. rewrite (Hk_ext_V m c V V') by (try lia; intros; apply HV; lia).
  apply Hk_ext; intros; apply IH; try lia; intros; apply HV; lia.
Qed.

Lemma refl_fact_ext m k V V' tau tau' : (k < m)%nat ->
  (forall i, (k <= i < m)%nat -> V i k = V' i k) -> tau k = tau' k ->
  refl_fact m k V tau -> refl_fact m k V' tau'.
Proof.
  intros Hkm HV Ht [[H1 H2]|[H1 [H2 H3]]]; [left|right].
  - split; [intros i Hi; rewrite <- HV by lia; apply H1; lia|congruence].
  - rewrite <- HV, <- Ht by lia. split; [exact H1|]. split; [|exact H3].
    rewrite <- H2. apply rsum_ext. intros t Ht'. rewrite HV by lia. reflexivity.
Qed.

Definition qr_inv (m n : nat) (A : @Mx R) (c : nat) (st : @Mx R * (nat -> R)) : Prop :=
  let '(B, rd) := st in
  (forall i j, (i < m)%nat -> (j < n)%nat ->
     Qtapp m B c (fun r => A r j) i =
     if (j <? c) then (if (i <=? j) then qr_R ROps B rd i j else 0) else B i j) /\
  (forall k, (k < c)%nat -> refl_fact m k B rd).

Lemma qr_steps_inv m n A c : (n <= m)%nat -> (c <= n)%nat -> qr_inv m n A c (qr_steps ROps m n c A).
Proof.
  intros Hnm. induction c as [|c IH]; intros Hc.
  - unfold qr_steps. cbn [for_up qr_inv Qtapp]. split; [intros; reflexivity|intros; lia].
  - rewrite qr_steps_S. specialize (IH ltac:(lia)).
    destruct (qr_steps ROps m n c A) as [B rd].
    destruct (qr_step ROps m n c (B, rd)) as [B' rd'] eqn:E1.
    destruct IH as [IH1 IH2].
    destruct (qr_step_spec m n c B rd ltac:(lia) ltac:(lia) B' rd' E1) as (S1 & S2 & S3 & S4 & S5 & S6).
    split.
    + intros i j Hi Hj. cbn [Qtapp].
      assert (HQ : forall r, (r < m)%nat -> Qtapp m B' c (fun r => A r j) r =
                 if (j <? c) then (if (r <=? j) then qr_R ROps B rd r j else 0) else B r j).
      { intros r Hr. rewrite <- IH1 by assumption. apply Qtapp_ext_V; [lia|].
        intros k i0 Hk0 Hi0. apply S1. lia. }
      destruct (lt_eq_lt_dec j c) as [[Hjc|Hjc]|Hjc].
      * rewrite (Hk_ext m c B' _ (fun r => if (r <=? j) then qr_R ROps B rd r j else 0)).
        2:{ intros r Hr. rewrite HQ by lia. bdestr. }
        2:{ rewrite HQ by lia. bdestr. }
        rewrite Hk_zero_tail by (intros r Hr; bdestr).
        unfold qr_R. bdestr.
        -- apply eq_sym, S3. lia.
        -- apply eq_sym, S1. lia.
      * subst j.
        rewrite (Hk_ext m c B' _ (fun r => B r c)).
        2:{ intros r Hr. rewrite HQ by lia. bdestr. }
        2:{ rewrite HQ by lia. bdestr. }
        rewrite S5. unfold qr_R. bdestr. apply eq_sym, S2. lia.
      * rewrite (Hk_ext m c B' _ (fun r => B r j)).
        2:{ intros r Hr. rewrite HQ by lia. bdestr. }
        2:{ rewrite HQ by lia. bdestr. }
        rewrite <- S4 by lia. bdestr.
    + intros k Hk0. destruct (Nat.eq_dec k c) as [->|Hne]; [exact S6|].
      apply (refl_fact_ext m k B B' rd rd'); [lia| | |apply IH2; lia].
      * intros i Hi. apply eq_sym, S1. lia.
      * apply eq_sym, S3. lia.
Qed.

Lemma qr_reflector_norm m n (A : @Mx R) : (n <= m)%nat ->
  let '(QR, tau) := qr_mut ROps m n A in
  forall k, (k < n)%nat ->
    ((forall i, (k <= i < m)%nat -> QR i k = 0) /\ tau k = 0) \/
    (1 <= QR k k /\ rsum (m - k) (fun t => QR (k + t)%nat k ^ 2) = 2 * QR k k /\ tau k <> 0).
Proof.
  intros Hnm. pose proof (qr_steps_inv m n A n Hnm (le_n n)) as H. unfold qr_mut.
  destruct (qr_steps ROps m n n A) as [QR tau]. destruct H as [_ H]. exact H.
Qed.

Lemma qr_triangularize m n (A : @Mx R) : (n <= m)%nat ->
  let '(QR, tau) := qr_mut ROps m n A in
  forall i j, (i < m)%nat -> (j < n)%nat ->
    Qtapp m QR n (fun r => A r j) i = (if (i <=? j)%nat then qr_R ROps QR tau i j else 0).
Proof.
  intros Hnm. pose proof (qr_steps_inv m n A n Hnm (le_n n)) as H. unfold qr_mut.
  destruct (qr_steps ROps m n n A) as [QR tau]. destruct H as [H _].
  intros i j Hi Hj. rewrite H by assumption. bdestr.
Qed.

(* ---------- (4) H_k is a linear orthogonal involution ---------- *)
Definition refl_ok (m k : nat) (V : @Mx R) : Prop :=
  V k k = 0 \/ rsum (m - k) (fun t => V (k + t)%nat k ^ 2) = 2 * V k k.

Lemma refl_fact_ok m k V tau : (k < m)%nat -> refl_fact m k V tau -> refl_ok m k V.
Proof. intros Hkm [[H1 _]|[_ [H2 _]]]; [left; apply H1; lia|right; exact H2]. Qed.

Lemma sig_linear m k V a b x y :
  sig m k V (fun i => a * x i + b * y i) = a * sig m k V x + b * sig m k V y.
Proof.
  unfold sig. rewrite <- !rsum_scal, <- rsum_plus. apply rsum_ext. intros t Ht. ring.
Qed.
Lemma sig_refl m k V x :
  sig m k V (refl m k V x) =
  sig m k V x + (- sig m k V x / V k k) * rsum (m - k) (fun t => V (k + t)%nat k ^ 2).
Proof.
  unfold sig at 1.
  rewrite (rsum_ext _ _ (fun t => V (k + t)%nat k * x (k + t)%nat +
                                  (- sig m k V x / V k k) * (V (k + t)%nat k ^ 2))).
  - rewrite rsum_plus, rsum_scal. reflexivity.
  - intros t Ht. rewrite refl_in by lia. ring.
Qed.

Lemma Hk_linear m k V a b x y i :
  Hk m k V (fun i => a * x i + b * y i) i = a * Hk m k V x i + b * Hk m k V y i.
Proof.
  unfold Hk. destruct (nez ROps (V k k)); [|reflexivity].
  destruct (le_lt_dec k i) as [H1|H1]; [destruct (le_lt_dec m i) as [H2|H2]|].
  - rewrite !refl_out by lia. reflexivity.
  - rewrite !refl_in by lia. rewrite sig_linear. unfold Rdiv. ring.
  - rewrite !refl_out by lia. reflexivity.
Qed.

Lemma Hk_involutive m k V : refl_ok m k V -> forall x i, Hk m k V (Hk m k V x) i = x i.
Proof.
  intros H x i. unfold Hk. destruct (nez ROps (V k k)) eqn:E; [|reflexivity].
  apply nez_R in E. destruct H as [H|H]; [contradiction|].
  destruct (le_lt_dec k i) as [H1|H1]; [destruct (le_lt_dec m i) as [H2|H2]|].
  - rewrite !refl_out by lia. reflexivity.
  - rewrite refl_in by lia. rewrite sig_refl, H. rewrite refl_in by lia. field. exact E.
  - rewrite !refl_out by lia. reflexivity.
Qed.

Lemma dot_split m k x y : (k <= m)%nat ->
  dot m x y = rsum k (fun i => x i * y i) + rsum (m - k) (fun t => x (k + t)%nat * y (k + t)%nat).
Proof.
  intros H. unfold dot. rewrite <- (rsum_app k (m - k) (fun i => x i * y i)). f_equal. lia.
Qed.

Lemma Hk_dot m k V : refl_ok m k V -> forall x y, dot m (Hk m k V x) (Hk m k V y) = dot m x y.
Proof.
  intros H x y. unfold Hk. destruct (nez ROps (V k k)) eqn:E; [|reflexivity].
  apply nez_R in E. destruct H as [H|H]; [contradiction|].
  destruct (le_lt_dec m k) as [Hmk|Hmk].
  - unfold dot. apply rsum_ext. intros i Hi. rewrite !refl_out by lia. reflexivity.
  - rewrite !(dot_split m k) by lia. f_equal.
    + apply rsum_ext. intros i Hi. rewrite !refl_out by lia. reflexivity.
    + set (sx := - sig m k V x / V k k). set (sy := - sig m k V y / V k k).
      rewrite (rsum_ext _ _ (fun t => x (k + t)%nat * y (k + t)%nat +
                 (sy * (V (k + t)%nat k * x (k + t)%nat) +
                  (sx * (V (k + t)%nat k * y (k + t)%nat) + (sx * sy) * (V (k + t)%nat k ^ 2))))).
      2:{ intros t Ht. rewrite !refl_in by lia. fold sx sy. ring. }
      rewrite !rsum_plus, !rsum_scal. rewrite H.
      change (rsum (m - k) (fun t => V (k + t)%nat k * x (k + t)%nat)) with (sig m k V x).
      change (rsum (m - k) (fun t => V (k + t)%nat k * y (k + t)%nat)) with (sig m k V y).
      unfold sx, sy. field. exact E.
Qed.

(* ---------- (5) A = Q R with Q the product of the stored reflections ---------- *)
Lemma Qapp_ext m V cnt : forall x y,
  (forall i, (i < m)%nat -> x i = y i) -> forall i, x i = y i -> Qapp m V cnt x i = Qapp m V cnt y i.
Proof.
  induction cnt as [|c IH]; intros x y Hx i Hi; [exact Hi|].
  cbn [Qapp]. apply IH.
  - intros r Hr. apply Hk_ext; [intros; apply Hx; lia|apply Hx; lia].
  - apply Hk_ext; [intros; apply Hx; lia|exact Hi].
Qed.

Lemma Qapp_Qtapp m V cnt : (forall k, (k < cnt)%nat -> refl_ok m k V) ->
  forall x i, Qapp m V cnt (Qtapp m V cnt x) i = x i.
Proof.
  induction cnt as [|c IH]; intros Hok x i; [reflexivity|].
  cbn [Qapp Qtapp].
  rewrite (Qapp_ext m V c _ (Qtapp m V c x)).
  - apply IH. intros; apply Hok; lia.
  - intros r Hr. apply Hk_involutive. apply Hok. lia.
  - apply Hk_involutive. apply Hok. lia.
Qed.
Lemma Qtapp_Qapp m V cnt : (forall k, (k < cnt)%nat -> refl_ok m k V) ->
  forall x i, Qtapp m V cnt (Qapp m V cnt x) i = x i.
Proof.
  induction cnt as [|c IH]; intros Hok x i; [reflexivity|].
  cbn [Qapp Qtapp].
  rewrite (Hk_ext m c V _ (Hk m c V x)).
  - apply Hk_involutive. apply Hok. lia.
  - intros r Hr. apply IH. intros; apply Hok; lia.
  - apply IH. intros; apply Hok; lia.
Qed.

Lemma qr_refl_ok m n (A : @Mx R) : (n <= m)%nat ->
  forall k, (k < n)%nat -> refl_ok m k (fst (qr_mut ROps m n A)).
Proof.
  intros Hnm k Hk0. pose proof (qr_reflector_norm m n A Hnm) as F.
  destruct (qr_mut ROps m n A) as [QR tau]. cbn [fst].
  apply (refl_fact_ok m k QR tau); [lia|]. apply F. exact Hk0.
Qed.

Lemma qr_reconstruct m n (A : @Mx R) : (n <= m)%nat ->
  let '(QR, tau) := qr_mut ROps m n A in
  forall i j, (i < m)%nat -> (j < n)%nat ->
    Qapp m QR n (fun r => if (r <=? j)%nat then qr_R ROps QR tau r j else 0) i = A i j.
Proof.
  intros Hnm. pose proof (qr_triangularize m n A Hnm) as T. pose proof (qr_refl_ok m n A Hnm) as F.
  destruct (qr_mut ROps m n A) as [QR tau]. cbn [fst] in F.
  intros i j Hi Hj.
  rewrite (Qapp_ext m QR n _ (Qtapp m QR n (fun r => A r j))).
  - apply (Qapp_Qtapp m QR n F (fun r => A r j) i).
  - intros r Hr. symmetry. apply T; assumption.
  - symmetry. apply T; assumption.
Qed.

(* ---------- (6) QR::Q ---------- *)
Lemma qr_Q_inner_spec m n k (QR Q1 : @Mx R) i j :
  for_up (n - k) k (fun j Q2 => if nez ROps (QR k k) then house_apply ROps m k QR j Q2 else Q2) Q1 i j =
  if ((k <=? j) && (j <? n))%bool then Hk m k QR (fun r => Q1 r j) i else Q1 i j.
Proof.
  pose (P := fun (c : nat) (Q2 : @Mx R) => forall i j,
     Q2 i j = if ((k <=? j) && (j <? k + c))%bool then Hk m k QR (fun r => Q1 r j) i else Q1 i j).
  assert (HP : P (n - k)%nat (for_up (n - k) k
     (fun j Q2 => if nez ROps (QR k k) then house_apply ROps m k QR j Q2 else Q2) Q1)).
  { apply for_up_inv.
    - intros i0 j0. bdestr.
    - intros c Q2 Hc HB i0 j0. unfold Hk in *. destruct (nez ROps (QR k k)) eqn:E.
      + rewrite house_apply_spec. destruct (Nat.eqb_spec j0 (k + c)) as [->|Hne].
        * replace ((k <=? k + c) && (k + c <? k + S c))%bool with true by (symmetry; bdestr).
          apply refl_ext_x; intros; rewrite HB; bdestr.
        * rewrite HB. bdestr.
      + rewrite HB. bdestr. }
  rewrite HP. bdestr.
Qed.

Lemma Qapp_zero_tail m V cnt x : (forall r, (cnt <= r < m)%nat -> x r = 0) ->
  forall d i, Qapp m V (cnt + d) x i = Qapp m V cnt x i.
Proof.
  intros Hz. induction d as [|d IH]; intros i; [rewrite Nat.add_0_r; reflexivity|].
  rewrite Nat.add_succ_r. cbn [Qapp]. rewrite <- IH. apply Qapp_ext.
  - intros r Hr. apply Hk_zero_tail. intros r' Hr'. apply Hz. lia.
  - apply Hk_zero_tail. intros r' Hr'. apply Hz. lia.
Qed.

Lemma qr_Q_spec m n (QR : @Mx R) i j : (n <= m)%nat -> (i < m)%nat -> (j < n)%nat ->
  qr_Q ROps m n QR i j = Qapp m QR n (fun r => if Nat.eqb r j then 1 else 0) i.
Proof.
  intros _ _ Hj. unfold qr_Q.
  pose (P := fun (c : nat) (Q : @Mx R) =>
    (forall i j, ~ (c <= j < n)%nat -> Q i j = 0) /\
    (forall i j, (c <= j < n)%nat ->
       Qapp m QR c (fun r => Q r j) i = Qapp m QR n (fun r => if Nat.eqb r j then 1 else 0) i)).
  match goal with |- for_down n ?f ?s i j = _ => assert (HP : P 0%nat (for_down n f s)) end.
  { apply for_down_inv.
    - split; [intros; reflexivity|intros; lia].
    - intros c Q Hc [H1 H2]. cbn [o1 ROps]. split.
      + intros i0 j0 Hj0. rewrite qr_Q_inner_spec.
        replace ((c <=? j0) && (j0 <? n))%bool with false by (symmetry; bdestr).
        rewrite upd_other by lia. apply H1. lia.
      + intros i0 j0 Hj0.
        assert (HQ' : forall r, for_up (n - c) c
                  (fun j Q2 => if nez ROps (QR c c) then house_apply ROps m c QR j Q2 else Q2)
                  (upd Q c c 1) r j0 = Hk m c QR (fun r => upd Q c c 1 r j0) r).
        { intros r. rewrite qr_Q_inner_spec. bdestr. }
        rewrite (Qapp_ext m QR c _ (Hk m c QR (fun r => upd Q c c 1 r j0))) by (intros; apply HQ').
        change (Qapp m QR c (Hk m c QR (fun r => upd Q c c 1 r j0)) i0)
          with (Qapp m QR (S c) (fun r => upd Q c c 1 r j0) i0).
        destruct (Nat.eq_dec j0 c) as [->|Hne].
        * assert (He : forall r, upd Q c c 1 r c = if Nat.eqb r c then 1 else 0).
          { intros r. rewrite upd_eq. bdestr. apply H1. lia. }
          rewrite (Qapp_ext m QR (S c) _ (fun r => if Nat.eqb r c then 1 else 0)) by (intros; apply He).
          replace n with (S c + (n - S c))%nat at 1 by lia.
          symmetry. apply Qapp_zero_tail. intros r Hr. bdestr.
        * rewrite <- H2 by lia. apply Qapp_ext; intros; apply upd_other; lia. }
  destruct HP as [_ HP]. specialize (HP i j ltac:(lia)). cbn [Qapp] in HP. exact HP.
Qed.

Lemma Qapp_linear m V cnt a b : forall x y i,
  Qapp m V cnt (fun i => a * x i + b * y i) i = a * Qapp m V cnt x i + b * Qapp m V cnt y i.
Proof.
  induction cnt as [|c IH]; intros x y i; [reflexivity|].
  cbn [Qapp]. rewrite <- IH. apply Qapp_ext; intros; apply Hk_linear.
Qed.
Lemma Qapp_zero m V cnt i : Qapp m V cnt (fun _ => 0) i = 0.
Proof.
  rewrite (Qapp_ext m V cnt _ (fun i => 0 * 0 + 0 * 0)) by (intros; ring).
  rewrite (Qapp_linear m V cnt 0 0 (fun _ => 0) (fun _ => 0)). ring.
Qed.
Lemma Qapp_lin_sum m V cnt N (c : nat -> R) (x : nat -> nat -> R) i :
  Qapp m V cnt (fun r => rsum N (fun t => c t * x t r)) i = rsum N (fun t => c t * Qapp m V cnt (x t) i).
Proof.
  induction N as [|N IH].
  - rewrite rsum_0. apply Qapp_zero.
  - rewrite rsum_S, <- IH.
    rewrite (Qapp_ext m V cnt _ (fun r => 1 * rsum N (fun t => c t * x t r) + c N * x N r))
      by (intros; rewrite rsum_S; ring).
    rewrite Qapp_linear. ring.
Qed.

Lemma qr_QR_product m n (A : @Mx R) : (n <= m)%nat ->
  let '(QR, tau) := qr_mut ROps m n A in
  forall i j, (i < m)%nat -> (j < n)%nat -> mmul n (qr_Q ROps m n QR) (qr_R ROps QR tau) i j = A i j.
Proof.
  intros Hnm. pose proof (qr_reconstruct m n A Hnm) as Hrec.
  destruct (qr_mut ROps m n A) as [QR tau]. intros i j Hi Hj.
  rewrite <- Hrec by assumption. unfold mmul.
  rewrite (rsum_ext n _ (fun t => qr_R ROps QR tau t j *
                                   Qapp m QR n (fun r => if Nat.eqb r t then 1 else 0) i)).
  2:{ intros t Ht. rewrite qr_Q_spec by assumption. ring. }
  rewrite <- (Qapp_lin_sum m QR n n (fun t => qr_R ROps QR tau t j)
                (fun t r => if Nat.eqb r t then 1 else 0) i).
  assert (He : forall r, rsum n (fun t => qr_R ROps QR tau t j * (if Nat.eqb r t then 1 else 0)) =
                         if (r <=? j)%nat then qr_R ROps QR tau r j else 0).
  { intros r. destruct (le_lt_dec n r) as [Hr|Hr].
    - rewrite rsum_zero by (intros t Ht; bdestr; ring). bdestr.
    - rewrite (rsum_single n r) by (try assumption; intros t Ht Hne; bdestr; ring).
      rewrite Nat.eqb_refl. bdestr; try ring. rewrite qr_R_upper by lia. ring. }
  apply Qapp_ext; intros; apply He.
Qed.

(* ---------- (7) Q has orthonormal columns ---------- *)
Lemma Qapp_dot m V cnt : (forall k, (k < cnt)%nat -> refl_ok m k V) ->
  forall x y, dot m (Qapp m V cnt x) (Qapp m V cnt y) = dot m x y.
Proof.
  induction cnt as [|c IH]; intros Hok x y; [reflexivity|].
  cbn [Qapp]. rewrite IH by (intros; apply Hok; lia). apply Hk_dot. apply Hok. lia.
Qed.
Lemma Qtapp_dot m V cnt : (forall k, (k < cnt)%nat -> refl_ok m k V) ->
  forall x y, dot m (Qtapp m V cnt x) (Qtapp m V cnt y) = dot m x y.
Proof.
  induction cnt as [|c IH]; intros Hok x y; [reflexivity|].
  cbn [Qtapp]. rewrite Hk_dot by (apply Hok; lia). apply IH. intros; apply Hok; lia.
Qed.

Lemma qr_Q_orthonormal m n (A : @Mx R) : (n <= m)%nat ->
  let '(QR, tau) := qr_mut ROps m n A in
  forall a b, (a < n)%nat -> (b < n)%nat ->
    rsum m (fun i => qr_Q ROps m n QR i a * qr_Q ROps m n QR i b) = (if Nat.eqb a b then 1 else 0).
Proof.
  intros Hnm. pose proof (qr_refl_ok m n A Hnm) as F.
  destruct (qr_mut ROps m n A) as [QR tau]. cbn [fst] in F. intros a b Ha Hb.
  rewrite (rsum_ext m _ (fun i => Qapp m QR n (fun r => if Nat.eqb r a then 1 else 0) i *
                                  Qapp m QR n (fun r => if Nat.eqb r b then 1 else 0) i))
    by (intros i Hi; rewrite !qr_Q_spec by assumption; reflexivity).
  change (dot m (Qapp m QR n (fun r => if Nat.eqb r a then 1 else 0))
                (Qapp m QR n (fun r => if Nat.eqb r b then 1 else 0)) = if Nat.eqb a b then 1 else 0).
  rewrite Qapp_dot by exact F. unfold dot.
  destruct (Nat.eqb_spec a b) as [->|Hne].
  - rewrite (rsum_single m b) by (try lia; intros i Hi Hib; bdestr; ring).
    rewrite Nat.eqb_refl. ring.
  - apply rsum_zero. intros i Hi. bdestr; ring.
Qed.

(* ---------- (8) QR::solve returns a least-squares solution ---------- *)
(* the reflections as solve applies them: without the `QR(k,k) != 0` guard *)
Fixpoint Rtapp (m : nat) (V : @Mx R) (cnt : nat) (x : nat -> R) : nat -> R :=
  match cnt with 0%nat => x | S c => refl m c V (Rtapp m V c x) end.

Lemma Rtapp_Qtapp m V cnt x : (forall k, (k < cnt)%nat -> V k k <> 0) ->
  forall i, Rtapp m V cnt x i = Qtapp m V cnt x i.
Proof.
  induction cnt as [|c IH]; intros Hnz i; [reflexivity|].
  cbn [Rtapp Qtapp]. unfold Hk. rewrite (proj2 (nez_R (V c c))) by (apply Hnz; lia).
  apply refl_ext_x; intros; apply IH; intros; apply Hnz; lia.
Qed.

Lemma qtb_inner_spec m k bn (QR b1 : @Mx R) i j :
  for_up bn 0 (fun j b2 => house_apply ROps m k QR j b2) b1 i j =
  if (j <? bn) then refl m k QR (fun r => b1 r j) i else b1 i j.
Proof.
  pose (P := fun (c : nat) (b2 : @Mx R) => forall i j,
     b2 i j = if (j <? c) then refl m k QR (fun r => b1 r j) i else b1 i j).
  assert (HP : P bn (for_up bn 0 (fun j b2 => house_apply ROps m k QR j b2) b1)).
  { apply for_up_inv.
    - intros i0 j0. bdestr.
    - intros c b2 Hc HB i0 j0. cbn [Nat.add]. rewrite house_apply_spec.
      destruct (Nat.eqb_spec j0 c) as [->|Hne].
      + replace (c <? S c) with true by (symmetry; bdestr).
        apply refl_ext_x; intros; rewrite HB; bdestr.
      + rewrite HB. bdestr. }
  apply HP.
Qed.

Lemma qr_qtb_spec m n bn (QR b : @Mx R) i j :
  qr_qtb ROps m n bn QR b i j = if (j <? bn) then Rtapp m QR n (fun r => b r j) i else b i j.
Proof.
  unfold qr_qtb.
  pose (P := fun (c : nat) (b1 : @Mx R) => forall i j,
     b1 i j = if (j <? bn) then Rtapp m QR c (fun r => b r j) i else b i j).
  match goal with |- for_up n 0 ?f b i j = _ => assert (HP : P n (for_up n 0 f b)) end.
  { apply for_up_inv.
    - intros i0 j0. cbn [Rtapp]. bdestr.
    - intros c b1 Hc HB i0 j0. cbn [Nat.add]. rewrite qtb_inner_spec.
      destruct (Nat.ltb_spec j0 bn) as [Hj|Hj].
      + cbn [Rtapp]. apply refl_ext_x; intros; rewrite HB; bdestr.
      + rewrite HB. bdestr. }
  apply HP.
Qed.

Lemma qr_singular_false n (tau : nat -> R) :
  qr_singular ROps n tau = false -> forall k, (k < n)%nat -> tau k <> 0.
Proof.
  unfold qr_singular. intros H k Hk0. cbn [oeqb o0 ROps] in H.
  apply Reqb_false. destruct (Reqb (tau k) 0) eqn:E; [|reflexivity].
  rewrite <- H. symmetry. apply existsb_exists. exists k. split; [apply in_seq; lia|exact E].
Qed.

Lemma Qtapp_linear m V cnt a b : forall x y i,
  Qtapp m V cnt (fun i => a * x i + b * y i) i = a * Qtapp m V cnt x i + b * Qtapp m V cnt y i.
Proof.
  induction cnt as [|c IH]; intros x y i; [reflexivity|].
  cbn [Qtapp]. rewrite <- Hk_linear. apply Hk_ext; intros; apply IH.
Qed.
Lemma Qtapp_zero m V cnt i : Qtapp m V cnt (fun _ => 0) i = 0.
Proof.
  rewrite (Qtapp_ext m V cnt _ (fun i => 0 * 0 + 0 * 0)) by (intros; ring).
  rewrite (Qtapp_linear m V cnt 0 0 (fun _ => 0) (fun _ => 0)). ring.
Qed.
Lemma Qtapp_lin_sum m V cnt N (c : nat -> R) (x : nat -> nat -> R) i :
  Qtapp m V cnt (fun r => rsum N (fun t => c t * x t r)) i = rsum N (fun t => c t * Qtapp m V cnt (x t) i).
Proof.
  induction N as [|N IH].
  - rewrite rsum_0. apply Qtapp_zero.
  - rewrite rsum_S, <- IH.
    rewrite (Qtapp_ext m V cnt _ (fun r => 1 * rsum N (fun t => c t * x t r) + c N * x N r))
      by (intros; rewrite rsum_S; ring).
    rewrite Qtapp_linear. ring.
Qed.

(* row i of R times a column, written as back substitution sees it *)
Lemma qr_R_row n (QR : @Mx R) tau (x : nat -> R) i : (i < n)%nat ->
  rsum n (fun t => qr_R ROps QR tau i t * x t) =
  tau i * x i + rsum (n - S i) (fun t => QR i (S i + t)%nat * x (S i + t)%nat).
Proof.
  intros Hi. replace n with (i + S (n - S i))%nat at 1 by lia.
  rewrite rsum_app, rsum_first, Nat.add_0_r.
  rewrite rsum_zero by (intros t Ht; rewrite qr_R_upper by lia; ring).
  replace (qr_R ROps QR tau i i) with (tau i) by (unfold qr_R; bdestr).
  rewrite (rsum_ext (n - S i) _ (fun t => QR i (S i + t)%nat * x (S i + t)%nat)); [ring|].
  intros t Ht. replace (i + S t)%nat with (S i + t)%nat by lia. unfold qr_R. bdestr.
Qed.

Definition back_subst_spec_stmt : Prop :=
  forall n bn (Uo : @Mx R) (dg : nat -> R) (X1 : @Mx R), (forall k, (k < n)%nat -> dg k <> 0) ->
  let X2 := back_subst ROps n bn Uo dg X1 in
  (forall i j, (i < n)%nat -> (j < bn)%nat ->
     dg i * X2 i j + rsum (n - S i) (fun t => Uo i (S i + t)%nat * X2 (S i + t)%nat j) = X1 i j) /\
  (forall i j, (n <= i)%nat \/ (bn <= j)%nat -> X2 i j = X1 i j).

Lemma qr_solve_lsq_from_back_subst (Hbs : back_subst_spec_stmt) :
  forall m n bn (A b X : @Mx R), (n <= m)%nat -> qr_solve_mut ROps m n bn A b = Some X ->
  forall k j, (k < n)%nat -> (j < bn)%nat ->
    rsum m (fun i => A i k * (rsum n (fun t => A i t * X t j) - b i j)) = 0.
Proof.
  intros m n bn A b X Hnm Hsolve k j Hk0 Hj.
  pose proof (qr_triangularize m n A Hnm) as T. pose proof (qr_refl_ok m n A Hnm) as F.
  pose proof (qr_reflector_norm m n A Hnm) as N.
  unfold qr_solve_mut in Hsolve.
  destruct (qr_mut ROps m n A) as [QR tau]. cbn [fst] in F.
  unfold qr_solve in Hsolve. destruct (qr_singular ROps n tau) eqn:Esing; [discriminate|].
  pose proof (qr_singular_false n tau Esing) as Htau.
  assert (Hnz : forall k, (k < n)%nat -> QR k k <> 0).
  { intros k' Hk'. destruct (N k' Hk') as [[_ H0]|[H1 _]]; [exfalso; apply (Htau k' Hk'); exact H0|lra]. }
  destruct (Hbs n bn QR tau (qr_qtb ROps m n bn QR b) Htau) as [BX _].
  injection Hsolve as HX. rewrite HX in BX. clear HX.
  (* R X = (Q^T b) on the first n rows *)
  assert (RX : forall i, (i < n)%nat ->
             rsum n (fun t => qr_R ROps QR tau i t * X t j) = Qtapp m QR n (fun r => b r j) i).
  { intros i Hi. rewrite (qr_R_row n QR tau (fun t => X t j) i Hi). rewrite BX by assumption.
    rewrite qr_qtb_spec. replace (j <? bn) with true by (symmetry; bdestr).
    apply Rtapp_Qtapp. exact Hnz. }
  change (dot m (fun i => A i k) (fun i => rsum n (fun t => A i t * X t j) - b i j) = 0).
  rewrite <- (Qtapp_dot m QR n F). unfold dot. apply rsum_zero. intros i Hi.
  rewrite T by assumption.
  destruct (Nat.leb_spec i k) as [Hik|Hik]; [|ring].
  assert (Hz : Qtapp m QR n (fun i => rsum n (fun t => A i t * X t j) - b i j) i = 0).
  { rewrite (Qtapp_ext m QR n _ (fun i => 1 * rsum n (fun t => X t j * A i t) + (-1) * b i j)).
    2:{ intros r Hr. rewrite (rsum_ext n (fun t => X t j * A r t) (fun t => A r t * X t j)) by (intros; ring). ring. }
    2:{ rewrite (rsum_ext n (fun t => X t j * A i t) (fun t => A i t * X t j)) by (intros; ring). ring. }
    rewrite Qtapp_linear.
    rewrite (Qtapp_lin_sum m QR n n (fun t => X t j) (fun t r => A r t) i).
    rewrite <- RX by lia.
    rewrite (rsum_ext n _ (fun t => qr_R ROps QR tau i t * X t j)); [ring|].
    intros t Ht. rewrite T by assumption. bdestr; try ring. rewrite qr_R_upper by lia. ring. }
  rewrite Hz. ring.
Qed.

(* ---------- (9) a concrete instance: the step is taken, tau = -|a| ---------- *)
Definition ex_A : @Mx R :=
  fun i j => if Nat.eqb j 0 then (if Nat.eqb i 0 then 3 else if Nat.eqb i 1 then 4 else 0) else 0.
Example qr_example : snd (qr_mut ROps 2 1 ex_A) 0%nat = -5.
Proof.
  unfold qr_mut, qr_steps. cbn [for_up Nat.add]. unfold qr_step.
  assert (Hn : col_norm ROps 2 0 ex_A = 5).
  { rewrite col_norm_spec by lia. cbn [Nat.sub]. rewrite !rsum_S, rsum_0. unfold ex_A. cbn [Nat.add Nat.eqb].
    replace (0 + 3 * 3 + 4 * 4) with (5 * 5) by ring. apply sqrt_square. lra. }
  rewrite Hn.
  assert (H5 : nez ROps 5 = true) by (apply nez_R; lra). rewrite H5.
  cbn [oltb o0 ROps oneg].
  assert (Hs : Rltb (ex_A 0%nat 0%nat) 0 = false) by (apply Rltb_false; unfold ex_A; cbn [Nat.eqb]; lra).
  rewrite Hs. cbn [snd]. rewrite updv_same. reflexivity.
Qed.
