(* C01 — Householder QR (qr.rs) over the reals: the stored reflectors triangularise A, are orthogonal
   involutions, A = Q R, Q has orthonormal columns, and solve returns a least-squares solution. *)
From Coq Require Import List Arith Bool ZArith Reals Lra Lia.
From SC Require Import Base.Num C01.Model C01.Proofs.
Import ListNotations.  Open Scope R_scope.

(* the reflection stored in column k of V, applied to a vector x of length m *)
Definition refl (m k : nat) (V : @Mx R) (x : nat -> R) : nat -> R :=
  let s := - (rsum (m - k) (fun t => V (k + t)%nat k * x (k + t)%nat)) / V k k in
  fun i => if ((k <=? i) && (i <? m))%bool then x i + s * V i k else x i.
(* H_k as Q()/the maths uses it: identity when the step was skipped (stored column is zero) *)
Definition Hk (m k : nat) (V : @Mx R) (x : nat -> R) : nat -> R :=
  if nez ROps (V k k) then refl m k V x else x.
(* H_{cnt-1} (... (H_0 x)) and H_0 (... (H_{cnt-1} x)) *)
Fixpoint Qtapp (m : nat) (V : @Mx R) (cnt : nat) (x : nat -> R) : nat -> R :=
  match cnt with 0%nat => x | S c => Hk m c V (Qtapp m V c x) end.
Fixpoint Qapp (m : nat) (V : @Mx R) (cnt : nat) (x : nat -> R) : nat -> R :=
  match cnt with 0%nat => x | S c => Qapp m V c (Hk m c V x) end.
Definition dot (m : nat) (x y : nat -> R) : R := rsum m (fun i => x i * y i).

(* ---------- small tools ---------- *)
Ltac bdestr :=
  repeat match goal with
  | |- context [Nat.eqb ?a ?b] => destruct (Nat.eqb_spec a b)
  | |- context [Nat.leb ?a ?b] => destruct (Nat.leb_spec a b)
  | |- context [Nat.ltb ?a ?b] => destruct (Nat.ltb_spec a b)
  end; cbn [andb orb negb]; subst; try lia; try reflexivity.

Lemma rsum_first n f : rsum (S n) f = f 0%nat + rsum n (fun t => f (S t)).
Proof.
  induction n as [|n IH]; [rewrite !rsum_S, !rsum_0; lra|].
  rewrite rsum_S, IH, rsum_S. lra.
Qed.
Lemma rsum_sq_zero n f : rsum n (fun t => f t * f t) = 0 -> forall t, (t < n)%nat -> f t = 0.
Proof.
  induction n as [|n IH]; intros H t Ht; [lia|].
  rewrite rsum_S in H.
  assert (H0 : 0 <= rsum n (fun t => f t * f t)) by (apply rsum_nonneg; intros; nra).
  assert (H1 : 0 <= f n * f n) by nra.
  destruct (Nat.eq_dec t n) as [->|Hn].
  - nra.
  - apply IH; [lra|lia].
Qed.

(* the scalar product v . x over rows k..m that the reflection uses *)
Definition sig (m k : nat) (V : @Mx R) (x : nat -> R) : R :=
  rsum (m - k) (fun t => V (k + t)%nat k * x (k + t)%nat).

Lemma refl_in m k V x i : (k <= i < m)%nat ->
  refl m k V x i = x i + (- sig m k V x / V k k) * V i k.
Proof. intros H. unfold refl, sig. bdestr. Qed.
Lemma refl_out m k V x i : ~ (k <= i < m)%nat -> refl m k V x i = x i.
Proof. intros H. unfold refl. bdestr. Qed.

Lemma sig_ext m k V V' x y :
  (forall i, (k <= i < m)%nat -> V i k = V' i k) -> (forall i, (k <= i < m)%nat -> x i = y i) ->
  sig m k V x = sig m k V' y.
Proof. intros HV Hx. unfold sig. apply rsum_ext. intros t Ht. rewrite HV, Hx by lia. reflexivity. Qed.

Lemma refl_ext m k V V' x y : (k < m)%nat ->
  (forall i, (k <= i < m)%nat -> V i k = V' i k) -> (forall i, (k <= i < m)%nat -> x i = y i) ->
  forall i, x i = y i -> refl m k V x i = refl m k V' y i.
Proof.
  intros Hkm HV Hx i Hi.
  destruct (le_lt_dec k i) as [H1|H1]; [destruct (le_lt_dec m i) as [H2|H2]|].
  - rewrite !refl_out by lia. exact Hi.
  - rewrite !refl_in by lia. rewrite (sig_ext m k V V' x y HV Hx), Hi, !HV by lia. reflexivity.
  - rewrite !refl_out by lia. exact Hi.
Qed.
Lemma refl_ext_x m k V x y :
  (forall i, (k <= i < m)%nat -> x i = y i) -> forall i, x i = y i -> refl m k V x i = refl m k V y i.
Proof.
  intros Hx i Hi.
  destruct (le_lt_dec k i) as [H1|H1]; [destruct (le_lt_dec m i) as [H2|H2]|].
  - rewrite !refl_out by lia. exact Hi.
  - rewrite !refl_in by lia. rewrite (sig_ext m k V V x y (fun _ _ => eq_refl) Hx), Hi. reflexivity.
  - rewrite !refl_out by lia. exact Hi.
Qed.

Lemma Hk_ext m k V x y :
  (forall i, (k <= i < m)%nat -> x i = y i) -> forall i, x i = y i -> Hk m k V x i = Hk m k V y i.
Proof. intros Hx i Hi. unfold Hk. destruct (nez ROps (V k k)); [apply refl_ext_x; assumption|exact Hi]. Qed.
Lemma Hk_ext_V m k V V' x : (k < m)%nat ->
  (forall i, (k <= i < m)%nat -> V i k = V' i k) -> forall i, Hk m k V x i = Hk m k V' x i.
Proof.
  intros Hkm HV i. unfold Hk. rewrite <- (HV k) by lia.
  destruct (nez ROps (V k k)); [apply refl_ext; auto|reflexivity].
Qed.
(* rows k..m of x are zero: nothing happens *)
Lemma Hk_zero_tail m k V x : (forall r, (k <= r < m)%nat -> x r = 0) -> forall i, Hk m k V x i = x i.
Proof.
  intros Hz i. unfold Hk. destruct (nez ROps (V k k)); [|reflexivity].
  destruct (le_lt_dec k i) as [H1|H1]; [destruct (le_lt_dec m i) as [H2|H2]|]; try (apply refl_out; lia).
  rewrite refl_in by lia. unfold sig. rewrite rsum_zero; [unfold Rdiv; ring|].
  intros t Ht. rewrite Hz by lia. ring.
Qed.

(* ---------- (0) the two inner loops ---------- *)
Lemma house_apply_spec m k V j B i j' :
  house_apply ROps m k V j B i j' = (if Nat.eqb j' j then refl m k V (fun r => B r j) i else B i j').
Proof.
  unfold house_apply. rewrite sum_from_rsum. cbn [oadd omul odiv oneg ROps].
  unfold refl. cbv beta.
  set (s := - rsum _ _ / V k k).
  pose (P := fun (c : nat) (B1 : @Mx R) => forall i j',
     B1 i j' = if (Nat.eqb j' j && ((k <=? i) && (i <? k + c)))%bool then B i j + s * V i k else B i j').
  assert (HP : P (m - k)%nat (for_up (m - k) k (fun i B1 => upd B1 i j (B1 i j + s * V i k)) B)).
  { apply for_up_inv.
    - intros i0 j0. bdestr.
    - intros c B1 Hc HB i0 j0. rewrite upd_eq, !HB. bdestr. }
  rewrite HP. bdestr.
Qed.

Lemma col_norm_spec m k A : (k <= m)%nat ->
  col_norm ROps m k A = sqrt (rsum (m - k) (fun t => A (k + t)%nat k * A (k + t)%nat k)).
Proof.
  intros _. unfold col_norm.
  apply (for_up_inv (fun c nrm => nrm = sqrt (rsum c (fun t => A (k + t)%nat k * A (k + t)%nat k)))).
  - cbn [o0 ROps]. rewrite rsum_0, sqrt_0. reflexivity.
  - intros c s' Hc ->. unfold hypot. cbn [oadd omul osqrt ROps].
    rewrite sqrt_sqrt by (apply rsum_nonneg; intros; nra). rewrite rsum_S. reflexivity.
Qed.
Lemma col_norm_nonneg m k A : 0 <= col_norm ROps m k A.
Proof.
  destruct (le_lt_dec k m).
  - rewrite col_norm_spec by assumption. apply sqrt_pos.
  - unfold col_norm. replace (m - k)%nat with 0%nat by lia. cbn. lra.
Qed.
Lemma col_norm_zero m k A : (k <= m)%nat ->
  (col_norm ROps m k A = 0 <-> forall i, (k <= i < m)%nat -> A i k = 0).
Proof.
  intros Hkm. rewrite col_norm_spec by assumption. split.
  - intros H i Hi. apply sqrt_eq_0 in H; [|apply rsum_nonneg; intros; nra].
    pose proof (rsum_sq_zero _ (fun t => A (k + t)%nat k) H (i - k)%nat ltac:(lia)) as H1.
    cbv beta in H1. replace (k + (i - k))%nat with i in H1 by lia. exact H1.
  - intros H. rewrite rsum_zero; [apply sqrt_0|]. intros t Ht. rewrite H by lia. ring.
Qed.

(* ---------- (1) ---------- *)
Lemma qr_R_upper (QR : @Mx R) tau i j : (j < i)%nat -> qr_R ROps QR tau i j = 0.
Proof. intros H. unfold qr_R. bdestr. Qed.
