(* C01 — executable models of smartcore's dense factorisations
   (src/linalg/lu.rs, cholesky.rs, qr.rs, svd.rs).  Definitions only; proofs are in Proofs*.v.

   Transliteration notes
   - a matrix is a function `nat -> nat -> T` (row, column) with explicit dimensions passed to every
     routine; `set`, `add_element_mut`, ... are `upd`.  Vectors (`Vec<T>`, `Vec<usize>`) are functions
     `nat -> T` with `updv`.  Reading outside the dimensions never happens on the paths modelled
     (Rust would panic there); where the Rust code does run out of bounds (QR::Q / QR::R for m < n,
     SVD::solve for m < n) the model is simply not used.
   - loops keep the order of the Rust loops: `for_up cnt start f s` runs f on start, start+1, ...,
     start+cnt-1; `for_down cnt f s` on cnt-1, ..., 0.  Accumulators start from zero and add from the
     left (`osumn`), exactly as `s = 0; for ..  s += a*b`.  With `FOps` the result is therefore the
     IEEE result of the Rust code bit for bit wherever only + - * / sqrt and comparisons are used.
   - `hypot` is sqrt(a*a + b*b) (exact over R; within an ulp or two of libm's hypot on floats, so the
     QR and SVD paths are compared with a tolerance); `T::epsilon()`, `copysign` and
     `T::min_positive_value()` are parameters of the SVD model.
   - `Err(..)` / `panic!` are `None` (Cholesky distinguishes its two error sites by a code in Corr.v). *)
From Coq Require Import List Arith Bool ZArith.
From SC Require Import Base.Num.
Import ListNotations.

(* ---------- loops ---------- *)
Fixpoint for_up {S : Type} (cnt start : nat) (f : nat -> S -> S) (s : S) : S :=
  match cnt with
  | 0 => s
  | S c => f (start + c) (for_up c start f s)
  end.
Fixpoint for_down {S : Type} (cnt : nat) (f : nat -> S -> S) (s : S) : S :=
  match cnt with
  | 0 => s
  | S c => for_down c f (f c s)
  end.

Section Model.
  Context {T : Type} (O : Ops T).
  Local Notation zero := (O.(o0)).
  Local Notation one := (O.(o1)).
  Local Notation add := (O.(oadd)).
  Local Notation sub := (O.(osub)).
  Local Notation mul := (O.(omul)).
  Local Notation div := (O.(odiv)).
  Local Notation neg := (O.(oneg)).
  Local Notation abs := (O.(oabs)).
  Local Notation sqrt := (O.(osqrt)).
  Local Notation ltb := (O.(oltb)).
  Local Notation leb := (O.(oleb)).
  Local Notation eqb := (O.(oeqb)).

  Definition Mx := nat -> nat -> T.
  Definition Vec := nat -> T.

  Definition upd (A : Mx) (i j : nat) (v : T) : Mx :=
    fun i' j' => if (Nat.eqb i i' && Nat.eqb j j')%bool then v else A i' j'.
  Definition updv {X : Type} (x : nat -> X) (i : nat) (v : X) : nat -> X :=
    fun i' => if Nat.eqb i i' then v else x i'.
  Definition zeros : Mx := fun _ _ => zero.
  Definition zerov : Vec := fun _ => zero.

  Definition to_rows (m n : nat) (A : Mx) : list (list T) :=
    map (fun i => map (fun j => A i j) (seq 0 n)) (seq 0 m).
  Definition of_rows (l : list (list T)) : Mx := fun i j => nth j (nth i l []) zero.
  Definition to_vec (n : nat) (x : Vec) : list T := map x (seq 0 n).
  Definition of_vec (l : list T) : Vec := fun i => nth i l zero.

  (* sum_{k <= i < k+cnt} f i, accumulated upwards from zero: `s = 0; for i in k..k+cnt { s += f(i) }` *)
  Definition sum_from (k cnt : nat) (f : nat -> T) : T := osumn O cnt (fun t => f (k + t)).
  Definition hypot (a b : T) : T := sqrt (add (mul a a) (mul b b)).
  Definition nez (x : T) : bool := negb (eqb x zero).          (* x != 0  (true for NaN) *)
  Definition gtb (a b : T) : bool := ltb b a.                    (* a > b *)

  (* =========================== LU (lu.rs) =========================== *)
  (* the `for i in 0..m` loop of column j: LUcolj[i] -= sum_{k<min(i,j)} LU(i,k)*LUcolj[k]; LU(i,j) = LUcolj[i] *)
  Definition lu_col (m j : nat) (A : Mx) : Mx * Vec :=
    for_up m 0 (fun i (st : Mx * Vec) =>
        let '(A1, col) := st in
        let s := osumn O (Nat.min i j) (fun k => mul (A1 i k) (col k)) in
        let v := sub (col i) s in
        (upd A1 i j v, updv col i v))
      (A, fun i => A i j).
  (* p = j; for i in j+1..m { if |col[i]| > |col[p]| { p = i } } *)
  Definition lu_pivot (m j : nat) (col : Vec) : nat :=
    for_up (m - (j + 1)) (j + 1) (fun i p => if gtb (abs (col i)) (abs (col p)) then i else p) j.
  Definition swap_rows (n p j : nat) (A : Mx) : Mx :=
    for_up n 0 (fun k A1 => let t := A1 p k in upd (upd A1 p k (A1 j k)) j k t) A.
  Definition swapv {X : Type} (x : nat -> X) (p j : nat) : nat -> X :=
    let t := x p in updv (updv x p (x j)) j t.
  Definition lu_scale (m j : nat) (A : Mx) : Mx :=
    if ((j <? m) && nez (A j j))%bool
    then for_up (m - (j + 1)) (j + 1) (fun i A1 => upd A1 i j (div (A1 i j) (A1 j j))) A
    else A.

  Record lu_state := mkLU { lu_A : Mx; lu_piv : nat -> nat; lu_sign : Z }.
  Definition lu_step (m n j : nat) (st : lu_state) : lu_state :=
    let '(A1, col) := lu_col m j st.(lu_A) in
    let p := lu_pivot m j col in
    let st2 := if negb (Nat.eqb p j)
               then mkLU (swap_rows n p j A1) (swapv st.(lu_piv) p j) (- st.(lu_sign))%Z
               else mkLU A1 st.(lu_piv) st.(lu_sign) in
    mkLU (lu_scale m j st2.(lu_A)) st2.(lu_piv) st2.(lu_sign).
  Definition lu_cols (m n cnt : nat) (A : Mx) : lu_state :=
    for_up cnt 0 (lu_step m n) (mkLU A (fun i => i) 1%Z).
  Definition lu_mut (m n : nat) (A : Mx) : lu_state := lu_cols m n n A.

  (* LU::new *)
  Definition lu_singular (n : nat) (LU : Mx) : bool := existsb (fun j => eqb (LU j j) zero) (seq 0 n).
  (* LU::L, LU::U, LU::pivot *)
  Definition lu_L (LU : Mx) : Mx := fun i j => if j <? i then LU i j else if Nat.eqb i j then one else zero.
  Definition lu_U (LU : Mx) : Mx := fun i j => if i <=? j then LU i j else zero.
  Definition lu_P (n : nat) (piv : nat -> nat) : Mx :=
    for_up n 0 (fun i P => upd P i (piv i) one) zeros.

  (* X(i,j) -= X(k,j) * C(i,k) for all j < bn : the innermost loops of the substitutions *)
  Definition row_axpy (bn i k : nat) (c : T) (X : Mx) : Mx :=
    for_up bn 0 (fun j X1 => upd X1 i j (sub (X1 i j) (mul (X1 k j) c))) X.
  Definition row_div (bn k : nat) (d : T) (X : Mx) : Mx :=
    for_up bn 0 (fun j X1 => upd X1 k j (div (X1 k j) d)) X.

  (* forward elimination with the unit lower factor, column oriented *)
  Definition lu_forward (n bn : nat) (LU X : Mx) : Mx :=
    for_up n 0 (fun k X1 =>
      for_up (n - (k + 1)) (k + 1) (fun i X2 => row_axpy bn i k (LU i k) X2) X1) X.
  (* back substitution, column oriented; `dg k` is the k-th diagonal entry of the upper factor *)
  Definition back_subst (n bn : nat) (Uo : Mx) (dg : Vec) (X : Mx) : Mx :=
    for_down n (fun k X1 =>
      let X2 := row_div bn k (dg k) X1 in
      for_up k 0 (fun i X3 => row_axpy bn i k (Uo i k) X3) X2) X.
  Definition lu_solve (n bn : nat) (LU : Mx) (piv : nat -> nat) (b : Mx) : option Mx :=
    if lu_singular n LU then None
    else Some (back_subst n bn LU (fun k => LU k k) (lu_forward n bn LU (fun i j => b (piv i) j))).
  Definition identity : Mx := fun i j => if Nat.eqb i j then one else zero.
  Definition lu_inverse (n : nat) (LU : Mx) (piv : nat -> nat) : option Mx := lu_solve n n LU piv identity.
  (* lu_solve_mut = lu_mut().and_then(solve) *)
  Definition lu_solve_mut (n bn : nat) (A b : Mx) : option Mx :=
    let st := lu_mut n n A in lu_solve n bn st.(lu_A) st.(lu_piv) b.

  (* =========================== Cholesky (cholesky.rs) =========================== *)
  (* the `for k in 0..j` loop of row j *)
  Definition chol_row (j : nat) (A : Mx) : Mx * T :=
    for_up j 0 (fun k (st : Mx * T) =>
        let '(A1, d) := st in
        let s := osumn O k (fun i => mul (A1 k i) (A1 j i)) in
        let s' := div (sub (A1 j k) s) (A1 k k) in
        (upd A1 j k s', add d (mul s' s')))
      (A, zero).
  Definition chol_step (j : nat) (st : option Mx) : option Mx :=
    match st with
    | None => None
    | Some A =>
        let '(A1, d0) := chol_row j A in
        let d := sub (A1 j j) d0 in
        if (ltb d zero || negb (eqb d d))%bool then None else Some (upd A1 j j (sqrt d))
    end.
  Definition chol_cols (cnt : nat) (A : Mx) : option Mx := for_up cnt 0 chol_step (Some A).
  Definition cholesky (n : nat) (A : Mx) : option Mx := chol_cols n A.
  Definition chol_L (R : Mx) : Mx := fun i j => if j <=? i then R i j else zero.
  Definition chol_U (R : Mx) : Mx := fun i j => if i <=? j then R j i else zero.
  (* Cholesky::solve, row oriented; b is n x bn *)
  Definition chol_forward (n bn : nat) (R b : Mx) : Mx :=
    for_up n 0 (fun k b1 =>
      for_up bn 0 (fun j b2 =>
        let b3 := for_up k 0 (fun i b3 => upd b3 k j (sub (b3 k j) (mul (b3 i j) (R k i)))) b2 in
        upd b3 k j (div (b3 k j) (R k k))) b1) b.
  Definition chol_backward (n bn : nat) (R b : Mx) : Mx :=
    for_down n (fun k b1 =>
      for_up bn 0 (fun j b2 =>
        let b3 := for_up (n - (k + 1)) (k + 1) (fun i b3 => upd b3 k j (sub (b3 k j) (mul (b3 i j) (R i k)))) b2 in
        upd b3 k j (div (b3 k j) (R k k))) b1) b.
  Definition chol_solve (n bn : nat) (R b : Mx) : Mx := chol_backward n bn R (chol_forward n bn R b).

  (* =========================== QR (qr.rs) =========================== *)
  (* apply the reflection stored in column k of V (rows k..m) to column j of B:
       s = sum_{i in k..m} V(i,k)*B(i,j);  s = -s / V(k,k);  B(i,j) += s*V(i,k)  *)
  Definition house_apply (m k : nat) (V : Mx) (j : nat) (B : Mx) : Mx :=
    let s := sum_from k (m - k) (fun i => mul (V i k) (B i j)) in
    let s' := div (neg s) (V k k) in
    for_up (m - k) k (fun i B1 => upd B1 i j (add (B1 i j) (mul s' (V i k)))) B.
  Definition col_norm (m k : nat) (A : Mx) : T :=
    for_up (m - k) k (fun i nrm => hypot nrm (A i k)) zero.
  Definition qr_step (m n k : nat) (st : Mx * Vec) : Mx * Vec :=
    let '(A, rd) := st in
    let nrm0 := col_norm m k A in
    if nez nrm0 then
      let nrm := if ltb (A k k) zero then neg nrm0 else nrm0 in
      let A1 := for_up (m - k) k (fun i A1 => upd A1 i k (div (A1 i k) nrm)) A in
      let A2 := upd A1 k k (add (A1 k k) one) in
      let A3 := for_up (n - (k + 1)) (k + 1) (fun j A3 => house_apply m k A3 j A3) A2 in
      (A3, updv rd k (neg nrm))
    else (A, updv rd k (neg nrm0)).
  Definition qr_steps (m n cnt : nat) (A : Mx) : Mx * Vec := for_up cnt 0 (qr_step m n) (A, zerov).
  Definition qr_mut (m n : nat) (A : Mx) : Mx * Vec := qr_steps m n n A.
  Definition qr_singular (n : nat) (tau : Vec) : bool := existsb (fun j => eqb (tau j) zero) (seq 0 n).
  (* QR::R (n x n) *)
  Definition qr_R (QR : Mx) (tau : Vec) : Mx :=
    fun i j => if Nat.eqb i j then tau i else if i <? j then QR i j else zero.
  (* QR::Q (m x n, m >= n >= 1): k = n-1 down to 0: Q(k,k) = 1; columns j in k..n reflected if QR(k,k) != 0 *)
  Definition qr_Q (m n : nat) (QR : Mx) : Mx :=
    for_down n (fun k Q =>
      let Q1 := upd Q k k one in
      for_up (n - k) k (fun j Q2 => if nez (QR k k) then house_apply m k QR j Q2 else Q2) Q1) zeros.
  (* QR::solve: b (m x bn) <- H_{n-1}..H_0 b, then back substitution with R; rows 0..n of the result are X *)
  Definition qr_qtb (m n bn : nat) (QR b : Mx) : Mx :=
    for_up n 0 (fun k b1 => for_up bn 0 (fun j b2 => house_apply m k QR j b2) b1) b.
  Definition qr_solve (m n bn : nat) (QR : Mx) (tau : Vec) (b : Mx) : option Mx :=
    if qr_singular n tau then None
    else Some (back_subst n bn QR tau (qr_qtb m n bn QR b)).
  Definition qr_solve_mut (m n bn : nat) (A b : Mx) : option Mx :=
    let '(QR, tau) := qr_mut m n A in qr_solve m n bn QR tau b.

  (* =========================== SVD (svd.rs) =========================== *)
  Section SVD.
    Variable eps : T.                      (* T::epsilon() *)
    Variable copysign : T -> T -> T.        (* magnitude of the first, sign of the second *)
    Variable minpos : T.                   (* T::min_positive_value(): smallest positive normal number *)
    (* `g.abs() >= T::min_positive_value()`: a subnormal (or zero, or NaN) g is not inverted *)
    Definition invertible (g : T) : bool := leb minpos (abs g).
    Definition two := add one one.
    Definition half := div one two.

    (* SVD::new: tol = 0.5 * sqrt(m+n+1) * s[0] * eps *)
    Definition svd_tol (m n : nat) (s : Vec) : T :=
      mul (mul (mul half (sqrt (add (oofnat O (m + n)) one))) (s 0)) eps.
    (* SVD::solve given the factors; b is m x p, rows 0..n of the result are X (m >= n) *)
    Definition svd_solve (m n p : nat) (U : Mx) (s : Vec) (V : Mx) (b : Mx) : Mx :=
      let tol := svd_tol m n s in
      for_up p 0 (fun k b1 =>
        let tmp : Vec := for_up n 0 (fun j tmp =>
            let r := if gtb (s j) tol
                     then div (osumn O m (fun i => mul (U i j) (b1 i k))) (s j)
                     else zero in
            updv tmp j r) zerov in
        for_up n 0 (fun j b2 => upd b2 j k (osumn O n (fun jj => mul (V j jj) (tmp jj)))) b1) b.
    (* SVD::S : n x n diagonal *)
    Definition svd_S (s : Vec) : Mx := fun i j => if Nat.eqb i j then s i else zero.

    (* ----- tail of svd_mut: shell sort (descending, columns move with the values) ----- *)
    Record svd_st := mkSVD { sU : Mx; sV : Mx; sw : Vec; srv1 : Vec }.
    Definition copy_col (rows : nat) (A : Mx) (dst : nat) (src : nat -> T) : Mx :=
      for_up rows 0 (fun k A1 => upd A1 k dst (src k)) A.
    Fixpoint shell_inc0 (fuel inc n : nat) : nat :=
      match fuel with
      | 0 => inc
      | S f => let inc' := 3 * inc + 1 in if n <? inc' then inc' else shell_inc0 f inc' n
      end.
    (* while w[j-inc] < sw { move column j-inc to j; j -= inc; if j < inc break } *)
    Fixpoint shell_shift (fuel m n inc : nat) (swv : T) (j : nat) (st : svd_st) : nat * svd_st :=
      match fuel with
      | 0 => (j, st)
      | S f =>
          if ltb (st.(sw) (j - inc)) swv then
            let st1 := mkSVD (copy_col m st.(sU) j (fun k => st.(sU) k (j - inc)))
                             (copy_col n st.(sV) j (fun k => st.(sV) k (j - inc)))
                             (updv st.(sw) j (st.(sw) (j - inc))) st.(srv1) in
            let j1 := j - inc in
            if j1 <? inc then (j1, st1) else shell_shift f m n inc swv j1 st1
          else (j, st)
      end.
    Definition shell_insert (m n inc i : nat) (st : svd_st) : svd_st :=
      let swv := st.(sw) i in
      let U0 := st.(sU) in let V0 := st.(sV) in
      let su : Vec := fun k => U0 k i in
      let sv : Vec := fun k => V0 k i in
      let '(j, st1) := shell_shift (S i) m n inc swv i st in
      mkSVD (copy_col m st1.(sU) j su) (copy_col n st1.(sV) j sv) (updv st1.(sw) j swv) st1.(srv1).
    Fixpoint shell_passes (fuel m n inc : nat) (st : svd_st) : svd_st :=
      match fuel with
      | 0 => st
      | S f =>
          let inc1 := inc / 3 in
          let st1 := for_up (n - inc1) inc1 (shell_insert m n inc1) st in
          if inc1 <=? 1 then st1 else shell_passes f m n inc1 st1
      end.
    Definition svd_sort (m n : nat) (st : svd_st) : svd_st :=
      shell_passes (S n) m n (shell_inc0 (S n) 1 n) st.
    (* sign normalisation: column k of U and V is negated when more than (m+n)/2 of its entries are < 0 *)
    Definition count_neg (rows k : nat) (A : Mx) : nat :=
      for_up rows 0 (fun i c => if ltb (A i k) zero then S c else c) 0.
    Definition neg_col (rows k : nat) (A : Mx) : Mx :=
      for_up rows 0 (fun i A1 => upd A1 i k (neg (A1 i k))) A.
    Definition svd_signs (m n : nat) (st : svd_st) : svd_st :=
      for_up n 0 (fun k st1 =>
        let c := count_neg m k st1.(sU) + count_neg n k st1.(sV) in
        if m + n <? 2 * c
        then mkSVD (neg_col m k st1.(sU)) (neg_col n k st1.(sV)) st1.(sw) st1.(srv1)
        else st1) st.
    Definition svd_post (m n : nat) (st : svd_st) : svd_st := svd_signs m n (svd_sort m n st).

    (* ----- body of svd_mut: bidiagonalisation, accumulation, implicit-shift QR sweeps.
       Transliterated for the correspondence check only; no theorem is about this part. ----- *)
    Definition freeze (m n : nat) (A : Mx) : Mx := of_rows (to_rows m n A).
    Definition freezev (n : nat) (x : Vec) : Vec := of_vec (to_vec n x).
    Definition omaxT (a b : T) : T := if ltb a b then b else a.

    Record bidiag_st := mkBD { bU : Mx; bw : Vec; brv1 : Vec; bg : T; bscale : T; banorm : T }.
    Definition bidiag_step (m n i : nat) (st : bidiag_st) : bidiag_st :=
      let l := i + 2 in
      let rv1 := updv st.(brv1) i (mul st.(bscale) st.(bg)) in
      (* left reflection on column i *)
      let '(U1, g1, scale1) :=
        if i <? m then
          let scale := sum_from i (m - i) (fun k => abs (st.(bU) k i)) in
          if nez scale then
            let '(Ua, s) := for_up (m - i) i (fun k (us : Mx * T) =>
                               let '(Ux, s) := us in
                               let v := div (Ux k i) scale in
                               (upd Ux k i v, add s (mul v v))) (st.(bU), zero) in
            let f := Ua i i in
            let g := neg (copysign (sqrt s) f) in
            let h := sub (mul f g) s in
            let Ub := upd Ua i i (sub f g) in
            let Uc := for_up (n - (l - 1)) (l - 1) (fun j Ux =>
                        let s := sum_from i (m - i) (fun k => mul (Ux k i) (Ux k j)) in
                        let f := div s h in
                        for_up (m - i) i (fun k Uy => upd Uy k j (add (Uy k j) (mul f (Uy k i)))) Ux) Ub in
            let Ud := for_up (m - i) i (fun k Ux => upd Ux k i (mul (Ux k i) scale)) Uc in
            (Ud, g, scale)
          else (st.(bU), zero, scale)
        else (st.(bU), zero, zero) in
      let w := updv st.(bw) i (mul scale1 g1) in
      (* right reflection on row i *)
      let '(U2, rv2, g2, scale2) :=
        if ((i <? m) && negb (Nat.eqb (i + 1) n))%bool then
          let scale := sum_from (l - 1) (n - (l - 1)) (fun k => abs (U1 i k)) in
          if nez scale then
            let '(Ua, s) := for_up (n - (l - 1)) (l - 1) (fun k (us : Mx * T) =>
                               let '(Ux, s) := us in
                               let v := div (Ux i k) scale in
                               (upd Ux i k v, add s (mul v v))) (U1, zero) in
            let f := Ua i (l - 1) in
            let g := neg (copysign (sqrt s) f) in
            let h := sub (mul f g) s in
            let Ub := upd Ua i (l - 1) (sub f g) in
            let rva := for_up (n - (l - 1)) (l - 1) (fun k r => updv r k (div (Ub i k) h)) rv1 in
            let Uc := for_up (m - (l - 1)) (l - 1) (fun j Ux =>
                        let s := sum_from (l - 1) (n - (l - 1)) (fun k => mul (Ux j k) (Ux i k)) in
                        for_up (n - (l - 1)) (l - 1) (fun k Uy => upd Uy j k (add (Uy j k) (mul s (rva k)))) Ux) Ub in
            let Ud := for_up (n - (l - 1)) (l - 1) (fun k Ux => upd Ux i k (mul (Ux i k) scale)) Uc in
            (Ud, rva, g, scale)
          else (U1, rv1, zero, scale)
        else (U1, rv1, zero, zero) in
      mkBD (freeze m n U2) (freezev n w) (freezev n rv2) g2 scale2
           (omaxT st.(banorm) (add (abs (w i)) (abs (rv2 i)))).

    (* accumulation of right-hand transformations: for i in (0..n).rev(); state (v, g, l) *)
    Definition accum_v_step (n : nat) (U : Mx) (rv1 : Vec) (i : nat) (st : Mx * T * nat) : Mx * T * nat :=
      let '(v, g, l) := st in
      let v3 :=
        if i <? n - 1 then
          let v1 :=
            if invertible g then
              let va := for_up (n - l) l (fun j vx => upd vx j i (div (div (U i j) (U i l)) g)) v in
              for_up (n - l) l (fun j vx =>
                let s := sum_from l (n - l) (fun k => mul (U i k) (vx k j)) in
                for_up (n - l) l (fun k vy => upd vy k j (add (vy k j) (mul s (vy k i)))) vx) va
            else v in
          for_up (n - l) l (fun j vx => upd (upd vx i j zero) j i zero) v1
        else v in
      (freeze n n (upd v3 i i one), rv1 i, i).
    (* accumulation of left-hand transformations: for i in (0..min(m,n)).rev() *)
    Definition accum_u_step (m n : nat) (w : Vec) (i : nat) (U : Mx) : Mx :=
      let l := i + 1 in
      let g := w i in
      let U1 := for_up (n - l) l (fun j Ux => upd Ux i j zero) U in
      let U2 :=
        if invertible g then
          let g' := div one g in
          let Ua := for_up (n - l) l (fun j Ux =>
                      let s := sum_from l (m - l) (fun k => mul (Ux k i) (Ux k j)) in
                      let f := mul (div s (Ux i i)) g' in
                      for_up (m - i) i (fun k Uy => upd Uy k j (add (Uy k j) (mul f (Uy k i)))) Ux) U1 in
          for_up (m - i) i (fun j Ux => upd Ux j i (mul (Ux j i) g')) Ua
        else for_up (m - i) i (fun j Ux => upd Ux j i zero) U1 in
      freeze m n (upd U2 i i (add (U2 i i) one)).

    (* the `while l != 0` search for a negligible off-diagonal / diagonal entry: returns (l, nm, flag) *)
    Fixpoint find_split (fuel : nat) (anorm : T) (w rv1 : Vec) (l nm : nat) : nat * nat * bool :=
      match fuel with
      | 0 => (l, nm, true)
      | S f =>
          if Nat.eqb l 0 then (l, nm, true)
          else if leb (abs (rv1 l)) (mul eps anorm) then (l, nm, false)
          else let nm1 := l - 1 in
               if leb (abs (w nm1)) (mul eps anorm) then (l, nm1, true)
               else find_split f anorm w rv1 (l - 1) nm1
      end.
    (* rotate columns a and b of a matrix with `rows` rows: (y,z) -> (y*c + z*s, z*c - y*s) *)
    Definition rot_cols (rows a b : nat) (c s : T) (A : Mx) : Mx :=
      for_up rows 0 (fun j A1 =>
        let y := A1 j a in let z := A1 j b in
        upd (upd A1 j a (add (mul y c) (mul z s))) j b (sub (mul z c) (mul y s))) A.
    (* cancellation of rv1[l] when flag is set *)
    Record cancel_st := mkCS { cU : Mx; cw : Vec; crv1 : Vec; cc : T; cs : T; cbrk : bool }.
    Definition cancel (m l k nm : nat) (anorm : T) (U : Mx) (w rv1 : Vec) : cancel_st :=
      for_up (k + 1 - l) l (fun i st =>
        if st.(cbrk) then st else
        let f := mul st.(cs) (st.(crv1) i) in
        let rv := updv st.(crv1) i (mul st.(cc) (st.(crv1) i)) in
        if leb (abs f) (mul eps anorm) then mkCS st.(cU) st.(cw) rv st.(cc) st.(cs) true
        else
          let g := st.(cw) i in
          let h := hypot f g in
          let w1 := updv st.(cw) i h in
          let h' := div one h in
          let c := mul g h' in
          let s := mul (neg f) h' in
          mkCS (rot_cols m nm i c s st.(cU)) w1 rv c s false)
        (mkCS U w rv1 zero one false).
    (* one implicit-shift QR sweep on the block l..k *)
    Record sweep_st := mkSW { wU : Mx; wV : Mx; ww : Vec; wrv1 : Vec; wc : T; ws : T; wf : T; wx : T }.
    Definition sweep (m n l k : nat) (U V : Mx) (w rv1 : Vec) : svd_st :=
      let z := w k in
      let x := w l in
      let nm := k - 1 in
      let y := w nm in
      let g := rv1 nm in
      let h := rv1 k in
      let f := div (add (mul (sub y z) (add y z)) (mul (sub g h) (add g h))) (mul (mul two h) y) in
      let g := hypot f one in
      let f := div (add (mul (sub x z) (add x z)) (mul h (sub (div y (add f (copysign g f))) h))) x in
      let st := for_up (nm + 1 - l) l (fun j st =>
          let i := j + 1 in
          let g := st.(wrv1) i in
          let y := st.(ww) i in
          let h := mul st.(ws) g in
          let g := mul st.(wc) g in
          let z := hypot st.(wf) h in
          let rv := updv st.(wrv1) j z in
          let c := div st.(wf) z in
          let s := div h z in
          let f := add (mul st.(wx) c) (mul g s) in
          let g := sub (mul g c) (mul st.(wx) s) in
          let h := mul y s in
          let y := mul y c in
          let V1 := rot_cols n j i c s st.(wV) in
          let z := hypot f h in
          let w1 := updv st.(ww) j z in
          let '(c, s) := if nez z then let z' := div one z in (mul f z', mul h z') else (c, s) in
          let f := add (mul c g) (mul s y) in
          let x := sub (mul c y) (mul s g) in
          let U1 := rot_cols m j i c s st.(wU) in
          mkSW U1 V1 w1 rv c s f x)
        (mkSW U V w rv1 one one f x) in
      let rv := updv (updv st.(wrv1) l zero) k st.(wf) in
      mkSVD (freeze m n st.(wU)) (freeze n n st.(wV)) (freezev n (updv st.(ww) k st.(wx))) (freezev n rv).
    (* the `for iteration in 0..30` loop for one k; None = "no convergence in 30 iterations" *)
    Fixpoint svd_iter (fuel iteration m n k : nat) (anorm : T) (nm : nat) (st : svd_st) : option (svd_st * nat) :=
      match fuel with
      | 0 => None
      | S fu =>
          let '(l, nm1, flag) := find_split (S k) anorm st.(sw) st.(srv1) k nm in
          let '(U1, w1, rv1) :=
            if flag then
              let cst := cancel m l k nm1 anorm st.(sU) st.(sw) st.(srv1) in
              (cst.(cU), cst.(cw), cst.(crv1))
            else (st.(sU), st.(sw), st.(srv1)) in
          let z := w1 k in
          if Nat.eqb l k then
            if ltb z zero
            then Some (mkSVD U1 (neg_col n k st.(sV)) (updv w1 k (neg z)) rv1, nm1)
            else Some (mkSVD U1 st.(sV) w1 rv1, nm1)
          else if Nat.eqb iteration 29 then None
          else svd_iter fu (S iteration) m n k anorm (k - 1) (sweep m n l k U1 st.(sV) w1 rv1)
      end.
    Definition svd_mut (m n : nat) (A : Mx) : option svd_st :=
      let bd := for_up n 0 (bidiag_step m n) (mkBD A zerov zerov zero zero zero) in
      let '(v, _, _) := for_down n (accum_v_step n bd.(bU) bd.(brv1)) (zeros, bd.(bg), n + 1) in
      let U := for_down (Nat.min m n) (accum_u_step m n bd.(bw)) bd.(bU) in
      let r := for_down n (fun k (acc : option (svd_st * nat)) =>
                 match acc with
                 | None => None
                 | Some (st, nm) => svd_iter 30 0 m n k bd.(banorm) nm st
                 end) (Some (mkSVD U v bd.(bw) bd.(brv1), 0)) in
      match r with
      | None => None
      | Some (st, _) => Some (svd_post m n st)
      end.
  End SVD.
End Model.
