(* C01 — SVD, generic tools for the body of svd_mut (exact arithmetic):
   Householder reflectors H = I + hinv * u u^T written on zero-padded vectors, products of a family
   of reflectors, bilinear forms x^T M y, plane rotations of two columns / two rows. *)
From Coq Require Import List Arith Bool ZArith Reals Lra Lia.
From SC Require Import Base.Num C01.Model C01.Proofs C01.Proofs_qr.
Import ListNotations.  Open Scope R_scope.

(* ---------- more finite sums ---------- *)
Lemma rsum_shift_if lo n (f : nat -> R) : (lo <= n)%nat ->
  rsum n (fun r => if (lo <=? r)%nat then f r else 0) = rsum (n - lo) (fun t => f (lo + t)%nat).
Proof.
  intros H. replace n with (lo + (n - lo))%nat at 1 by lia. rewrite rsum_app.
  rewrite rsum_zero by (intros i Hi; bdestr).
  rewrite Rplus_0_l. apply rsum_ext. intros t Ht. bdestr.
Qed.
Lemma rsum_two n a b (f g : nat -> R) : (a < n)%nat -> (b < n)%nat -> a <> b ->
  (forall t, (t < n)%nat -> t <> a -> t <> b -> f t = g t) -> f a + f b = g a + g b ->
  rsum n f = rsum n g.
Proof.
  intros Ha Hb Hab Ho Hs.
  assert (E : forall h : nat -> R, rsum n h =
     rsum n (fun t => if Nat.eqb t a then 0 else if Nat.eqb t b then 0 else h t) + (h a + h b)).
  { intros h.
    rewrite (rsum_ext n h (fun t => (if Nat.eqb t a then 0 else if Nat.eqb t b then 0 else h t) +
             ((if Nat.eqb t a then h a else 0) + (if Nat.eqb t b then h b else 0)))).
    2:{ intros t Ht. bdestr; ring. }
    rewrite !rsum_plus. f_equal. f_equal.
    - rewrite (rsum_single n a) by (try assumption; intros; bdestr). bdestr.
    - rewrite (rsum_single n b) by (try assumption; intros; bdestr). bdestr. }
  rewrite (E f), (E g), Hs. f_equal. apply rsum_ext. intros t Ht. bdestr. apply Ho; assumption.
Qed.
Lemma rsum_unit n a (f : nat -> R) : (a < n)%nat ->
  rsum n (fun t => (if Nat.eqb t a then 1 else 0) * f t) = f a.
Proof.
  intros Ha. rewrite (rsum_single n a) by (try assumption; intros; bdestr; ring). bdestr; ring.
Qed.
Lemma rsum_unit_r n a (f : nat -> R) : (a < n)%nat ->
  rsum n (fun t => f t * (if Nat.eqb t a then 1 else 0)) = f a.
Proof.
  intros Ha. rewrite (rsum_single n a) by (try assumption; intros; bdestr; ring). bdestr; ring.
Qed.

Lemma dot_ext N x y x' y' : (forall i, (i < N)%nat -> x i = x' i) -> (forall i, (i < N)%nat -> y i = y' i) ->
  dot N x y = dot N x' y'.
Proof. intros H1 H2. unfold dot. apply rsum_ext. intros i Hi. rewrite H1, H2 by assumption. reflexivity. Qed.
Lemma dot_sym N x y : dot N x y = dot N y x.
Proof. unfold dot. apply rsum_ext. intros; ring. Qed.

(* ---------- a reflector on vectors of length N: x + hinv (u.x) u ---------- *)
Definition hrefl (N : nat) (u : nat -> R) (hinv : R) (x : nat -> R) : nat -> R :=
  fun i => x i + hinv * dot N u x * u i.
(* the condition that makes it an orthogonal involution: hinv = 0 (identity) or u.u = -2/hinv *)
Definition hrefl_ok (N : nat) (u : nat -> R) (hinv : R) : Prop := hinv * (2 + hinv * dot N u u) = 0.

Lemma hrefl_ext N u h u' h' x y : (forall i, (i < N)%nat -> u i = u' i) -> h = h' ->
  (forall i, (i < N)%nat -> x i = y i) -> forall i, u i = u' i -> x i = y i -> hrefl N u h x i = hrefl N u' h' y i.
Proof.
  intros Hu Hh Hx i Hui Hi. unfold hrefl. rewrite Hi, Hh, Hui.
  rewrite (dot_ext N u x u' y Hu Hx). reflexivity.
Qed.
Lemma hrefl_id N u h x : (forall i, (i < N)%nat -> u i = 0) -> forall i, (i < N)%nat -> hrefl N u h x i = x i.
Proof. intros Hu i Hi. unfold hrefl. rewrite Hu by assumption. ring. Qed.
Lemma hrefl_hinv0 N u x i : hrefl N u 0 x i = x i.
Proof. unfold hrefl. ring. Qed.
Lemma hrefl_out N u h x i : u i = 0 -> hrefl N u h x i = x i.
Proof. intros Hu. unfold hrefl. rewrite Hu. ring. Qed.
(* x vanishes wherever u does not: nothing happens *)
Lemma hrefl_orth N u h x : dot N u x = 0 -> forall i, hrefl N u h x i = x i.
Proof. intros H i. unfold hrefl. rewrite H. ring. Qed.

Lemma dot_hrefl_r N u h x y :
  dot N y (hrefl N u h x) = dot N y x + h * dot N u x * dot N y u.
Proof.
  unfold dot at 1, hrefl.
  rewrite (rsum_ext N _ (fun i => y i * x i + (h * dot N u x) * (y i * u i))) by (intros; ring).
  rewrite rsum_plus, rsum_scal. reflexivity.
Qed.
Lemma hrefl_dot N u h : hrefl_ok N u h -> forall x y, dot N (hrefl N u h x) (hrefl N u h y) = dot N x y.
Proof.
  intros Hok x y. rewrite dot_hrefl_r. rewrite (dot_sym N (hrefl N u h x) y), (dot_sym N (hrefl N u h x) u).
  rewrite !dot_hrefl_r. unfold hrefl_ok in Hok.
  rewrite (dot_sym N y x), (dot_sym N y u).
  transitivity (dot N x y + (h * (2 + h * dot N u u)) * (dot N u x * dot N u y)); [ring|]. rewrite Hok. ring.
Qed.
Lemma hrefl_invol N u h : hrefl_ok N u h -> forall x i, hrefl N u h (hrefl N u h x) i = x i.
Proof.
  intros Hok x i. unfold hrefl at 1. rewrite dot_hrefl_r. unfold hrefl. unfold hrefl_ok in Hok.
  transitivity (x i + (h * (2 + h * dot N u u)) * (dot N u x * u i)); [ring|]. rewrite Hok. ring.
Qed.

(* ---------- a family of reflectors (u t, h t), t = 0, 1, ... ---------- *)
Fixpoint app_up (N : nat) (u : nat -> nat -> R) (h : nat -> R) (cnt : nat) (x : nat -> R) : nat -> R :=
  match cnt with 0%nat => x | S c => hrefl N (u c) (h c) (app_up N u h c x) end.      (* H_{cnt-1} ... H_0 x *)
Fixpoint app_dn (N : nat) (u : nat -> nat -> R) (h : nat -> R) (cnt : nat) (x : nat -> R) : nat -> R :=
  match cnt with 0%nat => x | S c => app_dn N u h c (hrefl N (u c) (h c) x) end.      (* H_0 ... H_{cnt-1} x *)

Definition fam_agree (N cnt : nat) (u u' : nat -> nat -> R) (h h' : nat -> R) : Prop :=
  forall t, (t < cnt)%nat -> (forall i, (i < N)%nat -> u t i = u' t i) /\ h t = h' t.

Lemma app_up_ext N u h u' h' cnt : fam_agree N cnt u u' h h' ->
  forall x y, (forall i, (i < N)%nat -> x i = y i) -> forall i, (i < N)%nat -> app_up N u h cnt x i = app_up N u' h' cnt y i.
Proof.
  induction cnt as [|c IH]; intros Hf x y Hx i Hi; [apply Hx; assumption|].
  cbn [app_up]. destruct (Hf c ltac:(lia)) as [Hu Hh].
  assert (IH' : forall i, (i < N)%nat -> app_up N u h c x i = app_up N u' h' c y i).
  { apply IH; [|assumption]. intros t Ht. apply Hf. lia. }
  apply hrefl_ext; auto.
Qed.
Lemma app_dn_ext N u h u' h' cnt : fam_agree N cnt u u' h h' ->
  forall x y, (forall i, (i < N)%nat -> x i = y i) -> forall i, (i < N)%nat -> app_dn N u h cnt x i = app_dn N u' h' cnt y i.
Proof.
  induction cnt as [|c IH]; intros Hf x y Hx i Hi; [apply Hx; assumption|].
  cbn [app_dn]. destruct (Hf c ltac:(lia)) as [Hu Hh].
  apply IH; [intros t Ht; apply Hf; lia| |assumption].
  intros r Hr. apply hrefl_ext; auto.
Qed.
Lemma fam_agree_refl N cnt u h : fam_agree N cnt u u h h.
Proof. intros t Ht. split; reflexivity. Qed.

Lemma app_up_dot N u h cnt : (forall t, (t < cnt)%nat -> hrefl_ok N (u t) (h t)) ->
  forall x y, dot N (app_up N u h cnt x) (app_up N u h cnt y) = dot N x y.
Proof.
  induction cnt as [|c IH]; intros Hok x y; [reflexivity|].
  cbn [app_up]. rewrite hrefl_dot by (apply Hok; lia). apply IH. intros; apply Hok; lia.
Qed.
Lemma app_dn_dot N u h cnt : (forall t, (t < cnt)%nat -> hrefl_ok N (u t) (h t)) ->
  forall x y, dot N (app_dn N u h cnt x) (app_dn N u h cnt y) = dot N x y.
Proof.
  induction cnt as [|c IH]; intros Hok x y; [reflexivity|].
  cbn [app_dn]. rewrite IH by (intros; apply Hok; lia). apply hrefl_dot. apply Hok. lia.
Qed.
Lemma app_up_dn N u h cnt : (forall t, (t < cnt)%nat -> hrefl_ok N (u t) (h t)) ->
  forall x i, (i < N)%nat -> app_up N u h cnt (app_dn N u h cnt x) i = x i.
Proof.
  induction cnt as [|c IH]; intros Hok x i Hi; [reflexivity|].
  cbn [app_up app_dn].
  assert (E : forall r, (r < N)%nat -> app_up N u h c (app_dn N u h c (hrefl N (u c) (h c) x)) r = hrefl N (u c) (h c) x r).
  { intros r Hr. apply IH; [intros; apply Hok; lia|assumption]. }
  transitivity (hrefl N (u c) (h c) (hrefl N (u c) (h c) x) i).
  - apply hrefl_ext; auto.
  - apply hrefl_invol. apply Hok. lia.
Qed.
(* (H_{c-1} ... H_0)^T = H_0 ... H_{c-1} *)
Lemma app_adjoint N u h cnt : (forall t, (t < cnt)%nat -> hrefl_ok N (u t) (h t)) ->
  forall x y, dot N x (app_up N u h cnt y) = dot N (app_dn N u h cnt x) y.
Proof.
  intros Hok x y. rewrite <- (app_up_dot N u h cnt Hok (app_dn N u h cnt x) y).
  apply dot_ext; [|reflexivity]. intros i Hi. symmetry. apply app_up_dn; assumption.
Qed.

(* ---------- bilinear form x^T M y over the leading m x n block ---------- *)
Definition bil (m n : nat) (M : @Mx R) (x y : nat -> R) : R :=
  rsum m (fun r => rsum n (fun k => x r * M r k * y k)).
Lemma bil_ext m n M M' x x' y y' :
  (forall r k, (r < m)%nat -> (k < n)%nat -> M r k = M' r k) ->
  (forall r, (r < m)%nat -> x r = x' r) -> (forall k, (k < n)%nat -> y k = y' k) ->
  bil m n M x y = bil m n M' x' y'.
Proof.
  intros HM Hx Hy. unfold bil. apply rsum_ext. intros r Hr. apply rsum_ext. intros k Hk.
  rewrite HM, Hx, Hy by assumption. reflexivity.
Qed.
Lemma bil_rows m n M x y : bil m n M x y = rsum m (fun r => x r * dot n (fun k => M r k) y).
Proof.
  unfold bil, dot. apply rsum_ext. intros r Hr. rewrite <- rsum_scal. apply rsum_ext. intros; ring.
Qed.
Lemma bil_cols m n M x y : bil m n M x y = rsum n (fun k => y k * dot m x (fun r => M r k)).
Proof.
  unfold bil. rewrite rsum_swap. unfold dot. apply rsum_ext. intros k Hk. rewrite <- rsum_scal.
  apply rsum_ext. intros; ring.
Qed.
(* entry (i, k) is e_i^T M e_k *)
Definition evec (a : nat) : nat -> R := fun r => if Nat.eqb r a then 1 else 0.
Lemma bil_evec m n M i k : (i < m)%nat -> (k < n)%nat -> bil m n M (evec i) (evec k) = M i k.
Proof.
  intros Hi Hk. unfold bil, evec.
  rewrite (rsum_single m i) by (try assumption; intros r Hr Hne; apply rsum_zero; intros; bdestr; ring).
  rewrite (rsum_single n k) by (try assumption; intros; bdestr; ring). bdestr; ring.
Qed.
Lemma dot_evec_l N a x : (a < N)%nat -> dot N (evec a) x = x a.
Proof. intros H. unfold dot, evec. apply rsum_unit. assumption. Qed.
Lemma dot_evec_r N a x : (a < N)%nat -> dot N x (evec a) = x a.
Proof. intros H. rewrite dot_sym. apply dot_evec_l. assumption. Qed.

(* H applied to every column of M / P applied to every row of M *)
Definition colrefl (m : nat) (u : nat -> R) (h : R) (M : @Mx R) : @Mx R :=
  fun r k => hrefl m u h (fun r' => M r' k) r.
Definition rowrefl (n : nat) (v : nat -> R) (h : R) (M : @Mx R) : @Mx R :=
  fun r k => hrefl n v h (fun k' => M r k') k.

Lemma bil_colrefl m n u h M x y : hrefl_ok m u h ->
  bil m n (colrefl m u h M) (hrefl m u h x) y = bil m n M x y.
Proof.
  intros Hok. rewrite !bil_cols. apply rsum_ext. intros k Hk. f_equal.
  unfold colrefl. apply (hrefl_dot m u h Hok x (fun r => M r k)).
Qed.
Lemma bil_rowrefl m n v h M x y : hrefl_ok n v h ->
  bil m n (rowrefl n v h M) x (hrefl n v h y) = bil m n M x y.
Proof.
  intros Hok. rewrite !bil_rows. apply rsum_ext. intros r Hr. f_equal.
  unfold rowrefl. apply (hrefl_dot n v h Hok (fun k => M r k) y).
Qed.

(* ---------- the freeze of the model is the identity inside the dimensions ---------- *)
Lemma freeze_in m n (A : @Mx R) i j : (i < m)%nat -> (j < n)%nat -> freeze ROps m n A i j = A i j.
Proof.
  intros Hi Hj. unfold freeze, of_rows, to_rows.
  rewrite (nth_indep _ [] (map (fun j => A 0%nat j) (seq 0 n))) by (rewrite map_length, seq_length; assumption).
  rewrite (map_nth (fun i => map (fun j => A i j) (seq 0 n)) (seq 0 m) 0%nat i).
  rewrite seq_nth by assumption. cbn [Nat.add].
  rewrite (nth_indep _ (o0 ROps) (A i 0%nat)) by (rewrite map_length, seq_length; assumption).
  rewrite (map_nth (fun j => A i j) (seq 0 n) 0%nat j). rewrite seq_nth by assumption. reflexivity.
Qed.
Lemma freezev_in n (x : nat -> R) i : (i < n)%nat -> freezev ROps n x i = x i.
Proof.
  intros Hi. unfold freezev, of_vec, to_vec.
  rewrite (nth_indep _ (o0 ROps) (x 0%nat)) by (rewrite map_length, seq_length; assumption).
  rewrite (map_nth x (seq 0 n) 0%nat i). rewrite seq_nth by assumption. reflexivity.
Qed.

Lemma freeze_out m n (A : @Mx R) i j : (m <= i)%nat \/ (n <= j)%nat -> freeze ROps m n A i j = 0.
Proof.
  intros H. unfold freeze, of_rows, to_rows. destruct (le_lt_dec m i) as [Hi|Hi].
  - rewrite (nth_overflow _ []) by (rewrite map_length, seq_length; assumption). destruct j; reflexivity.
  - destruct H as [H|H]; [lia|].
    rewrite (nth_indep _ [] (map (fun j => A 0%nat j) (seq 0 n))) by (rewrite map_length, seq_length; assumption).
    rewrite (map_nth (fun i => map (fun j => A i j) (seq 0 n)) (seq 0 m) 0%nat i).
    apply nth_overflow. rewrite map_length, seq_length. assumption.
Qed.
Lemma app_dn_zero N u h cnt x : (forall i, (i < N)%nat -> x i = 0) -> forall i, (i < N)%nat -> app_dn N u h cnt x i = 0.
Proof.
  revert x. induction cnt as [|c IH]; intros x Hx i Hi; [apply Hx; assumption|].
  cbn [app_dn]. apply IH; [|assumption]. intros r Hr. unfold hrefl. rewrite Hx by assumption.
  replace (dot N (u c) x) with 0; [ring|]. symmetry. unfold dot. apply rsum_zero. intros t Ht. rewrite Hx by assumption. ring.
Qed.
