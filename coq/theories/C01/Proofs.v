(* C01 — shared lemmas: loop invariants, upd, finite sums over R. *)
From Coq Require Import List Arith Bool ZArith Reals Lra Lia.
From SC Require Import Base.Num C01.Model.
Import ListNotations.

(* ---------- loops ---------- *)
Lemma for_up_inv {S : Type} (P : nat -> S -> Prop) cnt start f (s : S) :
  P 0 s -> (forall c s', c < cnt -> P c s' -> P (Datatypes.S c) (f (start + c) s')) -> P cnt (for_up cnt start f s).
Proof.
  intros H0 Hs. induction cnt as [|c IH]; [exact H0|].
  cbn [for_up]. apply Hs; [lia|]. apply IH. intros c' s' Hc. apply Hs. lia.
Qed.
(* for_down cnt runs f on cnt-1, ..., 0; P c s = "indices >= c are done" *)
Lemma for_down_inv {S : Type} (P : nat -> S -> Prop) cnt f (s : S) :
  P cnt s -> (forall c s', c < cnt -> P (Datatypes.S c) s' -> P c (f c s')) -> P 0 (for_down cnt f s).
Proof.
  revert s. induction cnt as [|c IH]; intros s H0 Hs; [exact H0|].
  cbn [for_down]. apply IH; [apply Hs; [lia|exact H0]|]. intros c' s' Hc. apply Hs. lia.
Qed.
Lemma for_up_S {S : Type} c start f (s : S) : for_up (Datatypes.S c) start f s = f (start + c) (for_up c start f s).
Proof. reflexivity. Qed.
Lemma for_down_S {S : Type} c f (s : S) : for_down (Datatypes.S c) f s = for_down c f (f c s).
Proof. reflexivity. Qed.

(* ---------- upd ---------- *)
Section Upd.
  Context {T : Type}.
  Lemma upd_same (A : @Mx T) i j v : upd A i j v i j = v.
  Proof. unfold upd. rewrite !Nat.eqb_refl. reflexivity. Qed.
  Lemma upd_other (A : @Mx T) i j v i' j' : (i <> i' \/ j <> j') -> upd A i j v i' j' = A i' j'.
  Proof.
    unfold upd. intros H. destruct (Nat.eqb_spec i i'), (Nat.eqb_spec j j'); cbn; try reflexivity.
    exfalso; destruct H; congruence.
  Qed.
  Lemma upd_eq (A : @Mx T) i j v i' j' :
    upd A i j v i' j' = if (Nat.eqb i i' && Nat.eqb j j')%bool then v else A i' j'.
  Proof. reflexivity. Qed.
  Lemma updv_same {X} (x : nat -> X) i v : updv x i v i = v.
  Proof. unfold updv. rewrite Nat.eqb_refl. reflexivity. Qed.
  Lemma updv_other {X} (x : nat -> X) i v i' : i <> i' -> updv x i v i' = x i'.
  Proof. unfold updv. intros H. destruct (Nat.eqb_spec i i'); [congruence|reflexivity]. Qed.
End Upd.

(* ---------- finite sums over R ---------- *)
Open Scope R_scope.
Definition rsum (n : nat) (f : nat -> R) : R := osumn ROps n f.
Lemma rsum_0 f : rsum 0 f = 0.
Proof. reflexivity. Qed.
Lemma rsum_S n f : rsum (S n) f = rsum n f + f n.
Proof. reflexivity. Qed.
Lemma rsum_ext n f g : (forall i, (i < n)%nat -> f i = g i) -> rsum n f = rsum n g.
Proof.
  induction n as [|n IH]; intros H; [reflexivity|].
  rewrite !rsum_S. rewrite IH by (intros; apply H; lia). rewrite H by lia. reflexivity.
Qed.
Lemma rsum_zero n f : (forall i, (i < n)%nat -> f i = 0) -> rsum n f = 0.
Proof.
  induction n as [|n IH]; intros H; [reflexivity|].
  rewrite rsum_S, IH, H by (intros; try apply H; lia). lra.
Qed.
Lemma rsum_plus n f g : rsum n (fun i => f i + g i) = rsum n f + rsum n g.
Proof. induction n as [|n IH]; [cbn; unfold rsum; cbn; lra|]. rewrite !rsum_S, IH. lra. Qed.
Lemma rsum_minus n f g : rsum n (fun i => f i - g i) = rsum n f - rsum n g.
Proof. induction n as [|n IH]; [unfold rsum; cbn; lra|]. rewrite !rsum_S, IH. lra. Qed.
Lemma rsum_scal n c f : rsum n (fun i => c * f i) = c * rsum n f.
Proof. induction n as [|n IH]; [unfold rsum; cbn; lra|]. rewrite !rsum_S, IH. lra. Qed.
Lemma rsum_scal_r n c f : rsum n (fun i => f i * c) = rsum n f * c.
Proof. induction n as [|n IH]; [unfold rsum; cbn; lra|]. rewrite !rsum_S, IH. lra. Qed.
Lemma rsum_opp n f : rsum n (fun i => - f i) = - rsum n f.
Proof. induction n as [|n IH]; [unfold rsum; cbn; lra|]. rewrite !rsum_S, IH. lra. Qed.
(* sum over a + b terms splits *)
Lemma rsum_app a b f : rsum (a + b) f = rsum a f + rsum b (fun t => f (a + t)%nat).
Proof.
  induction b as [|b IH]; [rewrite Nat.add_0_r, rsum_0; lra|].
  rewrite Nat.add_succ_r, !rsum_S, IH. lra.
Qed.
(* terms beyond k vanish *)
Lemma rsum_trunc n k f : (k <= n)%nat -> (forall i, (k <= i < n)%nat -> f i = 0) -> rsum n f = rsum k f.
Proof.
  intros Hk Hz. replace n with (k + (n - k))%nat by lia. rewrite rsum_app.
  rewrite (rsum_zero (n - k)); [lra|]. intros i Hi. apply Hz. lia.
Qed.
(* a single non-zero term *)
Lemma rsum_single n k f : (k < n)%nat -> (forall i, (i < n)%nat -> i <> k -> f i = 0) -> rsum n f = f k.
Proof.
  intros Hk Hz. replace n with (k + S (n - k - 1))%nat by lia. rewrite rsum_app.
  rewrite (rsum_zero k) by (intros; apply Hz; lia).
  replace (S (n - k - 1)) with (1 + (n - k - 1))%nat by lia. rewrite rsum_app.
  rewrite (rsum_zero (n - k - 1)) by (intros; apply Hz; lia).
  rewrite rsum_S, rsum_0. rewrite !Nat.add_0_r. lra.
Qed.
(* exchange of two finite sums *)
Lemma rsum_swap n m (f : nat -> nat -> R) :
  rsum n (fun i => rsum m (fun j => f i j)) = rsum m (fun j => rsum n (fun i => f i j)).
Proof.
  induction n as [|n IH].
  - rewrite rsum_0. symmetry. apply rsum_zero. intros; apply rsum_0.
  - rewrite rsum_S, IH. rewrite <- rsum_plus. apply rsum_ext. intros j Hj. rewrite rsum_S. reflexivity.
Qed.
Lemma rsum_nonneg n f : (forall i, (i < n)%nat -> 0 <= f i) -> 0 <= rsum n f.
Proof.
  induction n as [|n IH]; intros H; [rewrite rsum_0; lra|].
  rewrite rsum_S. specialize (IH ltac:(intros; apply H; lia)). specialize (H n ltac:(lia)). lra.
Qed.
Lemma sum_from_rsum k cnt f : sum_from ROps k cnt f = rsum cnt (fun t => f (k + t)%nat).
Proof. reflexivity. Qed.

(* matrix product of the leading n columns / rows *)
Definition mmul (n : nat) (A B : @Mx R) : @Mx R := fun i j => rsum n (fun k => A i k * B k j).
Definition mtrans (A : @Mx R) : @Mx R := fun i j => A j i.

(* boolean comparisons of ROps *)
Lemma nez_R x : nez ROps x = true <-> x <> 0.
Proof.
  unfold nez. cbn [oeqb o0 ROps]. rewrite negb_true_iff. apply Reqb_false.
Qed.
Lemma nez_R_false x : nez ROps x = false <-> x = 0.
Proof.
  unfold nez. cbn [oeqb o0 ROps]. rewrite negb_false_iff. apply Reqb_true.
Qed.
