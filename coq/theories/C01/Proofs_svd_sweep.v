(* C01 — SVD, second stage of svd_mut (svd.rs): the implicit-shift QR iteration on the bidiagonal
   matrix.  PARTIAL CORRECTNESS in exact arithmetic with the negligibility threshold eps = 0:
   every plane rotation applied to (w, rv1, U, V) preserves "U, V have orthonormal columns and
   U B(w, rv1) V^T = A".  Convergence (within 30 sweeps or at all) is NOT proved. *)
From Coq Require Import List Arith Bool ZArith Reals Lra Lia.
From SC Require Import Base.Num C01.Model C01.Proofs C01.Proofs_qr C01.Proofs_svd C01.Proofs_svd_refl
  C01.Proofs_svd_bidiag C01.Proofs_svd_accum.
Import ListNotations.  Open Scope R_scope.

(* ---------- plane rotations ---------- *)
(* columns p, q of X:  (y, z) -> (c y + s z, c z - s y) *)
Definition rotc (p q : nat) (c s : R) (X : @Mx R) : @Mx R :=
  fun i j => if Nat.eqb j p then c * X i p + s * X i q else if Nat.eqb j q then c * X i q + (- s) * X i p else X i j.
(* rows p, q of B, same formula *)
Definition rotr (p q : nat) (c s : R) (B : @Mx R) : @Mx R :=
  fun a b => if Nat.eqb a p then c * B p b + s * B q b else if Nat.eqb a q then c * B q b + (- s) * B p b else B a b.

Lemma rot_cols_spec rows p q c s (A : @Mx R) i j : p <> q ->
  rot_cols ROps rows p q c s A i j = if (i <? rows)%nat then rotc p q c s A i j else A i j.
Proof.
  intros Hpq. unfold rot_cols. revert i j.
  apply (for_up_inv (fun cnt A1 => forall i j, A1 i j = if (i <? cnt)%nat then rotc p q c s A i j else A i j)).
  - intros i j. reflexivity.
  - intros cnt A1 Hc HA i j. cbn [Nat.add]. cbv zeta. cbn [oadd osub omul ROps].
    rewrite !upd_eq, !HA. unfold rotc. bdestr; ring.
Qed.

Lemma dot_lin_l N a b (x y z : nat -> R) :
  dot N (fun i => a * x i + b * y i) z = a * dot N x z + b * dot N y z.
Proof.
  unfold dot. rewrite <- !rsum_scal, <- rsum_plus. apply rsum_ext. intros; ring.
Qed.
Lemma dot_lin_r N a b (x y z : nat -> R) :
  dot N z (fun i => a * x i + b * y i) = a * dot N z x + b * dot N z y.
Proof.
  unfold dot. rewrite <- !rsum_scal, <- rsum_plus. apply rsum_ext. intros; ring.
Qed.

Lemma orthocols_dot rows n (M : @Mx R) : orthocols rows n M <->
  (forall a b, (a < n)%nat -> (b < n)%nat -> dot rows (fun i => M i a) (fun i => M i b) = if Nat.eqb a b then 1 else 0).
Proof. reflexivity. Qed.

Lemma rotc_orthocols rows n p q c s (M : @Mx R) : c * c + s * s = 1 -> p <> q -> (p < n)%nat -> (q < n)%nat ->
  orthocols rows n M -> orthocols rows n (rotc p q c s M).
Proof.
  intros Hcs Hpq Hp Hq HM. apply orthocols_dot. intros a b Ha Hb.
  pose proof (proj1 (orthocols_dot rows n M) HM) as G.
  pose proof (G p p Hp Hp) as Gpp. pose proof (G q q Hq Hq) as Gqq.
  pose proof (G p q Hp Hq) as Gpq. pose proof (G q p Hq Hp) as Gqp.
  rewrite Nat.eqb_refl in Gpp, Gqq.
  replace (Nat.eqb p q) with false in Gpq by (symmetry; bdestr).
  replace (Nat.eqb q p) with false in Gqp by (symmetry; bdestr).
  assert (Gxp : forall x, (x < n)%nat -> x <> p -> dot rows (fun i => M i x) (fun i => M i p) = 0
                                              /\ dot rows (fun i => M i p) (fun i => M i x) = 0).
  { intros x Hx Hne. rewrite (G x p), (G p x) by assumption. split; bdestr. }
  assert (Gxq : forall x, (x < n)%nat -> x <> q -> dot rows (fun i => M i x) (fun i => M i q) = 0
                                              /\ dot rows (fun i => M i q) (fun i => M i x) = 0).
  { intros x Hx Hne. rewrite (G x q), (G q x) by assumption. split; bdestr. }
  unfold rotc.
  destruct (Nat.eqb_spec a p) as [->|Hap]; [|destruct (Nat.eqb_spec a q) as [->|Haq]];
  (destruct (Nat.eqb_spec b p) as [->|Hbp]; [|destruct (Nat.eqb_spec b q) as [->|Hbq]]);
  rewrite ?dot_lin_l, ?dot_lin_r, ?Gpp, ?Gqq, ?Gpq, ?Gqp;
  try (destruct (Gxp a Ha ltac:(assumption)) as [E1 E2]; rewrite ?E1, ?E2);
  try (destruct (Gxq a Ha ltac:(assumption)) as [E3 E4]; rewrite ?E3, ?E4);
  try (destruct (Gxp b Hb ltac:(assumption)) as [E5 E6]; rewrite ?E5, ?E6);
  try (destruct (Gxq b Hb ltac:(assumption)) as [E7 E8]; rewrite ?E7, ?E8);
  try rewrite (G a b Ha Hb);
  bdestr; try nra.
Qed.

Lemma rotc_orthorows n p q c s (M : @Mx R) : c * c + s * s = 1 -> p <> q -> (p < n)%nat -> (q < n)%nat ->
  orthorows n M -> orthorows n (rotc p q c s M).
Proof.
  intros Hcs Hpq Hp Hq HM a b Ha Hb. rewrite <- (HM a b Ha Hb).
  apply (rsum_two n p q); try assumption.
  - intros t Ht H1 H2. unfold rotc. bdestr.
  - unfold rotc. rewrite !Nat.eqb_refl. replace (Nat.eqb q p) with false by (symmetry; bdestr).
    transitivity ((c * c + s * s) * (M a p * M b p + M a q * M b q)); [ring|]. rewrite Hcs. ring.
Qed.

Lemma Uorth_ext m n (M M' : @Mx R) :
  (forall i j, (i < m)%nat -> (j < n)%nat -> M i j = M' i j) -> Uorth m n M -> Uorth m n M'.
Proof.
  intros H [H1 H2]. split.
  - intros Hnm a b Ha Hb. rewrite <- (H1 Hnm a b Ha Hb). apply rsum_ext. intros i Hi. rewrite !H by assumption. reflexivity.
  - intros Hmn a b Ha Hb. rewrite <- (H2 Hmn a b Ha Hb). apply rsum_ext. intros j Hj. rewrite !H by assumption. reflexivity.
Qed.
Lemma rot_cols_Uorth m n p q c s (U : @Mx R) : c * c + s * s = 1 -> p <> q -> (p < n)%nat -> (q < n)%nat ->
  Uorth m n U -> Uorth m n (rot_cols ROps m p q c s U).
Proof.
  intros Hcs Hpq Hp Hq [H1 H2]. split.
  - intros Hnm a b Ha Hb. pose proof (rotc_orthocols m n p q c s U Hcs Hpq Hp Hq (H1 Hnm) a b Ha Hb) as H.
    rewrite <- H. apply rsum_ext. intros r Hr. rewrite !rot_cols_spec by assumption.
    rewrite (proj2 (Nat.ltb_lt r m) Hr). reflexivity.
  - intros Hmn a b Ha Hb. rewrite <- (H2 Hmn a b Ha Hb).
    rewrite (rsum_ext n _ (fun j => rotc p q c s U a j * rotc p q c s U b j)).
    2:{ intros j Hj. rewrite !rot_cols_spec by assumption.
        rewrite (proj2 (Nat.ltb_lt a m) Ha), (proj2 (Nat.ltb_lt b m) Hb). reflexivity. }
    apply (rsum_two n p q); try assumption.
    + intros t Ht E1 E2. unfold rotc. bdestr.
    + unfold rotc. rewrite !Nat.eqb_refl. replace (Nat.eqb q p) with false by (symmetry; bdestr).
      transitivity ((c * c + s * s) * (U a p * U b p + U a q * U b q)); [ring|]. rewrite Hcs. ring.
Qed.

(* (U G) (G^T B) = U B  and  (B G) (V G)^T = B V^T for a rotation G *)
Lemma rot_left n p q c s (U B : @Mx R) i b : c * c + s * s = 1 -> p <> q -> (p < n)%nat -> (q < n)%nat ->
  rsum n (fun a => rotc p q c s U i a * rotr p q c s B a b) = rsum n (fun a => U i a * B a b).
Proof.
  intros Hcs Hpq Hp Hq. apply (rsum_two n p q); try assumption.
  - intros t Ht H1 H2. unfold rotc, rotr. bdestr.
  - unfold rotc, rotr. rewrite !Nat.eqb_refl. replace (Nat.eqb q p) with false by (symmetry; bdestr).
    transitivity ((c * c + s * s) * (U i p * B p b + U i q * B q b)); [ring|]. rewrite Hcs. ring.
Qed.
(* B with columns p, q rotated *)
Definition rotcB (p q : nat) (c s : R) (B : @Mx R) : @Mx R := fun a b => rotc p q c s B a b.
Lemma rot_right n p q c s (B V : @Mx R) a k : c * c + s * s = 1 -> p <> q -> (p < n)%nat -> (q < n)%nat ->
  rsum n (fun b => rotcB p q c s B a b * rotc p q c s V k b) = rsum n (fun b => B a b * V k b).
Proof.
  intros Hcs Hpq Hp Hq. apply (rsum_two n p q); try assumption.
  - intros t Ht H1 H2. unfold rotcB, rotc. bdestr.
  - unfold rotcB, rotc. rewrite !Nat.eqb_refl. replace (Nat.eqb q p) with false by (symmetry; bdestr).
    transitivity ((c * c + s * s) * (B a p * V k p + B a q * V k q)); [ring|]. rewrite Hcs. ring.
Qed.

Lemma UBVt_ext n U U' B B' V V' i k :
  (forall a, (a < n)%nat -> U i a = U' i a) -> (forall a b, (a < n)%nat -> (b < n)%nat -> B a b = B' a b) ->
  (forall b, (b < n)%nat -> V k b = V' k b) -> UBVt n U B V i k = UBVt n U' B' V' i k.
Proof.
  intros HU HB HV. unfold UBVt. apply rsum_ext. intros a Ha. apply rsum_ext. intros b Hb.
  rewrite HU, HB, HV by assumption. reflexivity.
Qed.
Lemma UBVt_rot_left n p q c s U B V i k : c * c + s * s = 1 -> p <> q -> (p < n)%nat -> (q < n)%nat ->
  UBVt n (rotc p q c s U) (rotr p q c s B) V i k = UBVt n U B V i k.
Proof.
  intros Hcs Hpq Hp Hq. unfold UBVt. rewrite rsum_swap. symmetry. rewrite rsum_swap. symmetry.
  apply rsum_ext. intros b Hb.
  rewrite (rsum_scal_r n (V k b) (fun a => rotc p q c s U i a * rotr p q c s B a b)).
  rewrite rot_left by assumption. rewrite <- rsum_scal_r. apply rsum_ext. intros; ring.
Qed.
Lemma UBVt_rot_right n p q c s U B V i k : c * c + s * s = 1 -> p <> q -> (p < n)%nat -> (q < n)%nat ->
  UBVt n U (rotcB p q c s B) (rotc p q c s V) i k = UBVt n U B V i k.
Proof.
  intros Hcs Hpq Hp Hq. unfold UBVt. apply rsum_ext. intros a Ha.
  rewrite (rsum_ext n _ (fun b => U i a * (rotcB p q c s B a b * rotc p q c s V k b))) by (intros; ring).
  rewrite rsum_scal. rewrite rot_right by assumption. rewrite <- rsum_scal. apply rsum_ext. intros; ring.
Qed.

(* hypot of the model over R *)
Lemma hypot_R a b : hypot ROps a b = sqrt (a * a + b * b).
Proof. reflexivity. Qed.
Lemma hypot_sq a b : hypot ROps a b * hypot ROps a b = a * a + b * b.
Proof. rewrite hypot_R. apply sqrt_sqrt. nra. Qed.
Lemma hypot_nonneg a b : 0 <= hypot ROps a b.
Proof. rewrite hypot_R. apply sqrt_pos. Qed.
Lemma hypot_zero a b : hypot ROps a b = 0 -> a = 0 /\ b = 0.
Proof. intros H. pose proof (hypot_sq a b) as E. rewrite H in E. split; nra. Qed.
Lemma hypot_nz_l a b : a <> 0 -> hypot ROps a b <> 0.
Proof. intros Ha H. apply hypot_zero in H. tauto. Qed.
Lemma hypot_nz_r a b : b <> 0 -> hypot ROps a b <> 0.
Proof. intros Ha H. apply hypot_zero in H. tauto. Qed.

(* ---------- one implicit-shift QR sweep ---------- *)
(* the matrix the loop of `sweep` holds at the head of iteration j: bidiagonal outside rows j-1..j+1,
   with the not yet stored entries f (j-1,j), x (j,j), c*rv1[j+1] (j,j+1) and the bulge s*rv1[j+1] at (j-1,j+1) *)
Definition Msw (l j : nat) (ww wrv1 : nat -> R) (wc ws wf wx : R) : @Mx R := fun a b =>
  if Nat.eqb b a then (if Nat.eqb a j then wx else ww a)
  else if Nat.eqb b (a + 1) then
    (if Nat.eqb b l then 0 else if Nat.eqb b j then wf else if Nat.eqb b (j + 1) then wc * wrv1 b else wrv1 b)
  else if (Nat.eqb b (a + 2) && Nat.eqb b (j + 1) && negb (Nat.eqb j l))%bool then ws * wrv1 b
  else 0.

Lemma sweep_algebra l j (ww wrv1 : nat -> R) wc ws wf wx c1 s1 c2 s2 z z2 : (l <= j)%nat ->
  let g0 := wrv1 (j + 1)%nat in let y0 := ww (j + 1)%nat in
  let h := ws * g0 in let g := wc * g0 in
  let f1 := wx * c1 + g * s1 in let g1 := g * c1 - wx * s1 in let h1 := y0 * s1 in let y1 := y0 * c1 in
  c1 * wf + s1 * h = z -> c1 * h - s1 * wf = 0 ->
  c2 * f1 + s2 * h1 = z2 -> c2 * h1 - s2 * f1 = 0 ->
  let f2 := c2 * g1 + s2 * y1 in let x2 := c2 * y1 - s2 * g1 in
  forall a b,
    Msw l (j + 1) (updv ww j z2) (updv wrv1 j z) c2 s2 f2 x2 a b =
    rotr j (j + 1) c2 s2 (rotcB j (j + 1) c1 s1 (Msw l j ww wrv1 wc ws wf wx)) a b.
Proof.
  intros Hlj g0 y0 h g f1 g1 h1 y1 E1 E2 E3 E4 f2 x2 a b.
  unfold rotr, rotcB, rotc, Msw, updv.
  bdestr.
  all: cbn [negb andb]; subst f2 x2 f1 g1 h1 y1 h g; unfold g0, y0 in *; try ring; try lra; try nra.
Qed.

Definition sweep_body (m n j : nat) (st : @sweep_st R) : @sweep_st R :=
  let i := (j + 1)%nat in
  let g := wrv1 st i in
  let y := ww st i in
  let h := ws st * g in
  let g := wc st * g in
  let z := hypot ROps (wf st) h in
  let rv := updv (wrv1 st) j z in
  let c := wf st / z in
  let s := h / z in
  let f := wx st * c + g * s in
  let g := g * c - wx st * s in
  let h := y * s in
  let y := y * c in
  let V1 := rot_cols ROps n j i c s (wV st) in
  let z := hypot ROps f h in
  let w1 := updv (ww st) j z in
  let '(c, s) := if nez ROps z then let z' := 1 / z in (f * z', h * z') else (c, s) in
  let f := c * g + s * y in
  let x := c * y - s * g in
  let U1 := rot_cols ROps m j i c s (wU st) in
  mkSW U1 V1 w1 rv c s f x.

Definition Mst (l j : nat) (st : @sweep_st R) : @Mx R := Msw l j (ww st) (wrv1 st) (wc st) (ws st) (wf st) (wx st).

Lemma sweep_body_inv m n l j (st : @sweep_st R) : (l <= j)%nat -> (j + 1 < n)%nat ->
  ws st <> 0 -> wrv1 st (j + 1)%nat <> 0 ->
  let st' := sweep_body m n j st in
  (forall i k, (i < m)%nat -> (k < n)%nat ->
     UBVt n (wU st') (Mst l (j + 1) st') (wV st') i k = UBVt n (wU st) (Mst l j st) (wV st) i k) /\
  (Uorth m n (wU st) -> Uorth m n (wU st')) /\
  (orthocols n n (wV st) -> orthocols n n (wV st')) /\
  (forall t, t <> j -> ww st' t = ww st t) /\ (forall t, t <> j -> wrv1 st' t = wrv1 st t) /\
  (ww st (j + 1)%nat <> 0 -> ws st' <> 0) /\
  (orthorows n (wV st) -> orthorows n (wV st')).
Proof.
  intros Hlj Hjn Hs Hrv. unfold sweep_body. cbv zeta.
  set (g0 := wrv1 st (j + 1)%nat) in *. set (y0 := ww st (j + 1)%nat) in *.
  set (h := ws st * g0). set (g := wc st * g0).
  set (z := hypot ROps (wf st) h).
  assert (Hh : h <> 0) by (unfold h; apply Rmult_integral_contrapositive_currified; assumption).
  assert (Hz : z <> 0) by (apply hypot_nz_r; exact Hh).
  pose proof (hypot_sq (wf st) h) as Hzz. fold z in Hzz.
  set (c1 := wf st / z). set (s1 := h / z).
  assert (E1 : c1 * wf st + s1 * h = z).
  { unfold c1, s1. transitivity ((wf st * wf st + h * h) / z); [field; exact Hz|]. rewrite <- Hzz. field. exact Hz. }
  assert (E2 : c1 * h - s1 * wf st = 0) by (unfold c1, s1; field; exact Hz).
  assert (C1 : c1 * c1 + s1 * s1 = 1).
  { unfold c1, s1. transitivity ((wf st * wf st + h * h) / (z * z)); [field; exact Hz|]. rewrite <- Hzz. field. exact Hz. }
  assert (Hs1 : s1 <> 0).
  { unfold s1. intros E0. apply Hh. apply (Rmult_eq_reg_r (/ z)); [|apply Rinv_neq_0_compat; exact Hz].
    unfold Rdiv in E0. rewrite E0. ring. }
  set (f1 := wx st * c1 + g * s1). set (g1 := g * c1 - wx st * s1). set (h1 := y0 * s1). set (y1 := y0 * c1).
  set (z2 := hypot ROps f1 h1).
  pose proof (hypot_sq f1 h1) as Hzz2. fold z2 in Hzz2.
  assert (Hrot2 : exists c2 s2, (if nez ROps z2 then (f1 * (1 / z2), h1 * (1 / z2)) else (c1, s1)) = (c2, s2) /\
            c2 * f1 + s2 * h1 = z2 /\ c2 * h1 - s2 * f1 = 0 /\ c2 * c2 + s2 * s2 = 1 /\ (y0 <> 0 -> s2 <> 0)).
  { destruct (nez ROps z2) eqn:Ez.
    - apply nez_R in Ez. exists (f1 * (1 / z2)), (h1 * (1 / z2)). split; [reflexivity|].
      split; [|split; [|split]].
      + transitivity ((f1 * f1 + h1 * h1) / z2); [field; exact Ez|]. rewrite <- Hzz2. field. exact Ez.
      + field. exact Ez.
      + transitivity ((f1 * f1 + h1 * h1) / (z2 * z2)); [field; exact Ez|]. rewrite <- Hzz2. field. exact Ez.
      + intros Hy E0. assert (Hh1 : h1 <> 0) by (unfold h1; apply Rmult_integral_contrapositive_currified; assumption).
        apply Hh1. apply (Rmult_eq_reg_r (1 / z2)); [rewrite E0; ring|].
        unfold Rdiv. rewrite Rmult_1_l. apply Rinv_neq_0_compat. exact Ez.
    - apply nez_R_false in Ez. destruct (hypot_zero f1 h1 Ez) as [Ef Eh].
      exists c1, s1. split; [reflexivity|]. rewrite Ef, Eh, Ez. split; [ring|]. split; [ring|]. split; [exact C1|].
      intros Hy _. apply (Rmult_integral_contrapositive_currified y0 s1 Hy Hs1). exact Eh. }
  destruct Hrot2 as (c2 & s2 & Ecs & E3 & E4 & C2 & Hs2).
  fold h g z c1 s1 f1 g1 h1 y1 z2. rewrite Ecs. cbv zeta. cbn [wU wV ww wrv1 wc ws wf wx].
  assert (Hne : j <> (j + 1)%nat) by lia.
  split; [|split; [|split; [|split; [|split; [|split]]]]].
  - intros i k Hi Hk. unfold Mst. cbn [ww wrv1 wc ws wf wx].
    rewrite <- (UBVt_rot_right n j (j + 1) c1 s1 (wU st) _ (wV st) i k C1 Hne ltac:(lia) Hjn).
    rewrite <- (UBVt_rot_left n j (j + 1) c2 s2 (wU st) _ _ i k C2 Hne ltac:(lia) Hjn).
    apply UBVt_ext.
    + intros a Ha. rewrite rot_cols_spec by assumption. rewrite (proj2 (Nat.ltb_lt i m) Hi). reflexivity.
    + intros a b Ha Hb. apply (sweep_algebra l j (ww st) (wrv1 st) (wc st) (ws st) (wf st) (wx st) c1 s1 c2 s2 z z2 Hlj);
        assumption.
    + intros b Hb. rewrite rot_cols_spec by assumption. rewrite (proj2 (Nat.ltb_lt k n) Hk). reflexivity.
  - intros HU. apply rot_cols_Uorth; try assumption; lia.
  - intros HV a b Ha Hb. pose proof (rotc_orthocols n n j (j + 1) c1 s1 (wV st) C1 Hne ltac:(lia) Hjn HV a b Ha Hb) as H.
    rewrite <- H. apply rsum_ext. intros i Hi. rewrite !rot_cols_spec by assumption.
    rewrite (proj2 (Nat.ltb_lt i n) Hi). reflexivity.
  - intros t Ht. apply updv_other. lia.
  - intros t Ht. apply updv_other. lia.
  - exact Hs2.
  - intros HV a b Ha Hb. pose proof (rotc_orthorows n j (j + 1) c1 s1 (wV st) C1 Hne ltac:(lia) Hjn HV a b Ha Hb) as H.
    rewrite <- H. apply rsum_ext. intros i Hi. rewrite !rot_cols_spec by assumption.
    rewrite (proj2 (Nat.ltb_lt a n) Ha), (proj2 (Nat.ltb_lt b n) Hb). reflexivity.
Qed.

(* the state invariant of the iteration: orthonormal columns, U B(w, rv1) V^T = A, rv1[0] = 0 *)
Definition SInv (m n : nat) (A : @Mx R) (U V : @Mx R) (w rv1 : nat -> R) : Prop :=
  Uorth m n U /\ orthocols n n V /\
  (forall i k, (i < m)%nat -> (k < n)%nat -> UBVt n U (Bd w rv1) V i k = A i k) /\
  rv1 0%nat = 0.
(* the active block l..k: no zero inside, decoupled from what is above and below *)
Definition block_ok (n l k : nat) (w rv1 : nat -> R) : Prop :=
  (forall t, (l < t <= k)%nat -> rv1 t <> 0) /\ (forall t, (l <= t < k)%nat -> w t <> 0) /\
  rv1 l = 0 /\ ((k + 1 < n)%nat -> rv1 (k + 1)%nat = 0).

Lemma orthocols_ext rows n (M M' : @Mx R) :
  (forall i j, (i < rows)%nat -> (j < n)%nat -> M i j = M' i j) -> orthocols rows n M -> orthocols rows n M'.
Proof.
  intros H HM a b Ha Hb. rewrite <- (HM a b Ha Hb). apply rsum_ext. intros i Hi. rewrite !H by assumption. reflexivity.
Qed.

Lemma sweep_eq cs m n l k (U V : @Mx R) w rv1 :
  sweep ROps cs m n l k U V w rv1 =
  let z := w k in let x := w l in let nm := (k - 1)%nat in let y := w nm in let g := rv1 nm in let h := rv1 k in
  let f := ((y - z) * (y + z) + (g - h) * (g + h)) / (two ROps * h * y) in
  let g := hypot ROps f 1 in
  let f := ((x - z) * (x + z) + h * (y / (f + cs g f) - h)) / x in
  let st := for_up (nm + 1 - l) l (sweep_body m n) (mkSW U V w rv1 1 1 f x) in
  mkSVD (freeze ROps m n (wU st)) (freeze ROps n n (wV st)) (freezev ROps n (updv (ww st) k (wx st)))
        (freezev ROps n (updv (updv (wrv1 st) l 0) k (wf st))).
Proof. reflexivity. Qed.

Lemma sweep_spec cs m n A l k (U V : @Mx R) w rv1 : (l < k)%nat -> (k < n)%nat ->
  SInv m n A U V w rv1 -> block_ok n l k w rv1 ->
  let st := sweep ROps cs m n l k U V w rv1 in
  SInv m n A (sU st) (sV st) (sw st) (srv1 st) /\
  (forall t, (t < n)%nat -> (t < l \/ k < t)%nat -> sw st t = w t /\ srv1 st t = rv1 t) /\
  (orthorows n V -> orthorows n (sV st)).
Proof.
  intros Hlk Hkn (OU & OV & HP & H0) (B1 & B2 & B3 & B4). rewrite sweep_eq. cbv zeta.
  set (f0 := (_ / w l)).
  replace (k - 1 + 1 - l)%nat with (k - l)%nat by lia.
  set (st0 := mkSW U V w rv1 1 1 f0 (w l)).
  pose (P := fun (c : nat) (st : @sweep_st R) =>
    (forall i k', (i < m)%nat -> (k' < n)%nat -> UBVt n (wU st) (Mst l (l + c) st) (wV st) i k' = A i k') /\
    Uorth m n (wU st) /\ orthocols n n (wV st) /\
    (forall t, (t < l \/ l + c <= t)%nat -> ww st t = w t /\ wrv1 st t = rv1 t) /\
    ((l + c < k)%nat -> ws st <> 0) /\ (orthorows n V -> orthorows n (wV st))).
  assert (HPf : P (k - l)%nat (for_up (k - l) l (sweep_body m n) st0)).
  { apply for_up_inv.
    - unfold P, st0. cbn [wU wV ww wrv1 wc ws wf wx]. split; [|split; [|split; [|split; [|split]]]]; try assumption; try (intros; assumption).
      + intros i k' Hi Hk'. rewrite <- HP by assumption. apply UBVt_ext; try reflexivity.
        intros a b Ha Hb. unfold Mst, Msw, Bd. cbn [ww wrv1 wc ws wf wx]. rewrite Nat.add_0_r.
        rewrite Nat.eqb_refl. cbn [negb andb]. rewrite andb_false_r.
        bdestr; try ring; try (symmetry; exact B3).
      + intros; split; reflexivity.
      + intros _. lra.
    - intros c st Hc (P1 & P2 & P3 & P4 & P5 & P6).
      assert (Hrv : wrv1 st (l + c + 1)%nat <> 0).
      { rewrite (proj2 (P4 (l + c + 1)%nat ltac:(lia))). apply B1. lia. }
      destruct (sweep_body_inv m n l (l + c) st ltac:(lia) ltac:(lia) (P5 ltac:(lia)) Hrv) as (S1 & S2 & S3 & S4 & S5 & S6 & S7).
      cbv zeta in *. unfold P. replace (l + S c)%nat with (l + c + 1)%nat by lia.
      split; [|split; [|split; [|split; [|split]]]].
      + intros i k' Hi Hk'. rewrite S1 by assumption. apply P1; assumption.
      + apply S2. exact P2.
      + apply S3. exact P3.
      + intros t Ht. rewrite S4 by lia. rewrite S5 by lia. apply P4. lia.
      + intros Hlt. apply S6. rewrite (proj1 (P4 (l + c + 1)%nat ltac:(lia))). apply B2. lia.
      + intros HV. apply S7. apply P6. exact HV. }
  set (st := for_up (k - l) l (sweep_body m n) st0) in *.
  destruct HPf as (P1 & P2 & P3 & P4 & _ & P6). replace (l + (k - l))%nat with k in * by lia.
  cbn [sU sV sw srv1].
  split; [split; [|split; [|split]]|split].
  - apply (Uorth_ext m n (wU st)); [|exact P2]. intros; symmetry; apply freeze_in; assumption.
  - apply (orthocols_ext n n (wV st)); [|exact P3]. intros; symmetry; apply freeze_in; assumption.
  - intros i k' Hi Hk'. rewrite <- P1 by assumption. apply UBVt_ext.
    + intros a Ha. apply freeze_in; assumption.
    + intros a b Ha Hb. unfold Bd, Mst, Msw. rewrite !freezev_in by lia. unfold updv.
      assert (E1 : (k + 1 < n)%nat -> wrv1 st (k + 1)%nat = 0).
      { intros H. rewrite (proj2 (P4 (k + 1)%nat ltac:(lia))). apply B4. exact H. }
      bdestr; cbn [negb andb]; try ring; try (rewrite E1 by lia; ring);
        try (replace (a + 1)%nat with (k + 1)%nat by lia; rewrite E1 by lia; ring);
        try (replace (a + 2)%nat with (k + 1)%nat by lia; rewrite E1 by lia; ring).
    + intros b Hb. apply freeze_in; assumption.
  - rewrite freezev_in by lia. unfold updv. bdestr. rewrite (proj2 (P4 0%nat ltac:(lia))). exact H0.
  - intros t Ht Hout. rewrite !freezev_in by assumption. unfold updv.
    replace (Nat.eqb k t) with false by (symmetry; bdestr).
    replace (Nat.eqb l t) with false by (symmetry; bdestr). apply P4. lia.
  - intros HV a b Ha Hb. rewrite <- (P6 HV a b Ha Hb). apply rsum_ext. intros j Hj.
    rewrite !freeze_in by assumption. reflexivity.
Qed.

(* ---------- the cancellation loop (a zero diagonal entry w[l-1] above the block) ---------- *)
(* the matrix the loop of `cancel` holds at the head of iteration i: bidiagonal with the pending factor c on
   rv1[i], plus the entry s*rv1[i] in row nm that the rotations push to the right *)
Definition Mc (nm i : nat) (cw crv1 : nat -> R) (cc cs : R) : @Mx R := fun a b =>
  (if Nat.eqb b a then cw a else if Nat.eqb b (a + 1) then (if Nat.eqb b i then cc * crv1 b else crv1 b) else 0)
  + (if (Nat.eqb a nm && Nat.eqb b i)%bool then cs * crv1 i else 0).

Lemma cancel_algebra nm l i (cw crv1 : nat -> R) cc cs c s h : (nm + 1 = l)%nat -> (l <= i)%nat ->
  cw nm = 0 -> (i = l -> cc = 0) -> ((l < i)%nat -> crv1 l = 0) ->
  let f := cs * crv1 i in let g := cw i in
  c * f + s * g = 0 -> c * g - s * f = h ->
  forall a b,
    Mc nm (i + 1) (updv cw i h) (updv crv1 i (cc * crv1 i)) c s a b =
    rotr nm i c s (Mc nm i cw crv1 cc cs) a b.
Proof.
  intros Hnm Hli Hw0 Hc0 Hrl f g E1 E2 a b.
  unfold rotr, Mc, updv.
  bdestr; cbn [andb]; subst f g; try rewrite Hw0; try (rewrite Hc0 by lia); try (rewrite Hrl by lia);
    try ring; try lra; try nra.
Qed.

Definition cancel_body (m nm : nat) (anorm : R) (i : nat) (st : @cancel_st R) : @cancel_st R :=
  if cbrk st then st else
  let f := Model.cs st * crv1 st i in
  let rv := updv (crv1 st) i (cc st * crv1 st i) in
  if Rleb (Rabs f) (0 * anorm) then mkCS (cU st) (cw st) rv (cc st) (Model.cs st) true
  else
    let g := cw st i in
    let h := hypot ROps f g in
    let w1 := updv (cw st) i h in
    let h' := 1 / h in
    let c := g * h' in
    let s := (- f) * h' in
    mkCS (rot_cols ROps m nm i c s (cU st)) w1 rv c s false.
Lemma cancel_eq m l k nm anorm (U : @Mx R) w rv1 :
  cancel ROps 0 m l k nm anorm U w rv1 = for_up (k + 1 - l) l (cancel_body m nm anorm) (mkCS U w rv1 0 1 false).
Proof. reflexivity. Qed.

Lemma for_up_first {S : Type} cnt start (f : nat -> S -> S) (s : S) :
  for_up (Datatypes.S cnt) start f s = for_up cnt (Datatypes.S start) f (f start s).
Proof.
  induction cnt as [|c IH].
  - cbn [for_up]. rewrite Nat.add_0_r. reflexivity.
  - rewrite for_up_S. rewrite IH. rewrite for_up_S. f_equal. lia.
Qed.
Lemma cancel_body_brk m nm anorm cnt start (st : @cancel_st R) : cbrk st = true ->
  for_up cnt start (cancel_body m nm anorm) st = st.
Proof.
  intros H. induction cnt as [|c IH]; [reflexivity|]. rewrite for_up_S, IH. unfold cancel_body. rewrite H. reflexivity.
Qed.

Lemma Rleb_abs0 f anorm : Rleb (Rabs f) (0 * anorm) = true <-> f = 0.
Proof.
  rewrite Rleb_true, Rmult_0_l. split.
  - intros H. pose proof (Rabs_pos f). destruct (Req_dec f 0) as [E|E]; [exact E|]. apply Rabs_pos_lt in E. lra.
  - intros ->. rewrite Rabs_R0. lra.
Qed.

(* rv1[l] is already zero: the first test breaks, nothing changes *)
Lemma cancel_break m l k nm anorm (U : @Mx R) w rv1 : (l <= k)%nat -> rv1 l = 0 ->
  let cst := cancel ROps 0 m l k nm anorm U w rv1 in
  cU cst = U /\ cw cst = w /\ forall t, crv1 cst t = rv1 t.
Proof.
  intros Hlk H0. rewrite cancel_eq. cbv zeta. replace (k + 1 - l)%nat with (S (k - l)) by lia.
  rewrite for_up_first.
  assert (E : cancel_body m nm anorm l (mkCS U w rv1 0 1 false) = mkCS U w (updv rv1 l (0 * rv1 l)) 0 1 true).
  { unfold cancel_body. cbn [cbrk crv1 cc Model.cs cU cw].
    replace (Rleb (Rabs (1 * rv1 l)) (0 * anorm)) with true; [reflexivity|].
    symmetry. apply Rleb_abs0. rewrite H0. ring. }
  rewrite E. rewrite cancel_body_brk by reflexivity. cbn [cU cw crv1].
  split; [reflexivity|]. split; [reflexivity|]. intros t. unfold updv. bdestr. rewrite H0. ring.
Qed.

Lemma cancel_spec_nz m n A l k nm anorm (U V : @Mx R) w rv1 :
  (nm + 1 = l)%nat -> (l <= k)%nat -> (k < n)%nat -> w nm = 0 -> rv1 l <> 0 ->
  SInv m n A U V w rv1 ->
  (forall t, (l < t <= k)%nat -> rv1 t <> 0) -> (forall t, (l <= t < k)%nat -> w t <> 0) ->
  ((k + 1 < n)%nat -> rv1 (k + 1)%nat = 0) ->
  let cst := cancel ROps 0 m l k nm anorm U w rv1 in
  SInv m n A (cU cst) V (cw cst) (crv1 cst) /\
  (forall t, (t < l \/ k < t)%nat -> cw cst t = w t /\ crv1 cst t = rv1 t) /\
  crv1 cst l = 0 /\
  (forall t, (l < t <= k)%nat -> crv1 cst t <> 0) /\ (forall t, (l <= t < k)%nat -> cw cst t <> 0).
Proof.
  intros Hnm Hlk Hkn Hw0 Hrl (OU & OV & HP & H0) B1 B2 B4. rewrite cancel_eq. cbv zeta.
  pose (P := fun (c : nat) (st : @cancel_st R) =>
    cbrk st = false /\ Uorth m n (cU st) /\ cw st nm = 0 /\ Model.cs st <> 0 /\
    (c = 0%nat -> cc st = 0) /\ ((0 < c)%nat -> crv1 st l = 0) /\ ((0 < c)%nat -> (l + c <= k)%nat -> cc st <> 0) /\
    (forall t, (t < l \/ l + c <= t)%nat -> cw st t = w t /\ crv1 st t = rv1 t) /\
    (forall t, (l < t < l + c)%nat -> crv1 st t <> 0) /\ (forall t, (l <= t < l + c)%nat -> cw st t <> 0) /\
    (forall i k', (i < m)%nat -> (k' < n)%nat ->
       UBVt n (cU st) (Mc nm (l + c) (cw st) (crv1 st) (cc st) (Model.cs st)) V i k' = A i k')).
  assert (HPf : P (k + 1 - l)%nat (for_up (k + 1 - l) l (cancel_body m nm anorm) (mkCS U w rv1 0 1 false))).
  { apply for_up_inv.
    - unfold P. cbn [cbrk cU cw crv1 cc Model.cs].
      split; [reflexivity|]. split; [exact OU|]. split; [exact Hw0|]. split; [lra|].
      split; [reflexivity|]. split; [intros; lia|]. split; [intros; lia|].
      split; [intros; split; reflexivity|]. split; [intros; lia|]. split; [intros; lia|].
      intros i k' Hi Hk'. rewrite <- HP by assumption. apply UBVt_ext; try reflexivity.
      intros a b Ha Hb. unfold Mc, Bd. rewrite Nat.add_0_r. bdestr; cbn [andb]; ring.
    - intros c st Hc (Q0 & Q1 & Q2 & Q3 & Q4 & Q5 & Q6 & Q7 & Q8 & Q9 & Q10).
      set (i := (l + c)%nat) in *.
      assert (Hri : crv1 st i = rv1 i) by (apply Q7; lia).
      assert (Hwi : cw st i = w i) by (apply Q7; lia).
      assert (Hrine : rv1 i <> 0).
      { destruct (Nat.eq_dec i l) as [E|E]; [rewrite E; exact Hrl|apply B1; lia]. }
      set (f := Model.cs st * crv1 st i).
      assert (Hf : f <> 0) by (unfold f; rewrite Hri; apply Rmult_integral_contrapositive_currified; assumption).
      unfold cancel_body. rewrite Q0. cbv zeta. fold f.
      replace (Rleb (Rabs f) (0 * anorm)) with false.
      2:{ symmetry. destruct (Rleb (Rabs f) (0 * anorm)) eqn:E; [|reflexivity]. apply Rleb_abs0 in E. contradiction. }
      set (g := cw st i). set (h := hypot ROps f g).
      assert (Hh : h <> 0) by (apply hypot_nz_l; exact Hf).
      pose proof (hypot_sq f g) as Hhh. fold h in Hhh.
      set (c' := g * (1 / h)). set (s' := - f * (1 / h)).
      assert (E1 : c' * f + s' * g = 0) by (unfold c', s'; field; exact Hh).
      assert (E2 : c' * g - s' * f = h).
      { unfold c', s'. transitivity ((f * f + g * g) / h); [field; exact Hh|]. rewrite <- Hhh. field. exact Hh. }
      assert (C : c' * c' + s' * s' = 1).
      { unfold c', s'. transitivity ((f * f + g * g) / (h * h)); [field; exact Hh|]. rewrite <- Hhh. field. exact Hh. }
      assert (Hs' : s' <> 0).
      { unfold s'. apply Rmult_integral_contrapositive_currified; [lra|]. unfold Rdiv. rewrite Rmult_1_l.
        apply Rinv_neq_0_compat. exact Hh. }
      unfold P. cbn [cbrk cU cw crv1 cc Model.cs]. replace (l + S c)%nat with (i + 1)%nat by (unfold i; lia).
      assert (Hnmi : nm <> i) by (unfold i; lia).
      split; [reflexivity|]. split; [|split; [|split; [|split; [|split; [|split; [|split; [|split; [|split]]]]]]]].
      + apply rot_cols_Uorth; try assumption; unfold i; lia.
      + rewrite updv_other by lia. exact Q2.
      + exact Hs'.
      + intros; lia.
      + intros _. unfold updv. destruct (Nat.eqb_spec i l) as [E|E].
        * rewrite Q4 by (unfold i in E; lia). ring.
        * apply Q5. unfold i in *. lia.
      + intros _ Hle. unfold c'. apply Rmult_integral_contrapositive_currified.
        * unfold g. rewrite Hwi. apply B2. unfold i in *. lia.
        * unfold Rdiv. rewrite Rmult_1_l. apply Rinv_neq_0_compat. exact Hh.
      + intros t Ht. rewrite !updv_other by (unfold i in *; lia). apply Q7. unfold i in *. lia.
      + intros t Ht. unfold updv. destruct (Nat.eqb_spec i t) as [E|E].
        * apply Rmult_integral_contrapositive_currified; [|rewrite Hri; exact Hrine].
          apply Q6; unfold i in *; lia.
        * apply Q8. unfold i in *. lia.
      + intros t Ht. unfold updv. destruct (Nat.eqb_spec i t) as [E|E]; [exact Hh|]. apply Q9. unfold i in *. lia.
      + intros r k' Hr Hk'. rewrite <- Q10 by assumption.
        rewrite <- (UBVt_rot_left n nm i c' s' (cU st) _ V r k' C Hnmi ltac:(lia) ltac:(unfold i; lia)).
        apply UBVt_ext; try reflexivity.
        * intros a Ha. rewrite rot_cols_spec by assumption. rewrite (proj2 (Nat.ltb_lt r m) Hr). reflexivity.
        * intros a b Ha Hb.
          apply (cancel_algebra nm l i (cw st) (crv1 st) (cc st) (Model.cs st) c' s' h Hnm ltac:(unfold i; lia) Q2).
          -- intros E. apply Q4. unfold i in E. lia.
          -- intros E. apply Q5. unfold i in E. lia.
          -- exact E1.
          -- exact E2. }
  set (st := for_up (k + 1 - l) l (cancel_body m nm anorm) (mkCS U w rv1 0 1 false)) in *.
  destruct HPf as (Q0 & Q1 & Q2 & Q3 & Q4 & Q5 & Q6 & Q7 & Q8 & Q9 & Q10).
  replace (l + (k + 1 - l))%nat with (k + 1)%nat in * by lia.
  split; [split; [|split; [|split]]|split; [|split; [|split]]].
  - exact Q1.
  - exact OV.
  - intros i k' Hi Hk'. rewrite <- Q10 by assumption. apply UBVt_ext; try reflexivity.
    intros a b Ha Hb. unfold Mc, Bd.
    assert (E : (k + 1 < n)%nat -> crv1 st (k + 1)%nat = 0).
    { intros H. rewrite (proj2 (Q7 (k + 1)%nat ltac:(lia))). apply B4. exact H. }
    bdestr; cbn [andb]; try ring; try (rewrite E by lia; ring);
      try (replace (a + 1)%nat with (k + 1)%nat by lia; rewrite E by lia; ring).
  - rewrite (proj2 (Q7 0%nat ltac:(lia))). exact H0.
  - intros t Ht. apply Q7. lia.
  - apply Q5. lia.
  - intros t Ht. apply Q8. lia.
  - intros t Ht. apply Q9. lia.
Qed.
