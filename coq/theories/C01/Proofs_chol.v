(* C01 — Cholesky (cholesky.rs): exact-arithmetic theorems about the executable model.
   All statements are for T = R, O = ROps. *)
From Coq Require Import List Arith Bool ZArith Reals Lra Lia.
From SC Require Import Base.Num C01.Model C01.Proofs.
Import ListNotations.  Open Scope R_scope.

(* ---------- the `for k in 0..j` loop of row j ---------- *)
(* only the entries (j, k) with k < j are written *)
Lemma chol_row_frame (L0 : @Mx R) j i k :
  (i <> j \/ (j <= k)%nat) -> fst (chol_row ROps j L0) i k = L0 i k.
Proof.
  intros H. unfold chol_row.
  refine (for_up_inv (fun c (st : @Mx R * R) =>
            forall i k, (i <> j \/ (c <= k)%nat) -> fst st i k = L0 i k) j 0 _ _ _ _ i k H).
  - intros; reflexivity.
  - intros c [A1 d] Hc IH i' k' H'. cbn [fst]. rewrite upd_other by lia. apply IH.
    destruct H'; [left; assumption|right; lia].
Qed.

Lemma chol_row_spec (L0 : @Mx R) (j : nat) :
  (forall k, (k < j)%nat -> L0 k k <> 0) ->
  let L := fst (chol_row ROps j L0) in
  let d := snd (chol_row ROps j L0) in
  (forall k, (k < j)%nat -> rsum (S k) (fun i => L j i * L0 k i) = L0 j k) /\
  d = rsum j (fun i => L j i * L j i).
Proof.
  intros Hnz. cbv zeta. unfold chol_row.
  refine (proj2 (for_up_inv (fun c (st : @Mx R * R) =>
            (forall i k, (i <> j \/ (c <= k)%nat) -> fst st i k = L0 i k) /\
            (forall k, (k < c)%nat -> rsum (S k) (fun i => fst st j i * L0 k i) = L0 j k) /\
            snd st = rsum c (fun i => fst st j i * fst st j i)) j 0 _ _ _ _)).
  - split; [intros; reflexivity|]. split; [intros; lia|reflexivity].
  - intros c [L1 d1] Hc (Hfr & Hok & Hd). cbn [fst snd Nat.add] in *.
    cbn [o0 oadd osub omul odiv ROps].
    set (s := osumn ROps c (fun i => L1 c i * L1 j i)).
    set (v := (L1 j c - s) / L1 c c).
    assert (Hcc : L1 c c = L0 c c) by (apply Hfr; left; lia).
    assert (Hjc : L1 j c = L0 j c) by (apply Hfr; right; lia).
    split; [|split].
    + intros i k Hik. rewrite upd_other by lia. apply Hfr. destruct Hik; [left; assumption|right; lia].
    + intros k Hk. destruct (Nat.eq_dec k c) as [->|Hne].
      * rewrite rsum_S, upd_same.
        rewrite (rsum_ext c _ (fun i => L1 c i * L1 j i)).
        2:{ intros i Hi. rewrite upd_other by lia. rewrite (Hfr c i) by (left; lia). lra. }
        unfold v, s, rsum. rewrite Hjc, Hcc.
        field. apply Hnz. lia.
      * assert (Hk' : (k < c)%nat) by lia.
        rewrite <- (Hok k Hk'). apply rsum_ext. intros i Hi.
        rewrite upd_other by lia. reflexivity.
    + rewrite rsum_S, upd_same, Hd. f_equal. apply rsum_ext. intros i Hi.
      rewrite upd_other by lia. reflexivity.
Qed.

(* ---------- one step of the outer loop ---------- *)
(* over R the NaN test never fires *)
Lemma chol_step_R j (B : @Mx R) :
  chol_step ROps j (Some B) =
  let B1 := fst (chol_row ROps j B) in
  let d := B1 j j - snd (chol_row ROps j B) in
  if Rltb d 0 then None else Some (upd B1 j j (sqrt d)).
Proof.
  unfold chol_step. destruct (chol_row ROps j B) as [B1 d0].
  cbn [fst snd osub oltb oeqb osqrt o0 ROps].
  replace (Reqb (B1 j j - d0) (B1 j j - d0)) with true by (symmetry; apply Reqb_true; reflexivity).
  cbn [negb]. rewrite orb_false_r. reflexivity.
Qed.

Lemma chol_cols_S c (A : @Mx R) : chol_cols ROps (S c) A = chol_step ROps c (chol_cols ROps c A).
Proof. reflexivity. Qed.

(* a step writes row j, columns <= j, only *)
Lemma chol_step_frame j (B B' : @Mx R) :
  chol_step ROps j (Some B) = Some B' ->
  forall i k, (i <> j \/ (j < k)%nat) -> B' i k = B i k.
Proof.
  rewrite chol_step_R. cbv zeta. destruct (Rltb _ 0); [discriminate|].
  intros H i k Hik. injection H as <-. rewrite upd_other by lia.
  apply chol_row_frame. destruct Hik; [left; assumption|right; lia].
Qed.

(* state after c steps: rows < c are a Cholesky factor of the leading block, the rest is the input *)
Definition chol_inv (A B : @Mx R) (c : nat) : Prop :=
  (forall j k, (j < c)%nat -> (k <= j)%nat -> rsum (S k) (fun i => B j i * B k i) = A j k) /\
  (forall j k, ((c <= j)%nat \/ (j < k)%nat) -> B j k = A j k) /\
  (forall k, (k < c)%nat -> 0 <= B k k).

Lemma chol_step_inv c (A B B' : @Mx R) :
  chol_inv A B c -> (forall k, (k < c)%nat -> B k k <> 0) ->
  chol_step ROps c (Some B) = Some B' -> chol_inv A B' (S c).
Proof.
  intros (Ha & Hb & Hc) Hnz Hstep.
  pose proof (chol_step_frame _ _ _ Hstep) as Hfr'.
  rewrite chol_step_R in Hstep. cbv zeta in Hstep.
  pose proof (chol_row_spec B c Hnz) as [Hrow Hd0]. cbv zeta in Hrow, Hd0.
  pose proof (chol_row_frame B c) as Hfr.
  set (B1 := fst (chol_row ROps c B)) in *. set (d0 := snd (chol_row ROps c B)) in *.
  destruct (Rltb (B1 c c - d0) 0) eqn:E; [discriminate|]. apply Rltb_false in E.
  injection Hstep as <-.
  assert (Hcc : B1 c c = A c c).
  { rewrite Hfr by (right; lia). apply Hb. left; lia. }
  split; [|split].
  - intros j k Hj Hk. destruct (Nat.eq_dec j c) as [->|Hne].
    + destruct (Nat.eq_dec k c) as [->|Hnk].
      * rewrite rsum_S, upd_same, sqrt_sqrt by exact E.
        rewrite (rsum_ext c _ (fun i => B1 c i * B1 c i)) by (intros i Hi; rewrite upd_other by lia; reflexivity).
        rewrite <- Hd0, Hcc. lra.
      * rewrite (rsum_ext (S k) _ (fun i => B1 c i * B k i)).
        2:{ intros i Hi. rewrite !upd_other by lia. rewrite (Hfr k i) by (left; lia). reflexivity. }
        rewrite Hrow by lia. apply Hb. left; lia.
    + rewrite <- (Ha j k) by lia. apply rsum_ext. intros i Hi.
      rewrite !upd_other by lia. rewrite !Hfr by (left; lia). reflexivity.
  - intros j k Hjk. rewrite Hfr' by lia. apply Hb. lia.
  - intros k Hk. destruct (Nat.eq_dec k c) as [->|Hne].
    + rewrite upd_same. apply sqrt_pos.
    + rewrite upd_other by lia. rewrite Hfr by (left; lia). apply Hc. lia.
Qed.

Lemma chol_inv_0 (A : @Mx R) : chol_inv A A 0.
Proof. split; [|split]; intros; try lia; reflexivity. Qed.

Lemma chol_cols_inv c : forall (A B : @Mx R),
  chol_cols ROps c A = Some B -> (forall k, (S k < c)%nat -> B k k <> 0) -> chol_inv A B c.
Proof.
  induction c as [|c IH]; intros A B' H Hnz.
  - cbn in H. injection H as <-. apply chol_inv_0.
  - rewrite chol_cols_S in H. destruct (chol_cols ROps c A) as [B|] eqn:E; [|discriminate].
    assert (Hnz' : forall k, (k < c)%nat -> B k k <> 0).
    { intros k Hk. rewrite <- (chol_step_frame _ _ _ H) by (left; lia). apply Hnz. lia. }
    eapply chol_step_inv; [|exact Hnz'|exact H].
    apply IH; [exact E|]. intros k Hk. apply Hnz'. lia.
Qed.

(* (1) a successful run returns a Cholesky factor of the lower triangle; the strict upper triangle is kept *)
Lemma chol_exact : forall n (A R0 : @Mx R), cholesky ROps n A = Some R0 ->
  (forall k, (S k < n)%nat -> R0 k k <> 0) ->
  (forall j k, (j < n)%nat -> (k <= j)%nat -> rsum (S k) (fun i => R0 j i * R0 k i) = A j k) /\
  (forall k, (k < n)%nat -> 0 <= R0 k k) /\
  (forall j k, (j < k)%nat -> R0 j k = A j k).
Proof.
  intros n A R0 H Hnz. destruct (chol_cols_inv n A R0 H Hnz) as (Ha & Hb & Hc).
  split; [exact Ha|]. split; [exact Hc|]. intros j k Hjk. apply Hb. right; exact Hjk.
Qed.

Lemma chol_L_low (R0 : @Mx R) i j : (j <= i)%nat -> chol_L ROps R0 i j = R0 i j.
Proof. intros H. unfold chol_L. destruct (Nat.leb_spec j i); [reflexivity|lia]. Qed.
Lemma chol_L_up (R0 : @Mx R) i j : (i < j)%nat -> chol_L ROps R0 i j = 0.
Proof. intros H. unfold chol_L. destruct (Nat.leb_spec j i); [lia|reflexivity]. Qed.

Lemma chol_exact_L : forall n (A R0 : @Mx R), cholesky ROps n A = Some R0 ->
  (forall k, (S k < n)%nat -> R0 k k <> 0) ->
  forall j k, (j < n)%nat -> (k <= j)%nat ->
  mmul n (chol_L ROps R0) (mtrans (chol_L ROps R0)) j k = A j k.
Proof.
  intros n A R0 H Hnz j k Hj Hk. destruct (chol_exact n A R0 H Hnz) as (Ha & _ & _).
  rewrite <- (Ha j k Hj Hk). unfold mmul, mtrans.
  rewrite (rsum_trunc n (S k)); [|lia|].
  - apply rsum_ext. intros i Hi. rewrite !chol_L_low by lia. reflexivity.
  - intros i Hi. rewrite (chol_L_up R0 k i) by lia. lra.
Qed.

(* (2) a failing run stops at a negative Schur pivot *)
Lemma chol_none_pivot : forall n (A : @Mx R), cholesky ROps n A = None ->
  exists j B, (j < n)%nat /\ chol_cols ROps j A = Some B /\
    (let '(B1, d0) := chol_row ROps j B in B1 j j - d0 < 0).
Proof.
  unfold cholesky. induction n as [|n IH]; intros A H; [discriminate|].
  rewrite chol_cols_S in H. destruct (chol_cols ROps n A) as [B|] eqn:E.
  - exists n, B. split; [lia|]. split; [exact E|].
    rewrite chol_step_R in H. cbv zeta in H. destruct (chol_row ROps n B) as [B1 d0]. cbn [fst snd] in H.
    destruct (Rltb (B1 n n - d0) 0) eqn:E'; [|discriminate]. apply Rltb_true in E'. exact E'.
  - destruct (IH A E) as (j & B & Hj & HB & Hd). exists j, B. split; [lia|]. split; assumption.
Qed.

(* ---------- triangular solves ---------- *)
(* innermost loop: b(k,j) -= b(i,j) * c(i) for i in start..start+cnt, k outside that range *)
Lemma tri_inner_spec k j cnt start (c : nat -> R) (b2 : @Mx R) :
  (forall t, (t < cnt)%nat -> (start + t)%nat <> k) ->
  let b3 := for_up cnt start (fun i b3 => upd b3 k j (b3 k j - b3 i j * c i)) b2 in
  b3 k j = b2 k j - rsum cnt (fun t => b2 (start + t)%nat j * c (start + t)%nat) /\
  forall i' j', (i' <> k \/ j' <> j) -> b3 i' j' = b2 i' j'.
Proof.
  intros Hk. cbv zeta.
  refine (for_up_inv (fun n (b3 : @Mx R) =>
            b3 k j = b2 k j - rsum n (fun t => b2 (start + t)%nat j * c (start + t)%nat) /\
            forall i' j', (i' <> k \/ j' <> j) -> b3 i' j' = b2 i' j') cnt start _ _ _ _).
  - split; [rewrite rsum_0; lra|reflexivity].
  - intros n b3 Hn [H1 H2]. split.
    + rewrite upd_same, rsum_S, H1. rewrite (H2 (start + n)%nat j) by (left; apply Hk; lia). lra.
    + intros i' j' H. rewrite upd_other by (destruct H; [left|right]; congruence). apply H2, H.
Qed.

(* the `for j in 0..bn` loop of row k *)
Lemma tri_row_spec k bn cnt start (c : nat -> R) (dk : R) (b1 : @Mx R) :
  (forall t, (t < cnt)%nat -> (start + t)%nat <> k) ->
  let b' := for_up bn 0 (fun j b2 =>
              let b3 := for_up cnt start (fun i b3 => upd b3 k j (b3 k j - b3 i j * c i)) b2 in
              upd b3 k j (b3 k j / dk)) b1 in
  (forall j, (j < bn)%nat ->
     b' k j = (b1 k j - rsum cnt (fun t => b1 (start + t)%nat j * c (start + t)%nat)) / dk) /\
  (forall i' j', (i' <> k \/ (bn <= j')%nat) -> b' i' j' = b1 i' j').
Proof.
  intros Hk. cbv zeta.
  refine (for_up_inv (fun n (b' : @Mx R) =>
            (forall j, (j < n)%nat ->
               b' k j = (b1 k j - rsum cnt (fun t => b1 (start + t)%nat j * c (start + t)%nat)) / dk) /\
            (forall i' j', (i' <> k \/ (n <= j')%nat) -> b' i' j' = b1 i' j')) bn 0 _ _ _ _).
  - split; [intros; lia|reflexivity].
  - intros n b2 Hn [H1 H2]. cbn [Nat.add].
    destruct (tri_inner_spec k n cnt start c b2 Hk) as [G1 G2]. cbv zeta in G1, G2.
    set (b3 := for_up cnt start _ b2) in *.
    split.
    + intros j Hj. destruct (Nat.eq_dec j n) as [->|Hne].
      * rewrite upd_same, G1. rewrite (H2 k n) by (right; lia). f_equal. f_equal.
        apply rsum_ext; intros t Ht. rewrite H2 by (left; apply Hk; lia). reflexivity.
      * rewrite upd_other by lia. rewrite G2 by lia. apply H1. lia.
    + intros i' j' H. rewrite upd_other by lia. rewrite G2 by lia. apply H2. lia.
Qed.

Lemma chol_forward_spec n bn (R0 b : @Mx R) :
  (forall k, (k < n)%nat -> R0 k k <> 0) ->
  let Y := chol_forward ROps n bn R0 b in
  (forall k j, (k < n)%nat -> (j < bn)%nat -> rsum (S k) (fun i => R0 k i * Y i j) = b k j) /\
  (forall i j, ((n <= i)%nat \/ (bn <= j)%nat) -> Y i j = b i j).
Proof.
  intros Hnz. cbv zeta. unfold chol_forward. cbn [osub omul odiv ROps].
  refine (for_up_inv (fun c (Y : @Mx R) =>
            (forall k j, (k < c)%nat -> (j < bn)%nat -> rsum (S k) (fun i => R0 k i * Y i j) = b k j) /\
            (forall i j, ((c <= i)%nat \/ (bn <= j)%nat) -> Y i j = b i j)) n 0 _ _ _ _).
  - split; [intros; lia|reflexivity].
  - intros c Y Hc [H1 H2]. cbn [Nat.add].
    destruct (tri_row_spec c bn c 0 (fun i => R0 c i) (R0 c c) Y ltac:(intros; lia)) as [G1 G2].
    cbv zeta beta in G1, G2. cbn [Nat.add] in G1.
    set (Y' := for_up bn 0 _ Y) in *.
    split.
    + intros k j Hk Hj. destruct (Nat.eq_dec k c) as [->|Hne].
      * rewrite rsum_S, G1 by lia.
        rewrite (rsum_ext c _ (fun i => Y i j * R0 c i)) by (intros i Hi; rewrite G2 by lia; lra).
        rewrite (H2 c j) by lia. field. apply Hnz; lia.
      * rewrite <- (H1 k j) by lia. apply rsum_ext. intros i Hi. rewrite G2 by lia. reflexivity.
    + intros i j H. rewrite G2 by lia. apply H2. lia.
Qed.

Lemma chol_backward_spec n bn (R0 Y : @Mx R) :
  (forall k, (k < n)%nat -> R0 k k <> 0) ->
  let X := chol_backward ROps n bn R0 Y in
  (forall k j, (k < n)%nat -> (j < bn)%nat ->
     R0 k k * X k j + rsum (n - S k) (fun t => R0 (S k + t)%nat k * X (S k + t)%nat j) = Y k j) /\
  (forall i j, ((n <= i)%nat \/ (bn <= j)%nat) -> X i j = Y i j).
Proof.
  intros Hnz. cbv zeta. unfold chol_backward. cbn [osub omul odiv ROps].
  match goal with |- context [for_down n ?f Y] => set (F := f) end.
  assert (HP : (fun c (X : @Mx R) =>
            (forall k j, (c <= k < n)%nat -> (j < bn)%nat ->
               R0 k k * X k j + rsum (n - S k) (fun t => R0 (S k + t)%nat k * X (S k + t)%nat j) = Y k j) /\
            (forall i j, ((i < c)%nat \/ (n <= i)%nat \/ (bn <= j)%nat) -> X i j = Y i j)) 0%nat (for_down n F Y));
    [|destruct HP as [H1 H2]; split; intros; [apply H1|apply H2]; lia].
  apply for_down_inv; subst F.
  - split; [intros; lia|reflexivity].
  - intros c X Hc [H1 H2]. rewrite Nat.add_1_r.
    destruct (tri_row_spec c bn (n - S c) (S c) (fun i => R0 i c) (R0 c c) X ltac:(intros; lia)) as [G1 G2].
    cbv zeta beta in G1, G2.
    set (X' := for_up bn 0 _ X) in *.
    split.
    + intros k j Hk Hj. destruct (Nat.eq_dec k c) as [->|Hne].
      * rewrite G1 by lia.
        rewrite (rsum_ext _ (fun t => R0 (S c + t)%nat c * X' (S c + t)%nat j)
                   (fun t => X (S c + t)%nat j * R0 (S c + t)%nat c))
          by (intros i Hi; rewrite G2 by lia; lra).
        rewrite (H2 c j) by lia. field. apply Hnz; lia.
      * rewrite <- (H1 k j) by lia. rewrite G2 by lia. f_equal.
        apply rsum_ext. intros i Hi. rewrite G2 by lia. reflexivity.
    + intros i j H. rewrite G2 by lia. apply H2. lia.
Qed.

(* the two specs as products with the triangular factor L = chol_L R0 *)
Lemma chol_forward_full n bn (R0 b : @Mx R) :
  (forall k, (k < n)%nat -> R0 k k <> 0) ->
  forall i j, (i < n)%nat -> (j < bn)%nat ->
  rsum n (fun t => chol_L ROps R0 i t * chol_forward ROps n bn R0 b t j) = b i j.
Proof.
  intros Hnz i j Hi Hj. destruct (chol_forward_spec n bn R0 b Hnz) as [H1 _]. cbv zeta in H1.
  rewrite <- (H1 i j Hi Hj). rewrite (rsum_trunc n (S i)); [|lia|].
  - apply rsum_ext. intros t Ht. rewrite chol_L_low by lia. reflexivity.
  - intros t Ht. rewrite chol_L_up by lia. lra.
Qed.

Lemma chol_backward_full n bn (R0 Y : @Mx R) :
  (forall k, (k < n)%nat -> R0 k k <> 0) ->
  forall k j, (k < n)%nat -> (j < bn)%nat ->
  rsum n (fun i => chol_L ROps R0 i k * chol_backward ROps n bn R0 Y i j) = Y k j.
Proof.
  intros Hnz k j Hk Hj. destruct (chol_backward_spec n bn R0 Y Hnz) as [H1 _]. cbv zeta in H1.
  rewrite <- (H1 k j Hk Hj). set (X := chol_backward ROps n bn R0 Y).
  replace n with (S k + (n - S k))%nat at 1 by lia. rewrite rsum_app, rsum_S.
  rewrite (rsum_zero k) by (intros i Hi; rewrite chol_L_up by lia; lra).
  rewrite chol_L_low by lia.
  rewrite (rsum_ext (n - S k) _ (fun t => R0 (S k + t)%nat k * X (S k + t)%nat j))
    by (intros t Ht; rewrite chol_L_low by lia; reflexivity).
  lra.
Qed.

(* with a symmetric input the whole n x n block is L L^T *)
Lemma chol_gram n (A R0 : @Mx R) :
  (forall i j, (i < n)%nat -> (j < n)%nat -> A i j = A j i) ->
  cholesky ROps n A = Some R0 -> (forall k, (S k < n)%nat -> R0 k k <> 0) ->
  forall i j, (i < n)%nat -> (j < n)%nat ->
  A i j = rsum n (fun t => chol_L ROps R0 i t * chol_L ROps R0 j t).
Proof.
  intros Hsym H Hnz i j Hi Hj. pose proof (chol_exact_L n A R0 H Hnz) as HL. unfold mmul, mtrans in HL.
  destruct (le_lt_dec j i) as [Hji|Hij].
  - symmetry. apply HL; assumption.
  - rewrite Hsym by assumption. rewrite <- (HL j i) by lia. apply rsum_ext. intros; lra.
Qed.

(* (4) Cholesky::solve solves A X = b *)
Lemma chol_solve_exact : forall n bn (A R0 b : @Mx R),
  (forall i j, (i < n)%nat -> (j < n)%nat -> A i j = A j i) ->
  cholesky ROps n A = Some R0 -> (forall k, (k < n)%nat -> R0 k k <> 0) ->
  let X := chol_solve ROps n bn R0 b in
  forall i j, (i < n)%nat -> (j < bn)%nat -> rsum n (fun k => A i k * X k j) = b i j.
Proof.
  intros n bn A R0 b Hsym H Hnz X i j Hi Hj. unfold chol_solve in X.
  set (Y := chol_forward ROps n bn R0 b) in *. set (L := chol_L ROps R0).
  assert (Hnz' : forall k, (S k < n)%nat -> R0 k k <> 0) by (intros; apply Hnz; lia).
  rewrite (rsum_ext n _ (fun k => rsum n (fun t => L i t * (L k t * X k j)))).
  2:{ intros k Hk. rewrite (chol_gram n A R0 Hsym H Hnz' i k Hi Hk). fold L.
      rewrite <- rsum_scal_r. apply rsum_ext. intros; lra. }
  rewrite (rsum_swap n n (fun k t => L i t * (L k t * X k j))).
  rewrite (rsum_ext n _ (fun t => L i t * Y t j)).
  2:{ intros t Ht. rewrite rsum_scal. f_equal. apply (chol_backward_full n bn R0 Y Hnz t j Ht Hj). }
  apply (chol_forward_full n bn R0 b Hnz i j Hi Hj).
Qed.

(* ---------- positive semi-definiteness of accepted inputs ---------- *)
(* x^T (M M^T) x = |M^T x|^2, M with m columns *)
Lemma quad_gram n m (M : @Mx R) (x : nat -> R) :
  rsum n (fun i => rsum n (fun j => x i * rsum m (fun t => M i t * M j t) * x j)) =
  rsum m (fun t => rsum n (fun i => x i * M i t) * rsum n (fun i => x i * M i t)).
Proof.
  rewrite (rsum_ext n _ (fun i => rsum m (fun t => rsum n (fun j => (x i * M i t) * (x j * M j t))))).
  2:{ intros i Hi. rewrite <- (rsum_swap n m (fun j t => (x i * M i t) * (x j * M j t))).
      apply rsum_ext. intros j Hj.
      rewrite (rsum_ext m (fun t => x i * M i t * (x j * M j t)) (fun t => (x i * x j) * (M i t * M j t)))
        by (intros; lra).
      rewrite rsum_scal. lra. }
  rewrite (rsum_swap n m (fun i t => rsum n (fun j => (x i * M i t) * (x j * M j t)))).
  apply rsum_ext. intros t Ht. rewrite <- rsum_scal_r. apply rsum_ext. intros i Hi.
  rewrite rsum_scal. reflexivity.
Qed.

(* (3) an accepted symmetric matrix is positive semi-definite *)
Lemma chol_some_psd : forall n (A R0 : @Mx R),
  (forall i j, (i < n)%nat -> (j < n)%nat -> A i j = A j i) ->
  cholesky ROps n A = Some R0 -> (forall k, (S k < n)%nat -> R0 k k <> 0) ->
  forall x : nat -> R, 0 <= rsum n (fun i => rsum n (fun j => x i * A i j * x j)).
Proof.
  intros n A R0 Hsym H Hnz x.
  rewrite (rsum_ext n _ (fun i => rsum n (fun j =>
             x i * rsum n (fun t => chol_L ROps R0 i t * chol_L ROps R0 j t) * x j))).
  2:{ intros i Hi. apply rsum_ext. intros j Hj. rewrite (chol_gram n A R0 Hsym H Hnz i j Hi Hj). reflexivity. }
  rewrite quad_gram. apply rsum_nonneg. intros t Ht. apply Rle_0_sqr.
Qed.

(* (6) the hypotheses of chol_exact are satisfiable: [[4,2],[2,5]] = [[2,0],[1,2]] [[2,1],[0,2]] *)
Example chol_example : exists R0,
  cholesky ROps 2 (fun i j => match i, j with 0%nat, 0%nat => 4 | 1%nat, 1%nat => 5 | _, _ => 2 end) = Some R0 /\
  R0 0%nat 0%nat = 2 /\ R0 1%nat 0%nat = 1 /\ R0 1%nat 1%nat = 2.
Proof.
  pose (A := (fun i j : nat => match i, j with 0%nat, 0%nat => 4 | 1%nat, 1%nat => 5 | _, _ => 2 end) : @Mx R).
  change (exists R0, cholesky ROps 2 A = Some R0 /\ R0 0%nat 0%nat = 2 /\ R0 1%nat 0%nat = 1 /\ R0 1%nat 1%nat = 2).
  assert (H2 : sqrt 4 = 2). { replace 4 with (2 * 2) by lra. apply sqrt_square. lra. }
  unfold cholesky. rewrite !chol_cols_S. change (chol_cols ROps 0 A) with (Some A).
  rewrite (chol_step_R 0 A). unfold chol_row at 1 2. cbn [for_up fst snd o0 ROps].
  replace (A 0%nat 0%nat - 0) with 4 by (unfold A; lra).
  replace (Rltb 4 0) with false by (symmetry; apply Rltb_false; lra).
  rewrite H2. set (B := upd A 0 0 2).
  rewrite (chol_step_R 1 B). unfold chol_row. cbn [for_up fst snd Nat.add osumn o0 oadd osub omul odiv ROps].
  assert (B10 : B 1%nat 0%nat = 2) by reflexivity.
  assert (B00 : B 0%nat 0%nat = 2) by reflexivity.
  rewrite B10, B00. replace ((2 - 0) / 2) with 1 by lra.
  set (C := upd B 1 0 1). assert (C11 : C 1%nat 1%nat = 5) by reflexivity.
  rewrite C11. replace (5 - (0 + 1 * 1)) with 4 by lra.
  replace (Rltb 4 0) with false by (symmetry; apply Rltb_false; lra).
  rewrite H2. eexists. split; [reflexivity|]. repeat split; reflexivity.
Qed.

(* ---------- (5) symmetric positive definite inputs are accepted ---------- *)
Lemma chol_inv_gram n c (A B : @Mx R) :
  (forall i j, (i < n)%nat -> (j < n)%nat -> A i j = A j i) -> (c <= n)%nat ->
  chol_inv A B c ->
  forall i j, (i < c)%nat -> (j < c)%nat ->
  A i j = rsum c (fun t => chol_L ROps B i t * chol_L ROps B j t).
Proof.
  intros Hsym Hcn (Ha & _ & _).
  assert (H : forall i j, (i < c)%nat -> (j <= i)%nat ->
              A i j = rsum c (fun t => chol_L ROps B i t * chol_L ROps B j t)).
  { intros i j Hi Hj. rewrite <- (Ha i j Hi Hj). rewrite (rsum_trunc c (S j)); [|lia|].
    - apply rsum_ext. intros t Ht. rewrite !chol_L_low by lia. reflexivity.
    - intros t Ht. rewrite (chol_L_up B j t) by lia. lra. }
  intros i j Hi Hj. destruct (le_lt_dec j i).
  - apply H; assumption.
  - rewrite Hsym by lia. rewrite (H j i) by lia. apply rsum_ext; intros; lra.
Qed.

(* the Schur pivot of step c is the value of the quadratic form at (z, 1, 0, ..., 0), L_c^T z = -l *)
Lemma chol_pivot_pos n c (A B : @Mx R) :
  (forall i j, (i < n)%nat -> (j < n)%nat -> A i j = A j i) ->
  (forall x : nat -> R, (exists i, (i < n)%nat /\ x i <> 0) ->
       0 < rsum n (fun i => rsum n (fun j => x i * A i j * x j))) ->
  (c < n)%nat -> chol_inv A B c -> (forall k, (k < c)%nat -> B k k <> 0) ->
  0 < fst (chol_row ROps c B) c c - snd (chol_row ROps c B).
Proof.
  intros Hsym Hpd Hcn Hinv Hnz.
  pose proof (chol_inv_gram n c A B Hsym ltac:(lia) Hinv) as Hgram.
  destruct Hinv as (Ha & Hb & _).
  pose proof (chol_row_spec B c Hnz) as [Hrow Hd0]. cbv zeta in Hrow, Hd0.
  pose proof (chol_row_frame B c) as Hfr.
  set (B1 := fst (chol_row ROps c B)) in *. set (d0 := snd (chol_row ROps c B)) in *.
  set (d := B1 c c - d0).
  set (Y := (fun k _ => - B1 c k) : @Mx R).
  set (Z := chol_backward ROps c 1 B Y).
  assert (HZ : forall t, (t < c)%nat -> rsum c (fun i => chol_L ROps B i t * Z i 0%nat) = - B1 c t).
  { intros t Ht. apply (chol_backward_full c 1 B Y Hnz t 0%nat Ht). lia. }
  set (x := fun i => if (i <? c)%nat then Z i 0%nat else if (i =? c)%nat then 1 else 0).
  set (M := (fun i t => if (i <? c)%nat then chol_L ROps B i t else B1 c t) : @Mx R).
  set (E := fun i j : nat => if ((i =? c)%nat && (j =? c)%nat)%bool then d else 0).
  assert (HA : forall i j, (i <= c)%nat -> (j <= c)%nat ->
               A i j = rsum c (fun t => M i t * M j t) + E i j).
  { assert (Hrowc : forall j, (j < c)%nat -> A c j = rsum c (fun t => B1 c t * chol_L ROps B j t)).
    { intros j Hj. rewrite <- (Hb c j) by lia. rewrite <- (Hrow j Hj). symmetry.
      rewrite (rsum_trunc c (S j)); [|lia|].
      - apply rsum_ext. intros t Ht. rewrite chol_L_low by lia. reflexivity.
      - intros t Ht. rewrite chol_L_up by lia. lra. }
    intros i j Hi Hj. unfold M, E.
    destruct (Nat.ltb_spec i c), (Nat.ltb_spec j c).
    - replace (i =? c)%nat with false by (symmetry; apply Nat.eqb_neq; lia). cbn [andb].
      rewrite Rplus_0_r. apply Hgram; assumption.
    - assert (j = c) by lia. subst j.
      replace (i =? c)%nat with false by (symmetry; apply Nat.eqb_neq; lia). cbn [andb].
      rewrite Rplus_0_r. rewrite Hsym by lia. rewrite Hrowc by lia. apply rsum_ext; intros; lra.
    - assert (i = c) by lia. subst i.
      replace (j =? c)%nat with false by (symmetry; apply Nat.eqb_neq; lia).
      rewrite andb_false_r, Rplus_0_r. apply Hrowc. lia.
    - assert (i = c) by lia. subst i. assert (j = c) by lia. subst j.
      rewrite Nat.eqb_refl. cbn [andb]. rewrite <- Hd0. unfold d.
      rewrite <- (Hb c c) by lia. rewrite (Hfr c c) by lia. lra. }
  assert (Hx0 : forall i, (c < i)%nat -> x i = 0).
  { intros i Hi. unfold x. destruct (Nat.ltb_spec i c); [lia|]. destruct (Nat.eqb_spec i c); [lia|reflexivity]. }
  assert (Hxc : x c = 1).
  { unfold x. rewrite Nat.ltb_irrefl, Nat.eqb_refl. reflexivity. }
  assert (Hxl : forall i, (i < c)%nat -> x i = Z i 0%nat).
  { intros i Hi. unfold x. destruct (Nat.ltb_spec i c); [reflexivity|lia]. }
  assert (Hx : exists i, (i < n)%nat /\ x i <> 0) by (exists c; split; [exact Hcn|rewrite Hxc; lra]).
  specialize (Hpd x Hx).
  assert (HQ : rsum n (fun i => rsum n (fun j => x i * A i j * x j)) = d); [|rewrite HQ in Hpd; exact Hpd].
  rewrite (rsum_trunc n (S c));
    [|lia|intros i Hi; apply rsum_zero; intros j Hj; rewrite (Hx0 i) by lia; lra].
  rewrite (rsum_ext (S c) _ (fun i => rsum (S c) (fun j => x i * rsum c (fun t => M i t * M j t) * x j)
                                    + rsum (S c) (fun j => x i * E i j * x j))).
  2:{ intros i Hi. rewrite (rsum_trunc n (S c)); [|lia|intros j Hj; rewrite (Hx0 j) by lia; lra].
      rewrite <- rsum_plus. apply rsum_ext. intros j Hj. rewrite HA by lia. lra. }
  rewrite rsum_plus, quad_gram.
  rewrite (rsum_zero c).
  2:{ intros t Ht.
      assert (H0 : rsum (S c) (fun i => x i * M i t) = 0).
      { rewrite rsum_S. rewrite (rsum_ext c _ (fun i => chol_L ROps B i t * Z i 0%nat)).
        2:{ intros i Hi. rewrite Hxl by lia. unfold M. destruct (Nat.ltb_spec i c); [lra|lia]. }
        rewrite HZ by lia. rewrite Hxc. unfold M. rewrite Nat.ltb_irrefl. lra. }
      rewrite H0. lra. }
  rewrite (rsum_single (S c) c); [|lia|].
  2:{ intros i Hi Hne. apply rsum_zero. intros j Hj. unfold E.
      replace (i =? c)%nat with false by (symmetry; apply Nat.eqb_neq; lia). cbn [andb]. lra. }
  rewrite (rsum_single (S c) c); [|lia|].
  2:{ intros j Hj Hne. unfold E.
      replace (j =? c)%nat with false by (symmetry; apply Nat.eqb_neq; lia). rewrite andb_false_r. lra. }
  unfold E. rewrite Nat.eqb_refl. cbn [andb]. rewrite Hxc. lra.
Qed.

Lemma chol_spd_cols n (A : @Mx R) :
  (forall i j, (i < n)%nat -> (j < n)%nat -> A i j = A j i) ->
  (forall x : nat -> R, (exists i, (i < n)%nat /\ x i <> 0) ->
       0 < rsum n (fun i => rsum n (fun j => x i * A i j * x j))) ->
  forall c, (c <= n)%nat ->
  exists B, chol_cols ROps c A = Some B /\ forall k, (k < c)%nat -> 0 < B k k.
Proof.
  intros Hsym Hpd. induction c as [|c IH]; intros Hc.
  - exists A. split; [reflexivity|intros; lia].
  - destruct (IH ltac:(lia)) as (B & HB & Hpos).
    assert (Hnz : forall k, (k < c)%nat -> B k k <> 0) by (intros k Hk; specialize (Hpos k Hk); lra).
    assert (Hinv : chol_inv A B c) by (apply chol_cols_inv; [exact HB|intros; apply Hnz; lia]).
    pose proof (chol_pivot_pos n c A B Hsym Hpd ltac:(lia) Hinv Hnz) as Hd.
    pose proof (chol_row_frame B c) as Hfr.
    rewrite chol_cols_S, HB, chol_step_R. cbv zeta.
    set (B1 := fst (chol_row ROps c B)) in *. set (d0 := snd (chol_row ROps c B)) in *.
    replace (Rltb (B1 c c - d0) 0) with false by (symmetry; apply Rltb_false; lra).
    eexists. split; [reflexivity|]. intros k Hk. destruct (Nat.eq_dec k c) as [->|Hne].
    + rewrite upd_same. apply sqrt_lt_R0. exact Hd.
    + rewrite upd_other by lia. rewrite Hfr by (left; lia). apply Hpos. lia.
Qed.

Lemma chol_spd_some : forall n (A : @Mx R),
  (forall i j, (i < n)%nat -> (j < n)%nat -> A i j = A j i) ->
  (forall x : nat -> R, (exists i, (i < n)%nat /\ x i <> 0) ->
       0 < rsum n (fun i => rsum n (fun j => x i * A i j * x j))) ->
  exists R0, cholesky ROps n A = Some R0 /\ forall k, (k < n)%nat -> 0 < R0 k k.
Proof. intros n A Hsym Hpd. exact (chol_spd_cols n A Hsym Hpd n (le_n n)). Qed.

(* contrapositive: a rejected symmetric matrix is not positive definite *)
Lemma chol_none_not_pd : forall n (A : @Mx R),
  (forall i j, (i < n)%nat -> (j < n)%nat -> A i j = A j i) ->
  cholesky ROps n A = None ->
  ~ (forall x : nat -> R, (exists i, (i < n)%nat /\ x i <> 0) ->
       0 < rsum n (fun i => rsum n (fun j => x i * A i j * x j))).
Proof.
  intros n A Hsym Hnone Hpd. destruct (chol_spd_some n A Hsym Hpd) as (R0 & H & _). congruence.
Qed.

(* (5) + (4): for a symmetric positive definite matrix the factorisation succeeds and solve is exact *)
Corollary chol_spd_solve : forall n bn (A b : @Mx R),
  (forall i j, (i < n)%nat -> (j < n)%nat -> A i j = A j i) ->
  (forall x : nat -> R, (exists i, (i < n)%nat /\ x i <> 0) ->
       0 < rsum n (fun i => rsum n (fun j => x i * A i j * x j))) ->
  exists R0, cholesky ROps n A = Some R0 /\
    forall i j, (i < n)%nat -> (j < bn)%nat ->
    rsum n (fun k => A i k * chol_solve ROps n bn R0 b k j) = b i j.
Proof.
  intros n bn A b Hsym Hpd. destruct (chol_spd_some n A Hsym Hpd) as (R0 & H & Hpos).
  exists R0. split; [exact H|].
  apply (chol_solve_exact n bn A R0 b Hsym H). intros k Hk. specialize (Hpos k Hk). lra.
Qed.
