(* C01 — SVD: the pseudo-inverse solve (SVD::solve) and the tail of svd_mut (shell sort of the
   singular values with joint column moves, sign normalisation), exact-arithmetic instance. *)
From Coq Require Import List Arith Bool ZArith Reals Lra Lia Permutation.
From SC Require Import Base.Num C01.Model C01.Proofs.
Import ListNotations.
Open Scope R_scope.

(* ====================================================================== *)
(* PART A — svd_solve                                                      *)
(* ====================================================================== *)

(* A = U diag(s) V^T *)
Definition svd_A (n : nat) (U : @Mx R) (s : nat -> R) (V : @Mx R) : @Mx R :=
  fun i k => rsum n (fun j => U i j * s j * V k j).
Definition orthocols (rows n : nat) (M : @Mx R) : Prop :=
  forall a b, (a < n)%nat -> (b < n)%nat ->
    rsum rows (fun i => M i a * M i b) = (if Nat.eqb a b then 1 else 0).
Definition orthorows (n : nat) (M : @Mx R) : Prop :=
  forall a b, (a < n)%nat -> (b < n)%nat ->
    rsum n (fun j => M a j * M b j) = (if Nat.eqb a b then 1 else 0).

(* the vector tmp of SVD::solve for column k of b *)
Definition svd_tmp (eps : R) (m n : nat) (U : @Mx R) (s : nat -> R) (b : @Mx R) (k jj : nat) : R :=
  if Rlt_dec (svd_tol ROps eps m n s) (s jj) then rsum m (fun i => U i jj * b i k) / s jj else 0.
(* the closed form of an entry of X *)
Definition svd_X (eps : R) (m n : nat) (U : @Mx R) (s : nat -> R) (V b : @Mx R) (j k : nat) : R :=
  rsum n (fun jj => V j jj * svd_tmp eps m n U s b k jj).

(* ---------- small loops ---------- *)
Lemma fill_vec_spec {X : Type} n (r : nat -> X) (t0 : nat -> X) jj :
  for_up n 0 (fun j t => updv t j (r j)) t0 jj = if (jj <? n)%nat then r jj else t0 jj.
Proof.
  induction n as [|n IH]; [reflexivity|].
  cbn [for_up]. rewrite Nat.add_0_l. unfold updv at 1.
  destruct (Nat.eqb_spec n jj) as [->|Hne].
  - rewrite (proj2 (Nat.ltb_lt _ _)) by lia. reflexivity.
  - rewrite IH. destruct (Nat.ltb_spec jj n), (Nat.ltb_spec jj (S n)); try lia; reflexivity.
Qed.

Lemma fill_col_spec {X : Type} n k (g : nat -> X) (b1 : @Mx X) i k' :
  for_up n 0 (fun j b2 => upd b2 j k (g j)) b1 i k'
  = if ((i <? n)%nat && Nat.eqb k' k)%bool then g i else b1 i k'.
Proof.
  induction n as [|n IH]; [reflexivity|].
  cbn [for_up]. rewrite Nat.add_0_l. rewrite upd_eq.
  destruct (Nat.eqb_spec n i) as [->|Hne]; cbn [andb].
  - rewrite (proj2 (Nat.ltb_lt _ _)) by lia. cbn [andb].
    destruct (Nat.eqb_spec k k') as [->|Hk].
    + rewrite Nat.eqb_refl. reflexivity.
    + rewrite IH. destruct (Nat.eqb_spec k' k); [congruence|]. rewrite andb_false_r. reflexivity.
  - rewrite IH. destruct (Nat.ltb_spec i n), (Nat.ltb_spec i (S n)); try lia; reflexivity.
Qed.

(* one column of the solve *)
Definition svd_solve_col (eps : R) (m n : nat) (U : @Mx R) (s : nat -> R) (V : @Mx R) (k : nat) (b1 : @Mx R) : @Mx R :=
  let tol := svd_tol ROps eps m n s in
  let tmp : nat -> R := for_up n 0 (fun j tmp =>
      let r := if gtb ROps (s j) tol
               then odiv ROps (osumn ROps m (fun i => omul ROps (U i j) (b1 i k))) (s j)
               else o0 ROps in
      updv tmp j r) (@zerov R ROps) in
  for_up n 0 (fun j b2 => upd b2 j k (osumn ROps n (fun jj => omul ROps (V j jj) (tmp jj)))) b1.

Lemma svd_solve_unfold eps m n p U s V b :
  svd_solve ROps eps m n p U s V b = for_up p 0 (svd_solve_col eps m n U s V) b.
Proof. reflexivity. Qed.

Lemma svd_solve_col_spec eps m n U s V k b1 i k' :
  svd_solve_col eps m n U s V k b1 i k'
  = if ((i <? n)%nat && Nat.eqb k' k)%bool then svd_X eps m n U s V b1 i k else b1 i k'.
Proof.
  unfold svd_solve_col. cbv zeta. rewrite fill_col_spec.
  destruct ((i <? n)%nat && Nat.eqb k' k)%bool; [|reflexivity].
  unfold svd_X. apply rsum_ext. intros jj Hjj.
  cbn [omul ROps]. f_equal.
  rewrite (fill_vec_spec n (fun j => if gtb ROps (s j) (svd_tol ROps eps m n s)
      then odiv ROps (osumn ROps m (fun i0 => omul ROps (U i0 j) (b1 i0 k))) (s j) else o0 ROps)).
  rewrite (proj2 (Nat.ltb_lt _ _)) by lia.
  unfold svd_tmp, gtb. cbn [oltb odiv omul o0 ROps]. unfold Rltb.
  destruct (Rlt_dec (svd_tol ROps eps m n s) (s jj)); reflexivity.
Qed.

Lemma svd_X_ext eps m n U s V b b' j k :
  (forall i, (i < m)%nat -> b i k = b' i k) -> svd_X eps m n U s V b j k = svd_X eps m n U s V b' j k.
Proof.
  intros H. unfold svd_X. apply rsum_ext. intros jj _. f_equal. unfold svd_tmp.
  destruct (Rlt_dec _ _); [|reflexivity]. f_equal. apply rsum_ext. intros i Hi. rewrite H by lia. reflexivity.
Qed.

(* (A1) closed form of every entry of the result *)
Theorem svd_solve_spec eps m n p U s V b j k :
  svd_solve ROps eps m n p U s V b j k
  = if ((j <? n)%nat && (k <? p)%nat)%bool
    then rsum n (fun jj => V j jj *
           (if Rlt_dec (svd_tol ROps eps m n s) (s jj) then rsum m (fun i => U i jj * b i k) / s jj else 0))
    else b j k.
Proof.
  rewrite svd_solve_unfold. revert j k.
  induction p as [|c IH]; intros j k.
  - cbn [for_up]. rewrite andb_false_r. reflexivity.
  - cbn [for_up]. rewrite Nat.add_0_l. rewrite svd_solve_col_spec.
    destruct (Nat.ltb_spec j n) as [Hj|Hj]; cbn [andb].
    + destruct (Nat.eqb_spec k c) as [->|Hk].
      * rewrite (proj2 (Nat.ltb_lt _ _)) by lia.
        rewrite (svd_X_ext _ _ _ _ _ _ _ b).
        { reflexivity. }
        intros i _. rewrite IH. rewrite Nat.ltb_irrefl. rewrite andb_false_r. reflexivity.
      * rewrite IH. rewrite (proj2 (Nat.ltb_lt _ _) Hj). cbn [andb].
        destruct (Nat.ltb_spec k c), (Nat.ltb_spec k (S c)); try lia; reflexivity.
    + rewrite IH. rewrite (proj2 (Nat.ltb_ge _ _) Hj). reflexivity.
Qed.

Corollary svd_solve_X eps m n p U s V b j k :
  (j < n)%nat -> (k < p)%nat -> svd_solve ROps eps m n p U s V b j k = svd_X eps m n U s V b j k.
Proof.
  intros Hj Hk. rewrite svd_solve_spec.
  rewrite (proj2 (Nat.ltb_lt _ _) Hj), (proj2 (Nat.ltb_lt _ _) Hk). reflexivity.
Qed.
Corollary svd_solve_untouched_cols eps m n p U s V b j k :
  (p <= k)%nat -> svd_solve ROps eps m n p U s V b j k = b j k.
Proof.
  intros Hk. rewrite svd_solve_spec. rewrite (proj2 (Nat.ltb_ge _ _) Hk), andb_false_r. reflexivity.
Qed.
Corollary svd_solve_untouched_rows eps m n p U s V b j k :
  (n <= j)%nat -> svd_solve ROps eps m n p U s V b j k = b j k.
Proof.
  intros Hj. rewrite svd_solve_spec. rewrite (proj2 (Nat.ltb_ge _ _) Hj). reflexivity.
Qed.

(* ---------- algebra of finite sums ---------- *)
Lemma rsum_delta n a (f : nat -> R) :
  (a < n)%nat -> rsum n (fun j => (if Nat.eqb a j then 1 else 0) * f j) = f a.
Proof.
  intros Ha. rewrite (rsum_single n a).
  - rewrite Nat.eqb_refl. lra.
  - exact Ha.
  - intros i _ Hi. destruct (Nat.eqb_spec a i); [congruence|lra].
Qed.

(* sum_t (sum_j g j * h t j) * w t = sum_j g j * (sum_t h t j * w t) *)
Lemma rsum_mul_swap a b (g : nat -> R) (h : nat -> nat -> R) (w : nat -> R) :
  rsum a (fun t => rsum b (fun j => g j * h t j) * w t)
  = rsum b (fun j => g j * rsum a (fun t => h t j * w t)).
Proof.
  rewrite (rsum_ext a _ (fun t => rsum b (fun j => g j * (h t j * w t)))).
  2:{ intros t _. rewrite <- rsum_scal_r. apply rsum_ext. intros; ring. }
  rewrite rsum_swap. apply rsum_ext. intros j _. apply rsum_scal.
Qed.

(* M^T (M f) = f for orthonormal columns *)
Lemma gram_contract rows n (M : @Mx R) (f : nat -> R) j :
  orthocols rows n M -> (j < n)%nat ->
  rsum rows (fun t => M t j * rsum n (fun jj => M t jj * f jj)) = f j.
Proof.
  intros HM Hj.
  rewrite (rsum_ext rows _ (fun t => rsum n (fun jj => M t j * M t jj * f jj))).
  2:{ intros t _. rewrite <- rsum_scal. apply rsum_ext. intros; ring. }
  rewrite rsum_swap.
  rewrite (rsum_ext n _ (fun jj => (if Nat.eqb j jj then 1 else 0) * f jj)).
  2:{ intros jj Hjj. rewrite rsum_scal_r. rewrite HM by assumption. reflexivity. }
  apply rsum_delta. exact Hj.
Qed.

Lemma svd_A_alt n U s V i c :
  svd_A n U s V i c = rsum n (fun j => (s j * V c j) * U i j).
Proof. unfold svd_A. apply rsum_ext. intros; ring. Qed.

(* A X = U diag(s) tmp *)
Lemma svd_AX eps m n U s V b i k :
  orthocols n n V ->
  rsum n (fun t => svd_A n U s V i t * svd_X eps m n U s V b t k)
  = rsum n (fun j => U i j * (s j * svd_tmp eps m n U s b k j)).
Proof.
  intros HV.
  rewrite (rsum_ext n _ (fun t => rsum n (fun j => (U i j * s j) * V t j) * svd_X eps m n U s V b t k)).
  2:{ intros t _. reflexivity. }
  rewrite rsum_mul_swap. apply rsum_ext. intros j Hj.
  unfold svd_X. rewrite (gram_contract n n V _ j HV Hj). ring.
Qed.

(* (A2) the normal equations A^T (A X - b) = 0 *)
Theorem svd_solve_lsq : forall eps m n p U s V b,
  orthocols m n U -> orthocols n n V -> orthorows n V ->
  (forall j, (j < n)%nat -> svd_tol ROps eps m n s < s j \/ s j = 0) ->
  let A := svd_A n U s V in let X := svd_solve ROps eps m n p U s V b in
  forall c k, (c < n)%nat -> (k < p)%nat ->
    rsum m (fun i => A i c * (rsum n (fun t => A i t * X t k) - b i k)) = 0.
Proof.
  intros eps m n p U s V b HU HV _ Hs A X c k Hc Hk. subst A X.
  rewrite (rsum_ext m _ (fun i => rsum n (fun j => (s j * V c j) * U i j) *
             (rsum n (fun j => U i j * (s j * svd_tmp eps m n U s b k j)) - b i k))).
  2:{ intros i _. rewrite svd_A_alt. f_equal. f_equal. rewrite <- (svd_AX eps m n U s V b i k HV).
      apply rsum_ext. intros t Ht. rewrite svd_solve_X by assumption. reflexivity. }
  rewrite rsum_mul_swap. apply rsum_zero. intros j Hj.
  rewrite (rsum_ext m _ (fun t => U t j * rsum n (fun j0 => U t j0 * (s j0 * svd_tmp eps m n U s b k j0))
                                 - U t j * b t k)) by (intros; ring).
  rewrite rsum_minus. rewrite (gram_contract m n U _ j HU Hj).
  unfold svd_tmp. destruct (Hs j Hj) as [Hlt|Hz].
  - destruct (Rlt_dec _ _) as [_|Hn]; [|contradiction].
    destruct (Req_EM_T (s j) 0) as [Hz|Hnz]; [rewrite Hz; ring|]. field. exact Hnz.
  - rewrite Hz. ring.
Qed.

(* (A3) the columns of X lie in the range of A^T *)
Theorem svd_solve_in_rowspace : forall eps m n p U s V b,
  orthocols m n U -> orthocols n n V -> orthorows n V ->
  (forall j, (j < n)%nat -> svd_tol ROps eps m n s < s j \/ s j = 0) ->
  let A := svd_A n U s V in let X := svd_solve ROps eps m n p U s V b in
  forall k, (k < p)%nat -> exists z : nat -> R,
    forall t, (t < n)%nat -> X t k = rsum m (fun i => A i t * z i).
Proof.
  intros eps m n p U s V b HU _ _ _ A X k Hk. subst A X.
  set (cf := fun j => if Req_EM_T (s j) 0 then 0 else svd_tmp eps m n U s b k j / s j).
  exists (fun i => rsum n (fun j => U i j * cf j)).
  intros t Ht. rewrite svd_solve_X by assumption.
  rewrite (rsum_ext m _ (fun i => rsum n (fun j => (s j * V t j) * U i j) * rsum n (fun j => U i j * cf j))).
  2:{ intros i _. rewrite svd_A_alt. reflexivity. }
  rewrite rsum_mul_swap. unfold svd_X. apply rsum_ext. intros j Hj.
  rewrite (gram_contract m n U _ j HU Hj). unfold cf.
  destruct (Req_EM_T (s j) 0) as [Hz|Hnz].
  - unfold svd_tmp. destruct (Rlt_dec _ _); [|ring]. rewrite Hz. unfold Rdiv. rewrite Rinv_0. ring.
  - field. exact Hnz.
Qed.

Lemma rsum_sq_zero n (f : nat -> R) :
  rsum n (fun i => f i * f i) = 0 -> forall i, (i < n)%nat -> f i = 0.
Proof.
  induction n as [|n IH]; intros H i Hi; [lia|].
  rewrite rsum_S in H.
  assert (H0 : 0 <= rsum n (fun i => f i * f i)) by (apply rsum_nonneg; intros; nra).
  assert (Hn : f n * f n = 0) by nra.
  assert (Hr : rsum n (fun i => f i * f i) = 0) by nra.
  destruct (Nat.eq_dec i n) as [->|Hne]; [nra|]. apply IH; [exact Hr|lia].
Qed.

(* (A4) among the solutions of the normal equations, one in the range of A^T has the least norm *)
Theorem min_norm_general : forall m n (A : @Mx R) (bcol x y z : nat -> R),
  (forall t, (t < n)%nat -> x t = rsum m (fun i => A i t * z i)) ->
  (forall c, (c < n)%nat -> rsum m (fun i => A i c * (rsum n (fun t => A i t * x t) - bcol i)) = 0) ->
  (forall c, (c < n)%nat -> rsum m (fun i => A i c * (rsum n (fun t => A i t * y t) - bcol i)) = 0) ->
  rsum n (fun t => x t * x t) <= rsum n (fun t => y t * y t).
Proof.
  intros m n A bcol x y z Hx Nx Ny.
  set (d := fun t => y t - x t).
  set (Ad := fun i => rsum n (fun t => A i t * d t)).
  assert (HAd : forall i, Ad i = rsum n (fun t => A i t * y t) - rsum n (fun t => A i t * x t)).
  { intros i. unfold Ad, d. rewrite <- rsum_minus. apply rsum_ext. intros; ring. }
  assert (H1 : forall c, (c < n)%nat -> rsum m (fun i => A i c * Ad i) = 0).
  { intros c Hc. specialize (Nx c Hc). specialize (Ny c Hc).
    rewrite (rsum_ext m _ (fun i => A i c * (rsum n (fun t => A i t * y t) - bcol i)
                                   - A i c * (rsum n (fun t => A i t * x t) - bcol i))).
    2:{ intros i _. rewrite HAd. ring. }
    rewrite rsum_minus, Nx, Ny. ring. }
  assert (H2 : rsum m (fun i => Ad i * Ad i) = 0).
  { rewrite (rsum_ext m _ (fun i => rsum n (fun c => d c * A i c) * Ad i)).
    2:{ intros i _. f_equal. unfold Ad. apply rsum_ext. intros; ring. }
    rewrite rsum_mul_swap. apply rsum_zero. intros c Hc. rewrite (H1 c Hc). ring. }
  assert (H3 : forall i, (i < m)%nat -> Ad i = 0) by (apply rsum_sq_zero; exact H2).
  assert (H4 : rsum n (fun t => x t * d t) = 0).
  { rewrite (rsum_ext n _ (fun t => rsum m (fun i => z i * A i t) * d t)).
    2:{ intros t Ht. rewrite (Hx t Ht). f_equal. apply rsum_ext. intros; ring. }
    rewrite rsum_mul_swap. apply rsum_zero. intros i Hi. fold (Ad i). rewrite (H3 i Hi). ring. }
  rewrite (rsum_ext n (fun t => y t * y t) (fun t => (x t * x t + 2 * (x t * d t)) + d t * d t)).
  2:{ intros t _. unfold d. ring. }
  rewrite !rsum_plus, rsum_scal, H4.
  assert (0 <= rsum n (fun t => d t * d t)) by (apply rsum_nonneg; intros; nra).
  lra.
Qed.

(* A2 + A3 + A4: the computed column is no longer than any other least-squares solution *)
Theorem svd_solve_min_norm : forall eps m n p U s V b,
  orthocols m n U -> orthocols n n V -> orthorows n V ->
  (forall j, (j < n)%nat -> svd_tol ROps eps m n s < s j \/ s j = 0) ->
  let A := svd_A n U s V in let X := svd_solve ROps eps m n p U s V b in
  forall k (y : nat -> R), (k < p)%nat ->
    (forall c, (c < n)%nat -> rsum m (fun i => A i c * (rsum n (fun t => A i t * y t) - b i k)) = 0) ->
    rsum n (fun t => X t k * X t k) <= rsum n (fun t => y t * y t).
Proof.
  intros eps m n p U s V b HU HV HVr Hs A X k y Hk Hy.
  destruct (svd_solve_in_rowspace eps m n p U s V b HU HV HVr Hs k Hk) as [z Hz].
  apply (min_norm_general m n A (fun i => b i k) (fun t => X t k) y z).
  - exact Hz.
  - intros c Hc. apply (svd_solve_lsq eps m n p U s V b HU HV HVr Hs c k Hc Hk).
  - exact Hy.
Qed.

(* ====================================================================== *)
(* PART B — the tail of svd_mut: shell sort + sign normalisation           *)
(* ====================================================================== *)

(* st' is st with columns jointly permuted by sigma and multiplied by signs e j in {1,-1} *)
Definition col_rel (m n : nat) (st st' : @svd_st R) (sigma : nat -> nat) (e : nat -> R) : Prop :=
  (forall j, (j < n)%nat -> (sigma j < n)%nat) /\
  (forall a b, (a < n)%nat -> (b < n)%nat -> sigma a = sigma b -> a = b) /\
  (forall j, (j < n)%nat -> e j = 1 \/ e j = -1) /\
  (forall j, (j < n)%nat -> sw st' j = sw st (sigma j)) /\
  (forall i j, (i < m)%nat -> (j < n)%nat -> sU st' i j = e j * sU st i (sigma j)) /\
  (forall i j, (i < n)%nat -> (j < n)%nat -> sV st' i j = e j * sV st i (sigma j)).

Lemma col_rel_refl m n st : col_rel m n st st (fun j => j) (fun _ => 1).
Proof.
  unfold col_rel. repeat split; intros; try tauto; try lra; try assumption.
Qed.

Lemma col_rel_trans m n st st1 st2 sg e sg' e' :
  col_rel m n st st1 sg e -> col_rel m n st1 st2 sg' e' ->
  col_rel m n st st2 (fun j => sg (sg' j)) (fun j => e' j * e (sg' j)).
Proof.
  intros (R1 & I1 & E1 & W1 & U1 & V1) (R2 & I2 & E2 & W2 & U2 & V2).
  unfold col_rel. repeat split.
  - intros j Hj. apply R1, R2, Hj.
  - intros a b Ha Hb H. apply I2; try assumption. apply I1; try assumption; apply R2; assumption.
  - intros j Hj. destruct (E2 j Hj) as [->| ->], (E1 (sg' j) (R2 j Hj)) as [->| ->]; lra.
  - intros j Hj. rewrite W2, W1; auto.
  - intros i j Hi Hj. rewrite U2, U1; auto. ring.
  - intros i j Hi Hj. rewrite V2, V1; auto. ring.
Qed.

Lemma col_rel_ext m n st st' sg e sg' e' :
  (forall j, (j < n)%nat -> sg j = sg' j) -> (forall j, (j < n)%nat -> e j = e' j) ->
  col_rel m n st st' sg e -> col_rel m n st st' sg' e'.
Proof.
  intros Hs He (R1 & I1 & E1 & W1 & U1 & V1).
  unfold col_rel. repeat split.
  - intros j Hj. rewrite <- Hs by assumption. auto.
  - intros a b Ha Hb H. rewrite <- !Hs in H by assumption. auto.
  - intros j Hj. rewrite <- He by assumption. auto.
  - intros j Hj. rewrite <- Hs by assumption. auto.
  - intros i j Hi Hj. rewrite <- Hs, <- He by assumption. auto.
  - intros i j Hi Hj. rewrite <- Hs, <- He by assumption. auto.
Qed.

(* pure permutations compose *)
Lemma col_perm_trans m n st st1 st2 sg sg' :
  col_rel m n st st1 sg (fun _ => 1) -> col_rel m n st1 st2 sg' (fun _ => 1) ->
  col_rel m n st st2 (fun j => sg (sg' j)) (fun _ => 1).
Proof.
  intros H1 H2. eapply col_rel_ext; [| |exact (col_rel_trans _ _ _ _ _ _ _ _ _ H1 H2)].
  - reflexivity.
  - intros; cbv beta; lra.
Qed.

(* ---------- sign normalisation ---------- *)
Lemma neg_col_spec rows k (A : @Mx R) i j :
  neg_col ROps rows k A i j = if ((i <? rows)%nat && Nat.eqb j k)%bool then - A i j else A i j.
Proof.
  unfold neg_col. revert i j. induction rows as [|r IH]; intros i j; [reflexivity|].
  cbn [for_up]. rewrite Nat.add_0_l. rewrite upd_eq. cbn [oneg ROps].
  destruct (Nat.eqb_spec r i) as [->|Hne]; cbn [andb].
  - rewrite (proj2 (Nat.ltb_lt _ _)) by lia. cbn [andb].
    destruct (Nat.eqb_spec k j) as [->|Hk].
    + rewrite Nat.eqb_refl. rewrite IH. rewrite Nat.ltb_irrefl. reflexivity.
    + rewrite IH. rewrite Nat.ltb_irrefl. destruct (Nat.eqb_spec j k); [congruence|reflexivity].
  - rewrite IH. destruct (Nat.ltb_spec i r), (Nat.ltb_spec i (S r)); try lia; reflexivity.
Qed.

Lemma neg_cols_rel m n k (st : @svd_st R) :
  col_rel m n st (mkSVD (neg_col ROps m k (sU st)) (neg_col ROps n k (sV st)) (sw st) (srv1 st))
          (fun j => j) (fun j => if Nat.eqb j k then -1 else 1).
Proof.
  unfold col_rel. cbn [sU sV sw]. repeat split; try (intros; tauto).
  - intros j _. destruct (Nat.eqb j k); lra.
  - intros i j Hi Hj. rewrite neg_col_spec. rewrite (proj2 (Nat.ltb_lt _ _) Hi). cbn [andb].
    destruct (Nat.eqb j k); ring.
  - intros i j Hi Hj. rewrite neg_col_spec. rewrite (proj2 (Nat.ltb_lt _ _) Hi). cbn [andb].
    destruct (Nat.eqb j k); ring.
Qed.

(* (B1) *)
Theorem svd_signs_rel : forall m n st, exists e, col_rel m n st (svd_signs ROps m n st) (fun j => j) e.
Proof.
  intros m n st. unfold svd_signs.
  apply (for_up_inv (fun (_ : nat) st1 => exists e, col_rel m n st st1 (fun j => j) e)).
  - exists (fun _ => 1). apply col_rel_refl.
  - intros c st1 _ [e He].
    destruct (m + n <? 2 * _)%nat.
    + eexists. exact (col_rel_trans _ _ _ _ _ _ _ _ _ He (neg_cols_rel m n (0 + c) st1)).
    + exists e. exact He.
Qed.
