(* C01 — SVD: the pseudo-inverse solve (SVD::solve) and the tail of svd_mut (shell sort of the
   singular values with joint column moves, sign normalisation), exact-arithmetic instance. *)
From Coq Require Import List Arith Bool ZArith Reals Lra Lia Permutation.
From SC Require Import Base.Num C01.Model C01.Proofs.
Import ListNotations.
Open Scope R_scope.

(* ====================================================================== *)
(* PART A — svd_solve                                                      *)
(* ====================================================================== *)

(* A = U diag(s) V^T *)
Definition svd_A (n : nat) (U : @Mx R) (s : nat -> R) (V : @Mx R) : @Mx R :=
  fun i k => rsum n (fun j => U i j * s j * V k j).
Definition orthocols (rows n : nat) (M : @Mx R) : Prop :=
  forall a b, (a < n)%nat -> (b < n)%nat ->
    rsum rows (fun i => M i a * M i b) = (if Nat.eqb a b then 1 else 0).
Definition orthorows (n : nat) (M : @Mx R) : Prop :=
  forall a b, (a < n)%nat -> (b < n)%nat ->
    rsum n (fun j => M a j * M b j) = (if Nat.eqb a b then 1 else 0).

(* the vector tmp of SVD::solve for column k of b *)
Definition svd_tmp (eps : R) (m n : nat) (U : @Mx R) (s : nat -> R) (b : @Mx R) (k jj : nat) : R :=
  if Rlt_dec (svd_tol ROps eps m n s) (s jj) then rsum m (fun i => U i jj * b i k) / s jj else 0.
(* the closed form of an entry of X *)
Definition svd_X (eps : R) (m n : nat) (U : @Mx R) (s : nat -> R) (V b : @Mx R) (j k : nat) : R :=
  rsum n (fun jj => V j jj * svd_tmp eps m n U s b k jj).

(* ---------- small loops ---------- *)
Lemma fill_vec_spec {X : Type} n (r : nat -> X) (t0 : nat -> X) jj :
  for_up n 0 (fun j t => updv t j (r j)) t0 jj = if (jj <? n)%nat then r jj else t0 jj.
Proof.
  induction n as [|n IH]; [reflexivity|].
  cbn [for_up]. rewrite Nat.add_0_l. unfold updv at 1.
  destruct (Nat.eqb_spec n jj) as [->|Hne].
  - rewrite (proj2 (Nat.ltb_lt _ _)) by lia. reflexivity.
  - rewrite IH. destruct (Nat.ltb_spec jj n), (Nat.ltb_spec jj (S n)); try lia; reflexivity.
Qed.

Lemma fill_col_spec {X : Type} n k (g : nat -> X) (b1 : @Mx X) i k' :
  for_up n 0 (fun j b2 => upd b2 j k (g j)) b1 i k'
  = if ((i <? n)%nat && Nat.eqb k' k)%bool then g i else b1 i k'.
Proof.
  induction n as [|n IH]; [reflexivity|].
  cbn [for_up]. rewrite Nat.add_0_l. rewrite upd_eq.
  destruct (Nat.eqb_spec n i) as [->|Hne]; cbn [andb].
  - rewrite (proj2 (Nat.ltb_lt _ _)) by lia. cbn [andb].
    destruct (Nat.eqb_spec k k') as [->|Hk].
    + rewrite Nat.eqb_refl. reflexivity.
    + rewrite IH. destruct (Nat.eqb_spec k' k); [congruence|]. rewrite andb_false_r. reflexivity.
  - rewrite IH. destruct (Nat.ltb_spec i n), (Nat.ltb_spec i (S n)); try lia; reflexivity.
Qed.

(* one column of the solve *)
Definition svd_solve_col (eps : R) (m n : nat) (U : @Mx R) (s : nat -> R) (V : @Mx R) (k : nat) (b1 : @Mx R) : @Mx R :=
  let tol := svd_tol ROps eps m n s in
  let tmp : nat -> R := for_up n 0 (fun j tmp =>
      let r := if gtb ROps (s j) tol
               then odiv ROps (osumn ROps m (fun i => omul ROps (U i j) (b1 i k))) (s j)
               else o0 ROps in
      updv tmp j r) (@zerov R ROps) in
  for_up n 0 (fun j b2 => upd b2 j k (osumn ROps n (fun jj => omul ROps (V j jj) (tmp jj)))) b1.

Lemma svd_solve_unfold eps m n p U s V b :
  svd_solve ROps eps m n p U s V b = for_up p 0 (svd_solve_col eps m n U s V) b.
Proof. reflexivity. Qed.

Lemma svd_solve_col_spec eps m n U s V k b1 i k' :
  svd_solve_col eps m n U s V k b1 i k'
  = if ((i <? n)%nat && Nat.eqb k' k)%bool then svd_X eps m n U s V b1 i k else b1 i k'.
Proof.
  unfold svd_solve_col. cbv zeta. rewrite fill_col_spec.
  destruct ((i <? n)%nat && Nat.eqb k' k)%bool; [|reflexivity].
  unfold svd_X. apply rsum_ext. intros jj Hjj.
  cbn [omul ROps]. f_equal.
  rewrite (fill_vec_spec n (fun j => if gtb ROps (s j) (svd_tol ROps eps m n s)
      then odiv ROps (osumn ROps m (fun i0 => omul ROps (U i0 j) (b1 i0 k))) (s j) else o0 ROps)).
  rewrite (proj2 (Nat.ltb_lt _ _)) by lia.
  unfold svd_tmp, gtb. cbn [oltb odiv omul o0 ROps]. unfold Rltb.
  destruct (Rlt_dec (svd_tol ROps eps m n s) (s jj)); reflexivity.
Qed.

Lemma svd_X_ext eps m n U s V b b' j k :
  (forall i, (i < m)%nat -> b i k = b' i k) -> svd_X eps m n U s V b j k = svd_X eps m n U s V b' j k.
Proof.
  intros H. unfold svd_X. apply rsum_ext. intros jj _. f_equal. unfold svd_tmp.
  destruct (Rlt_dec _ _); [|reflexivity]. f_equal. apply rsum_ext. intros i Hi. rewrite H by lia. reflexivity.
Qed.

(* (A1) closed form of every entry of the result *)
Theorem svd_solve_spec eps m n p U s V b j k :
  svd_solve ROps eps m n p U s V b j k
  = if ((j <? n)%nat && (k <? p)%nat)%bool
    then rsum n (fun jj => V j jj *
           (if Rlt_dec (svd_tol ROps eps m n s) (s jj) then rsum m (fun i => U i jj * b i k) / s jj else 0))
    else b j k.
Proof.
  rewrite svd_solve_unfold. revert j k.
  induction p as [|c IH]; intros j k.
  - cbn [for_up]. rewrite andb_false_r. reflexivity.
  - cbn [for_up]. rewrite Nat.add_0_l. rewrite svd_solve_col_spec.
    destruct (Nat.ltb_spec j n) as [Hj|Hj]; cbn [andb].
    + destruct (Nat.eqb_spec k c) as [->|Hk].
      * rewrite (proj2 (Nat.ltb_lt _ _)) by lia.
        rewrite (svd_X_ext _ _ _ _ _ _ _ b).
        { reflexivity. }
        intros i _. rewrite IH. rewrite Nat.ltb_irrefl. rewrite andb_false_r. reflexivity.
      * rewrite IH. rewrite (proj2 (Nat.ltb_lt _ _) Hj). cbn [andb].
        destruct (Nat.ltb_spec k c), (Nat.ltb_spec k (S c)); try lia; reflexivity.
    + rewrite IH. rewrite (proj2 (Nat.ltb_ge _ _) Hj). reflexivity.
Qed.

Corollary svd_solve_X eps m n p U s V b j k :
  (j < n)%nat -> (k < p)%nat -> svd_solve ROps eps m n p U s V b j k = svd_X eps m n U s V b j k.
Proof.
  intros Hj Hk. rewrite svd_solve_spec.
  rewrite (proj2 (Nat.ltb_lt _ _) Hj), (proj2 (Nat.ltb_lt _ _) Hk). reflexivity.
Qed.
Corollary svd_solve_untouched_cols eps m n p U s V b j k :
  (p <= k)%nat -> svd_solve ROps eps m n p U s V b j k = b j k.
Proof.
  intros Hk. rewrite svd_solve_spec. rewrite (proj2 (Nat.ltb_ge _ _) Hk), andb_false_r. reflexivity.
Qed.
Corollary svd_solve_untouched_rows eps m n p U s V b j k :
  (n <= j)%nat -> svd_solve ROps eps m n p U s V b j k = b j k.
Proof.
  intros Hj. rewrite svd_solve_spec. rewrite (proj2 (Nat.ltb_ge _ _) Hj). reflexivity.
Qed.

(* ---------- algebra of finite sums ---------- *)
Lemma rsum_delta n a (f : nat -> R) :
  (a < n)%nat -> rsum n (fun j => (if Nat.eqb a j then 1 else 0) * f j) = f a.
Proof.
  intros Ha. rewrite (rsum_single n a).
  - rewrite Nat.eqb_refl. lra.
  - exact Ha.
  - intros i _ Hi. destruct (Nat.eqb_spec a i); [congruence|lra].
Qed.

(* sum_t (sum_j g j * h t j) * w t = sum_j g j * (sum_t h t j * w t) *)
Lemma rsum_mul_swap a b (g : nat -> R) (h : nat -> nat -> R) (w : nat -> R) :
  rsum a (fun t => rsum b (fun j => g j * h t j) * w t)
  = rsum b (fun j => g j * rsum a (fun t => h t j * w t)).
Proof.
  rewrite (rsum_ext a _ (fun t => rsum b (fun j => g j * (h t j * w t)))).
  2:{ intros t _. rewrite <- rsum_scal_r. apply rsum_ext. intros; ring. }
  rewrite rsum_swap. apply rsum_ext. intros j _. apply rsum_scal.
Qed.

(* M^T (M f) = f for orthonormal columns *)
Lemma gram_contract rows n (M : @Mx R) (f : nat -> R) j :
  orthocols rows n M -> (j < n)%nat ->
  rsum rows (fun t => M t j * rsum n (fun jj => M t jj * f jj)) = f j.
Proof.
  intros HM Hj.
  rewrite (rsum_ext rows _ (fun t => rsum n (fun jj => M t j * M t jj * f jj))).
  2:{ intros t _. rewrite <- rsum_scal. apply rsum_ext. intros; ring. }
  rewrite rsum_swap.
  rewrite (rsum_ext n _ (fun jj => (if Nat.eqb j jj then 1 else 0) * f jj)).
  2:{ intros jj Hjj. rewrite rsum_scal_r. rewrite HM by assumption. reflexivity. }
  apply rsum_delta. exact Hj.
Qed.

Lemma svd_A_alt n U s V i c :
  svd_A n U s V i c = rsum n (fun j => (s j * V c j) * U i j).
Proof. unfold svd_A. apply rsum_ext. intros; ring. Qed.

(* A X = U diag(s) tmp *)
Lemma svd_AX eps m n U s V b i k :
  orthocols n n V ->
  rsum n (fun t => svd_A n U s V i t * svd_X eps m n U s V b t k)
  = rsum n (fun j => U i j * (s j * svd_tmp eps m n U s b k j)).
Proof.
  intros HV.
  rewrite (rsum_ext n _ (fun t => rsum n (fun j => (U i j * s j) * V t j) * svd_X eps m n U s V b t k)).
  2:{ intros t _. reflexivity. }
  rewrite rsum_mul_swap. apply rsum_ext. intros j Hj.
  unfold svd_X. rewrite (gram_contract n n V _ j HV Hj). ring.
Qed.

(* (A2) the normal equations A^T (A X - b) = 0 *)
Theorem svd_solve_lsq : forall eps m n p U s V b,
  orthocols m n U -> orthocols n n V -> orthorows n V ->
  (forall j, (j < n)%nat -> svd_tol ROps eps m n s < s j \/ s j = 0) ->
  let A := svd_A n U s V in let X := svd_solve ROps eps m n p U s V b in
  forall c k, (c < n)%nat -> (k < p)%nat ->
    rsum m (fun i => A i c * (rsum n (fun t => A i t * X t k) - b i k)) = 0.
Proof.
  intros eps m n p U s V b HU HV _ Hs A X c k Hc Hk. subst A X.
  rewrite (rsum_ext m _ (fun i => rsum n (fun j => (s j * V c j) * U i j) *
             (rsum n (fun j => U i j * (s j * svd_tmp eps m n U s b k j)) - b i k))).
  2:{ intros i _. rewrite svd_A_alt. f_equal. f_equal. rewrite <- (svd_AX eps m n U s V b i k HV).
      apply rsum_ext. intros t Ht. rewrite svd_solve_X by assumption. reflexivity. }
  rewrite rsum_mul_swap. apply rsum_zero. intros j Hj.
  rewrite (rsum_ext m _ (fun t => U t j * rsum n (fun j0 => U t j0 * (s j0 * svd_tmp eps m n U s b k j0))
                                 - U t j * b t k)) by (intros; ring).
  rewrite rsum_minus. rewrite (gram_contract m n U _ j HU Hj).
  unfold svd_tmp. destruct (Hs j Hj) as [Hlt|Hz].
  - destruct (Rlt_dec _ _) as [_|Hn]; [|contradiction].
    destruct (Req_EM_T (s j) 0) as [Hz|Hnz]; [rewrite Hz; ring|]. field. exact Hnz.
  - rewrite Hz. ring.
Qed.

(* (A3) the columns of X lie in the range of A^T *)
Theorem svd_solve_in_rowspace : forall eps m n p U s V b,
  orthocols m n U -> orthocols n n V -> orthorows n V ->
  (forall j, (j < n)%nat -> svd_tol ROps eps m n s < s j \/ s j = 0) ->
  let A := svd_A n U s V in let X := svd_solve ROps eps m n p U s V b in
  forall k, (k < p)%nat -> exists z : nat -> R,
    forall t, (t < n)%nat -> X t k = rsum m (fun i => A i t * z i).
Proof.
  intros eps m n p U s V b HU _ _ _ A X k Hk. subst A X.
  set (cf := fun j => if Req_EM_T (s j) 0 then 0 else svd_tmp eps m n U s b k j / s j).
  exists (fun i => rsum n (fun j => U i j * cf j)).
  intros t Ht. rewrite svd_solve_X by assumption.
  rewrite (rsum_ext m _ (fun i => rsum n (fun j => (s j * V t j) * U i j) * rsum n (fun j => U i j * cf j))).
  2:{ intros i _. rewrite svd_A_alt. reflexivity. }
  rewrite rsum_mul_swap. unfold svd_X. apply rsum_ext. intros j Hj.
  rewrite (gram_contract m n U _ j HU Hj). unfold cf.
  destruct (Req_EM_T (s j) 0) as [Hz|Hnz].
  - unfold svd_tmp. destruct (Rlt_dec _ _); [|ring]. rewrite Hz. unfold Rdiv. rewrite Rinv_0. ring.
  - field. exact Hnz.
Qed.

Lemma rsum_sq_zero n (f : nat -> R) :
  rsum n (fun i => f i * f i) = 0 -> forall i, (i < n)%nat -> f i = 0.
Proof.
  induction n as [|n IH]; intros H i Hi; [lia|].
  rewrite rsum_S in H.
  assert (H0 : 0 <= rsum n (fun i => f i * f i)) by (apply rsum_nonneg; intros; nra).
  assert (Hn : f n * f n = 0) by nra.
  assert (Hr : rsum n (fun i => f i * f i) = 0) by nra.
  destruct (Nat.eq_dec i n) as [->|Hne]; [nra|]. apply IH; [exact Hr|lia].
Qed.

(* (A4) among the solutions of the normal equations, one in the range of A^T has the least norm *)
Theorem min_norm_general : forall m n (A : @Mx R) (bcol x y z : nat -> R),
  (forall t, (t < n)%nat -> x t = rsum m (fun i => A i t * z i)) ->
  (forall c, (c < n)%nat -> rsum m (fun i => A i c * (rsum n (fun t => A i t * x t) - bcol i)) = 0) ->
  (forall c, (c < n)%nat -> rsum m (fun i => A i c * (rsum n (fun t => A i t * y t) - bcol i)) = 0) ->
  rsum n (fun t => x t * x t) <= rsum n (fun t => y t * y t).
Proof.
  intros m n A bcol x y z Hx Nx Ny.
  set (d := fun t => y t - x t).
  set (Ad := fun i => rsum n (fun t => A i t * d t)).
  assert (HAd : forall i, Ad i = rsum n (fun t => A i t * y t) - rsum n (fun t => A i t * x t)).
  { intros i. unfold Ad, d. rewrite <- rsum_minus. apply rsum_ext. intros; ring. }
  assert (H1 : forall c, (c < n)%nat -> rsum m (fun i => A i c * Ad i) = 0).
  { intros c Hc. specialize (Nx c Hc). specialize (Ny c Hc).
    rewrite (rsum_ext m _ (fun i => A i c * (rsum n (fun t => A i t * y t) - bcol i)
                                   - A i c * (rsum n (fun t => A i t * x t) - bcol i))).
    2:{ intros i _. rewrite HAd. ring. }
    rewrite rsum_minus, Nx, Ny. ring. }
  assert (H2 : rsum m (fun i => Ad i * Ad i) = 0).
  { rewrite (rsum_ext m _ (fun i => rsum n (fun c => d c * A i c) * Ad i)).
    2:{ intros i _. f_equal. unfold Ad. apply rsum_ext. intros; ring. }
    rewrite rsum_mul_swap. apply rsum_zero. intros c Hc. rewrite (H1 c Hc). ring. }
  assert (H3 : forall i, (i < m)%nat -> Ad i = 0) by (apply rsum_sq_zero; exact H2).
  assert (H4 : rsum n (fun t => x t * d t) = 0).
  { rewrite (rsum_ext n _ (fun t => rsum m (fun i => z i * A i t) * d t)).
    2:{ intros t Ht. rewrite (Hx t Ht). f_equal. apply rsum_ext. intros; ring. }
    rewrite rsum_mul_swap. apply rsum_zero. intros i Hi. fold (Ad i). rewrite (H3 i Hi). ring. }
  rewrite (rsum_ext n (fun t => y t * y t) (fun t => (x t * x t + 2 * (x t * d t)) + d t * d t)).
  2:{ intros t _. unfold d. ring. }
  rewrite !rsum_plus, rsum_scal, H4.
  assert (0 <= rsum n (fun t => d t * d t)) by (apply rsum_nonneg; intros; nra).
  lra.
Qed.

(* A2 + A3 + A4: the computed column is no longer than any other least-squares solution *)
Theorem svd_solve_min_norm : forall eps m n p U s V b,
  orthocols m n U -> orthocols n n V -> orthorows n V ->
  (forall j, (j < n)%nat -> svd_tol ROps eps m n s < s j \/ s j = 0) ->
  let A := svd_A n U s V in let X := svd_solve ROps eps m n p U s V b in
  forall k (y : nat -> R), (k < p)%nat ->
    (forall c, (c < n)%nat -> rsum m (fun i => A i c * (rsum n (fun t => A i t * y t) - b i k)) = 0) ->
    rsum n (fun t => X t k * X t k) <= rsum n (fun t => y t * y t).
Proof.
  intros eps m n p U s V b HU HV HVr Hs A X k y Hk Hy.
  destruct (svd_solve_in_rowspace eps m n p U s V b HU HV HVr Hs k Hk) as [z Hz].
  apply (min_norm_general m n A (fun i => b i k) (fun t => X t k) y z).
  - exact Hz.
  - intros c Hc. apply (svd_solve_lsq eps m n p U s V b HU HV HVr Hs c k Hc Hk).
  - exact Hy.
Qed.

(* ====================================================================== *)
(* PART B — the tail of svd_mut: shell sort + sign normalisation           *)
(* ====================================================================== *)

(* st' is st with columns jointly permuted by sigma and multiplied by signs e j in {1,-1} *)
Definition col_rel (m n : nat) (st st' : @svd_st R) (sigma : nat -> nat) (e : nat -> R) : Prop :=
  (forall j, (j < n)%nat -> (sigma j < n)%nat) /\
  (forall a b, (a < n)%nat -> (b < n)%nat -> sigma a = sigma b -> a = b) /\
  (forall j, (j < n)%nat -> e j = 1 \/ e j = -1) /\
  (forall j, (j < n)%nat -> sw st' j = sw st (sigma j)) /\
  (forall i j, (i < m)%nat -> (j < n)%nat -> sU st' i j = e j * sU st i (sigma j)) /\
  (forall i j, (i < n)%nat -> (j < n)%nat -> sV st' i j = e j * sV st i (sigma j)).

Lemma col_rel_refl m n st : col_rel m n st st (fun j => j) (fun _ => 1).
Proof.
  unfold col_rel. repeat split; intros; try tauto; try lra; try assumption.
Qed.

Lemma col_rel_trans m n st st1 st2 sg e sg' e' :
  col_rel m n st st1 sg e -> col_rel m n st1 st2 sg' e' ->
  col_rel m n st st2 (fun j => sg (sg' j)) (fun j => e' j * e (sg' j)).
Proof.
  intros (R1 & I1 & E1 & W1 & U1 & V1) (R2 & I2 & E2 & W2 & U2 & V2).
  unfold col_rel. repeat split.
  - intros j Hj. apply R1, R2, Hj.
  - intros a b Ha Hb H. apply I2; try assumption. apply I1; try assumption; apply R2; assumption.
  - intros j Hj. destruct (E2 j Hj) as [->| ->], (E1 (sg' j) (R2 j Hj)) as [->| ->]; lra.
  - intros j Hj. rewrite W2, W1; auto.
  - intros i j Hi Hj. rewrite U2, U1; auto. ring.
  - intros i j Hi Hj. rewrite V2, V1; auto. ring.
Qed.

Lemma col_rel_ext m n st st' sg e sg' e' :
  (forall j, (j < n)%nat -> sg j = sg' j) -> (forall j, (j < n)%nat -> e j = e' j) ->
  col_rel m n st st' sg e -> col_rel m n st st' sg' e'.
Proof.
  intros Hs He (R1 & I1 & E1 & W1 & U1 & V1).
  unfold col_rel. repeat split.
  - intros j Hj. rewrite <- Hs by assumption. auto.
  - intros a b Ha Hb H. rewrite <- !Hs in H by assumption. auto.
  - intros j Hj. rewrite <- He by assumption. auto.
  - intros j Hj. rewrite <- Hs by assumption. auto.
  - intros i j Hi Hj. rewrite <- Hs, <- He by assumption. auto.
  - intros i j Hi Hj. rewrite <- Hs, <- He by assumption. auto.
Qed.

(* pure permutations compose *)
Lemma col_perm_trans m n st st1 st2 sg sg' :
  col_rel m n st st1 sg (fun _ => 1) -> col_rel m n st1 st2 sg' (fun _ => 1) ->
  col_rel m n st st2 (fun j => sg (sg' j)) (fun _ => 1).
Proof.
  intros H1 H2. eapply col_rel_ext; [| |exact (col_rel_trans _ _ _ _ _ _ _ _ _ H1 H2)].
  - reflexivity.
  - intros; cbv beta; lra.
Qed.

(* ---------- sign normalisation ---------- *)
Lemma neg_col_spec rows k (A : @Mx R) i j :
  neg_col ROps rows k A i j = if ((i <? rows)%nat && Nat.eqb j k)%bool then - A i j else A i j.
Proof.
  unfold neg_col. revert i j. induction rows as [|r IH]; intros i j; [reflexivity|].
  cbn [for_up]. rewrite Nat.add_0_l. rewrite upd_eq. cbn [oneg ROps].
  destruct (Nat.eqb_spec r i) as [->|Hne]; cbn [andb].
  - rewrite (proj2 (Nat.ltb_lt _ _)) by lia. cbn [andb].
    destruct (Nat.eqb_spec k j) as [->|Hk].
    + rewrite Nat.eqb_refl. rewrite IH. rewrite Nat.ltb_irrefl. reflexivity.
    + rewrite IH. rewrite Nat.ltb_irrefl. destruct (Nat.eqb_spec j k); [congruence|reflexivity].
  - rewrite IH. destruct (Nat.ltb_spec i r), (Nat.ltb_spec i (S r)); try lia; reflexivity.
Qed.

Lemma neg_cols_rel m n k (st : @svd_st R) :
  col_rel m n st (mkSVD (neg_col ROps m k (sU st)) (neg_col ROps n k (sV st)) (sw st) (srv1 st))
          (fun j => j) (fun j => if Nat.eqb j k then -1 else 1).
Proof.
  unfold col_rel. cbn [sU sV sw]. repeat split; try (intros; tauto).
  - intros j _. destruct (Nat.eqb j k); lra.
  - intros i j Hi Hj. rewrite neg_col_spec. rewrite (proj2 (Nat.ltb_lt _ _) Hi). cbn [andb].
    destruct (Nat.eqb j k); ring.
  - intros i j Hi Hj. rewrite neg_col_spec. rewrite (proj2 (Nat.ltb_lt _ _) Hi). cbn [andb].
    destruct (Nat.eqb j k); ring.
Qed.

(* (B1) *)
Theorem svd_signs_rel : forall m n st, exists e, col_rel m n st (svd_signs ROps m n st) (fun j => j) e.
Proof.
  intros m n st. unfold svd_signs.
  apply (for_up_inv (fun (_ : nat) st1 => exists e, col_rel m n st st1 (fun j => j) e)).
  - exists (fun _ => 1). apply col_rel_refl.
  - intros c st1 _ [e He].
    destruct (m + n <? 2 * _)%nat.
    + eexists. exact (col_rel_trans _ _ _ _ _ _ _ _ _ He (neg_cols_rel m n (0 + c) st1)).
    + exists e. exact He.
Qed.

(* ---------- shell sort: every insertion is a joint permutation of the columns ---------- *)
Lemma copy_col_spec {X : Type} rows (A : @Mx X) dst (src : nat -> X) i j :
  copy_col rows A dst src i j = if ((i <? rows)%nat && Nat.eqb j dst)%bool then src i else A i j.
Proof. unfold copy_col. apply fill_col_spec. Qed.

(* column k of st is column (tau k) of st0 *)
Definition col_agree (m n : nat) (st0 st : @svd_st R) (tau : nat -> nat) (k : nat) : Prop :=
  sw st k = sw st0 (tau k) /\
  (forall r, (r < m)%nat -> sU st r k = sU st0 r (tau k)) /\
  (forall r, (r < n)%nat -> sV st r k = sV st0 r (tau k)).
Definition inj_on (n : nat) (tau : nat -> nat) : Prop :=
  (forall j, (j < n)%nat -> (tau j < n)%nat) /\
  (forall a b, (a < n)%nat -> (b < n)%nat -> tau a = tau b -> a = b).

Lemma shell_shift_S fuel m n inc swv j (st : @svd_st R) :
  shell_shift ROps (S fuel) m n inc swv j st =
  if Rltb (sw st (j - inc)%nat) swv then
    let st1 := mkSVD (copy_col m (sU st) j (fun k => sU st k (j - inc)%nat))
                     (copy_col n (sV st) j (fun k => sV st k (j - inc)%nat))
                     (updv (sw st) j (sw st (j - inc)%nat)) (srv1 st) in
    if (j - inc <? inc)%nat then ((j - inc)%nat, st1) else shell_shift ROps fuel m n inc swv (j - inc)%nat st1
  else (j, st).
Proof. reflexivity. Qed.

(* moving column j1 into the hole j: the hole moves to j1 *)
Lemma shift_step_agree m n i (st0 st : @svd_st R) tau j j1 :
  (i < n)%nat -> (j <= i)%nat -> (j1 <= j)%nat ->
  inj_on n tau -> tau j = i ->
  (forall k, (k < n)%nat -> k <> j -> col_agree m n st0 st tau k) ->
  let st1 := mkSVD (copy_col m (sU st) j (fun k => sU st k j1))
                   (copy_col n (sV st) j (fun k => sV st k j1))
                   (updv (sw st) j (sw st j1)) (srv1 st) in
  let tau1 := fun k => if Nat.eqb k j1 then i else if Nat.eqb k j then tau j1 else tau k in
  inj_on n tau1 /\ tau1 j1 = i /\
  (forall k, (k < n)%nat -> k <> j1 -> col_agree m n st0 st1 tau1 k).
Proof.
  intros Hi Hj Hj1 [Hr Hinj] Htj Hag st1 tau1.
  assert (Hj1n : (j1 < n)%nat) by lia. assert (Hjn : (j < n)%nat) by lia.
  split; [split|split].
  - intros k Hk. unfold tau1. destruct (Nat.eqb k j1); [exact Hi|]. destruct (Nat.eqb k j); auto.
  - intros a b Ha Hb. unfold tau1.
    destruct (Nat.eqb_spec a j1) as [->|Ha1]; destruct (Nat.eqb_spec b j1) as [->|Hb1]; try (intros; reflexivity).
    + destruct (Nat.eqb_spec b j) as [->|Hb2]; intros H; rewrite <- Htj in H; apply Hinj in H; try assumption; congruence.
    + destruct (Nat.eqb_spec a j) as [->|Ha2]; intros H; rewrite <- Htj in H; apply Hinj in H; try assumption; congruence.
    + destruct (Nat.eqb_spec a j) as [->|Ha2]; destruct (Nat.eqb_spec b j) as [->|Hb2]; intros H;
        try reflexivity; apply Hinj in H; try assumption; congruence.
  - unfold tau1. rewrite Nat.eqb_refl. reflexivity.
  - intros k Hk Hk1.
    assert (Ht : tau1 k = if Nat.eqb k j then tau j1 else tau k)
      by (unfold tau1; destruct (Nat.eqb_spec k j1); [contradiction|reflexivity]).
    unfold col_agree. rewrite Ht. clear Ht.
    destruct (Nat.eqb_spec k j) as [->|Hkj].
    + assert (Hne : j1 <> j) by congruence.
      destruct (Hag j1 Hj1n Hne) as (Hw & HU & HV).
      unfold col_agree, st1. cbn [sU sV sw]. split; [|split].
      * rewrite updv_same. exact Hw.
      * intros r Hrm. rewrite copy_col_spec, (proj2 (Nat.ltb_lt _ _) Hrm), Nat.eqb_refl. cbn [andb]. auto.
      * intros r Hrm. rewrite copy_col_spec, (proj2 (Nat.ltb_lt _ _) Hrm), Nat.eqb_refl. cbn [andb]. auto.
    + destruct (Hag k Hk Hkj) as (Hw & HU & HV).
      unfold col_agree, st1. cbn [sU sV sw]. split; [|split].
      * rewrite updv_other by congruence. exact Hw.
      * intros r Hrm. rewrite copy_col_spec. destruct (Nat.eqb_spec k j); [contradiction|].
        rewrite andb_false_r. auto.
      * intros r Hrm. rewrite copy_col_spec. destruct (Nat.eqb_spec k j); [contradiction|].
        rewrite andb_false_r. auto.
Qed.

Lemma shell_shift_agree m n inc swv i (st0 : @svd_st R) :
  (i < n)%nat ->
  forall fuel tau j st,
    (j <= i)%nat -> inj_on n tau -> tau j = i ->
    (forall k, (k < n)%nat -> k <> j -> col_agree m n st0 st tau k) ->
    exists tau', (fst (shell_shift ROps fuel m n inc swv j st) <= i)%nat /\ inj_on n tau' /\
      tau' (fst (shell_shift ROps fuel m n inc swv j st)) = i /\
      (forall k, (k < n)%nat -> k <> fst (shell_shift ROps fuel m n inc swv j st) ->
         col_agree m n st0 (snd (shell_shift ROps fuel m n inc swv j st)) tau' k).
Proof.
  intros Hi. induction fuel as [|f IH]; intros tau j st Hj Hinj Htj Hag.
  - cbn [shell_shift fst snd]. exists tau. auto.
  - rewrite shell_shift_S. destruct (Rltb _ _).
    2:{ cbn [fst snd]. exists tau. auto. }
    cbv zeta.
    destruct (shift_step_agree m n i st0 st tau j (j - inc) Hi Hj ltac:(lia) Hinj Htj Hag) as (Hinj1 & Ht1 & Hag1).
    destruct (j - inc <? inc)%nat.
    + cbn [fst snd]. eexists. split; [lia|]. split; [exact Hinj1|]. split; [exact Ht1|exact Hag1].
    + apply (IH _ (j - inc)%nat _ ltac:(lia) Hinj1 Ht1 Hag1).
Qed.

Lemma shell_insert_eq m n inc i (st : @svd_st R) :
  shell_insert ROps m n inc i st =
  let r := shell_shift ROps (S i) m n inc (sw st i) i st in
  mkSVD (copy_col m (sU (snd r)) (fst r) (fun k => sU st k i))
        (copy_col n (sV (snd r)) (fst r) (fun k => sV st k i))
        (updv (sw (snd r)) (fst r) (sw st i)) (srv1 (snd r)).
Proof. unfold shell_insert. cbv zeta. destruct (shell_shift _ _ _ _ _ _ _ _) as [j st1]. reflexivity. Qed.

Lemma shell_insert_rel m n inc i (st : @svd_st R) :
  (i < n)%nat -> exists sigma, col_rel m n st (shell_insert ROps m n inc i st) sigma (fun _ => 1).
Proof.
  intros Hi. rewrite shell_insert_eq. cbv zeta.
  destruct (shell_shift_agree m n inc (sw st i) i st Hi (S i) (fun k => k) i st (le_n _))
    as (tau & Hj & [Hr Hinj] & Htj & Hag).
  { split; auto. }
  { reflexivity. }
  { intros k _ _. unfold col_agree. auto. }
  set (r := shell_shift ROps (S i) m n inc (sw st i) i st) in *.
  exists tau. unfold col_rel. cbn [sU sV sw].
  split; [exact Hr|]. split; [exact Hinj|]. split; [intros; left; reflexivity|].
  split; [|split].
  - intros k Hk. destruct (Nat.eq_dec k (fst r)) as [->|Hne].
    + rewrite updv_same, Htj. reflexivity.
    + rewrite updv_other by congruence. apply (Hag k Hk Hne).
  - intros a k Ha Hk. rewrite copy_col_spec, (proj2 (Nat.ltb_lt _ _) Ha). cbn [andb].
    destruct (Nat.eqb_spec k (fst r)) as [->|Hne].
    + rewrite Htj. ring.
    + destruct (Hag k Hk Hne) as (_ & HU & _). rewrite HU by assumption. ring.
  - intros a k Ha Hk. rewrite copy_col_spec, (proj2 (Nat.ltb_lt _ _) Ha). cbn [andb].
    destruct (Nat.eqb_spec k (fst r)) as [->|Hne].
    + rewrite Htj. ring.
    + destruct (Hag k Hk Hne) as (_ & _ & HV). rewrite HV by assumption. ring.
Qed.

Lemma shell_pass_rel m n inc (st : @svd_st R) :
  exists sigma, col_rel m n st (for_up (n - inc) inc (shell_insert ROps m n inc) st) sigma (fun _ => 1).
Proof.
  apply (for_up_inv (fun (_ : nat) st1 => exists sigma, col_rel m n st st1 sigma (fun _ => 1))).
  - exists (fun j => j). apply col_rel_refl.
  - intros c st1 Hc [sg Hsg].
    destruct (shell_insert_rel m n inc (inc + c) st1 ltac:(lia)) as [sg' Hsg'].
    eexists. exact (col_perm_trans _ _ _ _ _ _ _ Hsg Hsg').
Qed.

Lemma shell_passes_S fuel m n inc (st : @svd_st R) :
  shell_passes ROps (S fuel) m n inc st =
  if (inc / 3 <=? 1)%nat then for_up (n - inc / 3) (inc / 3) (shell_insert ROps m n (inc / 3)) st
  else shell_passes ROps fuel m n (inc / 3) (for_up (n - inc / 3) (inc / 3) (shell_insert ROps m n (inc / 3)) st).
Proof. reflexivity. Qed.

Lemma shell_passes_rel m n fuel : forall inc (st : @svd_st R),
  exists sigma, col_rel m n st (shell_passes ROps fuel m n inc st) sigma (fun _ => 1).
Proof.
  induction fuel as [|f IH]; intros inc st.
  - cbn [shell_passes]. exists (fun j => j). apply col_rel_refl.
  - rewrite shell_passes_S.
    destruct (shell_pass_rel m n (inc / 3) st) as [sg Hsg].
    destruct (inc / 3 <=? 1)%nat; [exists sg; exact Hsg|].
    destruct (IH (inc / 3)%nat (for_up (n - inc / 3) (inc / 3) (shell_insert ROps m n (inc / 3)) st)) as [sg' Hsg'].
    eexists. exact (col_perm_trans _ _ _ _ _ _ _ Hsg Hsg').
Qed.

(* (B2) *)
Theorem svd_sort_rel : forall m n st, exists sigma, col_rel m n st (svd_sort ROps m n st) sigma (fun _ => 1).
Proof. intros m n st. unfold svd_sort. apply shell_passes_rel. Qed.

(* ---------- a finite sum is invariant under an injective self-map of [0,n) ---------- *)
Definition lsum (l : list R) : R := fold_right Rplus 0 l.
Lemma lsum_app l1 l2 : lsum (l1 ++ l2) = lsum l1 + lsum l2.
Proof. unfold lsum. induction l1 as [|a l1 IH]; cbn; lra. Qed.
Lemma lsum_perm l l' : Permutation l l' -> lsum l = lsum l'.
Proof. unfold lsum. induction 1; cbn; lra. Qed.
Lemma rsum_lsum n f : rsum n f = lsum (map f (seq 0 n)).
Proof.
  induction n as [|n IH]; [reflexivity|].
  rewrite rsum_S, seq_S, map_app, lsum_app, IH. cbn. lra.
Qed.
Lemma NoDup_map_inj_on {A B : Type} (g : A -> B) (l : list A) :
  NoDup l -> (forall a b, In a l -> In b l -> g a = g b -> a = b) -> NoDup (map g l).
Proof.
  induction 1 as [|x l Hx Hnd IH]; intros Hinj; cbn; constructor.
  - intros Hin. apply in_map_iff in Hin. destruct Hin as (y & Hy & Hyl).
    apply Hinj in Hy; [subst; contradiction|right; exact Hyl|left; reflexivity].
  - apply IH. intros a b Ha Hb. apply Hinj; right; assumption.
Qed.
Lemma perm_of_inj n sigma :
  (forall j, (j < n)%nat -> (sigma j < n)%nat) ->
  (forall a b, (a < n)%nat -> (b < n)%nat -> sigma a = sigma b -> a = b) ->
  Permutation (map sigma (seq 0 n)) (seq 0 n).
Proof.
  intros Hr Hinj. apply NoDup_Permutation_bis.
  - apply NoDup_map_inj_on; [apply seq_NoDup|].
    intros a b Ha Hb. apply in_seq in Ha, Hb. apply Hinj; lia.
  - rewrite map_length. apply le_n.
  - intros x Hx. apply in_map_iff in Hx. destruct Hx as (y & <- & Hy). apply in_seq in Hy.
    apply in_seq. specialize (Hr y ltac:(lia)). lia.
Qed.
Lemma rsum_perm : forall n sigma (f : nat -> R),
  (forall j, (j < n)%nat -> (sigma j < n)%nat) ->
  (forall a b, (a < n)%nat -> (b < n)%nat -> sigma a = sigma b -> a = b) ->
  rsum n (fun j => f (sigma j)) = rsum n f.
Proof.
  intros n sigma f Hr Hinj. rewrite !rsum_lsum.
  rewrite <- (map_map sigma f). apply lsum_perm. apply Permutation_map. apply perm_of_inj; assumption.
Qed.

(* ---------- consequences of col_rel ---------- *)
Lemma sign_sq (x : R) : x = 1 \/ x = -1 -> x * x = 1.
Proof. intros [->| ->]; lra. Qed.

(* U diag(w) V^T is unchanged *)
Lemma col_rel_product m n st st' sigma e :
  col_rel m n st st' sigma e ->
  forall i k, (i < m)%nat -> (k < n)%nat ->
    rsum n (fun j => sU st' i j * sw st' j * sV st' k j) = rsum n (fun j => sU st i j * sw st j * sV st k j).
Proof.
  intros (Hr & Hinj & He & Hw & HU & HV) i k Hi Hk.
  rewrite <- (rsum_perm n sigma (fun j => sU st i j * sw st j * sV st k j) Hr Hinj).
  apply rsum_ext. intros j Hj. rewrite Hw, HU, HV by assumption.
  transitivity ((e j * e j) * (sU st i (sigma j) * sw st (sigma j) * sV st k (sigma j))); [ring|].
  rewrite (sign_sq _ (He j Hj)). ring.
Qed.

Lemma orthocols_perm rows n (M M' : @Mx R) sigma e :
  (forall j, (j < n)%nat -> (sigma j < n)%nat) ->
  (forall a b, (a < n)%nat -> (b < n)%nat -> sigma a = sigma b -> a = b) ->
  (forall j, (j < n)%nat -> e j = 1 \/ e j = -1) ->
  (forall i j, (i < rows)%nat -> (j < n)%nat -> M' i j = e j * M i (sigma j)) ->
  orthocols rows n M -> orthocols rows n M'.
Proof.
  intros Hr Hinj He HM Ho a b Ha Hb.
  rewrite (rsum_ext rows _ (fun i => (e a * e b) * (M i (sigma a) * M i (sigma b)))).
  2:{ intros i Hi. rewrite !HM by assumption. ring. }
  rewrite rsum_scal. rewrite Ho by auto.
  destruct (Nat.eqb_spec a b) as [->|Hne].
  - rewrite Nat.eqb_refl. rewrite (sign_sq _ (He b Hb)). ring.
  - destruct (Nat.eqb_spec (sigma a) (sigma b)) as [Heq|_]; [|ring].
    apply Hinj in Heq; [contradiction|assumption|assumption].
Qed.

Lemma svd_post_rel m n st : exists sigma e, col_rel m n st (svd_post ROps m n st) sigma e.
Proof.
  unfold svd_post. destruct (svd_sort_rel m n st) as [sg Hsg].
  destruct (svd_signs_rel m n (svd_sort ROps m n st)) as [e He].
  eexists. eexists. exact (col_rel_trans _ _ _ _ _ _ _ _ _ Hsg He).
Qed.

(* B4 without the sortedness clause *)
Theorem svd_post_invariant_partial : forall m n st, let st' := svd_post ROps m n st in
  (exists sigma e, col_rel m n st st' sigma e) /\
  (forall i k, (i < m)%nat -> (k < n)%nat ->
     rsum n (fun j => sU st' i j * sw st' j * sV st' k j) = rsum n (fun j => sU st i j * sw st j * sV st k j)) /\
  ((forall j, (j < n)%nat -> 0 <= sw st j) -> forall j, (j < n)%nat -> 0 <= sw st' j) /\
  (orthocols m n (sU st) -> orthocols m n (sU st')) /\ (orthocols n n (sV st) -> orthocols n n (sV st')).
Proof.
  intros m n st st'. destruct (svd_post_rel m n st) as (sg & e & Hrel). fold st' in Hrel.
  split; [exists sg, e; exact Hrel|].
  split; [exact (col_rel_product _ _ _ _ _ _ Hrel)|].
  destruct Hrel as (Hr & Hinj & He & Hw & HU & HV).
  split; [|split].
  - intros Hpos j Hj. rewrite Hw by assumption. apply Hpos. auto.
  - apply (orthocols_perm m n _ _ sg e); assumption.
  - apply (orthocols_perm n n _ _ sg e); assumption.
Qed.

(* ---------- the pass with increment 1 is a straight insertion sort ---------- *)
(* state of the shifting loop for increment 1: w0 is the vector before the insertion of index i,
   j the current hole *)
Definition shift1_inv (w0 : nat -> R) (swv : R) (i j : nat) (st : @svd_st R) : Prop :=
  (j <= i)%nat /\
  (forall k, (k < j)%nat -> sw st k = w0 k) /\
  (forall k, (j < k <= i)%nat -> sw st k = w0 (k - 1)%nat) /\
  (forall k, (i < k)%nat -> sw st k = w0 k) /\
  (forall k, (j <= k < i)%nat -> w0 k < swv).

Lemma shell_shift1_spec m n (w0 : nat -> R) swv i :
  forall fuel j st, (j < fuel)%nat -> (1 <= j)%nat -> shift1_inv w0 swv i j st ->
    let r := shell_shift ROps fuel m n 1 swv j st in
    shift1_inv w0 swv i (fst r) (snd r) /\ (fst r = 0%nat \/ swv <= w0 (fst r - 1)%nat).
Proof.
  induction fuel as [|f IH]; intros j st Hf Hj1 Hinv; [lia|].
  cbv zeta. rewrite shell_shift_S.
  destruct Hinv as (Hji & Hlo & Hmid & Hhi & Hlt).
  assert (Hread : sw st (j - 1)%nat = w0 (j - 1)%nat) by (apply Hlo; lia).
  destruct (Rltb (sw st (j - 1)%nat) swv) eqn:Hcmp.
  - apply Rltb_true in Hcmp. rewrite Hread in Hcmp. cbv zeta.
    set (st1 := mkSVD _ _ _ _).
    assert (Hinv1 : shift1_inv w0 swv i (j - 1)%nat st1).
    { unfold shift1_inv, st1. cbn [sw]. split; [lia|]. split; [|split; [|split]].
      - intros k Hk. rewrite updv_other by lia. apply Hlo. lia.
      - intros k Hk. destruct (Nat.eq_dec k j) as [->|Hne].
        + rewrite updv_same. exact Hread.
        + rewrite updv_other by congruence. apply Hmid. lia.
      - intros k Hk. rewrite updv_other by lia. apply Hhi. lia.
      - intros k Hk. destruct (Nat.eq_dec k (j - 1)%nat) as [->|Hne]; [exact Hcmp|]. apply Hlt. lia. }
    destruct (Nat.ltb_spec (j - 1) 1) as [Hlt1|Hge1].
    + cbn [fst snd]. split; [exact Hinv1|]. left. lia.
    + apply (IH (j - 1)%nat st1); [lia|lia|exact Hinv1].
  - apply Rltb_false in Hcmp. rewrite Hread in Hcmp. cbn [fst snd].
    split; [|right; exact Hcmp]. unfold shift1_inv. auto.
Qed.

(* the values after inserting index i >= 1 with increment 1 *)
Lemma shell_insert1_spec m n i (st : @svd_st R) :
  (1 <= i)%nat ->
  let w := sw st in let w' := sw (shell_insert ROps m n 1 i st) in
  exists j, (j <= i)%nat /\
    (forall k, (k < j)%nat -> w' k = w k) /\ w' j = w i /\
    (forall k, (j < k <= i)%nat -> w' k = w (k - 1)%nat) /\
    (forall k, (i < k)%nat -> w' k = w k) /\
    (forall k, (j <= k < i)%nat -> w k < w i) /\
    (j = 0%nat \/ w i <= w (j - 1)%nat).
Proof.
  intros Hi w w'. subst w w'. rewrite shell_insert_eq. cbv zeta. cbn [sw].
  destruct (shell_shift1_spec m n (sw st) (sw st i) i (S i) i st ltac:(lia) Hi) as [Hinv Hstop].
  { unfold shift1_inv. split; [lia|]. split; [auto|]. split; [intros; lia|]. split; [auto|]. intros; lia. }
  cbv zeta in Hinv, Hstop.
  set (r := shell_shift ROps (S i) m n 1 (sw st i) i st) in *.
  destruct Hinv as (Hji & Hlo & Hmid & Hhi & Hlt).
  exists (fst r). split; [exact Hji|]. split; [|split; [|split; [|split; [|split]]]].
  - intros k Hk. rewrite updv_other by lia. auto.
  - apply updv_same.
  - intros k Hk. rewrite updv_other by lia. auto.
  - intros k Hk. rewrite updv_other by lia. auto.
  - exact Hlt.
  - exact Hstop.
Qed.

Definition sorted_upto (c : nat) (w : nat -> R) : Prop :=
  forall a b, (a <= b)%nat -> (b <= c)%nat -> w b <= w a.

Lemma shell_insert1_sorted m n i (st : @svd_st R) :
  (1 <= i)%nat -> sorted_upto (i - 1) (sw st) -> sorted_upto i (sw (shell_insert ROps m n 1 i st)).
Proof.
  intros Hi Hs.
  destruct (shell_insert1_spec m n i st Hi) as (j & Hji & Hlo & Hat & Hmid & _ & Hlt & Hstop).
  cbv zeta in *. set (w := sw st) in *. set (w' := sw (shell_insert ROps m n 1 i st)) in *.
  intros a b Hab Hb.
  destruct (lt_eq_lt_dec b j) as [[Hbj|Hbj]|Hbj].
  - (* a <= b < j *) rewrite (Hlo b), (Hlo a) by lia. apply Hs; lia.
  - (* b = j *) subst b. rewrite Hat.
    destruct (Nat.eq_dec a j) as [->|Hne]; [rewrite Hat; apply Rle_refl|].
    rewrite (Hlo a) by lia. destruct Hstop as [->|Hstop]; [lia|].
    apply Rle_trans with (w (j - 1)%nat); [exact Hstop|]. apply Hs; lia.
  - (* j < b *) rewrite (Hmid b) by lia.
    destruct (lt_eq_lt_dec a j) as [[Haj|Haj]|Haj].
    + rewrite (Hlo a) by lia. apply Hs; lia.
    + subst a. rewrite Hat. apply Rlt_le. apply Hlt. lia.
    + rewrite (Hmid a) by lia. apply Hs; lia.
Qed.

Theorem insertion_pass_sorted : forall m n (st : @svd_st R),
  let st' := for_up (n - 1) 1 (shell_insert ROps m n 1) st in
  forall a b, (a <= b)%nat -> (b < n)%nat -> sw st' b <= sw st' a.
Proof.
  intros m n st st' a b Hab Hb.
  assert (H : sorted_upto (n - 1) (sw st')).
  { unfold st'. apply (for_up_inv (fun c st1 => sorted_upto c (sw st1))).
    - intros x y Hxy Hy. replace y with 0%nat by lia. replace x with 0%nat by lia. apply Rle_refl.
    - intros c st1 Hc Hs. replace (S c) with (1 + c)%nat by lia.
      apply shell_insert1_sorted; [lia|]. replace (1 + c - 1)%nat with c by lia. exact Hs. }
  apply H; lia.
Qed.

(* ---------- the increments: 1, 4, 13, 40, ...; the last pass has increment 1 ---------- *)
Fixpoint shell_seq (k : nat) : nat := match k with 0 => 1 | S k' => 3 * shell_seq k' + 1 end.
Lemma shell_seq_S k : shell_seq (S k) = (3 * shell_seq k + 1)%nat.
Proof. reflexivity. Qed.
Lemma shell_seq_pos k : (1 <= shell_seq k)%nat.
Proof. induction k as [|k IH]; [cbn; lia|]. rewrite shell_seq_S. lia. Qed.
Lemma shell_seq_div k : (shell_seq (S k) / 3 = shell_seq k)%nat.
Proof. rewrite shell_seq_S. symmetry. apply (Nat.div_unique _ 3 _ 1); lia. Qed.

Lemma shell_inc0_S fuel inc n :
  shell_inc0 (S fuel) inc n = if (n <? 3 * inc + 1)%nat then (3 * inc + 1)%nat else shell_inc0 fuel (3 * inc + 1) n.
Proof. reflexivity. Qed.

(* the initial increment is a member of the sequence whose index is at most the fuel *)
Lemma shell_inc0_seq n : forall fuel k,
  exists k', (k <= k' <= k + fuel)%nat /\ ((0 < fuel)%nat -> (k < k')%nat) /\
             shell_inc0 fuel (shell_seq k) n = shell_seq k'.
Proof.
  induction fuel as [|f IH]; intros k.
  - exists k. cbn [shell_inc0]. repeat split; lia.
  - rewrite shell_inc0_S. rewrite <- shell_seq_S.
    destruct (n <? shell_seq (S k))%nat.
    + exists (S k). repeat split; lia.
    + destruct (IH (S k)) as (k' & Hk' & _ & Heq). exists k'. repeat split; lia.
Qed.

(* the fuel S n of the increment loop is not exhausted: the loop leaves through `inc > n` *)
Lemma shell_inc0_gt : forall fuel inc n, (n < inc + fuel)%nat -> (n < shell_inc0 fuel inc n)%nat.
Proof.
  induction fuel as [|f IH]; intros inc n H.
  - cbn [shell_inc0]. lia.
  - rewrite shell_inc0_S. destruct (Nat.ltb_spec n (3 * inc + 1)) as [Hlt|Hge]; [exact Hlt|].
    apply IH. lia.
Qed.
Corollary shell_inc0_start_gt n : (n < shell_inc0 (S n) 1 n)%nat.
Proof. apply shell_inc0_gt. lia. Qed.

(* with at least k units of fuel, the passes started from the k-th increment end with the pass for
   increment 1: the fuel is not exhausted *)
Lemma shell_passes_last m n : forall fuel k (st : @svd_st R),
  (1 <= k <= fuel)%nat ->
  exists st0, shell_passes ROps fuel m n (shell_seq k) st = for_up (n - 1) 1 (shell_insert ROps m n 1) st0.
Proof.
  induction fuel as [|f IH]; intros k st Hk; [lia|].
  destruct k as [|k0]; [lia|].
  rewrite shell_passes_S, shell_seq_div.
  destruct k0 as [|k1].
  - cbn [shell_seq]. cbn [Nat.leb]. exists st. reflexivity.
  - assert (H4 : (4 <= shell_seq (S k1))%nat) by (rewrite shell_seq_S; pose proof (shell_seq_pos k1); lia).
    destruct (Nat.leb_spec (shell_seq (S k1)) 1) as [Hle|_]; [lia|].
    apply IH. lia.
Qed.

Lemma svd_sort_last_pass m n (st : @svd_st R) :
  exists st0, svd_sort ROps m n st = for_up (n - 1) 1 (shell_insert ROps m n 1) st0.
Proof.
  unfold svd_sort.
  destruct (shell_inc0_seq n (S n) 0) as (k' & Hk' & Hpos & Heq).
  change (shell_seq 0) with 1%nat in Heq. rewrite Heq.
  apply shell_passes_last. specialize (Hpos ltac:(lia)). lia.
Qed.

(* (B3) *)
Theorem svd_sort_sorted : forall m n st, let st' := svd_sort ROps m n st in
  forall a b, (a <= b)%nat -> (b < n)%nat -> sw st' b <= sw st' a.
Proof.
  intros m n st st' a b Hab Hb. unfold st'.
  destruct (svd_sort_last_pass m n st) as [st0 ->].
  apply insertion_pass_sorted; assumption.
Qed.

(* (B4) *)
Theorem svd_post_invariant : forall m n st, let st' := svd_post ROps m n st in
  (exists sigma e, col_rel m n st st' sigma e) /\
  (forall i k, (i < m)%nat -> (k < n)%nat ->
     rsum n (fun j => sU st' i j * sw st' j * sV st' k j) = rsum n (fun j => sU st i j * sw st j * sV st k j)) /\
  (forall a b, (a <= b)%nat -> (b < n)%nat -> sw st' b <= sw st' a) /\
  ((forall j, (j < n)%nat -> 0 <= sw st j) -> forall j, (j < n)%nat -> 0 <= sw st' j) /\
  (orthocols m n (sU st) -> orthocols m n (sU st')) /\ (orthocols n n (sV st) -> orthocols n n (sV st')).
Proof.
  intros m n st st'.
  destruct (svd_post_invariant_partial m n st) as (H1 & H2 & H4 & H5 & H6). fold st' in H1, H2, H4, H5, H6.
  split; [exact H1|]. split; [exact H2|]. split; [|split; [exact H4|split; [exact H5|exact H6]]].
  intros a b Hab Hb. unfold st', svd_post.
  destruct (svd_signs_rel m n (svd_sort ROps m n st)) as (e & _ & _ & _ & Hw & _ & _).
  rewrite !Hw by lia. apply svd_sort_sorted; assumption.
Qed.

(* ---------- sign normalisation leaves a state without negative entries alone ---------- *)
Lemma count_neg_zero rows k (A : @Mx R) :
  (forall i, (i < rows)%nat -> 0 <= A i k) -> count_neg ROps rows k A = 0%nat.
Proof.
  intros H. unfold count_neg.
  apply (for_up_inv (fun (_ : nat) (c : nat) => c = 0%nat)); [reflexivity|].
  intros c s' Hc ->. cbn [oltb o0 ROps]. rewrite (proj2 (Rltb_false _ _)); [reflexivity|].
  apply H. lia.
Qed.

Lemma svd_signs_nonneg m n (st : @svd_st R) :
  (forall i k, (i < m)%nat -> (k < n)%nat -> 0 <= sU st i k) ->
  (forall i k, (i < n)%nat -> (k < n)%nat -> 0 <= sV st i k) ->
  svd_signs ROps m n st = st.
Proof.
  intros HU HV. unfold svd_signs.
  apply (for_up_inv (fun (_ : nat) st1 => st1 = st)); [reflexivity|].
  intros c s' Hc ->.
  rewrite !count_neg_zero by (intros; first [apply HU | apply HV]; lia).
  destruct (Nat.ltb_spec (m + n) (2 * (0 + 0))); [lia|reflexivity].
Qed.

(* ====================================================================== *)
(* Examples                                                                *)
(* ====================================================================== *)

(* (A5) the hypotheses of svd_solve_lsq are satisfiable: U = V = I (2 x 2), s = (2, 0) (exact rank
   deficiency) and s = (2, 1) (full rank), for every machine epsilon in [0, 1/4] *)
Lemma identity_orthocols2 : orthocols 2 2 (identity ROps).
Proof.
  intros a b Ha Hb. unfold rsum, identity.
  destruct a as [|[|a]]; [| |lia]; (destruct b as [|[|b]]; [| |lia]); cbn; lra.
Qed.
Lemma identity_orthorows2 : orthorows 2 (identity ROps).
Proof.
  intros a b Ha Hb. unfold rsum, identity.
  destruct a as [|[|a]]; [| |lia]; (destruct b as [|[|b]]; [| |lia]); cbn; lra.
Qed.
Lemma sqrt5_lt_3 : sqrt 5 < 3.
Proof.
  replace 3 with (sqrt (3 * 3)) by (apply sqrt_square; lra). apply sqrt_lt_1_alt. lra.
Qed.
Lemma svd_tol_22 eps (s : nat -> R) : svd_tol ROps eps 2 2 s = / 2 * sqrt 5 * s 0%nat * eps.
Proof.
  unfold svd_tol, half, two, oofnat. cbn [omul odiv oadd osqrt o1 oofZ ROps Nat.add Z.of_nat Pos.of_succ_nat Pos.succ].
  replace (4 + 1) with 5 by lra. unfold Rdiv. rewrite Rmult_1_l. reflexivity.
Qed.

Example svd_lsq_hyps_rank_deficient : forall eps, 0 <= eps <= / 4 ->
  let U := identity ROps in let V := identity ROps in
  let s := fun j : nat => if Nat.eqb j 0 then 2 else 0 in
  orthocols 2 2 U /\ orthocols 2 2 V /\ orthorows 2 V /\
  (forall j, (j < 2)%nat -> svd_tol ROps eps 2 2 s < s j \/ s j = 0).
Proof.
  intros eps He U V s.
  split; [apply identity_orthocols2|]. split; [apply identity_orthocols2|]. split; [apply identity_orthorows2|].
  intros j Hj. rewrite svd_tol_22. pose proof sqrt5_lt_3 as H3. pose proof (sqrt_pos 5) as H0.
  destruct j as [|[|j]]; [left|right|lia]; unfold s; cbn [Nat.eqb]; [nra|reflexivity].
Qed.

Example svd_lsq_hyps_full_rank : forall eps, 0 <= eps <= / 4 ->
  let U := identity ROps in let V := identity ROps in
  let s := fun j : nat => if Nat.eqb j 0 then 2 else 1 in
  orthocols 2 2 U /\ orthocols 2 2 V /\ orthorows 2 V /\
  (forall j, (j < 2)%nat -> svd_tol ROps eps 2 2 s < s j \/ s j = 0).
Proof.
  intros eps He U V s.
  split; [apply identity_orthocols2|]. split; [apply identity_orthocols2|]. split; [apply identity_orthorows2|].
  intros j Hj. rewrite svd_tol_22. pose proof sqrt5_lt_3 as H3. pose proof (sqrt_pos 5) as H0.
  left. destruct j as [|[|j]]; [| |lia]; unfold s; cbn [Nat.eqb]; nra.
Qed.

(* hence, e.g., the normal equations for A = diag(2, 0) and any right-hand side *)
Example svd_lsq_rank_deficient_instance : forall eps p (b : @Mx R), 0 <= eps <= / 4 ->
  let s := fun j : nat => if Nat.eqb j 0 then 2 else 0 in
  let A := svd_A 2 (identity ROps) s (identity ROps) in
  let X := svd_solve ROps eps 2 2 p (identity ROps) s (identity ROps) b in
  forall c k, (c < 2)%nat -> (k < p)%nat ->
    rsum 2 (fun i => A i c * (rsum 2 (fun t => A i t * X t k) - b i k)) = 0.
Proof.
  intros eps p b He s A X.
  destruct (svd_lsq_hyps_rank_deficient eps He) as (H1 & H2 & H3 & H4).
  exact (svd_solve_lsq eps 2 2 p (identity ROps) s (identity ROps) b H1 H2 H3 H4).
Qed.

(* (B5) w = (1, 2), U = V = I: the two columns are exchanged *)
Definition ex_st : @svd_st R :=
  mkSVD (identity ROps) (identity ROps) (fun j => if Nat.eqb j 0 then 1 else 2) (fun _ => 0).

Lemma ex_sort_eq :
  svd_sort ROps 2 2 ex_st =
  mkSVD (copy_col 2 (copy_col 2 (identity ROps) 1 (fun k => identity ROps k 0%nat)) 0 (fun k => identity ROps k 1%nat))
        (copy_col 2 (copy_col 2 (identity ROps) 1 (fun k => identity ROps k 0%nat)) 0 (fun k => identity ROps k 1%nat))
        (updv (updv (fun j => if Nat.eqb j 0 then 1 else 2) 1 1) 0 2) (fun _ => 0).
Proof.
  unfold svd_sort. change (shell_inc0 3 1 2) with 4%nat. rewrite shell_passes_S.
  change (4 / 3)%nat with 1%nat. cbn [Nat.leb Nat.sub for_up Nat.add].
  rewrite shell_insert_eq. rewrite shell_shift_S.
  cbn [ex_st sw Nat.sub Nat.eqb].
  rewrite (proj2 (Rltb_true 1 2)) by lra.
  cbn [Nat.ltb Nat.leb fst snd sU sV sw srv1]. reflexivity.
Qed.

Example svd_post_example :
  let st' := svd_post ROps 2 2 ex_st in
  sw st' 0%nat = 2 /\ sw st' 1%nat = 1 /\
  (forall i j, (i < 2)%nat -> (j < 2)%nat -> sU st' i j = identity ROps i (1 - j)%nat) /\
  (forall i j, (i < 2)%nat -> (j < 2)%nat -> sV st' i j = identity ROps i (1 - j)%nat).
Proof.
  cbv zeta. unfold svd_post. rewrite ex_sort_eq.
  rewrite svd_signs_nonneg.
  - cbn [sw sU sV]. split; [reflexivity|]. split; [reflexivity|].
    split; intros i j Hi Hj; (destruct i as [|[|i]]; [| |lia]); (destruct j as [|[|j]]; [| |lia]); reflexivity.
  - cbn [sU]. intros i j Hi Hj.
    (destruct i as [|[|i]]; [| |lia]); (destruct j as [|[|j]]; [| |lia]); cbn; lra.
  - cbn [sV]. intros i j Hi Hj.
    (destruct i as [|[|i]]; [| |lia]); (destruct j as [|[|j]]; [| |lia]); cbn; lra.
Qed.
